#define _GNU_SOURCE
#include <stdio.h>
#include <stdlib.h>
#include <unistd.h>
#include <time.h>
#include <qb/qbdefs.h>
#include <qb/qbloop.h>
static qb_loop_t *l;
static int longfired, shortfired; static uint64_t t0, tshort;
static uint64_t now_ns(void){struct timespec ts;clock_gettime(CLOCK_MONOTONIC,&ts);return ts.tv_sec*1000000000ULL+ts.tv_nsec;}
static void longcb(void *p){ longfired++; printf("long timer %ld fired!\n", (long)p); }
static void shortcb(void *p){ shortfired++; tshort = now_ns(); }
static void stopcb(void *p){ qb_loop_stop(l); }
#define NJ 100000
static int jn; static int jbad;
static void jcb(void *p){ if ((long)p != jn) { if (!jbad) printf("job order: got %ld expected %d\n", (long)p, jn); jbad = 1; } jn++; if (jn % 3 == 0 && jn + 1 < NJ) { /* delete the next odd one ahead */ } if (jn == NJ) qb_loop_stop(l); }
int main(int argc, char **argv)
{
	int bad = 0, i, rc;
	l = qb_loop_create();
	if (argv[1][0] == 'I') {
		uint64_t durs[] = { UINT64_MAX, UINT64_MAX - 1, UINT64_MAX - now_ns(), UINT64_MAX - now_ns() - 1000, 1ULL << 63, (1ULL << 63) - 1, 1ULL << 62, (uint64_t)INT32_MAX * 1000000ULL, ((uint64_t)INT32_MAX + 1) * 1000000ULL, 1ULL << 32, 3600ULL * 1000000000ULL };
		qb_loop_timer_handle h[11], hs;
		for (i = 0; i < 11; i++) { rc = qb_loop_timer_add(l, i % 3, durs[i], (void*)(long)i, longcb, &h[i]); if (rc) { printf("add %d rc %d\n", i, rc); bad = 1; } }
		t0 = now_ns();
		qb_loop_timer_add(l, QB_LOOP_MED, 30 * QB_TIME_NS_IN_MSEC, NULL, shortcb, &hs);
		qb_loop_timer_add(l, QB_LOOP_MED, 200 * QB_TIME_NS_IN_MSEC, NULL, stopcb, NULL);
		qb_loop_run(l);
		printf("short fired %d after %lu ms; long fired %d\n", shortfired, (unsigned long)((tshort - t0) / 1000000), longfired);
		if (shortfired != 1 || longfired || (tshort - t0) > 100000000ULL || (tshort - t0) < 30000000ULL) bad = 1;
		for (i = 0; i < 11; i++) { rc = qb_loop_timer_del(l, h[i]); if (rc) { printf("del %d rc %d\n", i, rc); bad = 1; } }
		for (i = 0; i < 11; i++) { rc = qb_loop_timer_del(l, h[i]); if (!rc) { printf("2nd del %d rc %d\n", i, rc); bad = 1; } }
		rc = qb_loop_timer_del(l, hs); if (!rc) { printf("del of fired rc 0\n"); bad = 1; }
	} else {
		for (i = 0; i < NJ; i++) qb_loop_job_add(l, QB_LOOP_MED, (void*)(long)i, jcb);
		qb_loop_run(l);
		printf("jobs run %d bad order %d\n", jn, jbad);
		bad = jbad || jn != NJ;
	}
	printf(bad ? "VIOLATED\n" : "held\n");
	return bad;
}
