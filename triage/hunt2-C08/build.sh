#!/bin/sh
# usage: build.sh [tree]   (default /repo)
T=${1:-/repo}
set -e
cd "$(dirname "$0")"
SRCS="$T/lib/loop.c $T/lib/loop_job.c $T/lib/loop_timerlist.c $T/lib/loop_poll.c $T/lib/loop_poll_epoll.c"
gcc -g -O1 -fno-omit-frame-pointer -fsanitize=address,undefined -fno-sanitize-recover=undefined \
  -DHAVE_CONFIG_H -I$T/include -I$T/include/qb -I$T/lib \
  -o fuzz fuzz.c $SRCS -L$T/lib/.libs -lqb -lpthread
