#define _GNU_SOURCE
#include <stdio.h>
#include <stdlib.h>
#include <string.h>
#include <unistd.h>
#include <fcntl.h>
#include <poll.h>
#include <errno.h>
#include <sys/socket.h>
#include <sys/eventfd.h>
#include <sys/timerfd.h>
#include <qb/qbdefs.h>
#include <qb/qbloop.h>
static qb_loop_t *l;
static int calls[8];
static int efd, tfd, pfd[2], sv[2], rfd;
static int32_t cb(int32_t fd, int32_t re, void *p){ uint64_t v; char c; long i = (long)p; calls[i]++;
	if (i == 0) (void)read(fd, &v, 8);
	if (i == 1) (void)read(fd, &v, 8);
	if (i == 2) (void)read(fd, &c, 1);
	if (i == 3) { /* POLLHUP: peer closed */ if (calls[3] == 3) return -1; }
	return 0; }
static int ticks;
static void tick(void *d){ ticks++; if (ticks == 1) { uint64_t one = 1; (void)write(efd, &one, 8); (void)write(pfd[1], "x", 1); close(sv[1]); }
	if (ticks == 40) { qb_loop_stop(l); return; } qb_loop_timer_add(l, QB_LOOP_MED, QB_TIME_NS_IN_MSEC, NULL, tick, NULL); }
int main(void)
{
	int rc, bad = 0; struct itimerspec its = { {0, 2000000}, {0, 2000000} };
	l = qb_loop_create();
	efd = eventfd(0, EFD_NONBLOCK); tfd = timerfd_create(CLOCK_MONOTONIC, TFD_NONBLOCK); timerfd_settime(tfd, 0, &its, NULL);
	pipe(pfd); socketpair(AF_UNIX, SOCK_STREAM, 0, sv);
	rfd = open("/etc/passwd", O_RDONLY);
	rc = qb_loop_poll_add(l, QB_LOOP_MED, rfd, POLLIN, (void*)4, cb); printf("regular file add rc=%d (expected failure)\n", rc); if (rc == 0) bad = 1;
	rc = qb_loop_poll_add(l, QB_LOOP_MED, -1, POLLIN, (void*)4, cb); printf("fd -1 add rc=%d (expected failure)\n", rc); if (rc == 0) bad = 1;
	rc = qb_loop_poll_add(l, QB_LOOP_MED, 999, POLLIN, (void*)4, cb); printf("closed fd add rc=%d (expected failure)\n", rc); if (rc == 0) bad = 1;
	rc = qb_loop_poll_del(l, rfd); printf("del of never-added rc=%d\n", rc); if (rc == 0) bad = 1;
	rc = qb_loop_poll_mod(l, QB_LOOP_MED, rfd, POLLIN, NULL, cb); printf("mod of never-added rc=%d\n", rc); if (rc == 0) bad = 1;
	if (qb_loop_poll_add(l, QB_LOOP_LOW, efd, POLLIN, (void*)0, cb)) bad = 1;
	if (qb_loop_poll_add(l, QB_LOOP_HIGH, tfd, POLLIN, (void*)1, cb)) bad = 1;
	if (qb_loop_poll_add(l, QB_LOOP_MED, pfd[0], POLLIN, (void*)2, cb)) bad = 1;
	if (qb_loop_poll_add(l, QB_LOOP_MED, sv[0], POLLIN, (void*)3, cb)) bad = 1;
	rc = qb_loop_poll_add(l, QB_LOOP_MED, sv[0], POLLOUT, (void*)5, cb); printf("dup add rc=%d (expected failure)\n", rc); if (rc == 0) bad = 1;
	qb_loop_timer_add(l, QB_LOOP_MED, 0, NULL, tick, NULL);
	qb_loop_run(l);
	printf("eventfd %d (1) timerfd %d (>5) pipe %d (1) hup-socket %d (3) failed-regs %d/%d (0)\n", calls[0], calls[1], calls[2], calls[3], calls[4], calls[5]);
	if (calls[0] != 1 || calls[1] < 5 || calls[2] != 1 || calls[3] != 3 || calls[4] || calls[5]) bad = 1;
	printf(bad ? "VIOLATED\n" : "held\n");
	return bad;
}
