/*
 * C08 finding 2: a signal callback that deletes its own registration
 * (qb_loop_signal_del() returns 0) and then returns non-zero makes the loop
 * use and delete the freed registration a second time.
 */
#include <stdio.h>
#include <stdlib.h>
#include <signal.h>
#include <unistd.h>
#include <qb/qbdefs.h>
#include <qb/qbloop.h>

static qb_loop_t *l;
static qb_loop_signal_handle h1, h2;
static int calls1, calls2, rc_del = 12345;

static int32_t other_cb(int32_t sig, void *data)
{
	calls2++;
	qb_loop_stop(l);
	return 0;
}

static int32_t self_deleting_cb(int32_t sig, void *data)
{
	calls1++;
	rc_del = qb_loop_signal_del(l, h1);	/* succeeds */
	/* slot may be reused by an unrelated registration */
	qb_loop_signal_add(l, QB_LOOP_MED, SIGUSR2, NULL, other_cb, &h2);
	return -1;				/* "I am done" */
}

static void later(void *data)
{
	raise(SIGUSR2);
}
static void stop(void *data)
{
	qb_loop_stop(l);
}

int main(void)
{
	int bad = 0;
	l = qb_loop_create();
	qb_loop_signal_add(l, QB_LOOP_MED, SIGUSR1, NULL, self_deleting_cb, &h1);
	raise(SIGUSR1);
	qb_loop_timer_add(l, QB_LOOP_LOW, 20 * QB_TIME_NS_IN_MSEC, NULL, later, NULL);
	qb_loop_timer_add(l, QB_LOOP_LOW, 3000ULL * QB_TIME_NS_IN_MSEC, NULL, stop, NULL);
	qb_loop_run(l);
	printf("self_deleting_cb calls=%d (expected 1), signal_del rc=%d (expected 0)\n", calls1, rc_del);
	printf("other_cb (added in the callback, SIGUSR2 raised later) calls=%d (expected 1)\n", calls2);
	if (calls1 != 1 || rc_del != 0 || calls2 != 1) bad = 1;
	printf(bad ? "VIOLATED\n" : "held\n");
	return bad;
}
