#!/bin/sh
# usage: demo.sh <tree>    exit 0 = property held, non-zero = violated
# runs the demo twice: plain build (shows the functional effect) and ASan build (shows the use-after-free)
T=${1:-/repo}
D=$(cd "$(dirname "$0")" && pwd)
OUT=$(mktemp -d /tmp/hunt2-C08-demo.XXXXXX)
SRCS="$T/lib/loop.c $T/lib/loop_job.c $T/lib/loop_timerlist.c $T/lib/loop_poll.c $T/lib/loop_poll_epoll.c"
INC="-DHAVE_CONFIG_H -I$T/include -I$T/include/qb -I$T/lib"
gcc -g -O1 $INC -o $OUT/demo_plain $D/demo.c $SRCS -L$T/lib/.libs -lqb -lpthread || exit 99
gcc -g -O1 -fsanitize=address,undefined $INC -o $OUT/demo_asan $D/demo.c $SRCS -L$T/lib/.libs -lqb -lpthread || exit 99
echo "--- plain build"
LD_LIBRARY_PATH=$T/lib/.libs $OUT/demo_plain; rc1=$?
echo "--- ASan build"
LD_LIBRARY_PATH=$T/lib/.libs ASAN_OPTIONS=detect_leaks=0 $OUT/demo_asan 2>&1 | grep -v "^  0x\|^Shadow\|^  [A-Z].*:  *[0-9a-f][0-9a-f]$" | head -30
LD_LIBRARY_PATH=$T/lib/.libs ASAN_OPTIONS=detect_leaks=0 $OUT/demo_asan >/dev/null 2>&1; rc2=$?
rm -rf $OUT
echo "plain rc=$rc1 asan rc=$rc2"
[ $rc1 -eq 0 ] && [ $rc2 -eq 0 ]
