#define _GNU_SOURCE
#include <stdio.h>
#include <stdlib.h>
#include <unistd.h>
#include <pthread.h>
#include <stdatomic.h>
#include <qb/qbdefs.h>
#include <qb/qbloop.h>
static qb_loop_t *l;
#define N 20000
static atomic_int fired[N]; static atomic_int total; static atomic_int added; static atomic_int done;
static void cb(void *p){ long i = (long)p; if (atomic_fetch_add(&fired[i], 1) != 0) { printf("timer %ld fired twice\n", i); } atomic_fetch_add(&total, 1); }
static void *worker(void *a){ long i; for (i = 0; i < N; i++) { qb_loop_timer_handle h; int rc = qb_loop_timer_add(l, i % 3, (i % 5) * 200000, (void*)i, cb, &h); if (rc) { printf("add rc %d\n", rc); } else atomic_fetch_add(&added, 1); if ((i % 64) == 0) usleep(100); } done = 1; return NULL; }
static int idle;
static void tick(void *p){ static int last; if (done && total == last) idle++; else idle = 0; last = total; if (done && (total >= added || idle > 200)) { qb_loop_stop(l); return; } qb_loop_timer_add(l, QB_LOOP_LOW, QB_TIME_NS_IN_MSEC, NULL, tick, NULL); }
int main(void){ pthread_t t; long i; int bad = 0;
	l = qb_loop_create();
	qb_loop_timer_add(l, QB_LOOP_LOW, 0, NULL, tick, NULL);
	pthread_create(&t, NULL, worker, NULL);
	qb_loop_run(l);
	pthread_join(t, NULL);
	for (i = 0; i < N; i++) if (fired[i] != 1) { if (bad < 5) printf("timer %ld fired %d\n", i, fired[i]); bad++; }
	printf("added %d fired %d bad %d\n", added, total, bad);
	return bad != 0; }
