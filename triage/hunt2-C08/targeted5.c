#define _GNU_SOURCE
#include <stdio.h>
#include <stdlib.h>
#include <unistd.h>
#include <signal.h>
#include <poll.h>
#include <sys/socket.h>
#include <qb/qbdefs.h>
#include <qb/qbloop.h>
static qb_loop_t *l; static int sigc, jobc, tmc, fdc;
static int32_t scb(int32_t s, void *p){ sigc++; return 0; }
static void jcb(void *p){ jobc++; }
static void tcb(void *p){ tmc++; }
static int32_t fcb(int32_t fd, int32_t re, void *p){ fdc++; return 0; }
static void stopcb(void *p){ qb_loop_stop(l); }
int main(void)
{
	int i, sv[2], bad = 0;
	for (i = 0; i < 50; i++) {
		qb_loop_signal_handle h; qb_loop_timer_handle th;
		l = qb_loop_create();
		socketpair(AF_UNIX, SOCK_STREAM, 0, sv); (void)write(sv[1], "x", 1);
		qb_loop_signal_add(l, QB_LOOP_MED, SIGUSR1, NULL, scb, &h);
		qb_loop_poll_add(l, QB_LOOP_MED, sv[0], POLLIN, NULL, fcb);
		qb_loop_job_add(l, QB_LOOP_LOW, NULL, jcb);
		qb_loop_timer_add(l, QB_LOOP_MED, 0, NULL, tcb, &th);
		qb_loop_timer_add(l, QB_LOOP_HIGH, 2 * QB_TIME_NS_IN_MSEC, NULL, stopcb, NULL);
		raise(SIGUSR1);
		qb_loop_run(l);
		/* leave things pending/queued at destroy */
		raise(SIGUSR1);
		qb_loop_job_add(l, QB_LOOP_LOW, NULL, jcb);
		qb_loop_timer_add(l, QB_LOOP_MED, 0, NULL, tcb, &th);
		if (i & 1) qb_loop_signal_del(l, h);
		qb_loop_destroy(l);
		close(sv[0]); close(sv[1]);
		if (!(i & 1)) { signal(SIGUSR1, SIG_IGN); }
	}
	printf("sig %d job %d timer %d fd %d\n", sigc, jobc, tmc, fdc);
	if (sigc != 50 || jobc != 50 || tmc != 50 || fdc < 50) bad = 1;
	printf(bad ? "VIOLATED\n" : "held\n");
	return bad;
}
