#!/bin/sh
# usage: demo.sh <libqb tree (configured and built)>
# exit 0 = property held, non-zero = broken (1) / scenario did not play out (2)
T=${1:?libqb tree}
D=$(cd "$(dirname "$0")" && pwd)
B=$(mktemp -d /tmp/d95-demo.XXXXXX)
gcc -g -O0 -Wall -o "$B/demo" "$D/demo.c" -I"$T/include" -I"$T/include/qb" \
    -L"$T/lib/.libs" -lqb -lpthread || exit 2
LD_LIBRARY_PATH="$T/lib/.libs" "$B/demo"
rc=$?
rm -rf "$B"
exit $rc
