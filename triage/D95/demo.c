/*
 * D95 demo (adapted from seeded/C04-s3): shared-memory transport, the header
 * file of the response ring is truncated while the connection is still ACTIVE
 * and the server disconnects it from inside connection_created().
 *
 * The application's poll handlers are thin wrappers round qb_loop_poll_*()
 * that remember which (fd, data) pairs the library has registered.  The
 * property is checked without a sanitizer:
 *   - when connection_destroyed(c) runs, no registration may carry c any more;
 *   - no descriptor event may be dispatched with a destroyed connection as
 *     its data (the wrapper does not forward such an event, it only reports).
 *
 * exit 0: property held; 1: broken; 2: the scenario did not play out.
 */
#include <sys/types.h>
#include <sys/wait.h>
#include <sys/stat.h>
#include <stdio.h>
#include <stdlib.h>
#include <string.h>
#include <unistd.h>
#include <glob.h>
#include <signal.h>
#include <poll.h>
#include <errno.h>

#include <qb/qbdefs.h>
#include <qb/qbloop.h>
#include <qb/qbipcs.h>
#include <qb/qbipcc.h>

#define MSG_DISCONNECT_ME (QB_IPC_MSG_USER_START + 1)
#define MAX_FD 1024

static qb_loop_t *loop;
static qb_ipcs_service_t *svc;
static char svc_name[64];

static int n_accept, n_created, n_msg, n_closed, n_destroyed;
static int broken;
static void *destroyed_conn;	/* address only, never dereferenced */

struct reg {
	int live;
	void *data;
	qb_ipcs_dispatch_fn_t fn;
};
static struct reg regs[MAX_FD];

static int32_t
trampoline(int32_t fd, int32_t revents, void *data)
{
	struct reg *r = data;

	if (destroyed_conn != NULL && r->data == destroyed_conn) {
		fprintf(stderr, "BROKEN: event 0x%x on fd %d dispatched to the "
			"destroyed connection %p\n", revents, fd, r->data);
		broken = 1;
		if (getenv("C04_FORWARD") != NULL) {
			/* let the library run on the freed connection, for
			 * valgrind / ASan to see */
			return r->fn(fd, revents, r->data);
		}
		/* do not let the library run on freed memory: take it out */
		r->live = 0;
		return -1;
	}
	return r->fn(fd, revents, r->data);
}

static int32_t
my_dispatch_add(enum qb_loop_priority p, int32_t fd, int32_t evts,
		void *data, qb_ipcs_dispatch_fn_t fn)
{
	int32_t res;

	if (fd < 0 || fd >= MAX_FD) {
		return -EINVAL;
	}
	regs[fd].data = data;
	regs[fd].fn = fn;
	res = qb_loop_poll_add(loop, p, fd, evts, &regs[fd], trampoline);
	if (res == 0) {
		regs[fd].live = 1;
	}
	return res;
}

static int32_t
my_dispatch_mod(enum qb_loop_priority p, int32_t fd, int32_t evts,
		void *data, qb_ipcs_dispatch_fn_t fn)
{
	if (fd < 0 || fd >= MAX_FD) {
		return -EINVAL;
	}
	regs[fd].data = data;
	regs[fd].fn = fn;
	return qb_loop_poll_mod(loop, p, fd, evts, &regs[fd], trampoline);
}

static int32_t
my_dispatch_del(int32_t fd)
{
	if (fd < 0 || fd >= MAX_FD) {
		return -EINVAL;
	}
	regs[fd].live = 0;
	return qb_loop_poll_del(loop, fd);
}

static int32_t
my_job_add(enum qb_loop_priority p, void *data, qb_loop_job_dispatch_fn fn)
{
	return qb_loop_job_add(loop, p, data, fn);
}

static int32_t
cb_accept(qb_ipcs_connection_t *c, uid_t uid, gid_t gid)
{
	n_accept++;
	return 0;
}

static void truncate_response_header(void);

static void
cb_created(qb_ipcs_connection_t *c)
{
	n_created++;
	/*
	 * What the connecting client may do at this very moment: the ring
	 * files carry its uid.  Done here so that the demo does not depend on
	 * winning the race.  Then the server disconnects the connection from
	 * inside connection_created (state ACTIVE).
	 */
	truncate_response_header();
	qb_ipcs_disconnect(c);
}

static int32_t
cb_msg(qb_ipcs_connection_t *c, void *data, size_t size)
{
	struct qb_ipc_request_header *hdr = data;

	n_msg++;
	if (hdr->id == MSG_DISCONNECT_ME) {
		/* server-initiated disconnect from inside a callback */
		qb_ipcs_disconnect(c);
	}
	return 0;
}

static int32_t
cb_closed(qb_ipcs_connection_t *c)
{
	n_closed++;
	return 0;
}

static void
cb_destroyed(qb_ipcs_connection_t *c)
{
	int fd;

	n_destroyed++;
	destroyed_conn = c;
	for (fd = 0; fd < MAX_FD; fd++) {
		if (regs[fd].live && regs[fd].data == (void *)c) {
			fprintf(stderr, "BROKEN: connection %p is being destroyed "
				"but fd %d is still registered in the main loop "
				"with it as callback data\n", (void *)c, fd);
			broken = 1;
		}
	}
}

static void
stop_loop(void *data)
{
	qb_loop_stop(loop);
}



static void
truncate_response_header(void)
{
	char pattern[256];
	glob_t g;
	size_t i;

	snprintf(pattern, sizeof(pattern),
		 "/dev/shm/qb-%d-*/qb-response-%s-header",
		 (int)getpid(), svc_name);
	if (glob(pattern, 0, NULL, &g) != 0 || g.gl_pathc == 0) {
		fprintf(stderr, "no response ring header (%s)\n", pattern);
		return;
	}
	for (i = 0; i < g.gl_pathc; i++) {
		if (truncate(g.gl_pathv[i], 0) != 0) {
			perror("truncate");
		}
	}
	globfree(&g);
}

static void
client(pid_t server_pid)
{
	qb_ipcc_connection_t *conn;
	int tries;

	for (tries = 0; tries < 50; tries++) {
		conn = qb_ipcc_connect(svc_name, 8192);
		if (conn != NULL) {
			break;
		}
		usleep(20000);
	}
	if (conn == NULL) {
		fprintf(stderr, "client: cannot connect\n");
		_exit(3);
	}

	/* let the server act, then die without a word: POLLHUP over there */
	usleep(300000);
	_exit(0);
}

/*
 * A ring whose header was truncated cannot be closed properly by the server
 * (with or without the change): remove what this run left in /dev/shm.
 */
static void
cleanup_leftovers(pid_t server_pid, pid_t client_pid)
{
	char pattern[256];
	glob_t g;
	size_t i;

	snprintf(pattern, sizeof(pattern), "/dev/shm/qb-%d-%d-*/qb-*-%s-*",
		 (int)server_pid, (int)client_pid, svc_name);
	if (glob(pattern, 0, NULL, &g) == 0) {
		for (i = 0; i < g.gl_pathc; i++) {
			unlink(g.gl_pathv[i]);
		}
		globfree(&g);
	}
	snprintf(pattern, sizeof(pattern), "/dev/shm/qb-%d-%d-*",
		 (int)server_pid, (int)client_pid);
	if (glob(pattern, 0, NULL, &g) == 0) {
		for (i = 0; i < g.gl_pathc; i++) {
			rmdir(g.gl_pathv[i]);
		}
		globfree(&g);
	}
}

int
main(void)
{
	struct qb_ipcs_service_handlers sh = {
		.connection_accept = cb_accept,
		.connection_created = cb_created,
		.msg_process = cb_msg,
		.connection_closed = cb_closed,
		.connection_destroyed = cb_destroyed,
	};
	struct qb_ipcs_poll_handlers ph = {
		.job_add = my_job_add,
		.dispatch_add = my_dispatch_add,
		.dispatch_mod = my_dispatch_mod,
		.dispatch_del = my_dispatch_del,
	};
	qb_loop_timer_handle th;
	pid_t server_pid = getpid();
	pid_t pid;
	int status = 0;

	snprintf(svc_name, sizeof(svc_name), "d95demo-%d", (int)server_pid);

	loop = qb_loop_create();
	svc = qb_ipcs_create(svc_name, 0, QB_IPC_SHM, &sh);
	if (loop == NULL || svc == NULL) {
		return 2;
	}
	qb_ipcs_poll_handlers_set(svc, &ph);
	if (qb_ipcs_run(svc) != 0) {
		fprintf(stderr, "qb_ipcs_run failed\n");
		return 2;
	}

	pid = fork();
	if (pid == 0) {
		client(server_pid);
	}

	qb_loop_timer_add(loop, QB_LOOP_LOW, 1500 * QB_TIME_NS_IN_MSEC, NULL,
			  stop_loop, &th);
	qb_loop_run(loop);

	waitpid(pid, &status, 0);
	qb_ipcs_destroy(svc);
	cleanup_leftovers(server_pid, pid);

	printf("accept=%d created=%d msg=%d closed=%d destroyed=%d client=%d\n",
	       n_accept, n_created, n_msg, n_closed, n_destroyed,
	       WIFEXITED(status) ? WEXITSTATUS(status) : -1);

	if (broken) {
		printf("RESULT: property C04 BROKEN\n");
		return 1;
	}
	if (!WIFEXITED(status) || WEXITSTATUS(status) != 0 ||
	    n_accept != 1 || n_created != 1 || n_destroyed != 1) {
		printf("RESULT: scenario did not play out\n");
		return 2;
	}
	printf("RESULT: property held\n");
	return 0;
}
