#!/bin/sh
# usage: demo.sh <tree> [full]     exit 0 = property held, non-zero = violated
# (takes 1-3 minutes: 2^31 calls of qb_hdb_handle_get)
T=${1:-/repo}
D=$(cd "$(dirname "$0")" && pwd)
O=$(mktemp -d /tmp/hunt3-C20-f1.XXXXXX)
gcc -O2 -g -DHAVE_CONFIG_H -I$T/include -I$T/include/qb -I$T/lib -o $O/demo $D/demo.c \
   $T/lib/hdb.c $T/lib/array.c -L$T/lib/.libs -lqb -lpthread || exit 99
LD_LIBRARY_PATH=$T/lib/.libs $O/demo $2
rc=$?
rm -rf $O
exit $rc
