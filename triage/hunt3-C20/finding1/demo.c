/*
 * C20 finding 1: the reference count is a plain int32 that wraps.
 *
 * create; 2^31-1 x get (all succeed)  =>  count should be 2^31 (or the get that
 * cannot be counted should have been refused).  Instead the counter wraps to
 * INT32_MIN: refcount_get() reports a negative number (= "error"), every put of
 * the 2^31-1 outstanding references is refused with -EBADF, destroy fails but
 * leaves the object in "pending removal" for ever, the destructor never runs.
 *
 * With argument "full" 2^32 gets are issued in total: the counter comes back to
 * 1 and a single put then runs the destructor and frees the instance while 2^32
 * references are outstanding.
 */
#include <stdio.h>
#include <stdlib.h>
#include <string.h>
#include <stdint.h>
#include <errno.h>
#include <qb/qbdefs.h>
#include <qb/qbhdb.h>

static int dtor_runs;
static void dtor(void *p) { (void)p; dtor_runs++; }

int main(int argc, char **argv)
{
	struct qb_hdb db;
	qb_handle_t h;
	void *p;
	int64_t i, gets = 0, puts = 0;
	int32_t r, rc;
	int bad = 0;
	int full = argc > 1 && strcmp(argv[1], "full") == 0;

	qb_hdb_create(&db);
	db.destructor = dtor;
	if (qb_hdb_handle_create(&db, 8, &h) != 0) return 2;

	for (i = 0; i < INT32_MAX; i++) {
		r = qb_hdb_handle_get(&db, h, &p);
		if (r != 0) break;	/* a refusing library is fine */
		gets++;
	}
	rc = qb_hdb_handle_refcount_get(&db, h);
	printf("after %lld successful gets, 0 puts: refcount_get = %d (1+gets-puts = %lld)\n",
	       (long long)gets, rc, (long long)(1 + gets));
	if ((int64_t)rc != 1 + gets) bad = 1;

	if (!full) {
		r = qb_hdb_handle_put(&db, h);
		printf("put of an outstanding reference: %d (%s)\n", r, r ? strerror(-r) : "ok");
		if (r != 0) bad = 1; else puts++;
		r = qb_hdb_handle_destroy(&db, h);
		printf("destroy: %d\n", r);
		if (r != 0) bad = 1;
		r = qb_hdb_handle_get(&db, h, &p);
		printf("get after the failed destroy: %d\n", r);
		r = qb_hdb_handle_put(&db, h);
		printf("put after the failed destroy: %d, refcount_get = %d, destructor runs = %d\n",
		       r, qb_hdb_handle_refcount_get(&db, h), dtor_runs);
		if (r != 0) bad = 1;
	} else {
		for (i = 0; i < (int64_t)INT32_MAX + 2; i++) {
			r = qb_hdb_handle_get(&db, h, &p);
			if (r != 0) break;
			gets++;
		}
		rc = qb_hdb_handle_refcount_get(&db, h);
		printf("after %lld successful gets, 0 puts: refcount_get = %d\n", (long long)gets, rc);
		r = qb_hdb_handle_put(&db, h);
		printf("one put: %d, destructor runs = %d, get afterwards = %d  (outstanding references: %lld)\n",
		       r, dtor_runs, qb_hdb_handle_get(&db, h, &p), (long long)(1 + gets - 1));
		if (dtor_runs) bad = 1;
	}
	printf(bad ? "VIOLATED\n" : "held\n");
	return bad;
}
