#include <stdio.h>
#include <stdlib.h>
#include <time.h>
#include <qb/qbdefs.h>
#include <qb/qbhdb.h>
int main(int argc,char**argv){ struct qb_hdb db; qb_handle_t h; void*p; long n=atol(argv[1]); long i; struct timespec a,b;
 qb_hdb_create(&db);
 clock_gettime(CLOCK_MONOTONIC,&a);
 for(i=0;i<n;i++){ qb_hdb_handle_create(&db,1,&h); qb_hdb_handle_destroy(&db,h);} 
 clock_gettime(CLOCK_MONOTONIC,&b);
 printf("cycle %.1f ns\n", ((b.tv_sec-a.tv_sec)*1e9+(b.tv_nsec-a.tv_nsec))/n);
 qb_hdb_handle_create(&db,1,&h);
 clock_gettime(CLOCK_MONOTONIC,&a);
 for(i=0;i<n;i++){ qb_hdb_handle_get(&db,h,&p);} 
 clock_gettime(CLOCK_MONOTONIC,&b);
 printf("get %.1f ns rc=%d\n", ((b.tv_sec-a.tv_sec)*1e9+(b.tv_nsec-a.tv_nsec))/n, qb_hdb_handle_refcount_get(&db,h));
 return 0;}
