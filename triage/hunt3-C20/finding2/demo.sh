#!/bin/sh
# usage: demo.sh <tree>     exit 0 = property held, non-zero = violated
# (takes 4-8 minutes: 2^31 create/destroy cycles)
T=${1:-/repo}
D=$(cd "$(dirname "$0")" && pwd)
O=$(mktemp -d /tmp/hunt3-C20-f2.XXXXXX)
gcc -O2 -g -DHAVE_CONFIG_H -I$T/include -I$T/include/qb -I$T/lib -o $O/demo $D/demo.c \
   $T/lib/hdb.c $T/lib/array.c -L$T/lib/.libs -lqb -lpthread || exit 99
LD_LIBRARY_PATH=$T/lib/.libs $O/demo
rc=$?
rm -rf $O
exit $rc
