/*
 * C20 finding 2 (limit of the 31-bit check value): a stale copy of a handle
 * becomes valid again - for a foreign object - after its slot has been reused
 * 2^31-1 times.
 *
 * create A -> handle hA (slot 0); destroy A; then create/destroy 2^31-2 more
 * objects (all land in slot 0), then create B.  B gets exactly the value hA:
 * the stale copy of hA resolves to B, its refcount is reported, and
 * destroy(hA-copy) destroys B.
 */
#include <stdio.h>
#include <stdlib.h>
#include <stdint.h>
#include <qb/qbdefs.h>
#include <qb/qbhdb.h>

static int64_t dtor_runs;
static void dtor(void *p) { (void)p; dtor_runs++; }

int main(void)
{
	struct qb_hdb db;
	qb_handle_t hA, h, hB;
	void *p;
	int64_t i, stale_hits = 0;
	int32_t r;

	srandom(1);
	qb_hdb_create(&db);
	db.destructor = dtor;
	if (qb_hdb_handle_create(&db, 4, &hA) != 0) return 2;
	if (qb_hdb_handle_destroy(&db, hA) != 0) return 2;
	for (i = 0; i < (int64_t)INT32_MAX - 1; i++) {
		if (qb_hdb_handle_create(&db, 4, &h) != 0) return 2;
		if (h == hA) { printf("handle value repeated already after %lld reuses\n", (long long)i + 1); break; }
		if ((i & 0xfffff) == 0 && qb_hdb_handle_get(&db, hA, &p) == 0) stale_hits++;
		if (qb_hdb_handle_destroy(&db, h) != 0) return 2;
	}
	if (qb_hdb_handle_create(&db, 4, &hB) != 0) return 2;
	printf("A had handle %llx (destroyed, destructor ran); after %lld further objects in slot 0, B has handle %llx\n",
	       (unsigned long long)hA, (long long)i, (unsigned long long)hB);
	r = qb_hdb_handle_get(&db, hA, &p);
	printf("get(stale copy of A's handle) = %d, instance %p; refcount_get = %d; slots in table: %u\n",
	       r, p, qb_hdb_handle_refcount_get(&db, hA), db.handle_count);
	if (r == 0) {
		qb_hdb_handle_put(&db, hA);
		r = qb_hdb_handle_destroy(&db, hA);
		printf("destroy(stale copy) = %d; ", r);
		r = qb_hdb_handle_get(&db, hB, &p);
		printf("get(B's handle) afterwards = %d\n", r);
		printf("VIOLATED\n");
		return 1;
	}
	printf("held (stale hits on the way: %lld)\n", (long long)stale_hits);
	return stale_hits != 0;
}
