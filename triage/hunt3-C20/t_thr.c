#include <stdio.h>
#include <stdlib.h>
#include <pthread.h>
#include <qb/qbdefs.h>
#include <qb/qbhdb.h>
static struct qb_hdb db; static qb_handle_t H; static int dt; static int mode;
static void dtor(void*p){ __sync_fetch_and_add(&dt,1);} 
static void *w(void*a){ int i; void*p; 
 if(mode==0){ for(i=0;i<200000;i++){ if(qb_hdb_handle_get(&db,H,&p)){printf("get fail\n");exit(1);} if(qb_hdb_handle_put(&db,H)){printf("put fail\n");exit(1);} } }
 else { qb_handle_t h; for(i=0;i<20000;i++){ if(qb_hdb_handle_create(&db,8,&h)){printf("create fail\n");exit(1);} if(qb_hdb_handle_get(&db,h,&p)){printf("VIOLATION: get of own fresh handle failed\n");exit(1);} *(long*)p=(long)a; if(*(volatile long*)p!=(long)a){printf("VIOLATION shared instance\n");exit(1);} qb_hdb_handle_put(&db,h); if(qb_hdb_handle_destroy(&db,h)){printf("VIOLATION: destroy of own handle failed\n");exit(1);} } }
 return NULL; }
int main(int argc,char**argv){ pthread_t t[4]; long i; mode=argc>1?atoi(argv[1]):0; qb_hdb_create(&db); db.destructor=dtor; qb_hdb_handle_create(&db,8,&H);
 for(i=0;i<4;i++) pthread_create(&t[i],NULL,w,(void*)(i+1)); for(i=0;i<4;i++) pthread_join(t[i],NULL);
 printf("mode %d refcount %d dt %d\n",mode,qb_hdb_handle_refcount_get(&db,H),dt); return 0; }
