#!/bin/sh
# usage: build.sh [tree]   (default /repo)
T=${1:-/repo}
cd "$(dirname "$0")"
gcc -g -O1 -fsanitize=address,undefined -fno-sanitize-recover=undefined -DHAVE_CONFIG_H \
  -I$T/include -I$T/include/qb -I$T/lib -o fuzz fuzz.c $T/lib/hdb.c $T/lib/array.c \
  -L$T/lib/.libs -lqb -lpthread
