#include <stdio.h>
#include <stdlib.h>
#include <string.h>
#include <errno.h>
#include <qb/qbdefs.h>
#include <qb/qbhdb.h>
#define CHECK(c) do{ if(!(c)){printf("VIOLATION line %d: %s\n",__LINE__,#c); exit(1);} }while(0)
static void d1(void *p);
QB_HDB_DECLARE(sdb, d1);
static struct qb_hdb *cur; static qb_handle_t dying; static int dt; static int action; static qb_handle_t made[16]; static int nmade; static qb_handle_t other;
static void d1(void *inst){ void*p; qb_handle_t h; int c=0; dt++;
 if(action==1){ /* iterate inside destructor: must not see the dying one */
   qb_hdb_iterator_reset(cur); while(qb_hdb_iterator_next(cur,&p,&h)==0){ CHECK(h!=dying); CHECK(p!=inst); c++; CHECK(qb_hdb_handle_put(cur,h)==0);} }
 if(action==2){ /* create many inside destructor (forces new bins) */
   int i; for(i=0;i<40;i++){ CHECK(qb_hdb_handle_create(cur,16,&h)==0); CHECK(qb_hdb_base_convert(h)!=qb_hdb_base_convert(dying)); } }
 if(action==3){ /* destroy the other one -> nested destructor */
   action=0; CHECK(qb_hdb_handle_destroy(cur,other)==0); CHECK(dt==2); }
 if(action==4){ CHECK(qb_hdb_handle_refcount_get(cur,dying)<=0); CHECK(qb_hdb_handle_get(cur,dying,&p)!=0); CHECK(qb_hdb_handle_put(cur,dying)!=0); CHECK(qb_hdb_handle_destroy(cur,dying)!=0);
   CHECK(qb_hdb_handle_put(cur,qb_hdb_nocheck_convert(qb_hdb_base_convert(dying)))!=0); CHECK(qb_hdb_handle_destroy(cur,qb_hdb_nocheck_convert(qb_hdb_base_convert(dying)))!=0);}
}
int main(void){ void*p; qb_handle_t h,h2,h3; int32_t r; int i;
 cur=&sdb;
 /* declared db: first operations on garbage */
 CHECK(qb_hdb_iterator_next(&sdb,&p,&h)!=0);
 CHECK(qb_hdb_handle_get(&sdb,0,&p)==-EBADF); CHECK(qb_hdb_handle_put(&sdb,0)==-EBADF); CHECK(qb_hdb_handle_destroy(&sdb,0)==-EBADF); CHECK(qb_hdb_handle_refcount_get(&sdb,0)<0);
 CHECK(qb_hdb_handle_get(&sdb,qb_hdb_nocheck_convert(0),&p)==-EBADF);
 /* failed create in a fresh slot */
 r=qb_hdb_handle_create(&sdb,-1,&h); CHECK(r!=0); CHECK(sdb.handle_count<=1);
 CHECK(qb_hdb_handle_get(&sdb,qb_hdb_nocheck_convert(0),&p)==-EBADF); CHECK(qb_hdb_handle_put(&sdb,qb_hdb_nocheck_convert(0))==-EBADF);
 CHECK(qb_hdb_handle_get(&sdb,0,&p)==-EBADF); CHECK(qb_hdb_handle_refcount_get(&sdb,0)<0); CHECK(qb_hdb_handle_destroy(&sdb,0)==-EBADF);
 CHECK(qb_hdb_iterator_next(&sdb,&p,&h)!=0);
 CHECK(qb_hdb_handle_create(&sdb,8,&h)==0); CHECK(qb_hdb_base_convert(h)==0); CHECK((h>>32)!=0);
 /* failed create on a reused slot keeps generation */
 CHECK(qb_hdb_handle_destroy(&sdb,h)==0); CHECK(dt==1);
 r=qb_hdb_handle_create(&sdb,-7,&h2); CHECK(r!=0);
 CHECK(qb_hdb_handle_get(&sdb,h,&p)!=0); CHECK(qb_hdb_handle_refcount_get(&sdb,h)<0); CHECK(qb_hdb_handle_put(&sdb,h)!=0);
 CHECK(qb_hdb_handle_create(&sdb,8,&h2)==0); CHECK(h2!=h); CHECK(qb_hdb_base_convert(h2)==0);
 CHECK(qb_hdb_handle_get(&sdb,h,&p)!=0);
 /* action 1 */
 CHECK(qb_hdb_handle_create(&sdb,8,&h3)==0);
 action=1; dying=h2; CHECK(qb_hdb_handle_get(&sdb,h2,&p)==0); CHECK(qb_hdb_handle_destroy(&sdb,h2)==0); CHECK(dt==1);
 CHECK(qb_hdb_handle_refcount_get(&sdb,h2)==1); CHECK(qb_hdb_handle_get(&sdb,h2,&p)!=0); CHECK(qb_hdb_handle_destroy(&sdb,h2)!=0); CHECK(qb_hdb_handle_refcount_get(&sdb,h2)==1);
 /* pending: iteration skips, create does not reuse */
 { int c=0; qb_hdb_iterator_reset(&sdb); while(qb_hdb_iterator_next(&sdb,&p,&h)==0){CHECK(h==h3);c++;qb_hdb_handle_put(&sdb,h);} CHECK(c==1);} 
 CHECK(qb_hdb_handle_create(&sdb,8,&h)==0); CHECK(qb_hdb_base_convert(h)==2);
 CHECK(qb_hdb_handle_put(&sdb,h2)==0); CHECK(dt==2); CHECK(qb_hdb_handle_put(&sdb,h2)!=0);
 /* action 2: create many inside destructor */
 action=2; dying=h3; dt=0; CHECK(qb_hdb_handle_destroy(&sdb,h3)==0); CHECK(dt==1);
 CHECK(qb_hdb_handle_get(&sdb,h3,&p)!=0);
 /* action 3 nested */
 CHECK(qb_hdb_handle_create(&sdb,8,&h2)==0); CHECK(qb_hdb_handle_create(&sdb,8,&other)==0);
 action=3; dt=0; dying=h2; CHECK(qb_hdb_handle_destroy(&sdb,h2)==0); CHECK(dt==2); CHECK(qb_hdb_handle_get(&sdb,other,&p)!=0);
 /* action 4: all own-handle ops refused, incl. nocheck; through over-put path */
 CHECK(qb_hdb_handle_create(&sdb,8,&h2)==0); action=4; dt=0; dying=h2; CHECK(qb_hdb_handle_put(&sdb,h2)==0); CHECK(dt==1); CHECK(qb_hdb_handle_destroy(&sdb,h2)!=0); CHECK(dt==1);
 CHECK(qb_hdb_handle_create(&sdb,8,&h2)==0); dying=h2; dt=0; CHECK(qb_hdb_handle_destroy(&sdb,qb_hdb_nocheck_convert(qb_hdb_base_convert(h2)))==0); CHECK(dt==1);
 /* slot index with bit 31 / huge */
 action=0;
 for(i=0;i<4;i++){ qb_handle_t g=((uint64_t)(h2>>32)<<32)|(0x80000000u+i*0x1fffffffu); CHECK(qb_hdb_handle_get(&sdb,g,&p)!=0); CHECK(qb_hdb_handle_put(&sdb,g)!=0); CHECK(qb_hdb_handle_destroy(&sdb,g)!=0); CHECK(qb_hdb_handle_refcount_get(&sdb,g)<0);} 
 qb_hdb_destroy(&sdb);
 /* recreate after destroy */
 qb_hdb_create(&sdb); sdb.destructor=d1; dt=0;
 CHECK(qb_hdb_handle_get(&sdb,h2,&p)!=0);
 CHECK(qb_hdb_handle_create(&sdb,0,&h)==0); CHECK(qb_hdb_handle_get(&sdb,h,&p)==0); CHECK(qb_hdb_handle_refcount_get(&sdb,h)==2); CHECK(qb_hdb_handle_destroy(&sdb,h)==0); CHECK(dt==0); CHECK(qb_hdb_handle_put(&sdb,h)==0); CHECK(dt==1);
 qb_hdb_destroy(&sdb);
 printf("targeted ok\n"); return 0; }
