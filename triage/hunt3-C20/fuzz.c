/*
 * Model-based randomized tester for libqb's handle database (property C20).
 *
 * usage: fuzz <seed> <nops> <maxlive> <maxsize> [reentrancy 0/1]
 *
 * Model: every object ever created has an id; we know its handle, its slot,
 * its expected refcount, whether destroy was called, how often the destructor
 * ran.  Every API result is compared with the model.
 */
#include <stdio.h>
#include <stdlib.h>
#include <stdint.h>
#include <string.h>
#include <errno.h>
#include <assert.h>
#include <qb/qbdefs.h>
#include <qb/qbhdb.h>

#define MAXOBJ 4000000
#define MAXSLOT 70000

struct obj {
	qb_handle_t h;
	void *inst;
	int32_t size;
	int32_t rc;		/* expected refcount (1 + gets - puts, destroy is a put) */
	int destroyed;		/* destroy called */
	int dead;		/* rc reached 0 */
	int dtor_runs;
	uint32_t tag;
};

static struct obj *objs;
static int nobj;
static int slot_owner[MAXSLOT];	/* obj index that occupies slot or -1 */
static int *alive;		/* indices of not-dead objects */
static int nalive;
static struct qb_hdb db;
static uint64_t nops_done;
static int reent;
static int in_dtor;
static int expect_dtor = -1;	/* obj index whose destructor we expect right now */
static unsigned long long stat_get_ok, stat_get_bad, stat_create, stat_dtor, stat_iter, stat_stale, stat_reuse;

static uint64_t rs;
static uint32_t rnd(void)
{
	rs ^= rs << 13; rs ^= rs >> 7; rs ^= rs << 17;
	return (uint32_t)(rs >> 16);
}

#define FAIL(...) do { fprintf(stderr, "VIOLATION (op %llu): ", (unsigned long long)nops_done); \
	fprintf(stderr, __VA_ARGS__); fprintf(stderr, "\n"); exit(1); } while (0)

static int find_by_inst(void *inst)
{
	int i;
	for (i = 0; i < nalive; i++)
		if (objs[alive[i]].inst == inst)
			return alive[i];
	return -1;
}

static void alive_remove(int o)
{
	int i;
	for (i = 0; i < nalive; i++)
		if (alive[i] == o) {
			alive[i] = alive[--nalive];
			return;
		}
	FAIL("model: obj %d not in alive list", o);
}

static void do_create(int32_t size);
static void do_put(int o);
static void do_destroy(int o);

static void dtor(void *inst)
{
	int o = find_by_inst(inst);
	void *p;
	int32_t r;

	stat_dtor++;
	if (o < 0)
		FAIL("destructor called for unknown instance %p", inst);
	if (o != expect_dtor)
		FAIL("destructor for obj %d run unexpectedly (expected %d, model rc %d)", o, expect_dtor, objs[o].rc);
	objs[o].dtor_runs++;
	if (objs[o].dtor_runs != 1)
		FAIL("destructor for obj %d run %d times", o, objs[o].dtor_runs);
	if (objs[o].size >= 4) {
		uint32_t t;
		memcpy(&t, inst, 4);
		if (t != objs[o].tag)
			FAIL("obj %d: instance content clobbered at destructor", o);
	}
	expect_dtor = -1;
	if (!reent)
		return;
	/* model: count is zero now: object gone for everybody */
	objs[o].dead = 1;
	in_dtor++;
	switch (rnd() % 8) {
	case 0:
		r = qb_hdb_handle_get(&db, objs[o].h, &p);
		if (r == 0) FAIL("get of obj %d from inside its destructor succeeded", o);
		break;
	case 1:
		r = qb_hdb_handle_put(&db, objs[o].h);
		if (r == 0) FAIL("put of obj %d from inside its destructor succeeded", o);
		break;
	case 2:
		r = qb_hdb_handle_destroy(&db, objs[o].h);
		if (r == 0) FAIL("destroy of obj %d from inside its destructor succeeded", o);
		break;
	case 3:
		r = qb_hdb_handle_get(&db, qb_hdb_nocheck_convert(qb_hdb_base_convert(objs[o].h)), &p);
		if (r == 0) FAIL("nocheck get of obj %d from inside its destructor succeeded", o);
		break;
	case 4:
		if (in_dtor < 3) do_create(rnd() % 64);
		break;
	case 5:
		if (in_dtor < 3 && nalive > 1) {
			int v = alive[rnd() % nalive];
			if (v != o && !objs[v].dead) do_put(v);
		}
		break;
	case 6:
		if (in_dtor < 3 && nalive > 1) {
			int v = alive[rnd() % nalive];
			if (v != o && !objs[v].dead) do_destroy(v);
		}
		break;
	default:
		break;
	}
	in_dtor--;
}

static void obj_died_after(int o)
{
	int slot = qb_hdb_base_convert(objs[o].h);
	if (objs[o].dtor_runs != 1)
		FAIL("obj %d count reached zero but destructor ran %d times", o, objs[o].dtor_runs);
	objs[o].dead = 1;
	objs[o].inst = NULL;
	if (slot_owner[slot] != o)
		FAIL("model: slot owner mismatch");
	slot_owner[slot] = -1;
	alive_remove(o);
}

static void do_create(int32_t size)
{
	qb_handle_t h = 0xdeadbeefdeadbeefULL;
	int32_t r;
	uint32_t slot;
	int o, i;
	void *p;

	if (nobj >= MAXOBJ)
		return;
	r = qb_hdb_handle_create(&db, size, &h);
	if (size < 0) {
		if (r == 0) FAIL("create with negative size %d succeeded", size);
		return;
	}
	if (r != 0) {
		if (nalive >= QB_ARRAY_MAX_ELEMENTS || r == -ENOMEM) return;
		FAIL("create failed: %d", r);
	}
	stat_create++;
	slot = qb_hdb_base_convert(h);
	if (slot >= MAXSLOT) FAIL("create: slot %u too large", slot);
	if (slot_owner[slot] != -1)
		FAIL("create: slot %u handed out while obj %d still occupies it", slot, slot_owner[slot]);
	if ((h >> 32) == UINT32_MAX || (h >> 32) == 0)
		FAIL("create: handle %llx has reserved check value", (unsigned long long)h);
	o = nobj++;
	objs[o].h = h;
	objs[o].size = size;
	objs[o].rc = 1;
	objs[o].tag = rnd();
	slot_owner[slot] = o;
	alive[nalive++] = o;
	r = qb_hdb_handle_get(&db, h, &p);
	if (r != 0) FAIL("get right after create failed %d", r);
	for (i = 0; i < size; i++)
		if (((char *)p)[i]) FAIL("new instance not zeroed");
	objs[o].inst = p;
	if (find_by_inst(p) != o) FAIL("instance pointer %p of new obj %d is shared with live obj %d", p, o, find_by_inst(p));
	if (size >= 4) memcpy(p, &objs[o].tag, 4);
	if (size > 4) memset((char *)p + 4, 0xa5, size - 4);
	r = qb_hdb_handle_put(&db, h);
	if (r != 0) FAIL("put right after create failed %d", r);
}

static void check_refcount(int o)
{
	int32_t r = qb_hdb_handle_refcount_get(&db, objs[o].h);
	if (objs[o].dead) {
		if (r >= 0) FAIL("refcount of dead obj %d handle %llx = %d", o, (unsigned long long)objs[o].h, r);
	} else if (r != objs[o].rc)
		FAIL("refcount of obj %d = %d, model %d (destroyed=%d)", o, r, objs[o].rc, objs[o].destroyed);
}

static void do_get(int o, int nocheck)
{
	void *p = (void *)1;
	qb_handle_t h = objs[o].h;
	int32_t r;
	int expect_ok;

	if (nocheck) {
		/* documented escape hatch: resolves to the slot's current occupant */
		uint32_t slot = qb_hdb_base_convert(h);
		h = qb_hdb_nocheck_convert(slot);
		o = slot_owner[slot];
		if (o < 0 || objs[o].dead) {
			r = qb_hdb_handle_get(&db, h, &p);
			if (r == 0) FAIL("nocheck get on empty slot %u succeeded", slot);
			if (p != NULL) FAIL("failed get left instance non-NULL");
			return;
		}
	}
	expect_ok = !objs[o].dead && !objs[o].destroyed;
	r = (rnd() & 1) ? qb_hdb_handle_get(&db, h, &p) : qb_hdb_handle_get_always(&db, h, &p);
	if (expect_ok) {
		if (r != 0) FAIL("get of live obj %d failed: %d", o, r);
		if (p != objs[o].inst) FAIL("get of obj %d returned %p, not its instance %p", o, p, objs[o].inst);
		if (objs[o].size >= 4) {
			uint32_t t; memcpy(&t, p, 4);
			if (t != objs[o].tag) FAIL("obj %d instance has foreign content", o);
		}
		objs[o].rc++;
		stat_get_ok++;
	} else {
		if (r == 0) FAIL("get of %s obj %d (handle %llx) succeeded", objs[o].dead ? "dead" : "destroyed", o, (unsigned long long)h);
		if (p != NULL) FAIL("failed get left instance non-NULL");
		stat_get_bad++;
	}
}

static void do_put_h(int o, qb_handle_t h)
{
	int32_t r;
	int saved = expect_dtor;

	if (objs[o].dead) {
		r = qb_hdb_handle_put(&db, h);
		if (r == 0) FAIL("put on dead obj %d handle %llx succeeded", o, (unsigned long long)h);
		stat_stale++;
		return;
	}
	if (objs[o].rc == 1)
		expect_dtor = o;
	objs[o].rc--;
	r = qb_hdb_handle_put(&db, h);
	if (r != 0) FAIL("put on obj %d (model rc before %d, destroyed %d) failed: %d", o, objs[o].rc + 1, objs[o].destroyed, r);
	if (objs[o].rc == 0) {
		if (expect_dtor == o) FAIL("count of obj %d reached zero in put but destructor did not run", o);
		obj_died_after(o);
	} else if (objs[o].dtor_runs) FAIL("destructor of obj %d ran with rc %d", o, objs[o].rc);
	expect_dtor = saved;
}

static void do_put(int o) { do_put_h(o, objs[o].h); }

static void do_destroy_h(int o, qb_handle_t h)
{
	int32_t r;
	int saved = expect_dtor;

	if (objs[o].dead || objs[o].destroyed) {
		r = qb_hdb_handle_destroy(&db, h);
		if (r == 0) FAIL("second destroy of obj %d (dead %d) succeeded", o, objs[o].dead);
		check_refcount(o);
		stat_stale++;
		return;
	}
	if (objs[o].rc == 1)
		expect_dtor = o;
	objs[o].rc--;
	objs[o].destroyed = 1;
	r = qb_hdb_handle_destroy(&db, h);
	if (r != 0) FAIL("destroy of live obj %d failed: %d", o, r);
	if (objs[o].rc == 0) {
		if (expect_dtor == o) FAIL("count of obj %d reached zero in destroy but destructor did not run", o);
		obj_died_after(o);
	} else if (objs[o].dtor_runs) FAIL("destructor of obj %d ran with rc %d", o, objs[o].rc);
	expect_dtor = saved;
}
static void do_destroy(int o) { do_destroy_h(o, objs[o].h); }

static void do_iterate(int mutate)
{
	void *p;
	qb_handle_t h;
	int seen = 0, expect = 0, i;
	static unsigned char *mark;
	static int *vis;
	int nvis = 0;
	if (!mark) { mark = calloc(MAXOBJ, 1); vis = calloc(MAXSLOT * 2, sizeof(int)); }

	for (i = 0; i < nalive; i++)
		if (!objs[alive[i]].destroyed) expect++;
	qb_hdb_iterator_reset(&db);
	while (qb_hdb_iterator_next(&db, &p, &h) == 0) {
		uint32_t slot = qb_hdb_base_convert(h);
		int o = slot < MAXSLOT ? slot_owner[slot] : -1;
		if (o < 0) FAIL("iterator visited empty slot %u", slot);
		if (objs[o].h != h) FAIL("iterator returned handle %llx, obj %d has %llx", (unsigned long long)h, o, (unsigned long long)objs[o].h);
		if (objs[o].inst != p) FAIL("iterator instance mismatch");
		if (objs[o].destroyed || objs[o].dead) FAIL("iterator visited destroyed obj %d", o);
		if (mark[o]) FAIL("iterator visited obj %d twice", o);
		mark[o] = 1;
		if (nvis < MAXSLOT * 2) vis[nvis++] = o; else FAIL("iterator endless");
		objs[o].rc++;
		seen++;
		check_refcount(o);
		if (mutate && (rnd() % 4) == 0) {
			/* remove the element being visited */
			do_destroy(o);
			expect = -1;
			do_put(o);
			if (!objs[o].dead && objs[o].rc == 0) FAIL("model");
		} else {
			do_put(o);
		}
		if (mutate && (rnd() % 8) == 0) { do_create(rnd() % 32); expect = -1; }
	}
	for (i = 0; i < nvis; i++) mark[vis[i]] = 0;
	if (expect >= 0 && seen != expect)
		FAIL("iterator visited %d objects, model has %d undestroyed", seen, expect);
	stat_iter++;
}

static void do_garbage(void)
{
	/* never-issued handle values */
	qb_handle_t h;
	uint32_t slot, chk;
	int32_t r;
	void *p;
	int o;

	switch (rnd() % 5) {
	case 0: slot = rnd() % (nalive + 20); break;
	case 1: slot = rnd(); break;
	case 2: slot = 0x80000000u | (rnd() % 100); break;
	case 3: slot = db.handle_count + (rnd() % 3) - 1; break;
	default: slot = 0xffffffffu - (rnd() % 3); break;
	}
	switch (rnd() % 5) {
	case 0: chk = 0; break;
	case 1: chk = rnd() & 0x7fffffff; break;
	case 2: chk = 0x80000000u | rnd(); if (chk == 0xffffffffu) chk--; break;
	case 3: /* neighbour of the current occupant's check */
		if (slot < MAXSLOT && slot_owner[slot] >= 0) {
			chk = (uint32_t)(objs[slot_owner[slot]].h >> 32) + ((rnd() & 1) ? 1 : -1);
			if (chk == 0xffffffffu) chk = 0;
		} else chk = 1;
		break;
	default: chk = 0xfffffffeu; break;
	}
	h = ((uint64_t)chk << 32) | slot;
	o = slot < MAXSLOT ? slot_owner[slot] : -1;
	if (o >= 0 && objs[o].h == h)
		return;		/* hit a real one by accident */
	switch (rnd() % 4) {
	case 0:
		r = qb_hdb_handle_get(&db, h, &p);
		if (r == 0) FAIL("get of never-issued/stale handle %llx succeeded", (unsigned long long)h);
		if (p) FAIL("failed get left instance");
		break;
	case 1:
		r = qb_hdb_handle_put(&db, h);
		if (r == 0) FAIL("put of never-issued/stale handle %llx succeeded", (unsigned long long)h);
		break;
	case 2:
		r = qb_hdb_handle_destroy(&db, h);
		if (r == 0) FAIL("destroy of never-issued/stale handle %llx succeeded", (unsigned long long)h);
		break;
	default:
		r = qb_hdb_handle_refcount_get(&db, h);
		if (r >= 0) FAIL("refcount of never-issued/stale handle %llx = %d", (unsigned long long)h, r);
		break;
	}
	if (o >= 0) check_refcount(o);
	stat_stale++;
}

int main(int argc, char **argv)
{
	uint64_t seed = argc > 1 ? strtoull(argv[1], NULL, 0) : 1;
	uint64_t nops = argc > 2 ? strtoull(argv[2], NULL, 0) : 100000;
	int maxlive = argc > 3 ? atoi(argv[3]) : 40;
	int maxsize = argc > 4 ? atoi(argv[4]) : 64;
	int i, use_declare;

	reent = argc > 5 ? atoi(argv[5]) : 0;
	rs = seed * 0x9E3779B97F4A7C15ULL + 12345;
	srandom(seed);
	objs = calloc(MAXOBJ, sizeof(*objs));
	alive = calloc(MAXSLOT, sizeof(int));
	for (i = 0; i < MAXSLOT; i++) slot_owner[i] = -1;

	use_declare = seed & 1;
	if (use_declare) {
		memset(&db, 0, sizeof(db));
		db.first_run = QB_TRUE;
		db.destructor = dtor;
	} else {
		qb_hdb_create(&db);
		db.destructor = dtor;
	}

	for (nops_done = 0; nops_done < nops; nops_done++) {
		uint32_t k = rnd() % 100;
		int o;

		if (nobj >= MAXOBJ - 10) break;
		if (nalive == 0 || (k < 18 && nalive < maxlive)) {
			int32_t sz;
			switch (rnd() % 8) {
			case 0: sz = 0; break;
			case 1: sz = 1; break;
			case 2: sz = -1 - (int32_t)(rnd() % 5); break;
			case 3: sz = maxsize; break;
			default: sz = rnd() % (maxsize + 1); break;
			}
			if (sz < 0 && nalive == 0) sz = 4;
			do_create(sz);
			continue;
		}
		/* pick target: live (likely) or any ever created (stale) */
		if (k < 80)
			o = alive[rnd() % nalive];
		else if (k < 92) {
			/* recent objects preferably: stale copies of reused slots */
			int span = nobj < 64 ? nobj : 64;
			o = nobj - 1 - (rnd() % span);
		} else
			o = rnd() % nobj;
		if (slot_owner[qb_hdb_base_convert(objs[o].h)] != o && slot_owner[qb_hdb_base_convert(objs[o].h)] >= 0)
			stat_reuse++;

		switch (rnd() % 16) {
		case 0: case 1: case 2: case 3:
			do_get(o, 0); break;
		case 4:
			do_get(o, 1); break;
		case 5: case 6: case 7: case 8:
			/* put: for live objects mostly keep the creation reference */
			if (!objs[o].dead && objs[o].rc == 1 && !objs[o].destroyed && (rnd() % 4)) { check_refcount(o); break; }
			do_put(o); break;
		case 9: case 10:
			do_destroy(o); break;
		case 11:
			check_refcount(o); break;
		case 12:
			do_garbage(); break;
		case 13:
			if ((rnd() % 8) == 0) do_iterate(rnd() & 1);
			else check_refcount(o);
			break;
		case 14: {
			/* nocheck put/destroy on the slot of o: acts on current occupant */
			uint32_t slot = qb_hdb_base_convert(objs[o].h);
			int cur = slot_owner[slot];
			qb_handle_t nh = qb_hdb_nocheck_convert(slot);
			if (cur < 0) {
				int32_t r = (rnd() & 1) ? qb_hdb_handle_put(&db, nh) : qb_hdb_handle_destroy(&db, nh);
				if (r == 0) FAIL("nocheck put/destroy on empty slot %u succeeded", slot);
				r = qb_hdb_handle_refcount_get(&db, nh);
				if (r >= 0) FAIL("nocheck refcount on empty slot = %d", r);
			} else if (rnd() & 1) {
				if (objs[cur].rc == 1 && !objs[cur].destroyed && (rnd() % 4)) break;
				do_put_h(cur, nh);
			} else
				do_destroy_h(cur, nh);
			break;
		}
		default:
			check_refcount(o);
			break;
		}
		if (expect_dtor != -1) FAIL("model: dangling expect_dtor");
	}
	/* final sweep: every object ever created */
	for (i = 0; i < nobj; i++) {
		check_refcount(i);
		if (objs[i].dead && objs[i].dtor_runs != 1) FAIL("obj %d dead with %d destructor runs", i, objs[i].dtor_runs);
		if (!objs[i].dead && objs[i].dtor_runs != 0) FAIL("obj %d alive with %d destructor runs", i, objs[i].dtor_runs);
	}
	do_iterate(0);
	/* tear down: drop everything */
	while (nalive) {
		int o = alive[0];
		if (!objs[o].destroyed) do_destroy(o);
		while (!objs[o].dead) do_put(o);
	}
	do_iterate(0);
	for (i = 0; i < nobj; i++) {
		void *p;
		if (qb_hdb_handle_get(&db, objs[i].h, &p) == 0) FAIL("get of obj %d after teardown succeeded", i);
		if (objs[i].dtor_runs != 1) FAIL("obj %d destructor runs %d", i, objs[i].dtor_runs);
	}
	printf("seed %llu ok: ops %llu objs %d create %llu get_ok %llu get_bad %llu dtor %llu iter %llu stale/garbage %llu reuse-targets %llu slots %u\n",
	       (unsigned long long)seed, (unsigned long long)nops_done, nobj, stat_create, stat_get_ok, stat_get_bad, stat_dtor, stat_iter, stat_stale, stat_reuse, db.handle_count);
	qb_hdb_destroy(&db);
	return 0;
}
