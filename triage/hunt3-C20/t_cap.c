#include <stdio.h>
#include <stdlib.h>
#include <string.h>
#include <errno.h>
#include <qb/qbdefs.h>
#include <qb/qbhdb.h>
static int dt; static void dtor(void*p){dt++;}
#define N 70000
static qb_handle_t hs[N];
int main(void){ struct qb_hdb db; int i,n=0; int32_t r; void*p; qb_handle_t h,h2;
 qb_hdb_create(&db); db.destructor=dtor;
 for(i=0;i<N;i++){ r=qb_hdb_handle_create(&db,(i%7),&hs[i]); if(r!=0){printf("create %d failed %d\n",i,r);break;} n++; }
 printf("created %d handle_count %u\n",n,db.handle_count);
 /* further failing creates don't disturb */
 for(i=0;i<5;i++){ h=0x1234; r=qb_hdb_handle_create(&db,4,&h); if(r==0){printf("BAD: create beyond capacity ok slot %u\n", qb_hdb_base_convert(h));return 1;} }
 printf("handle_count %u\n",db.handle_count);
 for(i=0;i<n;i++){ if(qb_hdb_base_convert(hs[i])!=(uint32_t)i){printf("BAD slot\n");return 1;} if(qb_hdb_handle_get(&db,hs[i],&p)||qb_hdb_handle_refcount_get(&db,hs[i])!=2||qb_hdb_handle_put(&db,hs[i])){printf("BAD get %d\n",i);return 1;} }
 /* out of range handles */
 for(i=n;i<n+3;i++){ h=qb_hdb_nocheck_convert(i); if(qb_hdb_handle_get(&db,h,&p)==0||qb_hdb_handle_put(&db,h)==0||qb_hdb_handle_destroy(&db,h)==0||qb_hdb_handle_refcount_get(&db,h)>=0){printf("BAD: out of range handle accepted\n");return 1;} }
 { int c=0; qb_hdb_iterator_reset(&db); while(qb_hdb_iterator_next(&db,&p,&h)==0){ if(h!=hs[c]){printf("BAD iter\n");return 1;} c++; qb_hdb_handle_put(&db,h);} printf("iter %d\n",c); if(c!=n) return 1; }
 /* destroy last, first, middle; recreate */
 int idx[3]={n-1,0,n/2};
 for(i=0;i<3;i++){ if(qb_hdb_handle_destroy(&db,hs[idx[i]])){printf("BAD destroy\n");return 1;} }
 if(dt!=3){printf("BAD dt\n");return 1;}
 { int c=0; qb_hdb_iterator_reset(&db); while(qb_hdb_iterator_next(&db,&p,&h)==0){ c++; qb_hdb_handle_put(&db,h);} printf("iter %d\n",c); if(c!=n-3) return 1; }
 for(i=0;i<3;i++){ r=qb_hdb_handle_create(&db,4,&h2); if(r){printf("BAD recreate %d\n",r);return 1;} printf("recreated slot %u\n",qb_hdb_base_convert(h2)); 
   int k; for(k=0;k<3;k++) if(h2==hs[idx[k]]){printf("BAD same handle\n");return 1;}
 }
 for(i=0;i<3;i++) if(qb_hdb_handle_get(&db,hs[idx[i]],&p)==0||qb_hdb_handle_refcount_get(&db,hs[idx[i]])>=0){printf("BAD stale accepted\n");return 1;}
 r=qb_hdb_handle_create(&db,4,&h2); if(r==0){printf("BAD over cap\n");return 1;}
 printf("ok dt=%d\n",dt); return 0; }
