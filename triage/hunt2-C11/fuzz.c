/*
 * Model-based randomized tester for property C11 (overwrite ring keeps the
 * newest chunks intact).  Ring part.  Compiled together with
 * /repo/lib/ringbuffer.c + ringbuffer_helper.c (sanitized), rest from libqb.so.
 *
 * usage: fuzz <seed> <iterations(rings)> <ops per ring> [verbose]
 */
#include "os_base.h"
#include <qb/qbrb.h>
#include <qb/qbdefs.h>
#include "ringbuffer_int.h"

#define MAGIC 0xA1A1A1A1u
#define OVERHEAD 16

static uint64_t rng_s;
static uint32_t rnd(void)
{
	rng_s ^= rng_s << 13; rng_s ^= rng_s >> 7; rng_s ^= rng_s << 17;
	return (uint32_t)(rng_s >> 11);
}
static uint32_t rndn(uint32_t n) { return n ? rnd() % n : 0; }

struct mchunk {
	size_t len;
	uint32_t pat;		/* payload pattern kind */
	uint32_t key;
};

#define MAXM (1 << 20)
static struct mchunk *model;
static size_t m_n;		/* chunks written so far */
static size_t m_read;		/* chunks [0,m_read) consumed/dropped for sure (by reader) */
static size_t req_size;
static int verbose;
static unsigned long total_ops, total_checks;
static char rbname[64];

static void fill(unsigned char *b, size_t len, uint32_t pat, uint32_t key)
{
	size_t i;
	switch (pat) {
	case 0:
		for (i = 0; i < len; i++) b[i] = (unsigned char)((key * 2654435761u + i * 40503u) >> 7);
		break;
	case 1:		/* all magic bytes */
		memset(b, 0xA1, len);
		break;
	case 2:		/* words: small size, MAGIC, repeated - looks like headers */
		for (i = 0; i < len; i++) {
			size_t w = i / 4;
			uint32_t v = (w & 1) ? MAGIC : (uint32_t)(key % 13);
			b[i] = ((unsigned char *)&v)[i % 4];
		}
		break;
	case 3:		/* words: MAGIC, small size (other phase) */
		for (i = 0; i < len; i++) {
			size_t w = i / 4;
			uint32_t v = (w & 1) ? (uint32_t)(key % 7) * 4 : MAGIC;
			b[i] = ((unsigned char *)&v)[i % 4];
		}
		break;
	default:
		memset(b, 0, len);
		break;
	}
}

#define FAIL(...) do { fprintf(stderr, "VIOLATION: " __VA_ARGS__); fprintf(stderr, "\n"); dump_hist(); if (cur_rb) qb_rb_close(cur_rb); exit(1); } while (0)

static char hist[64][160];
static unsigned hist_n;
static void dump_hist(void)
{
	unsigned i, s = hist_n > 64 ? hist_n - 64 : 0;
	fprintf(stderr, "ring %s requested=%zu; last ops:\n", rbname, req_size);
	for (i = s; i < hist_n; i++) fprintf(stderr, "  %s\n", hist[i % 64]);
}
#define H(...) do { snprintf(hist[hist_n % 64], 160, __VA_ARGS__); if (verbose) fprintf(stderr, "%s\n", hist[hist_n % 64]); hist_n++; } while (0)

/* lowest index that may legitimately be the oldest retained:
 * the newest chunks that fit into req_size counted with 16 bytes overhead
 * must be there (those not consumed by the reader) */
static size_t bound_prev;	/* chunks below this may be gone (alloc > commit history) */
static qb_ringbuffer_t *cur_rb;
static size_t must_have_from_a(size_t newest_alloc)
{
	size_t sum = 0, i = m_n;
	while (i > m_read) {
		size_t c = (i == m_n ? newest_alloc : model[i - 1].len) + OVERHEAD;
		if (sum + c > req_size) break;
		sum += c;
		i--;
	}
	if (i == m_n && m_n > m_read) i = m_n - 1;	/* k >= 1 */
	return i;
}
static size_t must_have_from_plain(void)
{
	size_t sum = 0, i = m_n;
	while (i > m_read) {
		size_t c = model[i - 1].len + OVERHEAD;
		if (sum + c > req_size) break;
		sum += c;
		i--;
	}
	if (i == m_n && m_n > m_read) i = m_n - 1;	/* k >= 1 */
	return i;
}
static size_t must_have_from(void)
{
	size_t f = must_have_from_plain();
	return f > bound_prev ? f : bound_prev;
}

static unsigned char *tmp, *tmp2;
static size_t tmpsz;

static void cmp_chunk(size_t idx, const unsigned char *data, size_t len, const char *how)
{
	size_t i;
	if (len != model[idx].len)
		FAIL("%s: chunk #%zu length %zu, model %zu", how, idx, len, model[idx].len);
	fill(tmp2, len, model[idx].pat, model[idx].key);
	for (i = 0; i < len; i++)
		if (data[i] != tmp2[i])
			FAIL("%s: chunk #%zu (len %zu) differs at byte %zu: %02x != %02x", how, idx, len, i, data[i], tmp2[i]);
}

/* non destructive walk over the live ring using the internal layout */
static void check_walk(qb_ringbuffer_t *rb)
{
	uint32_t ws = rb->shared_hdr->word_size;
	uint32_t pt = rb->shared_hdr->read_pt;
	uint32_t wr = rb->shared_hdr->write_pt;
	size_t n = 0, lens[1], first, i;
	uint32_t p;
	(void)lens;
	/* count */
	for (p = pt; p != wr;) {
		uint32_t magic = rb->shared_data[(p + 1) % ws];
		uint32_t sz = rb->shared_data[p];
		uint32_t used;
		if (magic != MAGIC)
			FAIL("walk: at word %u (read %u write %u) magic %08x", p, pt, wr, magic);
		used = 2 + sz / 4 + ((sz % 4) ? 1 : 0);
		if (used >= ws) FAIL("walk: chunk size %u too large", sz);
		/* must not step over write pointer */
		{
			uint32_t dist = (wr + ws - p) % ws;
			if (used > dist) FAIL("walk: chunk at %u size %u steps over write_pt %u", p, sz, wr);
		}
		p = (p + used) % ws;
		n++;
		if (n > ws) FAIL("walk: endless");
	}
	if (rb->shared_data[(wr + 1) % ws] == MAGIC)
		FAIL("walk: word behind write_pt %u looks like a chunk (read %u)", wr, pt);
	if (n > m_n - m_read) FAIL("walk: %zu chunks readable, only %zu outstanding", n, m_n - m_read);
	if (m_n > m_read && n == 0 && must_have_from() < m_n) FAIL("walk: nothing readable although %zu written and not read", m_n - m_read);
	first = m_n - n;
	if (first > must_have_from())
		FAIL("walk: oldest readable is #%zu but #%zu.. fit into the requested size %zu (newest #%zu)", first, must_have_from(), req_size, m_n - 1);
	for (p = pt, i = first; p != wr; i++) {
		uint32_t sz = rb->shared_data[p];
		cmp_chunk(i, (unsigned char *)&rb->shared_data[(p + 2) % ws], sz, "walk");
		p = (p + 2 + sz / 4 + ((sz % 4) ? 1 : 0)) % ws;
	}
	total_checks++;
}

/* dump to file, load, read everything back destructively from the copy */
static void check_dump(qb_ringbuffer_t *rb)
{
	char fn[128];
	int fd;
	ssize_t r;
	qb_ringbuffer_t *c;
	size_t n = 0, first, i;
	static struct { size_t len; unsigned char *d; } *got;
	static size_t got_cap;

	snprintf(fn, sizeof(fn), "/tmp/hunt2-C11/dump-%d", (int)getpid());
	fd = open(fn, O_CREAT | O_TRUNC | O_RDWR, 0600);
	if (fd < 0) { perror("open"); exit(2); }
	r = qb_rb_write_to_file(rb, fd);
	if (r < 0) FAIL("write_to_file %zd", r);
	lseek(fd, 0, SEEK_SET);
	c = qb_rb_create_from_file(fd, 0);
	close(fd);
	unlink(fn);
	if (!c) FAIL("create_from_file failed errno %d", errno);
	for (;;) {
		r = qb_rb_chunk_read(c, tmp, tmpsz, 0);
		if (r < 0) break;
		if (n == got_cap) {
			got_cap = got_cap ? got_cap * 2 : 1024;
			got = realloc(got, got_cap * sizeof(*got));
		}
		got[n].len = r;
		got[n].d = malloc(r ? r : 1);
		memcpy(got[n].d, tmp, r);
		n++;
		if (n > 3000000) FAIL("dump: endless read");
	}
	if (r != -ETIMEDOUT) FAIL("dump: read ended with %zd", r);
	qb_rb_close(c);
	if (n > m_n - m_read) FAIL("dump: %zu chunks readable, only %zu outstanding", n, m_n - m_read);
	if (m_n > m_read && n == 0 && must_have_from() < m_n) FAIL("dump: nothing readable although %zu written and not read", m_n - m_read);
	first = m_n - n;
	if (first > must_have_from())
		FAIL("dump: oldest readable is #%zu but #%zu.. fit into requested size", first, must_have_from());
	for (i = 0; i < n; i++) {
		cmp_chunk(first + i, got[i].d, got[i].len, "dump");
		free(got[i].d);
	}
	total_checks++;
}

static const size_t sizes[] = { 1, 2, 3, 4, 5, 8, 11, 12, 13, 16, 17, 24, 64, 100, 511, 1000, 1024,
	4070, 4075, 4079, 4080, 4081, 4082, 4083, 4084, 4085, 4086, 4090, 4095, 4096, 4097,
	8170, 8175, 8178, 8179, 8180, 8181, 8192, 12275, 12276, 16371, 16372, 20000 };

static size_t pick_len(size_t cap)
{
	switch (rndn(12)) {
	case 0: return 0;
	case 1: return 1 + rndn(8);
	case 2: return rndn(64);
	case 3: return req_size;
	case 4: return req_size > 20 ? req_size - rndn(20) : rndn((uint32_t)req_size + 1);
	case 5: return cap - rndn(cap < 24 ? (uint32_t)cap : 24);	/* near capacity */
	case 6: return rndn((uint32_t)req_size + 1);
	case 7: return rndn((uint32_t)cap + 1);
	case 8: return cap;
	case 9: return req_size / 2 + rndn(8);
	case 10: return req_size / 3 + rndn(8);
	default: return rndn(300);
	}
}

static void one_ring(unsigned ringno, unsigned nops)
{
	qb_ringbuffer_t *rb;
	uint32_t flags = QB_RB_FLAG_CREATE | QB_RB_FLAG_OVERWRITE;
	size_t cap;
	unsigned op;
	int mode = rndn(4);	/* length profile */
	int reader = rndn(3);	/* 0: never read, 1: sometimes, 2: often */

	if (rndn(4) == 0)
		req_size = 1 + rndn(20000);
	else
		req_size = sizes[rndn(sizeof(sizes) / sizeof(sizes[0]))];
	if (getenv("FORCE_SIZE")) req_size = strtoul(getenv("FORCE_SIZE"), NULL, 0) + rndn(3) - 1;
	switch (rndn(3)) {
	case 0: flags |= QB_RB_FLAG_NO_SEMAPHORE; break;
	case 1: flags |= QB_RB_FLAG_SHARED_PROCESS; break;
	default: flags |= QB_RB_FLAG_SHARED_THREAD; break;
	}
	snprintf(rbname, sizeof(rbname), "h2c11-%d-%u", (int)getpid(), ringno);
	rb = qb_rb_open(rbname, req_size, flags, 0);
	if (!rb) { fprintf(stderr, "open %s size %zu failed: %d\n", rbname, req_size, errno); exit(2); }
	cap = (size_t)rb->shared_hdr->word_size * 4 - 12;
	if (cap < req_size) FAIL("capacity %zu < requested %zu", cap, req_size);
	m_n = m_read = 0; bound_prev = 0; cur_rb = rb;
	hist_n = 0;
	H("open size=%zu flags=%x ws=%u", req_size, flags, rb->shared_hdr->word_size);

	for (op = 0; op < nops; op++) {
		unsigned what = rndn(100);
		total_ops++;
		if (what < (reader == 0 ? 96u : reader == 1 ? 85u : 60u)) {
			/* write */
			size_t len;
			uint32_t pat = rndn(6), key = rnd();
			ssize_t r;
			int via_alloc = rndn(4) == 0;
			size_t alen, blen = 0;
			if (pat > 3) pat = 0;
			switch (mode) {
			case 0: len = pick_len(cap); break;
			case 1: len = rndn(40); break;
			case 2: len = rndn(2) ? rndn(16) : pick_len(cap); break;
			default: len = rndn(5) ? 4 * rndn(8) + (req_size % 4096 > 200 ? 0 : 0) : pick_len(cap); break;
			}
			if (rndn(50) == 0) len = cap + 1 + rndn(8);	/* must be refused, harmlessly */
			if (m_n >= MAXM) break;
			fill(tmp, len <= tmpsz ? len : 0, pat, key);
			alen = len;
			if (via_alloc) {
				void *p;
				alen = len + rndn(3) * rndn(64);
				if (alen > cap && len <= cap) alen = len;
				if (rndn(8) == 0) {
					/* an allocation that is abandoned, then the real one */
					size_t a0 = rndn((uint32_t)cap + 1);
					void *p0 = qb_rb_chunk_alloc(rb, a0);
					H("alloc(%zu)%s abandoned", a0, p0 ? "" : "=NULL");
					if (!p0) FAIL("alloc(%zu) <= capacity failed", a0);
					memset(p0, 0xA1, a0);
					if (a0 > blen) blen = a0;
					{	/* room was made for a chunk that never came */
						size_t sum = a0 + OVERHEAD, i = m_n;
						while (i > m_read) {
							size_t c = model[i - 1].len + OVERHEAD;
							if (sum + c > req_size) break;
							sum += c; i--;
						}
						if (i > bound_prev) bound_prev = i;
					}
				}
				p = qb_rb_chunk_alloc(rb, alen);
				H("alloc(%zu)%s commit(%zu) pat=%u #%zu", alen, p ? "" : "=NULL", len, pat, m_n);
				if (!p) {
					r = -errno;
				} else {
					int32_t cr;
					memcpy(p, tmp, len);
					cr = qb_rb_chunk_commit(rb, len);
					r = cr < 0 ? cr : (ssize_t)len;
				}
			} else {
				H("write(%zu) pat=%u #%zu", len, pat, m_n);
				if (len > cap) {
					/* source buffer large enough anyway */
				}
				r = qb_rb_chunk_write(rb, tmp, len);
			}
			if (r >= 0) {
				if ((size_t)r != len) FAIL("write(%zu) returned %zd", len, r);
				if (alen > cap) FAIL("write of %zu accepted, capacity %zu", alen, cap);
				model[m_n].len = len; model[m_n].pat = pat; model[m_n].key = key;
				m_n++;
				{
					size_t f = must_have_from_a(alen > blen ? alen : blen);
					if (f > bound_prev) bound_prev = f;
				}
			} else {
				if (alen <= req_size)
					FAIL("write of %zu (<= requested %zu) failed: %zd", alen, req_size, r);
				if (alen <= cap)
					H("note: write of %zu (cap %zu) refused %zd", alen, cap, r);
			}
			check_walk(rb);
		} else if (what < 97) {
			/* destructive read of the oldest */
			ssize_t r;
			size_t lo = m_read, hi = must_have_from();
			uint32_t ws = rb->shared_hdr->word_size;
			/* which chunk is the oldest now? derive from walk */
			size_t n = 0; uint32_t p;
			for (p = rb->shared_hdr->read_pt; p != rb->shared_hdr->write_pt;) {
				uint32_t sz = rb->shared_data[p];
				p = (p + 2 + sz / 4 + ((sz % 4) ? 1 : 0)) % ws; n++;
			}
			(void)lo; (void)hi;
			if (rndn(2)) {
				r = qb_rb_chunk_read(rb, tmp, tmpsz, 0);
				H("read -> %zd (walk says %zu chunks)", r, n);
				if (r >= 0) {
					if (n == 0) FAIL("read returned %zd from an empty ring", r);
					cmp_chunk(m_n - n, tmp, r, "read");
					m_read = m_n - n + 1;
				} else if (n != 0) {
					FAIL("read failed %zd although %zu chunks are there", r, n);
				}
			} else {
				void *d = NULL;
				r = qb_rb_chunk_peek(rb, &d, 0);
				H("peek -> %zd (walk says %zu chunks)", r, n);
				if (r >= 0 && !(r == 0 && d == NULL)) {
					if (n == 0) FAIL("peek returned %zd from an empty ring", r);
					cmp_chunk(m_n - n, d, r, "peek");
					qb_rb_chunk_reclaim(rb);
					m_read = m_n - n + 1;
				} else if (n != 0) {
					FAIL("peek failed %zd although %zu chunks are there", r, n);
				} else {
					qb_rb_chunk_reclaim(rb);	/* on empty: no-op */
				}
			}
			check_walk(rb);
		} else {
			H("dump");
			check_dump(rb);
		}
	}
	check_dump(rb);
	qb_rb_close(rb);
}

int main(int argc, char **argv)
{
	unsigned long seed = argc > 1 ? strtoul(argv[1], NULL, 0) : 1;
	unsigned rings = argc > 2 ? atoi(argv[2]) : 100;
	unsigned nops = argc > 3 ? atoi(argv[3]) : 2000;
	unsigned i;
	int nul;

	verbose = argc > 4;
	rng_s = seed * 0x9E3779B97F4A7C15ull + 1;
	model = calloc(MAXM, sizeof(*model));
	tmpsz = 4 << 20;
	tmp = malloc(tmpsz);
	tmp2 = malloc(tmpsz);
	/* qb_rb_write_to_file prints the header on stdout */
	nul = open("/dev/null", O_WRONLY);
	dup2(nul, 1);
	for (i = 0; i < rings; i++)
		one_ring(i, nops);
	fprintf(stderr, "seed %lu: %u rings, %lu ops, %lu full checks: OK\n", seed, rings, total_ops, total_checks);
	return 0;
}
