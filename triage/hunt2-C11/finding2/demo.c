/*
 * C11 finding 2: an overwrite ring opened with its default (semaphore)
 * notifier refuses - by return value - every write after the 2147483647th
 * one that no reader has taken: qb_rb_chunk_write() returns -EOVERFLOW,
 * although the property says every write of at most the requested size
 * succeeds in overwrite mode.  (The chunk itself is stored.)
 *
 * exit 0: all writes succeeded;  exit 1: a write failed.
 */
#include <stdio.h>
#include <stdlib.h>
#include <string.h>
#include <stdint.h>
#include <errno.h>
#include <unistd.h>
#include <qb/qbrb.h>

int main(void)
{
	char name[64];
	qb_ringbuffer_t *rb;
	uint64_t i, n = (1ull << 31) + 4;
	uint32_t payload;
	int rc = 0;

	snprintf(name, sizeof(name), "h2c11-f2-%d", (int)getpid());
	rb = qb_rb_open(name, 1024, QB_RB_FLAG_CREATE | QB_RB_FLAG_OVERWRITE, 0);
	if (!rb) { perror("qb_rb_open"); return 2; }
	for (i = 1; i <= n; i++) {
		ssize_t r;
		payload = (uint32_t)i;
		r = qb_rb_chunk_write(rb, &payload, sizeof(payload));
		if (r != sizeof(payload)) {
			char buf[16];
			ssize_t rd;
			printf("write #%llu of 4 bytes into an overwrite ring of requested size 1024 returned %zd (%s)\n",
			       (unsigned long long)i, r, strerror((int)-r));
			rc = 1;
			/* show that it stays that way */
			r = qb_rb_chunk_write(rb, &payload, sizeof(payload));
			printf("next write returned %zd\n", r);
			rd = qb_rb_chunk_read(rb, buf, sizeof(buf), 0);
			printf("(a read returns %zd)\n", rd);
			break;
		}
	}
	if (rc == 0) printf("%llu writes succeeded\n", (unsigned long long)n);
	qb_rb_close(rb);
	return rc;
}
