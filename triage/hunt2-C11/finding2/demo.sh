#!/bin/sh
# usage: demo.sh <tree>    exit 0 = property held, non-zero = violated
# note: performs 2^31 writes; takes one to a few minutes (no sanitizer on purpose)
T=${1:-/repo}
D=$(cd "$(dirname "$0")" && pwd)
gcc -O2 -g -I$T/include -o $D/demo $D/demo.c -L$T/lib/.libs -lqb -lpthread || exit 2
LD_LIBRARY_PATH=$T/lib/.libs $D/demo
