/*
 * Model-based randomized tester for property C11, blackbox part:
 * a dump taken at any moment contains an unbroken run of the latest
 * log records, ending with the very last one, each intact.
 *
 * usage: bbfuzz <seed> <size> <max_line_len(0=default)> <nrecords> [verbose]
 */
#include "os_base.h"
#include <stdarg.h>
#include <qb/qbdefs.h>
#include <qb/qblog.h>
#include <qb/qbrb.h>

static uint64_t rng_s;
static uint32_t rnd(void)
{
	rng_s ^= rng_s << 13; rng_s ^= rng_s >> 7; rng_s ^= rng_s << 17;
	return (uint32_t)(rng_s >> 11);
}
static uint32_t rndn(uint32_t n) { return n ? rnd() % n : 0; }

#define TOO_LONG "Log message too long to be stored in the blackbox.  Maximum is QB_LOG_MAX_LEN"

struct rec {
	uint32_t seq;
	int site;
	char *text;	/* expected printed message */
	size_t reserved;
	size_t actual;
};
struct site {
	char *fn;
	int fmt;
	uint8_t prio;
	uint32_t lineno;
	uint32_t tags;
};

#define NSITES 2000
#define NFN 64
static struct site sites[NSITES];
static char *fns[NFN];
static char *literals[8];
static char *fmts[16];
static int nfmts;

static struct rec *recs;
static size_t nrecs, recs_cap;
static size_t epoch_start;	/* first record of the current blackbox instance */
static size_t bb_size, max_line;
static int verbose;
static unsigned long ndumps, minrun = ~0ul, totalrun;
static int realstdout;

#define FAIL(...) do { dprintf(2, "VIOLATION: " __VA_ARGS__); dprintf(2, "\n"); qb_log_fini(); exit(1); } while (0)

static char *rstr(size_t n, int kind)
{
	char *s = malloc(n + 1);
	size_t i;
	for (i = 0; i < n; i++) {
		if (kind == 0) s[i] = "abcdefghijklmnopqrstuvwxyzABCDEFGHIJKLMNOPQRSTUVWXYZ0123456789_"[rndn(63)];
		else s[i] = 32 + rndn(95);
		if (kind == 1 && s[i] == '%') s[i] = '_';
	}
	s[n] = 0;
	return s;
}

static void add_rec(uint32_t seq, int site, const char *text, size_t serlen, size_t fnlen)
{
	if (nrecs == recs_cap) {
		recs_cap = recs_cap ? recs_cap * 2 : 4096;
		recs = realloc(recs, recs_cap * sizeof(*recs));
	}
	recs[nrecs].seq = seq;
	recs[nrecs].site = site;
	recs[nrecs].text = strdup(text);
	recs[nrecs].reserved = 17 + fnlen + 1 + 16 + max_line;
	recs[nrecs].actual = 17 + fnlen + 1 + 16 + serlen;
	nrecs++;
}

static void log_one(uint32_t seq)
{
	int si = rndn(NSITES);
	struct site *s = &sites[si];
	char exp[16384];
	size_t ser = strlen(fmts[s->fmt]) + 1 + 4;
	size_t l;
	char *a = NULL;

	switch (s->fmt) {
	case 0:
		snprintf(exp, sizeof(exp), fmts[0], seq);
		qb_log_from_external_source(s->fn, "bbfuzz.c", fmts[0], s->prio, s->lineno, s->tags, seq);
		break;
	case 1: {
		size_t n = rndn(4) ? rndn(40) : rndn((uint32_t)max_line + 40);
		a = rstr(n, 1);
		snprintf(exp, sizeof(exp), fmts[1], seq, a);
		ser += n + 1;
		qb_log_from_external_source(s->fn, "bbfuzz.c", fmts[1], s->prio, s->lineno, s->tags, seq, a);
		break;
	}
	case 2: {
		int d = (int)rnd(); long ld = ((long)rnd() << 20) ^ rnd(); int c = 'A' + rndn(26);
		a = rstr(rndn(30), 1);
		snprintf(exp, sizeof(exp), fmts[2], seq, d, ld, a, c);
		ser += 4 + 8 + strlen(a) + 1 + 1;
		qb_log_from_external_source(s->fn, "bbfuzz.c", fmts[2], s->prio, s->lineno, s->tags, seq, d, ld, a, c);
		break;
	}
	case 3: {
		double f = (double)rnd() / 977.0; unsigned x = rnd();
		snprintf(exp, sizeof(exp), fmts[3], seq, f, x);
		ser += 8 + 4;
		qb_log_from_external_source(s->fn, "bbfuzz.c", fmts[3], s->prio, s->lineno, s->tags, seq, f, x);
		break;
	}
	case 4: {
		int w = rndn(60);
		a = rstr(rndn(50), 1);
		snprintf(exp, sizeof(exp), fmts[4], seq, w, a);
		ser += 4 + strlen(a) + 1;
		qb_log_from_external_source(s->fn, "bbfuzz.c", fmts[4], s->prio, s->lineno, s->tags, seq, w, a);
		break;
	}
	default:
		snprintf(exp, sizeof(exp), fmts[s->fmt], seq);
		qb_log_from_external_source(s->fn, "bbfuzz.c", fmts[s->fmt], s->prio, s->lineno, s->tags, seq);
		break;
	}
	free(a);
	l = strlen(exp);
	while (l > 0 && exp[l - 1] == '\n') exp[--l] = 0;
	if (l > 4095) exp[4095] = 0;
	if (ser >= max_line) {
		size_t n = strlen(TOO_LONG);
		if (n > max_line - 1) n = max_line - 1;
		memcpy(exp, TOO_LONG, n);
		exp[n] = 0;
		ser = n + 1;
	}
	add_rec(seq, si, exp, ser, strlen(s->fn));
	if (verbose) dprintf(2, "log #%u site %d fn=%zu fmt=%d ser=%zu: %.60s\n", seq, si, strlen(s->fn), s->fmt, ser, exp);
}

static const char *prio_names[] = { "emerg", "alert", "crit", "error", "warning", "notice", "info", "debug", "trace" };

static void do_dump(void)
{
	char fn[128], out[128];
	ssize_t r;
	int fd, rc;
	FILE *f;
	static char *line;
	static size_t linecap;
	ssize_t ll;
	size_t n = 0, first, i;
	static char **got_fn, **got_msg;
	static unsigned *got_line, *got_tags;
	static char (*got_prio)[16];
	static size_t got_cap;

	snprintf(fn, sizeof(fn), "/tmp/hunt2-C11/bb-%d.dump", (int)getpid());
	snprintf(out, sizeof(out), "/tmp/hunt2-C11/bb-%d.out", (int)getpid());
	unlink(fn);
	fd = open(out, O_CREAT | O_TRUNC | O_RDWR, 0600);
	fflush(stdout);
	dup2(fd, 1);
	close(fd);
	r = qb_log_blackbox_write_to_file(fn);
	if (r < 0) { fflush(stdout); dup2(realstdout, 1); FAIL("write_to_file returned %zd after %zu records (epoch %zu)", r, nrecs, epoch_start); }
	rc = qb_log_blackbox_print_from_file(fn);
	fflush(stdout);
	dup2(realstdout, 1);
	(void)rc;
	unlink(fn);

	f = fopen(out, "r");
	while ((ll = getline(&line, &linecap, f)) > 0) {
		char prio[16], mon[8], tm[32], *p, *q;
		int day, off = 0;
		if (line[ll - 1] == '\n') line[--ll] = 0;
		if (!strncmp(line, "Ringbuffer", 10) || !strncmp(line, " ->", 3) || !strncmp(line, " =>", 3))
			continue;
		if (!strncmp(line, "ERROR", 5))
			FAIL("print_from_file says: %s (after %zu lines, %zu records logged)", line, n, nrecs - epoch_start);
		if (sscanf(line, "%15s %7s %d %31s %n", prio, mon, &day, tm, &off) < 4 || off == 0)
			FAIL("unparsable line: %s", line);
		p = line + off;
		q = strchr(p, '(');
		if (!q) FAIL("unparsable line (fn): %s", line);
		if (n == got_cap) {
			got_cap = got_cap ? got_cap * 2 : 1024;
			got_fn = realloc(got_fn, got_cap * sizeof(char *));
			got_msg = realloc(got_msg, got_cap * sizeof(char *));
			got_line = realloc(got_line, got_cap * sizeof(unsigned));
			got_tags = realloc(got_tags, got_cap * sizeof(unsigned));
			got_prio = realloc(got_prio, got_cap * 16);
		}
		*q = 0;
		got_fn[n] = strdup(p);
		p = q + 1;
		if (sscanf(p, "%u):%u: %n", &got_line[n], &got_tags[n], &off) < 2)
			FAIL("unparsable line (lineno): %s", p);
		got_msg[n] = strdup(p + off);
		strcpy(got_prio[n], prio);
		n++;
	}
	fclose(f);
	if (!getenv("KEEP")) unlink(out);

	if (n > nrecs - epoch_start) FAIL("dump has %zu records, only %zu logged", n, nrecs - epoch_start);
	if (nrecs > epoch_start && n == 0) FAIL("dump has no record although %zu were logged", nrecs - epoch_start);
	first = nrecs - n;
	for (i = 0; i < n; i++) {
		struct rec *r_ = &recs[first + i];
		struct site *s = &sites[r_->site];
		if (strcmp(got_msg[i], r_->text))
			FAIL("dump record %zu of %zu (expected seq #%u): message\n got: %s\n exp: %s", i, n, r_->seq, got_msg[i], r_->text);
		if (strcmp(got_fn[i], s->fn) || got_line[i] != s->lineno || got_tags[i] != s->tags ||
		    strcmp(got_prio[i], prio_names[s->prio]))
			FAIL("dump record %zu (seq #%u): header differs: %s %s(%u):%u vs %s %s(%u):%u", i, r_->seq,
			     got_prio[i], got_fn[i], got_line[i], got_tags[i], prio_names[s->prio], s->fn, s->lineno, s->tags);
		free(got_fn[i]); free(got_msg[i]);
	}
	ndumps++;
	if (nrecs > epoch_start) {
		if (n < minrun) minrun = n;
		totalrun += n;
	}
	if (verbose) dprintf(2, "dump ok: %zu records\n", n);
}

int main(int argc, char **argv)
{
	unsigned long seed = argc > 1 ? strtoul(argv[1], NULL, 0) : 1;
	size_t nrec = argc > 4 ? strtoul(argv[4], NULL, 0) : 10000;
	int i, rc;
	uint32_t seq = 0;

	bb_size = argc > 2 ? strtoul(argv[2], NULL, 0) : 1024;
	max_line = argc > 3 ? strtoul(argv[3], NULL, 0) : 0;
	verbose = argc > 5;
	rng_s = seed * 0x9E3779B97F4A7C15ull + 1;
	realstdout = dup(1);

	for (i = 0; i < NFN; i++)
		fns[i] = rstr(i < 4 ? 1 + i : (rndn(5) == 0 ? 1 + rndn(400) : 1 + rndn(30)), 0);
	fmts[0] = "#%u plain";
	fmts[1] = "#%u str=%s";
	fmts[2] = "#%u d=%d ld=%ld s=%s c=%c";
	fmts[3] = "#%u f=%8.3f x=%#x %%done\n";
	fmts[4] = "#%u %-*s|";
	nfmts = 5;
	for (i = 0; i < 6; i++) {
		static const size_t ll[] = { 60, 72, 200, 500, 506, 1200 };
		char *lit = rstr(ll[i], 1);
		fmts[nfmts] = malloc(ll[i] + 16);
		sprintf(fmts[nfmts], "#%%u %s", lit);
		free(lit);
		nfmts++;
	}
	for (i = 0; i < NSITES; i++) {
		sites[i].fn = fns[rndn(NFN)];
		sites[i].fmt = rndn(3) ? rndn(5) : rndn(nfmts);
		sites[i].prio = rndn(9);
		sites[i].lineno = rndn(4) ? rndn(70000) : rnd();
		sites[i].tags = rndn(2) ? rndn(16) : rnd();
	}

	qb_log_init("h2c11bb", LOG_USER, LOG_EMERG);
	qb_log_ctl(QB_LOG_SYSLOG, QB_LOG_CONF_ENABLED, QB_FALSE);
	rc = qb_log_filter_ctl(QB_LOG_BLACKBOX, QB_LOG_FILTER_ADD, QB_LOG_FILTER_FILE, "bbfuzz.c", LOG_TRACE);
	if (rc) { dprintf(2, "filter_ctl %d\n", rc); return 2; }
	rc = qb_log_ctl(QB_LOG_BLACKBOX, QB_LOG_CONF_SIZE, bb_size);
	if (rc) { dprintf(2, "conf size %d\n", rc); return 2; }
	if (max_line) {
		rc = qb_log_ctl(QB_LOG_BLACKBOX, QB_LOG_CONF_MAX_LINE_LEN, max_line);
		if (rc) { dprintf(2, "conf max line %d\n", rc); return 2; }
	} else {
		max_line = QB_LOG_MAX_LEN;
	}
	rc = qb_log_ctl(QB_LOG_BLACKBOX, QB_LOG_CONF_ENABLED, QB_TRUE);
	if (rc) { dprintf(2, "enable blackbox size %zu: %d\n", bb_size, rc); return 2; }

	do_dump();	/* empty */
	while (seq < nrec) {
		unsigned burst = rndn(3) == 0 ? 1 : rndn(2) ? rndn(8) : rndn(200);
		while (burst-- && seq < nrec)
			log_one(++seq);
		do_dump();
		if (getenv("RECONF") && max_line <= 1000 && rndn(20) == 0) {
			static const int szs[] = { 1, 100, 1024, 4083, 4084, 8179, 8180, 30000, 200000 };
			if (bb_size >= 1024 && rndn(2)) {
				qb_log_ctl(QB_LOG_BLACKBOX, QB_LOG_CONF_ENABLED, QB_FALSE);
				rc = qb_log_ctl(QB_LOG_BLACKBOX, QB_LOG_CONF_ENABLED, QB_TRUE);
				if (rc) FAIL("re-enable with size %zu: %d", bb_size, rc);
			} else {
				bb_size = szs[rndn(9)];
				rc = qb_log_ctl(QB_LOG_BLACKBOX, QB_LOG_CONF_SIZE, bb_size);
				if (rc) FAIL("resize to %zu: %d", bb_size, rc);
			}
			epoch_start = nrecs;	/* contents are dropped by design */
			do_dump();
		}
	}
	qb_log_fini();
	dprintf(2, "seed %lu size %zu maxline %zu: %u records, %lu dumps, run length min %lu avg %lu: OK\n",
		seed, bb_size, max_line, seq, ndumps, minrun, ndumps ? totalrun / ndumps : 0);
	return 0;
}
