#!/bin/sh
# usage: build.sh [tree]   (default /repo)
T=${1:-/repo}
D=$(dirname "$0")
CF="-g -O1 -fno-omit-frame-pointer -DHAVE_CONFIG_H -D_GNU_SOURCE -I$T/include -I$T/include/qb -I$T/lib -I$T"
set -e
gcc $CF -fsanitize=address,undefined -o $D/fuzz $D/fuzz.c $T/lib/ringbuffer.c $T/lib/ringbuffer_helper.c \
    -L$T/lib/.libs -lqb -lpthread
if [ -f $D/bbfuzz.c ]; then
gcc $CF -fsanitize=address,undefined -o $D/bbfuzz $D/bbfuzz.c $T/lib/ringbuffer.c $T/lib/ringbuffer_helper.c \
    $T/lib/log_blackbox.c $T/lib/log_format.c $T/lib/log.c $T/lib/log_thread.c $T/lib/log_dcs.c \
    $T/lib/log_file.c $T/lib/log_syslog.c \
    -L$T/lib/.libs -lqb -lpthread -ldl
fi
