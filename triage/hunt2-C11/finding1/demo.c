/*
 * C11 finding 1: a small log record makes the blackbox throw away itself
 * (all records, and every later one) when the target's maximum line length
 * plus the record header does not fit into the ring - the writer reserves
 * the maximum, not the record's size.
 *
 * usage: demo <blackbox size> <max line len> <long function name: 0|1>
 * exit 0: every dump contained the latest records; 1: violated.
 */
#include <stdio.h>
#include <stdlib.h>
#include <string.h>
#include <stdint.h>
#include <errno.h>
#include <unistd.h>
#include <fcntl.h>
#include <syslog.h>
#include <qb/qbdefs.h>
#include <qb/qblog.h>

static int dump_and_count(const char *want_last)
{
	char fn[64], out[64], line[8192];
	int saved = dup(1), fd, n = 0, last_ok = 0;
	ssize_t r;
	FILE *f;

	snprintf(fn, sizeof(fn), "/tmp/h2c11-f1-%d.dump", (int)getpid());
	snprintf(out, sizeof(out), "/tmp/h2c11-f1-%d.out", (int)getpid());
	unlink(fn);
	fflush(stdout);
	fd = open(out, O_CREAT | O_TRUNC | O_RDWR, 0600);
	dup2(fd, 1); close(fd);
	r = qb_log_blackbox_write_to_file(fn);
	if (r >= 0) (void)qb_log_blackbox_print_from_file(fn);
	fflush(stdout);
	dup2(saved, 1); close(saved);
	unlink(fn);
	if (r < 0) {
		printf("  qb_log_blackbox_write_to_file() = %zd (%s): there is no blackbox any more\n", r, strerror((int)-r));
		unlink(out);
		return -1;
	}
	f = fopen(out, "r");
	while (fgets(line, sizeof(line), f)) {
		if (strstr(line, "demo.c") == NULL && strstr(line, "msg ") == NULL) continue;
		if (strstr(line, "msg ")) { n++; last_ok = strstr(line, want_last) != NULL; }
	}
	fclose(f);
	unlink(out);
	printf("  dump holds %d records, the last one is %s\n", n, last_ok ? "the newest" : "NOT the newest");
	return last_ok ? n : -1;
}

int main(int argc, char **argv)
{
	int size = argc > 1 ? atoi(argv[1]) : 2048;
	int maxline = argc > 2 ? atoi(argv[2]) : 4096;
	int longfn = argc > 3 ? atoi(argv[3]) : 0;
	int rc, bad = 0, i;
	char want[32];

	qb_log_init("h2c11f1", LOG_USER, LOG_EMERG);
	qb_log_ctl(QB_LOG_SYSLOG, QB_LOG_CONF_ENABLED, QB_FALSE);
	qb_log_filter_ctl(QB_LOG_BLACKBOX, QB_LOG_FILTER_ADD, QB_LOG_FILTER_FILE, "demo.c", LOG_TRACE);
	rc = qb_log_ctl(QB_LOG_BLACKBOX, QB_LOG_CONF_SIZE, size);
	printf("blackbox size %d: %d\n", size, rc);
	rc = qb_log_ctl(QB_LOG_BLACKBOX, QB_LOG_CONF_MAX_LINE_LEN, maxline);
	printf("blackbox max line length %d: %d\n", maxline, rc);
	rc = qb_log_ctl(QB_LOG_BLACKBOX, QB_LOG_CONF_ENABLED, QB_TRUE);
	printf("blackbox enabled: %d\n", rc);
	if (rc) return 2;

	for (i = 1; i <= 5; i++) {
		const char *fn = "f";
		if (longfn && i == 4) fn = "a_function_with_a_name_of_fifty_characters_in_all_";
		qb_log_from_external_source(fn, "demo.c", "msg %d", LOG_INFO, 10 + i, 0, i);
		snprintf(want, sizeof(want), "msg %d", i);
		printf("logged \"%s\" (11-byte message) from %s():\n", want, fn);
		if (dump_and_count(want) < 1) bad = 1;
	}
	qb_log_fini();
	printf(bad ? "VIOLATED\n" : "held\n");
	return bad;
}
