#!/bin/sh
# usage: demo.sh <tree>    exit 0 = property held, non-zero = violated
T=${1:-/repo}
D=$(cd "$(dirname "$0")" && pwd)
CF="-g -O1 -fno-omit-frame-pointer -DHAVE_CONFIG_H -D_GNU_SOURCE -I$T/include -I$T/include/qb -I$T/lib -I$T"
gcc $CF -fsanitize=address,undefined -o $D/demo $D/demo.c $T/lib/ringbuffer.c $T/lib/ringbuffer_helper.c \
    $T/lib/log_blackbox.c -L$T/lib/.libs -lqb -lpthread || exit 2
export LD_LIBRARY_PATH=$T/lib/.libs
rc=0
echo "== A: size 2048, max line length 4096 (the documented maximum)"
$D/demo 2048 4096 0 2>&1 || rc=1
echo "== B: size 4000, max line length 4030, one record from a function with a long name"
$D/demo 4000 4030 1 2>&1 || rc=1
echo "== control: size 2048, default line length"
$D/demo 2048 512 1 2>&1 | tail -1
exit $rc
