#!/bin/sh
export LD_LIBRARY_PATH=/repo/lib/.libs ASAN_OPTIONS=detect_leaks=0
cd /tmp/hunt3-C18
for seed in 11 12 13 14; do
for impl in 0 1 2; do
for nk in 1 2 5 16 17 64 300 1500 4000; do
for it in 1 2 16; do
for fl in 0 1 3 5 6 37; do
for hs in 0 1000; do
  [ $impl -ne 0 ] && [ $hs -ne 0 ] && continue
  out=$(./fuzz $impl $seed 40000 $nk $it $fl $hs 2>&1); rc=$?
  if [ $rc -ne 0 ]; then echo "== impl $impl seed $seed nk $nk it $it fl $fl hs $hs rc $rc"; echo "$out" | head -8; fi
done; done; done; done; done; done
echo SWEEP DONE
