#!/bin/sh
# usage: build.sh [tree]   (default /repo) -> ./fuzz
T=${1:-/repo}
set -e
cd "$(dirname "$0")"
gcc -g -O1 -fno-omit-frame-pointer -fsanitize=address,undefined -fno-sanitize-recover=undefined \
  -DHAVE_CONFIG_H -I$T/include -I$T/include/qb -I$T/lib \
  -o fuzz fuzz.c $T/lib/hashtable.c $T/lib/skiplist.c $T/lib/trie.c $T/lib/map.c \
  -L$T/lib/.libs -lqb
