/*
 * C18 model-based randomized tester: map iterators under removal/insertion.
 *
 * usage: fuzz <impl: 0=hashtable 1=skiplist 2=trie> <seed> <nops> <nkeys> <maxiters> <flags> [htsize]
 *   flags bit0: heap keys (each put strdup()s the key; the key and value are
 *               freed from the QB_MAP_NOTIFY_FREE notifier - the documented way)
 *         bit1: removals only while iterators are open (puts only when no iterator open)
 *         bit2: use prefix iterators too (trie only)
 *         bit3: verbose trace of operations
 *         bit4: "soft" checks are fatal (returned key is currently present, value matches,
 *               sorted order, NULL again after end, FREE accounting)
 *         bit5: no notifier at all (static keys only)
 *         bit7: key-specific notifiers are added/deleted at random (for the trie also on
 *               absent keys and prefixes, which creates/releases valueless nodes)
 *         bit6: re-entrancy: the notifier (called for deletions, possibly deferred into
 *               iter_next/iter_free) itself removes/inserts/looks up other keys and
 *               walks a temporary iterator
 */
#include <stdio.h>
#include <stdlib.h>
#include <string.h>
#include <stdint.h>
#include <assert.h>
#include <qb/qbdefs.h>
#include <qb/qbmap.h>

#define MAXK 4096
#define MAXI 16

static uint64_t rs;
static uint32_t rnd(void)
{
	rs ^= rs << 13; rs ^= rs >> 7; rs ^= rs << 17;
	return (uint32_t)(rs >> 11);
}
static uint32_t rn(uint32_t n) { return n ? rnd() % n : 0; }

static int impl, nkeys, maxiters, flags;
static long nops;
static qb_map_t *m;
static char *keys[MAXK];

/* model */
struct val { int k; long serial; int freed; };
static int present[MAXK];
static struct val *curval[MAXK];
static int npresent;
static long serial;
static long live_vals;		/* values handed to the map and not yet FREE-notified */
static long soft_fail, hard_fail;

struct it {
	qb_map_iter_t *i;
	int open;
	int ended;
	int inserted;		/* a new key was inserted while open */
	int replaced;		/* an existing key was re-put while open */
	const char *prefix;
	unsigned char whole[MAXK];	/* present since creation, never removed */
	unsigned char ever[MAXK];	/* present at some point during the iteration */
	unsigned short cnt[MAXK];
	int lastk;		/* key index the iterator is positioned on, -1 */
	int nret;
	int id;
};
static struct it its[MAXI];
static int nopen;
static long opno;

#define V (flags & 8)
#define HARD(...) do { printf("HARD FAIL op %ld impl %d: ", opno, impl); printf(__VA_ARGS__); printf("\n"); hard_fail++; fflush(stdout); abort(); } while (0)
#define SOFT(...) do { printf("SOFT FAIL op %ld impl %d: ", opno, impl); printf(__VA_ARGS__); printf("\n"); soft_fail++; fflush(stdout); if (flags & 16) abort(); } while (0)

static int keyidx(const char *k)
{
	int lo = 0, hi = nkeys - 1;
	/* keys[] is sorted by strcmp */
	while (lo <= hi) {
		int mid = (lo + hi) / 2;
		int c = strcmp(keys[mid], k);
		if (c == 0) return mid;
		if (c < 0) lo = mid + 1; else hi = mid - 1;
	}
	return -1;
}

static void do_put(int k);
static void do_rm(int k);
static void do_get(int k);
static int in_cb;

static void reenter(int avoid)
{
	int n = 1 + rn(3);
	if (in_cb || rn(2)) return;
	in_cb = 1;
	while (n-- > 0) {
		int k = rn(nkeys);
		uint32_t r = rn(10);
		if (k == avoid) continue;
		if (r < 4) do_rm(k);
		else if (r < 6) { if (!((flags & 2) && nopen > 0)) do_put(k); }
		else if (r < 8) do_get(k);
		else {
			qb_map_iter_t *i = qb_map_iter_create(m);
			void *v;
			int c = rn(5);
			const char *kk;
			while (c-- > 0 && (kk = qb_map_iter_next(i, &v)) != NULL) {
				if (keyidx(kk) < 0) HARD("reentrant iter returned unknown key");
			}
			qb_map_iter_free(i);
		}
	}
	in_cb = 0;
}

static void
free_notify(uint32_t event, char *key, void *old_value, void *value, void *ud)
{
	struct val *v = old_value;
	if (event != QB_MAP_NOTIFY_FREE) {
		return;
	}
	if (v == NULL) {
		SOFT("FREE notify with NULL old value key %s", key ? key : "(null)");
		return;
	}
	if (v->freed) {
		HARD("FREE notified twice for value serial %ld key %d", v->serial, v->k);
	}
	/* touch the key: must still be valid memory */
	if (key == NULL || keyidx(key) != v->k) {
		SOFT("FREE notify key mismatch: %s vs %d", key ? key : "(null)", v->k);
	}
	v->freed = 1;
	live_vals--;
	{
		int kk = v->k;
		if (flags & 1) {
			free(key);
		}
		free(v);
		if (flags & 64) reenter(kk);
	}
}

static long key_notifies;
static void
key_notify(uint32_t event, char *key, void *old_value, void *value, void *ud)
{
	key_notifies++;
	if (key && keyidx(key) < 0) HARD("key notifier got unknown key");
}

static void do_notify_op(void)
{
	int k = rn(nkeys);
	char buf[32];
	const char *kp = keys[k];
	int ev = QB_MAP_NOTIFY_DELETED | QB_MAP_NOTIFY_REPLACED;
	void *ud = (void *)(uintptr_t)(1 + rn(2));
	if (impl == 2) {
		ev |= QB_MAP_NOTIFY_INSERTED;
		if (rn(2)) ev |= QB_MAP_NOTIFY_RECURSIVE;
		if (rn(3) == 0) {
			/* a prefix of a key */
			strcpy(buf, keys[k]);
			buf[1 + rn(strlen(buf))] = 0;
			kp = buf;
		}
	}
	if (rn(2)) {
		if (V) printf("notify_add '%s' ev %d\n", kp, ev);
		(void)qb_map_notify_add(m, kp, key_notify, ev, ud);
	} else {
		if (V) printf("notify_del '%s' ev %d\n", kp, ev);
		if (rn(2)) (void)qb_map_notify_del(m, kp, key_notify, ev);
		else (void)qb_map_notify_del_2(m, kp, key_notify, ev, ud);
	}
}

static int cmpstr(const void *a, const void *b)
{
	return strcmp(*(char *const *)a, *(char *const *)b);
}

static void gen_keys(void)
{
	/* keys with a tiny alphabet so that the trie splits/merges a lot and
	 * the hashtable buckets collide; a few keys with bytes >= 0x80 */
	static const char alpha[] = "ab\xc3\x7f" "c\x80\xff\x01";
	int n = 0;
	while (n < nkeys) {
		char buf[16];
		int len = 1 + rn(nkeys <= 8 ? 3 : (nkeys <= 64 ? 5 : 8));
		int al = (nkeys <= 16) ? 2 : (nkeys <= 200 ? 3 : (nkeys <= 1000 ? 5 : 8));
		int j, dup = 0;
		for (j = 0; j < len; j++) buf[j] = alpha[rn(al)];
		buf[len] = 0;
		for (j = 0; j < n; j++) if (strcmp(keys[j], buf) == 0) dup = 1;
		if (dup) continue;
		keys[n++] = strdup(buf);
	}
	qsort(keys, nkeys, sizeof(char *), cmpstr);
}

static void do_put(int k)
{
	struct val *v = calloc(1, sizeof(*v));
	const char *kp = (flags & 1) ? strdup(keys[k]) : keys[k];
	int j;
	v->k = k; v->serial = ++serial;
	if (V) printf("put %d '%s' (%s)\n", k, keys[k], present[k] ? "replace" : "new");
	live_vals++;
	qb_map_put(m, kp, v);
	for (j = 0; j < MAXI; j++) {
		if (!its[j].open) continue;
		if (present[k]) its[j].replaced = 1; else its[j].inserted = 1;
		its[j].ever[k] = 1;
	}
	if (!present[k]) { present[k] = 1; npresent++; }
	if (flags & 32) { /* no notifier: nobody frees old values; leak them */ }
	curval[k] = v;
}

static void do_rm(int k)
{
	int r, j;
	if (V) printf("rm %d '%s' (%s)\n", k, keys[k], present[k] ? "present" : "absent");
	r = qb_map_rm(m, keys[k]);
	if (!!r != !!present[k]) HARD("rm('%s') returned %d, model present=%d", keys[k], r, present[k]);
	if (present[k]) {
		present[k] = 0; npresent--; curval[k] = NULL;
		for (j = 0; j < MAXI; j++) if (its[j].open) its[j].whole[k] = 0;
	}
}

static void do_get(int k)
{
	void *v = qb_map_get(m, keys[k]);
	if (present[k]) {
		if (v != curval[k]) HARD("get('%s') = %p expected %p", keys[k], v, (void *)curval[k]);
	} else if (v != NULL) {
		HARD("get('%s') = %p for an absent key", keys[k], v);
	}
}

static void check_count(void)
{
	size_t c = qb_map_count_get(m);
	if (c != (size_t)npresent) HARD("count_get = %zu, model %d", c, npresent);
}

static int has_prefix(const char *k, const char *p)
{
	return p == NULL || strncmp(k, p, strlen(p)) == 0;
}

static void it_open(int j)
{
	struct it *t = &its[j];
	int k;
	static int idc;
	memset(t, 0, sizeof(*t));
	t->prefix = NULL;
	if ((flags & 4) && impl == 2 && rn(2)) {
		/* a prefix of some key, 1..len chars */
		int kk = rn(nkeys);
		int l = 1 + rn(strlen(keys[kk]));
		char *p = strdup(keys[kk]);
		p[l] = 0;
		t->prefix = p;
	}
	t->i = t->prefix ? qb_map_pref_iter_create(m, t->prefix) : qb_map_iter_create(m);
	if (t->i == NULL) HARD("iter_create NULL");
	t->open = 1; t->lastk = -1; t->id = ++idc;
	for (k = 0; k < nkeys; k++) {
		t->whole[k] = t->ever[k] = present[k];
	}
	nopen++;
	if (V) printf("iter %d (id %d) create prefix=%s\n", j, t->id, t->prefix ? t->prefix : "-");
}

static void it_end_checks(struct it *t, int j)
{
	int k;
	for (k = 0; k < nkeys; k++) {
		if (!has_prefix(keys[k], t->prefix)) continue;
		if (t->whole[k] && t->cnt[k] == 0)
			HARD("iter %d (id %d): key '%s' present for the whole iteration was never returned (inserted=%d replaced=%d nret=%d)",
			     j, t->id, keys[k], t->inserted, t->replaced, t->nret);
		if (!t->inserted && t->cnt[k] > 1) {
			if (!t->replaced)
				HARD("iter %d (id %d): key '%s' returned %d times with removals only",
				     j, t->id, keys[k], t->cnt[k]);
			else
				SOFT("iter %d (id %d): key '%s' returned %d times with removals+replacements only",
				     j, t->id, keys[k], t->cnt[k]);
		}
	}
}

static void it_next(int j)
{
	struct it *t = &its[j];
	void *val = (void *)0x1;
	const char *k = qb_map_iter_next(t->i, &val);
	int ki;
	if (k == NULL) {
		if (V) printf("iter %d next -> NULL\n", j);
		if (t->ended) return;
		t->ended = 1; t->lastk = -1;
		it_end_checks(t, j);
		return;
	}
	if (t->ended) SOFT("iter %d: returned '%s' after it had returned NULL", j, k);
	ki = keyidx(k);
	if (V) printf("iter %d next -> '%s' (%d)\n", j, k, ki);
	if (ki < 0) HARD("iter %d returned unknown key '%s'", j, k);
	if (!t->ever[ki]) HARD("iter %d returned key '%s' that was not present during the iteration", j, k);
	if (!has_prefix(k, t->prefix)) HARD("iter %d with prefix '%s' returned '%s'", j, t->prefix, k);
	if (!present[ki]) SOFT("iter %d returned key '%s' which is currently removed", j, k);
	else if (val != curval[ki]) SOFT("iter %d key '%s' value %p expected %p", j, k, val, (void *)curval[ki]);
	if (impl != 0 && t->lastk >= 0 && !t->inserted && ki <= t->lastk)
		SOFT("iter %d: order '%s' after '%s'", j, k, keys[t->lastk]);
	t->cnt[ki]++;
	t->nret++;
	t->lastk = ki;
	if (t->ended) t->ended = 0;
}

static void it_free(int j)
{
	struct it *t = &its[j];
	if (V) printf("iter %d free (ended=%d)\n", j, t->ended);
	qb_map_iter_free(t->i);
	free((void *)t->prefix);
	t->open = 0; t->i = NULL;
	nopen--;
}

/* no iterators: the map must be exactly the model dictionary */
static void full_check(void)
{
	int k, n = 0, last = -1;
	qb_map_iter_t *i;
	const char *key;
	void *val;
	static unsigned char seen[MAXK];
	check_count();
	for (k = 0; k < nkeys; k++) do_get(k);
	memset(seen, 0, sizeof(seen));
	i = qb_map_iter_create(m);
	while ((key = qb_map_iter_next(i, &val)) != NULL) {
		k = keyidx(key);
		if (k < 0 || !present[k]) HARD("full iteration returned '%s' which is not in the model", key);
		if (seen[k]) HARD("full iteration returned '%s' twice", key);
		if (val != curval[k]) HARD("full iteration '%s' wrong value", key);
		if (impl != 0 && k <= last) SOFT("full iteration out of order: '%s' after '%s'", key, keys[last]);
		seen[k] = 1; last = k; n++;
	}
	qb_map_iter_free(i);
	if (n != npresent) HARD("full iteration returned %d keys, model has %d", n, npresent);
	if (!(flags & 32) && live_vals != npresent)
		SOFT("values alive %ld but %d entries (missing/extra FREE notifications) with no iterator open", live_vals, npresent);
}

int main(int argc, char **argv)
{
	int htsize = 0, j, k;
	if (argc < 7) { fprintf(stderr, "usage\n"); return 2; }
	impl = atoi(argv[1]);
	rs = strtoull(argv[2], NULL, 0) * 0x9E3779B97F4A7C15ull + 0x1234567;
	nops = atol(argv[3]);
	nkeys = atoi(argv[4]);
	maxiters = atoi(argv[5]);
	flags = strtol(argv[6], NULL, 0);
	if (argc > 7) htsize = atoi(argv[7]);
	if (nkeys > MAXK) nkeys = MAXK;
	if (maxiters > MAXI) maxiters = MAXI;
	gen_keys();

	switch (impl) {
	case 0: m = qb_hashtable_create(htsize); break;
	case 1: m = qb_skiplist_create(); break;
	default: m = qb_trie_create(); break;
	}
	srandom(atoi(argv[2]));	/* skiplist levels deterministic */
	if (!(flags & 32)) {
		int r = qb_map_notify_add(m, NULL, free_notify, QB_MAP_NOTIFY_FREE, NULL);
		if (r != 0) HARD("notify_add %d", r);
	}

	for (opno = 0; opno < nops; opno++) {
		uint32_t r = rn(100);
		int can_put = !((flags & 2) && nopen > 0);
		if (r < 22) {
			if (can_put) do_put(rn(nkeys)); else do_get(rn(nkeys));
		} else if (r < 40) {
			/* rm: random key, or the key an iterator sits on */
			k = rn(nkeys);
			if (nopen && rn(3) == 0) {
				j = rn(MAXI);
				if (its[j].open && its[j].lastk >= 0) k = its[j].lastk;
			}
			do_rm(k);
		} else if (r < 42) {
			/* remove everything (sometimes) */
			if (rn(6) == 0) {
				for (k = 0; k < nkeys; k++) if (present[k]) do_rm(k);
			} else if (can_put && rn(4) == 0) {
				for (k = 0; k < nkeys; k++) if (!present[k] && rn(2)) do_put(k);
			}
		} else if (r < 50) {
			do_get(rn(nkeys)); check_count();
		} else if (r < 58) {
			if (nopen < maxiters) {
				for (j = 0; j < MAXI; j++) if (!its[j].open) break;
				it_open(j);
			}
		} else if (r < 92) {
			if (nopen) {
				j = rn(MAXI);
				if (its[j].open) {
					int burst = rn(4) == 0 ? 1 + rn(nkeys) : 1;
					while (burst-- > 0 && its[j].open) it_next(j);
				}
			}
		} else if (r < 97) {
			if (nopen) {
				j = rn(MAXI);
				if (its[j].open && (its[j].ended || rn(3) == 0)) it_free(j);
			}
		} else {
			/* drain: close all iterators then full check */
			if (rn(3) == 0) {
				for (j = 0; j < MAXI; j++) if (its[j].open) {
					if (rn(2)) while (!its[j].ended) it_next(j);
					it_free(j);
				}
			}
		}
		if ((flags & 128) && rn(6) == 0) do_notify_op();
		if (nopen == 0 && rn(8) == 0) full_check();
	}
	for (j = 0; j < MAXI; j++) if (its[j].open) {
		while (!its[j].ended) it_next(j);
		it_free(j);
	}
	full_check();
	for (k = 0; k < nkeys; k++) if (present[k]) do_rm(k);
	full_check();
	in_cb = 1;	/* no re-entrancy from inside qb_map_destroy: out of scope */
	qb_map_destroy(m);
	printf("impl %d seed %s ops %ld keys %d iters %d flags %d: ok (soft %ld)\n",
	       impl, argv[2], nops, nkeys, maxiters, flags, soft_fail);
	return soft_fail ? 3 : 0;
}
