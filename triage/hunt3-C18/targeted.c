/* deterministic targeted scenarios for C18; exit 0 = all held */
#include <stdio.h>
#include <stdlib.h>
#include <string.h>
#include <stdint.h>
#include <qb/qbdefs.h>
#include <qb/qbmap.h>

static int fails;
#define CHECK(c, ...) do { if (!(c)) { printf("FAIL %s:%d impl %d: ", __func__, __LINE__, impl); printf(__VA_ARGS__); printf("\n"); fails++; } } while (0)
static int impl;
static qb_map_t *mk(void)
{
	qb_map_t *m = impl == 0 ? qb_hashtable_create(0) : impl == 1 ? qb_skiplist_create() : qb_trie_create();
	srandom(7);
	return m;
}
static const char *K[] = { "a", "ab", "abc", "abd", "abde", "b", "ba", "c", "ca\x80", "\xff", "abcx", "abcy" };
#define NK ((int)(sizeof(K)/sizeof(K[0])))
static void fill(qb_map_t *m) { int i; for (i = 0; i < NK; i++) qb_map_put(m, K[i], (void *)(uintptr_t)(i + 1)); }
static int idx(const char *k) { int i; for (i = 0; i < NK; i++) if (!strcmp(K[i], k)) return i; return -1; }

static void t_rm_current(void)
{
	qb_map_t *m = mk(); qb_map_iter_t *it; const char *k; void *v; int cnt[NK] = {0}, i;
	fill(m);
	it = qb_map_iter_create(m);
	while ((k = qb_map_iter_next(it, &v))) { cnt[idx(k)]++; CHECK(qb_map_rm(m, k), "rm %s", k); }
	qb_map_iter_free(it);
	for (i = 0; i < NK; i++) CHECK(cnt[i] == 1, "%s returned %d", K[i], cnt[i]);
	CHECK(qb_map_count_get(m) == 0, "count %zu", qb_map_count_get(m));
	for (i = 0; i < NK; i++) CHECK(qb_map_get(m, K[i]) == NULL, "get");
	qb_map_destroy(m);
}
static void t_rm_all_after_first(int nits)
{
	qb_map_t *m = mk(); qb_map_iter_t *it[8]; const char *k; void *v; int i, j;
	fill(m);
	for (j = 0; j < nits; j++) { it[j] = qb_map_iter_create(m); for (i = 0; i <= j; i++) k = qb_map_iter_next(it[j], &v); }
	for (i = 0; i < NK; i++) qb_map_rm(m, K[i]);
	CHECK(qb_map_count_get(m) == 0, "count");
	for (j = 0; j < nits; j++) { k = qb_map_iter_next(it[j], &v); CHECK(k == NULL, "got %s after all removed", k); }
	/* re-insert while iterators are still open but finished */
	fill(m);
	for (j = 0; j < nits; j++) { k = qb_map_iter_next(it[j], &v); (void)k; qb_map_iter_free(it[j]); }
	CHECK(qb_map_count_get(m) == NK, "count %zu", qb_map_count_get(m));
	for (i = 0; i < NK; i++) CHECK(qb_map_get(m, K[i]) == (void *)(uintptr_t)(i + 1), "get %s", K[i]);
	qb_map_destroy(m);
}
static void t_rm_others(void)
{
	/* at each step remove every key except the current one and one fixed survivor */
	qb_map_t *m = mk(); qb_map_iter_t *it; const char *k; void *v; int seen = 0, i, n = 0;
	fill(m);
	it = qb_map_iter_create(m);
	while ((k = qb_map_iter_next(it, &v))) {
		n++;
		if (!strcmp(k, "b")) seen++;
		for (i = 0; i < NK; i++) if (strcmp(K[i], k) && strcmp(K[i], "b")) qb_map_rm(m, K[i]);
	}
	qb_map_iter_free(it);
	CHECK(seen == 1, "survivor seen %d (n %d)", seen, n);
	CHECK(qb_map_count_get(m) <= 2, "count");
	qb_map_destroy(m);
}
static qb_map_t *fm;
static int fe_calls;
static int32_t fe_cb(const char *key, void *value, void *ud)
{
	int i;
	fe_calls++;
	if ((intptr_t)ud == 0) qb_map_rm(fm, key);
	else if ((intptr_t)ud == 1) for (i = 0; i < NK; i++) qb_map_rm(fm, K[i]);
	else {
		/* remove and re-insert each key once (doing it on every visit would
		 * legitimately never end on the hashtable: the new entry goes to the
		 * end of the bucket) */
		static unsigned char done[3][64];
		i = idx(key);
		if (!done[impl][i]) { done[impl][i] = 1; qb_map_rm(fm, key); qb_map_put(fm, key, value); }
	}
	return 0;
}
static void t_foreach(int mode)
{
	qb_map_t *m = mk(); fm = m; fe_calls = 0;
	fill(m);
	qb_map_foreach(m, fe_cb, (void *)(intptr_t)mode);
	if (mode == 0) CHECK(fe_calls == NK && qb_map_count_get(m) == 0, "calls %d count %zu", fe_calls, qb_map_count_get(m));
	if (mode == 1) CHECK(fe_calls == 1 && qb_map_count_get(m) == 0, "calls %d", fe_calls);
	if (mode == 2) CHECK(fe_calls >= NK && qb_map_count_get(m) == NK, "calls %d count %zu", fe_calls, qb_map_count_get(m));
	qb_map_destroy(m);
}
static void t_many_iters_same_node(void)
{
	qb_map_t *m = mk(); qb_map_iter_t *it[16]; const char *k; void *v; int j, c;
	fill(m);
	for (j = 0; j < 16; j++) { it[j] = qb_map_iter_create(m); do { k = qb_map_iter_next(it[j], &v); } while (k && strcmp(k, "abd")); CHECK(k != NULL, "abd not reached"); }
	qb_map_rm(m, "abd");
	CHECK(qb_map_get(m, "abd") == NULL, "get removed");
	qb_map_put(m, "abd", (void *)99);
	qb_map_rm(m, "abd");
	qb_map_put(m, "abd", (void *)98);
	CHECK(qb_map_get(m, "abd") == (void *)98, "get");
	CHECK(qb_map_count_get(m) == NK, "count %zu", qb_map_count_get(m));
	for (j = 0; j < 16; j++) {
		if (j & 1) { c = 0; while (qb_map_iter_next(it[j], &v)) c++; CHECK(c < NK + 2, "c %d", c); }
		qb_map_iter_free(it[j]);
	}
	CHECK(qb_map_get(m, "abd") == (void *)98, "get");
	CHECK(qb_map_count_get(m) == NK, "count %zu", qb_map_count_get(m));
	qb_map_destroy(m);
}
static void t_trie_prefix_split(void)
{
	qb_map_t *m; qb_map_iter_t *it; const char *k; void *v; int n = 0, seen_abcde = 0, seen_abcdf = 0;
	if (impl != 2) return;
	m = mk();
	qb_map_put(m, "abcd", (void *)1);
	qb_map_put(m, "abcde", (void *)2);
	qb_map_put(m, "abcdf", (void *)3);
	it = qb_map_pref_iter_create(m, "ab");
	k = qb_map_iter_next(it, &v);
	CHECK(k && !strcmp(k, "abcd"), "first %s", k ? k : "NULL");
	qb_map_put(m, "abx", (void *)4);	/* splits the prefix root */
	qb_map_put(m, "ax", (void *)5);	/* and again above */
	qb_map_put(m, "b", (void *)6);
	qb_map_rm(m, "abcd");
	while ((k = qb_map_iter_next(it, &v))) {
		n++;
		CHECK(!strncmp(k, "ab", 2), "prefix iter returned %s", k);
		if (!strcmp(k, "abcde")) seen_abcde++;
		if (!strcmp(k, "abcdf")) seen_abcdf++;
	}
	CHECK(seen_abcde >= 1 && seen_abcdf >= 1, "missed %d %d", seen_abcde, seen_abcdf);
	qb_map_iter_free(it);
	CHECK(qb_map_count_get(m) == 5, "count %zu", qb_map_count_get(m));
	qb_map_rm(m, "abcde"); qb_map_rm(m, "abcdf"); qb_map_rm(m, "abx"); qb_map_rm(m, "ax"); qb_map_rm(m, "b");
	CHECK(qb_map_count_get(m) == 0, "count");
	qb_map_destroy(m);
}
static void t_empty_then_insert(void)
{
	qb_map_t *m = mk(); qb_map_iter_t *it = qb_map_iter_create(m), *it2; const char *k; void *v; int n = 0;
	fill(m);
	while ((k = qb_map_iter_next(it, &v))) n++;
	CHECK(n <= NK, "n %d", n);
	it2 = qb_map_iter_create(m);
	qb_map_iter_next(it2, &v);
	qb_map_iter_free(it);	/* abandon */
	qb_map_iter_free(it2);
	it = qb_map_iter_create(m); qb_map_iter_free(it); /* never advanced */
	qb_map_destroy(m);
}
int main(void)
{
	for (impl = 0; impl < 3; impl++) {
		t_rm_current(); t_rm_all_after_first(1); t_rm_all_after_first(8); t_rm_others();
		t_foreach(0); t_foreach(1); t_foreach(2); t_many_iters_same_node(); t_trie_prefix_split(); t_empty_then_insert();
	}
	printf("targeted: %d failures\n", fails);
	return fails ? 1 : 0;
}
