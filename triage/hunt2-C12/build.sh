#!/bin/sh
# usage: build.sh [tree]   (default /repo)
T=${1:-/repo}
D=$(dirname "$0")
set -e
gcc -g -O1 -fsanitize=address,undefined -fno-omit-frame-pointer -DHAVE_CONFIG_H \
  -I$T/include -I$T/include/qb -I$T/lib \
  -o $D/fuzz $D/fuzz.c \
  $T/lib/log.c $T/lib/log_dcs.c $T/lib/log_thread.c $T/lib/log_format.c \
  $T/lib/log_syslog.c $T/lib/log_file.c $T/lib/log_blackbox.c \
  -L$T/lib/.libs -lqb -lpthread
echo "run: LD_LIBRARY_PATH=$T/lib/.libs $D/fuzz <seed> <nops> <flags>"
