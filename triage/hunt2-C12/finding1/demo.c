/* finding 1: a call site with line number 0 is never re-evaluated when
 * filters / tag filters change after its first execution. */
#include <stdio.h>
#include <string.h>
#include <syslog.h>
#include <qb/qbdefs.h>
#include <qb/qblog.h>

static int got[32];
static uint32_t tag[32];
static void lg(int32_t t, struct qb_log_callsite *cs, struct timespec *ts, const char *m)
{ (void)ts; (void)m; got[t]++; tag[t] = cs->tags; }

static int bad;
static void expect(const char *what, int t, int exp)
{
	printf("%-58s delivered %d expected %d %s\n", what, got[t], exp, got[t] == exp ? "" : "<-- VIOLATION");
	if (got[t] != exp) bad++;
	got[t] = 0;
}
#define LOG(line) qb_log_from_external_source("f", "a.c", "m %d", LOG_INFO, line, 0, 1)

int main(void)
{
	int a, b;
	qb_log_init("demo", LOG_USER, LOG_INFO);
	qb_log_ctl(QB_LOG_SYSLOG, QB_LOG_CONF_ENABLED, QB_FALSE);
	a = qb_log_custom_open(lg, NULL, NULL, NULL);
	qb_log_ctl(a, QB_LOG_CONF_ENABLED, QB_TRUE);

	/* both call sites are executed once before any filter exists */
	LOG(0); LOG(1);
	expect("no filter, line 0", a, 0);
	qb_log_filter_ctl(a, QB_LOG_FILTER_ADD, QB_LOG_FILTER_FILE, "*", LOG_TRACE);
	LOG(1); expect("filter '*' added after first execution, line 1", a, 1);
	LOG(0); expect("filter '*' added after first execution, line 0", a, 1);

	/* the other direction: first executed while selected */
	qb_log_from_external_source("g", "a.c", "m %d", LOG_INFO, 0, 0, 1);
	expect("line 0 site first executed under filter '*'", a, 1);
	qb_log_filter_ctl(a, QB_LOG_FILTER_CLEAR_ALL, QB_LOG_FILTER_FILE, "*", LOG_TRACE);
	qb_log_from_external_source("g", "a.c", "m %d", LOG_INFO, 0, 0, 1);
	expect("same site after FILTER_CLEAR_ALL", a, 0);

	/* the stale bit survives the target: a new target in the same slot */
	qb_log_custom_close(a);
	b = qb_log_custom_open(lg, NULL, NULL, NULL);
	qb_log_ctl(b, QB_LOG_CONF_ENABLED, QB_TRUE);
	printf("closed target %d, new target %d (no filters at all)\n", a, b);
	qb_log_from_external_source("g", "a.c", "m %d", LOG_INFO, 0, 0, 1);
	expect("line 0 site, new target without any filter", b, 0);

	/* tags */
	qb_log_filter_ctl(b, QB_LOG_FILTER_ADD, QB_LOG_FILTER_FUNCTION, "h", LOG_TRACE);
	qb_log_from_external_source("h", "a.c", "m %d", LOG_INFO, 0, 0, 1);
	qb_log_from_external_source("h", "a.c", "m %d", LOG_INFO, 1, 0, 1);
	got[b] = 0;
	qb_log_filter_ctl(7, QB_LOG_TAG_SET, QB_LOG_FILTER_FILE, "*", LOG_TRACE);
	qb_log_from_external_source("h", "a.c", "m %d", LOG_INFO, 1, 0, 1);
	printf("%-58s tag %u expected 7 %s\n", "TAG_SET 7 '*' after first execution, line 1", tag[b], tag[b] == 7 ? "" : "<-- VIOLATION");
	if (tag[b] != 7) bad++;
	qb_log_from_external_source("h", "a.c", "m %d", LOG_INFO, 0, 0, 1);
	printf("%-58s tag %u expected 7 %s\n", "TAG_SET 7 '*' after first execution, line 0", tag[b], tag[b] == 7 ? "" : "<-- VIOLATION");
	if (tag[b] != 7) bad++;
	qb_log_fini();
	printf("%s\n", bad ? "PROPERTY VIOLATED" : "property held");
	return bad ? 1 : 0;
}
