#include <stdio.h>
#include <stdlib.h>
#include <string.h>
#include <syslog.h>
#include <qb/qbdefs.h>
#include <qb/qblog.h>
static int got[32];
static void lg(int32_t t, struct qb_log_callsite *cs, struct timespec *ts, const char *m)
{ (void)ts; (void)m; (void)cs; got[t]++; }
int main(int argc, char **argv)
{
	int a, i;
	char fmt[64];
	qb_log_init("demo", LOG_USER, LOG_INFO);
	qb_log_ctl(QB_LOG_SYSLOG, QB_LOG_CONF_ENABLED, QB_FALSE);
	a = qb_log_custom_open(lg, NULL, NULL, NULL);
	qb_log_ctl(a, QB_LOG_CONF_ENABLED, QB_TRUE);
	qb_log_filter_ctl(a, QB_LOG_FILTER_ADD, QB_LOG_FILTER_FILE, "*", LOG_TRACE);
	if (argv[1][0] == 'A') {
		qb_log_from_external_source("f", "a.c", "m %d", LOG_INFO, 10, 0, 1);
		struct qb_log_callsite *cs = qb_log_callsite_get2("MSGID", "f", "a.c", "m %d", LOG_INFO, 10, 0);
		qb_log_real_(cs, 1);
		printf("got %d\n", got[a]);
	} else {
		int n = atoi(argv[2]);
		for (i = 0; i < n; i++) {
			snprintf(fmt, sizeof(fmt), "message number %d", i);
			qb_log_from_external_source("f", "a.c", fmt, LOG_INFO, 10, 0);
		}
		printf("got %d of %d\n", got[a], n);
	}
	qb_log_fini();
	return 0;
}
