#!/bin/sh
# usage: demo.sh <tree>   exit 0 = property held, non-zero = violated
T=${1:-/repo}
D=$(cd "$(dirname "$0")" && pwd)
gcc -g -O1 -fsanitize=address,undefined -DHAVE_CONFIG_H -I$T/include -I$T/include/qb -I$T/lib \
  -o $D/demo $D/demo.c \
  $T/lib/log.c $T/lib/log_dcs.c $T/lib/log_thread.c $T/lib/log_format.c \
  $T/lib/log_syslog.c $T/lib/log_file.c $T/lib/log_blackbox.c \
  -L$T/lib/.libs -lqb -lpthread || exit 99
ASAN_OPTIONS=detect_leaks=0 LD_LIBRARY_PATH=$T/lib/.libs $D/demo
