/* finding 3: a log call with a message id from a call site position that was
 * first used without one crashes (strcmp with NULL) instead of being routed. */
#include <stdio.h>
#include <syslog.h>
#include <qb/qbdefs.h>
#include <qb/qblog.h>
static int got[32];
static void lg(int32_t t, struct qb_log_callsite *cs, struct timespec *ts, const char *m)
{ (void)ts; (void)m; (void)cs; got[t]++; }
int main(void)
{
	int a;
	struct qb_log_callsite *cs;
	qb_log_init("demo", LOG_USER, LOG_INFO);
	qb_log_ctl(QB_LOG_SYSLOG, QB_LOG_CONF_ENABLED, QB_FALSE);
	a = qb_log_custom_open(lg, NULL, NULL, NULL);
	qb_log_ctl(a, QB_LOG_CONF_ENABLED, QB_TRUE);
	qb_log_filter_ctl(a, QB_LOG_FILTER_ADD, QB_LOG_FILTER_FILE, "*", LOG_TRACE);
	/* what qb_log(LOG_INFO, "m %d", 1) does */
	cs = qb_log_callsite_get2(NULL, "f", "a.c", "m %d", LOG_INFO, 10, 0);
	qb_log_real_(cs, 1);
	/* what qb_log2("MSGID", LOG_INFO, "m %d", 1) on the same line does */
	cs = qb_log_callsite_get2("MSGID", "f", "a.c", "m %d", LOG_INFO, 10, 0);
	qb_log_real_(cs, 1);
	printf("delivered %d (expected 2)\n", got[a]);
	qb_log_fini();
	return got[a] == 2 ? 0 : 1;
}
