/*
 * Model-based randomized tester for libqb log routing (property C12).
 *
 * usage: fuzz <seed> <nops> [flags]
 *   flags bit0: include call sites with line number 0
 *         bit1: include explicit (non-zero) call-site tags
 *         bit2: toggle QB_LOG_CONF_THREADED on custom targets (worker not running)
 *         bit3: use static (registered section) call sites as well
 *         bit4: few slots only (max 3 custom targets), else up to 28+
 *         bit5: include file names containing a comma
 */
#include <stdio.h>
#include <stdlib.h>
#include <string.h>
#include <errno.h>
#include <stdint.h>
#include <syslog.h>
#include <regex.h>
#include <qb/qbdefs.h>
#include <qb/qblog.h>

#define NT 32
#define MAXF 64

enum { ST_UNUSED = 1, ST_DISABLED = 2, ST_ENABLED = 3 };

struct mflt {
	int type;
	char text[64];
	uint8_t hi, lo;
	int32_t value;
};

struct mtarget {
	int state;
	int nf;
	struct mflt f[MAXF];
};

static struct mtarget M[NT];
static struct mflt T[MAXF];
static int nT;

static unsigned flags;
static uint64_t rng;
static unsigned rnd(void)
{
	rng = rng * 6364136223846793005ULL + 1442695040888963407ULL;
	return (unsigned)(rng >> 33);
}
#define R(n) (rnd() % (n))

/* ---- pools ---- */
static const char *files[] = { "a.c", "b.c", "ab.c", "", "dir/a.c", "a,b.c" };
static const char *funcs[] = { "f", "g", "fg", "main", "", "f_long_function_name_that_is_longer_than_most" };
static const char *fmts[] = { "hello %d", "ringbuffer %d", "x%d", "%d", "star * %d", "hello world %d" };
static const uint32_t lines[] = { 1, 2, 65535, 65536, 65537, 131073, 0xFFFFFFFFu, 10, 0 };
static const uint8_t prios[] = { 0, 1, 3, 4, 6, 7, 8, 9, 255 };

static const char *ftexts_name[] = { "a.c", "b.c", "ab.c", "*", "f", "g", "fg", "main", "f,g", "x,f", "g,", ",g", "", ",",
	"a.c,b.c", "a", "dir/a.c", "a,b.c", "f_long_function_name_that_is_longer_than_most",
	"zzz,f_long_function_name_that_is_longer_than_most,q", "b.c,a.c,ab.c,main" };
static const char *ftexts_fmt[] = { "hello", "ring", "x", "%d", "*", "", "world", "star *", "nomatch" };
static const char *ftexts_re[] = { "^a", "a.*c", "[fg]", "b\\.c$", "^$", "*", "[", "^f$", "hello", "^x", "\\(", "main\\|g", ".", "a\\{2\\}" };

/* ---- reference matching ---- */
static int m_match(const struct mflt *f, const char *file, const char *func, const char *fmt, uint8_t prio)
{
	const char *name;
	if (prio > f->lo || prio < f->hi)
		return 0;
	if (strcmp(f->text, "*") == 0)
		return 1;
	switch (f->type) {
	case QB_LOG_FILTER_FILE:
	case QB_LOG_FILTER_FUNCTION: {
		/* exact name, comma separated alternatives */
		const char *p = f->text;
		name = f->type == QB_LOG_FILTER_FILE ? file : func;
		for (;;) {
			const char *e = strchr(p, ',');
			size_t l = e ? (size_t)(e - p) : strlen(p);
			if (strlen(name) == l && strncmp(name, p, l) == 0)
				return 1;
			if (!e)
				break;
			p = e + 1;
			/* the library does not try an empty alternative after a
			 * trailing comma (flag bit6: model tries it) */
			if (*p == 0 && !(flags & 64))
				break;
		}
		return 0;
	}
	case QB_LOG_FILTER_FORMAT:
		return strstr(fmt, f->text) != NULL;
	case QB_LOG_FILTER_FILE_REGEX:
	case QB_LOG_FILTER_FUNCTION_REGEX:
	case QB_LOG_FILTER_FORMAT_REGEX: {
		regex_t re;
		int r;
		name = f->type == QB_LOG_FILTER_FILE_REGEX ? file :
			f->type == QB_LOG_FILTER_FUNCTION_REGEX ? func : fmt;
		if (regcomp(&re, f->text, 0) != 0)
			return 0;
		r = regexec(&re, name, 0, NULL, 0) == 0;
		regfree(&re);
		return r;
	}
	}
	return 0;
}

static int is_re(int type)
{
	return type >= QB_LOG_FILTER_FILE_REGEX;
}

/* model of add; returns expected rc class: 0 ok, else errno */
static int m_add(struct mflt *list, int *n, int type, const char *text, uint8_t hi, uint8_t lo, int32_t value)
{
	int i;
	for (i = 0; i < *n; i++) {
		if (list[i].type == type && list[i].hi == hi && list[i].lo == lo &&
		    list[i].value == value && strcmp(list[i].text, text) == 0)
			return EEXIST;
	}
	if (is_re(type)) {
		regex_t re;
		if (regcomp(&re, text, 0) != 0)
			return EINVAL;
		regfree(&re);
	}
	if (*n >= MAXF)
		return -1; /* caller avoids */
	list[*n].type = type;
	snprintf(list[*n].text, sizeof(list[*n].text), "%s", text);
	list[*n].hi = hi;
	list[*n].lo = lo;
	list[*n].value = value;
	(*n)++;
	return 0;
}

static void m_remove(struct mflt *list, int *n, int type, const char *text, uint8_t hi, uint8_t lo)
{
	int i;
	for (i = 0; i < *n; i++) {
		if (list[i].type == type && list[i].lo <= lo && list[i].hi >= hi &&
		    (strcmp(list[i].text, text) == 0 || strcmp(text, "*") == 0)) {
			memmove(&list[i], &list[i + 1], (*n - i - 1) * sizeof(list[0]));
			(*n)--;
			return;
		}
	}
}

/* ---- recording ---- */
static int got[NT];
static uint32_t got_tags[NT];
static char got_msg[NT][128];
static int in_cb;

static void logger_cb(int32_t t, struct qb_log_callsite *cs, struct timespec *ts, const char *msg)
{
	(void)ts;
	got[t]++;
	got_tags[t] = cs->tags;
	snprintf(got_msg[t], sizeof(got_msg[t]), "%s", msg);
}
static void close_cb(int32_t t) { (void)t; }

static long opno;
static int failures;
static char trace[400][256];
static int trace_n;

static void tr(const char *fmt, ...) __attribute__((format(printf, 1, 2)));
#include <stdarg.h>
static void tr(const char *fmt, ...)
{
	va_list ap;
	va_start(ap, fmt);
	vsnprintf(trace[trace_n % 400], 256, fmt, ap);
	va_end(ap);
	trace_n++;
	if (getenv("FUZZ_TRACE"))
		fprintf(stderr, "%ld: %s\n", opno, trace[(trace_n - 1) % 400]);
}

static void fail(const char *fmt, ...) __attribute__((format(printf, 1, 2)));
static void fail(const char *fmt, ...)
{
	va_list ap;
	int i, s;
	va_start(ap, fmt);
	printf("FAIL op %ld: ", opno);
	vprintf(fmt, ap);
	printf("\n");
	va_end(ap);
	failures++;
	if (failures <= 3) {
		s = trace_n > 30 ? trace_n - 30 : 0;
		for (i = s; i < trace_n; i++)
			printf("   [%d] %s\n", i, trace[i % 400]);
	}
	if (failures > 20) {
		printf("too many failures\n");
		exit(1);
	}
}

/* static call sites */
#define NSTATIC 8
static struct qb_log_callsite sect[NSTATIC + 1];
static int sect_registered;

static const char *typename(int t)
{
	static const char *n[] = { "FILE", "FUNCTION", "FORMAT", "FILE_REGEX", "FUNCTION_REGEX", "FORMAT_REGEX" };
	return n[t];
}

static void pick_filter(int *type, const char **text, uint8_t *hi, uint8_t *lo)
{
	*type = R(6);
	if (is_re(*type))
		*text = ftexts_re[R(sizeof(ftexts_re) / sizeof(ftexts_re[0]))];
	else if (*type == QB_LOG_FILTER_FORMAT)
		*text = ftexts_fmt[R(sizeof(ftexts_fmt) / sizeof(ftexts_fmt[0]))];
	else
		*text = ftexts_name[R(sizeof(ftexts_name) / sizeof(ftexts_name[0]))];
	if (R(4) == 0)
		*text = "*";
	switch (R(4)) {
	case 0: *hi = 0; *lo = LOG_TRACE; break;
	case 1: *hi = 0; *lo = prios[R(9)]; break;
	case 2: *hi = prios[R(9)]; *lo = prios[R(9)]; break;
	default: *hi = R(10); *lo = R(10); break;
	}
}

static int pick_slot(void)
{
	int maxs = (flags & 16) ? 8 : NT;
	if (R(20) == 0)
		return (int)R(40) - 4; /* also invalid ones */
	return R(maxs);
}

static void check_log(const char *file, const char *func, const char *fmt, uint8_t prio, uint32_t line,
		      uint32_t tags, int is_static, int sidx)
{
	int t, i;
	uint32_t exp_tag;
	char expmsg[128];

	memset(got, 0, sizeof(got));
	tr("LOG file=\"%s\" func=\"%s\" fmt=\"%s\" prio=%u line=%u tags=%u static=%d", file, func, fmt, prio, line, tags, is_static);
	if (is_static)
		qb_log_real_(&sect[sidx], (int)(opno & 0xffff));
	else
		qb_log_from_external_source(func, file, fmt, prio, line, tags, (int)(opno & 0xffff));

	exp_tag = tags;
	if (tags == 0) {
		for (i = 0; i < nT; i++)
			if (m_match(&T[i], file, func, fmt, prio))
				exp_tag = (uint32_t)T[i].value;
	}
	snprintf(expmsg, sizeof(expmsg), fmt, (int)(opno & 0xffff));

	for (t = 0; t < NT; t++) {
		int exp = 0;
		if (M[t].state == ST_ENABLED) {
			for (i = 0; i < M[t].nf; i++)
				if (m_match(&M[t].f[i], file, func, fmt, prio)) {
					exp = 1;
					break;
				}
		}
		if (got[t] != exp) {
			fail("target %d: delivered %d times, expected %d (state %d, %d filters)", t, got[t], exp, M[t].state, M[t].nf);
			for (i = 0; i < M[t].nf; i++)
				printf("      filter %s \"%s\" %u..%u\n", typename(M[t].f[i].type), M[t].f[i].text, M[t].f[i].hi, M[t].f[i].lo);
		} else if (exp) {
			if (got_tags[t] != exp_tag)
				fail("target %d: tag %u, expected %u", t, got_tags[t], exp_tag);
			if (strcmp(got_msg[t], expmsg) != 0)
				fail("target %d: msg \"%s\" expected \"%s\"", t, got_msg[t], expmsg);
		}
	}
}

int main(int argc, char **argv)
{
	long nops = argc > 2 ? atol(argv[2]) : 100000;
	int i, rc;
	unsigned seed = argc > 1 ? (unsigned)atol(argv[1]) : 1;

	flags = argc > 3 ? (unsigned)strtoul(argv[3], NULL, 0) : 0;
	rng = seed * 2654435761ULL + 12345;

	qb_log_init("fuzz", LOG_USER, LOG_INFO);
	qb_log_ctl(QB_LOG_SYSLOG, QB_LOG_CONF_ENABLED, QB_FALSE);
	for (i = 0; i < NT; i++) {
		M[i].state = i < 4 ? ST_DISABLED : ST_UNUSED;
		M[i].nf = 0;
	}
	/* the filter that qb_log_init() adds */
	m_add(M[0].f, &M[0].nf, QB_LOG_FILTER_FILE, "*", 0, LOG_INFO, 0);

	for (i = 0; i < NSTATIC; i++) {
		sect[i].function = funcs[i % 5];
		sect[i].filename = files[(i / 2) % 3];
		sect[i].format = fmts[i % 6];
		sect[i].priority = prios[i % 8];
		sect[i].lineno = 100 + i;
		sect[i].targets = 0;
		sect[i].tags = 0;
	}

	for (opno = 0; opno < nops; opno++) {
		int op = R(100);
		if (op < 40) {
			/* log call */
			int nfiles = (flags & 32) ? 6 : 5;
			int nlines = (flags & 1) ? 9 : 8;
			if ((flags & 8) && sect_registered && R(4) == 0) {
				int s = R(NSTATIC);
				check_log(sect[s].filename, sect[s].function, sect[s].format, sect[s].priority,
					  sect[s].lineno, 0, 1, s);
			} else {
				int fi = R(nfiles), fu = R(6), fm = R(6), li = R(nlines), pr = R(9);
				uint32_t tags = 0;
				/* explicit tags are a property of the call site */
				if ((flags & 2) && ((fi + fu + fm + li + pr) % 5 == 0))
					tags = 1 + (fi * 7 + fu) % 9;
				check_log(files[fi], funcs[fu], fmts[fm], prios[pr], lines[li], tags, 0, 0);
			}
		} else if (op < 60) {
			/* filter add */
			int type, t = pick_slot(), exp;
			const char *text;
			uint8_t hi, lo;
			pick_filter(&type, &text, &hi, &lo);
			if (t >= 0 && t < NT && M[t].nf >= MAXF - 1)
				continue;
			rc = qb_log_filter_ctl2(t, QB_LOG_FILTER_ADD, type, text, hi, lo);
			tr("ADD t=%d %s \"%s\" %u..%u -> %d", t, typename(type), text, hi, lo, rc);
			if (t < 0 || t >= NT || M[t].state == ST_UNUSED)
				exp = EBADF;
			else if (lo < hi)
				exp = EINVAL;
			else
				exp = m_add(M[t].f, &M[t].nf, type, text, hi, lo, t);
			if (rc != -exp)
				fail("ADD rc %d expected %d", rc, -exp);
		} else if (op < 70) {
			int type, t = pick_slot(), exp = 0;
			const char *text;
			uint8_t hi, lo;
			pick_filter(&type, &text, &hi, &lo);
			if (R(3) == 0 && t >= 0 && t < NT && M[t].nf > 0) {
				/* remove an existing one exactly */
				struct mflt *f = &M[t].f[R(M[t].nf)];
				type = f->type; text = f->text; hi = f->hi; lo = f->lo;
			}
			{
				char tcopy[64];
				snprintf(tcopy, sizeof(tcopy), "%s", text);
				rc = qb_log_filter_ctl2(t, QB_LOG_FILTER_REMOVE, type, tcopy, hi, lo);
				tr("REMOVE t=%d %s \"%s\" %u..%u -> %d", t, typename(type), tcopy, hi, lo, rc);
				if (t < 0 || t >= NT || M[t].state == ST_UNUSED)
					exp = EBADF;
				else if (lo < hi)
					exp = EINVAL;
				else
					m_remove(M[t].f, &M[t].nf, type, tcopy, hi, lo);
			}
			if (rc != -exp)
				fail("REMOVE rc %d expected %d", rc, -exp);
		} else if (op < 73) {
			int t = pick_slot(), exp = 0;
			rc = qb_log_filter_ctl(t, QB_LOG_FILTER_CLEAR_ALL, QB_LOG_FILTER_FILE, "*", LOG_TRACE);
			tr("CLEAR_ALL t=%d -> %d", t, rc);
			if (t < 0 || t >= NT || M[t].state == ST_UNUSED)
				exp = EBADF;
			else
				M[t].nf = 0;
			if (rc != -exp)
				fail("CLEAR_ALL rc %d expected %d", rc, -exp);
		} else if (op < 79) {
			/* tag set */
			int type, exp;
			int32_t v = R(3) ? (int32_t)R(6) : (int32_t)rnd();
			const char *text;
			uint8_t hi, lo;
			pick_filter(&type, &text, &hi, &lo);
			if (nT >= MAXF - 1)
				continue;
			rc = qb_log_filter_ctl2(v, QB_LOG_TAG_SET, type, text, hi, lo);
			tr("TAG_SET v=%d %s \"%s\" %u..%u -> %d", v, typename(type), text, hi, lo, rc);
			if (lo < hi)
				exp = EINVAL;
			else
				exp = m_add(T, &nT, type, text, hi, lo, v);
			if (rc != -exp)
				fail("TAG_SET rc %d expected %d", rc, -exp);
		} else if (op < 83) {
			int type, exp = 0;
			int32_t v = (int32_t)R(6);
			const char *text;
			uint8_t hi, lo;
			char tcopy[64];
			pick_filter(&type, &text, &hi, &lo);
			if (R(2) == 0 && nT > 0) {
				struct mflt *f = &T[R(nT)];
				type = f->type; text = f->text; hi = f->hi; lo = f->lo; v = f->value;
			}
			snprintf(tcopy, sizeof(tcopy), "%s", text);
			rc = qb_log_filter_ctl2(v, QB_LOG_TAG_CLEAR, type, tcopy, hi, lo);
			tr("TAG_CLEAR v=%d %s \"%s\" %u..%u -> %d", v, typename(type), tcopy, hi, lo, rc);
			if (lo < hi)
				exp = EINVAL;
			else
				m_remove(T, &nT, type, tcopy, hi, lo);
			if (rc != -exp)
				fail("TAG_CLEAR rc %d expected %d", rc, -exp);
		} else if (op < 84) {
			rc = qb_log_filter_ctl(0, QB_LOG_TAG_CLEAR_ALL, QB_LOG_FILTER_FILE, "*", LOG_TRACE);
			tr("TAG_CLEAR_ALL -> %d", rc);
			nT = 0;
			if (rc != 0)
				fail("TAG_CLEAR_ALL rc %d", rc);
		} else if (op < 88) {
			/* open custom */
			int exp = -EMFILE, nopen = 0;
			int maxopen = (flags & 16) ? 3 : 64;
			for (i = 4; i < NT; i++)
				if (M[i].state != ST_UNUSED)
					nopen++;
			if (nopen >= maxopen)
				continue;
			for (i = 4; i < NT; i++)
				if (M[i].state == ST_UNUSED) {
					exp = i;
					break;
				}
			rc = qb_log_custom_open(logger_cb, close_cb, NULL, NULL);
			tr("CUSTOM_OPEN -> %d", rc);
			if (rc != exp)
				fail("custom_open rc %d expected %d", rc, exp);
			if (rc >= 0) {
				M[rc].state = ST_DISABLED;
				if (M[rc].nf != 0)
					fail("model: slot %d had filters", rc);
			}
		} else if (op < 90) {
			int t = 4 + R(NT - 4);
			if (R(10) == 0)
				t = pick_slot();
			if (t >= 0 && t < 4)
				continue; /* not a custom target */
			qb_log_custom_close(t);
			tr("CUSTOM_CLOSE t=%d", t);
			if (t >= 4 && t < NT && M[t].state != ST_UNUSED) {
				M[t].state = ST_UNUSED;
				M[t].nf = 0;
			}
		} else if (op < 96) {
			int t = pick_slot(), en = R(3) != 0, exp = 0;
			if (t >= 0 && t < 4)
				continue; /* never enable static targets */
			rc = qb_log_ctl(t, QB_LOG_CONF_ENABLED, en);
			tr("ENABLED t=%d %d -> %d", t, en, rc);
			if (t < 0 || t >= NT || M[t].state == ST_UNUSED)
				exp = EBADF;
			else
				M[t].state = en ? ST_ENABLED : ST_DISABLED;
			if (rc != -exp)
				fail("ENABLED rc %d expected %d", rc, -exp);
		} else if (op < 98) {
			int t = 4 + R(NT - 4);
			if (!(flags & 4))
				continue;
			rc = qb_log_ctl(t, QB_LOG_CONF_THREADED, R(2));
			tr("THREADED t=%d -> %d", t, rc);
		} else if (op < 99) {
			if ((flags & 8) && !sect_registered) {
				rc = qb_log_callsites_register(&sect[0], &sect[NSTATIC]);
				tr("REGISTER section -> %d", rc);
				if (rc != 0)
					fail("register rc %d", rc);
				sect_registered = 1;
			}
		} else {
			int t = pick_slot();
			rc = qb_log_ctl(t, QB_LOG_CONF_STATE_GET, 0);
			if (t >= 4 && t < NT && rc != (M[t].state == ST_UNUSED ? -EBADF : M[t].state))
				fail("STATE_GET t=%d %d expected %d", t, rc, M[t].state);
		}
	}
	(void)in_cb;
	qb_log_fini();
	printf("seed %u nops %ld flags 0x%x: %d failures\n", seed, nops, flags, failures);
	return failures ? 1 : 0;
}
