/* finding 2: a log call made while another thread is inside a log call is
 * silently dropped (global in_logger flag), also in the configuration that
 * qblog.h documents as thread safe (all targets threaded, thread started). */
#define _GNU_SOURCE
#include <stdio.h>
#include <string.h>
#include <syslog.h>
#include <pthread.h>
#include <semaphore.h>
#include <printf.h>
#include <qb/qbdefs.h>
#include <qb/qblog.h>

static int got[32];
static char seen[256];
static sem_t inside, go;

static void lg(int32_t t, struct qb_log_callsite *cs, struct timespec *ts, const char *m)
{
	(void)ts; (void)cs;
	got[t]++;
	strncat(seen, m, sizeof(seen) - strlen(seen) - 2);
	strcat(seen, ";");
}

/* a conversion that takes its time: stands for any preemption of the
 * thread while it formats its message */
static int slow_out(FILE *f, const struct printf_info *i, const void *const *a)
{
	(void)i; (void)a;
	sem_post(&inside);
	sem_wait(&go);
	return fprintf(f, "slow");
}
static int slow_ai(const struct printf_info *i, size_t n, int *at, int *sz)
{ (void)i; (void)n; (void)at; (void)sz; return 0; }

static void *other(void *p)
{
	(void)p;
	qb_log_from_external_source("other", "b.c", "m1-%Y", LOG_INFO, 1, 0);
	return NULL;
}

int main(void)
{
	pthread_t th;
	int A, bad;
	sem_init(&inside, 0, 0);
	sem_init(&go, 0, 0);
	register_printf_specifier('Y', slow_out, slow_ai);
	qb_log_init("demo", LOG_USER, LOG_INFO);
	qb_log_ctl(QB_LOG_SYSLOG, QB_LOG_CONF_ENABLED, QB_FALSE);
	A = qb_log_custom_open(lg, NULL, NULL, NULL);
	qb_log_ctl(A, QB_LOG_CONF_THREADED, QB_TRUE);
	qb_log_ctl(A, QB_LOG_CONF_ENABLED, QB_TRUE);
	qb_log_filter_ctl(A, QB_LOG_FILTER_ADD, QB_LOG_FILTER_FILE, "*", LOG_TRACE);
	qb_log_thread_start();

	pthread_create(&th, NULL, other, NULL);
	sem_wait(&inside);	/* the other thread is formatting m1 */
	qb_log_from_external_source("main", "a.c", "m2", LOG_INFO, 2, 0);
	sem_post(&go);
	pthread_join(th, NULL);
	qb_log_from_external_source("main", "a.c", "m3", LOG_INFO, 3, 0);
	qb_log_fini();	/* flushes */

	printf("target %d received %d messages: %s (expected 3: m1-slow, m2, m3)\n", A, got[A], seen);
	bad = got[A] != 3;
	printf("%s\n", bad ? "PROPERTY VIOLATED: m2 was enabled+selected for the target but never delivered" : "property held");
	return bad;
}
