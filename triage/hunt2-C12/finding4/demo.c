/* finding 4: the 65537th distinct call site aborts the process. */
#include <stdio.h>
#include <stdlib.h>
#include <syslog.h>
#include <qb/qbdefs.h>
#include <qb/qblog.h>
static int got[32];
static void lg(int32_t t, struct qb_log_callsite *cs, struct timespec *ts, const char *m)
{ (void)ts; (void)m; (void)cs; got[t]++; }
int main(void)
{
	int a, i, n = 65537;
	qb_log_init("demo", LOG_USER, LOG_INFO);
	qb_log_ctl(QB_LOG_SYSLOG, QB_LOG_CONF_ENABLED, QB_FALSE);
	a = qb_log_custom_open(lg, NULL, NULL, NULL);
	qb_log_ctl(a, QB_LOG_CONF_ENABLED, QB_TRUE);
	qb_log_filter_ctl(a, QB_LOG_FILTER_ADD, QB_LOG_FILTER_FILE, "*", LOG_TRACE);
	for (i = 0; i < n; i++) {
		/* one call site per line number */
		qb_log_from_external_source("f", "a.c", "m %d", LOG_INFO, 1 + i, 0, i);
		if (got[a] != i + 1) {
			printf("call %d not delivered\n", i + 1);
			return 1;
		}
	}
	printf("delivered %d of %d\n", got[a], n);
	qb_log_fini();
	return got[a] == n ? 0 : 1;
}
