/*
 * Model-based randomized tester for libqb threaded logging (property C16).
 *
 * usage: fuzz <seed> <nops> [ctlthread=0|1] [slow=0|1]
 *
 * Reference model: for every custom target we keep (exists, enabled, threaded,
 * filter list).  A logged message (call site = file fN.c, priority p) is
 * expected on every target that is enabled and has at least one filter that
 * matches, at the moment it is logged.  Each logger callback appends the
 * sequence number found in the message to the per-target "got" vector.  At
 * every fini (and at the end) got must equal expected - exactly once, in
 * order - except for messages reported as "N messages lost" on stdout.
 */
#define _GNU_SOURCE
#include <stdio.h>
#include <stdlib.h>
#include <string.h>
#include <stdint.h>
#include <unistd.h>
#include <errno.h>
#include <pthread.h>
#include <syslog.h>
#include <qb/qbdefs.h>
#include <qb/qblog.h>

#define MAXT 6			/* model slots (custom targets) */
#define NFILES 4
#define MAXF 8

struct flt { int file; /* -1 = "*" */ int prio; };
struct mt {
	int exists, pos, enabled, threaded;
	struct flt f[MAXF];
	int nf;
	int *exp; size_t nexp, cexp;
	int *got; size_t ngot, cgot;
} T[MAXT];

static pthread_mutex_t gotlock = PTHREAD_MUTEX_INITIALIZER;
static int inited, started, seqno, slow;
static long total_logged, total_checked, failures;
static uint64_t rs;
static FILE *so;		/* library's stdout, redirected */
static long so_off;
static char so_path[64];
static FILE *rep;

static uint32_t rnd(void)
{
	rs ^= rs << 13; rs ^= rs >> 7; rs ^= rs << 17;
	return (uint32_t)(rs >> 11);
}

static void push(int **v, size_t *n, size_t *c, int x)
{
	if (*n == *c) { *c = *c ? *c * 2 : 64; *v = realloc(*v, *c * sizeof(int)); }
	(*v)[(*n)++] = x;
}

static struct mt *bypos(int pos)
{
	for (int i = 0; i < MAXT; i++)
		if (T[i].exists && T[i].pos == pos) return &T[i];
	return NULL;
}

static void logger_cb(int32_t t, struct qb_log_callsite *cs,
		      struct timespec *ts, const char *msg)
{
	int s = -1;
	struct mt *m;
	(void)cs; (void)ts;
	if (sscanf(msg, "m%d", &s) != 1) {
		fprintf(rep, "FAIL: garbled message on target %d: %.40s\n", t, msg);
		failures++;
		return;
	}
	if (slow && (s % 7) == 0) usleep(200);
	pthread_mutex_lock(&gotlock);
	m = bypos(t);
	if (m) push(&m->got, &m->ngot, &m->cgot, s);
	else { fprintf(rep, "FAIL: write to unknown target %d seq %d\n", t, s); failures++; }
	pthread_mutex_unlock(&gotlock);
}

static void close_cb(int32_t t) { (void)t; }

static int reported_lost(void)
{
	char line[256];
	int tot = 0, n;
	fflush(stdout);
	FILE *f = fopen(so_path, "r");
	if (!f) return 0;
	fseek(f, so_off, SEEK_SET);
	while (fgets(line, sizeof line, f))
		if (sscanf(line, "%d messages lost", &n) == 1) tot += n;
	so_off = ftell(f);
	fclose(f);
	return tot;
}

/* compare got/expected of every target; allowed_missing = reported drops */
static void check_all(const char *when, int lost)
{
	pthread_mutex_lock(&gotlock);
	for (int i = 0; i < MAXT; i++) {
		struct mt *m = &T[i];
		size_t g = 0, e = 0, missing = 0;
		int bad = 0;
		while (e < m->nexp) {
			if (g < m->ngot && m->got[g] == m->exp[e]) { g++; e++; }
			else { missing++; e++; }
		}
		if (g != m->ngot) bad = 1;	/* duplicate, reorder or unexpected */
		if (!m->threaded && missing) bad = 1;
		if ((int)missing > lost) bad = 1;
		total_checked += m->nexp;
		if (bad) {
			failures++;
			fprintf(rep, "FAIL[%s]: slot %d pos %d thr %d: expected %zu got %zu missing %zu reported-lost %d (first unmatched got idx %zu)\n",
				when, i, m->pos, m->threaded, m->nexp, m->ngot, missing, lost, g);
		}
		m->nexp = m->ngot = 0;
	}
	pthread_mutex_unlock(&gotlock);
}

static int flt_match(struct flt *f, int file, int prio)
{
	return prio <= f->prio && (f->file < 0 || f->file == file);
}

static const int prios[3] = { LOG_ERR, LOG_INFO, LOG_DEBUG };
static const char *fnames[NFILES] = { "f0.c", "f1.c", "f2.c", "f3.c" };

static void do_log(void)
{
	char pad[4200];
	int file = rnd() % NFILES, pi = rnd() % 3, prio = prios[pi];
	int len, r = rnd() % 100;
	if (r < 60) len = rnd() % 40;
	else if (r < 90) len = rnd() % 480;
	else if (r < 95) len = 495 + rnd() % 12;	/* around QB_LOG_MAX_LEN with the prefix */
	else len = 0;
	memset(pad, 'a' + (seqno % 26), len); pad[len] = 0;
	if (r >= 97) { pad[0] = '%'; pad[1] = '%'; }	/* a literal percent through the format */
	int s = seqno++;
	for (int i = 0; i < MAXT; i++) {
		struct mt *m = &T[i];
		if (!inited || !m->exists || !m->enabled) continue;
		int hit = 0;
		for (int k = 0; k < m->nf; k++) hit |= flt_match(&m->f[k], file, prio);
		if (hit) push(&m->exp, &m->nexp, &m->cexp, s);
	}
	total_logged++;
	/* distinct dynamic call site per (file, prio) */
	qb_log_from_external_source("fn", fnames[file], "m%06d %s", prio,
				    100 + pi, 0, s, pad);
}

static void do_fini(void)
{
	qb_log_fini();
	inited = 0; started = 0;
	check_all("fini", reported_lost());
	for (int i = 0; i < MAXT; i++) { T[i].exists = 0; T[i].nf = 0; }
}

static void do_init(void)
{
	qb_log_init("fuzz", LOG_USER, LOG_EMERG);
	qb_log_ctl(QB_LOG_SYSLOG, QB_LOG_CONF_ENABLED, QB_FALSE);
	inited = 1;
}

static volatile int ctl_run;
static void *ctl_thread(void *arg)
{
	/* "neutral" control operations from a second thread: they must not
	 * change what is delivered where */
	uint64_t s = 12345 + (uintptr_t)arg;
	while (ctl_run) {
		s = s * 6364136223846793005ULL + 1442695040888963407ULL;
		int pos = QB_LOG_TARGET_DYNAMIC_START + (s >> 33) % 4;
		switch ((s >> 40) % 4) {
		case 0: qb_log_ctl(pos, QB_LOG_CONF_STATE_GET, 0); break;
		case 1: qb_log_ctl(pos, QB_LOG_CONF_PRIORITY_BUMP, 0); break;
		case 2: qb_log_ctl(pos, QB_LOG_CONF_FILE_SYNC, 0); break;
		case 3: qb_log_ctl(QB_LOG_STDERR, QB_LOG_CONF_STATE_GET, 0); break;
		}
		usleep(50);
	}
	return NULL;
}

int main(int argc, char **argv)
{
	uint64_t seed = argc > 1 ? strtoull(argv[1], 0, 0) : 1;
	long nops = argc > 2 ? atol(argv[2]) : 100000;
	int ctl = argc > 3 ? atoi(argv[3]) : 0;
	pthread_t cth;
	slow = argc > 4 ? atoi(argv[4]) : 0;
	rs = seed * 0x9E3779B97F4A7C15ULL + 1;
	rep = fdopen(dup(2), "w");
	snprintf(so_path, sizeof so_path, "/tmp/hunt3-C16/so.%d", getpid());
	so = freopen(so_path, "w", stdout);
	(void)so;

	for (long op = 0; op < nops; op++) {
		int r = rnd() % 1000;
		if (!inited) {
			if (r < 30 && !started) {	/* thread start before init */
				if (qb_log_thread_start() == 0) started = 1;
			} else if (r < 60) {
				do_log();	/* logging while not inited: nothing expected */
			} else {
				do_init();
				if (ctl && !ctl_run) { ctl_run = 1; pthread_create(&cth, NULL, ctl_thread, NULL); }
			}
			continue;
		}
		if (r < 700) { do_log(); continue; }
		if (r < 701) {
			if (ctl && ctl_run) { ctl_run = 0; pthread_join(cth, NULL); }
			do_fini(); continue;
		}
		if (r < 730) {
			if (qb_log_thread_start() == 0) started = 1;
			continue;
		}
		int slot = rnd() % MAXT;
		struct mt *m = &T[slot];
		if (!m->exists) {
			if (r < 850) {
				int p = qb_log_custom_open(logger_cb, close_cb, NULL, NULL);
				if (p >= 0) {
					pthread_mutex_lock(&gotlock);
					m->exists = 1; m->pos = p; m->enabled = 0; m->threaded = 0; m->nf = 0;
					pthread_mutex_unlock(&gotlock);
					if (rnd() % 10 < 7) {	/* commonly: usable at once */
						if (qb_log_ctl(p, QB_LOG_CONF_ENABLED, 1) == 0) m->enabled = 1;
						if (qb_log_filter_ctl(p, QB_LOG_FILTER_ADD, QB_LOG_FILTER_FILE, "*", LOG_DEBUG) == 0) {
							m->f[0].file = -1; m->f[0].prio = LOG_DEBUG; m->nf = 1;
						}
						if (rnd() & 1) {
							qb_log_ctl(p, QB_LOG_CONF_THREADED, 1); m->threaded = 1;
						}
					}
				}
			}
			continue;
		}
		if (r < 760) {		/* close */
			qb_log_custom_close(m->pos);
			/* everything for it must have been written by now, but
			 * we only check at fini: keep vectors, slot stays
			 * reserved (exists with enabled=0, pos=-1) */
			pthread_mutex_lock(&gotlock);
			m->enabled = 0; m->nf = 0; m->threaded = m->threaded; m->pos = -1000 - slot;
			pthread_mutex_unlock(&gotlock);
			/* cannot reuse the slot until fini (vectors hold its history) */
			continue;
		}
		if (m->pos < 0) continue;
		if (r < 820) {
			int on = rnd() & 1;
			if (qb_log_ctl(m->pos, QB_LOG_CONF_ENABLED, on) == 0) m->enabled = on;
		} else if (r < 870) {
			int on = rnd() & 1;
			if (qb_log_ctl(m->pos, QB_LOG_CONF_THREADED, on) == 0) {
				/* a switch while messages were expected: the
				 * "threaded" flag in the model only says whether
				 * drops are allowed; keep it sticky */
				m->threaded |= on;
			}
		} else if (r < 940) {	/* add filter */
			struct flt f = { (int)(rnd() % (NFILES + 1)) - 1, prios[rnd() % 3] };
			int rc = qb_log_filter_ctl(m->pos, QB_LOG_FILTER_ADD, QB_LOG_FILTER_FILE,
						   f.file < 0 ? "*" : fnames[f.file], f.prio);
			int dup = 0;
			for (int k = 0; k < m->nf; k++)
				dup |= (m->f[k].file == f.file && m->f[k].prio == f.prio);
			if (rc == 0) {
				if (dup || m->nf == MAXF) { fprintf(rep, "FAIL: filter add model mismatch\n"); failures++; }
				if (m->nf < MAXF) m->f[m->nf++] = f;
			} else if (!dup) { fprintf(rep, "FAIL: filter add rc %d\n", rc); failures++; }
			if (m->nf == MAXF) {
				qb_log_filter_ctl(m->pos, QB_LOG_FILTER_CLEAR_ALL, QB_LOG_FILTER_FILE, "*", LOG_TRACE);
				m->nf = 0;
			}
		} else if (r < 975) {	/* remove: same rule as the library */
			if (m->nf) {
				struct flt f = m->f[rnd() % m->nf];
				qb_log_filter_ctl(m->pos, QB_LOG_FILTER_REMOVE, QB_LOG_FILTER_FILE,
						  f.file < 0 ? "*" : fnames[f.file], f.prio);
				for (int k = 0; k < m->nf; k++) {
					if (m->f[k].prio <= f.prio &&
					    (m->f[k].file == f.file || f.file < 0)) {
						memmove(&m->f[k], &m->f[k + 1], (m->nf - k - 1) * sizeof f);
						m->nf--;
						break;
					}
				}
			}
		} else if (r < 985) {
			qb_log_filter_ctl(m->pos, QB_LOG_FILTER_CLEAR_ALL, QB_LOG_FILTER_FILE, "*", LOG_TRACE);
			m->nf = 0;
		} else {
			qb_log_ctl(m->pos, QB_LOG_CONF_MAX_LINE_LEN, 4 + rnd() % 1000);
			qb_log_ctl(m->pos, QB_LOG_CONF_MAX_LINE_LEN, 512);
		}
	}
	if (ctl && ctl_run) { ctl_run = 0; pthread_join(cth, NULL); }
	if (inited) do_fini();
	fprintf(rep, "seed %llu ops %ld logged %ld checked %ld failures %ld\n",
		(unsigned long long)seed, nops, total_logged, total_checked, failures);
	unlink(so_path);
	return failures ? 1 : 0;
}
