/*
 * C16 finding 3 (lower confidence: needs control operations from two threads):
 * qb_log_thread_pause() and qb_log_thread_resume() each evaluate
 * "t->threaded && logt_wthread_lock != NULL" on their own.  A control
 * operation that waited for the lock in pause() while another thread switched
 * the target to non-threaded never unlocks: the lock is leaked and every later
 * log call / control operation / qb_log_fini() spins forever.
 *
 * The logging thread is held inside the target's logger (it holds the lock
 * there), thread B enters qb_log_ctl(STATE_GET) and main enters
 * qb_log_ctl(THREADED, 0); both wait for the lock.  When the logger returns
 * one of them wins; if main wins, B leaks the lock.  Repeated until it happens.
 */
#define _GNU_SOURCE
#include <stdio.h>
#include <stdlib.h>
#include <string.h>
#include <unistd.h>
#include <semaphore.h>
#include <pthread.h>
#include <syslog.h>
#include <signal.h>
#include <qb/qbdefs.h>
#include <qb/qblog.h>

static sem_t in_cb, go, b_go;
static int a;
static volatile int round_no;

static void cbA(int32_t t, struct qb_log_callsite *cs, struct timespec *ts, const char *msg)
{
	(void)t; (void)cs; (void)ts;
	if (strcmp(msg, "hold") == 0) { sem_post(&in_cb); sem_wait(&go); }
}
static void *thrB(void *x)
{
	(void)x;
	for (;;) {
		sem_wait(&b_go);
		qb_log_ctl(a, QB_LOG_CONF_STATE_GET, 0);	/* read-only control operation */
	}
	return NULL;
}
static void *releaser(void *x)
{
	(void)x;
	usleep(100000);		/* B and main are both waiting in the library by now */
	sem_post(&go);
	return NULL;
}
static void on_alarm(int s)
{
	static const char m[] = "HANG: the logging lock was never released (leaked by qb_log_thread_resume)\nVIOLATED\n";
	(void)s;
	if (write(2, m, sizeof m - 1)) {}
	_exit(1);
}

int main(void)
{
	pthread_t b, r;
	sem_init(&in_cb, 0, 0); sem_init(&go, 0, 0); sem_init(&b_go, 0, 0);
	signal(SIGALRM, on_alarm);
	qb_log_init("demo", LOG_USER, LOG_EMERG);
	qb_log_ctl(QB_LOG_SYSLOG, QB_LOG_CONF_ENABLED, QB_FALSE);
	a = qb_log_custom_open(cbA, NULL, NULL, NULL);
	qb_log_filter_ctl(a, QB_LOG_FILTER_ADD, QB_LOG_FILTER_FILE, "a.c", LOG_DEBUG);
	qb_log_ctl(a, QB_LOG_CONF_ENABLED, QB_TRUE);
	if (qb_log_thread_start() != 0) return 2;
	pthread_create(&b, NULL, thrB, NULL);

	for (round_no = 1; round_no <= 40; round_no++) {
		alarm(10);
		qb_log_ctl(a, QB_LOG_CONF_THREADED, QB_TRUE);
		qb_log_from_external_source("main", "a.c", "hold", LOG_INFO, 1, 0);
		sem_wait(&in_cb);		/* logging thread is in the logger, holding the lock */
		sem_post(&b_go);		/* B: qb_log_ctl(a, STATE_GET) -> pause() waits */
		usleep(50000);
		pthread_create(&r, NULL, releaser, NULL);
		qb_log_ctl(a, QB_LOG_CONF_THREADED, QB_FALSE);	/* waits for the lock too */
		pthread_join(r, NULL);
		usleep(50000);			/* B is done, one way or the other */
		fprintf(stderr, "round %d done\n", round_no);
	}
	alarm(10);
	qb_log_fini();
	fprintf(stderr, "held (40 rounds without a leaked lock)\n");
	return 0;
}
