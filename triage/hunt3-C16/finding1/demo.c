/*
 * C16 finding 1: messages dropped at the backlog limit are never reported when
 * the backlog is written out by a control operation (or reported in a later,
 * unrelated logging session).
 *
 * The logging thread is kept off the CPU deterministically: a process-directed
 * SIGUSR1 (blocked in the main thread) lands in the logging thread while it is
 * idle in sem_wait() and its handler blocks on a pipe.  That stands for "the
 * logging thread is slower than the producer".
 */
#define _GNU_SOURCE
#include <stdio.h>
#include <stdlib.h>
#include <string.h>
#include <unistd.h>
#include <signal.h>
#include <pthread.h>
#include <syslog.h>
#include <qb/qbdefs.h>
#include <qb/qblog.h>

static volatile int delivered, frozen;
static int pfd[2];
static const char *so_path = "/tmp/hunt3-C16/finding1/stdout.txt";

static void cb(int32_t t, struct qb_log_callsite *cs, struct timespec *ts, const char *msg)
{
	(void)t; (void)cs; (void)ts; (void)msg;
	__sync_fetch_and_add(&delivered, 1);
}
static void on_usr1(int s)
{
	char c;
	(void)s;
	frozen = 1;
	while (read(pfd[0], &c, 1) < 0) ;
	frozen = 0;
}
static long lost_reported(long *off)
{
	char line[128]; long tot = 0; int n;
	fflush(stdout);
	FILE *f = fopen(so_path, "r");
	fseek(f, *off, SEEK_SET);
	while (fgets(line, sizeof line, f))
		if (sscanf(line, "%d messages lost", &n) == 1) tot += n;
	*off = ftell(f);
	fclose(f);
	return tot;
}
static int setup(void)
{
	int t;
	qb_log_init("demo", LOG_USER, LOG_EMERG);
	qb_log_ctl(QB_LOG_SYSLOG, QB_LOG_CONF_ENABLED, QB_FALSE);
	t = qb_log_custom_open(cb, NULL, NULL, NULL);
	qb_log_filter_ctl(t, QB_LOG_FILTER_ADD, QB_LOG_FILTER_FILE, "*", LOG_DEBUG);
	qb_log_ctl(t, QB_LOG_CONF_THREADED, QB_TRUE);
	qb_log_ctl(t, QB_LOG_CONF_ENABLED, QB_TRUE);
	if (qb_log_thread_start() != 0) { fprintf(stderr, "thread start failed\n"); exit(2); }
	return t;
}

int main(void)
{
	FILE *rep = fdopen(dup(2), "w");
	char pad[480];
	long off = 0, logged = 0, rep1, rep2, dropped;
	sigset_t ss;
	int t, i, rc = 0;
	struct sigaction sa;

	if (!freopen(so_path, "w", stdout)) return 2;
	if (pipe(pfd)) return 2;
	memset(pad, 'x', sizeof pad - 1); pad[sizeof pad - 1] = 0;

	/* ---- session 1 ---- */
	t = setup();
	memset(&sa, 0, sizeof sa); sa.sa_handler = on_usr1; sa.sa_flags = SA_RESTART;
	sigaction(SIGUSR1, &sa, NULL);
	sigemptyset(&ss); sigaddset(&ss, SIGUSR1);
	pthread_sigmask(SIG_BLOCK, &ss, NULL);	/* main thread only: the worker exists already */

	qb_log_from_external_source("fn", "a.c", "first %d", LOG_INFO, 1, 0, 0); logged++;
	while (delivered < 1) usleep(1000);
	usleep(50000);				/* worker is back in sem_wait() */
	kill(getpid(), SIGUSR1);
	while (!frozen) usleep(1000);

	for (i = 0; i < 1500; i++) {		/* ~1500 * 540 bytes > 512000 */
		qb_log_from_external_source("fn", "a.c", "m%06d %s", LOG_INFO, 2, 0, i, pad);
		logged++;
	}
	/* a harmless control operation on the target: writes the backlog out */
	qb_log_ctl(t, QB_LOG_CONF_PRIORITY_BUMP, 0);
	if (write(pfd[1], "g", 1) != 1) return 2;	/* logging thread may run again */
	while (frozen) usleep(1000);
	qb_log_fini();
	dropped = logged - delivered;
	rep1 = lost_reported(&off);
	fprintf(rep, "session 1: logged %ld, written %d, dropped %ld, reported as lost %ld\n",
		logged, delivered, dropped, rep1);
	if (dropped <= 0) { fprintf(rep, "inconclusive: backlog limit not reached\n"); return 2; }
	if (rep1 != dropped) rc = 1;

	/* ---- session 2: nothing is dropped here ---- */
	delivered = 0;
	setup();
	qb_log_from_external_source("fn", "a.c", "only %d", LOG_INFO, 3, 0, 0);
	qb_log_fini();
	rep2 = lost_reported(&off);
	fprintf(rep, "session 2: logged 1, written %d, reported as lost %ld\n", delivered, rep2);
	if (rep2 != 0 || delivered != 1) rc = 1;
	fprintf(rep, rc ? "VIOLATED\n" : "held\n");
	return rc;
}
