/*
 * C16 finding 2: a message logged by the producer while a logger run by the
 * logging thread is itself logging is lost: not written, not queued, not
 * counted as dropped.
 *
 * Target A: threaded, wants a.c.  Its logger logs a line for inner.c when it
 * sees "trigger" (a logger that logs - log_thread.c caters for that).
 * Target B: not threaded, wants inner.c.  Its logger only blocks on semaphores
 * so that the window is held open deterministically.
 */
#define _GNU_SOURCE
#include <stdio.h>
#include <stdlib.h>
#include <string.h>
#include <unistd.h>
#include <semaphore.h>
#include <pthread.h>
#include <syslog.h>
#include <qb/qbdefs.h>
#include <qb/qblog.h>

static sem_t in_inner, go;
static char got[8][64];
static volatile int ngot, a_done;
static pthread_t main_thr;

static void cbB(int32_t t, struct qb_log_callsite *cs, struct timespec *ts, const char *msg)
{
	(void)t; (void)cs; (void)ts; (void)msg;
	if (!pthread_equal(pthread_self(), main_thr)) {
		sem_post(&in_inner);
		sem_wait(&go);
	}
}
static void cbA(int32_t t, struct qb_log_callsite *cs, struct timespec *ts, const char *msg)
{
	(void)t; (void)cs; (void)ts;
	if (ngot < 8) { strncpy(got[ngot], msg, 63); ngot++; }
	if (strcmp(msg, "trigger") == 0)
	{
		qb_log_from_external_source("cbA", "inner.c", "note from the logger of A", LOG_INFO, 10, 0);
		a_done = 1;
	}
}

int main(void)
{
	int a, b, rc;
	main_thr = pthread_self();
	sem_init(&in_inner, 0, 0); sem_init(&go, 0, 0);
	qb_log_init("demo", LOG_USER, LOG_EMERG);
	qb_log_ctl(QB_LOG_SYSLOG, QB_LOG_CONF_ENABLED, QB_FALSE);
	a = qb_log_custom_open(cbA, NULL, NULL, NULL);
	b = qb_log_custom_open(cbB, NULL, NULL, NULL);
	qb_log_filter_ctl(a, QB_LOG_FILTER_ADD, QB_LOG_FILTER_FILE, "a.c", LOG_DEBUG);
	qb_log_filter_ctl(b, QB_LOG_FILTER_ADD, QB_LOG_FILTER_FILE, "inner.c", LOG_DEBUG);
	qb_log_ctl(a, QB_LOG_CONF_THREADED, QB_TRUE);
	qb_log_ctl(a, QB_LOG_CONF_ENABLED, QB_TRUE);
	qb_log_ctl(b, QB_LOG_CONF_ENABLED, QB_TRUE);
	if (qb_log_thread_start() != 0) return 2;

	qb_log_from_external_source("main", "a.c", "trigger", LOG_INFO, 1, 0);
	sem_wait(&in_inner);		/* the logging thread is inside A's logger, logging */
	qb_log_from_external_source("main", "a.c", "victim", LOG_INFO, 2, 0);
	sem_post(&go);
	while (!a_done) usleep(1000);	/* the logger's own logging is over */
	qb_log_from_external_source("main", "a.c", "after", LOG_INFO, 3, 0);
	qb_log_fini();

	fprintf(stderr, "target A received %d message(s):", ngot);
	for (int i = 0; i < ngot; i++) fprintf(stderr, " [%s]", got[i]);
	fprintf(stderr, "\nexpected: [trigger] [victim] [after]\n");
	rc = !(ngot == 3 && !strcmp(got[0], "trigger") && !strcmp(got[1], "victim") && !strcmp(got[2], "after"));
	fprintf(stderr, rc ? "VIOLATED\n" : "held\n");
	return rc;
}
