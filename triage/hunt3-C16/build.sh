#!/bin/sh
# usage: build.sh [tree]   -> fuzz.asan fuzz.tsan
T=${1:-/repo}
D=$(dirname "$(readlink -f "$0")")
SRCS="$T/lib/log.c $T/lib/log_thread.c $T/lib/log_dcs.c $T/lib/log_format.c $T/lib/log_file.c $T/lib/log_syslog.c $T/lib/log_blackbox.c"
INC="-DHAVE_CONFIG_H -I$T/include -I$T/include/qb -I$T/lib -I$T"
gcc -g -O1 -fsanitize=address,undefined -fno-omit-frame-pointer $INC -o $D/fuzz.asan $D/fuzz.c $SRCS -L$T/lib/.libs -lqb -lpthread || exit 1
gcc -g -O1 -fsanitize=thread $INC -o $D/fuzz.tsan $D/fuzz.c $SRCS -L$T/lib/.libs -lqb -lpthread || exit 1
