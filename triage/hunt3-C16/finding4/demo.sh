#!/bin/sh
# usage: demo.sh <tree>   exit 0 = property held, 1 = violated
T=${1:-/repo}
D=$(dirname "$(readlink -f "$0")")
SRCS="$T/lib/log.c $T/lib/log_thread.c $T/lib/log_dcs.c $T/lib/log_format.c $T/lib/log_file.c $T/lib/log_syslog.c $T/lib/log_blackbox.c"
gcc -g -O1 -fsanitize=address,undefined -DHAVE_CONFIG_H -I$T/include -I$T/include/qb -I$T/lib -I$T \
  -o $D/demo $D/demo.c $SRCS -L$T/lib/.libs -lqb -lpthread 2>$D/build.log || { cat $D/build.log; exit 2; }
export LD_LIBRARY_PATH=$T/lib/.libs ASAN_OPTIONS=detect_leaks=0
echo "control run (not threaded):" >&2
timeout 60 $D/demo 0 || exit 2
echo "threaded:" >&2
timeout 60 $D/demo 1
