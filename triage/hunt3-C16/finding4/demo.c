/*
 * C16 finding 4 (lower confidence: re-entrancy from a logger callback):
 * a logger that disables its own target (e.g. after a write error) works for a
 * non-threaded target, but for a threaded target the control operation is made
 * by the thread that already holds the logging lock: qb_log_thread_pause()
 * spins on it for ever, and so does everything else, including qb_log_fini().
 *
 * argv[1] = "0": same program with THREADED off (control run, must pass).
 */
#define _GNU_SOURCE
#include <stdio.h>
#include <stdlib.h>
#include <string.h>
#include <unistd.h>
#include <signal.h>
#include <syslog.h>
#include <qb/qbdefs.h>
#include <qb/qblog.h>

static int a; static volatile int calls;
static void cbA(int32_t t, struct qb_log_callsite *cs, struct timespec *ts, const char *msg)
{
	(void)cs; (void)ts; (void)msg;
	calls++;
	/* "the medium is gone": stop logging to this target */
	qb_log_ctl(t, QB_LOG_CONF_ENABLED, QB_FALSE);
}
static void on_alarm(int s)
{
	static const char m[] = "HANG: control operation from the logger of a threaded target never returns; qb_log_fini() blocked\nVIOLATED\n";
	(void)s;
	if (write(2, m, sizeof m - 1)) {}
	_exit(1);
}
int main(int argc, char **argv)
{
	int threaded = !(argc > 1 && argv[1][0] == '0');
	signal(SIGALRM, on_alarm);
	alarm(5);
	qb_log_init("demo", LOG_USER, LOG_EMERG);
	qb_log_ctl(QB_LOG_SYSLOG, QB_LOG_CONF_ENABLED, QB_FALSE);
	a = qb_log_custom_open(cbA, NULL, NULL, NULL);
	qb_log_filter_ctl(a, QB_LOG_FILTER_ADD, QB_LOG_FILTER_FILE, "a.c", LOG_DEBUG);
	qb_log_ctl(a, QB_LOG_CONF_THREADED, threaded);
	qb_log_ctl(a, QB_LOG_CONF_ENABLED, QB_TRUE);
	if (qb_log_thread_start() != 0) return 2;
	qb_log_from_external_source("main", "a.c", "one", LOG_INFO, 1, 0);
	usleep(200000);		/* let the logging thread (if any) write it */
	qb_log_from_external_source("main", "a.c", "two", LOG_INFO, 2, 0);
	qb_log_fini();
	fprintf(stderr, "threaded=%d: fini returned, logger called %d time(s)\nheld\n", threaded, calls);
	return 0;
}
