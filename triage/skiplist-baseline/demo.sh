#!/bin/sh
# usage: demo.sh <libqb tree (configured)> [noasan]
# Builds demo.c together with the tree's lib/skiplist.c + lib/map.c under
# AddressSanitizer (nothing is written into the tree) and runs scenario 0
# (control) and 1..5, each in its own process.
# exit 0 = every scenario held, non-zero = at least one scenario broke.
# "noasan": link against <tree>/lib/.libs/libqb.so instead (informational;
# without ASan the use-after-free may go unnoticed).
T=${1:?usage: demo.sh <libqb tree> [noasan]}
D=$(cd "$(dirname "$0")" && pwd)
OUT=$(mktemp -d /tmp/seed-C18-skl.XXXXXX)
trap 'rm -rf "$OUT"' EXIT
INC="-I$T/include -I$T/include/qb -I$T/lib"
if [ "$2" = "noasan" ]; then
	gcc -g -O0 $INC "$D/demo.c" -o "$OUT/demo" -L"$T/lib/.libs" -lqb -lpthread || exit 99
	LD_LIBRARY_PATH="$T/lib/.libs"; export LD_LIBRARY_PATH
else
	gcc -g -O0 -fsanitize=address,undefined -fno-omit-frame-pointer -DHAVE_CONFIG_H $INC \
		"$D/demo.c" "$T/lib/skiplist.c" "$T/lib/map.c" -o "$OUT/demo" || exit 99
	ASAN_OPTIONS=detect_leaks=0; export ASAN_OPTIONS
fi
bad=0
for s in 0 1 2 3 4 5; do
	echo "===== scenario $s"
	"$OUT/demo" $s
	rc=$?
	echo "===== scenario $s exit status $rc"
	[ $rc -ne 0 ] && bad=1
done
exit $bad
