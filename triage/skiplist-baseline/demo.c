/*
 * C18 on the UNCHANGED skiplist map: interleavings of iterator next with
 * qb_map_rm() that make lib/skiplist.c read freed memory.
 *
 * Public qbmap API only, single thread, fixed keys.  The node levels are
 * random (skiplist_level_generate) but none of the scenarios depends on them:
 * only the level-0 predecessor matters.  srand(1) is called after the create
 * anyway to make runs reproducible.
 *
 * usage: demo <scenario 1..5 | 0 = control>
 * exit 0 = property held, non-zero (or ASan abort) = broken
 */
#include <stdio.h>
#include <stdlib.h>
#include <string.h>
#include <qb/qbdefs.h>
#include <qb/qbmap.h>

static qb_map_t *mk(const char **keys)
{
	qb_map_t *m = qb_skiplist_create();
	int i;

	srand(1);
	for (i = 0; keys[i]; i++) {
		qb_map_put(m, keys[i], keys[i]);
	}
	return m;
}

static int advance_to(qb_map_iter_t *it, const char *key)
{
	const char *k;
	void *v;

	while ((k = qb_map_iter_next(it, &v)) != NULL) {
		if (strcmp(k, key) == 0) {
			return 0;
		}
	}
	printf("FAIL: could not reach %s\n", key);
	return 1;
}

static int expect_next(qb_map_iter_t *it, const char *want, const char *who)
{
	void *v;
	const char *k = qb_map_iter_next(it, &v);

	if (want == NULL) {
		if (k != NULL) {
			printf("FAIL: %s returned %s, expected end\n", who, k);
			return 1;
		}
		return 0;
	}
	if (k == NULL || strcmp(k, want) != 0) {
		printf("FAIL: %s returned %s, expected %s\n", who,
		       k ? k : "(end)", want);
		return 1;
	}
	return 0;
}

static int check_rest(qb_map_t *m, const char **present, const char **absent)
{
	int i;
	size_t n = 0;

	for (i = 0; present[i]; i++, n++) {
		if (qb_map_get(m, present[i]) != (void *)present[i]) {
			printf("FAIL: surviving key %s lost\n", present[i]);
			return 1;
		}
	}
	for (i = 0; absent[i]; i++) {
		if (qb_map_get(m, absent[i]) != NULL) {
			printf("FAIL: removed key %s still there\n", absent[i]);
			return 1;
		}
	}
	if (qb_map_count_get(m) != n) {
		printf("FAIL: count\n");
		return 1;
	}
	return 0;
}

static const char *K_abcde[] = { "a", "b", "c", "d", "e", NULL };

/* control: documented use, remove every entry but the last one while the
 * iterator is parked on it (the map never becomes empty) */
static int scenario0(void)
{
	static const char *left[] = { "e", NULL };
	static const char *gone[] = { "a", "b", "c", "d", NULL };
	qb_map_t *m = mk(K_abcde);
	qb_map_iter_t *it = qb_map_iter_create(m);
	const char *k;
	void *v;
	int n = 0;

	while ((k = qb_map_iter_next(it, &v)) != NULL) {
		if (strcmp(k, K_abcde[n]) != 0) {
			printf("FAIL: control order\n");
			return 1;
		}
		if (n < 4) {
			qb_map_rm(m, k);
		}
		n++;
	}
	qb_map_iter_free(it);
	if (n != 5 || check_rest(m, left, gone)) {
		return 1;
	}
	qb_map_put(m, "z", "z");
	if (qb_map_get(m, "z") == NULL) {
		return 1;
	}
	qb_map_destroy(m);
	return 0;
}

/*
 * 1: ONE iterator.  parked on "c"; rm "c" (the parked entry); rm "b" (its
 *    predecessor, which itself has a predecessor "a"); next.
 */
static int scenario1(void)
{
	static const char *left[] = { "a", "d", "e", NULL };
	static const char *gone[] = { "b", "c", NULL };
	qb_map_t *m = mk(K_abcde);
	qb_map_iter_t *it = qb_map_iter_create(m);

	if (advance_to(it, "c")) return 1;
	qb_map_rm(m, "c");
	qb_map_rm(m, "b");
	if (expect_next(it, "d", "it")) return 1;
	if (expect_next(it, "e", "it")) return 1;
	if (expect_next(it, NULL, "it")) return 1;
	qb_map_iter_free(it);
	if (check_rest(m, left, gone)) return 1;
	qb_map_destroy(m);
	return 0;
}

/*
 * 2: TWO iterators.  it1 parked on "b", it2 parked on "c"; rm "b"; rm "c"
 *    (each iterator's own entry, in key order); it1 next.
 */
static int scenario2(void)
{
	static const char *left[] = { "a", "d", "e", NULL };
	static const char *gone[] = { "b", "c", NULL };
	qb_map_t *m = mk(K_abcde);
	qb_map_iter_t *it1 = qb_map_iter_create(m);
	qb_map_iter_t *it2 = qb_map_iter_create(m);

	if (advance_to(it1, "b")) return 1;
	if (advance_to(it2, "c")) return 1;
	qb_map_rm(m, "b");
	qb_map_rm(m, "c");
	if (expect_next(it1, "d", "it1")) return 1;
	if (expect_next(it2, "d", "it2")) return 1;
	if (expect_next(it1, "e", "it1")) return 1;
	if (expect_next(it1, NULL, "it1")) return 1;
	if (expect_next(it2, "e", "it2")) return 1;
	if (expect_next(it2, NULL, "it2")) return 1;
	qb_map_iter_free(it1);
	qb_map_iter_free(it2);
	if (check_rest(m, left, gone)) return 1;
	qb_map_destroy(m);
	return 0;
}

/*
 * 3: ONE iterator.  parked on the FIRST entry "a"; rm "a" (the parked
 *    entry); rm "b" (its successor, now the first entry); next.
 */
static int scenario3(void)
{
	static const char *left[] = { "c", "d", "e", NULL };
	static const char *gone[] = { "a", "b", NULL };
	qb_map_t *m = mk(K_abcde);
	qb_map_iter_t *it = qb_map_iter_create(m);

	if (advance_to(it, "a")) return 1;
	qb_map_rm(m, "a");
	qb_map_rm(m, "b");
	if (expect_next(it, "c", "it")) return 1;
	if (expect_next(it, "d", "it")) return 1;
	if (expect_next(it, "e", "it")) return 1;
	if (expect_next(it, NULL, "it")) return 1;
	qb_map_iter_free(it);
	if (check_rest(m, left, gone)) return 1;
	qb_map_destroy(m);
	return 0;
}

/*
 * 4: ONE iterator, the documented use taken to the end: every returned entry
 *    is removed while the iterator is parked on it, INCLUDING the last
 *    remaining one; the iterator is run to its end and freed; then the
 *    (empty) map is used again.
 */
static int scenario4(void)
{
	static const char *keys[] = { "a", "b", NULL };
	static const char *left[] = { "z", NULL };
	qb_map_t *m = mk(keys);
	qb_map_iter_t *it = qb_map_iter_create(m);

	if (expect_next(it, "a", "it")) return 1;
	qb_map_rm(m, "a");
	if (expect_next(it, "b", "it")) return 1;
	qb_map_rm(m, "b");		/* map is empty now */
	if (expect_next(it, NULL, "it")) return 1;
	qb_map_iter_free(it);
	qb_map_put(m, "z", "z");
	if (check_rest(m, left, keys)) return 1;
	qb_map_destroy(m);
	return 0;
}

/*
 * 5: TWO iterators, same root cause as 4 but the victim is the other
 *    iterator: it1 parked on "a", it2 parked on "b"; rm "b"; rm "a" (map
 *    empty); it2 next (-> end); it1 next.
 */
static int scenario5(void)
{
	static const char *keys[] = { "a", "b", NULL };
	static const char *none[] = { NULL };
	qb_map_t *m = mk(keys);
	qb_map_iter_t *it1 = qb_map_iter_create(m);
	qb_map_iter_t *it2 = qb_map_iter_create(m);

	if (advance_to(it1, "a")) return 1;
	if (advance_to(it2, "b")) return 1;
	qb_map_rm(m, "b");
	qb_map_rm(m, "a");
	if (expect_next(it2, NULL, "it2")) return 1;
	if (expect_next(it1, NULL, "it1")) return 1;
	qb_map_iter_free(it1);
	qb_map_iter_free(it2);
	if (check_rest(m, none, keys)) return 1;
	qb_map_destroy(m);
	return 0;
}

int main(int argc, char **argv)
{
	int s = argc > 1 ? atoi(argv[1]) : 0;
	int rc;

	setvbuf(stdout, NULL, _IONBF, 0);
	switch (s) {
	case 0: rc = scenario0(); break;
	case 1: rc = scenario1(); break;
	case 2: rc = scenario2(); break;
	case 3: rc = scenario3(); break;
	case 4: rc = scenario4(); break;
	case 5: rc = scenario5(); break;
	default: return 2;
	}
	printf("scenario %d: %s\n", s, rc ? "FAIL" : "PASS");
	return rc;
}
