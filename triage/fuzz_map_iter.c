/* triage only (dynamic, no check runs it): random interleavings of iterator create/next/free with put/rm/get on one map,
 * checked against a model; built with ASan from a tree's lib sources.
 *   fuzz_map_iter <skiplist|hashtable|trie> <trials> <seed>
 * Model obligations (C18): no memory error; rm/get/count agree with the model; an iterator never returns a key that was never
 * present, returns a key that stayed present from its creation to its end exactly once when no insertion happened during its
 * life and at least once otherwise. */
#include <stdio.h>
#include <stdlib.h>
#include <string.h>
#include <qb/qbmap.h>

#define NK 7
#define NI 3
static const char *KS[3][NK] = {{"a", "b", "c", "d", "e", "f", "g"}, {"a", "ab", "abc", "abd", "b", "ba", "c"}, {"abcdef", "abcxyz", "abc", "ab", "abcdeg", "b", "abcd"}};
static const char **K = KS[1];

struct it {
	qb_map_iter_t *i;
	int live, ended, inserted;
	const char *prefix;
	int present_all[NK];	/* present since creation, still */
	int seen[NK];
};

int main(int argc, char **argv)
{
	const char *kind = argv[1];
	if (getenv("FUZZ_KEYS")) K = KS[atoi(getenv("FUZZ_KEYS")) % 3];
	int trials = atoi(argv[2]);
	unsigned seed = atoi(argv[3]);
	int bad = 0;
	for (int t = 0; t < trials && !bad; t++) {
		qb_map_t *m = !strcmp(kind, "skiplist") ? qb_skiplist_create() : !strcmp(kind, "trie") ? qb_trie_create() : qb_hashtable_create(8);
		int present[NK] = {0};
		struct it its[NI];
		memset(its, 0, sizeof(its));
		srand(seed + t);
		int n0 = 2 + rand() % (NK - 1);
		for (int k = 0; k < n0; k++) { qb_map_put(m, K[k], K[k]); present[k] = 1; }
		int steps = 4 + rand() % 14;
		char trace[2048] = ""; snprintf(trace, sizeof trace, "init=%d ", n0);
		for (int s = 0; s < steps && !bad; s++) {
			int op = rand() % 10, k = rand() % NK, j = rand() % NI;
			char one[64];
			if (op < 2) {		/* create */
				if (!its[j].live) {
					its[j].prefix = (!strcmp(kind, "trie") && rand() % 2) ? K[rand() % NK] : NULL;
					its[j].i = its[j].prefix ? qb_map_pref_iter_create(m, its[j].prefix) : qb_map_iter_create(m);
					its[j].live = 1; its[j].ended = 0; its[j].inserted = 0;
					for (int x = 0; x < NK; x++) { its[j].present_all[x] = present[x] && (!its[j].prefix || !strncmp(K[x], its[j].prefix, strlen(its[j].prefix))); its[j].seen[x] = 0; }
					snprintf(one, sizeof one, "create%d(%s) ", j, its[j].prefix ? its[j].prefix : ""); strcat(trace, one);
				}
			} else if (op < 6) {	/* next */
				if (its[j].live && !its[j].ended) {
					void *v; const char *key = qb_map_iter_next(its[j].i, &v);
					snprintf(one, sizeof one, "next%d=%s ", j, key ? key : "END"); strcat(trace, one);
					if (!key) {
						its[j].ended = 1;
						for (int x = 0; x < NK; x++) if (its[j].present_all[x] && !its[j].seen[x]) { printf("MISSED key %s\n", K[x]); bad = 1; }
					} else {
						int x; for (x = 0; x < NK; x++) if (!strcmp(K[x], key)) break;
						if (x == NK) { printf("UNKNOWN key\n"); bad = 1; break; }
						if (its[j].prefix && strncmp(key, its[j].prefix, strlen(its[j].prefix))) { printf("key %s outside prefix %s\n", key, its[j].prefix); bad = 1; }
						its[j].seen[x]++;
						if (its[j].seen[x] > 1 && !its[j].inserted) { printf("TWICE key %s\n", key); bad = 1; }
					}
				}
			} else if (op < 8) {	/* rm */
				int r = qb_map_rm(m, K[k]);
				snprintf(one, sizeof one, "rm(%s)=%d ", K[k], r); strcat(trace, one);
				if (r != present[k]) { printf("RM result %d, model %d\n", r, present[k]); bad = 1; }
				present[k] = 0;
				for (int x = 0; x < NI; x++) its[x].present_all[k] = 0;
			} else if (op < 9) {	/* put */
				qb_map_put(m, K[k], K[k]);
				snprintf(one, sizeof one, "put(%s) ", K[k]); strcat(trace, one);
				if (!present[k]) for (int x = 0; x < NI; x++) if (its[x].live) its[x].inserted = 1;
				present[k] = 1;
			} else {		/* free (possibly part-way) */
				if (its[j].live) { qb_map_iter_free(its[j].i); its[j].live = 0; snprintf(one, sizeof one, "free%d ", j); strcat(trace, one); }
			}
			/* dictionary view */
			int cnt = 0;
			for (int x = 0; x < NK; x++) {
				cnt += present[x];
				void *g = qb_map_get(m, K[x]);
				if ((g != NULL) != present[x]) { printf("GET(%s) %p, model %d\n", K[x], g, present[x]); bad = 1; }
			}
			if ((int)qb_map_count_get(m) != cnt) { printf("COUNT %zu model %d\n", qb_map_count_get(m), cnt); bad = 1; }
		}
		/* drain and free iterators, then use the map as a dictionary again */
		for (int j = 0; j < NI && !bad; j++) if (its[j].live) {
			void *v; int guard = 0;
			while (!its[j].ended && qb_map_iter_next(its[j].i, &v) && guard++ < 100) ;
			qb_map_iter_free(its[j].i);
		}
		if (!bad) {
			qb_map_put(m, "z", "z");
			if (qb_map_get(m, "z") == NULL) { printf("GET z after iterators\n"); bad = 1; }
			qb_map_rm(m, "z");
			for (int x = 0; x < NK; x++) if (present[x] && !qb_map_rm(m, K[x])) { printf("final rm(%s) failed\n", K[x]); bad = 1; }
			if (qb_map_count_get(m) != 0) { printf("final count %zu\n", qb_map_count_get(m)); bad = 1; }
		}
		if (bad) printf("trial %d (seed %u): %s\n", t, seed + t, trace);
		qb_map_destroy(m);
	}
	printf("%s: %s\n", kind, bad ? "BROKEN" : "HELD");
	return bad;
}
