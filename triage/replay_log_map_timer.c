#include "os_base.h"
#include <qb/qbdefs.h>
#include <qb/qblist.h>
#include <qb/qbloop.h>
#include <qb/qblog.h>
#include <qb/qbmap.h>
#include <qb/qbutil.h>
#include "loop_int.h"
#include "log_int.h"
#include <stdarg.h>

static void tmo(void *d){ printf("timer fired\n"); }
static void ser(char *buf, size_t max, const char *fmt, ...){ va_list ap; va_start(ap, fmt); size_t r = qb_vsnprintf_serialize(buf, max, fmt, ap); va_end(ap); printf("serialize returned %zu (max %zu)\n", r, max); }

static int nmsg; static char last[4096];
static void tlog(int32_t t, struct qb_log_callsite *cs, struct timespec *ts, const char *msg){ nmsg++; snprintf(last,sizeof last,"%s",msg); }
static void flog(int32_t t, struct qb_log_callsite *cs, struct timespec *ts, const char *msg){ char out[QB_LOG_MAX_LEN]; out[0]=0; qb_log_target_format(t, cs, ts, msg, out); nmsg++; snprintf(last,sizeof last,"%s",out); }

int main(int argc, char **argv){
  const char *w = argv[1];
  if(!strcmp(w,"D3")){
    qb_loop_t *l = qb_loop_create(); qb_loop_timer_handle h;
    uint64_t days = atoll(argv[2]);
    qb_loop_timer_add(l, QB_LOOP_MED, days*24ULL*3600*QB_TIME_NS_IN_SEC, NULL, tmo, &h);
    int32_t ms = qb_loop_timer_msec_duration_to_expire(l->timer_source);
    printf("duration %llu days -> poll timeout %d ms\n", (unsigned long long)days, ms);
  } else if(!strcmp(w,"D8a")){
    /* fill so that location == max_len then %s */
    char *buf = malloc(29); /* exact heap size so ASan sees overflow */
    ser(buf, 29, "%d%d%d%d%s%s", 1,2,3,4,"AAAAAAAAAAAAAAAAAAAAAAAAAAAAAAAAAAAAAAAAAAAAAAAAAAAAAAAAAAAA","BBBBBBBBBBBBBBBBBBBBBBBBBBBBBBBBBBBBBBBBBBBBBBBBBBBB");
  } else if(!strcmp(w,"D8b")){
    char buf[512], out[512]; va_list dummy;
    ser(buf, 512, "%.3s|%s", "abcdef", "ghijkl");
    qb_vsnprintf_deserialize(out, 512, buf); printf("blackbox: '%s'  printf: '", out); printf("%.3s|%s", "abcdef","ghijkl"); printf("'\n");
  } else if(!strcmp(w,"D9a")){
    char buf[1024]; char *out = malloc(64); memset(buf,'x',200); strcpy(buf+200,"%d"); int v=7; memcpy(buf+203,&v,4);
    size_t r = qb_vsnprintf_deserialize(out, 64, buf); printf("deser returned %zu\n", r);
  } else if(!strcmp(w,"D9b")){
    char buf[1024]; char out[512]; strcpy(buf,"%0000000000000000000000000000000000005d"); int v=7; memcpy(buf+strlen(buf)+1,&v,4);
    size_t r = qb_vsnprintf_deserialize(out, 512, buf); printf("deser returned %zu '%s'\n", r, out);
  } else if(!strcmp(w,"D4")){
    qb_log_init("t", LOG_USER, LOG_EMERG); qb_log_ctl(QB_LOG_SYSLOG, QB_LOG_CONF_ENABLED, QB_FALSE);
    int t = qb_log_custom_open(tlog, NULL, NULL, NULL); qb_log_filter_ctl(t, QB_LOG_FILTER_ADD, QB_LOG_FILTER_FILE, "*", LOG_TRACE); qb_log_ctl(t, QB_LOG_CONF_ENABLED, QB_TRUE);
    qb_log_from_external_source("f","file.c","%s", LOG_INFO, 10, 0, "");
    printf("delivered %d\n", nmsg); qb_log_fini();
  } else if(!strcmp(w,"D6")){
    qb_log_init("t", LOG_USER, LOG_EMERG); qb_log_ctl(QB_LOG_SYSLOG, QB_LOG_CONF_ENABLED, QB_FALSE);
    int t = qb_log_custom_open(flog, NULL, NULL, NULL); qb_log_filter_ctl(t, QB_LOG_FILTER_ADD, QB_LOG_FILTER_FILE, "*", LOG_TRACE); qb_log_format_set(t, "%b"); qb_log_ctl(t, QB_LOG_CONF_ENABLED, QB_TRUE);
    qb_log_from_external_source("f","file.c","%s", LOG_INFO, 10, 0, "");
    printf("delivered %d '%s'\n", nmsg, last); qb_log_fini();
  } else if(!strcmp(w,"D5")){
    qb_log_init("t", LOG_USER, LOG_EMERG); qb_log_ctl(QB_LOG_SYSLOG, QB_LOG_CONF_ENABLED, QB_FALSE);
    int t = qb_log_custom_open(flog, NULL, NULL, NULL); qb_log_filter_ctl(t, QB_LOG_FILTER_ADD, QB_LOG_FILTER_FILE, "*", LOG_TRACE); qb_log_ctl(t, QB_LOG_CONF_ENABLED, QB_TRUE);
    int rc = qb_log_ctl(t, QB_LOG_CONF_MAX_LINE_LEN, atoi(argv[2])); printf("ctl rc %d\n", rc);
    qb_log_from_external_source("f","file.c","hello %d", LOG_INFO, 10, 0, 5);
    printf("delivered %d '%s'\n", nmsg, last);
    qb_log_ctl(t, QB_LOG_CONF_MAX_LINE_LEN, 512);
    qb_log_from_external_source("f","file.c","again %d", LOG_INFO, 11, 0, 5);
    printf("delivered %d '%s'\n", nmsg, last); qb_log_fini();
  } else if(!strcmp(w,"D7")){
    qb_log_init("t", LOG_USER, LOG_EMERG); qb_log_ctl(QB_LOG_SYSLOG, QB_LOG_CONF_ENABLED, QB_FALSE);
    int t = qb_log_custom_open(flog, NULL, NULL, NULL);
    char fmt[400]; memset(fmt,'y',399); fmt[399]=0; qb_log_format_set(t, fmt); printf("format set ok\n"); qb_log_fini();
  } else if(!strcmp(w,"D14")){
    qb_log_init("t", LOG_USER, LOG_EMERG); qb_log_ctl(QB_LOG_SYSLOG, QB_LOG_CONF_ENABLED, QB_FALSE);
    int t = qb_log_custom_open(tlog, NULL, NULL, NULL); qb_log_filter_ctl(t, QB_LOG_FILTER_ADD, QB_LOG_FILTER_FILE, "*", LOG_TRACE);
    int early = atoi(argv[2]);
    if (early) qb_log_from_external_source("f","file.c","site X %d", LOG_INFO, 10, 0, 1); /* first executed while target disabled */
    qb_log_ctl(t, QB_LOG_CONF_ENABLED, QB_TRUE);
    qb_log_from_external_source("f","file.c","site X %d", LOG_INFO, 10, 0, 2);
    printf("early=%d delivered after enable: %d\n", early, nmsg); qb_log_fini();
  } else if(!strcmp(w,"D15")){
    qb_map_t *m = qb_trie_create(); qb_map_put(m,"abc","1"); qb_map_put(m,"abd","2");
    printf("count %zu\n", qb_map_count_get(m)); int r = qb_map_rm(m,"ab"); printf("rm(\"ab\") (never inserted) = %d, count now %zu\n", r, qb_map_count_get(m));
  } else if(!strcmp(w,"D16")){
    qb_map_t *m = qb_hashtable_create(32); qb_map_put(m,"k","v"); qb_map_iter_t *it = qb_map_iter_create(m); void *v; const char *k = qb_map_iter_next(it,&v); printf("iter at %s\n",k); qb_map_iter_free(it);
    int r = qb_map_rm(m,"k"); printf("rm = %d count=%zu get after rm = %s\n", r, qb_map_count_get(m), (char*)qb_map_get(m,"k"));
    r = qb_map_rm(m,"k"); printf("second rm = %d count=%zu\n", r, qb_map_count_get(m));
  }
  return 0;
}
