/*
 * C17 finding 1: the trie does not treat the empty string "" as a key.
 * trie_insert()/trie_lookup() consume the terminating NUL as if it were a key
 * character and go on reading the bytes BEHIND the terminator, so which entry
 * "" denotes depends on memory that is not part of the key.
 *
 * The two key buffers below both hold the C string "" (first byte is NUL);
 * they only differ in the bytes that follow the terminator.
 *
 * usage: demo <impl 0=hashtable 1=skiplist 2=trie>
 * exit 0 = behaved like a dictionary, 1 = violated
 */
#include <stdio.h>
#include <stdlib.h>
#include <string.h>
#include <qb/qbdefs.h>
#include <qb/qbmap.h>

int main(int argc, char **argv)
{
	int impl = argc > 1 ? atoi(argv[1]) : 2;
	static const char *names[] = { "hashtable", "skiplist", "trie" };
	char k1[8] = { 0, 'A', 'A', 'A', 0, 0, 0, 0 };	/* "" */
	char k2[8] = { 0, 'B', 'B', 'B', 0, 0, 0, 0 };	/* "" as well */
	char v1[] = "v1", v2[] = "v2";
	qb_map_t *m;
	qb_map_iter_t *it;
	const char *k;
	void *v;
	int bad = 0, n;

	m = impl == 0 ? qb_hashtable_create(16) : impl == 1 ? qb_skiplist_create() : qb_trie_create();
	printf("== %s\n", names[impl]);

	qb_map_put(m, k1, v1);			/* put("", v1) */
	v = qb_map_get(m, k2);			/* get("") */
	printf("put(\"\",v1); get(\"\") = %s (want v1)\n", v ? (char *)v : "NULL");
	if (v != v1) bad = 1;

	qb_map_put(m, k2, v2);			/* put("", v2): a replacement */
	printf("put(\"\",v2); count = %zu (want 1)\n", qb_map_count_get(m));
	if (qb_map_count_get(m) != 1) bad = 1;
	v = qb_map_get(m, k1);
	printf("get(\"\") = %s (want v2)\n", v ? (char *)v : "NULL");
	if (v != v2) bad = 1;

	n = 0;
	it = qb_map_iter_create(m);
	while ((k = qb_map_iter_next(it, &v)) != NULL) {
		printf("  iter: key \"%s\" value %s\n", k, (char *)v);
		n++;
	}
	qb_map_iter_free(it);
	printf("iteration yielded %d entries (want 1)\n", n);
	if (n != 1) bad = 1;

	n = qb_map_rm(m, k1);			/* rm("") */
	printf("rm(\"\") = %d (want 1); count = %zu (want 0)\n", n, qb_map_count_get(m));
	if (n != QB_TRUE || qb_map_count_get(m) != 0) bad = 1;
	n = qb_map_rm(m, k2);			/* rm("") again */
	printf("rm(\"\") = %d (want 0); count = %zu (want 0)\n", n, qb_map_count_get(m));
	if (n != QB_FALSE || qb_map_count_get(m) != 0) bad = 1;

	if (impl == 2) {
		/* the empty prefix: every key has it */
		char p[8] = { 0, 'Z', 0 };
		qb_map_put(m, "abc", v1);
		it = qb_map_pref_iter_create(m, p);
		n = 0;
		while ((k = qb_map_iter_next(it, &v)) != NULL) n++;
		qb_map_iter_free(it);
		printf("prefix iterator \"\" over {\"abc\"} yielded %d (want 1)\n", n);
		if (n != 1) bad = 1;
	}
	qb_map_destroy(m);
	printf("%s: %s\n", names[impl], bad ? "VIOLATED" : "held");
	return bad;
}
