#!/bin/sh
# usage: demo.sh <tree>; exit 0 = property held, 1 = violated
T=${1:-/repo}
D=$(cd "$(dirname "$0")" && pwd)
gcc -g -O0 -DHAVE_CONFIG_H -I$T/include -I$T/include/qb -I$T/lib -o $D/demo $D/demo.c \
  $T/lib/map.c $T/lib/hashtable.c $T/lib/skiplist.c $T/lib/trie.c -L$T/lib/.libs -lqb || exit 2
export LD_LIBRARY_PATH=$T/lib/.libs
rc=0
for impl in 0 1 2; do $D/demo $impl || rc=1; done
# optional: the out-of-bounds read itself, with an exactly sized heap key
if [ -n "$DEMO_ASAN" ]; then
cat > $D/asan.c <<'EOC'
#include <stdlib.h>
#include <qb/qbmap.h>
int main(void){ char *k = calloc(1,1); qb_map_t *m = qb_trie_create(); qb_map_put(m, k, "v"); return 0; }
EOC
gcc -g -fsanitize=address -DHAVE_CONFIG_H -I$T/include -I$T/include/qb -I$T/lib -o $D/asan $D/asan.c \
  $T/lib/map.c $T/lib/hashtable.c $T/lib/skiplist.c $T/lib/trie.c -L$T/lib/.libs -lqb && ASAN_OPTIONS=detect_leaks=0 $D/asan 2>&1 | head -8
fi
exit $rc
