/*
 * Model-based randomized tester for libqb maps (hashtable, skiplist, trie).
 * Property C17: dictionary behaviour + notifiers fire exactly once.
 *
 * usage: fuzz <impl:0=hash,1=skip,2=trie> <seed> <nops> <keymode> [flags]
 *   flags (letters): S strict (no deferred-delete modelling)
 *                    E free the key memory right after a successful rm
 *                    M allow notifier add/del while a deletion is pending
 *                    Z include the empty key
 *                    v verbose trace
 */
#include <stdio.h>
#include <stdlib.h>
#include <string.h>
#include <stdint.h>
#include <errno.h>
#include <stdarg.h>
#include <qb/qbdefs.h>
#include <qb/qbmap.h>

enum { HT, SL, TR };
static int impl;
static int strict, earlyfree, mutnotif, withempty, verbose, ignorenotif;

#define NU_MAX 128
static int NU;
struct uk {
	char *s;
	int present;
	long *val;
	char *held;
};
static struct uk U[NU_MAX];

#define NN 10
struct notif {
	int id;
	int key;		/* -1 global */
	int events;
	int active;
};
static struct notif N[NN];

struct ev {
	int nid;		/* -1: model releases the value itself */
	uint32_t event;
	const char *key;
	void *old;
	void *new;
};
#define EVMAX 8192
static struct ev act[EVMAX], expv[EVMAX];
static int nact, nexp;

#define NIT 4			/* slot 3 is for foreach */
struct it {
	qb_map_iter_t *i;
	int live;
	char *pfx;
	int last;
	int pos_live;
	int pend;
	int done;
	unsigned char stable[NU_MAX], returned[NU_MAX];
};
static struct it IT[NIT];

#define NP 16
struct pend {
	int used;
	int k;
	int holders;
	char *keyptr;
	struct ev evs[NN + 4];
	int nev;
};
static struct pend P[NP];

static char *latefree[64];
static int nlatefree;
static qb_map_t *m;
static long serial;
#define SERMAX 4000000
static unsigned char *serstate;	/* 1 in map, 2 released */
static long nops_done;

/* trace */
#define TRMAX 400
static char trace[TRMAX][200];
static long trn;
static void tr(const char *fmt, ...)
{
	va_list ap;
	va_start(ap, fmt);
	vsnprintf(trace[trn % TRMAX], sizeof(trace[0]), fmt, ap);
	va_end(ap);
	if (verbose)
		printf("%ld: %s\n", trn, trace[trn % TRMAX]);
	trn++;
}

static void keyprint(const char *s)
{
	const unsigned char *p = (const unsigned char *)s;
	if (strlen(s) > 40) {
		printf("<len %zu ..%s>", strlen(s), s + strlen(s) - 6);
		return;
	}
	putchar('"');
	for (; *p; p++) {
		if (*p >= 0x20 && *p < 0x7f)
			putchar(*p);
		else
			printf("\\x%02x", *p);
	}
	putchar('"');
}

static void fail(const char *fmt, ...)
{
	va_list ap;
	long i, from;
	printf("\n*** VIOLATION (impl %d, op %ld): ", impl, nops_done);
	va_start(ap, fmt);
	vprintf(fmt, ap);
	va_end(ap);
	printf("\n--- universe:\n");
	for (i = 0; i < NU; i++) {
		printf("  k%ld=", i);
		keyprint(U[i].s);
		printf("%s\n", U[i].present ? " (present)" : "");
	}
	printf("--- trace (last ops):\n");
	from = trn > TRMAX ? trn - TRMAX : 0;
	for (i = from; i < trn; i++)
		printf("  %ld: %s\n", i, trace[i % TRMAX]);
	fflush(stdout);
	exit(1);
}

static int ucmp(const char *a, const char *b)
{
	return strcmp(a, b);	/* strcmp compares as unsigned char */
}

static int is_prefix(const char *p, const char *s)
{
	return strncmp(p, s, strlen(p)) == 0;
}

static int kfind(const char *s)
{
	int i;
	for (i = 0; i < NU; i++)
		if (strcmp(U[i].s, s) == 0)
			return i;
	return -1;
}

/* ---------------- notifier callback ---------------- */
static int in_cb_reenter;
static void cb(uint32_t event, char *key, void *old, void *new, void *ud)
{
	struct notif *n = ud;
	if (nact >= EVMAX)
		fail("too many events");
	act[nact].nid = n->id;
	act[nact].event = event;
	act[nact].key = key;
	act[nact].old = old;
	act[nact].new = new;
	nact++;
	if (event == QB_MAP_NOTIFY_FREE) {
		long *v = old;
		if (v == NULL)
			fail("FREE with NULL old value");
		if (ignorenotif)
			return;	/* values are never freed in this mode */
		if (*v < 0 || *v >= SERMAX || serstate[*v] != 1)
			fail("FREE of a value not in the map (serial %ld state %d)",
			     *v, serstate[*v]);
		serstate[*v] = 2;
		free(v);
	} else {
		/* touch the values: they must still be valid here */
		if (old) {
			volatile long x = *(long *)old;
			(void)x;
		}
		if (new) {
			volatile long x = *(long *)new;
			(void)x;
		}
	}
}

static int free_notif_active(void)
{
	int i;
	for (i = 0; i < NN; i++)
		if (N[i].active && (N[i].events & QB_MAP_NOTIFY_FREE))
			return 1;
	return 0;
}

static void ev_add(struct ev *out, int *nout, int nid, uint32_t event,
		   const char *key, void *old, void *new)
{
	out[*nout].nid = nid;
	out[*nout].event = event;
	out[*nout].key = key;
	out[*nout].old = old;
	out[*nout].new = new;
	(*nout)++;
}

static void expect_event(uint32_t event, int k, const char *keyptr, void *old,
			 void *new, struct ev *out, int *nout)
{
	int i;
	int releases = (event & (QB_MAP_NOTIFY_DELETED | QB_MAP_NOTIFY_REPLACED));
	for (i = 0; i < NN; i++) {
		struct notif *n = &N[i];
		int match;
		if (!n->active)
			continue;
		if (impl != TR) {
			match = (n->key == -1 || n->key == k);
		} else {
			if (n->key == -1)
				match = (n->events & QB_MAP_NOTIFY_RECURSIVE);
			else if (n->key == k)
				match = 1;
			else
				match = (n->events & QB_MAP_NOTIFY_RECURSIVE) &&
				    is_prefix(U[n->key].s, U[k].s);
		}
		if (match && (n->events & event))
			ev_add(out, nout, n->id, event, keyptr, old, new);
		if (releases && (n->events & QB_MAP_NOTIFY_FREE))
			ev_add(out, nout, n->id, QB_MAP_NOTIFY_FREE, keyptr, old, new);
	}
	if (releases && !free_notif_active())
		ev_add(out, nout, -1, 0, keyptr, old, new);
}

static int evcmp(const void *a, const void *b)
{
	const struct ev *x = a, *y = b;
	if (x->nid != y->nid) return x->nid < y->nid ? -1 : 1;
	if (x->event != y->event) return x->event < y->event ? -1 : 1;
	if (x->key != y->key) return (uintptr_t)x->key < (uintptr_t)y->key ? -1 : 1;
	if (x->old != y->old) return (uintptr_t)x->old < (uintptr_t)y->old ? -1 : 1;
	if (x->new != y->new) return (uintptr_t)x->new < (uintptr_t)y->new ? -1 : 1;
	return 0;
}

static void dump_evs(const char *t, struct ev *e, int n)
{
	int i;
	printf("%s (%d):\n", t, n);
	for (i = 0; i < n; i++)
		printf("   notif %d event %u key %p old %p new %p\n", e[i].nid,
		       e[i].event, (void *)e[i].key, e[i].old, e[i].new);
}

static void verify_events(const char *what)
{
	static struct ev e2[EVMAX];
	int n2 = 0, i;
	/* split off the model releases */
	for (i = 0; i < nexp; i++) {
		if (expv[i].nid == -1) {
			long *v = expv[i].old;
			if (ignorenotif)
				continue;
			if (serstate[*v] != 1)
				fail("model: double release");
			serstate[*v] = 2;
			free(v);
		} else {
			e2[n2++] = expv[i];
		}
	}
	qsort(e2, n2, sizeof(e2[0]), evcmp);
	qsort(act, nact, sizeof(act[0]), evcmp);
	if (ignorenotif) {
		/* values the map released through a FREE notifier that the model did not expect stay allocated: fine */
	} else if (n2 != nact || memcmp(e2, act, sizeof(struct ev) * n2) != 0) {
		/* memcmp on structs with padding: compare fieldwise */
		int bad = (n2 != nact);
		for (i = 0; !bad && i < n2; i++)
			if (evcmp(&e2[i], &act[i]) != 0)
				bad = 1;
		if (bad) {
			dump_evs("expected notifications", e2, n2);
			dump_evs("actual notifications", act, nact);
			fail("notification mismatch after %s", what);
		}
	}
	nexp = 0;
	nact = 0;
	while (nlatefree > 0)
		free(latefree[--nlatefree]);
}

static int npending(void)
{
	int i, c = 0;
	for (i = 0; i < NP; i++)
		c += P[i].used;
	return c;
}

static void pend_flush(int id)
{
	int j;
	struct pend *p = &P[id];
	for (j = 0; j < p->nev; j++)
		expv[nexp++] = p->evs[j];
	if (!earlyfree)
		latefree[nlatefree++] = p->keyptr;
	p->used = 0;
}

static void it_leave(struct it *t)
{
	if (t->pend >= 0) {
		struct pend *p = &P[t->pend];
		p->holders--;
		if (p->holders == 0)
			pend_flush(t->pend);
		t->pend = -1;
	}
	t->pos_live = 0;
}

static long *newval(void)
{
	long *v = malloc(sizeof(long));
	if (serial >= SERMAX)
		fail("serial overflow");
	*v = serial;
	serstate[serial] = 1;
	serial++;
	return v;
}

static void check_count(void)
{
	int i;
	size_t c = 0;
	for (i = 0; i < NU; i++)
		c += U[i].present;
	if (qb_map_count_get(m) != c)
		fail("count_get %zu, model %zu", qb_map_count_get(m), c);
}

static void do_put(int k)
{
	char *nk = strdup(U[k].s);
	long *v = newval();
	int i, j;
	tr("put k%d v=%ld%s", k, *v, U[k].present ? " (replace)" : "");
	if (U[k].present) {
		expect_event(QB_MAP_NOTIFY_REPLACED, k, U[k].held, U[k].val, v, expv, &nexp);
		qb_map_put(m, nk, v);
		/* old key string is released by the application after the put */
		free(U[k].held);
	} else {
		if (impl == TR) {
			/* a removed node kept for iterators is revived */
			for (i = 0; i < NP; i++) {
				if (P[i].used && P[i].k == k) {
					for (j = 0; j < NIT; j++) {
						if (IT[j].live && IT[j].pend == i) {
							IT[j].pend = -1;
							IT[j].pos_live = 1;
						}
					}
					pend_flush(i);
				}
			}
		}
		expect_event(QB_MAP_NOTIFY_INSERTED, k, nk, NULL, v, expv, &nexp);
		qb_map_put(m, nk, v);
	}
	U[k].present = 1;
	U[k].held = nk;
	U[k].val = v;
}

static void do_get(int k)
{
	void *v;
	tr("get k%d", k);
	v = qb_map_get(m, U[k].s);
	if (U[k].present) {
		if (v != U[k].val)
			fail("get k%d returned %p, model %p", k, v, (void *)U[k].val);
	} else if (v != NULL) {
		fail("get of absent k%d returned %p", k, v);
	}
}

static void do_rm(int k)
{
	int r, i, holders = 0;
	struct ev evs[NN + 4];
	int nev = 0;
	char *lookup = strdup(U[k].s);
	tr("rm k%d%s", k, U[k].present ? "" : " (absent)");
	if (U[k].present) {
		expect_event(QB_MAP_NOTIFY_DELETED, k, U[k].held, U[k].val, NULL, evs, &nev);
		for (i = 0; i < NIT; i++)
			if (IT[i].live && !IT[i].done && IT[i].pos_live && IT[i].last == k)
				holders++;
		if (holders > 0 && !strict) {
			int id;
			for (id = 0; id < NP && P[id].used; id++) ;
			if (id == NP)
				fail("internal: out of pending slots");
			P[id].used = 1;
			P[id].k = k;
			P[id].holders = holders;
			P[id].keyptr = U[k].held;
			memcpy(P[id].evs, evs, sizeof(evs));
			P[id].nev = nev;
			for (i = 0; i < NIT; i++)
				if (IT[i].live && !IT[i].done && IT[i].pos_live && IT[i].last == k) {
					IT[i].pos_live = 0;
					IT[i].pend = id;
				}
			tr("   (deferred: %d iterator(s) on k%d)", holders, k);
		} else {
			for (i = 0; i < nev; i++)
				expv[nexp++] = evs[i];
			holders = 0;
		}
	}
	r = qb_map_rm(m, lookup);
	free(lookup);
	if (U[k].present) {
		if (r != QB_TRUE)
			fail("rm of present k%d returned %d", k, r);
		U[k].present = 0;
		if (earlyfree || holders == 0)
			free(U[k].held);
		U[k].held = NULL;
		U[k].val = NULL;
		for (i = 0; i < NIT; i++) {
			IT[i].stable[k] = 0;
			IT[i].returned[k] = 0;
		}
		if (impl != TR) {
			/* per-key notifiers live on the entry */
			for (i = 0; i < NN; i++)
				if (N[i].active && N[i].key == k)
					N[i].active = 0;
		}
		if (qb_map_get(m, U[k].s) != NULL)
			fail("key k%d still there after rm", k);
	} else if (r != QB_FALSE) {
		fail("rm of absent k%d returned %d", k, r);
	}
}

/* ---------------- iterators ---------------- */
static void it_init(struct it *t, char *pfx)
{
	int i;
	memset(t, 0, sizeof(*t));
	t->live = 1;
	t->pfx = pfx;
	t->last = -1;
	t->pend = -1;
	for (i = 0; i < NU; i++)
		t->stable[i] = U[i].present;
}

static void it_returned(struct it *t, const char *key, void *value)
{
	int k;
	if (key == NULL) {
		for (k = 0; k < NU; k++) {
			if (t->stable[k] && !t->returned[k] &&
			    (t->pfx == NULL || is_prefix(t->pfx, U[k].s)))
				fail("iteration ended without yielding k%d", k);
		}
		t->done = 1;
		return;
	}
	k = kfind(key);
	if (k < 0)
		fail("iterator returned unknown key");
	if (!U[k].present)
		fail("iterator returned absent key k%d", k);
	if (key != U[k].held)
		fail("iterator returned a stale key pointer for k%d", k);
	if (value != U[k].val)
		fail("iterator returned wrong value for k%d", k);
	if (t->returned[k])
		fail("iterator returned k%d twice", k);
	if (t->pfx && !is_prefix(t->pfx, key))
		fail("prefix iterator returned k%d not matching prefix", k);
	if (impl != HT && t->last >= 0 && k <= t->last)
		fail("iterator not ascending: k%d after k%d", k, t->last);
	t->returned[k] = 1;
	t->last = k;
	t->pos_live = 1;
}

static void do_iter_create(int slot, int r)
{
	struct it *t = &IT[slot];
	char *pfx = NULL;
	if (impl == TR && (r & 1)) {
		int k = (r >> 1) % NU;
		size_t l = strlen(U[k].s);
		size_t pl;
		if (l == 0) {
			pl = 0;
		} else {
			pl = 1 + (r >> 9) % l;
		}
		if (pl > 0 || withempty) {
			pfx = strndup(U[k].s, pl);
			if (pl > 0 && ((r >> 18) & 3) == 0)
				pfx[pl - 1] ^= ((r >> 20) & 1) ? 0x80 : 0x03;
			if (pfx[pl ? pl - 1 : 0] == 0 && pl > 0)
				pfx[pl - 1] = 'q';
		}
	}
	it_init(t, pfx);
	if (pfx) {
		tr("iter%d create prefix len %zu (exact key k%d)", slot, strlen(pfx), kfind(pfx));
		t->i = qb_map_pref_iter_create(m, pfx);
	} else {
		tr("iter%d create", slot);
		t->i = qb_map_iter_create(m);
	}
	if (t->i == NULL)
		fail("iter_create NULL");
}

static void do_iter_next(int slot)
{
	struct it *t = &IT[slot];
	const char *key;
	void *value = (void *)0x1;
	it_leave(t);
	key = qb_map_iter_next(t->i, &value);
	tr("iter%d next -> %s%d", slot, key ? "k" : "end", key ? kfind(key) : 0);
	it_returned(t, key, value);
}

static void do_iter_free(int slot)
{
	struct it *t = &IT[slot];
	tr("iter%d free", slot);
	it_leave(t);
	qb_map_iter_free(t->i);
	free(t->pfx);
	t->live = 0;
}

struct fe_ctx {
	int stop_after;
	int seen;
	int rm_visited;
	unsigned rnd;
};

static int fe_cb(const char *key, void *value, void *ud)
{
	struct fe_ctx *c = ud;
	struct it *t = &IT[3];
	it_leave(t);
	it_returned(t, key, value);
	c->seen++;
	if (c->rm_visited && (c->rnd >> (c->seen & 15) & 1)) {
		do_rm(kfind(key));
	}
	if (c->stop_after && c->seen >= c->stop_after) {
		return 1;
	}
	return 0;
}

static void do_foreach(int stop_after, int rm_visited, unsigned rnd)
{
	struct fe_ctx c = { stop_after, 0, rm_visited, rnd };
	struct it *t = &IT[3];
	tr("foreach stop_after=%d rm_visited=%d", stop_after, rm_visited);
	it_init(t, NULL);
	qb_map_foreach(m, fe_cb, &c);
	/* the internal iterator has been freed */
	it_leave(t);
	if (!(stop_after && c.seen >= stop_after)) {
		it_returned(t, NULL, NULL);
	}
	t->live = 0;
}

/* ---------------- notifier ops ---------------- */
static void do_notif_add(int slot, int r)
{
	struct notif *n = &N[slot];
	int key = -1, events, rc, expect;
	static const int evchoices[] = {
		QB_MAP_NOTIFY_DELETED, QB_MAP_NOTIFY_REPLACED, QB_MAP_NOTIFY_INSERTED,
		QB_MAP_NOTIFY_DELETED | QB_MAP_NOTIFY_REPLACED | QB_MAP_NOTIFY_INSERTED,
		QB_MAP_NOTIFY_DELETED | QB_MAP_NOTIFY_INSERTED,
		QB_MAP_NOTIFY_REPLACED | QB_MAP_NOTIFY_INSERTED,
	};
	events = evchoices[(r >> 8) % 6];
	if (impl == TR && (r & 2))
		events |= QB_MAP_NOTIFY_RECURSIVE;
	if (r & 1)
		key = (r >> 12) % NU;
	if (((r >> 4) & 7) == 0 && !free_notif_active()) {
		events = QB_MAP_NOTIFY_FREE;
		key = -1;
	}
	if (key >= 0 && U[key].s[0] == '\0')
		key = -1;
	n->id = slot;
	n->key = key;
	n->events = events;
	rc = qb_map_notify_add(m, key >= 0 ? U[key].s : NULL, cb, events, n);
	tr("notify_add n%d key k%d events %d -> %d", slot, key, events, rc);
	expect = 0;
	if (impl != TR && key >= 0 && !U[key].present)
		expect = (impl == HT) ? -ENOENT : -EINVAL;
	if (rc != expect)
		fail("notify_add returned %d, expected %d", rc, expect);
	if (rc == 0)
		n->active = 1;
}

static void do_notif_del(int slot)
{
	struct notif *n = &N[slot];
	int rc;
	rc = qb_map_notify_del_2(m, n->key >= 0 ? U[n->key].s : NULL, cb, n->events, n);
	tr("notify_del n%d -> %d", slot, rc);
	if (rc != 0)
		fail("notify_del_2 of a registered notifier returned %d", rc);
	n->active = 0;
	/* deleting again must fail */
	rc = qb_map_notify_del_2(m, n->key >= 0 ? U[n->key].s : NULL, cb, n->events, n);
	if (rc == 0)
		fail("second notify_del_2 succeeded");
}

/* ---------------- key universes ---------------- */
static unsigned rnd_state;
static unsigned rnd(void)
{
	rnd_state = rnd_state * 1103515245u + 12345u;
	return (rnd_state >> 8) & 0xffffff;
}

static int uksort(const void *a, const void *b)
{
	return ucmp(((const struct uk *)a)->s, ((const struct uk *)b)->s);
}

static void add_key(const char *s)
{
	if (NU >= NU_MAX)
		return;
	if (s[0] == '\0' && !withempty)
		return;
	if (kfind(s) >= 0)
		return;
	U[NU].s = strdup(s);
	NU++;
}

static void gen_universe(int mode, int want)
{
	char buf[2048];
	int i, j, tries = 0;
	NU = 0;
	if (withempty)
		add_key("");
	while (NU < want && tries++ < 10000) {
		int len;
		switch (mode) {
		case 0:	/* tiny alphabet, short */
			len = 1 + rnd() % 6;
			for (j = 0; j < len; j++)
				buf[j] = "ab"[rnd() % 2];
			buf[len] = 0;
			break;
		case 1:	/* chain: every key a prefix of the next */
			len = NU + 1;
			for (j = 0; j < len; j++)
				buf[j] = "abc"[(j * 7 + j / 3) % 3];
			buf[len] = 0;
			break;
		case 2:	/* boundary bytes */
			len = 1 + rnd() % 4;
			for (j = 0; j < len; j++)
				buf[j] = "\x01\x7f\x80\xff\x81\x7e" "a\xfe"[rnd() % 8];
			buf[len] = 0;
			break;
		case 3:	/* long keys with long shared prefixes */
			len = 100 + rnd() % 900;
			for (j = 0; j < len; j++)
				buf[j] = 'a' + (j % 3);
			/* diverge near the end */
			for (j = len - 1 - (int)(rnd() % 3); j < len; j++)
				buf[j] = "xyz\x90"[rnd() % 4];
			buf[len] = 0;
			if (rnd() % 3 == 0)
				buf[50 + rnd() % 50] = 0;
			break;
		case 4:	/* single characters, all byte values */
			buf[0] = 1 + rnd() % 255;
			buf[1] = 0;
			if (rnd() % 4 == 0) {
				buf[1] = 1 + rnd() % 255;
				buf[2] = 0;
			}
			break;
		case 5:	/* corosync-like dotted names */
			{
				static const char *w[] = { "totem", "nodelist", "node", "0", "1", "ring0_addr", "quorum", "a", "runtime" };
				int parts = 1 + rnd() % 4;
				buf[0] = 0;
				for (j = 0; j < parts; j++) {
					if (j)
						strcat(buf, ".");
					strcat(buf, w[rnd() % 9]);
				}
			}
			break;
		default:	/* mixed */
			len = 1 + rnd() % 10;
			for (j = 0; j < len; j++)
				buf[j] = "abcd\x80\xc3\xa9z"[rnd() % 8];
			buf[len] = 0;
			break;
		}
		add_key(buf);
	}
	qsort(U, NU, sizeof(U[0]), uksort);
	(void)i;
}

/* ---------------- main loop ---------------- */
static void run(int mode, long nops, int want, int htsize)
{
	long op;
	int i;

	gen_universe(mode, want);
	switch (impl) {
	case HT: m = qb_hashtable_create(htsize); break;
	case SL: m = qb_skiplist_create(); break;
	default: m = qb_trie_create(); break;
	}
	memset(N, 0, sizeof(N));
	memset(IT, 0, sizeof(IT));
	memset(P, 0, sizeof(P));
	nexp = nact = 0;

	for (op = 0; op < nops; op++) {
		unsigned r = rnd();
		unsigned w = r % 100;
		int k = (rnd()) % NU;
		nops_done++;
		if (w < 30) {
			do_put(k);
		} else if (w < 45) {
			do_get(k);
		} else if (w < 65) {
			do_rm(k);
		} else if (w < 85) {
			int slot = rnd() % 3;
			struct it *t = &IT[slot];
			if (!t->live) {
				do_iter_create(slot, rnd());
			} else if (t->done || rnd() % 12 == 0) {
				do_iter_free(slot);
			} else {
				do_iter_next(slot);
			}
		} else if (w < 90) {
			do_foreach(rnd() % 3 == 0 ? 1 + rnd() % 4 : 0, rnd() % 2, rnd());
		} else if (w < 97) {
			int slot = rnd() % NN;
			if (npending() && !mutnotif)
				continue;
			if (N[slot].active) {
				do_notif_del(slot);
			} else {
				do_notif_add(slot, rnd());
			}
		} else {
			/* run all iterators to the end */
			for (i = 0; i < 3; i++) {
				if (IT[i].live) {
					while (!IT[i].done)
						do_iter_next(i);
					do_iter_free(i);
				}
			}
			if (npending())
				fail("internal: pending deletions without iterators");
		}
		verify_events("operation");
		check_count();
	}
	for (i = 0; i < 3; i++)
		if (IT[i].live)
			do_iter_free(i);
	verify_events("iterator free");
	if (npending())
		fail("internal: pending at end");
	/* destroy: every remaining entry is deleted and released once */
	tr("destroy");
	for (i = 0; i < NU; i++) {
		if (U[i].present)
			expect_event(QB_MAP_NOTIFY_DELETED, i, U[i].held, U[i].val, NULL, expv, &nexp);
	}
	qb_map_destroy(m);
	verify_events("destroy");
	for (i = 0; i < NU; i++) {
		if (U[i].present) {
			free(U[i].held);
			U[i].present = 0;
		}
		free(U[i].s);
	}
	for (i = 0; i < serial; i++)
		if (serstate[i] == 1)
			if (!ignorenotif) fail("value serial %d never released", i);
}

int main(int argc, char **argv)
{
	long nops;
	int mode, rounds, r;
	unsigned seed;
	const char *f;
	if (argc < 5) {
		fprintf(stderr, "usage: %s impl seed nops keymode [flags]\n", argv[0]);
		return 2;
	}
	impl = atoi(argv[1]);
	seed = atoi(argv[2]);
	nops = atol(argv[3]);
	mode = atoi(argv[4]);
	f = argc > 5 ? argv[5] : "";
	strict = strchr(f, 'S') != NULL;
	earlyfree = strchr(f, 'E') != NULL;
	mutnotif = strchr(f, 'M') != NULL;
	withempty = strchr(f, 'Z') != NULL;
	verbose = strchr(f, 'v') != NULL;
	ignorenotif = strchr(f, 'I') != NULL;
	setvbuf(stdout, NULL, _IOLBF, 0);
	serstate = calloc(SERMAX, 1);
	rnd_state = seed * 2654435761u + 17;
	rounds = 20;
	for (r = 0; r < rounds; r++) {
		static const int wants[] = { 1, 2, 3, 5, 8, 16, 33, 64, 100, 128 };
		static const int hts[] = { 0, 1, 7, 8, 9, 64, 1000 };
		int want = wants[rnd() % 10];
		int hs = hts[rnd() % 7];
		serial = 0;
		memset(serstate, 0, SERMAX);
		trn = 0;
		tr("--- round %d: mode %d want %d htsize %d", r, mode, want, hs);
		run(mode, nops / rounds, want, hs);
	}
	printf("OK impl %d seed %u ops %ld mode %d flags '%s'\n", impl, seed, nops_done, mode, f);
	return 0;
}
