/* scale test: many keys, sorted iteration, count, remove while iterating */
#include <stdio.h>
#include <stdlib.h>
#include <string.h>
#include <qb/qbdefs.h>
#include <qb/qbmap.h>
static int cmp(const void *a, const void *b) { return strcmp(*(char *const *)a, *(char *const *)b); }
static long freed;
static void fr(uint32_t ev, char *k, void *o, void *n, void *ud) { freed++; }
int main(int argc, char **argv)
{
	int impl = atoi(argv[1]);
	int n = atoi(argv[2]);
	int i, j, bad = 0;
	char **keys = calloc(n, sizeof(char *));
	qb_map_t *m = impl == 0 ? qb_hashtable_create(atoi(argv[3])) : impl == 1 ? qb_skiplist_create() : qb_trie_create();
	qb_map_iter_t *it;
	const char *k;
	void *v;
	srandom(7);
	qb_map_notify_add(m, NULL, fr, QB_MAP_NOTIFY_FREE, NULL);
	for (i = 0; i < n; i++) {
		char buf[64];
		int len = 1 + random() % 12;
		for (j = 0; j < len; j++) buf[j] = 1 + random() % 255;
		buf[len] = 0;
		keys[i] = strdup(buf);
	}
	qsort(keys, n, sizeof(char *), cmp);
	/* dedupe */
	for (i = 1, j = 0; i < n; i++) if (strcmp(keys[i], keys[j]) != 0) keys[++j] = keys[i];
	n = j + 1;
	/* insert in a scrambled order */
	for (i = 0; i < n; i++) { int x = (int)(((long)i * 7919) % n); qb_map_put(m, keys[x], keys[x]); }
	/* 7919 may not be coprime to n: insert the rest */
	for (i = 0; i < n; i++) if (qb_map_get(m, keys[i]) == NULL) qb_map_put(m, keys[i], keys[i]);
	if (qb_map_count_get(m) != (size_t)n) { printf("count %zu != %d\n", qb_map_count_get(m), n); bad = 1; }
	for (i = 0; i < n; i++) if (qb_map_get(m, keys[i]) != keys[i]) { printf("get mismatch %d\n", i); bad = 1; break; }
	it = qb_map_iter_create(m);
	i = 0;
	while ((k = qb_map_iter_next(it, &v)) != NULL) {
		if (impl != 0 && k != keys[i]) { printf("order mismatch at %d\n", i); bad = 1; break; }
		if (v != k) { printf("value mismatch at %d\n", i); bad = 1; break; }
		i++;
		/* remove every other visited key, and the one after it */
		if ((i & 1) && !qb_map_rm(m, k)) { printf("rm failed\n"); bad = 1; }
	}
	qb_map_iter_free(it);
	if (i != n) { printf("iterated %d of %d\n", i, n); bad = 1; }
	if (qb_map_count_get(m) != (size_t)(n / 2)) { printf("count after rm %zu != %d\n", qb_map_count_get(m), n / 2); bad = 1; }
	it = qb_map_iter_create(m);
	i = 0;
	while ((k = qb_map_iter_next(it, &v)) != NULL) {
		if (impl != 0 && k != keys[2 * i + 1]) { printf("order2 mismatch at %d\n", i); bad = 1; break; }
		i++;
	}
	qb_map_iter_free(it);
	if (i != n / 2) { printf("iterated2 %d of %d\n", i, n / 2); bad = 1; }
	qb_map_destroy(m);
	if (freed != n) { printf("freed %ld != %d\n", freed, n); bad = 1; }
	printf("impl %d n %d %s\n", impl, n, bad ? "BAD" : "ok");
	return bad;
}
