#include <stdio.h>
#include <stdlib.h>
#include <string.h>
#include <qb/qbdefs.h>
#include <qb/qbmap.h>
static qb_map_t *m;
static int calls;
static int mode, selfev = QB_MAP_NOTIFY_DELETED;
static void selfdel(uint32_t ev, char *k, void *o, void *n, void *ud)
{
	calls++;
	printf("  cb ev=%u key=%s ud=%s\n", ev, k, (char*)ud);
	if (mode == 1) printf("   self del rc %d\n", qb_map_notify_del_2(m, NULL, selfdel, selfev, ud));
	if (mode == 2) { qb_map_get(m, "x"); qb_map_put(m, "other", "ov"); qb_map_rm(m, "x"); }
}
static void plain(uint32_t ev, char *k, void *o, void *n, void *ud)
{
	calls++;
	printf("  plain ev=%u key=%s old=%s new=%s ud=%s\n", ev, k, o?(char*)o:"-", n?(char*)n:"-", (char*)ud);
}
int main(int argc, char **argv)
{
	int impl = atoi(argv[1]);
	int t = atoi(argv[2]);
	int ev = QB_MAP_NOTIFY_DELETED | (impl == 2 ? QB_MAP_NOTIFY_RECURSIVE : 0);
	if (t == 1) { /* huge hashtable size */
		m = qb_hashtable_create((size_t)atol(argv[3]));
		printf("created %p\n", (void*)m);
		if (m) { qb_map_put(m, "a", "1"); printf("%s\n", (char*)qb_map_get(m, "a")); qb_map_destroy(m);} 
		return 0;
	}
	m = impl == 0 ? qb_hashtable_create(16) : impl == 1 ? qb_skiplist_create() : qb_trie_create();
	if (t == 2) { /* self-deleting notifier */
		mode = 1;
		if (impl == 2) { selfev |= QB_MAP_NOTIFY_RECURSIVE; qb_map_notify_add(m, NULL, selfdel, selfev, "A"); }
		else qb_map_notify_add(m, NULL, selfdel, QB_MAP_NOTIFY_DELETED, "A");
		qb_map_notify_add(m, NULL, plain, ev, "B");
		qb_map_put(m, "k1", "v1");
		qb_map_put(m, "k2", "v2");
		qb_map_rm(m, "k1");
		qb_map_rm(m, "k2");
		printf("calls %d\n", calls);
	}
	if (t == 3) { /* callback uses the map */
		mode = 2;
		qb_map_notify_add(m, NULL, selfdel, ev, "A");
		qb_map_put(m, "k1", "v1");
		qb_map_put(m, "x", "vx");
		qb_map_rm(m, "k1");
		printf("calls %d count %zu other=%s x=%s\n", calls, qb_map_count_get(m), (char*)qb_map_get(m, "other"), (char*)qb_map_get(m,"x"));
	}
	if (t == 4) { /* notify_del without userdata removes all matching */
		int rc;
		qb_map_notify_add(m, NULL, plain, ev, "A");
		qb_map_notify_add(m, NULL, plain, ev, "B");
		qb_map_notify_add(m, NULL, plain, ev | QB_MAP_NOTIFY_REPLACED, "C");
		qb_map_put(m, "k1", "v1");
		rc = qb_map_notify_del(m, NULL, plain, ev);
		printf("del rc %d\n", rc);
		qb_map_put(m, "k1", "v1b");
		qb_map_rm(m, "k1");
		printf("calls %d (expect 2: C replaced + C deleted)\n", calls);
	}
	qb_map_destroy(m);
	return 0;
}
