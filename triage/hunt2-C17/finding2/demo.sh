#!/bin/sh
# usage: demo.sh <tree>; exit 0 = property held, 1 = violated
T=${1:-/repo}
D=$(cd "$(dirname "$0")" && pwd)
gcc -g -O0 -fsanitize=address,undefined -DHAVE_CONFIG_H -I$T/include -I$T/include/qb -I$T/lib -o $D/demo $D/demo.c \
  $T/lib/map.c $T/lib/hashtable.c $T/lib/skiplist.c $T/lib/trie.c -L$T/lib/.libs -lqb || exit 2
export LD_LIBRARY_PATH=$T/lib/.libs ASAN_OPTIONS=detect_leaks=0
rc=0
for impl in 0 1 2; do $D/demo $impl || rc=1; done
exit $rc
