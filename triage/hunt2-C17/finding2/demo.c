/*
 * C17 finding 2: the DELETED (and FREE) notification of an entry that is removed
 * while an iterator is positioned on it is not sent by qb_map_rm() but later, when
 * the iterator moves on.  It then goes to whoever is registered at THAT time:
 *   A) a notifier registered during the deletion and unregistered before the
 *      iterator moves is never called for that deletion (0 calls, want 1);
 *   B) a notifier registered after the deletion is called for a deletion that
 *      happened before it subscribed (1 call, want 0);
 *   C) hashtable/skiplist: after rm(K); put(K) the subscriber sees INSERTED(K,v2)
 *      first and DELETED(K,v1) afterwards, i.e. a subscriber that mirrors the map
 *      from its notifications ends up without K although the map holds K.
 * usage: demo <impl>; exit 0 held, 1 violated
 */
#include <stdio.h>
#include <stdlib.h>
#include <string.h>
#include <qb/qbdefs.h>
#include <qb/qbmap.h>

static int calls_a, calls_b;
static int mirror_has_k;	/* state of a subscriber that mirrors key "K" */
static char log_c[256];

static void cb_a(uint32_t ev, char *k, void *o, void *n, void *ud) { calls_a++; }
static void cb_b(uint32_t ev, char *k, void *o, void *n, void *ud) { calls_b++; }
static void cb_c(uint32_t ev, char *k, void *o, void *n, void *ud)
{
	char b[64];
	snprintf(b, sizeof(b), " %s(%s,old=%s,new=%s)", ev == QB_MAP_NOTIFY_INSERTED ? "INSERTED" :
		 ev == QB_MAP_NOTIFY_DELETED ? "DELETED" : "REPLACED", k, o ? (char *)o : "-", n ? (char *)n : "-");
	strcat(log_c, b);
	if (ev == QB_MAP_NOTIFY_INSERTED) mirror_has_k = 1;
	if (ev == QB_MAP_NOTIFY_DELETED) mirror_has_k = 0;
}

static qb_map_t *mk(int impl)
{
	return impl == 0 ? qb_hashtable_create(16) : impl == 1 ? qb_skiplist_create() : qb_trie_create();
}

int main(int argc, char **argv)
{
	int impl = argc > 1 ? atoi(argv[1]) : 0;
	static const char *names[] = { "hashtable", "skiplist", "trie" };
	int rec = impl == 2 ? QB_MAP_NOTIFY_RECURSIVE : 0;
	int ev_del = QB_MAP_NOTIFY_DELETED | rec;
	int ev_all = QB_MAP_NOTIFY_DELETED | QB_MAP_NOTIFY_INSERTED | QB_MAP_NOTIFY_REPLACED | rec;
	qb_map_t *m;
	qb_map_iter_t *it;
	const char *k;
	void *v;
	int bad = 0, rc;

	printf("== %s\n", names[impl]);
	/* A + B */
	m = mk(impl);
	qb_map_put(m, "K", "v1");
	rc = qb_map_notify_add(m, NULL, cb_a, ev_del, NULL);	/* A subscribes to deletions */
	it = qb_map_iter_create(m);
	k = qb_map_iter_next(it, &v);				/* iterator on K */
	rc = qb_map_rm(m, "K");					/* the deletion */
	printf("rm(K)=%d get(K)=%p count=%zu; A called %d time(s) so far\n", rc,
	       qb_map_get(m, "K"), qb_map_count_get(m), calls_a);
	rc = qb_map_notify_del(m, NULL, cb_a, ev_del);		/* A unsubscribes */
	rc = qb_map_notify_add(m, NULL, cb_b, ev_del, NULL);	/* B subscribes: map is empty */
	k = qb_map_iter_next(it, &v);				/* end of iteration */
	qb_map_iter_free(it);
	qb_map_destroy(m);
	printf("A (registered during the deletion of K) called %d time(s), want 1\n", calls_a);
	printf("B (registered after K was gone)          called %d time(s), want 0\n", calls_b);
	if (calls_a != 1 || calls_b != 0) bad = 1;

	/* C */
	m = mk(impl);
	qb_map_notify_add(m, NULL, cb_c, ev_all, NULL);
	qb_map_put(m, "K", "v1");
	it = qb_map_iter_create(m);
	k = qb_map_iter_next(it, &v);
	qb_map_rm(m, "K");
	qb_map_put(m, "K", "v2");
	while (k) k = qb_map_iter_next(it, &v);
	qb_map_iter_free(it);
	printf("notifications:%s\n", log_c);
	printf("map has K: %s, mirror built from the notifications has K: %s\n",
	       qb_map_get(m, "K") ? "yes" : "no", mirror_has_k ? "yes" : "no");
	if ((qb_map_get(m, "K") != NULL) != mirror_has_k) bad = 1;
	qb_map_destroy(m);
	printf("%s: %s\n", names[impl], bad ? "VIOLATED" : "held");
	(void)k; (void)rc;
	return bad;
}
