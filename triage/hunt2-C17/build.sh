#!/bin/sh
# usage: build.sh [tree]   (default /repo) -> ./fuzz
T=${1:-/repo}
D=$(dirname "$0")
gcc -g -O1 -fsanitize=address,undefined -fno-omit-frame-pointer -DHAVE_CONFIG_H \
  -I$T/include -I$T/include/qb -I$T/lib \
  -o $D/fuzz $D/fuzz.c $T/lib/map.c $T/lib/hashtable.c $T/lib/skiplist.c $T/lib/trie.c \
  -L$T/lib/.libs -lqb
