#!/bin/sh
# usage: demo.sh <tree>; exit 0 = held, non-zero = violated (an ASan abort counts)
T=${1:-/repo}
D=$(cd "$(dirname "$0")" && pwd)
gcc -g -O0 -fsanitize=address,undefined -DHAVE_CONFIG_H -I$T/include -I$T/include/qb -I$T/lib -o $D/demo $D/demo.c \
  $T/lib/map.c $T/lib/hashtable.c $T/lib/skiplist.c $T/lib/trie.c -L$T/lib/.libs -lqb || exit 2
export LD_LIBRARY_PATH=$T/lib/.libs ASAN_OPTIONS=detect_leaks=0
rc=0
for impl in 0 1 2; do
	$D/demo $impl > $D/out.$impl 2>&1 || rc=1
	grep -E "^impl|ERROR: Addr|^    #[0-3] " $D/out.$impl | head -6
done
exit $rc
