/*
 * C17 finding 3 (borderline: re-entrancy): a notifier that unregisters itself from
 * inside its own callback (one-shot notifier) makes hashtable_notify()/skiplist_notify()
 * walk a freed list element (heap-use-after-free); the following notifier "B" may be
 * skipped or the process may crash.  The trie handles this (notifier refcount).
 * usage: demo <impl>; exit 0 = both notifiers called as expected and no memory error.
 */
#include <stdio.h>
#include <stdlib.h>
#include <qb/qbdefs.h>
#include <qb/qbmap.h>
static qb_map_t *m;
static int ev, calls_a, calls_b;
static void cb_a(uint32_t e, char *k, void *o, void *n, void *ud)
{
	calls_a++;
	qb_map_notify_del_2(m, NULL, cb_a, ev, ud);	/* one-shot */
}
static void cb_b(uint32_t e, char *k, void *o, void *n, void *ud) { calls_b++; }
int main(int argc, char **argv)
{
	int impl = argc > 1 ? atoi(argv[1]) : 0;
	ev = QB_MAP_NOTIFY_DELETED | (impl == 2 ? QB_MAP_NOTIFY_RECURSIVE : 0);
	m = impl == 0 ? qb_hashtable_create(16) : impl == 1 ? qb_skiplist_create() : qb_trie_create();
	qb_map_notify_add(m, NULL, cb_b, ev, "B");
	qb_map_notify_add(m, NULL, cb_a, ev, "A");	/* added at the head: runs first */
	qb_map_put(m, "k1", "v1");
	qb_map_put(m, "k2", "v2");
	qb_map_rm(m, "k1");
	qb_map_rm(m, "k2");
	qb_map_destroy(m);
	printf("impl %d: A called %d (want 1), B called %d (want 2)\n", impl, calls_a, calls_b);
	return !(calls_a == 1 && calls_b == 2);
}
