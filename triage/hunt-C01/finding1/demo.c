/*
 * C01 finding 1: qb_rb_chunk_alloc() accepts a length close to SIZE_MAX
 * (len + QB_RB_CHUNK_MARGIN wraps around) although the ring has no room
 * for it; the following commit reports success and destroys the header
 * of a chunk that has not been read yet.
 *
 * exit 0 = property held, 1 = violated, 2 = setup problem
 */
#include <stdio.h>
#include <stdlib.h>
#include <string.h>
#include <stdint.h>
#include <errno.h>
#include <unistd.h>
#include <sys/types.h>
#include <qb/qbrb.h>

int main(void)
{
	static unsigned char a[4072], out[8192], small[8] = "1234567";
	char name[64];
	qb_ringbuffer_t *rb;
	void *p;
	ssize_t r;
	int32_t c;
	int i, bad = 0;

	snprintf(name, sizeof(name), "huntC01-f1-%d", (int)getpid());
	/* 4083 + margin(12) + 1 = 4096 bytes = 1024 words; largest chunk 4084 */
	rb = qb_rb_open(name, 4083, QB_RB_FLAG_CREATE | QB_RB_FLAG_NO_SEMAPHORE, 0);
	if (!rb) { perror("qb_rb_open"); return 2; }

	for (i = 0; i < (int)sizeof(a); i++) a[i] = (unsigned char)(i * 7 + 1);
	r = qb_rb_chunk_write(rb, a, sizeof(a));	/* chunk A, stays unread */
	printf("write A (4072 bytes)            -> %zd\n", r);
	if (r != (ssize_t)sizeof(a)) return 2;
	printf("space_free                      -> %zd bytes\n", qb_rb_space_free(rb));

	errno = 0;
	p = qb_rb_chunk_alloc(rb, 8);			/* honest request: refused */
	printf("alloc(8)                        -> %p (errno %d)\n", p, errno);
	if (p != NULL) return 2;

	errno = 0;
	p = qb_rb_chunk_alloc(rb, (size_t)-1);		/* can never fit */
	printf("alloc(SIZE_MAX)                 -> %p (errno %d)   [must be NULL]\n", p, errno);
	if (p == NULL) {
		printf("refused, as it must be\n");
	} else {
		bad = 1;
		memcpy(p, small, sizeof(small));	/* well inside what was granted */
		c = qb_rb_chunk_commit(rb, sizeof(small));
		printf("commit(8)                       -> %d\n", c);
	}

	r = qb_rb_chunk_read(rb, out, sizeof(out), 0);
	printf("read (expect A, 4072 bytes)     -> %zd\n", r);
	if (r != (ssize_t)sizeof(a) || memcmp(out, a, sizeof(a)) != 0) {
		printf("VIOLATION: chunk A, accepted and never read, is lost/damaged\n");
		bad = 1;
	}
	qb_rb_close(rb);
	printf(bad ? "RESULT: property violated\n" : "RESULT: property held\n");
	return bad;
}
