#!/bin/sh
# usage: demo.sh <tree>   exit 0 = property held, non-zero = violated
T=${1:-/repo}
D=$(cd "$(dirname "$0")" && pwd)
OUT=$(mktemp -d /tmp/huntC01-f1.XXXXXX)
gcc -O1 -g -fsanitize=address,undefined -DHAVE_CONFIG_H -I$T/include -I$T/include/qb -I$T/lib \
    $D/demo.c $T/lib/ringbuffer.c $T/lib/ringbuffer_helper.c -L$T/lib/.libs -lqb -lpthread -o $OUT/demo || exit 2
LD_LIBRARY_PATH=$T/lib/.libs $OUT/demo
rc=$?
rm -rf $OUT
exit $rc
