/*
 * explore.c - controlled-interleaving explorer for the libqb ring buffer.
 *
 * lib/ringbuffer.c and lib/ringbuffer_helper.c are compiled UNCHANGED with
 * -fsanitize=thread (compile only); the __tsan_* callbacks the compiler
 * emits before every memory access are implemented HERE and used as
 * scheduling points: writer and reader are two coroutines (ucontext) and a
 * seeded PRNG decides at every access to the shared header / data words
 * (and before every semaphore operation, and before every word of the
 * payload memcpy) which party runs next.  So each run is one deterministic
 * sequentially-consistent interleaving at single-access granularity.
 *
 * Reference model: chunk #seq has length len[seq] and bytes pat(seq,i).
 * The reader must see exactly the successful writes, in order, intact.
 */
#define _GNU_SOURCE
#include <stdio.h>
#include <stdlib.h>
#include <string.h>
#include <stdint.h>
#include <errno.h>
#include <ucontext.h>
#include <unistd.h>
#include <semaphore.h>
#include <sys/types.h>
#include <qb/qbrb.h>
#include <qb/qbdefs.h>
#include "ringbuffer_int.h"

/* ---------- PRNG ---------- */
static uint64_t rng_s;
static uint32_t rnd(void)
{
	rng_s ^= rng_s << 13; rng_s ^= rng_s >> 7; rng_s ^= rng_s << 17;
	return (uint32_t)(rng_s >> 16);
}

/* ---------- scheduler ---------- */
static ucontext_t ctx_main, ctx[2];
static int cur = -1;		/* -1: main (no scheduling) */
static int done[2];
static int sched_on;
static uint32_t switch_den;	/* switch with probability 1/switch_den */
static long n_yields, n_switches;
static int trace;
static char *lo_hdr, *hi_hdr, *lo_dat, *hi_dat;
/* PCT-like mode: switch exactly at the listed yield numbers */
static long pct_pts[8]; static int pct_n;
static int sc_pre;	/* first sc_pre chunks are written before the two parties start */
static int sys_mode, sc_peek; static const int *sc_lens; static int sc_nlens;

static inline int is_shared(const void *a)
{
	const char *p = a;
	return (p >= lo_hdr && p < hi_hdr) || (p >= lo_dat && p < hi_dat);
}

static void describe(const char *kind, const void *a)
{
	const char *p = a;
	if (p >= lo_hdr && p < hi_hdr) {
		long off = p - lo_hdr;
		const char *nm = off == 0 ? "write_pt" : off == 4 ? "read_pt" :
			off == 8 ? "word_size" : "hdr";
		fprintf(stderr, "  [%c] %-8s %s(+%ld)\n", cur ? 'R' : 'W', kind, nm, off);
	} else if (p >= lo_dat && p < hi_dat) {
		long w = (p - lo_dat) / 4;
		fprintf(stderr, "  [%c] %-8s data[%ld]\n", cur ? 'R' : 'W', kind, w);
	} else {
		fprintf(stderr, "  [%c] %-8s\n", cur ? 'R' : 'W', kind);
	}
}

static void yield_pt(const char *kind, const void *a)
{
	int other, sw = 0;
	if (cur < 0 || !sched_on) return;
	n_yields++;
	if (trace) describe(kind, a);
	other = 1 - cur;
	if (done[other]) return;
	if (sys_mode) {
		int i;
		for (i = 0; i < pct_n; i++) if (pct_pts[i] == n_yields) sw = 1;
	} else {
		sw = (rnd() % switch_den) == 0;
	}
	if (sw) {
		int me = cur;
		n_switches++;
		cur = other;
		swapcontext(&ctx[me], &ctx[other]);
	}
}

/* ---------- tsan callbacks = scheduling points ---------- */
void __tsan_init(void) {}
void __tsan_func_entry(void *pc) { (void)pc; }
void __tsan_func_exit(void) {}
void __tsan_read1(void *a) { if (is_shared(a)) yield_pt("read1", a); }
void __tsan_read2(void *a) { if (is_shared(a)) yield_pt("read2", a); }
void __tsan_read4(void *a) { if (is_shared(a)) yield_pt("read4", a); }
void __tsan_read8(void *a) { if (is_shared(a)) yield_pt("read8", a); }
void __tsan_write1(void *a) { if (is_shared(a)) yield_pt("write1", a); }
void __tsan_write2(void *a) { if (is_shared(a)) yield_pt("write2", a); }
void __tsan_write4(void *a) { if (is_shared(a)) yield_pt("write4", a); }
void __tsan_write8(void *a) { if (is_shared(a)) yield_pt("write8", a); }
void __tsan_volatile_read4(void *a) { if (is_shared(a)) yield_pt("vread4", a); }
void __tsan_volatile_write4(void *a) { if (is_shared(a)) yield_pt("vwrite4", a); }
int __tsan_atomic32_load(const volatile int *a, int mo)
{
	(void)mo;
	if (is_shared((const void *)a)) yield_pt("aload4", (const void *)a);
	return *a;
}
void __tsan_atomic32_store(volatile int *a, int v, int mo)
{
	(void)mo;
	if (is_shared((const void *)a)) yield_pt("astore4", (const void *)a);
	*a = v;
}

/* the library's memcpy (renamed by -Dmemcpy=sched_memcpy for the two
 * library files only): word-at-a-time with a scheduling point per word */
void *sched_memcpy(void *d, const void *s, size_t n)
{
	volatile unsigned char *dd = d;
	const volatile unsigned char *ss = s;
	size_t i;
	int sh_d = is_shared(d), sh_s = is_shared(s);
	for (i = 0; i < n; i++) {
		if ((i & 3) == 0) {
			if (sh_d) yield_pt("cpy-st", (const void *)(dd + i));
			else if (sh_s) yield_pt("cpy-ld", (const void *)(ss + i));
		}
		dd[i] = ss[i];
	}
	return d;
}

/* semaphore operations (renamed for ringbuffer_helper.c only) */
int sched_sem_post(sem_t *s) { yield_pt("sem_post", NULL); return sem_post(s); }
int sched_sem_trywait(sem_t *s) { yield_pt("sem_try", NULL); return sem_trywait(s); }
int sched_sem_wait(sem_t *s) { yield_pt("sem_wait", NULL); return sem_trywait(s); }
int sched_sem_timedwait(sem_t *s, const struct timespec *t)
{ (void)t; yield_pt("sem_twait", NULL); { int r = sem_trywait(s); if (r < 0 && errno == EAGAIN) errno = ETIMEDOUT; return r; } }
int sched_sem_getvalue(sem_t *s, int *v) { yield_pt("sem_getv", NULL); return sem_getvalue(s, v); }

/* ---------- model ---------- */
#define MAXSEQ 4096
enum { ST_NONE, ST_PENDING, ST_OK, ST_REFUSED };
static int n_seq;
static uint32_t m_len[MAXSEQ];
static uint8_t m_st[MAXSEQ];
static uint8_t m_kind[MAXSEQ];
static int next_expect;
static int failed;
static qb_ringbuffer_t *rb;
static int use_peek, use_alloc;
static size_t maxlen;
static int n_writes;
static long tot_w_ok, tot_w_ref, tot_r_ok, tot_r_empty;

static inline uint8_t pat(int seq, uint32_t i, int kind)
{
	switch (kind) {
	case 1: return 0xA1;	/* looks like QB_RB_CHUNK_MAGIC */
	case 2: { /* words alternate small-size / MAGIC : a fake chunk header */
		uint32_t w = i / 4, b = i % 4;
		uint32_t v = (w & 1) ? 0xA1A1A1A1u : (uint32_t)(4 + (seq % 7) * 4);
		return (v >> (8 * b)) & 0xff; }
	default: return (uint8_t)(seq * 131 + i * 7 + (i >> 8) + 1);
	}
}

#define FAIL(...) do { failed = 1; fprintf(stderr, "VIOLATION: " __VA_ARGS__); fprintf(stderr, "\n"); } while (0)

static void check_chunk(const uint8_t *buf, ssize_t got)
{
	int s = next_expect;
	uint32_t i;
	while (s < n_seq && m_st[s] == ST_REFUSED) s++;
	if (s >= n_seq || m_st[s] == ST_NONE) {
		FAIL("read returned a chunk (len %zd) but no write is outstanding (next_expect=%d n_seq=%d)", got, next_expect, n_seq);
		return;
	}
	if ((uint32_t)got != m_len[s]) {
		FAIL("chunk seq %d: read len %zd, written len %u (state %d)", s, got, m_len[s], m_st[s]);
		next_expect = s + 1;
		return;
	}
	for (i = 0; i < m_len[s]; i++) {
		if (buf[i] != pat(s, i, m_kind[s])) {
			FAIL("chunk seq %d len %u: byte %u is %02x, expected %02x (state %d)", s, m_len[s], i, buf[i], pat(s, i, m_kind[s]), m_st[s]);
			break;
		}
	}
	next_expect = s + 1;
	tot_r_ok++;
}

static uint32_t pick_len(void)
{
	uint32_t r = rnd() % 100;
	if (r < 25) return rnd() % 24;			/* tiny, incl 0..3 */
	if (r < 45) return rnd() % 300;
	if (r < 60) return (uint32_t)(maxlen - rnd() % 20);	/* near max (may exceed) */
	if (r < 70) return (uint32_t)(maxlen + 1 + rnd() % 8);	/* must be refused */
	if (r < 85) return (uint32_t)(maxlen / 2 - 16 + rnd() % 32);
	if (r < 93) return (uint32_t)(maxlen / 3 - 8 + rnd() % 16);
	return rnd() % (uint32_t)(maxlen + 1);
}

static uint8_t wbuf[1 << 16], rbuf[1 << 16];

static ssize_t do_write(int seq)
{
	uint32_t i, len = m_len[seq];
	ssize_t r;
	for (i = 0; i < len; i++) wbuf[i] = pat(seq, i, m_kind[seq]);
	if (use_alloc) {
		void *p = qb_rb_chunk_alloc(rb, len);
		if (p == NULL) return -errno;
		sched_memcpy(p, wbuf, len);
		r = qb_rb_chunk_commit(rb, len);
		return r < 0 ? r : (ssize_t)len;
	}
	return qb_rb_chunk_write(rb, wbuf, len);
}

static void writer_fn(void)
{
	int k;
	for (k = (sys_mode ? sc_pre : 0); k < n_writes && !failed; k++) {
		int seq = n_seq;
		ssize_t r;
		if (seq >= MAXSEQ) break;
		m_len[seq] = sys_mode ? (uint32_t)sc_lens[k] : pick_len();
		if (use_peek && m_len[seq] == 0) m_len[seq] = 1;
		m_kind[seq] = sys_mode ? (k & 1) : (rnd() % 4 == 0) ? 1 + rnd() % 2 : 0;
		m_st[seq] = ST_PENDING;
		n_seq = seq + 1;
		r = do_write(seq);
		if (r == (ssize_t)m_len[seq]) {
			m_st[seq] = ST_OK; tot_w_ok++;
			if (m_len[seq] > maxlen)
				FAIL("write of %u bytes accepted, max is %zu", m_len[seq], maxlen);
		} else if (r == -EAGAIN) {
			if (next_expect > seq)
				FAIL("write seq %d reported EAGAIN but the reader got it", seq);
			m_st[seq] = ST_REFUSED; tot_w_ref++;
			if (!done[1] && (sys_mode || (rnd() & 1))) { cur = 1; n_switches++; swapcontext(&ctx[0], &ctx[1]); }
		} else {
			FAIL("write seq %d len %u returned %zd", seq, m_len[seq], r);
			m_st[seq] = ST_REFUSED;
		}
	}
	done[0] = 1;
	if (!done[1]) { cur = 1; swapcontext(&ctx[0], &ctx[1]); }
	cur = -1;
	swapcontext(&ctx[0], &ctx_main);
}

/* one read attempt; returns 1 if a chunk was consumed, 0 if empty */
static int do_read(int has_sem)
{
	ssize_t r;
	if (sys_mode ? sc_peek : (use_peek && (rnd() & 1))) {
		void *p = NULL;
		r = qb_rb_chunk_peek(rb, &p, 0);
		if (r == 0 || r == -EBADMSG) {
			if (r == -EBADMSG && has_sem)
				; /* semaphore said yes, marker said no: tolerated, counted */
			return 0;
		}
		if (r < 0) { FAIL("peek returned %zd", r); return 0; }
		if ((size_t)r > sizeof(rbuf)) { FAIL("peek returned absurd length %zd", r); return 0; }
		sched_memcpy(rbuf, p, r);
		check_chunk(rbuf, r);
		qb_rb_chunk_reclaim(rb);
		return 1;
	}
	if (!sys_mode && rnd() % 8 == 0) {
		/* too-small buffer first: must be refused without consuming */
		size_t cap = rnd() % 8;
		r = qb_rb_chunk_read(rb, rbuf, cap, 0);
		if (r >= 0) {
			if ((size_t)r > cap) { FAIL("read into %zu bytes returned %zd", cap, r); return 0; }
			check_chunk(rbuf, r);
			return 1;
		}
		if (r != -ENOBUFS && r != -ETIMEDOUT && r != -EBADMSG) FAIL("small read returned %zd", r);
		if (r != -ENOBUFS) return 0;
	}
	r = qb_rb_chunk_read(rb, rbuf, sizeof(rbuf), 0);
	if (r >= 0) { check_chunk(rbuf, r); return 1; }
	if (r != -ETIMEDOUT && r != -EBADMSG) FAIL("read returned %zd", r);
	return 0;
}

static int g_has_sem;
static void reader_fn(void)
{
	int idle = 0;
	long guard = 0;
	while (!failed) {
		int got = do_read(g_has_sem);
		if (got) { idle = 0; }
		else {
			tot_r_empty++;
			if (done[0]) { if (++idle >= 2) break; }
			else if (guard++ > 200000) {
				/* let the writer make progress */
				guard = 0;
			}
			/* an empty poll: give the writer a chance */
			if (!done[0] && (sys_mode || rnd() % 4 == 0)) {
				int me = cur; cur = 0; n_switches++;
				swapcontext(&ctx[me], &ctx[0]);
			}
		}
	}
	done[1] = 1;
	if (!done[0]) { cur = 0; swapcontext(&ctx[1], &ctx[0]); }
	cur = -1;
	swapcontext(&ctx[1], &ctx_main);
}

static char stk[2][1 << 18];

static int one_run(uint64_t seed, int verbose)
{
	char name[64];
	uint32_t flags = QB_RB_FLAG_CREATE;
	size_t req;
	int mode, warm, i, s;
	uint32_t W;

	rng_s = seed * 0x9E3779B97F4A7C15ull + 0x1234567;
	for (i = 0; i < 4; i++) rnd();
	memset(m_st, 0, sizeof(m_st));
	n_seq = 0; next_expect = 0; failed = 0; done[0] = done[1] = 0;
	n_yields = n_switches = 0; pct_n = 0;

	mode = rnd() % 3;
	if (mode == 0) flags |= QB_RB_FLAG_NO_SEMAPHORE;
	else if (mode == 1) flags |= QB_RB_FLAG_SHARED_PROCESS;
	g_has_sem = mode != 0;
	switch (rnd() % 6) {
	case 0: req = 1; break;
	case 1: req = 4083; break;		/* exactly one page after +13 */
	case 2: req = 4084; break;		/* one byte over -> 2 pages */
	case 3: req = 100 + rnd() % 3000; break;
	case 4: req = 8179; break;
	default: req = 4096 + rnd() % 9000; break;
	}
	use_peek = rnd() & 1;
	use_alloc = rnd() & 1;
	switch (rnd() % 5) {
	case 0: switch_den = 2; break;
	case 1: switch_den = 6; break;
	case 2: switch_den = 40; break;
	case 3: switch_den = 300; break;
	default: switch_den = 3000; break;
	}
	n_writes = 2 + rnd() % 30;

	snprintf(name, sizeof(name), "huntC01-ex-%d", (int)getpid());
	rb = qb_rb_open(name, req, flags, 0);
	if (!rb) { perror("qb_rb_open"); return 2; }
	W = rb->shared_hdr->word_size;
	maxlen = (size_t)W * 4 - 12;
	lo_hdr = (char *)rb->shared_hdr; hi_hdr = lo_hdr + offsetof(struct qb_ringbuffer_shared_s, hdr_path);
	lo_dat = (char *)rb->shared_data; hi_dat = lo_dat + (size_t)W * 8;

	/* warm-up, sequential, through the API: moves the indices to a random
	 * place (often just before the end of the ring) and leaves stale
	 * payload (MAGIC-looking words) everywhere */
	warm = rnd() % 4;
	if (warm) {
		uint32_t target = warm == 1 ? W - 1 - rnd() % 12 : warm == 2 ? rnd() % W : W - 1 - rnd() % 600;
		sched_on = 0;
		for (;;) {
			uint32_t wp = rb->shared_hdr->write_pt;
			uint32_t dist = (target + W - wp) % W;
			uint32_t words, len;
			ssize_t r;
			if (dist == 0) break;
			if (dist == 1) { dist += W; }
			words = dist > W - 1 ? (W - 1) / 2 : dist;	/* chunk words incl. 2 hdr */
			if (words < 2) words = 2;
			if (words > W - 1) words = W - 1;
			len = (words - 2) * 4;
			if (len && (rnd() & 1)) len -= rnd() % 4;	/* same word count unless len%4==0 -> fewer */
			if (((len + 3) / 4) + 2 != words) len = (words - 2) * 4;
			memset(wbuf, 0xA1, len);
			r = qb_rb_chunk_write(rb, wbuf, len);
			if (r != (ssize_t)len) { fprintf(stderr, "warmup write %u -> %zd\n", len, r); return 2; }
			r = qb_rb_chunk_read(rb, rbuf, sizeof(rbuf), 0);
			if (r != (ssize_t)len) { fprintf(stderr, "warmup read %u -> %zd\n", len, r); return 2; }
		}
	}
	if (verbose)
		fprintf(stderr, "seed %llu: mode=%d req=%zu W=%u peek=%d alloc=%d den=%u writes=%d start wp=%u rp=%u\n",
			(unsigned long long)seed, mode, req, W, use_peek, use_alloc, switch_den, n_writes,
			rb->shared_hdr->write_pt, rb->shared_hdr->read_pt);

	for (i = 0; i < 2; i++) {
		getcontext(&ctx[i]);
		ctx[i].uc_stack.ss_sp = stk[i];
		ctx[i].uc_stack.ss_size = sizeof(stk[i]);
		ctx[i].uc_link = &ctx_main;
		makecontext(&ctx[i], i ? reader_fn : writer_fn, 0);
	}
	sched_on = 1;
	cur = rnd() & 1;
	swapcontext(&ctx_main, &ctx[cur]);
	sched_on = 0; cur = -1;

	/* final: everything accepted must have been delivered */
	if (!failed) {
		for (;;) {
			ssize_t r = qb_rb_chunk_read(rb, rbuf, sizeof(rbuf), 0);
			if (r < 0) break;
			check_chunk(rbuf, r);
		}
		for (s = next_expect; s < n_seq; s++)
			if (m_st[s] == ST_OK) { FAIL("chunk seq %d (len %u) was accepted but never delivered", s, m_len[s]); break; }
	}
	if (failed)
		fprintf(stderr, "seed %llu FAILED: mode=%d req=%zu W=%u peek=%d alloc=%d den=%u writes=%d yields=%ld switches=%ld wp=%u rp=%u\n",
			(unsigned long long)seed, mode, req, W, use_peek, use_alloc, switch_den, n_writes, n_yields, n_switches,
			rb->shared_hdr->write_pt, rb->shared_hdr->read_pt);
	qb_rb_close(rb);
	return failed;
}


/* ---------- systematic: all schedules with <= P preemptions ---------- */
static long sys_runs;
static uint32_t snap_wp, snap_rp; static uint32_t *snap_data; static uint32_t snap_W;
static void sys_open(int mode, size_t req, int back)
{
	char name[64];
	uint32_t flags = QB_RB_FLAG_CREATE, W;
	if (mode == 0) flags |= QB_RB_FLAG_NO_SEMAPHORE;
	g_has_sem = mode != 0;
	snprintf(name, sizeof(name), "huntC01-sy-%d", (int)getpid());
	rb = qb_rb_open(name, req, flags, 0);
	if (!rb) { perror("qb_rb_open"); exit(2); }
	W = rb->shared_hdr->word_size;
	maxlen = (size_t)W * 4 - 12;
	lo_hdr = (char *)rb->shared_hdr; hi_hdr = lo_hdr + offsetof(struct qb_ringbuffer_shared_s, hdr_path);
	lo_dat = (char *)rb->shared_data; hi_dat = lo_dat + (size_t)W * 8;
	sched_on = 0; cur = -1;
	if (back) {	/* advance both indices to W-back through the API, leaving MAGIC-looking stale payload */
		uint32_t target = W - back;
		uint32_t words = target / 2, len1 = (words - 2) * 4, len2 = (target - words - 2) * 4;
		memset(wbuf, 0xA1, sizeof(wbuf));
		if (qb_rb_chunk_write(rb, wbuf, len1) != (ssize_t)len1 || qb_rb_chunk_read(rb, rbuf, sizeof(rbuf), 0) != (ssize_t)len1 ||
		    qb_rb_chunk_write(rb, wbuf, len2) != (ssize_t)len2 || qb_rb_chunk_read(rb, rbuf, sizeof(rbuf), 0) != (ssize_t)len2 ||
		    rb->shared_hdr->write_pt != target) { fprintf(stderr, "warmup failed\n"); exit(2); }
		/* one full lap of MAGIC-looking payload so that the words after W-back are stale too */
		{ uint32_t l3 = (W / 2 - 2) * 4, l4 = (W - W / 2 - 2) * 4;
		if (qb_rb_chunk_write(rb, wbuf, l3) != (ssize_t)l3 || qb_rb_chunk_read(rb, rbuf, sizeof(rbuf), 0) != (ssize_t)l3 ||
		    qb_rb_chunk_write(rb, wbuf, l4) != (ssize_t)l4 || qb_rb_chunk_read(rb, rbuf, sizeof(rbuf), 0) != (ssize_t)l4 ||
		    rb->shared_hdr->write_pt != target) { fprintf(stderr, "warmup2 failed\n"); exit(2); } }
	}
	/* snapshot of this API-reached state; every schedule starts from it */
	snap_W = W; snap_wp = rb->shared_hdr->write_pt; snap_rp = rb->shared_hdr->read_pt;
	snap_data = realloc(snap_data, (size_t)W * 4);
	memcpy(snap_data, rb->shared_data, (size_t)W * 4);
}

static int sys_one(int mode, size_t req, int back, const int *lens, int nlens, int peek, int alloc,
		   const long *pts, int npts, long *yields_out)
{
	int i, s;
	memset(m_st, 0, sizeof(m_st));
	n_seq = 0; next_expect = 0; failed = 0; done[0] = done[1] = 0;
	n_yields = n_switches = 0;
	sys_mode = 1; sc_peek = peek; use_peek = peek; use_alloc = alloc; sc_lens = lens; sc_nlens = nlens; n_writes = nlens;
	pct_n = npts; for (i = 0; i < npts; i++) pct_pts[i] = pts[i];
	/* restore the snapshot (ring is drained and the semaphore is 0 after a clean run) */
	memcpy(rb->shared_data, snap_data, (size_t)snap_W * 4);
	rb->shared_hdr->write_pt = snap_wp; rb->shared_hdr->read_pt = snap_rp;
	if (g_has_sem && qb_rb_chunks_used(rb) != 0) { fprintf(stderr, "semaphore not 0 between runs\n"); exit(2); }
	for (i = 0; i < sc_pre; i++) {
		uint32_t j;
		m_len[i] = lens[i]; m_kind[i] = i & 1; m_st[i] = ST_OK; n_seq = i + 1;
		for (j = 0; j < m_len[i]; j++) wbuf[j] = pat(i, j, m_kind[i]);
		if (qb_rb_chunk_write(rb, wbuf, m_len[i]) != (ssize_t)m_len[i]) { fprintf(stderr, "pre-write failed\n"); exit(2); }
	}
	for (i = 0; i < 2; i++) {
		getcontext(&ctx[i]);
		ctx[i].uc_stack.ss_sp = stk[i];
		ctx[i].uc_stack.ss_size = sizeof(stk[i]);
		ctx[i].uc_link = &ctx_main;
		makecontext(&ctx[i], i ? reader_fn : writer_fn, 0);
	}
	sched_on = 1;
	cur = 0;
	swapcontext(&ctx_main, &ctx[cur]);
	sched_on = 0; cur = -1;
	if (!failed) {
		for (;;) {
			ssize_t r = qb_rb_chunk_read(rb, rbuf, sizeof(rbuf), 0);
			if (r < 0) break;
			check_chunk(rbuf, r);
		}
		for (s = next_expect; s < n_seq; s++)
			if (m_st[s] == ST_OK) { FAIL("chunk seq %d (len %u) was accepted but never delivered", s, m_len[s]); break; }
		if (g_has_sem && qb_rb_chunks_used(rb) != 0) FAIL("drained ring but semaphore value %zd", qb_rb_chunks_used(rb));
	}
	if (failed) {
		fprintf(stderr, "SYS FAILED: mode=%d req=%zu back=%d peek=%d alloc=%d lens=", mode, req, back, peek, alloc);
		for (i = 0; i < nlens; i++) fprintf(stderr, "%d,", lens[i]);
		fprintf(stderr, " switch points:");
		for (i = 0; i < npts; i++) fprintf(stderr, " %ld", pts[i]);
		fprintf(stderr, "\n");
	}
	*yields_out = n_yields;
	sys_runs++;
	return failed;
}

static int sys_scenario(int mode, size_t req, int back, const int *lens, int nlens, int peek, int alloc, int P, long stride)
{
	long pts[3], N, y, a, b, c;
	int rc = 0;
	sys_open(mode, req, back);
	if (sys_one(mode, req, back, lens, nlens, peek, alloc, pts, 0, &N)) { rc = 1; goto out; }
	for (a = 1; a <= N + 8; a += 1) {
		pts[0] = a;
		if (sys_one(mode, req, back, lens, nlens, peek, alloc, pts, 1, &y)) { rc = 1; goto out; }
		if (y < a) break;
		if (P < 2) continue;
		for (b = a + 1; b <= y + 8; b += stride) {
			long y2;
			pts[1] = b;
			if (sys_one(mode, req, back, lens, nlens, peek, alloc, pts, 2, &y2)) { rc = 1; goto out; }
			if (y2 < b) break;
			if (P < 3) continue;
			for (c = b + 1; c <= y2 + 8; c += stride) {
				long y3;
				pts[2] = c;
				if (sys_one(mode, req, back, lens, nlens, peek, alloc, pts, 3, &y3)) { rc = 1; goto out; }
				if (y3 < c) break;
			}
		}
	}
out:
	qb_rb_close(rb);
	return rc;
}

static int sys_main(int P)
{
	/* W = 1024 words (req 4083): maxlen 4084 */
	static const int A[] = { 0, 1, 3 };
	static const int B[] = { 4, 5, 8 };
	static const int C[] = { 4084, 1, 4 };		/* W-1 words, then tiny */
	static const int D[] = { 4080, 4, 0 };		/* W-2 words */
	static const int E[] = { 2030, 2030, 2030 };	/* third refused unless first consumed */
	static const int F[] = { 2040, 2036, 1, 4084 };
	static const int G[] = { 7, 4085, 2 };		/* never fits in the middle */
	static const int H[] = { 12, 16, 20, 9 };
	struct { const int *l; int n; int big; } S[] = {
		{ A, 3, 0 }, { B, 3, 0 }, { H, 4, 0 }, { G, 3, 0 }, { C, 3, 1 }, { D, 3, 1 }, { E, 3, 1 }, { F, 4, 1 },
	};
	static const int backs[] = { 0, 1, 2, 3, 4, 5, 7, 9 };
	unsigned si, bi; int mode, peek, alloc;
	for (si = 0; si < sizeof(S) / sizeof(S[0]); si++)
		for (bi = 0; bi < sizeof(backs) / sizeof(backs[0]); bi++)
			for (mode = 0; mode < 2; mode++)
				for (peek = 0; peek < 2; peek++) {
					int p = S[si].big ? (P > 2 ? 2 : P) : P;
					long stride = S[si].big ? 3 : 1;
					alloc = (si + bi + peek) & 1;
					if (S[si].big && (bi & 1)) continue;
					if (sys_scenario(mode, 4083, backs[bi], S[si].l, S[si].n, peek, alloc, p, stride)) return 1;
					fprintf(stderr, "scenario %u back %d mode %d peek %d: ok (%ld runs so far)\n", si, backs[bi], mode, peek, sys_runs);
				}
	printf("systematic: %ld schedules, no violation\n", sys_runs);
	return 0;
}

static int sys2_main(void)
{
	/* ring (1024 words) filled by one unread chunk, then small chunks fight for the last words */
	static const int I[] = { 4040, 4, 8, 1, 5, 0, 12 };
	static const int J[] = { 4060, 1, 1, 1 };
	static const int K[] = { 4000, 30, 30, 3, 30 };
	struct { const int *l; int n; } S[] = { { I, 7 }, { J, 4 }, { K, 5 } };
	static const int backs[] = { 0, 3, 12, 1011, 1013 };
	unsigned si, bi; int mode, peek;
	for (si = 0; si < 3; si++)
		for (bi = 0; bi < 5; bi++)
			for (mode = 0; mode < 2; mode++)
				for (peek = 0; peek < 2; peek++) {
					sc_pre = 1;
					if (sys_scenario(mode, 4083, backs[bi], S[si].l, S[si].n, peek, (si + bi) & 1, 2, 1)) return 1;
					fprintf(stderr, "full-ring scenario %u back %d mode %d peek %d: ok (%ld runs so far)\n", si, backs[bi], mode, peek, sys_runs);
				}
	sc_pre = 0;
	printf("systematic (full ring): %ld schedules, no violation\n", sys_runs);
	return 0;
}

int main(int argc, char **argv)
{
	if (argc > 1 && !strcmp(argv[1], "sys2")) return sys2_main();
	if (argc > 1 && !strcmp(argv[1], "sys")) return sys_main(argc > 2 ? atoi(argv[2]) : 2);
	uint64_t first = argc > 1 ? strtoull(argv[1], 0, 0) : 1;
	uint64_t count = argc > 2 ? strtoull(argv[2], 0, 0) : 1000;
	uint64_t s;
	int bad = 0;
	trace = argc > 3 ? atoi(argv[3]) : 0;
	for (s = first; s < first + count; s++) {
		int r = one_run(s, trace || count == 1);
		if (r) { bad++; if (r == 2 || bad >= 5) break; }
	}
	printf("runs %llu..%llu: bad=%d  writes ok=%ld refused=%ld  reads ok=%ld empty=%ld\n",
	       (unsigned long long)first, (unsigned long long)(s - 1), bad, tot_w_ok, tot_w_ref, tot_r_ok, tot_r_empty);
	return bad ? 1 : 0;
}
