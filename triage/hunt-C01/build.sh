#!/bin/sh
# usage: build.sh [tree]   (default /repo)
set -e
T=${1:-/repo}
cd "$(dirname "$0")"
INC="-DHAVE_CONFIG_H -I$T/include -I$T/include/qb -I$T/lib"
# 1. sequential + free-running-threads model fuzzer, ASan+UBSan
gcc -O1 -g -fsanitize=address,undefined -fno-sanitize-recover=undefined $INC \
    fuzz.c $T/lib/ringbuffer.c $T/lib/ringbuffer_helper.c \
    -L$T/lib/.libs -lqb -lpthread -o fuzz_asan
# 2. same, TSan
gcc -O1 -g -fsanitize=thread $INC \
    fuzz.c $T/lib/ringbuffer.c $T/lib/ringbuffer_helper.c \
    -L$T/lib/.libs -lqb -lpthread -o fuzz_tsan
# 3. same, plain -O2 (real hardware stress)
gcc -O2 -g $INC fuzz.c $T/lib/ringbuffer.c $T/lib/ringbuffer_helper.c \
    -L$T/lib/.libs -lqb -lpthread -o fuzz_o2
# 4. controlled-interleaving explorer: library files compiled with the tsan
#    instrumentation only; the callbacks live in explore.c (no tsan runtime)
for O in O1 O2; do
gcc -$O -g -fsanitize=thread --param tsan-distinguish-volatile=1 $INC \
    -Dmemcpy=sched_memcpy -c $T/lib/ringbuffer.c -o rb_i_$O.o
gcc -$O -g -fsanitize=thread --param tsan-distinguish-volatile=1 $INC \
    -Dsem_post=sched_sem_post -Dsem_trywait=sched_sem_trywait -Dsem_wait=sched_sem_wait \
    -Dsem_timedwait=sched_sem_timedwait -Dsem_getvalue=sched_sem_getvalue \
    -c $T/lib/ringbuffer_helper.c -o rbh_i_$O.o
gcc -O1 -g $INC explore.c rb_i_$O.o rbh_i_$O.o -L$T/lib/.libs -lqb -lpthread -o explore_$O
done
