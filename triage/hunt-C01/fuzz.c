/*
 * fuzz.c - model-based randomized tester for the libqb ring buffer (C01).
 *
 *   fuzz seq  <seed> <ops>            one thread, random op sequences
 *   fuzz thr  <seed> <writes> [mode]  writer thread + reader thread, free running
 *   fuzz proc <seed> <writes> [mode]  writer process + reader process (fork),
 *                                     reader opens the ring by name
 *     mode: 0 = no semaphore (polling), 1 = semaphore, 2 = pshared semaphore
 *
 * Reference model: chunk #seq has length len[seq] and bytes pat(seq,i); the
 * reader must get exactly the accepted chunks, in order, intact.
 */
#define _GNU_SOURCE
#include <stdio.h>
#include <stdlib.h>
#include <string.h>
#include <stdint.h>
#include <errno.h>
#include <unistd.h>
#include <pthread.h>
#include <sched.h>
#include <sys/mman.h>
#include <sys/wait.h>
#include <qb/qbrb.h>
#include <qb/qbdefs.h>
#include "ringbuffer_int.h"

struct rng { uint64_t s; };
static uint32_t rnd(struct rng *r)
{
	r->s ^= r->s << 13; r->s ^= r->s >> 7; r->s ^= r->s << 17;
	return (uint32_t)(r->s >> 16);
}
static void rseed(struct rng *r, uint64_t seed) { int i; r->s = seed * 0x9E3779B97F4A7C15ull + 0x7654321; for (i = 0; i < 4; i++) rnd(r); }

static inline uint8_t pat(uint32_t seq, uint32_t i, int kind)
{
	switch (kind) {
	case 1: return 0xA1;
	case 2: { uint32_t w = i / 4, b = i % 4;
		uint32_t v = (w & 1) ? 0xA1A1A1A1u : (uint32_t)(4 + (seq % 7) * 4);
		return (v >> (8 * b)) & 0xff; }
	default: return (uint8_t)(seq * 131 + i * 7 + (i >> 8) + 1);
	}
}

#define DIE(...) do { fprintf(stderr, "VIOLATION: " __VA_ARGS__); fprintf(stderr, "\n"); fflush(stderr); _exit(1); } while (0)

static uint32_t pick_len(struct rng *g, size_t maxlen)
{
	uint32_t r = rnd(g) % 100;
	if (r < 25) return rnd(g) % 24;
	if (r < 45) return rnd(g) % 300;
	if (r < 55) return (uint32_t)(maxlen - rnd(g) % 20);
	if (r < 62) return (uint32_t)(maxlen + 1 + rnd(g) % 8);
	if (r < 80) return (uint32_t)(maxlen / 2 - 16 + rnd(g) % 32);
	if (r < 90) return (uint32_t)(maxlen / 3 - 8 + rnd(g) % 16);
	return rnd(g) % (uint32_t)(maxlen + 1);
}

static size_t pick_req(struct rng *g)
{
	switch (rnd(g) % 8) {
	case 0: return 1;
	case 1: return 4083;
	case 2: return 4084;
	case 3: return 100 + rnd(g) % 3000;
	case 4: return 8179;
	case 5: return 8180;
	case 6: return 4096 * (1 + rnd(g) % 6) - 13;
	default: return 4096 + rnd(g) % 20000;
	}
}

/* ------------------------------------------------------------------ */
/* sequential                                                          */
/* ------------------------------------------------------------------ */
#define QMAX 8192
static int run_seq(uint64_t seed, long ops)
{
	struct rng g;
	static uint32_t q_seq[QMAX], q_len[QMAX]; static uint8_t q_kind[QMAX];
	static uint8_t wbuf[1 << 17], rbuf[1 << 17];
	long done_ops = 0, n_ok = 0, n_ref = 0, n_rd = 0;
	uint32_t seq = 0;
	char name[64];
	rseed(&g, seed);
	while (done_ops < ops) {
		uint32_t flags = QB_RB_FLAG_CREATE;
		int mode = rnd(&g) % 3, has_sem;
		size_t req = pick_req(&g), maxlen;
		qb_ringbuffer_t *rb;
		unsigned qh = 0, qt = 0;	/* model FIFO */
		long n = 200 + rnd(&g) % 3000;
		int bias = rnd(&g) % 3;		/* 0 balanced, 1 write heavy, 2 read heavy */
		int peeked = 0;
		if (mode == 0) flags |= QB_RB_FLAG_NO_SEMAPHORE;
		if (mode == 2) flags |= QB_RB_FLAG_SHARED_PROCESS;
		has_sem = mode != 0;
		snprintf(name, sizeof(name), "huntC01-fz-%d", (int)getpid());
		rb = qb_rb_open(name, req, flags, 0);
		if (!rb) { perror("open"); return 2; }
		maxlen = (size_t)rb->shared_hdr->word_size * 4 - 12;
		if (maxlen < req) DIE("ring for %zu bytes cannot hold them (max %zu)", req, maxlen);
		while (n-- > 0) {
			uint32_t op = rnd(&g) % 100, i;
			int wthr = bias == 1 ? 65 : bias == 2 ? 35 : 50;
			done_ops++;
			if (op < (uint32_t)wthr && !peeked) {
				uint32_t len = pick_len(&g, maxlen);
				int kind = (rnd(&g) % 4 == 0) ? 1 + rnd(&g) % 2 : 0;
				ssize_t r;
				for (i = 0; i < len; i++) wbuf[i] = pat(seq, i, kind);
				if (rnd(&g) & 1) {
					r = qb_rb_chunk_write(rb, wbuf, len);
				} else {
					void *p = qb_rb_chunk_alloc(rb, len);
					if (!p) r = -errno;
					else { memcpy(p, wbuf, len); r = qb_rb_chunk_commit(rb, len); if (r == 0) r = len; }
				}
				if (r == (ssize_t)len) {
					if (len > maxlen) DIE("seed %llu: %u bytes accepted, max %zu", (unsigned long long)seed, len, maxlen);
					if (qt - qh >= QMAX) DIE("model queue overflow");
					q_seq[qt % QMAX] = seq; q_len[qt % QMAX] = len; q_kind[qt % QMAX] = kind; qt++;
					n_ok++;
				} else if (r == -EAGAIN) {
					n_ref++;
					if (qt == qh && len <= maxlen)
						DIE("seed %llu: empty ring (req %zu) refused %u bytes", (unsigned long long)seed, req, len);
				} else DIE("seed %llu: write %u -> %zd", (unsigned long long)seed, len, r);
				seq++;
			} else {
				ssize_t r;
				const uint8_t *src;
				int how = rnd(&g) % 3;
				if (how == 0) {
					void *p = NULL;
					r = qb_rb_chunk_peek(rb, &p, 0);
					if (qt == qh) {
						if (!(r == 0 || r == -EBADMSG)) DIE("seed %llu: peek on empty ring -> %zd", (unsigned long long)seed, r);
						continue;
					}
					if (r < 0) DIE("seed %llu: peek with %u chunks queued -> %zd", (unsigned long long)seed, qt - qh, r);
					src = p;
				} else {
					if (how == 1 && qt != qh && q_len[qh % QMAX] > 0) {
						size_t cap = rnd(&g) % q_len[qh % QMAX];
						r = qb_rb_chunk_read(rb, rbuf, cap, 0);
						if (r != -ENOBUFS) DIE("seed %llu: read cap %zu of %u-byte chunk -> %zd", (unsigned long long)seed, cap, q_len[qh % QMAX], r);
					}
					r = qb_rb_chunk_read(rb, rbuf, sizeof(rbuf), 0);
					if (qt == qh) {
						if (r != -ETIMEDOUT) DIE("seed %llu: read on empty ring -> %zd", (unsigned long long)seed, r);
						continue;
					}
					if (r < 0) DIE("seed %llu: read with %u chunks queued -> %zd", (unsigned long long)seed, qt - qh, r);
					src = rbuf;
				}
				if ((uint32_t)r != q_len[qh % QMAX])
					DIE("seed %llu: chunk seq %u: got len %zd, wrote %u", (unsigned long long)seed, q_seq[qh % QMAX], r, q_len[qh % QMAX]);
				for (i = 0; i < (uint32_t)r; i++)
					if (src[i] != pat(q_seq[qh % QMAX], i, q_kind[qh % QMAX]))
						DIE("seed %llu: chunk seq %u len %zd byte %u: %02x != %02x", (unsigned long long)seed, q_seq[qh % QMAX], r, i, src[i], pat(q_seq[qh % QMAX], i, q_kind[qh % QMAX]));
				if (how == 0) qb_rb_chunk_reclaim(rb);
				qh++; n_rd++;
				if (has_sem && qb_rb_chunks_used(rb) != (ssize_t)(qt - qh))
					DIE("seed %llu: chunks_used %zd, model %u", (unsigned long long)seed, qb_rb_chunks_used(rb), qt - qh);
			}
		}
		qb_rb_close(rb);
	}
	printf("seq seed %llu: ops=%ld writes ok=%ld refused=%ld reads=%ld\n", (unsigned long long)seed, done_ops, n_ok, n_ref, n_rd);
	return 0;
}

/* ------------------------------------------------------------------ */
/* two parties, free running                                           */
/* ------------------------------------------------------------------ */
enum { ST_NONE, ST_PENDING, ST_OK, ST_REFUSED };
struct shared_model {
	uint32_t n_seq;			/* atomics */
	uint32_t writer_done;
	uint32_t len[1 << 20];
	uint8_t st[1 << 20];
	uint8_t kind[1 << 20];
};
static struct shared_model *M;
static int g_mode; static size_t g_req, g_maxlen; static long g_writes; static uint64_t g_seed;
static char g_name[64];
static int g_use_peek;

#define ALOAD(x) __atomic_load_n(&(x), __ATOMIC_SEQ_CST)
#define ASTORE(x, v) __atomic_store_n(&(x), (v), __ATOMIC_SEQ_CST)

static void *writer_thr(void *arg)
{
	qb_ringbuffer_t *rb = arg;
	struct rng g;
	static uint8_t wbuf[1 << 17];
	long k, ok = 0, ref = 0;
	rseed(&g, g_seed * 2 + 1);
	for (k = 0; k < g_writes; k++) {
		uint32_t seq = k, len = pick_len(&g, g_maxlen), i;
		int kind = (rnd(&g) % 4 == 0) ? 1 + rnd(&g) % 2 : 0;
		ssize_t r;
		if (g_use_peek && len == 0) len = 1;
		for (i = 0; i < len; i++) wbuf[i] = pat(seq, i, kind);
		ASTORE(M->len[seq], len); ASTORE(M->kind[seq], kind); ASTORE(M->st[seq], ST_PENDING);
		ASTORE(M->n_seq, seq + 1);
		if (rnd(&g) & 1) r = qb_rb_chunk_write(rb, wbuf, len);
		else {
			void *p = qb_rb_chunk_alloc(rb, len);
			if (!p) r = -errno;
			else { memcpy(p, wbuf, len); r = qb_rb_chunk_commit(rb, len); if (r == 0) r = len; }
		}
		if (r == (ssize_t)len) {
			if (len > g_maxlen) DIE("%u bytes accepted, max %zu", len, g_maxlen);
			ASTORE(M->st[seq], ST_OK); ok++;
		} else if (r == -EAGAIN) {
			ASTORE(M->st[seq], ST_REFUSED); ref++;
			if ((rnd(&g) & 3) == 0) sched_yield();
		} else DIE("write seq %u len %u -> %zd", seq, len, r);
		if ((rnd(&g) & 63) == 0) usleep(rnd(&g) % 50);
	}
	ASTORE(M->writer_done, 1);
	fprintf(stderr, "writer: ok=%ld refused=%ld\n", ok, ref);
	return NULL;
}

static void *reader_thr(void *arg)
{
	qb_ringbuffer_t *rb = arg;
	struct rng g;
	static uint8_t rbuf[1 << 17];
	uint32_t next = 0;
	long got = 0, empty = 0, badmsg = 0;
	int idle = 0;
	rseed(&g, g_seed * 2 + 2);
	for (;;) {
		ssize_t r;
		const uint8_t *src = rbuf;
		int peeked = 0;
		int tmo = g_mode ? (int)(rnd(&g) % 3) : 0;	/* 0,1,2 ms */
		uint32_t wd = ALOAD(M->writer_done);
		if (g_use_peek && (rnd(&g) & 1)) {
			void *p = NULL;
			r = qb_rb_chunk_peek(rb, &p, tmo);
			if (r == 0) r = -ETIMEDOUT;
			else if (r > 0) { src = p; peeked = 1; }
		} else {
			r = qb_rb_chunk_read(rb, rbuf, sizeof(rbuf), tmo);
		}
		if (r < 0) {
			if (r == -EBADMSG) badmsg++;
			else if (r != -ETIMEDOUT) DIE("read -> %zd", r);
			empty++;
			if (wd) { if (++idle >= 3) break; }
			if ((rnd(&g) & 15) == 0) sched_yield();
			continue;
		}
		idle = 0;
		{
			uint32_t s = next, i, len, n = ALOAD(M->n_seq);
			int kind, st;
			while (s < n && ALOAD(M->st[s]) == ST_REFUSED) s++;
			if (s >= n) DIE("read returned a chunk (len %zd) but nothing is outstanding (next=%u n=%u)", r, next, n);
			st = ALOAD(M->st[s]); len = ALOAD(M->len[s]); kind = ALOAD(M->kind[s]);
			if ((uint32_t)r != len) DIE("chunk seq %u: read len %zd, written %u (st %d)", s, r, len, st);
			for (i = 0; i < len; i++)
				if (src[i] != pat(s, i, kind)) DIE("chunk seq %u len %u byte %u: %02x != %02x", s, len, i, src[i], pat(s, i, kind));
			next = s + 1; got++;
		}
		if (peeked) qb_rb_chunk_reclaim(rb);
	}
	{
		uint32_t s, n = ALOAD(M->n_seq);
		for (s = next; s < n; s++)
			if (ALOAD(M->st[s]) == ST_OK) DIE("chunk seq %u (len %u) accepted but never delivered", s, M->len[s]);
	}
	fprintf(stderr, "reader: got=%ld empty=%ld badmsg=%ld\n", got, empty, badmsg);
	return NULL;
}

static int run_two(int procs, uint64_t seed, long writes, int mode)
{
	struct rng g;
	uint32_t flags = QB_RB_FLAG_CREATE;
	qb_ringbuffer_t *rb;
	rseed(&g, seed);
	g_seed = seed; g_writes = writes; g_mode = mode;
	if (writes > (1 << 20)) writes = g_writes = 1 << 20;
	M = mmap(NULL, sizeof(*M), PROT_READ | PROT_WRITE, MAP_SHARED | MAP_ANONYMOUS, -1, 0);
	if (M == MAP_FAILED) { perror("mmap"); return 2; }
	g_req = pick_req(&g);
	g_use_peek = rnd(&g) & 1;
	if (mode == 0) flags |= QB_RB_FLAG_NO_SEMAPHORE;
	if (mode == 2 || procs) flags |= QB_RB_FLAG_SHARED_PROCESS;
	snprintf(g_name, sizeof(g_name), "huntC01-f2-%d", (int)getpid());
	rb = qb_rb_open(g_name, g_req, flags, 0);
	if (!rb) { perror("open"); return 2; }
	g_maxlen = (size_t)rb->shared_hdr->word_size * 4 - 12;
	fprintf(stderr, "%s seed %llu mode %d req %zu W %u peek %d writes %ld\n", procs ? "proc" : "thr",
		(unsigned long long)seed, mode, g_req, rb->shared_hdr->word_size, g_use_peek, writes);
	if (!procs) {
		pthread_t tw, tr;
		pthread_create(&tr, NULL, reader_thr, rb);
		pthread_create(&tw, NULL, writer_thr, rb);
		pthread_join(tw, NULL); pthread_join(tr, NULL);
	} else {
		int stw, str;
		pid_t pr = fork();
		if (pr == 0) {
			qb_ringbuffer_t *rb2 = qb_rb_open(g_name, g_req, flags & ~QB_RB_FLAG_CREATE, 0);
			if (!rb2) { perror("open2"); _exit(2); }
			reader_thr(rb2);
			qb_rb_close(rb2);
			_exit(0);
		}
		pid_t pw = fork();
		if (pw == 0) { writer_thr(rb); _exit(0); }
		waitpid(pw, &stw, 0); waitpid(pr, &str, 0);
		if (stw || str) { fprintf(stderr, "child status w=%x r=%x\n", stw, str); qb_rb_close(rb); return 1; }
	}
	qb_rb_close(rb);
	return 0;
}

int main(int argc, char **argv)
{
	uint64_t seed = argc > 2 ? strtoull(argv[2], 0, 0) : 1;
	long n = argc > 3 ? atol(argv[3]) : 100000;
	int mode = argc > 4 ? atoi(argv[4]) : 1;
	if (argc < 2) { fprintf(stderr, "usage\n"); return 2; }
	if (!strcmp(argv[1], "seq")) return run_seq(seed, n);
	if (!strcmp(argv[1], "thr")) return run_two(0, seed, n, mode);
	if (!strcmp(argv[1], "proc")) return run_two(1, seed, n, mode);
	return 2;
}
