/*
 * C06 demo: a peer whose (valid) handshake is refused because the server runs
 * out of descriptors half way through qb_ipcs_us_connect() leaves a datagram
 * socket behind in the server - for good.
 * exit 0: property held; exit 1: violated
 */
#include "os_base.h"
#include <poll.h>
#include <sys/un.h>
#include <sys/mman.h>
#include <qb/qbdefs.h>
#include <qb/qbipcs.h>
#include <qb/qbloop.h>
#include <qb/qbrb.h>
#include "util_int.h"
#include "ipc_int.h"
#include "ringbuffer_int.h"

struct pe { int used, fd, events; void *data; qb_ipcs_dispatch_fn_t fn; };
static struct pe pes[32];
static struct pe *pe_find(int fd) { int i; for (i = 0; i < 32; i++) if (pes[i].used && pes[i].fd == fd) return &pes[i]; return NULL; }
static int32_t my_add(enum qb_loop_priority p, int32_t fd, int32_t ev, void *d, qb_ipcs_dispatch_fn_t fn)
{ int i; if (pe_find(fd)) return -EEXIST; for (i = 0; i < 32; i++) if (!pes[i].used) { pes[i] = (struct pe){1, fd, ev, d, fn}; return 0; } return -ENOMEM; }
static int32_t my_mod(enum qb_loop_priority p, int32_t fd, int32_t ev, void *d, qb_ipcs_dispatch_fn_t fn)
{ struct pe *e = pe_find(fd); if (!e) return -ENOENT; e->events = ev; e->data = d; e->fn = fn; return 0; }
static int32_t my_del(int32_t fd) { struct pe *e = pe_find(fd); if (!e) return -ENOENT; e->used = 0; return 0; }
static void pump(void)
{
	int round;
	for (round = 0; round < 10; round++) {
		struct pollfd pf[32]; int n = 0, i;
		for (i = 0; i < 32; i++) if (pes[i].used) { pf[n].fd = pes[i].fd; pf[n].events = pes[i].events; pf[n++].revents = 0; }
		if (poll(pf, n, 0) <= 0) break;
		for (i = 0; i < n; i++) {
			struct pe *e = pf[i].revents ? pe_find(pf[i].fd) : NULL;
			if (e) { void *d = e->data; qb_ipcs_dispatch_fn_t fn = e->fn;
				if (fn(pf[i].fd, pf[i].revents, d) < 0) { e = pe_find(pf[i].fd); if (e && e->data == d) e->used = 0; } }
		}
	}
}

#include <dirent.h>
#include <sys/resource.h>
static int cb_calls, accepts;
static int32_t cb_accept(qb_ipcs_connection_t *c, uid_t u, gid_t g) { accepts++; return 0; }
static int32_t cb_msg(qb_ipcs_connection_t *c, void *data, size_t size) { cb_calls++; return 0; }
static int32_t cb_closed(qb_ipcs_connection_t *c) { return 0; }
static int count_fds(void)
{
	DIR *d = opendir("/proc/self/fd"); struct dirent *e; int n = 0;
	while ((e = readdir(d))) if (e->d_name[0] != '.') n++;
	closedir(d);
	return n - 1;
}

int main(void)
{
	struct qb_ipcs_service_handlers h = { cb_accept, NULL, cb_msg, cb_closed, NULL };
	struct qb_ipcs_poll_handlers ph = { NULL, my_add, my_mod, my_del };
	char name[64]; qb_ipcs_service_t *s; struct sockaddr_un a; int fd, i, base, now;
	struct qb_ipc_connection_request rq; static struct qb_ipc_connection_response r;

	signal(SIGPIPE, SIG_IGN);
	snprintf(name, sizeof name, "h3c06d2-%d", getpid());
	s = qb_ipcs_create(name, 0, QB_IPC_SOCKET, &h);
	qb_ipcs_poll_handlers_set(s, &ph);
	if (qb_ipcs_run(s) != 0) return 2;
	memset(&a, 0, sizeof a); a.sun_family = AF_UNIX; snprintf(a.sun_path + 1, UNIX_PATH_MAX - 1, "%s", name);
	memset(&rq, 0, sizeof rq); rq.hdr.id = QB_IPC_MSG_AUTHENTICATE; rq.hdr.size = sizeof rq; rq.max_msg_size = 20000;
	pump();
	base = count_fds();
	printf("descriptors open with no peer around: %d\n", base);
	for (i = 0; i < 10; i++) {
		struct rlimit old, nl; size_t got = 0;
		fd = socket(PF_UNIX, SOCK_STREAM | SOCK_NONBLOCK, 0);
		if (connect(fd, (struct sockaddr *)&a, sizeof a)) { perror("connect"); return 2; }
		send(fd, &rq, sizeof rq, 0);
		/* the server is close to its descriptor limit (idle peers that sit on
		 * the service socket get it there): room for the accepted stream
		 * socket, the control file and ONE of the two datagram sockets */
		getrlimit(RLIMIT_NOFILE, &old); nl = old; nl.rlim_cur = count_fds() + 2; setrlimit(RLIMIT_NOFILE, &nl);
		pump();
		setrlimit(RLIMIT_NOFILE, &old);
		memset(&r, 0, sizeof r);
		while (got < sizeof r) { ssize_t k = recv(fd, (char *)&r + got, sizeof r - got, 0); if (k <= 0) break; got += k; }
		close(fd);                       /* the peer goes away */
		pump(); pump();
		now = count_fds();
		printf("peer %d: answered error=%d (%s); gone; descriptors open now: %d\n", i, r.hdr.error, strerror(-r.hdr.error), now);
	}
	printf("msg_process calls: %d\n", cb_calls);
	if (now != base) { printf("VIOLATED: %d descriptors of refused peers are still open after all of them went away\n", now - base); return 1; }
	printf("property held\n");
	qb_ipcs_destroy(s);
	return 0;
}
