#!/bin/sh
# usage: build.sh [tree] [out]
T=${1:-/repo}
O=${2:-/tmp/hunt3-C06/fuzz}
D=$(dirname "$0")
gcc -g -O1 -fsanitize=address,undefined -fno-sanitize=alignment -fno-omit-frame-pointer -DHAVE_CONFIG_H \
  -I$T/include -I$T/include/qb -I$T/lib \
  $D/fuzz.c $T/lib/ipc_setup.c $T/lib/ipc_socket.c $T/lib/ipcs.c $T/lib/ipc_shm.c \
  $T/lib/ringbuffer.c $T/lib/ringbuffer_helper.c $T/lib/unix.c \
  -L$T/lib/.libs -lqb -lpthread -o $O
