#!/bin/sh
# usage: demo.sh <tree>   (exit 0 = property held, non-zero = violated)
T=${1:-/repo}
D=$(cd "$(dirname "$0")" && pwd)
O=/tmp/hunt3-C06/finding1/demo.$$
gcc -g -O1 -fsanitize=address,undefined -fno-sanitize=alignment -fno-omit-frame-pointer -DHAVE_CONFIG_H -w \
  -I$T/include -I$T/include/qb -I$T/lib $D/demo.c \
  $T/lib/ipc_setup.c $T/lib/ipc_socket.c $T/lib/ipcs.c $T/lib/ipc_shm.c \
  $T/lib/ringbuffer.c $T/lib/ringbuffer_helper.c $T/lib/unix.c \
  -L$T/lib/.libs -lqb -lpthread -o $O || exit 2
LD_LIBRARY_PATH=$T/lib/.libs ASAN_OPTIONS=detect_leaks=0 $O
rc=$?
rm -f $O
exit $rc
