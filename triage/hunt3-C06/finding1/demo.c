/*
 * C06 demo: an accepted shm client moves the request ring's read index
 * (a word in the shared ring header that it has mapped read/write) beyond
 * the ring.  The server then takes the "chunk length" from memory that does
 * not belong to the connection, hands that length to msg_process(), and on
 * reclaim writes 0 / a dead-magic word there.
 *
 * exit 0: property held (server refused / disconnected, canary untouched)
 * exit 1: violated (canary read as a length and/or overwritten)
 */
#include "os_base.h"
#include <poll.h>
#include <sys/un.h>
#include <sys/mman.h>
#include <qb/qbdefs.h>
#include <qb/qbipcs.h>
#include <qb/qbloop.h>
#include <qb/qbrb.h>
#include "util_int.h"
#include "ipc_int.h"
#include "ringbuffer_int.h"

struct pe { int used, fd, events; void *data; qb_ipcs_dispatch_fn_t fn; };
static struct pe pes[32];
static struct pe *pe_find(int fd) { int i; for (i = 0; i < 32; i++) if (pes[i].used && pes[i].fd == fd) return &pes[i]; return NULL; }
static int32_t my_add(enum qb_loop_priority p, int32_t fd, int32_t ev, void *d, qb_ipcs_dispatch_fn_t fn)
{ int i; if (pe_find(fd)) return -EEXIST; for (i = 0; i < 32; i++) if (!pes[i].used) { pes[i] = (struct pe){1, fd, ev, d, fn}; return 0; } return -ENOMEM; }
static int32_t my_mod(enum qb_loop_priority p, int32_t fd, int32_t ev, void *d, qb_ipcs_dispatch_fn_t fn)
{ struct pe *e = pe_find(fd); if (!e) return -ENOENT; e->events = ev; e->data = d; e->fn = fn; return 0; }
static int32_t my_del(int32_t fd) { struct pe *e = pe_find(fd); if (!e) return -ENOENT; e->used = 0; return 0; }
static void pump(void)
{
	int round;
	for (round = 0; round < 10; round++) {
		struct pollfd pf[32]; int n = 0, i;
		for (i = 0; i < 32; i++) if (pes[i].used) { pf[n].fd = pes[i].fd; pf[n].events = pes[i].events; pf[n++].revents = 0; }
		if (poll(pf, n, 0) <= 0) break;
		for (i = 0; i < n; i++) {
			struct pe *e = pf[i].revents ? pe_find(pf[i].fd) : NULL;
			if (e) { void *d = e->data; qb_ipcs_dispatch_fn_t fn = e->fn;
				if (fn(pf[i].fd, pf[i].revents, d) < 0) { e = pe_find(pf[i].fd); if (e && e->data == d) e->used = 0; } }
		}
	}
}

static size_t cb_size; static int cb_calls, closed;
static int32_t cb_accept(qb_ipcs_connection_t *c, uid_t u, gid_t g) { return 0; }
static int32_t cb_msg(qb_ipcs_connection_t *c, void *data, size_t size) { cb_calls++; cb_size = size; return 0; }
static int32_t cb_closed(qb_ipcs_connection_t *c) { closed++; return 0; }

int main(void)
{
	struct qb_ipcs_service_handlers h = { cb_accept, NULL, cb_msg, cb_closed, NULL };
	struct qb_ipcs_poll_handlers ph = { NULL, my_add, my_mod, my_del };
	char name[64]; qb_ipcs_service_t *s; struct sockaddr_un a; int fd, bad = 0;
	struct qb_ipc_connection_request rq; static struct qb_ipc_connection_response r;
	qb_ringbuffer_t *rq_rb, *rs_rb, *ev_rb; struct qb_ipcs_connection *c;
	uint32_t *canary, ws, idx; struct qb_ipc_request_header hd; size_t got = 0;

	signal(SIGPIPE, SIG_IGN);
	/* memory of the server that has nothing to do with the connection */
	canary = mmap(NULL, 4096, PROT_READ | PROT_WRITE, MAP_PRIVATE | MAP_ANONYMOUS, -1, 0);
	memset(canary, 0xff, 4096);
	canary[0] = 48; /* whatever lies there is taken for the chunk length */

	snprintf(name, sizeof name, "h3c06d1-%d", getpid());
	s = qb_ipcs_create(name, 0, QB_IPC_SHM, &h);
	qb_ipcs_poll_handlers_set(s, &ph);
	if (qb_ipcs_run(s) != 0) return 2;

	/* a well-behaved handshake */
	fd = socket(PF_UNIX, SOCK_STREAM | SOCK_NONBLOCK, 0);
	memset(&a, 0, sizeof a); a.sun_family = AF_UNIX; snprintf(a.sun_path + 1, UNIX_PATH_MAX - 1, "%s", name);
	if (connect(fd, (struct sockaddr *)&a, sizeof a)) { perror("connect"); return 2; }
	memset(&rq, 0, sizeof rq); rq.hdr.id = QB_IPC_MSG_AUTHENTICATE; rq.hdr.size = sizeof rq; rq.max_msg_size = 8192;
	send(fd, &rq, sizeof rq, 0);
	pump();
	while (got < sizeof r) { ssize_t k = recv(fd, (char *)&r + got, sizeof r - got, 0); if (k <= 0) break; got += k; }
	if (got != sizeof r || r.hdr.error) { fprintf(stderr, "handshake failed\n"); return 2; }
	rq_rb = qb_rb_open(r.request, r.max_msg_size, QB_RB_FLAG_SHARED_PROCESS, sizeof(int32_t));
	rs_rb = qb_rb_open(r.response, r.max_msg_size, QB_RB_FLAG_SHARED_PROCESS, 0);
	ev_rb = qb_rb_open(r.event, r.max_msg_size, QB_RB_FLAG_SHARED_PROCESS, 0);
	if (!rq_rb || !rs_rb || !ev_rb) return 2;
	c = (struct qb_ipcs_connection *)r.connection;
	ws = rq_rb->shared_hdr->word_size;

	/* one ordinary request first: everything works */
	hd.id = 1; hd.size = sizeof hd;
	qb_rb_chunk_write(rq_rb, &hd, sizeof hd); send(fd, "x", 1, 0); pump();
	printf("ordinary request: msg_process calls=%d size=%zu\n", cb_calls, cb_size);

	/* now the read index is pointed at the canary (an index relative to the
	 * server's mapping; in this single-process demo we simply compute it) */
	if ((char *)canary < (char *)c->request.u.shm.rb->shared_data ||
	    ((char *)canary - (char *)c->request.u.shm.rb->shared_data) / 4 > 0xfffffff0ull) {
		fprintf(stderr, "canary not reachable with a 32-bit index in this layout\n"); return 2;
	}
	idx = ((char *)canary - (char *)c->request.u.shm.rb->shared_data) / 4;
	printf("ring: %u words (mapped twice = %u); read_pt set to %u\n", ws, 2 * ws, idx);
	hd.id = 2; hd.size = 20;
	rq_rb->shared_data[(idx + 1) % ws] = 0xA1A1A1A1;                  /* magic, inside the ring */
	memcpy(&rq_rb->shared_data[(idx + 2) % ws], &hd, sizeof hd);     /* request header, inside the ring */
	rq_rb->shared_hdr->read_pt = idx;
	rq_rb->notifier.post_fn(rq_rb->notifier.instance, 0);
	send(fd, "x", 1, 0);
	cb_calls = 0; cb_size = 0;
	pump();
	printf("after the forged index: msg_process calls=%d size=%zu closed=%d canary[0]=%#x canary[1]=%#x\n",
	       cb_calls, cb_size, closed, canary[0], canary[1]);
	if (canary[0] != 48 || canary[1] != 0xffffffff) { printf("VIOLATED: the server wrote outside the buffers of the connection\n"); bad = 1; }
	if (cb_calls && cb_size > 16) { printf("VIOLATED: the server accepted a chunk whose length word (48) it read outside the ring\n"); bad = 1; }
	close(fd); pump();
	qb_rb_close(rq_rb); qb_rb_close(rs_rb); qb_rb_close(ev_rb);
	qb_ipcs_destroy(s);
	if (!bad) printf("property held\n");
	return bad;
}
