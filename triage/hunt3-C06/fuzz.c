/*
 * C06 model-based randomized tester.
 *
 * Single process, single thread: the libqb IPC server is driven by a tiny
 * poll loop of our own (the qb_ipcs poll handlers), the peers are raw
 * sockets / raw ring writers living in the same thread.  After every peer
 * action the server is "pumped" until it has nothing to do, then the model
 * is compared with what the callbacks saw.
 *
 * usage: fuzz <seed> <ops> [verbose]
 */
#include "os_base.h"
#include <poll.h>
#include <sys/un.h>
#include <sys/mman.h>
#include <dirent.h>
#include <signal.h>
#include <qb/qbdefs.h>
#include <qb/qbatomic.h>
#include <qb/qbipcs.h>
#include <qb/qbloop.h>
#include <qb/qbrb.h>
#include "util_int.h"
#include "ipc_int.h"
#include "ringbuffer_int.h"

extern size_t __sanitizer_get_current_allocated_bytes(void);

#define RB_MAGIC 0xA1A1A1A1

static int verbose;
static unsigned long long rng_state;
static unsigned rnd(void)
{
	rng_state = rng_state * 6364136223846793005ULL + 1442695040888963407ULL;
	return (unsigned)(rng_state >> 33);
}
static unsigned rndn(unsigned n) { return n ? rnd() % n : 0; }

static int violations;
static char lastop[256];
#define VIOL(...) do { violations++; fprintf(stderr, "VIOLATION: " __VA_ARGS__); \
	fprintf(stderr, "   [last op: %s]\n", lastop); } while (0)
#define OP(...) do { snprintf(lastop, sizeof lastop, __VA_ARGS__); \
	if (verbose) fprintf(stderr, "op: %s\n", lastop); } while (0)

/* ------------------------------------------------------------------ */
/* mini poll loop */
struct pe { int used; int fd; int events; void *data; qb_ipcs_dispatch_fn_t fn; };
#define MAXPE 256
static struct pe pes[MAXPE];
static int npe_used(void) { int i, n = 0; if (0) return 0; for (i = 0; i < MAXPE; i++) n += pes[i].used; return n; }
static struct pe *pe_find(int fd) { int i; for (i = 0; i < MAXPE; i++) if (pes[i].used && pes[i].fd == fd) return &pes[i]; return NULL; }

static qb_loop_t *loop; /* non-NULL: the real qb_loop is the poll backend */
static int32_t my_add(enum qb_loop_priority p, int32_t fd, int32_t ev, void *d, qb_ipcs_dispatch_fn_t fn)
{
	int i;
	if (loop) return qb_loop_poll_add(loop, p, fd, ev, d, fn);
	if (pe_find(fd)) return -EEXIST;
	for (i = 0; i < MAXPE; i++) if (!pes[i].used) {
		pes[i].used = 1; pes[i].fd = fd; pes[i].events = ev; pes[i].data = d; pes[i].fn = fn;
		return 0;
	}
	return -ENOMEM;
}
static int32_t my_mod(enum qb_loop_priority p, int32_t fd, int32_t ev, void *d, qb_ipcs_dispatch_fn_t fn)
{
	struct pe *e;
	if (loop) return qb_loop_poll_mod(loop, p, fd, ev, d, fn);
	e = pe_find(fd);
	if (!e) return -ENOENT;
	e->events = ev; e->data = d; e->fn = fn;
	return 0;
}
static int32_t my_del(int32_t fd)
{
	struct pe *e;
	if (loop) return qb_loop_poll_del(loop, fd);
	e = pe_find(fd);
	if (!e) return -ENOENT;
	e->used = 0;
	return 0;
}
struct job { void *data; qb_loop_job_dispatch_fn fn; };
static struct job jobs[64]; static int njobs;
static int32_t my_job_add(enum qb_loop_priority p, void *data, qb_loop_job_dispatch_fn fn)
{
	if (loop) return qb_loop_job_add(loop, p, data, fn);
	if (njobs >= 64) return -ENOMEM;
	jobs[njobs].data = data; jobs[njobs].fn = fn; njobs++;
	return 0;
}

static int stop_count;
static void stopper(void *d)
{
	qb_loop_stop(loop);
}
static void pump(void)
{
	int round;
	if (loop) { qb_loop_timer_handle th; qb_loop_timer_add(loop, QB_LOOP_LOW, 300 * QB_TIME_NS_IN_USEC, NULL, stopper, &th); alarm(30); qb_loop_run(loop); alarm(0); return; }
	for (round = 0; round < 40; round++) {
		struct pollfd pf[MAXPE]; int n = 0, i, r;
		while (njobs > 0) { struct job j = jobs[0]; memmove(jobs, jobs + 1, sizeof(struct job) * --njobs); j.fn(j.data); }
		for (i = 0; i < MAXPE; i++) if (pes[i].used) { pf[n].fd = pes[i].fd; pf[n].events = pes[i].events; pf[n].revents = 0; n++; }
		r = poll(pf, n, 0);
		if (r <= 0) break;
		for (i = 0; i < n; i++) {
			struct pe *e; void *d; qb_ipcs_dispatch_fn_t fn; int rc;
			if (!pf[i].revents) continue;
			e = pe_find(pf[i].fd);
			if (!e) continue;
			d = e->data; fn = e->fn;
			alarm(20);
			rc = fn(pf[i].fd, pf[i].revents, d);
			alarm(0);
			if (rc < 0) { e = pe_find(pf[i].fd); if (e && e->data == d && e->fn == fn) e->used = 0; }
		}
	}
}

/* ------------------------------------------------------------------ */
/* peers */
struct peer {
	int used, type;           /* 0 socket, 1 shm */
	int setup_fd;
	int accepted;             /* handshake answered with error 0 */
	size_t hs_sent;           /* handshake bytes written so far */
	unsigned char hs[64];     /* the first bytes of them */
	int expect_accept_cb;
	uint32_t max;             /* negotiated */
	struct qb_ipc_connection_response r;
	int req_fd, ev_fd; int32_t *ctl;
	qb_ringbuffer_t *rq, *rs, *ev;
	void *srv;                /* the server's connection */
	int srv_closed, srv_destroyed;
	size_t out_max;           /* longest thing sent since last pump */
	uint32_t last_chunk;
	unsigned msgs;
};
#define MAXPEER 24
static struct peer peers[MAXPEER];
static qb_ipcs_service_t *svc[2];
static char svcname[2][64];
static uint32_t enforce[2];
static unsigned long total_msgs, accept_calls, created_calls, closed_calls, destroyed_calls, expected_accepts, maybe_accepts;
static int accept_policy; /* 0 accept, else reject */
static int cb_behaviour;
static unsigned long n_ops;

static struct peer *peer_by_srv(void *c) { int i; for (i = 0; i < MAXPEER; i++) if (peers[i].used && peers[i].srv == c) return &peers[i]; return NULL; }

static int32_t cb_accept(qb_ipcs_connection_t *c, uid_t u, gid_t g)
{
	accept_calls++;
	if (accept_policy == 1) return -EACCES;
	if (accept_policy == 2) return -EAGAIN;
	return 0;
}
static void cb_created(qb_ipcs_connection_t *c) { created_calls++; }
static int32_t cb_closed(qb_ipcs_connection_t *c)
{
	struct peer *p = peer_by_srv(c);
	closed_calls++;
	if (p) p->srv_closed = 1;
	return 0;
}
static void cb_destroyed(qb_ipcs_connection_t *c)
{
	struct peer *p = peer_by_srv(c);
	destroyed_calls++;
	if (p) { p->srv_destroyed = 1; p->srv = NULL; }
}

static int count_fds(void);
static volatile unsigned sink;
static int32_t cb_msg(qb_ipcs_connection_t *c, void *data, size_t size)
{
	struct peer *p = peer_by_srv(c);
	struct qb_ipc_request_header *h = data;
	size_t i; unsigned s = 0;
	total_msgs++;
	if (!p || !p->accepted) {
		VIOL("msg_process for a connection no accepted peer owns (c=%p size=%zu)\n", (void *)c, size);
		return 0;
	}
	p->msgs++;
	if (size > p->max)
		VIOL("msg_process size %zu > negotiated max %u\n", size, p->max);
	if (!loop && p->type == 0 && size > p->out_max)
		VIOL("msg_process size %zu > longest message actually sent %zu (type %d)\n", size, p->out_max, p->type);
	if (size < sizeof(*h))
		VIOL("msg_process size %zu < header\n", size);
	if (p->type == 1) {
		struct qb_ringbuffer_s *rb = c->request.u.shm.rb;
		char *lo = (char *)rb->shared_data;
		char *hi = lo + 2 * (size_t)rb->shared_hdr->word_size * 4;
		if ((char *)data < lo || (char *)data + size > hi)
			VIOL("msg_process data %p+%zu outside the ring %p..%p\n", data, size, (void *)lo, (void *)hi);
		else
			for (i = 0; i < size; i++) s += ((unsigned char *)data)[i];
		{	/* the oracle: the length word of the chunk the server is looking at */
			uint32_t rp = rb->shared_hdr->read_pt, ws = rb->shared_hdr->word_size;
			uint32_t cw = rb->shared_data[rp];
			if (size > cw)
				VIOL("msg_process size %zu > chunk length word %u\n", size, cw);
			if (data != (void *)&rb->shared_data[(rp + 2) % ws])
				VIOL("msg_process data %p is not the chunk at the read index\n", data);
		}
	} else {
		for (i = 0; i < size; i++) s += ((unsigned char *)data)[i];   /* asan checks it */
		if (size >= 24) {
			uint32_t tag; memcpy(&tag, (char *)data + 16, 4);
			if (size > tag)
				VIOL("msg_process size %zu > datagram length %u\n", size, tag);
		}
		if ((size_t)h->size != size)
			VIOL("msg_process size %zu != hdr->size %d (socket)\n", size, h->size);
	}
	sink += s;
	switch (cb_behaviour) {
	case 1: { struct qb_ipc_response_header rh = { .id = 7, .size = sizeof rh, .error = 0 };
		  (void)qb_ipcs_response_send(c, &rh, sizeof rh); break; }
	case 2: return -1;
	case 3: qb_ipcs_disconnect(c); break;
	case 4: { char ev[64]; struct qb_ipc_response_header *rh = (void *)ev; memset(ev, 0, sizeof ev);
		  rh->id = 9; rh->size = sizeof ev; (void)qb_ipcs_event_send(c, ev, sizeof ev); break; }
	}
	return 0;
}

/* ------------------------------------------------------------------ */
static int count_fds(void)
{
	DIR *d = opendir("/proc/self/fd"); struct dirent *e; int n = 0;
	while ((e = readdir(d))) if (e->d_name[0] != '.') n++;
	closedir(d);
	return n - 1;
}
static int count_shm(void)
{
	char pfx[64]; DIR *d = opendir("/dev/shm"); struct dirent *e; int n = 0;
	snprintf(pfx, sizeof pfx, "qb-%d-%d-", getpid(), getpid());
	while ((e = readdir(d))) if (!strncmp(e->d_name, pfx, strlen(pfx))) n++;
	closedir(d);
	return n;
}

static void abstract_addr(struct sockaddr_un *a, const char *name)
{
	memset(a, 0, sizeof *a);
	a->sun_family = AF_UNIX;
	snprintf(a->sun_path + 1, UNIX_PATH_MAX - 1, "%s", name);
}

static struct peer *peer_new(int type)
{
	int i; struct sockaddr_un a; struct peer *p = NULL;
	for (i = 0; i < MAXPEER; i++) if (!peers[i].used) { p = &peers[i]; break; }
	if (!p) return NULL;
	memset(p, 0, sizeof *p);
	p->type = type; p->req_fd = p->ev_fd = -1;
	p->setup_fd = socket(PF_UNIX, SOCK_STREAM | SOCK_NONBLOCK | SOCK_CLOEXEC, 0);
	abstract_addr(&a, svcname[type]);
	if (connect(p->setup_fd, (struct sockaddr *)&a, sizeof a) != 0) { perror("connect"); close(p->setup_fd); return NULL; }
	p->used = 1;
	return p;
}

static void peer_release_client_side(struct peer *p)
{
	if (p->setup_fd >= 0) { close(p->setup_fd); p->setup_fd = -1; }
	if (p->req_fd >= 0) { close(p->req_fd); p->req_fd = -1; }
	if (p->ev_fd >= 0) { close(p->ev_fd); p->ev_fd = -1; }
	if (p->ctl) { munmap(p->ctl, 24); p->ctl = NULL; }
	if (p->rq) { qb_rb_close(p->rq); p->rq = NULL; }
	if (p->rs) { qb_rb_close(p->rs); p->rs = NULL; }
	if (p->ev) { qb_rb_close(p->ev); p->ev = NULL; }
}

static void peer_hs_write(struct peer *p, const void *buf, size_t len)
{
	ssize_t w = send(p->setup_fd, buf, len, MSG_NOSIGNAL);
	if (w > 0) {
		size_t k = 0;
		while (k < (size_t)w && p->hs_sent + k < sizeof p->hs) { p->hs[p->hs_sent + k] = ((unsigned char *)buf)[k]; k++; }
		p->hs_sent += w;
	}
}

/* has the server seen a complete authentication request from this peer? */
static int peer_hs_complete_valid(struct peer *p)
{
	struct qb_ipc_connection_request rq;
	if (p->hs_sent < sizeof rq) return 0;
	memcpy(&rq, p->hs, sizeof rq);
	return rq.hdr.id == QB_IPC_MSG_AUTHENTICATE;
}

/* after the pump: look for the server's answer and finish the set-up */
static void peer_try_finish(struct peer *p)
{
	char buf[sizeof(struct qb_ipc_connection_response)];
	ssize_t r;
	if (p->accepted || p->setup_fd < 0) return;
	r = recv(p->setup_fd, buf, sizeof buf, MSG_PEEK);
	if (r < (ssize_t)sizeof buf) return;
	r = recv(p->setup_fd, &p->r, sizeof p->r, 0);
	if (p->r.hdr.error != 0) return;
	if (!peer_hs_complete_valid(p))
		VIOL("peer accepted without a complete valid handshake (sent %zu)\n", p->hs_sent);
	p->accepted = 1;
	p->max = p->r.max_msg_size;
	p->srv = (void *)p->r.connection;
	if (p->type == 0) {
		struct sockaddr_un a; char nm[PATH_MAX]; int fd; int big = 4 * 1024 * 1024;
		fd = open(p->r.request, O_RDWR);
		if (fd >= 0) { p->ctl = mmap(0, 24, PROT_READ | PROT_WRITE, MAP_SHARED, fd, 0); close(fd); if (p->ctl == MAP_FAILED) p->ctl = NULL; }
		p->req_fd = socket(PF_UNIX, SOCK_DGRAM | SOCK_NONBLOCK | SOCK_CLOEXEC, 0);
		snprintf(nm, sizeof nm, "%s-response", p->r.response); abstract_addr(&a, nm);
		if (bind(p->req_fd, (struct sockaddr *)&a, sizeof a)) perror("bind resp");
		snprintf(nm, sizeof nm, "%s-request", p->r.response); abstract_addr(&a, nm);
		if (connect(p->req_fd, (struct sockaddr *)&a, sizeof a)) perror("connect req");
		setsockopt(p->req_fd, SOL_SOCKET, SO_SNDBUF, &big, sizeof big);
		p->ev_fd = socket(PF_UNIX, SOCK_DGRAM | SOCK_NONBLOCK | SOCK_CLOEXEC, 0);
		snprintf(nm, sizeof nm, "%s-event", p->r.response); abstract_addr(&a, nm);
		if (bind(p->ev_fd, (struct sockaddr *)&a, sizeof a)) perror("bind ev");
	} else {
		p->rq = qb_rb_open(p->r.request, p->max, QB_RB_FLAG_SHARED_PROCESS, sizeof(int32_t));
		p->rs = qb_rb_open(p->r.response, p->max, QB_RB_FLAG_SHARED_PROCESS, 0);
		p->ev = qb_rb_open(p->r.event, p->max, QB_RB_FLAG_SHARED_PROCESS, 0);
		if (!p->rq || !p->rs || !p->ev) fprintf(stderr, "client rb open failed\n");
	}
}

static void drain_client(struct peer *p)
{
	char buf[65536];
	if (p->setup_fd >= 0 && p->accepted) while (recv(p->setup_fd, buf, sizeof buf, 0) > 0) ;
	if (p->req_fd >= 0) while (recv(p->req_fd, buf, sizeof buf, 0) > 0) ;
	if (p->ev_fd >= 0) while (recv(p->ev_fd, buf, sizeof buf, 0) > 0) ;
	if (p->rs) while (qb_rb_chunk_read(p->rs, buf, sizeof buf, 0) > 0) ;
	if (p->ev) while (qb_rb_chunk_read(p->ev, buf, sizeof buf, 0) > 0) ;
}

static void after_pump(void)
{
	int i;
	for (i = 0; i < MAXPEER; i++) {
		struct peer *p = &peers[i];
		if (!p->used) continue;
		peer_try_finish(p);
		drain_client(p);
		p->out_max = 0;
		if (p->accepted && p->srv_closed) { peer_release_client_side(p); }
	}
}

#include <sys/resource.h>
static int squeeze = -1, squeeze_enabled;
static void step(void)
{
	struct rlimit old, nl;
	if (squeeze >= 0) { getrlimit(RLIMIT_NOFILE, &old); nl = old; nl.rlim_cur = count_fds() + 1 + squeeze; setrlimit(RLIMIT_NOFILE, &nl); }
	pump();
	if (squeeze >= 0) { setrlimit(RLIMIT_NOFILE, &old); squeeze = -1; }
	after_pump();
}

static uint32_t pick_max(void)
{
	static const uint32_t v[] = { 0, 1, 8, 15, 16, 17, 23, 24, 25, 100, 4095, 4096, 4097, 12311, 12312, 12313,
		20000, 65535, 65536, 65537, 131072, 200000, 524288, 1048576 };
	if (rndn(4) == 0) return rndn(300000);
	return v[rndn(sizeof v / sizeof v[0])];
}

static int force_valid_hs;
static void op_handshake(void)
{
	int type = rndn(2);
	struct peer *p = peer_new(type);
	struct qb_ipc_connection_request rq;
	unsigned char garbage[40000];
	int mode = rndn(12);
	size_t i;
	if (!p) return;
	if (force_valid_hs) mode = 0;
	memset(&rq, 0, sizeof rq);
	rq.hdr.id = QB_IPC_MSG_AUTHENTICATE; rq.hdr.size = sizeof rq; rq.max_msg_size = pick_max();
	accept_policy = (!force_valid_hs && rndn(8) == 0) ? 1 + rndn(2) : 0;
	switch (mode) {
	case 0: case 1: case 2: /* valid */
		if (squeeze_enabled && !force_valid_hs && rndn(3) == 0) squeeze = rndn(8);
		OP("hs valid type=%d max=%u policy=%d squeeze=%d", type, rq.max_msg_size, accept_policy, squeeze);
		peer_hs_write(p, &rq, sizeof rq);
		break;
	case 3: { /* prefix */
		size_t k = rndn(sizeof rq);
		OP("hs prefix %zu type=%d", k, type);
		peer_hs_write(p, &rq, k);
		break; }
	case 4: { /* mutated fields */
		static const int32_t ids[] = { 0, 1, -2, -3, -4, INT32_MAX, INT32_MIN, -1 };
		static const int32_t szs[] = { 0, -1, 1, 23, 25, INT32_MAX, INT32_MIN, 24 };
		rq.hdr.id = ids[rndn(8)]; rq.hdr.size = szs[rndn(8)];
		if (rndn(2)) rq.max_msg_size = rnd() | (rndn(2) << 31);
		if (rq.max_msg_size > 2u * 1024 * 1024 && rq.hdr.id == QB_IPC_MSG_AUTHENTICATE) rq.max_msg_size &= 0x1fffff; /* be kind to the machine */
		OP("hs mutated id=%d size=%d max=%u type=%d", rq.hdr.id, rq.hdr.size, rq.max_msg_size, type);
		peer_hs_write(p, &rq, sizeof rq);
		break; }
	case 5: { /* garbage */
		size_t k = 1 + rndn(rndn(2) ? 64 : sizeof garbage);
		for (i = 0; i < k; i++) garbage[i] = rnd();
		if (k >= 4 && rndn(2)) { int32_t id = -1; memcpy(garbage, &id, 4); if (k >= 24) { uint32_t m = rndn(100000); memcpy(garbage + 16, &m, 4);} }
		if (k > 18) garbage[18] &= 0x1f;   /* be kind to the machine: never ask for more than 2MB */
		if (k > 19) garbage[19] = 0;
		OP("hs garbage %zu type=%d", k, type);
		peer_hs_write(p, garbage, k);
		break; }
	case 6: { /* slow delivery, pumping in between */
		size_t off = 0;
		OP("hs slow type=%d max=%u", type, rq.max_msg_size);
		while (off < sizeof rq) { size_t k = 1 + rndn(7); if (off + k > sizeof rq) k = sizeof rq - off;
			peer_hs_write(p, (char *)&rq + off, k); off += k; if (rndn(3)) pump(); if (rndn(10) == 0) break; }
		break; }
	case 7: /* nothing at all */
		OP("hs nothing type=%d", type);
		break;
	case 8: { /* valid request followed by trailing bytes */
		size_t k = 1 + rndn(200);
		OP("hs valid+%zu trailing type=%d max=%u", k, type, rq.max_msg_size);
		memcpy(garbage, &rq, sizeof rq);
		for (i = 0; i < k; i++) garbage[sizeof rq + i] = rnd();
		peer_hs_write(p, garbage, sizeof rq + k);
		break; }
	case 10: { /* valid request carrying descriptors (SCM_RIGHTS) */
		struct msghdr mh; struct iovec iov; char cbuf[CMSG_SPACE(sizeof(int) * 3)]; struct cmsghdr *cm; int fds3[3];
		size_t k = rndn(2) ? sizeof rq : 1 + rndn(sizeof rq);
		OP("hs %zu bytes with SCM_RIGHTS type=%d max=%u", k, type, rq.max_msg_size);
		fds3[0] = fds3[1] = fds3[2] = p->setup_fd;
		memset(&mh, 0, sizeof mh); iov.iov_base = &rq; iov.iov_len = k; mh.msg_iov = &iov; mh.msg_iovlen = 1;
		mh.msg_control = cbuf; mh.msg_controllen = sizeof cbuf; memset(cbuf, 0, sizeof cbuf);
		cm = CMSG_FIRSTHDR(&mh); cm->cmsg_level = SOL_SOCKET; cm->cmsg_type = SCM_RIGHTS; cm->cmsg_len = CMSG_LEN(sizeof fds3);
		memcpy(CMSG_DATA(cm), fds3, sizeof fds3);
		if (sendmsg(p->setup_fd, &mh, MSG_NOSIGNAL) == (ssize_t)k) { memcpy(p->hs, &rq, k); p->hs_sent = k; }
		break; }
	case 11: { /* out-of-band byte somewhere in a valid request */
		size_t k = rndn(sizeof rq);
		OP("hs with OOB byte at %zu type=%d", k, type);
		peer_hs_write(p, &rq, k);
		send(p->setup_fd, "!", 1, MSG_OOB | MSG_NOSIGNAL);
		if (rndn(2)) pump();
		peer_hs_write(p, (char *)&rq + k, sizeof rq - k);
		break; }
	case 9: /* valid and gone before the server looks */
		OP("hs valid then close type=%d max=%u", type, rq.max_msg_size);
		peer_hs_write(p, &rq, sizeof rq);
		if (peer_hs_complete_valid(p)) { maybe_accepts++; p->expect_accept_cb = 1; }
		if (rndn(2)) shutdown(p->setup_fd, SHUT_RDWR);
		close(p->setup_fd); p->setup_fd = -1;
		break;
	}
	if (rndn(3) == 0) pump();
	if (!p->expect_accept_cb && peer_hs_complete_valid(p)) { expected_accepts++; p->expect_accept_cb = 1; }
	step();
}

static void op_hs_continue(void)
{
	int i = rndn(MAXPEER); struct peer *p = &peers[i];
	unsigned char b[32]; size_t k = 1 + rndn(30), j;
	if (!p->used || p->accepted || p->setup_fd < 0) return;
	for (j = 0; j < k; j++) b[j] = rnd();
	if (rndn(2)) { struct qb_ipc_connection_request rq; memset(&rq, 0, sizeof rq); rq.hdr.id = -1; rq.hdr.size = 24; rq.max_msg_size = pick_max();
		if (p->hs_sent < sizeof rq) { k = QB_MIN(k, sizeof rq - p->hs_sent); memcpy(b, (char *)&rq + p->hs_sent, k); } }
	for (j = 0; j < k; j++) { if (p->hs_sent + j == 18) b[j] &= 0x1f; if (p->hs_sent + j == 19) b[j] = 0; }
	OP("hs continue peer %d +%zu (had %zu)", i, k, p->hs_sent);
	accept_policy = 0;
	{ int was = peer_hs_complete_valid(p);
	  peer_hs_write(p, b, k);
	  if (!was && !p->expect_accept_cb && peer_hs_complete_valid(p)) { expected_accepts++; p->expect_accept_cb = 1; } }
	step();
}

static void op_close_peer(void)
{
	int i = rndn(MAXPEER); struct peer *p = &peers[i];
	if (!p->used) return;
	OP("close peer %d accepted=%d type=%d", i, p->accepted, p->type);
	if (p->setup_fd >= 0 && rndn(2)) shutdown(p->setup_fd, SHUT_RDWR);
	peer_release_client_side(p);
	step();
	if (p->accepted && !p->srv_closed)
		VIOL("server did not close the connection of a peer that went away\n");
	if (p->accepted && !p->srv_destroyed)
		VIOL("server did not destroy the connection of a peer that went away\n");
	p->used = 0;
}

static int calm;
static int32_t mutate_len(size_t L, uint32_t max)
{
	if (calm) return L;
	switch (rndn(14)) {
	case 0: case 1: case 2: return L;
	case 3: return L - 1;
	case 4: return L + 1;
	case 5: return 0;
	case 6: return -1;
	case 7: return INT32_MIN;
	case 8: return INT32_MAX;
	case 9: return max;
	case 10: return max + 1;
	case 11: return 15 + rndn(3);
	case 12: return rndn(L + 1);
	default: return L + rndn(70000);
	}
}
static size_t pick_len(uint32_t max)
{
	if (calm) { switch (rndn(6)) { case 0: return 16; case 1: return max; case 2: return max - 1; default: return 16 + rndn(max - 15); } }
	switch (rndn(10)) {
	case 0: return rndn(40);
	case 1: return 16;
	case 2: return max;
	case 3: return max + 1;
	case 4: return max > 0 ? max - 1 : 0;
	case 5: return max + rndn(5000);
	default: return 16 + rndn(max > 16 ? max - 16 : 1);
	}
}

static unsigned char big[4 * 1024 * 1024];

static void op_sock_msg(struct peer *p)
{
	int n = 1 + (rndn(4) == 0 ? rndn(6) : 0), k;
	cb_behaviour = rndn(3) ? rndn(5) : 0;
	for (k = 0; k < n; k++) {
		size_t L = pick_len(p->max); struct qb_ipc_request_header h; uint32_t tag = L; ssize_t w;
		if (L > sizeof big) L = sizeof big;
		h.id = rndn(6) == 0 ? (int32_t)rnd() : (int32_t)rndn(100);
		if (!calm && rndn(40) == 0) h.id = QB_IPC_MSG_DISCONNECT;
		h.size = mutate_len(L, p->max);
		memset(big, 0x5a, L < 64 ? 64 : L);
		memcpy(big, &h, L < sizeof h ? L : sizeof h);
		if (L >= 20) memcpy(big + 16, &tag, 4);
		OP("sock msg peer max=%u len=%zu hdr.size=%d id=%d cb=%d", p->max, L, h.size, h.id, cb_behaviour);
		w = send(p->req_fd, big, L, MSG_NOSIGNAL);
		if (w >= 0) { if ((size_t)w > p->out_max) p->out_max = w; if (p->ctl && rndn(8)) qb_atomic_int_inc(&p->ctl[0]); }
		if (p->ctl && rndn(30) == 0) { static const int32_t v[] = { -1, 0, 1, 5, 1000, INT32_MAX, INT32_MIN }; p->ctl[0] = v[rndn(7)]; }
	}
	step();
}

static void op_shm_msg(struct peer *p)
{
	struct qb_ringbuffer_s *rb = p->rq;
	int n = 1 + (rndn(4) == 0 ? rndn(4) : 0), k;
	uint32_t ws;
	if (!rb) return;
	ws = rb->shared_hdr->word_size;
	cb_behaviour = rndn(3) ? rndn(5) : 0;
	for (k = 0; k < n; k++) {
		size_t L = pick_len(p->max); struct qb_ipc_request_header h;
		uint32_t wp = rb->shared_hdr->write_pt, chunk, magic = RB_MAGIC, nwp;
		int posts = 1, bytes = 1;
		if (L > (size_t)ws * 4 - 16) L = (size_t)ws * 4 - 16;
		h.id = rndn(6) == 0 ? (int32_t)rnd() : (int32_t)rndn(100);
		if (!calm && rndn(40) == 0) h.id = QB_IPC_MSG_DISCONNECT;
		h.size = mutate_len(L, p->max);
		chunk = L;
		switch (rndn(12)) {          /* the chunk length word */
		case 0: chunk = mutate_len(L, p->max); break;
		default: break;
		}
		if (calm) chunk = L; else switch (rndn(12)) {
		case 1: chunk = ws * 4; break;
		case 2: chunk = ws * 4 + rndn(64); break;
		case 3: chunk = 0xffffffffu - rndn(8); break;
		case 4: chunk = 0x80000000u; break;
		}
		if (!calm && rndn(25) == 0) magic = rnd();
		if (!calm && rndn(25) == 0) posts = rndn(4);
		bytes = posts;               /* never leave the server waiting for a byte */
		if (rndn(10) == 0) bytes += rndn(3);
		memset(big, 0x6b, L < 64 ? 64 : L);
		memcpy(big, &h, sizeof h);
		memcpy(big + 16, &chunk, 4);
		wp %= ws;
		rb->shared_data[wp] = chunk;
		memcpy(&rb->shared_data[(wp + 2) % ws], big, L < 16 ? 16 : L);
		nwp = (wp + 2 + (L + 3) / 4) % ws;
		rb->shared_data[nwp] = 0; rb->shared_data[(nwp + 1) % ws] = 0;
		rb->shared_hdr->write_pt = nwp;
		rb->shared_data[(wp + 1) % ws] = magic;
		p->last_chunk = chunk;
		if (L > p->out_max) p->out_max = L;
		if (chunk > p->out_max && chunk <= ws * 4) p->out_max = chunk; /* the chunk word is the amount "sent" */
		OP("shm msg max=%u ws=%u wp=%u len=%zu chunk=%u hdr.size=%d id=%d magic=%x posts=%d bytes=%d cb=%d",
		   p->max, ws, wp, L, chunk, h.size, h.id, magic, posts, bytes, cb_behaviour);
		while (posts-- > 0) rb->notifier.post_fn(rb->notifier.instance, L);
		while (bytes-- > 0) send(p->setup_fd, "x", 1, MSG_NOSIGNAL);
		if (n > 1 && (magic != RB_MAGIC || chunk != L)) break;
	}
	step();
}

static void op_msg(void)
{
	int i, tries;
	calm = rndn(100) < 65;
	for (tries = 0; tries < 12; tries++) {
		struct peer *p; i = rndn(MAXPEER); p = &peers[i];
		if (!p->used || !p->accepted || p->srv_closed) continue;
		if (p->type == 0) op_sock_msg(p); else op_shm_msg(p);
		return;
	}
	force_valid_hs = 1; op_handshake(); force_valid_hs = 0;
}

static void op_server_event(void)
{
	int i = rndn(MAXPEER); struct peer *p = &peers[i]; char ev[256]; struct qb_ipc_response_header *rh = (void *)ev;
	if (!p->used || !p->accepted || p->srv_closed || !p->srv) return;
	memset(ev, 0, sizeof ev); rh->id = 3; rh->size = sizeof ev;
	OP("server event to peer %d", i);
	(void)qb_ipcs_event_send(p->srv, ev, sizeof ev);
	step();
}

static int base_fds = -1, base_pe; static size_t base_mem; static int have_base;

static void quiesce_and_check(void)
{
	int i; size_t mem; int fds, shm;
	OP("quiesce");
	for (i = 0; i < MAXPEER; i++) if (peers[i].used) {
		struct peer *p = &peers[i];
		peer_release_client_side(p);
	}
	step(); step();
	for (i = 0; i < MAXPEER; i++) if (peers[i].used) {
		struct peer *p = &peers[i];
		if (p->accepted && !p->srv_destroyed) VIOL("connection of peer %d (type %d) not destroyed after the peer went away\n", i, p->type);
		p->used = 0;
	}
	if (accept_calls < expected_accepts || accept_calls > expected_accepts + maybe_accepts)
		VIOL("connection_accept ran %lu times, model says %lu..%lu\n", accept_calls, expected_accepts, expected_accepts + maybe_accepts);
	if (created_calls != closed_calls)
		VIOL("created %lu != closed %lu at quiescence\n", created_calls, closed_calls);
	fds = count_fds(); mem = __sanitizer_get_current_allocated_bytes(); shm = count_shm();
	if (shm != 0) VIOL("%d entries left in /dev/shm\n", shm);
	if (!have_base) { if (n_ops > 300) { have_base = 1; base_fds = fds; base_mem = mem; base_pe = npe_used(); } return; }
	if (fds != base_fds) { VIOL("descriptors: %d open, %d at baseline\n", fds, base_fds); base_fds = fds; }
	if (npe_used() != base_pe) { VIOL("poll entries: %d, %d at baseline\n", npe_used(), base_pe); base_pe = npe_used(); }
	if (mem > base_mem + 2048) { VIOL("memory: %zu allocated, %zu at baseline\n", mem, base_mem); base_mem = mem; }
}

static void on_alarm(int s)
{
	static const char m[] = "WATCHDOG: server dispatch function blocked > 20s\n";
	(void)!write(2, m, sizeof m - 1); (void)!write(2, lastop, strlen(lastop)); (void)!write(2, "\n", 1);
	_exit(3);
}

int main(int argc, char **argv)
{
	unsigned long ops, i; int t;
	struct qb_ipcs_service_handlers h = { cb_accept, cb_created, cb_msg, cb_closed, cb_destroyed };
	struct qb_ipcs_poll_handlers ph = { my_job_add, my_add, my_mod, my_del };
	unsigned seed = argc > 1 ? atoi(argv[1]) : 1;
	ops = argc > 2 ? strtoul(argv[2], NULL, 0) : 10000;
	verbose = argc > 3 && strchr(argv[3], 'v');
	if (argc > 3 && strchr(argv[3], 'l')) loop = qb_loop_create();
	squeeze_enabled = argc > 3 && strchr(argv[3], 'q');
	rng_state = seed * 2654435761u + 12345;
	signal(SIGALRM, on_alarm);
	signal(SIGPIPE, SIG_IGN);
	for (t = 0; t < 2; t++) {
		snprintf(svcname[t], sizeof svcname[t], "h3c06-%d-%d", getpid(), t);
		svc[t] = qb_ipcs_create(svcname[t], 0, t == 0 ? QB_IPC_SOCKET : QB_IPC_SHM, &h);
		qb_ipcs_poll_handlers_set(svc[t], &ph);
		enforce[t] = (seed % 3 == 0) ? 0 : (seed % 3 == 1 ? 30000 : 100 + rndn(200000));
		if (enforce[t]) qb_ipcs_enforce_buffer_size(svc[t], enforce[t]);
		if (qb_ipcs_run(svc[t]) != 0) { fprintf(stderr, "run failed\n"); return 2; }
	}
	if (argc > 3 && strchr(argv[3], 't')) {
		int ty, k;
		for (ty = 0; ty < 2; ty++) for (k = 0; k < 10; k++) {
			int before, after; struct peer *p; struct qb_ipc_connection_request rq;
			step();
			before = count_fds();
			p = peer_new(ty);
			memset(&rq, 0, sizeof rq); rq.hdr.id = QB_IPC_MSG_AUTHENTICATE; rq.hdr.size = sizeof rq; rq.max_msg_size = 20000;
			peer_hs_write(p, &rq, sizeof rq);
			squeeze = k; accept_policy = 0;
			step();
			printf("type %d: %d spare descriptors: handshake error=%d accepted=%d", ty, k, p->r.hdr.error, p->accepted);
			peer_release_client_side(p); step(); step(); p->used = 0;
			after = count_fds();
			printf("  -> descriptors before %d, after the peer is gone %d%s, shm entries %d\n", before, after, after != before ? "  LEAK" : "", count_shm());
		}
		return 0;
	}
	for (i = 0; i < ops; i++) {
		unsigned r = rndn(100);
		n_ops++;
		if (r < 12) op_handshake();
		else if (r < 17) op_hs_continue();
		else if (r < 22) op_close_peer();
		else if (r < 24) op_server_event();
		else if (r < 25) { if (rndn(4) == 0) quiesce_and_check(); }
		else op_msg();
		if (violations > 20) break;
	}
	quiesce_and_check();
	for (t = 0; t < 2; t++) qb_ipcs_destroy(svc[t]);
	printf("seed %u: %lu ops, msgs %lu, accepts %lu, created %lu, closed %lu, destroyed %lu, violations %d\n",
	       seed, n_ops, total_msgs, accept_calls, created_calls, closed_calls, destroyed_calls, violations);
	return violations ? 1 : 0;
}
