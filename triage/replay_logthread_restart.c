#include <stdio.h>
#include <sched.h>
#include <unistd.h>
#include <syslog.h>
#include <qb/qbdefs.h>
#include <qb/qblog.h>
static int n;
static void lg(int32_t t, struct qb_log_callsite *cs, struct timespec *ts, const char *m){ n++; }
int main(void){
 int t, rc;
 qb_log_init("x", LOG_USER, LOG_EMERG);
 qb_log_ctl(QB_LOG_SYSLOG, QB_LOG_CONF_ENABLED, QB_FALSE);
 t = qb_log_custom_open(lg, NULL, NULL, NULL);
 qb_log_filter_ctl(t, QB_LOG_FILTER_ADD, QB_LOG_FILTER_FILE, "*", LOG_INFO);
 qb_log_ctl(t, QB_LOG_CONF_ENABLED, QB_TRUE);
 qb_log_ctl(t, QB_LOG_CONF_THREADED, QB_TRUE);
 qb_log_thread_priority_set(SCHED_RR, -1);
 rc = qb_log_thread_start(); fprintf(stderr,"start1 rc=%d\n", rc);
 qb_log_thread_priority_set(SCHED_OTHER, 0);
 rc = qb_log_thread_start(); fprintf(stderr,"start2 rc=%d\n", rc);
 qb_log(LOG_INFO, "one"); usleep(200000);
 qb_log_fini();
 fprintf(stderr,"delivered=%d (expected 1)\n", n);
 return n != 1;
}
