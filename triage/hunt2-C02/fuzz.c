/*
 * Model-based randomized tester for libqb IPC (property C02).
 *
 * Single process, single thread, fully deterministic for a given seed:
 * the server side runs on a tiny poll table of our own (the public
 * qb_ipcs_poll_handlers interface), the client connects with
 * qb_ipcc_connect_async()/qb_ipcc_connect_continue().
 *
 * usage: fuzz <shm|sock> <max_msg_size> <seed> <nops> [sizeprofile] [verbose]
 */
#define _GNU_SOURCE
#include <stdio.h>
#include <stdlib.h>
#include <string.h>
#include <stdint.h>
#include <errno.h>
#include <poll.h>
#include <unistd.h>
#include <assert.h>
#include <sys/uio.h>
#include <qb/qbdefs.h>
#include <qb/qbloop.h>
#include <qb/qbipcs.h>
#include <qb/qbipcc.h>
#include <qb/qblog.h>

static int verbose;
static uint64_t rng_s;
static uint32_t rnd(void)
{
	rng_s ^= rng_s << 13; rng_s ^= rng_s >> 7; rng_s ^= rng_s << 17;
	return (uint32_t)(rng_s >> 11);
}
static uint32_t rndn(uint32_t n) { return n ? rnd() % n : 0; }

#define FAIL(...) do { printf("VIOLATION: " __VA_ARGS__); printf("\n"); fflush(stdout); failures++; if (failures >= 5) { printf("too many failures, stop (op %ld)\n", opno); exit(1);} } while (0)
static int failures;
static long opno;

/* ---------------- poll table ------------------- */
struct pent { int fd; int events; void *data; qb_ipcs_dispatch_fn_t fn; int live; };
static struct pent ptab[64];
static int32_t my_add(enum qb_loop_priority p, int32_t fd, int32_t evts, void *data, qb_ipcs_dispatch_fn_t fn)
{
	for (int i = 0; i < 64; i++) if (ptab[i].live && ptab[i].fd == fd) return -EEXIST;
	for (int i = 0; i < 64; i++) if (!ptab[i].live) {
		ptab[i] = (struct pent){fd, evts, data, fn, 1};
		return 0;
	}
	return -ENOMEM;
}
static int32_t my_mod(enum qb_loop_priority p, int32_t fd, int32_t evts, void *data, qb_ipcs_dispatch_fn_t fn)
{
	for (int i = 0; i < 64; i++) if (ptab[i].live && ptab[i].fd == fd) {
		ptab[i].events = evts; ptab[i].data = data; ptab[i].fn = fn;
		return 0;
	}
	return -ENOENT;
}
static int32_t my_del(int32_t fd)
{
	for (int i = 0; i < 64; i++) if (ptab[i].live && ptab[i].fd == fd) { ptab[i].live = 0; return 0; }
	return -ENOENT;
}
struct job { void *data; qb_loop_job_dispatch_fn fn; };
static struct job jobs[64]; static int njobs;
static int32_t my_job(enum qb_loop_priority p, void *data, qb_loop_job_dispatch_fn fn)
{
	if (njobs >= 64) return -ENOMEM;
	jobs[njobs++] = (struct job){data, fn};
	return 0;
}
static int server_step(void)
{
	int n = 0;
	int nj = njobs; struct job jc[64];
	memcpy(jc, jobs, sizeof(jc)); njobs = 0;
	for (int i = 0; i < nj; i++) jc[i].fn(jc[i].data);
	for (int i = 0; i < 64; i++) {
		if (!ptab[i].live) continue;
		struct pollfd pf = { ptab[i].fd, (short)ptab[i].events, 0 };
		int r = poll(&pf, 1, 0);
		if (r > 0 && pf.revents) {
			int fd = ptab[i].fd;
			int32_t res = ptab[i].fn(fd, pf.revents, ptab[i].data);
			n++;
			if (res < 0 && ptab[i].live && ptab[i].fd == fd) ptab[i].live = 0;
		}
	}
	return n;
}

/* ---------------- model ------------------- */
struct msg { uint32_t len; uint8_t *data; };
struct q { struct msg *m; size_t head, tail, cap; const char *name; };
static void q_push(struct q *q, const void *d, uint32_t len)
{
	if (q->tail == q->cap) {
		if (q->head > 0) {
			memmove(q->m, q->m + q->head, (q->tail - q->head) * sizeof(struct msg));
			q->tail -= q->head; q->head = 0;
		}
		if (q->tail == q->cap) { q->cap = q->cap ? q->cap * 2 : 1024; q->m = realloc(q->m, q->cap * sizeof(struct msg)); }
	}
	q->m[q->tail].len = len; q->m[q->tail].data = malloc(len ? len : 1); memcpy(q->m[q->tail].data, d, len);
	q->tail++;
}
static size_t q_len(struct q *q) { return q->tail - q->head; }
static void q_check_pop(struct q *q, const void *d, ssize_t len)
{
	if (q_len(q) == 0) { FAIL("%s: received a message (len %zd) that the model does not have queued (duplicate or phantom) op %ld", q->name, len, opno); return; }
	struct msg *m = &q->m[q->head];
	if ((ssize_t)m->len != len) {
		FAIL("%s: length mismatch: expected %u got %zd (op %ld) exp-id %d got-id %d", q->name, m->len, len, opno, *(int32_t *)m->data, *(int32_t *)d);
	} else if (memcmp(m->data, d, len) != 0) {
		FAIL("%s: content mismatch len %u (op %ld) exp-id %d got-id %d", q->name, m->len, opno, *(int32_t *)m->data, *(int32_t *)d);
	}
	free(m->data); q->head++;
}

static struct q req_q = { .name = "request" }, resp_q = { .name = "response" }, evt_q = { .name = "event" };

static int is_shm;
static uint32_t maxsz;          /* negotiated */
static int sizeprofile;
static qb_ipcs_service_t *svc;
static qb_ipcs_connection_t *sconn;
static qb_ipcc_connection_t *cl;
static uint8_t *sbuf, *rbuf;
static int32_t idseq = 1;
static int in_callback;
static long n_req_ok, n_req_err, n_resp_ok, n_resp_err, n_evt_ok, n_evt_err, n_req_rx, n_resp_rx, n_evt_rx, n_strict_unreadable, n_soft_recvfail;
static int cur_rl = QB_IPCS_RATE_NORMAL;
static size_t mx_req, mx_resp, mx_evt;

static uint32_t pick_len(uint32_t minlen, int allow_over)
{
	uint32_t r = rndn(100);
	uint32_t l;
	switch (sizeprofile) {
	case 1: /* small */
		l = minlen + rndn(64); break;
	case 2: /* big */
		l = maxsz - rndn(QB_MIN(maxsz - minlen, 4096u)); break;
	default:
		if (r < 25) l = minlen;
		else if (r < 50) l = minlen + rndn(100);
		else if (r < 60) l = 4096 - 16 + rndn(32);
		else if (r < 70) l = maxsz - rndn(16);
		else if (r < 73 && allow_over) l = maxsz + 1 + rndn(8);
		else if (r < 85) l = minlen + rndn(maxsz - minlen + 1);
		else l = minlen + rndn(2048);
	}
	if (l < minlen) l = minlen;
	if (l > maxsz && !(allow_over && l <= maxsz + 9)) l = maxsz;
	return l;
}

static void fill_msg(uint8_t *b, uint32_t len, int hdrwords)
{
	/* bytes first, header over them */
	uint64_t s = 0x9e3779b97f4a7c15ull * (uint64_t)(idseq + 77);
	for (uint32_t i = 0; i < len; i++) { s = s * 6364136223846793005ull + 1442695040888963407ull; b[i] = (uint8_t)(s >> 56); }
	int32_t id = idseq++;
	if (idseq > 0x3fffffff) idseq = 1;
	memcpy(b, &id, 4); memset(b + 4, 0, 4);
	int32_t sz = (int32_t)len; memcpy(b + 8, &sz, 4); memset(b + 12, 0, 4);
	if (hdrwords == 3 && len >= 24) { memset(b + 16, 0, 8); }
}

static int do_iov(struct iovec *iov, uint8_t *b, uint32_t len)
{
	int n = 1 + rndn(4); uint32_t off = 0; int k = 0;
	for (int i = 0; i < n; i++) {
		uint32_t part = (i == n - 1) ? len - off : rndn(len - off + 1);
		iov[k].iov_base = b + off; iov[k].iov_len = part; off += part; k++;
	}
	return k;
}

static void srv_send_response(void)
{
	if (!sconn) return;
	uint32_t len = pick_len(24, 1);
	fill_msg(sbuf, len, 3);
	ssize_t r;
	if (rndn(2)) r = qb_ipcs_response_send(sconn, sbuf, len);
	else { struct iovec iov[4]; int k = do_iov(iov, sbuf, len); r = qb_ipcs_response_sendv(sconn, iov, k); }
	if (r == (ssize_t)len) {
		if (len > maxsz) FAIL("response_send accepted oversize %u > %u", len, maxsz);
		q_push(&resp_q, sbuf, len); n_resp_ok++;
	} else if (r >= 0) {
		FAIL("response_send returned short count %zd for %u", r, len);
	} else {
		n_resp_err++;
		if (verbose > 1) printf("op %ld response_send(%u) -> %zd\n", opno, len, r);
	}
}
static void srv_send_event(void)
{
	if (!sconn) return;
	uint32_t len = pick_len(24, 1);
	fill_msg(sbuf, len, 3);
	ssize_t r;
	if (rndn(2)) r = qb_ipcs_event_send(sconn, sbuf, len);
	else { struct iovec iov[4]; int k = do_iov(iov, sbuf, len); r = qb_ipcs_event_sendv(sconn, iov, k); }
	if (r == (ssize_t)len) {
		if (len > maxsz) FAIL("event_send accepted oversize %u > %u", len, maxsz);
		q_push(&evt_q, sbuf, len); n_evt_ok++;
	} else if (r >= 0) {
		FAIL("event_send returned short count %zd for %u", r, len);
	} else {
		n_evt_err++;
		if (verbose > 1) printf("op %ld event_send(%u) -> %zd\n", opno, len, r);
	}
}
static void srv_rate(void)
{
	static const int rls[] = { QB_IPCS_RATE_FAST, QB_IPCS_RATE_NORMAL, QB_IPCS_RATE_SLOW, QB_IPCS_RATE_OFF, QB_IPCS_RATE_OFF_2, QB_IPCS_RATE_NORMAL };
	cur_rl = rls[rndn(6)];
	qb_ipcs_request_rate_limit(svc, cur_rl);
}

/* ---------------- server callbacks ------------------- */
static int32_t s_accept(qb_ipcs_connection_t *c, uid_t u, gid_t g) { return 0; }
static void s_created(qb_ipcs_connection_t *c) { sconn = c; }
static int32_t s_closed(qb_ipcs_connection_t *c) { printf("server: connection closed (op %ld)\n", opno); sconn = NULL; return 0; }
static void s_destroyed(qb_ipcs_connection_t *c) { }
static int cb_actions = 1;
static int32_t s_msg(qb_ipcs_connection_t *c, void *data, size_t size)
{
	n_req_rx++;
	q_check_pop(&req_q, data, (ssize_t)size);
	if (!cb_actions) return 0;
	in_callback = 1;
	uint32_t r = rndn(100);
	if (r < 40) srv_send_response();
	if (r >= 30 && r < 50) srv_send_event();
	if (r >= 50 && r < 55) { srv_send_event(); srv_send_event(); }
	if (r >= 95 && r < 98) srv_rate();
	in_callback = 0;
	if (r == 99 || r == 94) return -1;  /* "back off" */
	return 0;
}

/* ---------------- client ops ------------------- */
static int req_limit;
static void cl_send(void)
{
	if (q_len(&req_q) >= (size_t)req_limit) return;
	uint32_t len = pick_len(16, 1);
	fill_msg(sbuf, len, 2);
	ssize_t r;
	if (rndn(2)) r = qb_ipcc_send(cl, sbuf, len);
	else { struct iovec iov[4]; int k = do_iov(iov, sbuf, len); r = qb_ipcc_sendv(cl, iov, k); }
	if (r == (ssize_t)len) {
		if (len > maxsz) FAIL("ipcc_send accepted oversize %u > %u", len, maxsz);
		q_push(&req_q, sbuf, len); n_req_ok++;
	} else if (r >= 0) {
		FAIL("ipcc_send returned short count %zd for %u", r, len);
	} else {
		n_req_err++;
		if (r != -EAGAIN && r != -EMSGSIZE) FAIL("ipcc_send(%u) unexpected error %zd (op %ld)", len, r, opno);
		if (len > maxsz && r != -EMSGSIZE) FAIL("ipcc_send oversize gave %zd", r);
		if (verbose > 1) printf("op %ld ipcc_send(%u) -> %zd\n", opno, len, r);
	}
}
static void drain_server(void) { for (int i = 0; i < 3; i++) server_step(); }

static void cl_recv_resp(void)
{
	memset(rbuf, 0xEE, 64);
	ssize_t r = qb_ipcc_recv(cl, rbuf, maxsz, 0);
	if (r >= 0) { n_resp_rx++; q_check_pop(&resp_q, rbuf, r); }
	else {
		if (q_len(&resp_q) > 0) {
			n_soft_recvfail++;
			drain_server();
			r = qb_ipcc_recv(cl, rbuf, maxsz, 0);
			if (r >= 0) { n_resp_rx++; q_check_pop(&resp_q, rbuf, r); }
			else FAIL("ipcc_recv -> %zd although %zu responses are queued (op %ld)", r, q_len(&resp_q), opno);
		} else if (r != -EAGAIN && r != -ETIMEDOUT) FAIL("ipcc_recv unexpected error %zd", r);
	}
}
static int evfd = -1;
static int ev_readable(void)
{
	struct pollfd pf = { evfd, POLLIN, 0 };
	return poll(&pf, 1, 0) > 0 && (pf.revents & POLLIN);
}
static void cl_recv_evt(void)
{
	memset(rbuf, 0xEE, 64);
	ssize_t r = qb_ipcc_event_recv(cl, rbuf, maxsz, 0);
	if (r >= 0) { n_evt_rx++; q_check_pop(&evt_q, rbuf, r); }
	else {
		if (q_len(&evt_q) > 0) {
			n_soft_recvfail++;
			drain_server();
			r = qb_ipcc_event_recv(cl, rbuf, maxsz, 0);
			if (r >= 0) { n_evt_rx++; q_check_pop(&evt_q, rbuf, r); }
			else FAIL("ipcc_event_recv -> %zd although %zu events are queued (op %ld)", r, q_len(&evt_q), opno);
		} else if (r != -EAGAIN && r != -ETIMEDOUT) FAIL("ipcc_event_recv unexpected error %zd", r);
	}
}
static long n_small;
/* a receive into a buffer that is too small for the next message must fail and keep it */
static void cl_recv_small(int evt)
{
	struct q *q = evt ? &evt_q : &resp_q;
	if (q_len(q) == 0) return;
	uint32_t need = q->m[q->head].len;
	if (need <= 24) return;
	uint32_t blen = 24 + rndn(need - 24);   /* 24 .. need-1 */
	uint8_t *tmp = malloc(blen);
	ssize_t r = evt ? qb_ipcc_event_recv(cl, tmp, blen, 0) : qb_ipcc_recv(cl, tmp, blen, 0);
	if (r >= 0) FAIL("%s recv into %u byte buffer returned %zd, next message has %u bytes (op %ld)", q->name, blen, r, need, opno);
	free(tmp);
	n_small++;
}
static void check_readable(void)
{
	if (q_len(&evt_q) == 0) return;
	if (ev_readable()) return;
	n_strict_unreadable++;
	if (verbose) printf("op %ld: %zu events queued but fd not readable (before server loop ran)\n", opno, q_len(&evt_q));
	drain_server();
	if (!ev_readable()) FAIL("%zu events queued and unread, fd %d not readable even after server loop ran (op %ld)", q_len(&evt_q), evfd, opno);
}

int main(int argc, char **argv)
{
	if (argc < 5) { fprintf(stderr, "usage\n"); return 2; }
	is_shm = !strcmp(argv[1], "shm");
	uint32_t want = (uint32_t)strtoul(argv[2], NULL, 0);
	uint64_t seed = strtoull(argv[3], NULL, 0);
	long nops = atol(argv[4]);
	sizeprofile = argc > 5 ? atoi(argv[5]) : 0;
	verbose = argc > 6 ? atoi(argv[6]) : 0;
	rng_s = seed * 0x9E3779B97F4A7C15ull + 12345; if (!rng_s) rng_s = 1;
	for (int i = 0; i < 10; i++) rnd();

	if (getenv("FUZZ_LOG")) {
		qb_log_init("fuzz", LOG_USER, LOG_EMERG);
		qb_log_filter_ctl(QB_LOG_STDERR, QB_LOG_FILTER_ADD, QB_LOG_FILTER_FILE, "*", LOG_TRACE);
		qb_log_ctl(QB_LOG_STDERR, QB_LOG_CONF_ENABLED, QB_TRUE);
	}
	char name[64]; snprintf(name, sizeof name, "h2c02-%d", (int)getpid());
	struct qb_ipcs_service_handlers sh = { s_accept, s_created, s_msg, s_closed, s_destroyed };
	struct qb_ipcs_poll_handlers ph = { my_job, my_add, my_mod, my_del };
	svc = qb_ipcs_create(name, 0, is_shm ? QB_IPC_SHM : QB_IPC_SOCKET, &sh);
	qb_ipcs_poll_handlers_set(svc, &ph);
	if (qb_ipcs_run(svc) != 0) { perror("ipcs_run"); return 2; }

	if (!is_shm) {
		int32_t v = qb_ipcc_verify_dgram_max_msg_size(want);
		if (v <= 0) { printf("dgram verify failed\n"); return 2; }
		want = v;
	}
	int cfd = -1;
	cl = qb_ipcc_connect_async(name, want, &cfd);
	if (!cl) { perror("connect_async"); return 2; }
	for (int i = 0; i < 5; i++) server_step();
	if (qb_ipcc_connect_continue(cl) != 0) { perror("connect_continue"); return 2; }
	maxsz = qb_ipcc_get_buffer_size(cl);
	if (!sconn) { printf("no server connection\n"); return 2; }
	if ((uint32_t)qb_ipcs_connection_get_buffer_size(sconn) != maxsz) FAIL("buffer sizes differ");
	qb_ipcc_fd_get(cl, &evfd);
	printf("%s want %u negotiated %u seed %llu nops %ld profile %d evfd %d\n", argv[1], want, maxsz, (unsigned long long)seed, nops, sizeprofile, evfd);
	sbuf = malloc(maxsz + 64); rbuf = malloc(maxsz + 64);
	req_limit = getenv("REQ_LIMIT") ? atoi(getenv("REQ_LIMIT")) : (is_shm ? 150 : 100000);
	if (getenv("NO_CB")) cb_actions = 0;

	/* phases change the relative speeds */
	int w_send = 30, w_step = 30, w_rr = 15, w_er = 15, w_sr = 4, w_se = 4, w_rl = 1, w_fc = 1;
	for (opno = 0; opno < nops; opno++) {
		if (opno % 2000 == 0) {
			w_send = 5 + rndn(60); w_step = 1 + rndn(60); w_rr = 1 + rndn(40); w_er = rndn(40);
			w_sr = rndn(10); w_se = rndn(30); w_rl = rndn(3); w_fc = rndn(4);
			if (rndn(4) == 0) w_er = 0;  /* let events pile up: full notification socket */
			if (rndn(4) == 0) w_rr = 0;
		}
		int tot = w_send + w_step + w_rr + w_er + w_sr + w_se + w_rl + w_fc;
		int r = rndn(tot);
		if ((r -= w_send) < 0) cl_send();
		else if ((r -= w_step) < 0) server_step();
		else if ((r -= w_rr) < 0) cl_recv_resp();
		else if ((r -= w_er) < 0) cl_recv_evt();
		else if ((r -= w_sr) < 0) srv_send_response();
		else if ((r -= w_se) < 0) srv_send_event();
		else if ((r -= w_rl) < 0) srv_rate();
		else { qb_ipcc_fc_enable_max_set(cl, rndn(3)); cl_recv_small(rndn(2)); }
		if (q_len(&req_q) > mx_req) mx_req = q_len(&req_q);
		if (q_len(&resp_q) > mx_resp) mx_resp = q_len(&resp_q);
		if (q_len(&evt_q) > mx_evt) mx_evt = q_len(&evt_q);
		check_readable();
		if (!sconn) { FAIL("connection went away (op %ld)", opno); break; }
	}
	/* drain everything: all accepted messages must come out */
	if (sconn) {
		qb_ipcs_request_rate_limit(svc, QB_IPCS_RATE_NORMAL);
		cb_actions = 0;
		for (int i = 0; i < 200000 && q_len(&req_q); i++) server_step();
		if (q_len(&req_q)) FAIL("%zu accepted requests never delivered", q_len(&req_q));
		long guard = 0;
		while (q_len(&resp_q) && guard++ < 1000000) { size_t b = q_len(&resp_q); cl_recv_resp(); if (q_len(&resp_q) == b) break; }
		if (q_len(&resp_q)) FAIL("%zu accepted responses never received", q_len(&resp_q));
		guard = 0;
		while (q_len(&evt_q) && guard++ < 1000000) { size_t b = q_len(&evt_q); check_readable(); cl_recv_evt(); if (q_len(&evt_q) == b) break; }
		if (q_len(&evt_q)) FAIL("%zu accepted events never received", q_len(&evt_q));
		/* nothing extra */
		drain_server();
		ssize_t r = qb_ipcc_recv(cl, rbuf, maxsz, 0);
		if (r >= 0) FAIL("extra response of %zd bytes", r);
		r = qb_ipcc_event_recv(cl, rbuf, maxsz, 0);
		if (r >= 0) FAIL("extra event of %zd bytes", r);
	}
	printf("req ok/err/rx %ld/%ld/%ld resp %ld/%ld/%ld evt %ld/%ld/%ld strict-unreadable %ld soft-recvfail %ld small-buf %ld failures %d maxq %zu/%zu/%zu\n",
	       n_req_ok, n_req_err, n_req_rx, n_resp_ok, n_resp_err, n_resp_rx, n_evt_ok, n_evt_err, n_evt_rx, n_strict_unreadable, n_soft_recvfail, n_small, failures, mx_req, mx_resp, mx_evt);
	qb_ipcc_disconnect(cl);
	for (int i = 0; i < 5; i++) server_step();
	qb_ipcs_destroy(svc);
	return failures ? 1 : 0;
}
