/*
 * Two-process tester for libqb IPC (property C02): real qb_loop server in a
 * forked child, client in the parent; both sides derive every message from
 * (kind, sequence number) so each side checks order, length and bytes on its
 * own.  The server owes one response per request and (seq % 3) events per
 * request; it retries sends that report -EAGAIN.  Rate limit is toggled by a
 * timer in the server.
 *
 * usage: fuzz2 <shm|sock> <max_msg_size> <seed> <nrequests> [profile]
 */
#define _GNU_SOURCE
#include <stdio.h>
#include <stdlib.h>
#include <string.h>
#include <stdint.h>
#include <errno.h>
#include <poll.h>
#include <unistd.h>
#include <signal.h>
#include <time.h>
#include <sys/wait.h>
#include <sys/uio.h>
#include <qb/qbdefs.h>
#include <qb/qbloop.h>
#include <qb/qbutil.h>
#include <qb/qbipcs.h>
#include <qb/qbipcc.h>

enum { K_REQ = 1, K_RESP = 2, K_EVT = 3 };
static uint32_t maxsz; static int profile; static uint64_t seed;
static int is_shm;

static uint64_t mix(uint64_t x) { x ^= x >> 33; x *= 0xff51afd7ed558ccdull; x ^= x >> 33; x *= 0xc4ceb9fe1a85ec53ull; x ^= x >> 33; return x; }
static uint32_t gen_len(int kind, uint32_t seq)
{
	uint32_t minlen = kind == K_REQ ? 16 : 24;
	uint64_t h = mix(seed * 1000003u + kind * 7919u + seq);
	uint32_t r = h % 100, l; h >>= 8;
	if (profile == 1) l = minlen + h % 64;
	else if (profile == 2) l = maxsz - h % 4096;
	else if (r < 30) l = minlen;
	else if (r < 60) l = minlen + h % 200;
	else if (r < 70) l = maxsz - h % 16;
	else if (r < 85) l = minlen + h % (maxsz - minlen + 1);
	else l = minlen + h % 3000;
	if (l < minlen) l = minlen;
	if (l > maxsz) l = maxsz;
	return l;
}
static void gen_msg(int kind, uint32_t seq, uint8_t *b, uint32_t len)
{
	uint64_t s = mix(seed ^ ((uint64_t)kind << 40) ^ seq);
	for (uint32_t i = 0; i < len; i++) { s = s * 6364136223846793005ull + 1442695040888963407ull; b[i] = (uint8_t)(s >> 56); }
	int32_t id = (int32_t)(seq & 0x3fffffff) + 1; int32_t sz = (int32_t)len;
	memset(b, 0, 16); memcpy(b, &id, 4); memcpy(b + 8, &sz, 4);
	if (kind != K_REQ) memset(b + 16, 0, 8);
}
static uint32_t evts_for(uint32_t seq) { return mix(seed + seq) % 3; }

/* ---------------- server ---------------- */
static qb_loop_t *loop; static qb_ipcs_service_t *svc; static qb_ipcs_connection_t *sc;
static uint32_t s_next_req, s_resp_sent, s_evt_sent, s_evt_owed;
static uint8_t *sb, *sb2;
static int s_fail;
static uint64_t srng = 88172645463325252ull;
static uint32_t srnd(void) { srng ^= srng << 13; srng ^= srng >> 7; srng ^= srng << 17; return srng >> 11; }

static int32_t j_add(enum qb_loop_priority p, void *d, qb_loop_job_dispatch_fn f) { return qb_loop_job_add(loop, p, d, f); }
static int32_t d_add(enum qb_loop_priority p, int32_t fd, int32_t e, void *d, qb_ipcs_dispatch_fn_t f) { return qb_loop_poll_add(loop, p, fd, e, d, f); }
static int32_t d_mod(enum qb_loop_priority p, int32_t fd, int32_t e, void *d, qb_ipcs_dispatch_fn_t f) { return qb_loop_poll_mod(loop, p, fd, e, d, f); }
static int32_t d_del(int32_t fd) { return qb_loop_poll_del(loop, fd); }

static void s_flush(void)
{
	if (!sc) return;
	while (s_resp_sent < s_next_req) {
		uint32_t len = gen_len(K_RESP, s_resp_sent);
		gen_msg(K_RESP, s_resp_sent, sb, len);
		ssize_t r;
		if (srnd() & 1) r = qb_ipcs_response_send(sc, sb, len);
		else { struct iovec iov[2] = { { sb, len / 2 }, { sb + len / 2, len - len / 2 } }; r = qb_ipcs_response_sendv(sc, iov, 2); }
		if (r == (ssize_t)len) s_resp_sent++;
		else if (r == -EAGAIN || r == -ETIMEDOUT || r == -ENOBUFS) break;
		else { fprintf(stderr, "SERVER: response_send(%u) -> %zd\n", len, r); s_fail = 1; break; }
	}
	while (s_evt_sent < s_evt_owed) {
		uint32_t len = gen_len(K_EVT, s_evt_sent);
		gen_msg(K_EVT, s_evt_sent, sb, len);
		ssize_t r;
		if (srnd() & 1) r = qb_ipcs_event_send(sc, sb, len);
		else { struct iovec iov[2] = { { sb, len / 3 }, { sb + len / 3, len - len / 3 } }; r = qb_ipcs_event_sendv(sc, iov, 2); }
		if (r == (ssize_t)len) s_evt_sent++;
		else if (r == -EAGAIN || r == -ETIMEDOUT || r == -ENOBUFS) break;
		else { fprintf(stderr, "SERVER: event_send(%u) -> %zd\n", len, r); s_fail = 1; break; }
	}
}
static int32_t s_accept(qb_ipcs_connection_t *c, uid_t u, gid_t g) { return 0; }
static void s_created(qb_ipcs_connection_t *c) { sc = c; }
static int32_t s_closed(qb_ipcs_connection_t *c) { sc = NULL; qb_loop_stop(loop); return 0; }
static void s_destroyed(qb_ipcs_connection_t *c) { }
static int32_t s_msg(qb_ipcs_connection_t *c, void *data, size_t size)
{
	uint32_t len = gen_len(K_REQ, s_next_req);
	gen_msg(K_REQ, s_next_req, sb2, len);
	if (size != len || memcmp(sb2, data, len)) {
		fprintf(stderr, "SERVER VIOLATION: request #%u expected len %u id %d, got len %zu id %d\n", s_next_req, len, *(int32_t *)sb2, size, *(int32_t *)data);
		s_fail = 1;
	}
	s_evt_owed += evts_for(s_next_req);
	s_next_req++;
	if (srnd() % 4) s_flush();
	if (srnd() % 50 == 0) return -1;
	return 0;
}
static void s_timer(void *d)
{
	static const int rls[] = { QB_IPCS_RATE_FAST, QB_IPCS_RATE_NORMAL, QB_IPCS_RATE_SLOW, QB_IPCS_RATE_OFF, QB_IPCS_RATE_OFF_2, QB_IPCS_RATE_NORMAL, QB_IPCS_RATE_FAST };
	qb_loop_timer_handle h;
	s_flush();
	if (srnd() % 8 == 0) qb_ipcs_request_rate_limit(svc, rls[srnd() % 7]);
	if (srnd() % 64 == 0) usleep(srnd() % 20000);   /* server is slow for a while */
	qb_loop_timer_add(loop, QB_LOOP_HIGH, (1 + srnd() % 3) * QB_TIME_NS_IN_MSEC, NULL, s_timer, &h);
}
static int server_main(const char *name, int rfd)
{
	struct qb_ipcs_service_handlers sh = { s_accept, s_created, s_msg, s_closed, s_destroyed };
	struct qb_ipcs_poll_handlers ph = { j_add, d_add, d_mod, d_del };
	qb_loop_timer_handle h;
	srng ^= seed * 2654435761u; if (!srng) srng = 1;
	loop = qb_loop_create();
	svc = qb_ipcs_create(name, 0, is_shm ? QB_IPC_SHM : QB_IPC_SOCKET, &sh);
	qb_ipcs_poll_handlers_set(svc, &ph);
	if (qb_ipcs_run(svc) != 0) { perror("ipcs_run"); return 2; }
	sb = malloc(4 << 20); sb2 = malloc(4 << 20);
	qb_loop_timer_add(loop, QB_LOOP_HIGH, QB_TIME_NS_IN_MSEC, NULL, s_timer, &h);
	char ok = 1; if (write(rfd, &ok, 1) != 1) return 2;
	qb_loop_run(loop);
	qb_ipcs_destroy(svc);
	fprintf(stderr, "server: reqs %u resp %u evt %u/%u fail %d\n", s_next_req, s_resp_sent, s_evt_sent, s_evt_owed, s_fail);
	return s_fail ? 3 : 0;
}

/* ---------------- client ---------------- */
static uint64_t crng;
static uint32_t crnd(void) { crng ^= crng << 13; crng ^= crng >> 7; crng ^= crng << 17; return crng >> 11; }
static double now(void) { struct timespec ts; clock_gettime(CLOCK_MONOTONIC, &ts); return ts.tv_sec + ts.tv_nsec / 1e9; }

int main(int argc, char **argv)
{
	if (argc < 5) return 2;
	is_shm = !strcmp(argv[1], "shm");
	uint32_t want = strtoul(argv[2], NULL, 0);
	seed = strtoull(argv[3], NULL, 0);
	uint32_t nreq = strtoul(argv[4], NULL, 0);
	profile = argc > 5 ? atoi(argv[5]) : 0;
	crng = seed * 0x9E3779B97F4A7C15ull + 99; if (!crng) crng = 1;
	char name[64]; snprintf(name, sizeof name, "h2c02b-%d", (int)getpid());
	if (!is_shm) { int32_t v = qb_ipcc_verify_dgram_max_msg_size(want); if (v <= 0) return 2; want = v; }
	maxsz = want;   /* both sides need it for the generators: the server keeps max(req, 0) */
	if (maxsz < 12312) maxsz = 12312;
	int pfd[2]; if (pipe(pfd)) return 2;
	pid_t pid = fork();
	if (pid == 0) { close(pfd[0]); _exit(server_main(name, pfd[1])); }
	close(pfd[1]);
	char ok; if (read(pfd[0], &ok, 1) != 1) { fprintf(stderr, "server did not start\n"); return 2; }
	qb_ipcc_connection_t *c = qb_ipcc_connect(name, want);
	if (!c) { perror("connect"); kill(pid, SIGKILL); return 2; }
	if ((uint32_t)qb_ipcc_get_buffer_size(c) != maxsz) { fprintf(stderr, "negotiated %d != %u\n", qb_ipcc_get_buffer_size(c), maxsz); kill(pid, SIGKILL); return 2; }
	int evfd; qb_ipcc_fd_get(c, &evfd);
	uint8_t *b = malloc(maxsz + 64), *rb = malloc(maxsz + 64), *eb = malloc(maxsz + 64);
	uint32_t sent = 0, rresp = 0, revt = 0, evt_total = 0;
	int fail = 0;
	int poll_only = crnd() & 1;  /* only call event_recv when poll says readable */
	double last = now();
	int mode = 0; long it = 0;
	while ((sent < nreq || rresp < nreq || revt < evt_total) && !fail) {
		if (it++ % 500 == 0) mode = crnd() % 6;
		int progressed = 0;
		uint32_t r = crnd() % 100;
		int p_send = (mode == 0) ? 80 : (mode == 1) ? 10 : 40;
		if (sent < nreq && r < (uint32_t)p_send) {
			uint32_t len = gen_len(K_REQ, sent);
			gen_msg(K_REQ, sent, b, len);
			ssize_t rc;
			if (crnd() & 1) rc = qb_ipcc_send(c, b, len);
			else { struct iovec iov[3] = { { b, 8 }, { b + 8, len / 2 - 8 }, { b + len / 2, len - len / 2 } }; rc = qb_ipcc_sendv(c, iov, 3); }
			if (rc == (ssize_t)len) { evt_total += evts_for(sent); sent++; progressed = 1; }
			else if (rc != -EAGAIN) { fprintf(stderr, "CLIENT: send #%u len %u -> %zd\n", sent, len, rc); fail = 1; }
		} else if (r < 85 || mode == 2) {
			if (mode != 3) {
				ssize_t rc = qb_ipcc_recv(c, rb, maxsz, (crnd() % 4 == 0) ? (int)(crnd() % 5) : 0);
				if (rc >= 0) {
					uint32_t len = gen_len(K_RESP, rresp); gen_msg(K_RESP, rresp, b, len);
					if (rresp >= sent) { fprintf(stderr, "CLIENT VIOLATION: response #%u but only %u requests sent\n", rresp, sent); fail = 1; }
					if ((uint32_t)rc != len || memcmp(b, rb, len)) { fprintf(stderr, "CLIENT VIOLATION: response #%u expected len %u id %d, got len %zd id %d\n", rresp, len, *(int32_t *)b, rc, *(int32_t *)rb); fail = 1; }
					rresp++; progressed = 1;
				} else if (rc != -EAGAIN && rc != -ETIMEDOUT) { fprintf(stderr, "CLIENT: recv -> %zd\n", rc); fail = 1; }
			}
		}
		if (mode != 4 && (crnd() % 3 == 0)) {
			int doit = 1;
			if (poll_only) { struct pollfd pf = { evfd, POLLIN, 0 }; doit = poll(&pf, 1, 0) > 0; }
			if (doit) {
				ssize_t rc = qb_ipcc_event_recv(c, eb, maxsz, 0);
				if (rc >= 0) {
					uint32_t len = gen_len(K_EVT, revt); gen_msg(K_EVT, revt, b, len);
					if ((uint32_t)rc != len || memcmp(b, eb, len)) { fprintf(stderr, "CLIENT VIOLATION: event #%u expected len %u id %d, got len %zd id %d\n", revt, len, *(int32_t *)b, rc, *(int32_t *)eb); fail = 1; }
					revt++; progressed = 1;
					if (revt > evt_total) { fprintf(stderr, "CLIENT VIOLATION: more events (%u) than owed (%u)\n", revt, evt_total); fail = 1; }
				} else if (rc != -EAGAIN && rc != -ETIMEDOUT) { fprintf(stderr, "CLIENT: event_recv -> %zd\n", rc); fail = 1; }
			}
		}
		if (mode == 5 && crnd() % 50 == 0) usleep(crnd() % 3000);
		if (progressed) last = now();
		else if (now() - last > 10.0) {
			struct pollfd pf = { evfd, POLLIN, 0 }; int rd = poll(&pf, 1, 0);
			fprintf(stderr, "CLIENT VIOLATION: no progress for 10s: sent %u/%u responses %u events %u/%u evfd readable %d connected %d\n", sent, nreq, rresp, revt, evt_total, rd, qb_ipcc_is_connected(c));
			fail = 1;
		}
	}
	/* nothing extra may arrive */
	if (!fail) {
		usleep(20000);
		if (qb_ipcc_recv(c, rb, maxsz, 0) >= 0) { fprintf(stderr, "CLIENT VIOLATION: extra response\n"); fail = 1; }
		if (qb_ipcc_event_recv(c, eb, maxsz, 0) >= 0) { fprintf(stderr, "CLIENT VIOLATION: extra event\n"); fail = 1; }
	}
	printf("%s max %u seed %llu: sent %u resp %u evt %u/%u poll_only %d fail %d\n", argv[1], maxsz, (unsigned long long)seed, sent, rresp, revt, evt_total, poll_only, fail);
	qb_ipcc_disconnect(c);
	int st = 0; double t0 = now();
	while (waitpid(pid, &st, WNOHANG) == 0) { if (now() - t0 > 5) { kill(pid, SIGKILL); waitpid(pid, &st, 0); break; } usleep(10000); }
	if (!WIFEXITED(st) || WEXITSTATUS(st) != 0) { fprintf(stderr, "server status %x\n", st); fail = 1; }
	return fail;
}
