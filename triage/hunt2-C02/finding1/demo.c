/*
 * C02 finding 1: qb_ipcc_sendv() adds the iovec lengths up in an int32_t.
 * A message whose total length is 2^32 + 16 (far above the negotiated
 * maximum of 16384) passes the "too big" check as a 16 byte message and
 * is copied into the 16 byte chunk of the shared-memory request ring.
 *
 * Expected: -EMSGSIZE, nothing queued, connection keeps working.
 * exit 0 = property held, 1 = violated.
 */
#define _GNU_SOURCE
#include <stdio.h>
#include <stdlib.h>
#include <string.h>
#include <stdint.h>
#include <errno.h>
#include <poll.h>
#include <unistd.h>
#include <signal.h>
#include <sys/mman.h>
#include <sys/wait.h>
#include <sys/uio.h>
#include <qb/qbdefs.h>
#include <qb/qbloop.h>
#include <qb/qbipcs.h>
#include <qb/qbipcc.h>

static qb_loop_t *loop; static qb_ipcs_service_t *svc;
static int nmsg;
static int32_t j_add(enum qb_loop_priority p, void *d, qb_loop_job_dispatch_fn f) { return qb_loop_job_add(loop, p, d, f); }
static int32_t d_add(enum qb_loop_priority p, int32_t fd, int32_t e, void *d, qb_ipcs_dispatch_fn_t f) { return qb_loop_poll_add(loop, p, fd, e, d, f); }
static int32_t d_mod(enum qb_loop_priority p, int32_t fd, int32_t e, void *d, qb_ipcs_dispatch_fn_t f) { return qb_loop_poll_mod(loop, p, fd, e, d, f); }
static int32_t d_del(int32_t fd) { return qb_loop_poll_del(loop, fd); }
static int32_t s_accept(qb_ipcs_connection_t *c, uid_t u, gid_t g) { return 0; }
static int32_t s_closed(qb_ipcs_connection_t *c) { qb_loop_stop(loop); return 0; }
static int32_t s_msg(qb_ipcs_connection_t *c, void *data, size_t size)
{
	struct qb_ipc_response_header r = { .id = 1, .size = sizeof(r), .error = 0 };
	nmsg++;
	fprintf(stderr, "server: request %d, %zu bytes\n", nmsg, size);
	qb_ipcs_response_send(c, &r, sizeof(r));
	return 0;
}

int main(void)
{
	char name[64]; int pfd[2];
	snprintf(name, sizeof name, "h2c02f1-%d", (int)getpid());
	if (pipe(pfd)) return 2;
	pid_t srv = fork();
	if (srv == 0) {
		struct qb_ipcs_service_handlers sh = { s_accept, NULL, s_msg, s_closed, NULL };
		struct qb_ipcs_poll_handlers ph = { j_add, d_add, d_mod, d_del };
		loop = qb_loop_create();
		svc = qb_ipcs_create(name, 0, QB_IPC_SHM, &sh);
		qb_ipcs_poll_handlers_set(svc, &ph);
		if (qb_ipcs_run(svc)) _exit(2);
		if (write(pfd[1], "x", 1) != 1) _exit(2);
		alarm(20);
		qb_loop_run(loop);
		qb_ipcs_destroy(svc);
		_exit(0);
	}
	char ok; if (read(pfd[0], &ok, 1) != 1) return 2;

	/* the client in a child of its own so that a crash can be reported */
	pid_t cl = fork();
	if (cl == 0) {
		qb_ipcc_connection_t *c = qb_ipcc_connect(name, 16384);
		if (!c) _exit(2);
		size_t big = (size_t)1 << 32;
		char *mem = mmap(NULL, big + 4096, PROT_READ | PROT_WRITE, MAP_PRIVATE | MAP_ANONYMOUS | MAP_NORESERVE, -1, 0);
		if (mem == MAP_FAILED) { perror("mmap"); _exit(2); }
		struct qb_ipc_request_header *h = (void *)mem;
		h->id = 7; h->size = 16;
		struct iovec iov[2] = { { mem, 16 }, { mem + 16, big } };   /* 2^32 + 16 bytes */
		printf("negotiated maximum %d, sending %zu bytes with qb_ipcc_sendv\n", qb_ipcc_get_buffer_size(c), (size_t)16 + big);
		fflush(stdout);
		ssize_t r = qb_ipcc_sendv(c, iov, 2);
		printf("qb_ipcc_sendv -> %zd (expected %d)\n", r, -EMSGSIZE);
		if (r != -EMSGSIZE) { fflush(stdout); _exit(1); }
		/* connection still good? */
		struct qb_ipc_request_header q = { .id = 8, .size = sizeof(q) };
		struct qb_ipc_response_header rs;
		struct iovec i2 = { &q, sizeof(q) };
		r = qb_ipcc_sendv_recv(c, &i2, 1, &rs, sizeof(rs), 2000);
		printf("follow-up request -> %zd\n", r);
		qb_ipcc_disconnect(c);
		_exit(r == sizeof(rs) ? 0 : 1);
	}
	int st = 0, rc = 0;
	waitpid(cl, &st, 0);
	if (WIFSIGNALED(st)) { printf("VIOLATION: client killed by signal %d inside qb_ipcc_sendv (oversized message was copied into the ring)\n", WTERMSIG(st)); rc = 1; }
	else if (WEXITSTATUS(st) != 0) { printf("VIOLATION: client exit status %d\n", WEXITSTATUS(st)); rc = 1; }
	else printf("OK: oversized sendv refused with -EMSGSIZE, connection intact\n");
	kill(srv, SIGTERM); waitpid(srv, &st, 0);
	/* our own leftovers only */
	char cmd[256]; snprintf(cmd, sizeof cmd, "rm -rf /dev/shm/qb-%d-%d-* 2>/dev/null", (int)srv, (int)cl);
	if (system(cmd)) {}
	return rc;
}
