#!/bin/sh
# usage: demo.sh <tree>     exit 0 = property held, non-zero = violated
T=${1:-/repo}
D=$(cd "$(dirname "$0")" && pwd)
SRCS="$T/lib/ipcc.c $T/lib/ipcs.c $T/lib/ipc_shm.c $T/lib/ipc_socket.c $T/lib/ipc_setup.c $T/lib/ringbuffer.c $T/lib/ringbuffer_helper.c $T/lib/unix.c"
gcc -g -O1 -DHAVE_CONFIG_H -I$T/include -I$T/include/qb -I$T/lib -I$T -o $D/demo $D/demo.c $SRCS -L$T/lib/.libs -lqb -lpthread 2>/dev/null || { echo "build failed"; exit 99; }
LD_LIBRARY_PATH=$T/lib/.libs $D/demo
