/*
 * C02 observation 2 (borderline): shm transport, full notification socket.
 * Events whose one-byte notification did not fit into the socket are only
 * announced when the *server's* main loop handles POLLOUT.  A client that
 * reads faster than that sees its poll descriptor go un-readable while
 * events are still queued and unread in the event ring.
 * Single process, single thread, deterministic.  exit 0 = held, 1 = violated.
 */
#define _GNU_SOURCE
#include <stdio.h>
#include <stdlib.h>
#include <string.h>
#include <errno.h>
#include <poll.h>
#include <unistd.h>
#include <qb/qbdefs.h>
#include <qb/qbloop.h>
#include <qb/qbipcs.h>
#include <qb/qbipcc.h>

struct pent { int fd; int events; void *data; qb_ipcs_dispatch_fn_t fn; int live; };
static struct pent pt[16];
static int32_t my_add(enum qb_loop_priority p, int32_t fd, int32_t e, void *d, qb_ipcs_dispatch_fn_t f)
{ for (int i = 0; i < 16; i++) if (!pt[i].live) { pt[i] = (struct pent){fd, e, d, f, 1}; return 0; } return -ENOMEM; }
static int32_t my_mod(enum qb_loop_priority p, int32_t fd, int32_t e, void *d, qb_ipcs_dispatch_fn_t f)
{ for (int i = 0; i < 16; i++) if (pt[i].live && pt[i].fd == fd) { pt[i].events = e; pt[i].data = d; pt[i].fn = f; return 0; } return -ENOENT; }
static int32_t my_del(int32_t fd) { for (int i = 0; i < 16; i++) if (pt[i].live && pt[i].fd == fd) { pt[i].live = 0; return 0; } return -ENOENT; }
static int32_t my_job(enum qb_loop_priority p, void *d, qb_loop_job_dispatch_fn f) { return -ENOTSUP; }
static void server_step(void)
{
	for (int i = 0; i < 16; i++) {
		if (!pt[i].live) continue;
		struct pollfd pf = { pt[i].fd, (short)pt[i].events, 0 };
		if (poll(&pf, 1, 0) > 0 && pf.revents) { int fd = pt[i].fd; if (pt[i].fn(fd, pf.revents, pt[i].data) < 0 && pt[i].live && pt[i].fd == fd) pt[i].live = 0; }
	}
}
static qb_ipcs_connection_t *sc;
static int32_t s_accept(qb_ipcs_connection_t *c, uid_t u, gid_t g) { return 0; }
static void s_created(qb_ipcs_connection_t *c) { sc = c; }
static int32_t s_msg(qb_ipcs_connection_t *c, void *d, size_t s) { return 0; }
static int32_t s_closed(qb_ipcs_connection_t *c) { sc = NULL; return 0; }

int main(void)
{
	char name[64]; snprintf(name, sizeof name, "h2c02f2-%d", (int)getpid());
	struct qb_ipcs_service_handlers sh = { s_accept, s_created, s_msg, s_closed, NULL };
	struct qb_ipcs_poll_handlers ph = { my_job, my_add, my_mod, my_del };
	qb_ipcs_service_t *s = qb_ipcs_create(name, 0, QB_IPC_SHM, &sh);
	qb_ipcs_poll_handlers_set(s, &ph);
	if (qb_ipcs_run(s)) return 2;
	int cfd; qb_ipcc_connection_t *c = qb_ipcc_connect_async(name, 65536, &cfd);
	if (!c) return 2;
	for (int i = 0; i < 5; i++) server_step();
	if (qb_ipcc_connect_continue(c)) return 2;
	int fd; qb_ipcc_fd_get(c, &fd);

	/* 1. the server queues events until the event ring is full; the client is slow */
	struct qb_ipc_response_header ev = { .id = 1, .size = sizeof(ev), .error = 0 };
	int queued = 0;
	for (;;) { ev.id = queued + 1; ssize_t r = qb_ipcs_event_send(sc, &ev, sizeof(ev)); if (r != sizeof(ev)) break; queued++; }
	printf("server queued %d events (all accepted by qb_ipcs_event_send)\n", queued);

	/* 2. the client now reads, the server is busy elsewhere (its loop does not run) */
	int got = 0, rc = 0;
	struct qb_ipc_response_header in;
	while (got < queued) {
		struct pollfd pf = { fd, POLLIN, 0 };
		if (poll(&pf, 1, 0) <= 0) {
			printf("VIOLATION: %d events read, %d still queued and unread, but fd %d is not readable\n", got, queued - got, fd);
			ssize_t r = qb_ipcc_event_recv(c, &in, sizeof(in), 0);
			printf("           qb_ipcc_event_recv(timeout 0) -> %zd\n", r);
			rc = 1;
			break;
		}
		ssize_t r = qb_ipcc_event_recv(c, &in, sizeof(in), 0);
		if (r != sizeof(in) || in.id != got + 1) { printf("event %d: r %zd id %d\n", got, r, in.id); rc = 1; break; }
		got++;
	}
	if (rc) {
		/* only after the server's loop has run (POLLOUT) the rest is announced */
		server_step();
		struct pollfd pf = { fd, POLLIN, 0 };
		printf("after one server loop iteration: fd readable = %d\n", poll(&pf, 1, 0) > 0);
		while (qb_ipcc_event_recv(c, &in, sizeof(in), 0) == sizeof(in)) { if (in.id != got + 1) printf("order broken\n"); got++; server_step(); }
		printf("events finally read: %d of %d\n", got, queued);
	} else printf("OK: fd readable as long as events were queued (%d read)\n", got);
	qb_ipcc_disconnect(c);
	for (int i = 0; i < 5; i++) server_step();
	qb_ipcs_destroy(s);
	return rc;
}
