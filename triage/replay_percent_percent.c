#include <stdio.h>
#include <stdarg.h>
#include <string.h>
#include <stdlib.h>
size_t qb_vsnprintf_serialize(char *serialize, size_t max_len, const char *fmt, va_list ap);
size_t qb_vsnprintf_deserialize(char *string, size_t strlen, const char *buf);
static int rt(const char *fmt, ...)
{
	char ser[512], out[512], want[512];
	va_list ap;
	va_start(ap, fmt); qb_vsnprintf_serialize(ser, sizeof ser, fmt, ap); va_end(ap);
	qb_vsnprintf_deserialize(out, sizeof out, ser);
	va_start(ap, fmt); vsnprintf(want, sizeof want, fmt, ap); va_end(ap);
	printf("fmt=[%s] got=[%s] want=[%s] %s\n", fmt, out, want, strcmp(out, want) ? "MISMATCH" : "ok");
	return strcmp(out, want) != 0;
}
int main(void)
{
	int bad = 0;
	bad += rt("100%% done");
	bad += rt("%d%% of %s", 42, "disk");
	bad += rt("%% d %d", 7);
	bad += rt("plain %d", 5);
	return bad != 0;
}
