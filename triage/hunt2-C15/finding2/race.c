/* supporting experiment (not deterministic): two processes print the same valid
 * dump repeatedly; afterwards list create_from_file leftovers and count failures */
#include <stdio.h>
#include <stdlib.h>
#include <string.h>
#include <unistd.h>
#include <fcntl.h>
#include <dirent.h>
#include <syslog.h>
#include <sys/wait.h>
#include <qb/qbdefs.h>
#include <qb/qblog.h>
#include "config.h"
static int count(const char *d)
{
	DIR *D = opendir(d); struct dirent *e; int n = 0;
	if (!D) return 0;
	while ((e = readdir(D))) if (strstr(e->d_name, "create_from_file")) { n++; fprintf(stderr, "  left behind: %s/%s\n", d, e->d_name); }
	closedir(D);
	return n;
}
int main(int argc, char **argv)
{
	const char *path = argv[1]; int i, k, st, n;
	int nul = open("/dev/null", O_WRONLY);
	for (k = 0; k < 2; k++) {
		if (fork() == 0) {
			int bad = 0;
			dup2(nul, 1); dup2(nul, 2);
			for (i = 0; i < 300; i++) {
				/* -EIO (-5) is also what a good print returns: tell by output? count only */
				qb_log_blackbox_print_from_file(path);
			}
			_exit(bad);
		}
	}
	while (wait(&st) > 0) ;
	n = count("/dev/shm") + count(SOCKETDIR);
	fprintf(stderr, "leftovers after two concurrent printers: %d\n", n);
	return n ? 1 : 0;
}
