/*
 * C15 finding 2: qb_log_blackbox_print_from_file() builds its temporary ring
 * buffer under the fixed name "create_from_file".  When the header file of
 * that name already exists in /dev/shm (a second printer running at the same
 * time, or the remains of a killed one), qb_sys_mmap_file_open() silently
 * falls back to SOCKETDIR for the header while the data file still goes to
 * /dev/shm.  qb_rb_close_helper() then assumes both live in the directory of
 * the data file, unlinks the wrong name, and the header file stays behind in
 * SOCKETDIR after the print has returned.
 *
 * Must run with private, writable /dev/shm and SOCKETDIR (see demo.sh).
 */
#include <stdio.h>
#include <stdlib.h>
#include <string.h>
#include <stdint.h>
#include <unistd.h>
#include <fcntl.h>
#include <dirent.h>
#include <syslog.h>
#include <qb/qbdefs.h>
#include <qb/qblog.h>
#include "config.h"	/* SOCKETDIR */

static int count(const char *d, int show)
{
	DIR *D = opendir(d); struct dirent *e; int n = 0;
	if (!D) return 0;
	while ((e = readdir(D))) if (strstr(e->d_name, "create_from_file")) { n++; if (show) fprintf(stderr, "  left behind: %s/%s\n", d, e->d_name); }
	closedir(D);
	return n;
}

int main(int argc, char **argv)
{
	const char *path = argc > 1 ? argv[1] : "/tmp/hunt2-C15/finding2/valid.bb";
	int fd, rc, left;

	qb_log_init("f2", LOG_USER, LOG_TRACE);
	qb_log_ctl(QB_LOG_SYSLOG, QB_LOG_CONF_ENABLED, QB_FALSE);
	qb_log_filter_ctl(QB_LOG_BLACKBOX, QB_LOG_FILTER_ADD, QB_LOG_FILTER_FILE, "t.c", LOG_TRACE);
	qb_log_ctl(QB_LOG_BLACKBOX, QB_LOG_CONF_SIZE, 2000);
	qb_log_ctl(QB_LOG_BLACKBOX, QB_LOG_CONF_ENABLED, QB_TRUE);
	qb_log_from_external_source("fn", "t.c", "hello %d", LOG_INFO, 10, 1, 42);
	unlink(path);
	if (qb_log_blackbox_write_to_file(path) < 0) return 3;
	qb_log_ctl(QB_LOG_BLACKBOX, QB_LOG_CONF_ENABLED, QB_FALSE);

	/* step 1: a print with nothing in the way leaves nothing */
	rc = qb_log_blackbox_print_from_file(path);
	fprintf(stderr, "undisturbed print: rc=%d, leftovers=%d\n", rc, count("/dev/shm", 1) + count(SOCKETDIR, 1));
	if (count("/dev/shm", 0) + count(SOCKETDIR, 0)) return 4;

	/* step 2: another printer has just created its header file */
	fd = open("/dev/shm/qb-create_from_file-header", O_CREAT | O_EXCL | O_WRONLY, 0600);
	if (fd < 0) { perror("precreate"); return 3; }
	close(fd);
	rc = qb_log_blackbox_print_from_file(path);
	/* ... and goes away again (its own close unlinks its own file) */
	unlink("/dev/shm/qb-create_from_file-header");

	left = count("/dev/shm", 1) + count(SOCKETDIR, 1);
	fprintf(stderr, "print next to another printer: rc=%d, leftovers=%d\n", rc, left);
	qb_log_fini();
	return left ? 1 : 0;
}
