#!/bin/sh
# usage: demo.sh <tree>   exit 0 = property held, non-zero = violated
T=${1:-/repo}
D=$(cd "$(dirname "$0")" && pwd)
SRCS=""
for f in array log log_blackbox log_dcs log_file log_format log_syslog log_thread ringbuffer ringbuffer_helper unix util strlcat strlcpy; do
  SRCS="$SRCS $T/lib/$f.c"
done
gcc -g -O0 -w -fsanitize=address,undefined -DHAVE_CONFIG_H -I$T/include -I$T/include/qb -I$T/lib \
  -o $D/demo $D/demo.c $SRCS -lpthread -ldl || exit 99
SD=$(sed -n 's/^#define SOCKETDIR "\(.*\)"/\1/p' $T/include/config.h)
# private /dev/shm and SOCKETDIR so that nothing of the host is touched
unshare -m sh -c "mount -t tmpfs -o size=64m tmpfs /dev/shm && mount -t tmpfs -o size=16m tmpfs $SD && ASAN_OPTIONS=detect_leaks=0 $D/demo $D/valid.bb >/dev/null"
rc=$?
if [ $rc -eq 0 ]; then echo "property held"; else echo "VIOLATED (exit $rc): temporary ring buffer file left behind"; fi
exit $rc
