/* targeted cases for C15 (run inside private /dev/shm and /var/run, see targeted.sh) */
#define _GNU_SOURCE
#include <stdio.h>
#include <stdlib.h>
#include <string.h>
#include <stdint.h>
#include <unistd.h>
#include <fcntl.h>
#include <errno.h>
#include <wchar.h>
#include <syslog.h>
#include <dirent.h>
#include <sys/stat.h>
#include <qb/qbdefs.h>
#include <qb/qblog.h>

static void lsdir(const char *d)
{
	DIR *D = opendir(d); struct dirent *e;
	if (!D) return;
	while ((e = readdir(D))) if (e->d_name[0] != '.') printf("   %s/%s\n", d, e->d_name);
	closedir(D);
}
static void mk(const char *p, const void *b, size_t n, off_t trunc_to)
{
	int fd = open(p, O_CREAT | O_TRUNC | O_WRONLY, 0600);
	if (n && write(fd, b, n) != (ssize_t)n) abort();
	if (trunc_to) { if (ftruncate(fd, trunc_to)) perror("ftruncate"); }
	close(fd);
}
static void hdr(uint32_t *h, uint32_t ws, uint32_t wp, uint32_t rp)
{
	h[0] = 0; h[1] = 0xCCBBCCBB; h[2] = 0xBBCCBBCC; h[3] = 2; h[4] = 0;
	h[5] = ws; h[6] = wp; h[7] = rp; h[8] = 1; h[9] = ws + wp + rp + 1;
}
int main(int argc, char **argv)
{
	const char *w = argc > 1 ? argv[1] : "/tmp/hunt2-C15/targeted/w";
	char p[600]; uint32_t h[10]; int rc; int which = argc > 2 ? atoi(argv[2]) : 0;
	mkdir(w, 0700);
	qb_log_init("tg", LOG_USER, LOG_TRACE);
	qb_log_ctl(QB_LOG_SYSLOG, QB_LOG_CONF_ENABLED, QB_FALSE);

	if (which == 0 || which == 1) {
		printf("== directory\n"); rc = qb_log_blackbox_print_from_file(w); printf("rc=%d\n", rc);
		printf("== missing\n"); rc = qb_log_blackbox_print_from_file("/nonexistent/x"); printf("rc=%d\n", rc);
		printf("== /dev/null\n"); rc = qb_log_blackbox_print_from_file("/dev/null"); printf("rc=%d\n", rc);
		printf("== /dev/zero\n"); rc = qb_log_blackbox_print_from_file("/dev/zero"); printf("rc=%d\n", rc);
		printf("== /dev/urandom\n"); rc = qb_log_blackbox_print_from_file("/dev/urandom"); printf("rc=%d\n", rc);
		snprintf(p, sizeof p, "%s/empty", w); mk(p, "", 0, 0);
		printf("== empty\n"); rc = qb_log_blackbox_print_from_file(p); printf("rc=%d\n", rc);
	}
	if (which == 0 || which == 2) {
		/* sparse 3 GB file, word_size 0x20000000 (2 GB of data): shm is 1 GB -> allocation fails */
		hdr(h, 0x20000000u, 0, 0);
		snprintf(p, sizeof p, "%s/sparse", w); mk(p, h, sizeof h, (off_t)3 << 30);
		printf("== sparse big word_size\n"); rc = qb_log_blackbox_print_from_file(p); printf("rc=%d\n", rc);
		lsdir("/dev/shm"); lsdir("/var/run");
		unlink(p);
	}
	if (which == 0 || which == 3) {
		/* word_size just below 2^32: real_size/4 wraps to 0 in qb_rb_open */
		hdr(h, 0xFFFFFFFFu, 0, 0);
		snprintf(p, sizeof p, "%s/sparse16", w); mk(p, h, sizeof h, ((off_t)16 << 30) + 4096);
		printf("== sparse 16G word_size 0xffffffff\n"); rc = qb_log_blackbox_print_from_file(p); printf("rc=%d\n", rc);
		lsdir("/dev/shm"); lsdir("/var/run");
		unlink(p);
	}
	if (which == 0 || which == 4) {
		/* another printer is between creating its header and its data file */
		int fd = open("/dev/shm/qb-create_from_file-header", O_CREAT | O_EXCL | O_WRONLY, 0600);
		close(fd);
		qb_log_filter_ctl(QB_LOG_BLACKBOX, QB_LOG_FILTER_ADD, QB_LOG_FILTER_FILE, "t.c", LOG_TRACE);
		qb_log_ctl(QB_LOG_BLACKBOX, QB_LOG_CONF_SIZE, 2000);
		qb_log_ctl(QB_LOG_BLACKBOX, QB_LOG_CONF_ENABLED, QB_TRUE);
		qb_log_from_external_source("fn", "t.c", "hello %d", LOG_INFO, 10, 1, 42);
		snprintf(p, sizeof p, "%s/valid", w); unlink(p);
		qb_log_blackbox_write_to_file(p);
		qb_log_ctl(QB_LOG_BLACKBOX, QB_LOG_CONF_ENABLED, QB_FALSE);
		printf("== valid dump while /dev/shm/qb-create_from_file-header exists\n");
		rc = qb_log_blackbox_print_from_file(p); printf("rc=%d\n", rc);
		unlink("/dev/shm/qb-create_from_file-header");	/* the other printer finished */
		printf("leftovers:\n"); lsdir("/dev/shm"); lsdir("/var/run");
		printf("== again\n");
		rc = qb_log_blackbox_print_from_file(p); printf("rc=%d\n", rc);
		printf("leftovers:\n"); lsdir("/dev/shm"); lsdir("/var/run");
	}
	if (which == 0 || which == 5) {
		qb_log_filter_ctl(QB_LOG_BLACKBOX, QB_LOG_FILTER_ADD, QB_LOG_FILTER_FILE, "t.c", LOG_TRACE);
		qb_log_ctl(QB_LOG_BLACKBOX, QB_LOG_CONF_SIZE, 2000);
		qb_log_ctl(QB_LOG_BLACKBOX, QB_LOG_CONF_ENABLED, QB_TRUE);
		qb_log_from_external_source("fn", "t.c", "wide [%ls] %d", LOG_INFO, 11, 1, L"hello", 42);
		qb_log_from_external_source("fn", "t.c", "ld [%Lf] %d", LOG_INFO, 12, 1, (long double)1.5, 42);
		qb_log_from_external_source("fn", "t.c", "errno %m %d", LOG_INFO, 13, 1, 42);
		snprintf(p, sizeof p, "%s/valid2", w); unlink(p);
		qb_log_blackbox_write_to_file(p);
		qb_log_ctl(QB_LOG_BLACKBOX, QB_LOG_CONF_ENABLED, QB_FALSE);
		printf("== %%ls logged for real\n");
		rc = qb_log_blackbox_print_from_file(p); printf("rc=%d\n", rc);
	}
	qb_log_fini();
	return 0;
}
