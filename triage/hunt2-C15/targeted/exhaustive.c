/* exhaustive truncation and single-byte / single-word damage of a small valid dump */
#define _GNU_SOURCE
#include <stdio.h>
#include <stdlib.h>
#include <string.h>
#include <stdint.h>
#include <unistd.h>
#include <fcntl.h>
#include <syslog.h>
#include <sys/stat.h>
#include <qb/qbdefs.h>
#include <qb/qblog.h>
static unsigned char *d, *m; static size_t n; static long prints;
static const char *mut = "/tmp/hunt2-C15/targeted/w/mut";
static void pr(size_t len)
{
	int fd = open(mut, O_CREAT | O_TRUNC | O_WRONLY, 0600);
	if (write(fd, m, len) != (ssize_t)len) abort();
	close(fd);
	qb_log_blackbox_print_from_file(mut);
	prints++;
	if (!access("/dev/shm/qb-create_from_file-header", F_OK) || !access("/dev/shm/qb-create_from_file-data", F_OK)) { fprintf(stderr, "LEFTOVER len=%zu\n", len); abort(); }
}
int main(int argc, char **argv)
{
	const char *p = "/tmp/hunt2-C15/targeted/w/small";
	static const uint32_t vals[] = { 0, 1, 2, 3, 4, 26, 27, 28, 0x7f, 0xff, 0x100, 1023, 1024, 1025, 4095, 4096, 4097, 0x7fffffff, 0x80000000, 0xfffffffe, 0xffffffff, 0xA1A1A1A1 };
	static const unsigned char bv[] = { 0, 1, 0x25, 0x7f, 0x80, 0xff, 'l', 's', '*' };
	struct stat st; int fd, i; size_t o, k; int nul;
	mkdir("/tmp/hunt2-C15/targeted/w", 0700);
	qb_log_init("ex", LOG_USER, LOG_TRACE);
	qb_log_ctl(QB_LOG_SYSLOG, QB_LOG_CONF_ENABLED, QB_FALSE);
	qb_log_filter_ctl(QB_LOG_BLACKBOX, QB_LOG_FILTER_ADD, QB_LOG_FILTER_FILE, "t.c", LOG_TRACE);
	qb_log_ctl(QB_LOG_BLACKBOX, QB_LOG_CONF_SIZE, 2000);
	qb_log_ctl(QB_LOG_BLACKBOX, QB_LOG_CONF_MAX_LINE_LEN, 200);
	qb_log_ctl(QB_LOG_BLACKBOX, QB_LOG_CONF_ENABLED, QB_TRUE);
	/* enough records to wrap once, so the read pointer is in the middle */
	for (i = 0; i < 40; i++) {
		qb_log_from_external_source("function_a", "t.c", "hello %d [%s] %5.2f %c %lld %.*s|", LOG_INFO, 10, 1, i, "string argument", 1.5 * i, 'x', (long long)i << 33, 3, "abcdef");
		qb_log_from_external_source("fb", "t.c", "plain text message number two", LOG_ERR, 11, 2);
	}
	unlink(p);
	qb_log_blackbox_write_to_file(p);
	qb_log_ctl(QB_LOG_BLACKBOX, QB_LOG_CONF_ENABLED, QB_FALSE);
	fd = open(p, O_RDONLY); fstat(fd, &st); n = st.st_size; d = malloc(n); m = malloc(n);
	if (read(fd, d, n) != (ssize_t)n) abort();
	close(fd);
	nul = open("/dev/null", O_WRONLY); dup2(nul, 1); dup2(nul, 2);
	if (getenv("TOOLMODE")) { qb_log_ctl(QB_LOG_STDERR, QB_LOG_CONF_ENABLED, QB_TRUE); qb_log_filter_ctl(QB_LOG_STDERR, QB_LOG_FILTER_ADD, QB_LOG_FILTER_FILE, "*", LOG_TRACE); }
	/* every truncation length */
	memcpy(m, d, n);
	for (o = 0; o <= n; o++) pr(o);
	/* every byte of the file set to each of a few values */
	for (o = 0; o < n; o++) {
		if (o > 40 + 4096) break;
		for (k = 0; k < sizeof bv; k++) { memcpy(m, d, n); if (m[o] == bv[k]) continue; m[o] = bv[k]; pr(n); }
	}
	/* every aligned word set to each of the interesting values; rb header with repaired hash too */
	for (o = 0; o + 4 <= n; o += 4) {
		for (k = 0; k < sizeof vals / sizeof vals[0]; k++) {
			uint32_t h[4];
			memcpy(m, d, n); memcpy(m + o, &vals[k], 4);
			if (o >= 20 && o < 36) { memcpy(h, m + 20, 16); h[0] += h[1] + h[2] + h[3]; memcpy(m + 36, &h[0], 4);
				if (o == 20 && vals[k] > 0x100000) continue; }
			pr(n);
		}
	}
	{ char b[64]; int l = snprintf(b, sizeof b, "exhaustive: %ld prints, no crash\n", prints); if (write(nul, b, 0)) {} ; fd = open("/dev/tty", O_WRONLY); (void)l; }
	qb_log_fini();
	{ FILE *f = fopen("/tmp/hunt2-C15/targeted/exhaustive.result", "w"); fprintf(f, "%ld prints, no crash, no leftovers\n", prints); fclose(f); }
	return 0;
}
