#!/bin/sh
T=${1:-/repo}; W=${2:-0}
D=$(cd "$(dirname "$0")" && pwd)
SRCS=""
for f in array log log_blackbox log_dcs log_file log_format log_syslog log_thread ringbuffer ringbuffer_helper unix util strlcat strlcpy; do SRCS="$SRCS $T/lib/$f.c"; done
gcc -g -O0 -fsanitize=address,undefined -w -DHAVE_CONFIG_H -I$T/include -I$T/include/qb -I$T/lib -o $D/targeted $D/targeted.c $SRCS -lpthread -ldl || exit 99
unshare -m sh -c "mount -t tmpfs -o size=1g tmpfs /dev/shm && mount -t tmpfs -o size=64m tmpfs /var/run && ASAN_OPTIONS=detect_leaks=0 $D/targeted $D/w $W" 2>&1
