#!/bin/sh
# usage: run.sh <seed> <iters> [nmut]  - runs ./fuzz in a private /dev/shm
cd "$(dirname "$0")"
S=$1; N=$2; M=${3:-60}
exec unshare -m sh -c "mount -t tmpfs -o size=1g tmpfs /dev/shm && FZ_BIG=$FZ_BIG ASAN_OPTIONS=log_path=/tmp/hunt2-C15/work/asan.$S:detect_leaks=0:abort_on_error=0 UBSAN_OPTIONS=log_path=/tmp/hunt2-C15/work/ubsan.$S:print_stacktrace=1 ./fuzz $S $N /tmp/hunt2-C15/work $M"
