#!/bin/sh
# usage: build.sh [tree]   (default /repo) -> ./fuzz
T=${1:-/repo}
cd "$(dirname "$0")"
SRCS=""
for f in array log log_blackbox log_dcs log_file log_format log_syslog log_thread ringbuffer ringbuffer_helper unix util strlcat strlcpy; do
  SRCS="$SRCS $T/lib/$f.c"
done
gcc -g -O1 -fno-omit-frame-pointer -fsanitize=address,undefined -fno-sanitize-recover=undefined \
  -DHAVE_CONFIG_H -I$T/include -I$T/include/qb -I$T/lib \
  -Wno-format -Wno-format-security -o fuzz fuzz.c $SRCS -lpthread -ldl 2>&1 | grep -v "warning: \|note: \|^ \|^In file\|~\|\^" | head -30
ls -la fuzz
