/*
 * C15 model-based tester: blackbox dump round trip + robustness of
 * qb_log_blackbox_print_from_file() on damaged files.
 *
 * usage: fuzz <seed> <iterations> [workdir]
 * Run inside a private /dev/shm (see run.sh) because print_from_file uses the
 * fixed shm name "qb-create_from_file-*".
 */
#define _GNU_SOURCE
#include <stdio.h>
#include <stdlib.h>
#include <string.h>
#include <stdint.h>
#include <stdarg.h>
#include <unistd.h>
#include <fcntl.h>
#include <errno.h>
#include <time.h>
#include <syslog.h>
#include <sys/stat.h>
#include <qb/qbdefs.h>
#include <qb/qblog.h>

const char * qb_log_priority2str(uint8_t priority);
static int varrun_pre;
#define SRCFILE "fuzzsrc.c"
#define TOO_LONG "Log message too long to be stored in the blackbox.  Maximum is QB_LOG_MAX_LEN"

static uint64_t rs;
static uint32_t rnd(void)
{
	rs ^= rs << 13; rs ^= rs >> 7; rs ^= rs << 17;
	return (uint32_t)(rs >> 16);
}
static uint32_t rn(uint32_t n) { return n ? rnd() % n : 0; }

static char workdir[512] = "/tmp/hunt2-C15/work";
static char dumpf[600], mutf[600], outf[600];
static long total_ops, total_prints, failures;

/* ---------- model ---------- */
struct rec {
	int prio; uint32_t line; uint32_t tags;
	char fn[300];
	char msg[4200]; int extra_nl;
	struct timespec t0, t1;
	uint32_t words;
};
#define MAXREC 20000
static struct rec *recs;
static int r_head, r_cnt;	/* retained = recs[r_head .. r_head+r_cnt) */
static uint32_t m_ws, m_used, m_maxline;

static void model_reset(uint32_t size, uint32_t maxline)
{
	uint32_t real = ((size + 13 + 4095) / 4096) * 4096;
	m_ws = real / 4; m_used = 0; r_head = 0; r_cnt = 0; m_maxline = maxline;
}
static size_t model_free(void)
{
	return m_used == 0 ? (size_t)m_ws * 4 : (size_t)(m_ws - m_used - 1) * 4;
}

/* ---------- stdout capture ---------- */
static int saved_out = -1, saved_err = -1;
static void cap_begin(const char *path)
{
	int fd;
	fflush(stdout); fflush(stderr);
	saved_out = dup(1); saved_err = dup(2);
	fd = open(path, O_CREAT | O_TRUNC | O_WRONLY, 0600);
	dup2(fd, 1); close(fd);
	fd = open("/dev/null", O_WRONLY);
	dup2(fd, 2); close(fd);
}
static void cap_end(void)
{
	fflush(stdout); fflush(stderr);
	dup2(saved_out, 1); close(saved_out);
	dup2(saved_err, 2); close(saved_err);
}

static void fail(const char *fmt, ...)
{
	va_list ap;
	va_start(ap, fmt);
	fprintf(stderr, "FAIL: ");
	vfprintf(stderr, fmt, ap);
	fprintf(stderr, "\n");
	va_end(ap);
	failures++;
}

/* ---------- message generation ---------- */
static const char *fnames[] = {
	"f", "main", "a_rather_longer_function_name_for_testing", "x1", "fn_with_123",
	"abcdefghijklmnopqrstuvwxyzabcdefghijklmnopqrstuvwxyzabcdefghijklmnopqrstuvwxyzabcdefghijklmnopqrstuvwxyzabcdefghijklmnopqrstuvwxyzabcdefghijklmnopqrstuvwxyz0123456789",
	"ab", "abc", "abcd", "abcde", "abcdef", "abcdefg", "abcdefgh", ""
};
#define NFN (sizeof(fnames)/sizeof(fnames[0]))

static char fmtbuf[8192];
static char expbuf[8192];
static size_t ser_len;	/* modelled serialized length */

static const char *lits[] = { "", " ", "x", "val=", " [", "] ", "abc def ", ": ", "|", "100%% ", "%%" };
static void add_lit(void)
{
	strcat(fmtbuf, lits[rn(sizeof(lits)/sizeof(lits[0]))]);
}

static char bigstr[6][5000];

/* returns 0 if logged */
static void do_log(struct rec *r)
{
	int fam = rn(9);
	int i, n;
	const char *fn = fnames[rn(NFN)];
	int prio = rn(9);
	uint32_t line = 1 + rn(3000);
	uint32_t tags = (line * 2654435761u) | 1;
	size_t flen;

	if (rn(50) == 0) line = 70000 + rn(100000), tags = (line * 2654435761u) | 1;
	fmtbuf[0] = 0;
	ser_len = 0;
	r->prio = prio; r->line = line; r->tags = tags;
	snprintf(r->fn, sizeof(r->fn), "%s", fn);
	clock_gettime(CLOCK_REALTIME, &r->t0);

#define LOGIT(...) do { \
	snprintf(expbuf, 4096, fmtbuf, ##__VA_ARGS__); \
	qb_log_from_external_source(fn, SRCFILE, fmtbuf, prio, line, tags, ##__VA_ARGS__); \
} while (0)

	switch (fam) {
	case 0: { /* plain text */
		n = rn(8) == 0 ? rn(4200) : rn(120);
		for (i = 0; i < n; i++) fmtbuf[i] = 'a' + rn(26);
		fmtbuf[n] = 0;
		if (n == 0) { LOGIT(); break; }	/* a lone "\n" would print as an empty extra line */
		if (rn(4) == 0) strcat(fmtbuf, "\n");
		if (rn(16) == 0) strcat(fmtbuf, "\n\n");
		LOGIT();
		break;
	}
	case 1: { /* ints */
		static const char *d[] = { "%d", "%i", "%u", "%x", "%X", "%o", "%c", "%5d", "%-5d|", "%05d",
			"%+d", "%#x", "%hhd", "%hd", "%hu", "% d", "%3c", "%.4d", "%8.3x", "%'d", "%-3c|", "%#o" };
		static const char *ds[] = { "%*d", "%-*d|", "%.*d", "%*c", "%*x" };
		static const char *dss[] = { "%*.*d", "%-*.*u|" };
		int a[12]; int na = 0;
		n = 1 + rn(6);
		for (i = 0; i < n && na < 9; i++) {
			int k = rn(10);
			add_lit();
			if (k < 7) {
				const char *s = d[rn(sizeof(d)/sizeof(d[0]))];
				strcat(fmtbuf, s);
				if (strchr(s, 'c')) { a[na++] = 32 + rn(95); ser_len += 1; }
				else { a[na++] = rn(3) ? (int)rnd() : (int)rn(1000) - 500; ser_len += 4; }
			} else if (k < 9) {
				const char *s = ds[rn(sizeof(ds)/sizeof(ds[0]))];
				strcat(fmtbuf, s);
				a[na++] = (int)rn(41) - 20; ser_len += 4;
				if (strchr(s, 'c')) { a[na++] = 32 + rn(95); ser_len += 1; }
				else { a[na++] = (int)rnd(); ser_len += 4; }
			} else {
				strcat(fmtbuf, dss[rn(2)]);
				a[na++] = (int)rn(41) - 20; a[na++] = (int)rn(30) - 5; a[na++] = (int)rnd();
				ser_len += 12;
			}
		}
		add_lit();
		if (rn(4) == 0) strcat(fmtbuf, "\n");
		for (; na < 12; na++) a[na] = 0;
		LOGIT(a[0], a[1], a[2], a[3], a[4], a[5], a[6], a[7], a[8], a[9], a[10], a[11]);
		break;
	}
	case 2: { /* long long / long / size_t */
		static const char *d[] = { "%lld", "%llu", "%llx", "%ld", "%lu", "%lx", "%zu", "%zd", "%jd", "%td",
			"%20lld", "%-20ld|", "%#llx", "%016lx", "%lli", "%llo", "%zx", "%ju" };
		long long a[8]; int na = 0;
		n = 1 + rn(7);
		for (i = 0; i < n; i++) {
			add_lit();
			strcat(fmtbuf, d[rn(sizeof(d)/sizeof(d[0]))]);
			a[na++] = rn(3) ? ((long long)(((unsigned long long)rnd() << 32) ^ rnd())) : (long long)rn(100) - 50;
			ser_len += 8;
		}
		add_lit();
		for (; na < 8; na++) a[na] = 0;
		LOGIT(a[0], a[1], a[2], a[3], a[4], a[5], a[6], a[7]);
		break;
	}
	case 3: { /* doubles */
		static const char *d[] = { "%f", "%e", "%g", "%.3f", "%10.2f", "%a", "%E", "%G", "%F", "%-12.1f|",
			"%.0f", "%+.2e", "%#g", "%A", "%lf", "%012.4f" };
		double a[8]; int na = 0;
		n = 1 + rn(7);
		for (i = 0; i < n; i++) {
			double v;
			add_lit();
			strcat(fmtbuf, d[rn(sizeof(d)/sizeof(d[0]))]);
			switch (rn(6)) {
			case 0: v = 0.0; break;
			case 1: v = (double)(int)rnd() / 1000.0; break;
			case 2: v = 1e300 * (rn(2) ? 1 : -1); break;
			case 3: v = 1e-300; break;
			case 4: v = (double)rnd() * (double)rnd(); break;
			default: v = -1.5; break;
			}
			a[na++] = v; ser_len += 8;
		}
		add_lit();
		for (; na < 8; na++) a[na] = 0;
		LOGIT(a[0], a[1], a[2], a[3], a[4], a[5], a[6], a[7]);
		break;
	}
	case 4: { /* strings */
		static const char *d[] = { "%s", "%10s", "%-10s|", "%.5s", "%.0s", "%20.3s", "%.s", "%-8.2s|", "%.100s" };
		const char *a[6]; int na = 0;
		n = 1 + rn(5);
		for (i = 0; i < n; i++) {
			const char *s = d[rn(sizeof(d)/sizeof(d[0]))];
			const char *dot = strchr(s, '.');
			size_t sl, prec = (size_t)-1;
			add_lit();
			strcat(fmtbuf, s);
			if (rn(12) == 0) {
				a[na] = NULL; sl = 6;
				prec = (size_t)-1; /* library stores "(null)" unbounded; printf may differ: avoid precision */
				if (dot) { /* keep the model simple: replace by a real string */
					a[na] = "nul"; sl = 3;
				}
			} else {
				int l = rn(6) == 0 ? rn(4500) : rn(40);
				int j;
				for (j = 0; j < l; j++) bigstr[na][j] = "abcdefghijklmnopqrstuvwxyz %-_/"[rn(31)];
				bigstr[na][l] = 0;
				a[na] = bigstr[na]; sl = l;
			}
			if (dot && a[na]) { prec = strtoul(dot + 1, NULL, 10); }
			if (prec != (size_t)-1 && sl > prec) sl = prec;
			ser_len += sl + 1;
			na++;
		}
		add_lit();
		if (rn(4) == 0) strcat(fmtbuf, "\n");
		for (; na < 6; na++) a[na] = "";
		LOGIT(a[0], a[1], a[2], a[3], a[4], a[5]);
		break;
	}
	case 5: { /* mixed fixed signatures */
		int k = rn(6);
		int j, l = rn(5) == 0 ? rn(600) : rn(30);
		for (j = 0; j < l; j++) bigstr[0][j] = 'A' + rn(26);
		bigstr[0][l] = 0;
		switch (k) {
		case 0: {
			int p = (int)rn(50) - 5, w = (int)rn(41) - 20;
			size_t sl = l;
			strcpy(fmtbuf, "mix %.*s|%*s|");
			if (p >= 0 && sl > (size_t)p) sl = p;
			ser_len += 4 + sl + 1 + 4 + l + 1;
			LOGIT(p, bigstr[0], w, bigstr[0]);
			break; }
		case 1: {
			int v = rnd(); long lv = (long)(((unsigned long)rnd() << 20) ^ rnd()); int c = 33 + rn(90); double dv = (double)(int)rnd() / 7.0;
			strcpy(fmtbuf, "mix %s:%d %s %ld %c %f end");
			ser_len += l + 1 + 4 + 4 + 8 + 1 + 8;
			LOGIT(bigstr[0], v, "lit", lv, c, dv);
			break; }
		case 2: {
			void *pv = rn(2) ? (void *)&k : (void *)(uintptr_t)rnd();
			strcpy(fmtbuf, "ptr %p and %c%c 100%% %s");
			ser_len += 8 + 1 + 1 + l + 1;
			LOGIT(pv, 'x', 'y', bigstr[0]);
			break; }
		case 3: {
			int w = (int)rn(30) - 15, p = (int)rn(12) - 2; double dv = (double)(int)rnd() / 3.0;
			strcpy(fmtbuf, "%*.*f|%.*e|%-*g|");
			ser_len += 4 + 4 + 8 + 4 + 8 + 4 + 8;
			LOGIT(w, p, dv, p, dv, w, dv);
			break; }
		case 4: {
			int w = (int)rn(40) - 20, p = (int)rn(40) - 5;
			size_t sl = l;
			strcpy(fmtbuf, "%*.*s|%d");
			if (p >= 0 && sl > (size_t)p) sl = p;
			ser_len += 4 + 4 + sl + 1 + 4;
			LOGIT(w, p, bigstr[0], 42);
			break; }
		default: {
			unsigned long long u = ((unsigned long long)rnd() << 40) ^ rnd(); size_t z = rnd(); short sh = (short)rnd(); signed char sc = (signed char)rnd();
			strcpy(fmtbuf, "%s(%llu) z=%zu h=%hd hh=%hhd %s\n");
			ser_len += l + 1 + 8 + 8 + 4 + 4 + 4;
			LOGIT(bigstr[0], u, z, sh, sc, "end");
			break; }
		}
		break;
	}
	case 6: { /* single %s sized at the line-length boundary */
		size_t want_ser = m_maxline + (int)rn(7) - 3;	/* serialized length aimed at */
		int pre = rn(4);
		size_t l;
		strcpy(fmtbuf, "abc" + (3 - pre));
		strcat(fmtbuf, "%s");
		if (want_ser < (size_t)pre + 4) want_ser = pre + 4;
		l = want_ser - (pre + 3) - 1;
		if (l > 4900) l = 4900;
		memset(bigstr[0], 'q', l); bigstr[0][l] = 0;
		ser_len += l + 1;
		LOGIT(bigstr[0]);
		break;
	}
	case 7: { /* wide output */
		int v = rnd();
		strcpy(fmtbuf, rn(2) ? "%3000d|%3000d" : "%-2000d|%.2090d");
		ser_len += 8;
		LOGIT(v, v);
		break;
	}
	default: { /* plain at line-length boundary */
		size_t l = m_maxline + (int)rn(5) - 3;
		if ((int)l < 1) l = 1;
		if (l > 4200) l = 4200;
		memset(fmtbuf, 'z', l); fmtbuf[l] = 0;
		LOGIT();
		break;
	}
	}
	clock_gettime(CLOCK_REALTIME, &r->t1);
	flen = strlen(fmtbuf);
	{ /* "%%" is stored as is */
		ser_len += flen + 1;
	}
	if (ser_len >= m_maxline) {
		snprintf(expbuf, sizeof(expbuf), "%s", TOO_LONG);
		ser_len = strlen(TOO_LONG) + 1;
		if (ser_len > m_maxline) {
			ser_len = m_maxline;
			expbuf[m_maxline - 1] = 0;
		}
	}
	/* what print does: strip trailing newlines (not index 0) */
	{
		size_t len = strlen(expbuf);
		while (len > 1 && expbuf[len - 1] == '\n') expbuf[--len] = 0;
	}
	r->extra_nl = 0;
	if (expbuf[0] == 10 && expbuf[1] == 0) { expbuf[0] = 0; r->extra_nl = 1; }
	snprintf(r->msg, sizeof(r->msg), "%s", expbuf);
	{
		size_t fn_size = strlen(fn) + 1;
		size_t actual = 33 + fn_size + ser_len;
		size_t maxsz = 33 + fn_size + m_maxline;
		r->words = 2 + (actual + 3) / 4;
		/* reclaim model */
		while (model_free() < maxsz + 12) {
			if (r_cnt == 0) { fail("model: cannot make room"); break; }
			m_used -= recs[r_head].words;
			r_head++; r_cnt--;
		}
		m_used += r->words;
	}
}

/* ---------- check a printed dump against the model ---------- */
static int parse_time(const char *s, struct tm *tm, int *ms)
{
	static const char *mon[] = {"Jan","Feb","Mar","Apr","May","Jun","Jul","Aug","Sep","Oct","Nov","Dec"};
	int i;
	char m[4];
	memcpy(m, s, 3); m[3] = 0;
	for (i = 0; i < 12; i++) if (!strcmp(m, mon[i])) break;
	if (i == 12) return -1;
	tm->tm_mon = i;
	if (sscanf(s + 4, "%d %d:%d:%d.%d", &tm->tm_mday, &tm->tm_hour, &tm->tm_min, &tm->tm_sec, ms) != 5) return -1;
	return 0;
}

static int check_output(const char *path, long expect_rc)
{
	FILE *f = fopen(path, "r");
	static char line[16384], want[16384];
	int idx = 0, started = 0, bad = 0;
	if (!f) { fail("cannot open capture"); return -1; }
	while (fgets(line, sizeof(line), f)) {
		size_t l = strlen(line);
		struct rec *r;
		if (!started) {
			if (!strncmp(line, " =>used", 7)) started = 1;
			continue;
		}
		if (l && line[l - 1] == '\n') line[--l] = 0;
		if (idx >= r_cnt) { fail("extra output line: %.200s", line); bad = 1; break; }
		r = &recs[r_head + idx];
		/* "%-7s %s %s(%u):%u: %s" */
		snprintf(want, sizeof(want), "%-7s ", qb_log_priority2str(r->prio));
		if (strncmp(line, want, strlen(want))) { fail("rec %d: priority field: got '%.40s' want '%s'", idx, line, want); bad = 1; break; }
		{
			const char *ts = line + strlen(want);
			struct tm tm, tm0; int ms; time_t tt;
			long long got_ms, lo, hi;
			if (strlen(ts) < 20 || parse_time(ts, &tm, &ms)) { fail("rec %d: time unparsable '%.60s'", idx, line); bad = 1; break; }
			localtime_r(&r->t0.tv_sec, &tm0);
			tm.tm_year = tm0.tm_year; tm.tm_isdst = -1;
			tt = mktime(&tm);
			got_ms = (long long)tt * 1000 + ms;
			lo = (long long)r->t0.tv_sec * 1000 + r->t0.tv_nsec / 1000000;
			hi = (long long)r->t1.tv_sec * 1000 + r->t1.tv_nsec / 1000000;
			/* the library reads CLOCK_REALTIME_COARSE, which lags by a tick (more on a loaded VM) */
			if (got_ms < lo - 100 || got_ms > hi) { fail("rec %d: timestamp %lld outside [%lld,%lld]", idx, got_ms, lo, hi); bad = 1; break; }
			snprintf(want, sizeof(want), " %s(%u):%u: %s", r->fn, r->line, r->tags, r->msg);
			if (strcmp(ts + 19, want)) {
				fail("rec %d: got  '%.300s'\n      want '%.300s' (lens %zu/%zu)", idx, ts + 19, want, strlen(ts + 19), strlen(want));
				bad = 1; break;
			}
		}
		if (r->extra_nl) { if (!fgets(line, sizeof(line), f) || strcmp(line, "\n")) { fail("rec %d: expected the empty line of a lone newline message", idx); bad = 1; break; } }
		idx++;
	}
	fclose(f);
	if (!bad && idx != r_cnt) { fail("printed %d records, model retains %d", idx, r_cnt); bad = 1; }
	(void)expect_rc;
	return bad;
}

static void check_shm(const char *what)
{
	if (access("/dev/shm/qb-create_from_file-header", F_OK) == 0 ||
	    access("/dev/shm/qb-create_from_file-data", F_OK) == 0 ||
	    (!varrun_pre && (access("/var/run/create_from_file-header", F_OK) == 0 ||
	    access("/var/run/create_from_file-data", F_OK) == 0))) {
		fail("shm leftovers after %s", what);
		unlink("/dev/shm/qb-create_from_file-header");
		unlink("/dev/shm/qb-create_from_file-data");
	}
}

/* ---------- mutation ---------- */
static unsigned char *dbuf; static size_t dlen;
static unsigned char *mbuf;

static void load_dump(void)
{
	int fd = open(dumpf, O_RDONLY);
	struct stat st;
	fstat(fd, &st);
	dlen = st.st_size;
	dbuf = realloc(dbuf, dlen + 16);
	mbuf = realloc(mbuf, dlen + 70000);
	if (read(fd, dbuf, dlen) != (ssize_t)dlen) abort();
	close(fd);
}

static void print_mut(size_t len)
{
	int fd = open(mutf, O_CREAT | O_TRUNC | O_WRONLY, 0600);
	int rc;
	if (write(fd, mbuf, len) != (ssize_t)len) abort();
	close(fd);
	cap_begin("/dev/null");
	rc = qb_log_blackbox_print_from_file(mutf);
	cap_end();
	(void)rc;
	total_prints++;
	check_shm("print of mutated file");
}

static uint32_t interesting(uint32_t old)
{
	switch (rn(14)) {
	case 0: return 0;
	case 1: return 1;
	case 2: return 0xffffffffu;
	case 3: return 0x7fffffffu;
	case 4: return 0x80000000u;
	case 5: return old + 1;
	case 6: return old - 1;
	case 7: return old + 4;
	case 8: return old ^ (1u << rn(32));
	case 9: return rn(64);
	case 10: return m_ws - rn(4);
	case 11: return m_ws * 4 - rn(40);
	case 12: return 0xA1A1A1A1u;
	default: return rnd();
	}
}
static uint32_t g32(size_t off) { uint32_t v; memcpy(&v, mbuf + off, 4); return v; }
static void p32(size_t off, uint32_t v) { memcpy(mbuf + off, &v, 4); }

static const char *evil_fmt[] = { "%s", "%ls", "%zs", "%.*s", "%*d", "%lld", "%f", "%c", "%p", "%n", "%hhn", "%99999999999d",
	"%100000d", "%-*.*s", "%lc", "%S", "%C", "%m", "%Lf", "%llf", "%5$d", "%", "%%", "%.", "%l", "%#-+ '0I5.3lld", "%ts", "%js" };

static void robustness(int nmut)
{
	size_t base = 40;		/* bb header + rb header */
	uint32_t ws, wp, rp;
	int i;
	if (dlen < 40) return;
	memcpy(&ws, dbuf + 20, 4); memcpy(&wp, dbuf + 24, 4); memcpy(&rp, dbuf + 28, 4);

	for (i = 0; i < nmut; i++) {
		size_t len = dlen;
		int kind = rn(12);
		memcpy(mbuf, dbuf, dlen);
		switch (kind) {
		case 0: /* truncation */
			len = rn(4) ? rn(dlen + 1) : rn(64);
			break;
		case 1: { /* rb header word with hash repaired */
			int w = rn(3);
			uint32_t v = interesting(g32(20 + 4 * w));
			if (w == 0 && v > 0x400000) v = rn(0x20000);	/* keep shm use sane */
			p32(20 + 4 * w, v);
			if (rn(4)) p32(36, g32(20) + g32(24) + g32(28) + g32(32));
			break; }
		case 2: /* any header word raw */
			p32(4 * rn(10), interesting(g32(4 * rn(10))));
			break;
		case 3: case 4: case 5: case 6: { /* walk chunks, damage one field */
			uint32_t p = rp, steps = rn(r_cnt ? r_cnt : 1), k;
			int what;
			for (k = 0; k < steps; k++) {
				uint32_t sz = g32(base + 4 * (size_t)p);
				p = (p + 2 + (sz + 3) / 4) % ws;
			}
			what = rn(10);
			{
				size_t hdr = base + 4 * (size_t)p;
				size_t dat = base + 4 * (size_t)((p + 2) % ws);
				uint32_t fnsz;
				if (dat + 64 > dlen) break;
				fnsz = g32(dat + 9);
				switch (what) {
				case 0: p32(hdr, interesting(g32(hdr))); break;
				case 1: p32(base + 4 * (size_t)((p + 1) % ws), interesting(0xA1A1A1A1u)); break;
				case 2: p32(dat + 9, interesting(fnsz)); break;
				case 3: if (dat + 13 + fnsz < dlen) mbuf[dat + 13 + fnsz - 1] = 'X'; break;
				case 4: if (dat + 13 + fnsz + 16 + 4 < dlen) p32(dat + 13 + fnsz + 16, interesting(g32(dat + 13 + fnsz + 16))); break;
				case 5: if (dat + 13 + fnsz + 16 < dlen) { int j; for (j = 0; j < 16; j++) mbuf[dat + 13 + fnsz + j] = rnd(); } break;
				case 6: case 7: { /* plant a directive into the stored format */
					size_t m = dat + 13 + fnsz + 16 + 4;
					const char *e = evil_fmt[rn(sizeof(evil_fmt)/sizeof(evil_fmt[0]))];
					if (m + 40 < dlen) {
						size_t o = rn(3) ? 0 : rn(8);
						memcpy(mbuf + m + o, e, strlen(e) + (rn(2) ? 1 : 0));
						if (strchr(e, '*') && rn(16)) {
							/* keep widths small: a width of 2^31 only costs seconds of padding */
							unsigned char *z = memchr(mbuf + m, 0, 200);
							if (z && (size_t)(z - mbuf) + 9 < dlen) { p32(z - mbuf + 1, rn(64)); p32(z - mbuf + 5, rn(64)); }
						}
						if (rn(3) == 0) { /* make the rest look like wide chars / no NUL */
							size_t j, lim = g32(hdr);
							for (j = m + o + strlen(e) + 1; j < dat + lim && j < dlen; j++)
								mbuf[j] = rn(2) ? 'A' : (rn(4) ? 0 : 0x80 | rn(128));
						}
					}
					break; }
				case 8: { /* remove every NUL of the record */
					size_t j, lim = g32(hdr);
					for (j = dat + 13 + fnsz; j < dat + lim && j < dlen; j++) if (!mbuf[j]) mbuf[j] = 'N';
					break; }
				default: mbuf[dat + 8] = rnd(); p32(dat, rnd()); p32(dat + 4, rnd()); break;
				}
			}
			break; }
		case 7: { /* random multi-byte corruption */
			int nb = 1 + rn(16), j;
			for (j = 0; j < nb; j++) mbuf[rn(dlen)] = rnd();
			break; }
		case 8: { /* random corruption near the read pointer */
			int nb = 1 + rn(8), j;
			size_t o = base + 4 * (size_t)rp;
			for (j = 0; j < nb; j++) { size_t q = o + rn(200); if (q < dlen) mbuf[q] = rn(3) ? rnd() : 0; }
			break; }
		case 9: { /* drop the blackbox header: old format */
			memmove(mbuf, mbuf + 20, dlen - 20); len = dlen - 20;
			if (rn(2)) mbuf[rn(len)] = rnd();
			break; }
		case 10: { /* arbitrary bytes */
			size_t j; len = rn(3) ? rn(300) : rn(8000);
			for (j = 0; j < len; j++) mbuf[j] = rn(4) ? rnd() : 0;
			if (rn(2) && len >= 20) { uint32_t h[5] = {0, 0xCCBBCCBB, 0xBBCCBBCC, 2, 0}; memcpy(mbuf, h, 20); }
			if (rn(2) && len >= 40) { uint32_t w = 1 + rn(len / 4), a = rn(w), b = rn(w); p32(20, w); p32(24, a); p32(28, b); p32(32, 1); p32(36, w + a + b + 1); }
			break; }
		default: { /* extend / word_size not page multiple */
			uint32_t w = ws - rn(1024);
			p32(20, w); p32(24, wp % w); p32(28, rp % w);
			p32(36, g32(20) + g32(24) + g32(28) + g32(32));
			break; }
		}
		print_mut(len);
	}
}

int main(int argc, char **argv)
{
	uint64_t seed = argc > 1 ? strtoull(argv[1], NULL, 0) : 1;
	long iters = argc > 2 ? atol(argv[2]) : 100;
	long it;
	int nmut = argc > 4 ? atoi(argv[4]) : 60;
	if (argc > 3) snprintf(workdir, sizeof(workdir), "%s", argv[3]);
	mkdir(workdir, 0700);
	snprintf(dumpf, sizeof(dumpf), "%s/dump.%llu", workdir, (unsigned long long)seed);
	snprintf(mutf, sizeof(mutf), "%s/mut.%llu", workdir, (unsigned long long)seed);
	snprintf(outf, sizeof(outf), "%s/out.%llu", workdir, (unsigned long long)seed);
	rs = seed * 0x9E3779B97F4A7C15ull + 12345;
	rnd(); rnd();
	recs = calloc(MAXREC, sizeof(*recs));
	varrun_pre = access("/var/run/create_from_file-header", F_OK) == 0 || access("/var/run/create_from_file-data", F_OK) == 0;

	qb_log_init("fz", LOG_USER, LOG_TRACE);
	qb_log_ctl(QB_LOG_SYSLOG, QB_LOG_CONF_ENABLED, QB_FALSE);
	qb_log_filter_ctl(QB_LOG_BLACKBOX, QB_LOG_FILTER_ADD, QB_LOG_FILTER_FILE, SRCFILE, LOG_TRACE);

	for (it = 0; it < iters; it++) {
		uint32_t size, maxline;
		int nrec, i, rc;
		ssize_t wr;
		switch (rn(8)) {
		case 0: size = 1024; break;
		case 1: size = 4096 - 13 + (int)rn(5) - 2; break;
		case 2: size = 8192 - 13 + (int)rn(5) - 2; break;
		case 3: size = 1024 + rn(3000); break;
		case 4: size = 4096 * (1 + rn(16)); break;
		case 5: size = 1024 + rn(70000); break;
		default: size = 1024 + rn(12000); break;
		}
		if (getenv("FZ_BIG") && getenv("FZ_BIG")[0]) { size = 100000 + rn(2000000); }
		switch (0) { default: break;
		}
		switch (rn(6)) {
		case 0: maxline = 512; break;
		case 1: maxline = 4 + rn(100); break;
		case 2: maxline = 4096 - rn(3); break;
		case 3: maxline = 70 + rn(16); break;
		default: maxline = 4 + rn(4093); break;
		}
		model_reset(size, maxline);
		/* alloc of 33+fn+maxline+12 must fit in the ring */
		if ((size_t)maxline + 33 + 200 + 12 > (size_t)m_ws * 4) { maxline = m_ws * 4 - 300; m_maxline = maxline; }

		rc = qb_log_ctl(QB_LOG_BLACKBOX, QB_LOG_CONF_SIZE, size);
		rc |= qb_log_ctl(QB_LOG_BLACKBOX, QB_LOG_CONF_MAX_LINE_LEN, maxline);
		rc |= qb_log_ctl(QB_LOG_BLACKBOX, QB_LOG_CONF_ENABLED, QB_TRUE);
		if (rc) { fail("enable rc=%d size=%u maxline=%u", rc, size, maxline); return 2; }

		switch (rn(5)) {
		case 0: nrec = rn(4); break;
		case 1: nrec = 1 + rn(30); break;
		case 2: nrec = 50 + rn(2000); break;
		default: nrec = 1 + rn(300); break;
		}
		if (getenv("FZ_BIG") && getenv("FZ_BIG")[0]) { nrec = 3000 + rn(15000); }
		switch (0) { default: break;
		}
		for (i = 0; i < nrec && r_head + r_cnt < MAXREC; i++) {
			do_log(&recs[r_head + r_cnt]);
			r_cnt++;
			total_ops++;
		}
		unlink(dumpf);
		cap_begin("/dev/null");
		wr = qb_log_blackbox_write_to_file(dumpf);
		cap_end();
		if (wr != (ssize_t)(40 + (size_t)m_ws * 4)) fail("write_to_file returned %zd, expected %zu", wr, 40 + (size_t)m_ws * 4);

		cap_begin(outf);
		rc = qb_log_blackbox_print_from_file(dumpf);
		cap_end();
		total_prints++;
		check_shm("print of valid dump");
		if (check_output(outf, rc)) {
			char keep[700];
			fprintf(stderr, "  seed=%llu iter=%ld size=%u maxline=%u nrec=%d retained=%d rc=%d\n",
				(unsigned long long)seed, it, size, maxline, nrec, r_cnt, rc);
			snprintf(keep, sizeof(keep), "%s.fail%ld", dumpf, it);
			rename(dumpf, keep);
			snprintf(keep, sizeof(keep), "%s.fail%ld", outf, it);
			rename(outf, keep);
			if (failures > 5) break;
		} else {
			load_dump();
			robustness(nmut);
		}
		qb_log_ctl(QB_LOG_BLACKBOX, QB_LOG_CONF_ENABLED, QB_FALSE);
		/* every new (format, line, function) is a dynamic callsite and the
		 * library holds 65536 of them at most: stop well before */
		if (total_ops > 55000) break;
	}
	qb_log_fini();
	fprintf(stderr, "seed %llu: %ld log ops, %ld prints, %ld failures\n", (unsigned long long)seed, total_ops, total_prints, failures);
	return failures ? 1 : 0;
}
