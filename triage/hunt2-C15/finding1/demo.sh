#!/bin/sh
# usage: demo.sh <tree>   exit 0 = property held, non-zero = violated
# Builds the tree's log/ringbuffer sources into the demo together with a
# guard-page allocator; the demo prints a hand-made dump file.
T=${1:-/repo}
D=$(cd "$(dirname "$0")" && pwd)
SRCS=""
for f in array log log_blackbox log_dcs log_file log_format log_syslog log_thread ringbuffer ringbuffer_helper unix util strlcat strlcpy; do
  SRCS="$SRCS $T/lib/$f.c"
done
gcc -g -O0 -w -DHAVE_CONFIG_H -I$T/include -I$T/include/qb -I$T/lib \
  -o $D/demo $D/demo.c $D/guard_malloc.c $SRCS -lpthread -ldl || exit 99
# private /dev/shm: print_from_file uses the fixed name qb-create_from_file-*
unshare -m sh -c "mount -t tmpfs -o size=64m tmpfs /dev/shm && $D/demo $D/evil.bb; echo exit=\$?" > $D/demo.out 2>&1
cat $D/demo.out | head -40
if grep -q "^exit=0$" $D/demo.out; then
  echo "property held"; exit 0
fi
echo "VIOLATED: the printer crashed reading past the record buffer"; exit 1
