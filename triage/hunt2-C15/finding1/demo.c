/*
 * C15 finding 1: a dump whose stored format carries a length modifier in
 * front of 's' ("%ls", also "%zs", "%ts") makes the printer hand a byte
 * buffer to printf as a wchar_t string: it is read 4 bytes at a time until a
 * zero wchar_t, past the NUL that was checked and past the end of the
 * record buffer.
 *
 * The file is built by hand: one record whose chunk fills the buffer that
 * qb_log_blackbox_print_from_file() allocates (malloc(qb_rb_space_used)).
 */
#include <stdio.h>
#include <stdlib.h>
#include <string.h>
#include <stdint.h>
#include <unistd.h>
#include <fcntl.h>
#include <qb/qblog.h>

static unsigned char f[40 + 4096];
static void p32(size_t off, uint32_t v) { memcpy(f + off, &v, 4); }

int main(int argc, char **argv)
{
	const char *path = argc > 1 ? argv[1] : "/tmp/hunt2-C15/finding1/evil.bb";
	uint32_t ws = 1024, S = 64, wp = S / 4, rp = 0;
	size_t d = 40 + 8, i;
	int fd, rc;

	/* blackbox file header */
	p32(0, 0); p32(4, 0xCCBBCCBB); p32(8, 0xBBCCBBCC); p32(12, 2); p32(16, 0);
	/* ring buffer header: word_size, write_pt, read_pt, version, hash */
	p32(20, ws); p32(24, wp); p32(28, rp); p32(32, 1); p32(36, ws + wp + rp + 1);
	/* chunk header */
	p32(40, S); p32(44, 0xA1A1A1A1);
	/* record */
	p32(d + 0, 123);		/* lineno */
	p32(d + 4, 7);			/* tags */
	f[d + 8] = 6;			/* priority */
	p32(d + 9, 3);			/* fn_size */
	memcpy(f + d + 13, "fn", 3);
	/* timespec at d+16 .. d+32: zero */
	p32(d + 32, S - 36);		/* msg_len */
	memcpy(f + d + 36, "%ls", 4);	/* stored format */
	for (i = 40; i < S; i += 4) {	/* argument: "A\0\0\0A\0\0\0..." */
		f[d + i] = 'A';
	}
	/* what follows the chunk in the ring never reaches the buffer */
	fd = open(path, O_CREAT | O_TRUNC | O_WRONLY, 0600);
	if (fd < 0 || write(fd, f, sizeof(f)) != sizeof(f)) { perror("write"); return 3; }
	close(fd);

	rc = qb_log_blackbox_print_from_file(path);
	fflush(stdout);
	fprintf(stderr, "print_from_file returned %d\n", rc);
	return 0;
}
