/* electric-fence style allocator: every block ends at a PROT_NONE page, so a
 * read past the end of a heap buffer faults instead of going unnoticed
 * (the over-read happens inside glibc's printf, which ASan does not see). */
#define _GNU_SOURCE
#include <stddef.h>
#include <string.h>
#include <errno.h>
#include <sys/mman.h>

#define PG 4096UL
void *malloc(size_t n)
{
	size_t r = (n + 15) & ~(size_t)15;
	size_t tot = ((r + 16 + PG - 1) / PG) * PG;
	char *p = mmap(NULL, tot + PG, PROT_READ | PROT_WRITE, MAP_PRIVATE | MAP_ANONYMOUS, -1, 0);
	char *u;
	if (p == MAP_FAILED) { errno = ENOMEM; return NULL; }
	mprotect(p + tot, PG, PROT_NONE);
	u = p + tot - r;
	*(size_t *)(u - 16) = n;
	return u;
}
void free(void *p) { (void)p; }
void *calloc(size_t a, size_t b) { return malloc(a * b); }
void *realloc(void *p, size_t n)
{
	void *q = malloc(n);
	if (p && q) { size_t o = *(size_t *)((char *)p - 16); memcpy(q, p, o < n ? o : n); }
	return q;
}
