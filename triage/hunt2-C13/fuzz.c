/*
 * C13 model-based randomized tester: log line formatting.
 *
 * usage: fuzz <seed> <nops> [flags]
 *   flags: N  allow '%' in the ident (name) that %N expands to
 *          L  allow formats whose (static) form does not fit the line limit
 *             that is in force when qb_log_format_set() is called
 *          B  no blackbox
 *          v  verbose
 *
 * Targets driven: syslog (syslog() is intercepted), a file target (read back),
 * two custom targets (callback calls qb_log_target_format() into a buffer of
 * exactly max_line_length bytes), blackbox (memory safety of the serializer,
 * dumped and printed now and then).
 */
#define _GNU_SOURCE
#include <stdio.h>
#include <stdlib.h>
#include <string.h>
#include <stdarg.h>
#include <stdint.h>
#include <stddef.h>
#include <inttypes.h>
#include <unistd.h>
#include <errno.h>
#include <time.h>
#include <ctype.h>
#include <syslog.h>
#include <sys/stat.h>
#include <qb/qbdefs.h>
#include <qb/qblog.h>
#include <qb/qbutil.h>

static FILE *rep;		/* where we report (dup of stderr) */
static int verbose;
static int allow_pct_name, allow_long_fmt, no_bb;

/* ---------- rng ---------- */
static uint64_t rs;
static uint32_t rnd(void)
{
	rs ^= rs << 13; rs ^= rs >> 7; rs ^= rs << 17;
	return (uint32_t)(rs >> 16);
}
static uint32_t rn(uint32_t n) { return n ? rnd() % n : 0; }

/* ---------- interposed functions ---------- */
static struct timespec fake_ts;
void qb_util_timespec_from_epoch_get(struct timespec *ts)
{
	*ts = fake_ts;
}

static char *sys_line;		/* last line given to syslog() */
static int sys_count;
static int sys_pri;
void syslog(int pri, const char *fmt, ...)
{
	va_list ap;
	const char *s;
	va_start(ap, fmt);
	if (strcmp(fmt, "%s") != 0) {
		fprintf(rep, "syslog fmt unexpected: %s\n", fmt);
		abort();
	}
	s = va_arg(ap, const char *);
	va_end(ap);
	free(sys_line);
	sys_line = strdup(s);
	sys_pri = pri;
	sys_count++;
}
void openlog(const char *ident, int option, int facility) { }
void closelog(void) { }

/* ---------- model ---------- */
#define NT 4			/* modelled text targets */
enum { M_SYS, M_FILE, M_C1, M_C2 };

struct tok {
	int lit;		/* 1: literal text */
	char *text;		/* literal */
	char dir;		/* directive char (may be anything, 0 = end) */
	int ralign;
	long width;		/* 0 = none */
};

struct mtarget {
	int32_t id;		/* libqb target id */
	int enabled;
	int mll;
	int ellipsis;
	int extended;
	char name[600];
	struct tok *toks;
	int ntoks;
	int skip_content;	/* giant widths: only safety is checked */
	char *rawfmt;
	FILE *rf;		/* file target: read handle */
	/* capture */
	char *got;
	int got_count;
	size_t got_strlen_limit_violation;
};
static struct mtarget mt[NT];
static unsigned long n_ralign_cut;
static int bb_enabled;
static char filepath[256];
static char bbpath[256];
static char hostname_s[256];

static void free_toks(struct mtarget *m)
{
	int i;
	for (i = 0; i < m->ntoks; i++) free(m->toks[i].text);
	free(m->toks);
	m->toks = NULL;
	m->ntoks = 0;
}

static struct tok *add_tok(struct mtarget *m)
{
	m->toks = realloc(m->toks, sizeof(struct tok) * (m->ntoks + 1));
	memset(&m->toks[m->ntoks], 0, sizeof(struct tok));
	return &m->toks[m->ntoks++];
}

/* pad or chop; returns malloc'ed string. width 0: as is */
static char *padchop(const char *v, long width, int ralign)
{
	size_t len = strlen(v);
	char *o;
	if (width <= 0) return strdup(v);
	if (width > 6000) width = 6000;	/* beyond any line limit */
	o = malloc(width + 1);
	if (len > (size_t)width) len = width;
	memset(o, ' ', width);
	if (ralign) memcpy(o + width - len, v, len);
	else memcpy(o, v, len);
	o[width] = 0;
	return o;
}

/* parse raw format into tokens; resolves %N %P %H now (as documented) */
static size_t model_format_set(struct mtarget *m, const char *raw)
{
	size_t i = 0, static_len = 0;
	char tmp[64];
	free_toks(m);
	m->skip_content = 0;
	free(m->rawfmt);
	m->rawfmt = raw ? strdup(raw) : NULL;
	if (raw == NULL) raw = "[%p] %b";
	while (raw[i]) {
		if (raw[i] != '%') {
			size_t j = i;
			struct tok *t = add_tok(m);
			while (raw[j] && raw[j] != '%') j++;
			t->lit = 1;
			t->text = strndup(raw + i, j - i);
			static_len += j - i;
			i = j;
		} else {
			size_t st = i;
			int ral = 0;
			long w = 0;
			int nd = 0;
			const char *v = NULL;
			i++;
			if (raw[i] == '-') { ral = 1; i++; }
			while (isdigit((unsigned char)raw[i])) {
				if (nd < 9) w = w * 10 + (raw[i] - '0');
				nd++;
				i++;
			}
			if (nd > 9) m->skip_content = 1;
			switch (raw[i]) {
			case 'P': snprintf(tmp, sizeof tmp, "%d", getpid()); v = tmp; break;
			case 'N': v = m->name; break;
			case 'H': v = hostname_s; break;
			}
			if (v) {
				struct tok *t = add_tok(m);
				t->lit = 1;
				t->text = padchop(v, w, ral);
				static_len += strlen(t->text);
				i++;
			} else {
				struct tok *t = add_tok(m);
				t->dir = raw[i];
				t->ralign = ral;
				t->width = w;
				if (raw[i]) i++;
				static_len += i - st;
				/* a directive cut by the end of the string gets a
				 * blank appended by the static pass; harmless */
			}
		}
	}
	return static_len;
}

struct csinfo {
	const char *function;
	const char *filename;
	uint8_t priority;
	uint32_t lineno;
	uint32_t tags;
};

static const char *tagstr(uint32_t tags)
{
	switch (tags) {
	case 0: return "";
	case 1: return "T1";
	case 5: return "tag-five-which-is-a-rather-long-tag-name-xxxxxxxxxxxxxxxxxxxxxxxxxxxxxxxxxxxxxxx";
	case 7: return "%b%n";
	default: return "other";
	}
}

static const char *prionames[] = { "emerg", "alert", "crit", "error", "warning",
	"notice", "info", "debug", "trace" };
static const char *months[] = { "Jan", "Feb", "Mar", "Apr", "May", "Jun", "Jul",
	"Aug", "Sep", "Oct", "Nov", "Dec" };

/* append */
struct sb { char *p; size_t len, cap; };
static void sb_add(struct sb *b, const char *s, size_t n)
{
	if (b->len + n + 1 > b->cap) {
		b->cap = (b->len + n + 1) * 2;
		b->p = realloc(b->p, b->cap);
	}
	memcpy(b->p + b->len, s, n);
	b->len += n;
	b->p[b->len] = 0;
}

/*
 * expected line of target m for call site ci and message msg (already what the
 * logger is to be given). *exact_fit / *nl_at_cut flag the two corner cases
 * that are tolerated (and counted).
 */
static char *model_line(struct mtarget *m, struct csinfo *ci, const char *msg,
			int *truncated, size_t *full_len)
{
	struct sb b = { 0 };
	int i;
	char tmp[128];
	struct tm tmr;
	time_t sec = fake_ts.tv_sec;
	size_t lim = m->mll - 1;

	sb_add(&b, "", 0);
	for (i = 0; i < m->ntoks; i++) {
		struct tok *t = &m->toks[i];
		const char *v = "";
		char *pc;
		if (t->lit) { sb_add(&b, t->text, strlen(t->text)); continue; }
		switch (t->dir) {
		case 'g': v = tagstr(ci->tags); break;
		case 'n': v = ci->function; break;
		case 'f': v = ci->filename; break;
		case 'l': snprintf(tmp, sizeof tmp, "%u", ci->lineno); v = tmp; break;
		case 't':
			localtime_r(&sec, &tmr);
			snprintf(tmp, sizeof tmp, "%s %02d %02d:%02d:%02d", months[tmr.tm_mon],
				 tmr.tm_mday, tmr.tm_hour, tmr.tm_min, tmr.tm_sec);
			v = tmp; break;
		case 'T':
			localtime_r(&sec, &tmr);
			snprintf(tmp, sizeof tmp, "%s %02d %02d:%02d:%02d.%03lld", months[tmr.tm_mon],
				 tmr.tm_mday, tmr.tm_hour, tmr.tm_min, tmr.tm_sec,
				 (long long)(fake_ts.tv_nsec / 1000000));
			v = tmp; break;
		case 'b': v = msg; break;
		case 'p': v = prionames[ci->priority > 8 ? 8 : ci->priority]; break;
		default: v = ""; break;
		}
		{
			long w = t->width;
			/* tolerated (counted): a right-aligned field that the
			 * limit cuts is aligned within what is left of the line */
			if (t->ralign && w > 0 && b.len < lim && (size_t)w > lim - b.len) {
				if (strlen(v) > 0) n_ralign_cut++;
				w = lim - b.len;
			}
			pc = padchop(v, w, t->ralign);
		}
		sb_add(&b, pc, strlen(pc));
		free(pc);
	}
	*full_len = b.len;
	*truncated = b.len > lim;
	if (*truncated) {
		b.p[lim] = 0;
		b.len = lim;
		if (m->ellipsis) memcpy(b.p + lim - 3, "...", 3);
	} else if (b.len > 0 && b.p[b.len - 1] == '\n') {
		b.p[--b.len] = 0;
	}
	return b.p;
}

/* ---------- custom target callback ---------- */
static void custom_logger(int32_t t, struct qb_log_callsite *cs,
			  struct timespec *ts, const char *msg);

static char *last_msg[NT];	/* message text as given to the custom logger */

static void custom_logger(int32_t t, struct qb_log_callsite *cs,
			  struct timespec *ts, const char *msg)
{
	int i;
	for (i = M_C1; i <= M_C2; i++) {
		if (mt[i].id == t) {
			struct mtarget *m = &mt[i];
			/* exactly the configured line limit, so that the
			 * sanitizer sees anything beyond it */
			char *out = malloc(m->mll);
			memset(out, 0x5a, m->mll);
			qb_log_target_format(t, cs, ts, msg, out);
			if (memchr(out, 0, m->mll) == NULL) {
				fprintf(rep, "FAIL: line of target %d not terminated within %d bytes\n", t, m->mll);
				abort();
			}
			free(m->got);
			m->got = strdup(out);
			m->got_count++;
			free(out);
			free(last_msg[i]);
			last_msg[i] = strdup(msg);
			return;
		}
	}
	fprintf(rep, "custom logger called for unknown target %d\n", t);
	abort();
}

/* ---------- generators ---------- */
static const char dirchars[] = "nflptTbgNPHnbbbpfx%q- 1Z";

static char *gen_target_format(int mll_now)
{
	struct sb b = { 0 };
	int kind = rn(20);
	int n, i;
	sb_add(&b, "", 0);
	if (kind == 0) return b.p;	/* empty */
	if (kind == 1) n = 1;
	else if (kind < 14) n = 1 + rn(8);
	else if (kind < 18) n = 1 + rn(60);
	else n = 1 + rn(1500);
	for (i = 0; i < n; i++) {
		int k = rn(10);
		if (k < 3) {
			/* literal run */
			int l = 1 + rn(kind >= 18 ? 6 : 12), j;
			for (j = 0; j < l; j++) {
				char c = " abcXYZ[]:,.-_0123456789\n"[rn(25)];
				if (c == '\n' && rn(4)) c = ' ';
				sb_add(&b, &c, 1);
			}
		} else {
			char d[40];
			int p = 0;
			d[p++] = '%';
			if (rn(4) == 0) d[p++] = '-';
			switch (rn(10)) {
			case 0: p += sprintf(d + p, "0"); break;
			case 1: p += sprintf(d + p, "%u", rn(10)); break;
			case 2: p += sprintf(d + p, "%u", rn(40)); break;
			case 3: p += sprintf(d + p, "%u", mll_now - 3 + rn(7)); break;
			case 4: p += sprintf(d + p, "%u", rn(5000)); break;
			case 5: if (rn(8) == 0) p += sprintf(d + p, "%u%u", 1000000000u + rn(1000000000), rnd()); break;
			case 6: p += sprintf(d + p, "%u", 100000000u + rn(899999999)); break;
			default: break;
			}
			d[p++] = dirchars[rn(sizeof(dirchars) - 1)];
			d[p] = 0;
			sb_add(&b, d, p);
		}
	}
	switch (rn(30)) {
	case 0: sb_add(&b, "%", 1); break;
	case 1: sb_add(&b, "%-", 2); break;
	case 2: sb_add(&b, "%12", 3); break;
	case 3: sb_add(&b, "\n", 1); break;
	case 4: sb_add(&b, "%-7", 3); break;
	}
	return b.p;
}

static char *gen_string(int hint)
{
	int len, i;
	char *s;
	switch (rn(12)) {
	case 0: len = 0; break;
	case 1: len = 1; break;
	case 2: case 3: len = rn(40); break;
	case 4: case 5: len = hint - 12 + rn(24); break;
	case 6: len = 500 + rn(24); break;
	case 7: len = 4084 + rn(24); break;
	case 8: len = rn(9000); break;
	default: len = rn(200); break;
	}
	if (len < 0) len = 0;
	s = malloc(len + 1);
	for (i = 0; i < len; i++) {
		s[i] = "abcdefghijklmnopqrstuvwxyzABCDEFGHIJKLMNOPQRSTUVWXYZ0123456789 %.,"[rn(66)];
	}
	s[len] = 0;
	if (len > 0) {
		if (rn(10) == 0) s[len - 1] = '\n';
		if (rn(25) == 0) s[rn(len)] = '\n';
		if (rn(30) == 0) s[rn(len)] = '\a';
	}
	return s;
}

#define NCS 48
static struct csinfo cspool[NCS];
static char longfn[400], longfile[5200];

static void init_cspool(void)
{
	static const char *fns[] = { "", "f", "main", "do_something_useful", "fn%b%n", longfn, "a b" };
	static const char *files[] = { "a.c", "/x/y/z.c", "", "dir/", longfile, "lib/%b.c", "../src/file_with_long_name.c" };
	static const uint32_t lines[] = { 0, 1, 42, 65535, 65536, 4294967295u, 100000 };
	static const uint32_t tags[] = { 0, 1, 5, 7, 99 };
	int i;
	memset(longfn, 'F', sizeof(longfn) - 1);
	memset(longfile, 'p', sizeof(longfile) - 1);
	longfile[2000] = '/';
	for (i = 0; i < NCS; i++) {
		cspool[i].function = fns[rn(7)];
		cspool[i].filename = files[rn(7)];
		cspool[i].priority = rn(4) ? rn(9) : rn(256);
		cspool[i].lineno = lines[rn(7)] + i * 7;	/* distinct */
		cspool[i].tags = tags[rn(5)];
	}
}

/* ---------- operations ---------- */
static unsigned long n_lines, n_checked, n_exactfit, n_nlcut, n_logs, n_fmtset, n_skipped, n_bbprint;

static void die_mismatch(struct mtarget *m, const char *what, const char *exp,
			 const char *got, const char *pfmt, const char *msg)
{
	fprintf(rep, "MISMATCH (%s) target %d mll=%d ellipsis=%d extended=%d\n", what,
		m->id, m->mll, m->ellipsis, m->extended);
	fprintf(rep, " target format: <<%.*s>> (len %zu)\n", 300, m->rawfmt ? m->rawfmt : "(null)",
		m->rawfmt ? strlen(m->rawfmt) : 0);
	fprintf(rep, " printf format: <<%.*s>>\n", 100, pfmt);
	fprintf(rep, " message      : <<%.*s>> (len %zu)\n", 300, msg, strlen(msg));
	fprintf(rep, " expected     : <<%.*s>> (len %zu)\n", 600, exp ? exp : "(nothing)", exp ? strlen(exp) : 0);
	fprintf(rep, " got          : <<%.*s>> (len %zu)\n", 600, got ? got : "(nothing)", got ? strlen(got) : 0);
	exit(3);
}

static char *read_new_file_data(struct mtarget *m)
{
	struct sb b = { 0 };
	char buf[8192];
	size_t n;
	sb_add(&b, "", 0);
	clearerr(m->rf);
	while ((n = fread(buf, 1, sizeof buf, m->rf)) > 0) sb_add(&b, buf, n);
	return b.p;
}

static void set_mll(int i, int v)
{
	struct mtarget *m = &mt[i];
	int rc = qb_log_ctl(m->id, QB_LOG_CONF_MAX_LINE_LEN, v);
	if (v >= 4 && v <= QB_LOG_ABSOLUTE_MAX_LEN) {
		if (rc != 0) { fprintf(rep, "MAX_LINE_LEN %d refused: %d\n", v, rc); exit(3); }
		m->mll = v;
	} else if (rc == 0) {
		/* accepted: then it is a setting the property is quantified over */
		m->mll = v;
		fprintf(rep, "note: MAX_LINE_LEN %d accepted\n", v);
	}
	if (i == M_SYS && rc == 0 && !no_bb) {
		/* keep the blackbox in step with some target */
		(void)qb_log_ctl(QB_LOG_BLACKBOX, QB_LOG_CONF_MAX_LINE_LEN, v);
	}
}

static void do_format_set(int i)
{
	struct mtarget *m = &mt[i];
	char *f;
	int tries = 0;
	if (rn(25) == 0) {
		qb_log_format_set(m->id, NULL);
		model_format_set(m, NULL);
		n_fmtset++;
		return;
	}
	for (;;) {
		size_t sl;
		f = gen_target_format(m->mll);
		sl = model_format_set(m, f);
		if (allow_long_fmt || sl <= (size_t)m->mll - 1) break;
		free(f);
		if (++tries > 20) {
			f = strdup("%b");
			model_format_set(m, f);
			break;
		}
	}
	qb_log_format_set(m->id, f);
	n_fmtset++;
	free(f);
}

static int pick_mll(void)
{
	switch (rn(12)) {
	case 0: return 4;
	case 1: return 4 + rn(4);
	case 2: return 5 + rn(30);
	case 3: return 508 + rn(8);
	case 4: return 4090 + rn(7);
	case 5: return 4096;
	case 6: return 512;
	case 7: return (int)rn(5) - 1;		/* invalid: -1..3 */
	case 8: return 4097 + rn(3);		/* invalid */
	case 9: return 30 + rn(200);
	default: return 4 + rn(4093);
	}
}

static const char *pfmts[] = {
	/* 0 */ "%s",
	/* 1 */ "",
	/* 2 */ "%s\n",
	/* 3 */ "%s" QB_XS "%s",
	/* 4 */ "%.*s",
	/* 5 */ "%*d",
	/* 6 */ "%d:%s:%c",
	/* 7 */ "%s" QB_XS,
	/* 8 */ QB_XS "%s",
	/* 9 */ "%-*s|",
	/* 10 */ "%%%s%%",
	/* 11 */ "%ld %lld %zu %p %f %e",
	/* 12 */ "%5.3s",
	/* 13 */ "%s%s%s",
	/* 14 */ NULL,	/* long literal 600 */
	/* 15 */ NULL,	/* long literal 5000 */
	/* 16 */ "%hhd %hd %jd %td",
	/* 17 */ "%#x %+d % d %05d",
	/* 18 */ "%.0s%.s|%s",
	/* 19 */ "\n",
	/* 20 */ "%s\n\n",
	/* 21 */ "%*.*s",
	/* 22 */ NULL,	/* literal of length exactly around a limit, see below */
	/* 23 */ "%c",
};
#define NPF 24
static char lit600[601], lit5000[5001], lit511[600];

static char bigmsg[70000];

static void log_call(int csi, int pf, const char *pfmt, ...)
{
	va_list ap;
	struct csinfo *ci = &cspool[csi];
	va_start(ap, pfmt);
	qb_log_from_external_source_va(ci->function, ci->filename, pfmt,
				       ci->priority, ci->lineno, ci->tags, ap);
	va_end(ap);
}

static void model_msg(const char *pfmt, ...)
{
	va_list ap;
	va_start(ap, pfmt);
	vsnprintf(bigmsg, sizeof bigmsg, pfmt, ap);
	va_end(ap);
}

static void do_log(void)
{
	int csi = rn(NCS);
	int pf = rn(NPF);
	const char *pfmt = pfmts[pf];
	struct csinfo *ci = &cspool[csi];
	int hint = mt[rn(NT)].mll;
	char *s1 = gen_string(hint), *s2 = gen_string(hint), *s3 = gen_string(30);
	int i1 = rn(3) ? (int)rn(600) : (int)rn(9000), i2 = (int)rnd();
	int maxlen = 0, i;
	int before[NT], sys_before = sys_count;
	size_t mlen;
	char *msg_for[NT];
	int deliver[NT];

	if (rn(5) == 0) i1 = hint - 3 + rn(6);
	if (i1 < 0) i1 = 0;
	fake_ts.tv_sec = 1600000000 + rn(400000000);
	fake_ts.tv_nsec = rn(1000000000);

	/* the library's own messages (blackbox open etc.) are not ours */
	free(read_new_file_data(&mt[M_FILE]));
	for (i = 0; i < NT; i++) {
		before[i] = mt[i].got_count;
		if (mt[i].enabled && mt[i].mll > maxlen) maxlen = mt[i].mll;
	}
	if (bb_enabled) {
		/* blackbox shares the syslog model's limit */
		if (mt[M_SYS].mll > maxlen) maxlen = mt[M_SYS].mll;
	}
	if (maxlen == 0) maxlen = QB_LOG_MAX_LEN;

#define BOTH(...) do { model_msg(__VA_ARGS__); log_call(csi, pf, __VA_ARGS__); } while (0)
	switch (pf) {
	case 0: case 2: case 7: case 8: case 10: case 12: case 20:
		BOTH(pfmt, s1); break;
	case 1: case 19:
		BOTH(pfmt); break;
	case 3: BOTH(pfmt, s1, s3); break;
	case 4: { int pr = rn(8) ? i1 : -1; BOTH(pfmt, pr, s1); break; }
	case 5: BOTH(pfmt, i1, i2); break;
	case 6: { int ch = 'a' + rn(26); BOTH(pfmt, i2, s1, ch); break; }
	case 9: BOTH(pfmt, i1, s3); break;
	case 11: BOTH(pfmt, (long)i2 * 77777, (long long)i2 * 1234567, (size_t)i1, (void *)s1, (double)i2 / 7.0, (double)i1 * 1e10); break;
	case 13: BOTH(pfmt, s1, s2, s3); break;
	case 14: pfmt = lit600; BOTH(pfmt); break;
	case 15: pfmt = lit5000; BOTH(pfmt); break;
	case 16: BOTH(pfmt, (signed char)i2, (short)i2, (intmax_t)i2 * 99, (ptrdiff_t)i1); break;
	case 17: BOTH(pfmt, i2, i2, i2, i1); break;
	case 18: BOTH(pfmt, s1, s2, s3); break;
	case 21: { int pr = rn(300); BOTH(pfmt, i1, pr, s1); break; }
	case 22: pfmt = lit511; BOTH(pfmt); break;
	case 23: { int ch = rn(3) ? 'a' + rn(26) : (rn(2) ? 0 : '\n'); BOTH(pfmt, ch); break; }
	}
	n_logs++;

	/* what the loggers are to be given */
	mlen = strlen(bigmsg);
	if (mlen > (size_t)maxlen - 1) {
		bigmsg[maxlen - 1] = 0;
	} else if (mlen > 0 && bigmsg[mlen - 1] == '\n') {
		bigmsg[mlen - 1] = 0;
	}
	for (i = 0; i < NT; i++) {
		char *x;
		msg_for[i] = strdup(bigmsg);
		deliver[i] = mt[i].enabled;
		x = strchr(msg_for[i], QB_XC);
		if (x) {
			if (x != msg_for[i] || mt[i].extended) {
				if (mt[i].extended && x[1]) *x = '|';
				else *x = 0;
			} else {
				deliver[i] = 0;
			}
		}
	}
	/* syslog: priority */
	if (ci->priority > LOG_DEBUG) deliver[M_SYS] = 0;

	for (i = 0; i < NT; i++) {
		struct mtarget *m = &mt[i];
		char *exp = NULL, *got = NULL;
		int trunc = 0;
		size_t full = 0;
		int gotn;

		if (i == M_SYS) {
			gotn = sys_count - sys_before;
			got = gotn ? strdup(sys_line) : NULL;
		} else if (i == M_FILE) {
			char *d = read_new_file_data(m);
			size_t dl = strlen(d);
			gotn = dl > 0;
			if (gotn) {
				if (d[dl - 1] != '\n') die_mismatch(m, "file line lacks newline", "", d, pfmt, bigmsg);
				d[dl - 1] = 0;
				got = d;
			} else {
				free(d);
			}
		} else {
			gotn = m->got_count - before[i];
			got = gotn ? strdup(m->got) : NULL;
			if (gotn && strcmp(last_msg[i], msg_for[i]) != 0)
				die_mismatch(m, "message given to logger", msg_for[i], last_msg[i], pfmt, bigmsg);
		}
		if (!deliver[i]) {
			if (gotn) die_mismatch(m, "delivered but should not be", NULL, got, pfmt, bigmsg);
			free(msg_for[i]);
			continue;
		}
		if (gotn != 1) die_mismatch(m, "not delivered (or more than once)", "1 line", got, pfmt, bigmsg);
		n_lines++;
		if (strlen(got) > (size_t)m->mll - 1)
			die_mismatch(m, "line longer than the limit", "", got, pfmt, bigmsg);
		if (m->skip_content) {
			n_skipped++;
		} else {
			exp = model_line(m, ci, msg_for[i], &trunc, &full);
			if (strcmp(exp, got) != 0) {
				size_t lim = m->mll - 1;
				/* tolerated corner 1: a line that exactly fills the
				 * limit is marked as truncated */
				if (m->ellipsis && full == lim && strlen(got) == lim &&
				    strncmp(exp, got, lim - 3) == 0 && strcmp(got + lim - 3, "...") == 0) {
					n_exactfit++;
				} else if (trunc && strlen(got) == lim - 1 &&
					   (strncmp(exp, got, lim - 1) == 0 ||
					    (m->ellipsis && strncmp(exp, got, lim - 3) == 0))) {
					/* tolerated corner 2: newline right at the cut
					 * is dropped (and no ellipsis) */
					n_nlcut++;
				} else {
					die_mismatch(m, "line text", exp, got, pfmt, msg_for[i]);
				}
			}
			n_checked++;
		}
		free(exp);
		free(got);
		free(msg_for[i]);
	}
	free(s1); free(s2); free(s3);
}

static void bb_dump_and_print(void)
{
	if (!bb_enabled) return;
	unlink(bbpath);
	if (qb_log_blackbox_write_to_file(bbpath) < 0) return;
	(void)qb_log_blackbox_print_from_file(bbpath);
	n_bbprint++;
}

static void logger_up(void)
{
	int i;
	qb_log_init("fuzz-c13", LOG_USER, LOG_TRACE);
	qb_log_tags_stringify_fn_set(tagstr);
	memset(mt, 0, sizeof mt);
	mt[M_SYS].id = QB_LOG_SYSLOG;
	mt[M_SYS].enabled = 1;
	unlink(filepath);
	mt[M_FILE].id = qb_log_file_open(filepath);
	mt[M_C1].id = qb_log_custom_open(custom_logger, NULL, NULL, NULL);
	mt[M_C2].id = qb_log_custom_open(custom_logger, NULL, NULL, NULL);
	if (mt[M_FILE].id < 0 || mt[M_C1].id < 0 || mt[M_C2].id < 0) {
		fprintf(rep, "cannot open targets\n");
		exit(2);
	}
	mt[M_FILE].rf = fopen(filepath, "r");
	for (i = 0; i < NT; i++) {
		mt[i].mll = QB_LOG_MAX_LEN;
		mt[i].extended = 1;
		mt[i].ellipsis = 0;
		/* the slots keep some settings over close/fini: start from known ones */
		qb_log_ctl(mt[i].id, QB_LOG_CONF_MAX_LINE_LEN, QB_LOG_MAX_LEN);
		qb_log_ctl(mt[i].id, QB_LOG_CONF_ELLIPSIS, 0);
		qb_log_ctl(mt[i].id, QB_LOG_CONF_EXTENDED, 1);
		strcpy(mt[i].name, "fuzz-c13");
		model_format_set(&mt[i], NULL);
		if (i != M_SYS) {
			qb_log_filter_ctl(mt[i].id, QB_LOG_FILTER_ADD, QB_LOG_FILTER_FILE, "*", LOG_TRACE);
			qb_log_filter_ctl2(mt[i].id, QB_LOG_FILTER_ADD, QB_LOG_FILTER_FILE, "*", 0, 255);
			qb_log_ctl(mt[i].id, QB_LOG_CONF_ENABLED, QB_TRUE);
			mt[i].enabled = 1;
		} else {
			qb_log_filter_ctl2(mt[i].id, QB_LOG_FILTER_ADD, QB_LOG_FILTER_FILE, "*", 0, 255);
		}
	}
	bb_enabled = 0;
	if (!no_bb) {
		qb_log_filter_ctl2(QB_LOG_BLACKBOX, QB_LOG_FILTER_ADD, QB_LOG_FILTER_FILE, "*", 0, 255);
		qb_log_ctl(QB_LOG_BLACKBOX, QB_LOG_CONF_SIZE, 1024 * 256);
		qb_log_ctl(QB_LOG_BLACKBOX, QB_LOG_CONF_MAX_LINE_LEN, QB_LOG_MAX_LEN);
		if (qb_log_ctl(QB_LOG_BLACKBOX, QB_LOG_CONF_ENABLED, QB_TRUE) == 0) bb_enabled = 1;
	}
}

static void logger_down(void)
{
	int i;
	bb_dump_and_print();
	if (bb_enabled) qb_log_ctl(QB_LOG_BLACKBOX, QB_LOG_CONF_ENABLED, QB_FALSE);
	fclose(mt[M_FILE].rf);
	qb_log_file_close(mt[M_FILE].id);
	qb_log_custom_close(mt[M_C1].id);
	qb_log_custom_close(mt[M_C2].id);
	qb_log_fini();
	for (i = 0; i < NT; i++) {
		free_toks(&mt[i]);
		free(mt[i].rawfmt);
		free(mt[i].got);
		mt[i].got = NULL;
		free(last_msg[i]);
		last_msg[i] = NULL;
	}
}

int main(int argc, char **argv)
{
	unsigned long seed = argc > 1 ? strtoul(argv[1], NULL, 0) : 1;
	unsigned long nops = argc > 2 ? strtoul(argv[2], NULL, 0) : 100000;
	const char *flags = argc > 3 ? argv[3] : "";
	unsigned long op;
	int fd;

	allow_pct_name = strchr(flags, 'N') != NULL;
	allow_long_fmt = strchr(flags, 'L') != NULL;
	no_bb = strchr(flags, 'B') != NULL;
	verbose = strchr(flags, 'v') != NULL;

	fd = dup(2);
	rep = fdopen(fd, "w");
	setvbuf(rep, NULL, _IONBF, 0);
	if (freopen("/dev/null", "w", stdout) == NULL) return 2;
	setenv("TZ", "UTC", 1);
	tzset();
	gethostname(hostname_s, sizeof hostname_s);
	hostname_s[sizeof hostname_s - 1] = 0;

	rs = seed * 0x9E3779B97F4A7C15ull + 12345;
	rnd(); rnd();
	snprintf(filepath, sizeof filepath, "/tmp/hunt2-C13/run/f-%d.log", getpid());
	snprintf(bbpath, sizeof bbpath, "/tmp/hunt2-C13/run/bb-%d.dump", getpid());
	mkdir("/tmp/hunt2-C13/run", 0755);

	memset(lit600, 'L', 600);
	memset(lit5000, 'M', 5000);
	lit5000[100] = '%'; lit5000[101] = '%';
	memset(lit511, 'q', 511);

	init_cspool();
	logger_up();

	for (op = 0; op < nops; op++) {
		int k = rn(100);
		int i = rn(NT);
		struct mtarget *m = &mt[i];

		if (op > 0 && op % 15000 == 0) {
			logger_down();
			init_cspool();
			logger_up();
		}
		if (k < 55) {
			do_log();
		} else if (k < 70) {
			do_format_set(i);
		} else if (k < 80) {
			set_mll(i, pick_mll());
		} else if (k < 85) {
			int v = rn(2);
			if (qb_log_ctl(m->id, QB_LOG_CONF_ELLIPSIS, v) == 0) m->ellipsis = v;
		} else if (k < 90) {
			int v = rn(2);
			if (qb_log_ctl(m->id, QB_LOG_CONF_EXTENDED, v) == 0) m->extended = v;
		} else if (k < 94) {
			int v = rn(3) != 0;
			/* disabling a file target closes its file for good: not
			 * this property's business, leave it enabled */
			if (i != M_FILE &&
			    qb_log_ctl(m->id, QB_LOG_CONF_ENABLED, v) == 0) m->enabled = v;
		} else if (k < 98) {
			/* ident */
			char nm[600];
			int l = rn(4) ? rn(20) : rn(550), j;
			for (j = 0; j < l; j++) {
				nm[j] = "abcdefghij-_.0123%"[rn(allow_pct_name ? 18 : 17)];
			}
			nm[l] = 0;
			if (qb_log_ctl2(m->id, QB_LOG_CONF_IDENT, QB_LOG_CTL2_S(nm)) == 0)
				strcpy(m->name, nm);
		} else if (k < 99) {
			bb_dump_and_print();
		} else {
			/* blackbox on/off */
			if (!no_bb) {
				if (bb_enabled) {
					qb_log_ctl(QB_LOG_BLACKBOX, QB_LOG_CONF_ENABLED, QB_FALSE);
					bb_enabled = 0;
				} else if (qb_log_ctl(QB_LOG_BLACKBOX, QB_LOG_CONF_ENABLED, QB_TRUE) == 0) {
					bb_enabled = 1;
				}
			}
		}
	}
	logger_down();
	unlink(filepath);
	unlink(bbpath);
	fprintf(rep, "seed %lu: ops %lu logs %lu lines %lu checked %lu skipped %lu fmtset %lu bbprint %lu; tolerated: exactfit %lu nlcut %lu ralign_cut %lu\n",
		seed, nops, n_logs, n_lines, n_checked, n_skipped, n_fmtset, n_bbprint, n_exactfit, n_nlcut, n_ralign_cut);
	return 0;
}
