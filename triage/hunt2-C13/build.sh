#!/bin/sh
# usage: build.sh [tree] [out]   (default tree /repo)
T=${1:-/repo}
O=${2:-/tmp/hunt2-C13/fuzz}
cd /tmp/hunt2-C13 || exit 1
gcc -g -O1 -fno-omit-frame-pointer -fsanitize=address,undefined -fno-sanitize-recover=undefined \
  -DHAVE_CONFIG_H -I$T/include -I$T/include/qb -I$T/lib -w \
  fuzz.c $T/lib/log.c $T/lib/log_format.c $T/lib/log_file.c $T/lib/log_syslog.c \
  $T/lib/log_blackbox.c $T/lib/log_thread.c $T/lib/log_dcs.c \
  -L$T/lib/.libs -lqb -lpthread -o $O
