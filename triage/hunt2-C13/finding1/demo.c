/*
 * C13 finding 1: a log call whose printf format uses the standard "L" length
 * modifier (long double) makes the blackbox serializer lose step with the
 * argument list; the next %s dereferences a wild pointer.
 */
#include <stdio.h>
#include <stdlib.h>
#include <string.h>
#include <unistd.h>
#include <syslog.h>
#include <qb/qbdefs.h>
#include <qb/qblog.h>

static char line[1024];
static void lg(int32_t t, struct qb_log_callsite *cs, struct timespec *ts, const char *msg)
{
	snprintf(line, sizeof line, "%s", msg);
}

int main(void)
{
	int32_t c;
	qb_log_init("c13f1", LOG_USER, LOG_EMERG);
	qb_log_ctl(QB_LOG_SYSLOG, QB_LOG_CONF_ENABLED, QB_FALSE);
	/* an ordinary text target gets the line right ... */
	c = qb_log_custom_open(lg, NULL, NULL, NULL);
	qb_log_filter_ctl(c, QB_LOG_FILTER_ADD, QB_LOG_FILTER_FILE, "*", LOG_TRACE);
	qb_log_ctl(c, QB_LOG_CONF_ENABLED, QB_TRUE);
	qb_log(LOG_INFO, "%d %d %d %d %d %Lf %s", 1, 2, 3, 4, 5, 1.5L, "tail");
	fprintf(stderr, "text target got: <%s>\n", line);
	if (strcmp(line, "1 2 3 4 5 1.500000 tail") != 0) return 2;

	/* ... the same call with the blackbox enabled */
	qb_log_filter_ctl(QB_LOG_BLACKBOX, QB_LOG_FILTER_ADD, QB_LOG_FILTER_FILE, "*", LOG_TRACE);
	qb_log_ctl(QB_LOG_BLACKBOX, QB_LOG_CONF_SIZE, 1024 * 64);
	if (qb_log_ctl(QB_LOG_BLACKBOX, QB_LOG_CONF_ENABLED, QB_TRUE) != 0) return 98;
	fprintf(stderr, "logging the same with the blackbox enabled\n");
	qb_log(LOG_INFO, "%d %d %d %d %d %Lf %s", 1, 2, 3, 4, 5, 1.5L, "tail");
	fprintf(stderr, "survived\n");
	qb_log_ctl(QB_LOG_BLACKBOX, QB_LOG_CONF_ENABLED, QB_FALSE);
	qb_log_fini();
	return 0;
}
