/*
 * C13 finding 3: the text that %N (and %H) expands to is put into the stored
 * format and scanned for directives again when a line is formatted: a '%' in
 * the program name is not printed, it is expanded.
 */
#include <stdio.h>
#include <stdlib.h>
#include <string.h>
#include <syslog.h>
#include <qb/qbdefs.h>
#include <qb/qblog.h>

static char line[8192];
static void lg(int32_t t, struct qb_log_callsite *cs, struct timespec *ts, const char *msg)
{
	char out[QB_LOG_MAX_LEN];
	qb_log_target_format(t, cs, ts, msg, out);
	snprintf(line, sizeof line, "%s", out);
}

int main(void)
{
	int32_t c;
	int bad = 0;

	qb_log_init("cpu100%busy", LOG_USER, LOG_EMERG);
	qb_log_ctl(QB_LOG_SYSLOG, QB_LOG_CONF_ENABLED, QB_FALSE);
	c = qb_log_custom_open(lg, NULL, NULL, NULL);
	qb_log_filter_ctl(c, QB_LOG_FILTER_ADD, QB_LOG_FILTER_FILE, "*", LOG_TRACE);
	qb_log_ctl(c, QB_LOG_CONF_ENABLED, QB_TRUE);

	qb_log_format_set(c, "%N: %b");
	qb_log(LOG_INFO, "hello");
	fprintf(stderr, "(a) name from qb_log_init  expected <cpu100%%busy: hello>\n                           got      <%s>\n", line);
	if (strcmp(line, "cpu100%busy: hello") != 0) bad |= 1;

	qb_log_ctl2(c, QB_LOG_CONF_IDENT, QB_LOG_CTL2_S("50%-9n"));
	qb_log_format_set(c, "%N|%b");
	qb_log(LOG_INFO, "hello");
	fprintf(stderr, "(b) name from CONF_IDENT   expected <50%%-9n|hello>\n                           got      <%s>\n", line);
	if (strcmp(line, "50%-9n|hello") != 0) bad |= 2;

	qb_log_custom_close(c);
	qb_log_fini();
	return bad;
}
