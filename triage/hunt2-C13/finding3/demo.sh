#!/bin/sh
# usage: demo.sh <tree>   exit 0 = property held, non-zero = violated
T=${1:-/repo}
D=$(cd "$(dirname "$0")" && pwd)
O=$(mktemp -d /tmp/hunt2-C13-demo.XXXXXX)
gcc -g -O1 -fno-omit-frame-pointer -fsanitize=address,undefined \
  -DHAVE_CONFIG_H -I$T/include -I$T/include/qb -I$T/lib -w \
  $D/demo.c $T/lib/log.c $T/lib/log_format.c $T/lib/log_file.c $T/lib/log_syslog.c \
  $T/lib/log_blackbox.c $T/lib/log_thread.c $T/lib/log_dcs.c \
  -L$T/lib/.libs -lqb -lpthread -o $O/demo || { rm -rf $O; exit 99; }
LD_LIBRARY_PATH=$T/lib/.libs ASAN_OPTIONS=detect_leaks=0 $O/demo
rc=$?
rm -rf $O
if [ $rc -eq 0 ]; then echo "demo: property held"; else echo "demo: property VIOLATED (rc=$rc)"; fi
exit $rc
