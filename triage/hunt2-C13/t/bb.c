#include <stdio.h>
#include <stdlib.h>
#include <string.h>
#include <unistd.h>
#include <syslog.h>
#include <qb/qbdefs.h>
#include <qb/qblog.h>
int main(int argc, char **argv)
{
	int which = argc > 1 ? atoi(argv[1]) : 0;
	qb_log_init("bbt", LOG_USER, LOG_EMERG);
	qb_log_ctl(QB_LOG_SYSLOG, QB_LOG_CONF_ENABLED, QB_FALSE);
	qb_log_filter_ctl(QB_LOG_BLACKBOX, QB_LOG_FILTER_ADD, QB_LOG_FILTER_FILE, "*", LOG_TRACE);
	qb_log_ctl(QB_LOG_BLACKBOX, QB_LOG_CONF_SIZE, 1024 * 64);
	if (qb_log_ctl(QB_LOG_BLACKBOX, QB_LOG_CONF_ENABLED, QB_TRUE) != 0) return 2;
	switch (which) {
	case 0: qb_log(LOG_INFO, "%d %d %d %d %d %Lf %s", 1, 2, 3, 4, 5, 1.5L, "tail"); break;
	case 1: qb_log(LOG_INFO, "%Lf %s", 1.5L, "tail"); break;
	case 2: qb_log(LOG_INFO, "%d %d %d %d %d %d %Lf %d %s", 1, 2, 3, 4, 5, 6, 1.5L, 7, "tail"); break;
	}
	unlink("/tmp/hunt2-C13/t/bb.dump");
	qb_log_blackbox_write_to_file("/tmp/hunt2-C13/t/bb.dump");
	qb_log_blackbox_print_from_file("/tmp/hunt2-C13/t/bb.dump");
	qb_log_fini();
	return 0;
}
