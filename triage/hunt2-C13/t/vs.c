#include <stdio.h>
#include <string.h>
#include <errno.h>
#include <limits.h>
#include <wchar.h>
#include <stdarg.h>
static int f(char*b,size_t n,const char*fmt,...){va_list ap;va_start(ap,fmt);int r=vsnprintf(b,n,fmt,ap);va_end(ap);return r;}
int main(){
 char b[64]; memset(b,'X',sizeof b); 
 int r=f(b,32,"%*d%*d",INT_MAX,1,INT_MAX,2); 
 printf("r=%d errno=%d nul@%ld\n",r,errno,(long)((char*)memchr(b,0,64)?(char*)memchr(b,0,64)-b:-1));
 memset(b,'X',sizeof b);
 wchar_t w[]={L'a',0xdfffffff,0};
 r=f(b,32,"hello %ls",w);
 printf("r=%d errno=%d nul@%ld\n",r,errno,(long)((char*)memchr(b,0,64)?(char*)memchr(b,0,64)-b:-1));
 memset(b,'X',sizeof b);
 r=f(b,32,"hello %2147483648d",1);
 printf("r=%d errno=%d nul@%ld\n",r,errno,(long)((char*)memchr(b,0,64)?(char*)memchr(b,0,64)-b:-1));
 memset(b,'X',sizeof b);
 r=f(b,32,"%lc",(wint_t)0xdfffffff);
 printf("r=%d errno=%d nul@%ld\n",r,errno,(long)((char*)memchr(b,0,64)?(char*)memchr(b,0,64)-b:-1));
 return 0;}
