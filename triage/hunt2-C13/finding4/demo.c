/*
 * C13 finding 4: the ellipsis is decided by "the line is full", not by
 * "something was cut":
 *  (a) a line that fits exactly loses its last three characters to "...";
 *  (b) a line that is cut right after a newline is not marked at all.
 */
#include <stdio.h>
#include <stdlib.h>
#include <string.h>
#include <syslog.h>
#include <qb/qbdefs.h>
#include <qb/qblog.h>

static char line[8192];
static int32_t mll = 16;
static void lg(int32_t t, struct qb_log_callsite *cs, struct timespec *ts, const char *msg)
{
	char *out = malloc(mll);
	qb_log_target_format(t, cs, ts, msg, out);
	snprintf(line, sizeof line, "%s", out);
	free(out);
}

int main(void)
{
	int32_t c;
	int bad = 0;

	qb_log_init("c13f4", LOG_USER, LOG_EMERG);
	qb_log_ctl(QB_LOG_SYSLOG, QB_LOG_CONF_ENABLED, QB_FALSE);
	c = qb_log_custom_open(lg, NULL, NULL, NULL);
	qb_log_filter_ctl(c, QB_LOG_FILTER_ADD, QB_LOG_FILTER_FILE, "*", LOG_TRACE);
	qb_log_ctl(c, QB_LOG_CONF_ENABLED, QB_TRUE);
	if (qb_log_ctl(c, QB_LOG_CONF_MAX_LINE_LEN, mll) != 0) return 98;	/* 15 characters + NUL */
	qb_log_ctl(c, QB_LOG_CONF_ELLIPSIS, QB_TRUE);
	qb_log_format_set(c, "%b");

	qb_log(LOG_INFO, "%s", "123456789012345");	/* 15: fits exactly */
	fprintf(stderr, "(a) 15 characters, limit 16: expected <123456789012345>\n                             got      <%s>\n", line);
	if (strcmp(line, "123456789012345") != 0) bad |= 1;

	qb_log(LOG_INFO, "%s", "1234567890123456");	/* 16: one too many */
	fprintf(stderr, "(-) 16 characters, limit 16: expected <123456789012...>\n                             got      <%s>\n", line);
	if (strcmp(line, "123456789012...") != 0) bad |= 4;

	qb_log(LOG_INFO, "%s", "12345678901234\n789");	/* cut after the newline */
	fprintf(stderr, "(b) cut after a newline    : expected <123456789012...>\n                             got      <%s>\n", line);
	if (strcmp(line, "123456789012...") != 0) bad |= 2;

	qb_log_custom_close(c);
	qb_log_fini();
	return bad;
}
