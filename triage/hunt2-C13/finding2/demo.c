/*
 * C13 finding 2: qb_log_format_set() cuts the format where the TEXT of the
 * format reaches the line limit, although the directives in it expand to
 * less than they take in the format: the rest of the format (here the
 * message) never appears, in a line that is far from full.
 */
#include <stdio.h>
#include <stdlib.h>
#include <string.h>
#include <syslog.h>
#include <qb/qbdefs.h>
#include <qb/qblog.h>

static char line[8192];
static int32_t mll;
static void lg(int32_t t, struct qb_log_callsite *cs, struct timespec *ts, const char *msg)
{
	char *out = malloc(mll);
	qb_log_target_format(t, cs, ts, msg, out);
	snprintf(line, sizeof line, "%s", out);
	free(out);
}

int main(void)
{
	int32_t c;
	int bad = 0, i;
	char fmt[1024], exp[1024];

	qb_log_init("c13f2", LOG_USER, LOG_EMERG);
	qb_log_ctl(QB_LOG_SYSLOG, QB_LOG_CONF_ENABLED, QB_FALSE);
	c = qb_log_custom_open(lg, NULL, NULL, NULL);
	qb_log_filter_ctl(c, QB_LOG_FILTER_ADD, QB_LOG_FILTER_FILE, "*", LOG_TRACE);
	qb_log_ctl(c, QB_LOG_CONF_ENABLED, QB_TRUE);

	/* (a) limit 32: the line "iiiiiiiiii hello" needs 16 characters */
	mll = 32;
	if (qb_log_ctl(c, QB_LOG_CONF_MAX_LINE_LEN, mll) != 0) return 98;
	qb_log_format_set(c, "%1p%1p%1p%1p%1p%1p%1p%1p%1p%1p %b");
	qb_log(LOG_INFO, "hello");
	fprintf(stderr, "(a) limit 32   expected <iiiiiiiiii hello>\n               got      <%s>\n", line);
	if (strcmp(line, "iiiiiiiiii hello") != 0) bad |= 1;

	/* (b) default limit 512: 171 one-character fields, then the message:
	 * 176 characters */
	mll = 512;
	if (qb_log_ctl(c, QB_LOG_CONF_MAX_LINE_LEN, mll) != 0) return 98;
	fmt[0] = 0; exp[0] = 0;
	for (i = 0; i < 171; i++) { strcat(fmt, "%1p"); strcat(exp, "i"); }
	strcat(fmt, "%b"); strcat(exp, "hello");
	line[0] = 0;
	qb_log_format_set(c, fmt);
	qb_log(LOG_INFO, "hello");
	fprintf(stderr, "(b) limit 512  expected %zu characters ending in <hello>, got %zu characters ending in <%s>\n",
		strlen(exp), strlen(line), strlen(line) >= 5 ? line + strlen(line) - 5 : line);
	if (strcmp(line, exp) != 0) bad |= 2;

	qb_log_custom_close(c);
	qb_log_fini();
	return bad;
}
