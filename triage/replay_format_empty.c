#include "os_base.h"
#include <qb/qbdefs.h>
#include <qb/qblist.h>
#include <qb/qblog.h>
#include "log_int.h"
static void tlog(int32_t t, struct qb_log_callsite *cs, struct timespec *ts, const char *msg){}
int main(void){
  qb_log_init("t", LOG_USER, LOG_EMERG); qb_log_ctl(QB_LOG_SYSLOG, QB_LOG_CONF_ENABLED, QB_FALSE);
  int t = qb_log_custom_open(tlog, NULL, NULL, NULL); qb_log_format_set(t, "%b");
  struct qb_log_callsite *cs = qb_log_callsite_get("f","file.c","x", LOG_INFO, 10, 0);
  struct timespec ts={0,0}; char *out = malloc(512); out[0]=0;
  qb_log_target_format(t, cs, &ts, "", out); printf("formatted '%s'\n", out); return 0; }
