#!/bin/sh
# long run; results in campaign.log
H=$(dirname "$(readlink -f "$0")")
export LD_LIBRARY_PATH=${1:-/repo}/lib/.libs
: > $H/campaign.log
run() { $H/fuzz "$@" 2>&1 | tail -6 >> $H/campaign.log; }
( for s in 101 102 103; do run -k -s $s -n 150000; done ) &
( for s in 104 105 106; do run -k -s $s -n 150000; done ) &
( for s in 201 202; do run -k -m 1 -s $s -n 100000; done ) &
( for s in 203 204; do run -k -m 1 -s $s -n 100000; done ) &
( for s in 301 302; do run -k -F -s $s -n 100000; done ) &
( for s in 303 304; do run -k -F -s $s -n 100000; done ) &
( for s in 401 402; do run -k -b 20 -s $s -n 100000; done ) &
( for s in 501 502; do run -k -b 95 -s $s -n 100000; done ) &
wait
echo done >> $H/campaign.log
