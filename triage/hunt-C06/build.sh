#!/bin/sh
# usage: build.sh [tree]   (default /repo)
T=${1:-/repo}
H=$(dirname "$(readlink -f "$0")")
set -e
SRC="$T/lib/ipc_setup.c $T/lib/ipc_socket.c $T/lib/ipcs.c $T/lib/ipc_shm.c $T/lib/ringbuffer.c $T/lib/ringbuffer_helper.c $T/lib/unix.c"
gcc -g -O1 -fno-omit-frame-pointer -fsanitize=address,undefined -fno-sanitize=alignment -fno-sanitize-recover=undefined \
    -DHAVE_CONFIG_H -I$T/include -I$T/include/qb -I$T/lib \
    -o ${OUT:-$H/fuzz} $H/fuzz.c $SRC -L$T/lib/.libs -lqb -lpthread
echo "built $H/fuzz (run with LD_LIBRARY_PATH=$T/lib/.libs)"
