#!/bin/sh
# usage: demo.sh <tree>    exit 0 = property held, non-zero = violated
T=${1:-/repo}
H=$(dirname "$(readlink -f "$0")")
B=$(mktemp -d /tmp/hunt-C06-f1.XXXXXX)
SRC="$T/lib/ipc_setup.c $T/lib/ipc_socket.c $T/lib/ipcs.c $T/lib/ipc_shm.c $T/lib/ringbuffer.c $T/lib/ringbuffer_helper.c $T/lib/unix.c"
gcc -g -O1 -fsanitize=address,undefined -fno-sanitize=alignment -DHAVE_CONFIG_H \
    -I$T/include -I$T/include/qb -I$T/lib -o $B/demo $H/demo.c $SRC \
    -L$T/lib/.libs -lqb -lpthread 2>$B/build.log || { cat $B/build.log; rm -rf $B; exit 2; }
LD_LIBRARY_PATH=$T/lib/.libs $B/demo
rc=$?
rm -rf $B
exit $rc
