/*
 * C06 finding 1: on the SHM transport the server hands msg_process() a
 * request that is longer than the negotiated maximum message size (and, with
 * a forged chunk length word, longer than anything that was ever written).
 *
 * Single process, single thread: an SHM service on a private poll table and a
 * raw client (plain AF_UNIX socket + qb_rb_* on the request ring).
 *
 * exit 0: property held, 1: violated, 2: setup problem
 */
#include "os_base.h"
#include <poll.h>
#include <sys/un.h>
#include <sys/socket.h>
#include <qb/qbdefs.h>
#include <qb/qbipcs.h>
#include <qb/qbrb.h>
#include <qb/qbloop.h>
#include "util_int.h"
#include "ipc_int.h"

/* ---- minimal poll table ---- */
#define NPE 16
static struct { int used, fd, ev; void *d; qb_ipcs_dispatch_fn_t fn; } pe[NPE];
static int32_t p_add(enum qb_loop_priority p, int32_t fd, int32_t ev, void *d, qb_ipcs_dispatch_fn_t fn)
{ int i; for (i = 0; i < NPE; i++) if (!pe[i].used) { pe[i].used = 1; pe[i].fd = fd; pe[i].ev = ev; pe[i].d = d; pe[i].fn = fn; return 0; } return -ENOMEM; }
static int32_t p_mod(enum qb_loop_priority p, int32_t fd, int32_t ev, void *d, qb_ipcs_dispatch_fn_t fn)
{ int i; for (i = 0; i < NPE; i++) if (pe[i].used && pe[i].fd == fd) { pe[i].ev = ev; pe[i].d = d; pe[i].fn = fn; return 0; } return -ENOENT; }
static int32_t p_del(int32_t fd)
{ int i; for (i = 0; i < NPE; i++) if (pe[i].used && pe[i].fd == fd) { pe[i].used = 0; return 0; } return -ENOENT; }
static int32_t p_job(enum qb_loop_priority p, void *d, qb_loop_job_dispatch_fn fn) { fn(d); return 0; }
static void pump(void)
{
	int idle = 0;
	while (idle < 3) {
		struct pollfd pf[NPE]; int ix[NPE], n = 0, i, ran = 0;
		for (i = 0; i < NPE; i++) if (pe[i].used) { pf[n].fd = pe[i].fd; pf[n].events = pe[i].ev & ~POLLNVAL; pf[n].revents = 0; ix[n++] = i; }
		if (poll(pf, n, 5) > 0)
			for (i = 0; i < n; i++)
				if (pf[i].revents && pe[ix[i]].used && pe[ix[i]].fd == pf[i].fd) {
					int fd = pf[i].fd;
					if (pe[ix[i]].fn(fd, pf[i].revents, pe[ix[i]].d) < 0 && pe[ix[i]].used && pe[ix[i]].fd == fd) pe[ix[i]].used = 0;
					ran++;
				}
		idle = ran ? 0 : idle + 1;
	}
}

/* ---- server callbacks ---- */
static int violated;
static int32_t negotiated;
static size_t last_size; static int nmsgs;
static int32_t cb_accept(qb_ipcs_connection_t *c, uid_t u, gid_t g) { return 0; }
static void cb_created(qb_ipcs_connection_t *c) { negotiated = qb_ipcs_connection_get_buffer_size(c); }
static int32_t cb_closed(qb_ipcs_connection_t *c) { printf("  server: connection closed\n"); return 0; }
static void cb_destroyed(qb_ipcs_connection_t *c) { }
static int32_t cb_msg(qb_ipcs_connection_t *c, void *data, size_t size)
{
	int32_t max = qb_ipcs_connection_get_buffer_size(c);
	nmsgs++; last_size = size;
	printf("  server: msg_process(size=%zu), negotiated max for this connection = %d%s\n",
	       size, max, size > (size_t)max ? "   <-- exceeds the negotiated maximum" : "");
	if (size > (size_t)max) violated = 1;
	return 0;
}

static qb_ipcs_service_t *start(const char *name, enum qb_ipc_type t)
{
	struct qb_ipcs_service_handlers sh = { cb_accept, cb_created, cb_msg, cb_closed, cb_destroyed };
	struct qb_ipcs_poll_handlers ph = { p_job, p_add, p_mod, p_del };
	qb_ipcs_service_t *s = qb_ipcs_create(name, 0, t, &sh);
	qb_ipcs_poll_handlers_set(s, &ph);
	if (qb_ipcs_run(s) != 0) { perror("qb_ipcs_run"); exit(2); }
	return s;
}

static void abs_addr(struct sockaddr_un *a, const char *name)
{ memset(a, 0, sizeof(*a)); a->sun_family = AF_UNIX; snprintf(a->sun_path + 1, UNIX_PATH_MAX - 1, "%s", name); }

/* raw handshake; returns the stream fd, fills r */
static int handshake(const char *name, uint32_t want, struct qb_ipc_connection_response *r)
{
	struct sockaddr_un a; struct qb_ipc_connection_request rq; ssize_t got = 0;
	int fd = socket(PF_UNIX, SOCK_STREAM, 0);
	abs_addr(&a, name);
	if (connect(fd, (struct sockaddr *)&a, sizeof(a)) < 0) { perror("connect"); exit(2); }
	memset(&rq, 0, sizeof(rq));
	rq.hdr.id = QB_IPC_MSG_AUTHENTICATE; rq.hdr.size = sizeof(rq); rq.max_msg_size = want;
	if (send(fd, &rq, sizeof(rq), 0) != sizeof(rq)) exit(2);
	pump();
	while (got < (ssize_t)sizeof(*r)) { ssize_t x = recv(fd, (char *)r + got, sizeof(*r) - got, MSG_DONTWAIT); if (x <= 0) break; got += x; }
	if (got != sizeof(*r) || r->hdr.error != 0) { fprintf(stderr, "handshake failed (%zd, %d)\n", got, r->hdr.error); exit(2); }
	return fd;
}

static unsigned char big[64 * 1024];

int main(void)
{
	char nshm[64], nsock[64];
	static struct qb_ipc_connection_response r;
	struct qb_ipc_request_header *h;
	qb_ringbuffer_t *rb;
	qb_ipcs_service_t *s_shm, *s_sock;
	int fd, dg;
	int32_t M;
	size_t L;

	setvbuf(stdout, NULL, _IONBF, 0);
	signal(SIGPIPE, SIG_IGN);
	snprintf(nshm, sizeof(nshm), "c06f1s%d", (int)getpid());
	snprintf(nsock, sizeof(nsock), "c06f1u%d", (int)getpid());
	s_shm = start(nshm, QB_IPC_SHM);
	s_sock = start(nsock, QB_IPC_SOCKET);

	/* ---------- reference: SOCKET transport refuses an oversized request ---------- */
	printf("SOCKET transport (for comparison): request of M+3672 bytes, header size says the same\n");
	fd = handshake(nsock, 0, &r);
	M = r.max_msg_size; L = (size_t)M + 3672;
	printf("  client: negotiated max_msg_size M = %d\n", M);
	{
		struct sockaddr_un a; char p[PATH_MAX]; unsigned v = 1 << 20;
		dg = socket(PF_UNIX, SOCK_DGRAM, 0);
		snprintf(p, sizeof(p), "%s-response", r.response); abs_addr(&a, p);
		if (bind(dg, (struct sockaddr *)&a, sizeof(a)) < 0) { perror("bind"); exit(2); }
		snprintf(p, sizeof(p), "%s-request", r.response); abs_addr(&a, p);
		if (connect(dg, (struct sockaddr *)&a, sizeof(a)) < 0) { perror("connect dgram"); exit(2); }
		setsockopt(dg, SOL_SOCKET, SO_SNDBUF, &v, sizeof(v));
	}
	memset(big, 0x5a, sizeof(big));
	h = (struct qb_ipc_request_header *)big; h->id = 1; h->size = (int32_t)L;
	nmsgs = 0;
	if (send(dg, big, L, 0) != (ssize_t)L) { perror("send dgram"); exit(2); }
	pump();
	printf("  -> msg_process called %d time(s)\n", nmsgs);
	close(dg); close(fd); pump();

	/* ---------- A: SHM, honest chunk longer than the negotiated maximum ---------- */
	printf("SHM transport, A: one chunk of M+3672 bytes written with qb_rb_chunk_write(), header size says the same\n");
	fd = handshake(nshm, 0, &r);
	M = r.max_msg_size; L = (size_t)M + 3672;
	printf("  client: negotiated max_msg_size M = %d\n", M);
	rb = qb_rb_open(r.request, M, QB_RB_FLAG_SHARED_PROCESS, sizeof(int32_t));
	if (rb == NULL) { perror("qb_rb_open"); exit(2); }
	h->id = 1; h->size = (int32_t)L;
	nmsgs = 0;
	if (qb_rb_chunk_write(rb, big, L) != (ssize_t)L) { perror("qb_rb_chunk_write"); exit(2); }
	if (send(fd, "x", 1, 0) != 1) exit(2);
	pump();
	printf("  -> msg_process called %d time(s), last size %zu\n", nmsgs, nmsgs ? last_size : 0);

	qb_rb_close(rb);
	close(fd);
	pump();

	/* ---------- B: SHM, 16 bytes written, chunk length word says 2 GiB ---------- */
	printf("SHM transport, B (new connection): 16 bytes written, chunk committed with length 0x7fff0000, header size says 0x7fff0000\n");
	fd = handshake(nshm, 0, &r);
	M = r.max_msg_size;
	rb = qb_rb_open(r.request, M, QB_RB_FLAG_SHARED_PROCESS, sizeof(int32_t));
	if (rb == NULL) { perror("qb_rb_open"); exit(2); }
	{
		struct qb_ipc_request_header *d = qb_rb_chunk_alloc(rb, sizeof(*d));
		if (d == NULL) { perror("qb_rb_chunk_alloc"); exit(2); }
		memset(d, 0, sizeof(*d)); d->id = 1; d->size = 0x7fff0000;
		nmsgs = 0;
		if (qb_rb_chunk_commit(rb, 0x7fff0000) != 0) exit(2);
		if (send(fd, "x", 1, 0) != 1) exit(2);
		pump();
		printf("  -> msg_process called %d time(s), last size %zu (ring holds %d bytes)\n",
		       nmsgs, nmsgs ? last_size : 0, (int)QB_ROUNDUP((size_t)M + 13, 4096));
	}
	qb_rb_close(rb);
	close(fd);
	pump();
	qb_ipcs_destroy(s_shm);
	qb_ipcs_destroy(s_sock);
	printf(violated ? "RESULT: property VIOLATED\n" : "RESULT: property held\n");
	return violated;
}
