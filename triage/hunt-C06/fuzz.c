/*
 * C06 model-based randomized tester: libqb IPC server against hostile peers.
 *
 * One process, one thread.  Two services (SHM + SOCKET transport) run on a
 * private, fully deterministic poll table (the qb_ipcs poll handlers are
 * ours).  Raw peers (plain sockets / raw ring buffers, no qb_ipcc_*) drive
 * random byte strings into the handshake socket and random datagrams/chunks
 * into the request channel.  A reference model predicts, for every pump of
 * the server, which callbacks must fire and with which length/content.
 *
 * usage: fuzz [-s seed] [-n ops] [-m mode] [-b pct] [-k] [-F] [-v]
 *   -m 0 mixed (default), 1 handshake heavy, 2 few long-lived connections
 *        with deep request queues
 *   -b  percentage of well-formed requests (default 70, 99 in mode 2)
 *   -k  tolerate the known finding 1 (SHM delivers a request longer than the
 *       negotiated maximum) so that the run continues to look for others
 *   -F  also emit forged chunks (alloc L, commit C != L) on SHM (implies
 *       finding 1 territory, needs -k to run for long)
 */
#include "os_base.h"
#include <poll.h>
#include <signal.h>
#include <dirent.h>
#include <sys/un.h>
#include <sys/mman.h>
#include <sys/socket.h>

#include <qb/qbdefs.h>
#include <qb/qbipcs.h>
#include <qb/qbrb.h>
#include <qb/qbloop.h>
#include <qb/qblog.h>
#include "util_int.h"
#include "ipc_int.h"

#define HS_LEN ((int)sizeof(struct qb_ipc_connection_request))
#define HDR_LEN ((int)sizeof(struct qb_ipc_request_header))
#define RESP_LEN ((int)sizeof(struct qb_ipc_connection_response))

static uint64_t rng_s;
static unsigned long long opno;
static uint64_t seed0;
static int verbose, tolerate_oversize, forged_ok;
static int benign_pct = 70;
static int longlived;
static int violations;

static uint64_t rnd(void)
{
	rng_s ^= rng_s << 13; rng_s ^= rng_s >> 7; rng_s ^= rng_s << 17;
	return rng_s;
}
static uint32_t rn(uint32_t n) { return n ? (uint32_t)(rnd() % n) : 0; }

#define VIOL(...) do { \
	fprintf(stderr, "VIOLATION seed=%llu op=%llu: ", (unsigned long long)seed0, opno); \
	fprintf(stderr, __VA_ARGS__); fprintf(stderr, "\n"); \
	violations++; if (violations > 20) { fprintf(stderr, "too many, abort\n"); exit(3);} } while (0)
#define V(...) do { if (verbose) { fprintf(stderr, "[%llu] ", opno); fprintf(stderr, __VA_ARGS__); fprintf(stderr, "\n"); } } while (0)

static uint64_t hash_bytes(const unsigned char *p, size_t n)
{
	uint64_t h = 1469598103934665603ULL;
	size_t i;
	for (i = 0; i < n; i++) { h ^= p[i]; h *= 1099511628211ULL; }
	return h;
}

/* ------------------------------------------------------------------ */
/* poll table                                                          */
#define MAXPE 256
struct pent {
	int used; int fd; int events; void *data; qb_ipcs_dispatch_fn_t fn; unsigned gen;
};
static struct pent pes[MAXPE];
static unsigned pegen;

struct job { void *data; qb_loop_job_dispatch_fn fn; };
static struct job jobs[64];
static int njobs;

static int32_t my_job_add(enum qb_loop_priority p, void *data, qb_loop_job_dispatch_fn fn)
{
	if (njobs >= 64) return -ENOMEM;
	jobs[njobs].data = data; jobs[njobs].fn = fn; njobs++;
	return 0;
}
static int32_t my_dispatch_add(enum qb_loop_priority p, int32_t fd, int32_t evts, void *data, qb_ipcs_dispatch_fn_t fn)
{
	int i, freei = -1;
	for (i = 0; i < MAXPE; i++) {
		if (pes[i].used && pes[i].fd == fd) return -EEXIST;
		if (!pes[i].used && freei < 0) freei = i;
	}
	if (freei < 0) return -ENOMEM;
	pes[freei].used = 1; pes[freei].fd = fd; pes[freei].events = evts;
	pes[freei].data = data; pes[freei].fn = fn; pes[freei].gen = ++pegen;
	return 0;
}
static int32_t my_dispatch_mod(enum qb_loop_priority p, int32_t fd, int32_t evts, void *data, qb_ipcs_dispatch_fn_t fn)
{
	int i;
	for (i = 0; i < MAXPE; i++) {
		if (pes[i].used && pes[i].fd == fd) {
			pes[i].events = evts; pes[i].data = data; pes[i].fn = fn;
			return 0;
		}
	}
	return -ENOENT;
}
static int32_t my_dispatch_del(int32_t fd)
{
	int i;
	for (i = 0; i < MAXPE; i++) {
		if (pes[i].used && pes[i].fd == fd) { pes[i].used = 0; return 0; }
	}
	return -ENOENT;
}
static int pe_count(void)
{
	int i, n = 0;
	for (i = 0; i < MAXPE; i++) n += pes[i].used;
	return n;
}

/* returns number of callbacks run */
static int pump_once(int timeout_ms)
{
	struct pollfd pf[MAXPE];
	int idx[MAXPE]; unsigned gens[MAXPE];
	int n = 0, i, ran = 0;

	while (njobs > 0) {
		struct job j = jobs[0];
		memmove(&jobs[0], &jobs[1], sizeof(jobs[0]) * (njobs - 1));
		njobs--;
		j.fn(j.data);
		ran++;
	}
	for (i = 0; i < MAXPE; i++) {
		if (!pes[i].used) continue;
		pf[n].fd = pes[i].fd; pf[n].events = pes[i].events & ~POLLNVAL; pf[n].revents = 0;
		idx[n] = i; gens[n] = pes[i].gen; n++;
	}
	if (poll(pf, n, timeout_ms) <= 0) return ran;
	for (i = 0; i < n; i++) {
		struct pent *pe = &pes[idx[i]];
		int32_t r;
		if (!pf[i].revents) continue;
		if (!pe->used || pe->gen != gens[i]) continue;
		r = pe->fn(pe->fd, pf[i].revents, pe->data);
		ran++;
		if (r < 0 && pe->used && pe->gen == gens[i]) pe->used = 0;
	}
	return ran;
}
static void pump(void)
{
	int idle = 0, guard = 0;
	while (idle < 2) {
		int r = pump_once(idle ? 1 : 0);
		if (r == 0) idle++; else idle = 0;
		if (++guard > 1000000) { VIOL("server never quiesces"); break; }
	}
}

/* ------------------------------------------------------------------ */
/* server side                                                         */
enum { EV_ACCEPT, EV_CREATED, EV_MSG, EV_CLOSED, EV_DESTROYED };
struct ev { int kind; void *c; /* per-connection serial, never reused */ void *p; int32_t size; uint64_t h; int svc; };
static uintptr_t conn_serial;
#define MAXEV 8192
static struct ev evlog[MAXEV];
static int nev;
static int accept_ok[2] = {1, 1};
static qb_ipcs_service_t *svc[2];
static unsigned long long total_msgs, total_accepts, total_disc;

static void logev(int kind, void *c, int32_t size, uint64_t h, int s)
{
	if (nev < MAXEV) {
		evlog[nev].kind = kind; evlog[nev].p = c; evlog[nev].c = qb_ipcs_context_get(c); evlog[nev].size = size;
		evlog[nev].h = h; evlog[nev].svc = s; nev++;
	}
}
static int svc_of(qb_ipcs_connection_t *c)
{
	return (int)(intptr_t)qb_ipcs_connection_service_context_get(c);
}
static int32_t cb_accept(qb_ipcs_connection_t *c, uid_t uid, gid_t gid)
{
	int s = svc_of(c);
	qb_ipcs_context_set(c, (void *)(++conn_serial));
	logev(EV_ACCEPT, c, 0, 0, s);
	total_accepts++;
	if (uid != geteuid() || gid != getegid()) VIOL("accept: wrong credentials %d/%d", (int)uid, (int)gid);
	return accept_ok[s] ? 0 : -EACCES;
}
static void cb_created(qb_ipcs_connection_t *c) { logev(EV_CREATED, c, 0, 0, svc_of(c)); }
static int32_t cb_closed(qb_ipcs_connection_t *c) { logev(EV_CLOSED, c, 0, 0, svc_of(c)); return 0; }
static void cb_destroyed(qb_ipcs_connection_t *c) { logev(EV_DESTROYED, c, 0, 0, svc_of(c)); }

static int32_t cb_msg(qb_ipcs_connection_t *c, void *data, size_t size)
{
	struct qb_ipc_request_header *hdr = data;
	int32_t max = qb_ipcs_connection_get_buffer_size(c);
	uint64_t h = 0;
	int act = 0;
	int s = svc_of(c);

	total_msgs++;
	if (size < (size_t)HDR_LEN) VIOL("msg_process size %zu < header", size);
	if (size > (size_t)max) {
		if (!(tolerate_oversize && s == 0))
			VIOL("msg_process size %zu > negotiated max %d (svc %d)", size, max, s);
	}
	if (size >= (size_t)HDR_LEN && (size_t)hdr->size != size) VIOL("msg_process size %zu != hdr->size %d", size, hdr->size);
	if (size <= (size_t)max || (tolerate_oversize && !forged_ok && s == 0 && size <= (64u << 20))) {
		/* touch every byte the library says we own */
		h = hash_bytes(data, size);
		if (size > (size_t)HDR_LEN) act = ((unsigned char *)data)[HDR_LEN] & 7;
	} else {
		h = 0xdead;
	}
	logev(EV_MSG, c, (int32_t)size, h, s);
	switch (act) {
	case 4: {
		struct qb_ipc_response_header r;
		memset(&r, 0, sizeof(r)); r.id = 7; r.size = sizeof(r);
		(void)qb_ipcs_response_send(c, &r, sizeof(r));
		break; }
	case 5: {
		struct qb_ipc_response_header r;
		memset(&r, 0, sizeof(r)); r.id = 8; r.size = sizeof(r);
		(void)qb_ipcs_event_send(c, &r, sizeof(r));
		break; }
	case 6:
		total_disc++;
		qb_ipcs_disconnect(c);
		break;
	case 7:
		return -1;
	default:
		break;
	}
	return 0;
}

static char svcname[2][64];
static void server_start(void)
{
	struct qb_ipcs_service_handlers sh = {
		.connection_accept = cb_accept, .connection_created = cb_created,
		.msg_process = cb_msg, .connection_closed = cb_closed,
		.connection_destroyed = cb_destroyed,
	};
	struct qb_ipcs_poll_handlers ph = {
		.job_add = my_job_add, .dispatch_add = my_dispatch_add,
		.dispatch_mod = my_dispatch_mod, .dispatch_del = my_dispatch_del,
	};
	int i;
	for (i = 0; i < 2; i++) {
		snprintf(svcname[i], sizeof(svcname[i]), "fz%d%c", (int)getpid(), i ? 'u' : 's');
		svc[i] = qb_ipcs_create(svcname[i], i, i ? QB_IPC_SOCKET : QB_IPC_SHM, &sh);
		qb_ipcs_service_context_set(svc[i], (void *)(intptr_t)i);
		qb_ipcs_poll_handlers_set(svc[i], &ph);
		if (qb_ipcs_run(svc[i]) != 0) { perror("qb_ipcs_run"); exit(2); }
	}
}

/* ------------------------------------------------------------------ */
/* model peers                                                         */
enum { ST_PRE, ST_ACC, ST_WEDGED };
struct ipc_us_control_m { int32_t sent; int32_t flow_control; };

struct expmsg { int maybe; /* server may as well refuse it and drop the client */ int32_t S; uint64_t h; int term; /* 0 deliver, 1 deliver then disconnect, 2 drop+disconnect, 3 wedge */ };
#define MAXQ 96
struct mc {
	int used, s, st;
	int fd;
	unsigned char hs[1 << 17];
	int hslen, hssent, closed, wr_shut, rd_shut, processed;
	uint32_t reqmax;
	void *conn; uint32_t max;
	/* socket transport */
	int dg, evfd; struct ipc_us_control_m *ctl;
	/* shm transport */
	qb_ringbuffer_t *rq, *rs, *re;
	size_t rbcap;
	struct expmsg q[MAXQ]; int nq;
	int expect_gone;	/* model: server must have dropped the connection by next pump */
	int oob_sent;
	int chaos;		/* a forged chunk went out: ring contents are no longer predictable */
	int zombie;		/* we closed our side, waiting for the server to notice */
};
#define MAXMC 10
static struct mc *mcs[MAXMC];

static int count_fds(void)
{
	DIR *d = opendir("/proc/self/fd");
	struct dirent *e; int n = 0;
	while ((e = readdir(d))) if (e->d_name[0] != '.') n++;
	closedir(d);
	return n - 1;
}
static int count_shm(void)
{
	DIR *d = opendir("/dev/shm");
	struct dirent *e; int n = 0; char pfx[64];
	snprintf(pfx, sizeof(pfx), "qb-%d-%d-", (int)getpid(), (int)getpid());
	while ((e = readdir(d))) if (!strncmp(e->d_name, pfx, strlen(pfx))) n++;
	closedir(d);
	return n;
}

static void set_abs_addr(struct sockaddr_un *a, const char *name)
{
	memset(a, 0, sizeof(*a));
	a->sun_family = AF_UNIX;
	snprintf(a->sun_path + 1, UNIX_PATH_MAX - 1, "%s", name);
}
static int stream_connect(const char *name)
{
	struct sockaddr_un a;
	int fd = socket(PF_UNIX, SOCK_STREAM | SOCK_CLOEXEC, 0);
	if (fd < 0) return -1;
	set_abs_addr(&a, name);
	if (connect(fd, (struct sockaddr *)&a, sizeof(a)) < 0) { close(fd); return -1; }
	fcntl(fd, F_SETFL, O_NONBLOCK);
	return fd;
}
static int dgram_pair(const char *base, const char *local, const char *remote, uint32_t max)
{
	struct sockaddr_un a;
	char p[PATH_MAX];
	unsigned int v;
	int fd = socket(PF_UNIX, SOCK_DGRAM | SOCK_CLOEXEC, 0);
	if (fd < 0) return -1;
	fcntl(fd, F_SETFL, O_NONBLOCK);
	snprintf(p, sizeof(p), "%s-%s", base, local);
	set_abs_addr(&a, p);
	if (bind(fd, (struct sockaddr *)&a, sizeof(a)) < 0) { close(fd); return -1; }
	snprintf(p, sizeof(p), "%s-%s", base, remote);
	set_abs_addr(&a, p);
	if (connect(fd, (struct sockaddr *)&a, sizeof(a)) < 0) { close(fd); return -1; }
	v = max + 4096; if (v < max) v = 0x7fffffff;
	setsockopt(fd, SOL_SOCKET, SO_SNDBUF, &v, sizeof(v));
	setsockopt(fd, SOL_SOCKET, SO_RCVBUF, &v, sizeof(v));
	return fd;
}

static void mc_free_local(struct mc *m)
{
	if (m->rq) qb_rb_close(m->rq);
	if (m->rs) qb_rb_close(m->rs);
	if (m->re) qb_rb_close(m->re);
	m->rq = m->rs = m->re = NULL;
	if (m->ctl) munmap(m->ctl, 3 * sizeof(struct ipc_us_control_m));
	m->ctl = NULL;
	if (m->dg >= 0) close(m->dg);
	if (m->evfd >= 0) close(m->evfd);
	m->dg = m->evfd = -1;
	if (m->fd >= 0) close(m->fd);
	m->fd = -1;
}
static void mc_drop(int i)
{
	mc_free_local(mcs[i]);
	free(mcs[i]);
	mcs[i] = NULL;
}

static uint32_t pick_reqmax(void)
{
	static const uint32_t t[] = { 0, 1, 16, 23, 24, 100, 4096, 12327, 12328, 12329, 16384, 20000, 65536, 131072, 1 << 20 };
	if (rn(4) == 0) return rn(300000);
	return t[rn(sizeof(t) / sizeof(t[0]))];
}

static void op_new_peer(void)
{
	int i, kind;
	struct mc *m;
	struct qb_ipc_connection_request rq;
	for (i = 0; i < MAXMC; i++) if (!mcs[i]) break;
	if (i == MAXMC) return;
	m = calloc(1, sizeof(*m));
	m->used = 1; m->s = rn(2); m->st = ST_PRE; m->dg = m->evfd = -1;
	m->fd = stream_connect(svcname[m->s]);
	if (m->fd < 0) { VIOL("cannot connect to service %d: %s", m->s, strerror(errno)); free(m); return; }
	memset(&rq, 0, sizeof(rq));
	rq.hdr.id = QB_IPC_MSG_AUTHENTICATE; rq.hdr.size = sizeof(rq); rq.max_msg_size = pick_reqmax();
	memcpy(m->hs, &rq, sizeof(rq));
	m->hslen = sizeof(rq);
	kind = rn(12);
	switch (kind) {
	case 0: case 1: case 2: case 3: case 4:
		break;
	case 5: /* one random byte mutated (padding included) */
		m->hs[rn(HS_LEN)] ^= 1 + rn(255);
		break;
	case 6: { /* garbage of any length */
		int k;
		m->hslen = 1 + rn(64);
		for (k = 0; k < m->hslen; k++) m->hs[k] = rnd();
		break; }
	case 7: { /* valid + trailing garbage */
		int k, extra = 1 + rn(40);
		for (k = 0; k < extra; k++) m->hs[HS_LEN + k] = rnd();
		m->hslen += extra;
		break; }
	case 8: { /* large blob, valid or not */
		int k, extra = 4096 + rn(rn(8) ? 20000 : 100000);
		for (k = 0; k < extra; k++) m->hs[HS_LEN + k] = rnd();
		m->hslen += extra;
		if (rn(2)) m->hs[rn(4)] ^= 0x55;
		break; }
	case 9: { /* size field nonsense */
		static const int32_t t[] = { 0, -1, 1, 23, 25, INT32_MAX, INT32_MIN, 12328 };
		int32_t v = t[rn(8)];
		memcpy(m->hs + 8, &v, 4);
		break; }
	case 10: { /* id nonsense */
		static const int32_t t[] = { 0, -2, -3, 1, INT32_MAX, INT32_MIN };
		int32_t v = t[rn(6)];
		memcpy(m->hs, &v, 4);
		break; }
	case 11: /* truncated */
		m->hslen = rn(HS_LEN);
		break;
	}
	memcpy(&rq, m->hs, sizeof(rq));
	if (rq.max_msg_size > (2u << 20)) {
		/* shared machine: never ask the server for gigabytes */
		rq.max_msg_size &= (2u << 20) - 1;
		memcpy(m->hs + HDR_LEN, &rq.max_msg_size, 4);
	}
	m->reqmax = rq.max_msg_size;
	mcs[i] = m;
	V("peer %d new svc %d kind %d hslen %d reqmax %u", i, m->s, kind, m->hslen, m->reqmax);
}

static int hs_id_ok(struct mc *m)
{
	int32_t id;
	memcpy(&id, m->hs, 4);
	return id == QB_IPC_MSG_AUTHENTICATE;
}

static void op_peer_send(int i)
{
	struct mc *m = mcs[i];
	int left = m->hslen - m->hssent, k;
	ssize_t r;
	if (m->closed || m->wr_shut || left <= 0) return;
	switch (rn(4)) {
	case 0: k = 1; break;
	case 1: k = left; break;
	case 2: k = (m->hssent < HS_LEN && left >= HS_LEN - m->hssent) ? HS_LEN - m->hssent : left; break;
	default: k = 1 + rn(left); break;
	}
	if (rn(25) == 0 && !m->oob_sent) {
		/* an out-of-band byte: not part of the stream the server reads
		 * (only one: a second one would turn the first into ordinary data) */
		m->oob_sent = 1;
		r = send(m->fd, "Z", 1, MSG_OOB | MSG_NOSIGNAL);
		V("peer %d OOB byte -> %zd", i, r);
		return;
	}
	if (rn(12) == 0) {
		/* pass descriptors along with the bytes: the server must not keep them */
		struct msghdr mh; struct iovec iov; struct cmsghdr *cm;
		char cbuf[CMSG_SPACE(3 * sizeof(int))];
		int fds[3], nf = 1 + rn(3), j;
		for (j = 0; j < nf; j++) fds[j] = open("/dev/null", O_RDONLY | O_CLOEXEC);
		memset(&mh, 0, sizeof(mh)); memset(cbuf, 0, sizeof(cbuf));
		iov.iov_base = m->hs + m->hssent; iov.iov_len = k;
		mh.msg_iov = &iov; mh.msg_iovlen = 1;
		mh.msg_control = cbuf; mh.msg_controllen = CMSG_SPACE(nf * sizeof(int));
		cm = CMSG_FIRSTHDR(&mh);
		cm->cmsg_level = SOL_SOCKET; cm->cmsg_type = SCM_RIGHTS; cm->cmsg_len = CMSG_LEN(nf * sizeof(int));
		memcpy(CMSG_DATA(cm), fds, nf * sizeof(int));
		r = sendmsg(m->fd, &mh, MSG_NOSIGNAL);
		for (j = 0; j < nf; j++) close(fds[j]);
		V("peer %d sendmsg with %d fds", i, nf);
	} else
	r = send(m->fd, m->hs + m->hssent, k, MSG_NOSIGNAL);
	if (r > 0) m->hssent += r;
	V("peer %d send %d -> %zd (sent %d/%d)", i, k, r, m->hssent, m->hslen);
}

static void *serial_of(void *ptr, int want_dead);
/* complete the client side of an accepted handshake; returns 0 if ok */
static int peer_attach(int i, struct qb_ipc_connection_response *r)
{
	struct mc *m = mcs[i];
	m->conn = serial_of((void *)r->connection, 0);
	m->max = r->max_msg_size;
	if (m->s == 0) {
		m->rq = qb_rb_open(r->request, m->max, QB_RB_FLAG_SHARED_PROCESS, sizeof(int32_t));
		m->rs = qb_rb_open(r->response, m->max, QB_RB_FLAG_SHARED_PROCESS, sizeof(int32_t));
		m->re = qb_rb_open(r->event, m->max, QB_RB_FLAG_SHARED_PROCESS, sizeof(int32_t));
		if (!m->rq || !m->rs || !m->re) { VIOL("peer %d cannot open rbs: %s", i, strerror(errno)); return -1; }
		m->rbcap = QB_ROUNDUP((size_t)m->max + 12 + 1, 4096);
	} else {
		int fd = open(r->request, O_RDWR);
		if (fd < 0) { VIOL("peer %d cannot open control %s", i, r->request); return -1; }
		m->ctl = mmap(0, 3 * sizeof(struct ipc_us_control_m), PROT_READ | PROT_WRITE, MAP_SHARED, fd, 0);
		close(fd);
		if (m->ctl == MAP_FAILED) { m->ctl = NULL; VIOL("mmap ctl"); return -1; }
		m->dg = dgram_pair(r->response, "response", "request", m->max);
		m->evfd = dgram_pair(r->response, "event", "event-tx", m->max);
		if (m->dg < 0 || m->evfd < 0) { VIOL("peer %d dgram setup failed: %s", i, strerror(errno)); return -1; }
	}
	m->st = ST_ACC;
	return 0;
}

static void drain(struct mc *m)
{
	static char buf[1 << 16];
	if (m->st == ST_PRE) return;
	if (m->s == 0) {
		if (m->rs) while (qb_rb_chunk_read(m->rs, buf, sizeof(buf), 0) > 0) ;
		if (m->re) while (qb_rb_chunk_read(m->re, buf, sizeof(buf), 0) > 0) ;
		if (m->fd >= 0) while (recv(m->fd, buf, sizeof(buf), MSG_DONTWAIT) > 0) ;
	} else {
		if (m->dg >= 0) while (recv(m->dg, buf, sizeof(buf), MSG_DONTWAIT) > 0) ;
		if (m->evfd >= 0) while (recv(m->evfd, buf, sizeof(buf), MSG_DONTWAIT) > 0) ;
	}
}

/* is the server end of our stream socket gone? 1 yes, 0 no */
static int stream_gone(int fd)
{
	char b[4096];
	for (;;) {
		ssize_t r = recv(fd, b, sizeof(b), MSG_DONTWAIT);
		if (r > 0) continue;
		if (r == 0) return 1;
		if (errno == EAGAIN || errno == EWOULDBLOCK) return 0;
		if (errno == EINTR) continue;
		return 1;
	}
}

/* model of one request */
static int classify(struct mc *m, const unsigned char *buf, int64_t L, int64_t C /* chunk size word */, struct expmsg *e)
{
	int32_t id, S;
	memset(e, 0, sizeof(*e));
	if (m->s == 1) {
		if (L < HDR_LEN) { e->term = 2; return 0; }
		memcpy(&id, buf, 4); memcpy(&S, buf + 8, 4);
		if (S < 0 || (uint32_t)S > m->max) { e->term = 2; return 0; }
		if (S == 0) { e->term = 2; return 0; }
		if (id == QB_IPC_MSG_DISCONNECT) { e->term = 2; return 0; }
		if (S < HDR_LEN || S > L) { e->term = 2; return 0; }
	} else {
		if (C == 0) { e->term = 3; return 0; }
		if (L < HDR_LEN || C < HDR_LEN) { e->term = 2; return 0; }
		memcpy(&id, buf, 4); memcpy(&S, buf + 8, 4);
		if (id == QB_IPC_MSG_DISCONNECT) { e->term = 2; return 0; }
		if (S < HDR_LEN || S > C) { e->term = 2; return 0; }
		/*
		 * what the property demands: nothing longer than was sent or
		 * than the negotiated maximum reaches the callback
		 */
		if (!tolerate_oversize && ((uint32_t)S > m->max || S > L)) { e->term = 2; return 0; }
		/* the chunk itself is longer than negotiated but the part the header
		 * claims is not: delivering that part or refusing the chunk are both fine */
		if ((uint64_t)C > m->max) e->maybe = 1;
	}
	e->S = S;
	e->h = (S <= L && ((uint32_t)S <= m->max || !forged_ok)) ? hash_bytes(buf, S) : 0;
	e->term = 0;
	if (S > HDR_LEN && S <= L && ((uint32_t)S <= m->max || !forged_ok)) {
		int act = buf[HDR_LEN] & 7;
		if (act == 6) e->term = 1;
	}
	return 1;
}

static unsigned char msgbuf[4 << 20];

static int64_t pick_len(struct mc *m)
{
	int64_t M = m->max;
	switch (rn(16)) {
	case 0: return rn(HDR_LEN + 2);
	case 1: return HDR_LEN;
	case 2: return HDR_LEN + 1 + rn(16);
	case 3: return M;
	case 4: return M - 1;
	case 5: return M + 1;
	case 6: return M + rn(64);
	case 7: return M - rn(64);
	case 8: return m->s == 0 ? (int64_t)m->rbcap - 12 - rn(8) : M + 4096;
	case 9: return m->s == 0 ? (int64_t)m->rbcap - rn(64) : M * 2;
	case 10: return rn(M + 1);
	default: return HDR_LEN + rn(512);
	}
}
static int32_t pick_S(struct mc *m, int64_t L)
{
	int64_t M = m->max;
	switch (rn(20)) {
	case 0: return 0;
	case 1: return -1;
	case 2: return INT32_MIN;
	case 3: return INT32_MAX;
	case 4: return (int32_t)(L + 1);
	case 5: return (int32_t)(L - 1);
	case 6: return HDR_LEN - 1;
	case 7: return HDR_LEN;
	case 8: return (int32_t)M;
	case 9: return (int32_t)(M + 1);
	case 10: return (int32_t)rnd();
	case 11: return (int32_t)rn((uint32_t)L + 64);
	case 12: return 1 + rn(HDR_LEN);
	default: return (int32_t)L;
	}
}

static void op_send_msg(int i)
{
	struct mc *m = mcs[i];
	int64_t L, C;
	int32_t S, id;
	struct expmsg e;
	int k;

	if (m->st != ST_ACC || m->expect_gone || m->zombie || m->chaos || m->nq >= MAXQ) return;
	L = pick_len(m);
	if (L < 0) L = 0;
	if (L > (int64_t)sizeof(msgbuf)) L = sizeof(msgbuf);
	S = pick_S(m, L);
	if (rn(100) < benign_pct) {
		/* a well-formed request, so that connections live long enough to matter */
		if (L < HDR_LEN) L = HDR_LEN + rn(64);
		if (L > (int64_t)m->max) L = m->max;
		S = (int32_t)L;
		if (rn(8) == 0) S = HDR_LEN + rn((uint32_t)(L - HDR_LEN + 1));
	}
	id = rn(10) == 0 ? (int32_t)rnd() : (int32_t)rn(100);
	if (rn(40) == 0) id = QB_IPC_MSG_DISCONNECT;
	if (rn(60) == 0) id = QB_IPC_MSG_AUTHENTICATE;
	if (rn(60) == 0) id = QB_IPC_MSG_NEW_EVENT_SOCK;
	for (k = 0; k < L && k < 64; k++) msgbuf[k] = rnd();
	if (L > 64) { uint64_t x = rnd(); for (k = 64; k < L; k++) msgbuf[k] = (unsigned char)(x + k * 31); }
	if (L >= 4) memcpy(msgbuf, &id, 4);
	if (L >= 12) memcpy(msgbuf + 8, &S, 4);
	if (L > HDR_LEN) {
		/* action byte: mostly benign */
		unsigned a = rn(16);
		msgbuf[HDR_LEN] = (msgbuf[HDR_LEN] & ~7) | (a < 8 ? 0 : (a & 7));
		if (longlived && (msgbuf[HDR_LEN] & 7) == 6 && rn(30)) msgbuf[HDR_LEN] &= ~7;
	}
	C = L;
	if (m->s == 1) {
		ssize_t r = send(m->dg, msgbuf, L, MSG_NOSIGNAL);
		if (r != L) { V("peer %d dgram L=%lld not sent: %s", i, (long long)L, strerror(errno)); return; }
		switch (rn(8)) {
		case 0: break;
		case 1: m->ctl->sent = (int32_t)rnd(); break;
		case 2: m->ctl->sent = -1; break;
		default: __sync_fetch_and_add(&m->ctl->sent, 1); break;
		}
	} else {
		void *d;
		char one = 1;
		if (forged_ok && L >= HDR_LEN && rn(6) == 0) {
			switch (rn(5)) {
			case 0: C = L + 1 + rn(4096); break;
			case 1: C = (int64_t)(rnd() & 0x7fffffff); break;
			case 2: C = L > 0 ? rn((uint32_t)L) : 0; break;
			case 3: C = INT32_MAX; break;
			default: C = m->max + 1 + rn(64); break;
			}
		}
		if (C != L) m->chaos = 1;
		d = qb_rb_chunk_alloc(m->rq, L);
		if (d == NULL) { V("peer %d chunk L=%lld no space", i, (long long)L); return; }
		memcpy(d, msgbuf, L);
		if (qb_rb_chunk_commit(m->rq, C) != 0) { VIOL("commit failed"); return; }
		if (send(m->fd, &one, 1, MSG_NOSIGNAL) != 1) { V("peer %d notify byte not sent", i); }
	}
	classify(m, msgbuf, L, C, &e);
	V("peer %d svc %d msg L=%lld C=%lld S=%d id=%d -> term %d", i, m->s, (long long)L, (long long)C, S, id, e.term);
	if (m->nq > 0 && m->q[m->nq - 1].term != 0) return; /* already doomed, later ones are dropped */
	m->q[m->nq++] = e;
}

static void op_peer_close(int i)
{
	struct mc *m = mcs[i];
	if (m->st == ST_PRE) {
		int how = rn(4);
		if (how == 0 && !m->wr_shut) { shutdown(m->fd, SHUT_WR); m->wr_shut = 1; V("peer %d SHUT_WR", i); }
		else if (how == 1 && !m->rd_shut) { shutdown(m->fd, SHUT_RD); m->rd_shut = 1; V("peer %d SHUT_RD", i); }
		else { close(m->fd); m->fd = -1; m->closed = 1; V("peer %d close", i); }
	} else {
		if (m->s == 0 && m->st == ST_ACC && !m->chaos && m->nq == 0 && m->rq && rn(4) == 0) {
			/* two requests, one wake-up byte, then EOF on the stream */
			struct qb_ipc_request_header h;
			memset(&h, 0, sizeof(h)); h.id = 1; h.size = sizeof(h);
			if (qb_rb_chunk_write(m->rq, &h, sizeof(h)) == sizeof(h) &&
			    qb_rb_chunk_write(m->rq, &h, sizeof(h)) == sizeof(h)) {
				(void)send(m->fd, "a", 1, MSG_NOSIGNAL);
				shutdown(m->fd, SHUT_WR);
				m->chaos = 1;
				V("peer %d two chunks, one byte, SHUT_WR", i);
				return;
			}
		}
		/* accepted client walks away */
		V("peer %d (accepted) walks away", i);
		mc_free_local(m);
		m->zombie = 1;
	}
}

/* ------------------------------------------------------------------ */
static int find_ev(int kind, void *c);
/* serial of the connection object the server told us about (addresses get reused) */
static void *serial_of(void *ptr, int want_dead)
{
	int k;
	void *last = NULL;
	for (k = 0; k < nev; k++) {
		if (evlog[k].kind != EV_CREATED || evlog[k].p != ptr) continue;
		if (want_dead && find_ev(EV_DESTROYED, evlog[k].c) == 1) return evlog[k].c;
		if (!want_dead && find_ev(EV_DESTROYED, evlog[k].c) == 0) return evlog[k].c;
		last = evlog[k].c;
	}
	return want_dead ? NULL : last;
}
static int find_ev(int kind, void *c)
{
	int k, n = 0;
	for (k = 0; k < nev; k++) if (evlog[k].kind == kind && evlog[k].c == c) n++;
	return n;
}

static void pump_and_check(void)
{
	int i, k;
	int exp_accepts[2] = {0, 0}, got_accepts[2] = {0, 0};
	int hs_now[MAXMC];

	/* what does the model expect from the handshake peers? */
	for (i = 0; i < MAXMC; i++) {
		struct mc *m = mcs[i];
		hs_now[i] = 0;
		if (!m || m->st != ST_PRE || m->processed) continue;
		if (m->hssent >= HS_LEN && !m->closed && !(m->wr_shut && m->rd_shut)) {
			hs_now[i] = 1;
			if (hs_id_ok(m)) exp_accepts[m->s]++;
		}
	}
	nev = 0;
	pump();
	if (nev >= MAXEV) VIOL("event log overflow");

	for (k = 0; k < nev; k++) if (evlog[k].kind == EV_ACCEPT) got_accepts[evlog[k].svc]++;
	for (k = 0; k < 2; k++)
		if (exp_accepts[k] != got_accepts[k])
			VIOL("svc %d: expected %d connection_accept calls, got %d", k, exp_accepts[k], got_accepts[k]);

	/* every message must belong to a live accepted model client */
	for (k = 0; k < nev; k++) {
		if (evlog[k].kind != EV_MSG) continue;
		for (i = 0; i < MAXMC; i++) if (mcs[i] && mcs[i]->st != ST_PRE && mcs[i]->conn == evlog[k].c) break;
		if (i == MAXMC) VIOL("msg_process for a connection no accepted client owns (%p size %d)", evlog[k].c, evlog[k].size);
	}

	for (i = 0; i < MAXMC; i++) {
		struct mc *m = mcs[i];
		if (!m) continue;
		if (m->st == ST_PRE) {
			if (m->closed) {
				/* nothing may have happened for it (accept count checked above) */
				mc_drop(i);
				continue;
			}
			if (!hs_now[i]) {
				if (m->processed) continue;
				/* incomplete handshake: server must keep waiting, silently */
				if (m->wr_shut || m->rd_shut) {
					/* half closed: the server may or may not see HUP; either is fine */
					if (stream_gone(m->fd)) mc_drop(i);
					continue;
				}
				if (stream_gone(m->fd)) VIOL("peer %d: server dropped an incomplete handshake (%d bytes) of a live peer", i, m->hssent);
				continue;
			}
			m->processed = 1;
			if (!hs_id_ok(m)) {
				if (!stream_gone(m->fd)) VIOL("peer %d: bad id handshake not dropped", i);
				mc_drop(i);
				continue;
			}
			/* valid handshake */
			{
				static struct qb_ipc_connection_response r;
				ssize_t got = 0;
				uint32_t expmax = QB_MAX(m->reqmax, (uint32_t)RESP_LEN);
				if (m->rd_shut) {
					/* we cannot read the answer; server's send fails, it must clean up */
					mc_drop(i);
					continue;
				}
				while (got < RESP_LEN) {
					ssize_t x = recv(m->fd, (char *)&r + got, RESP_LEN - got, MSG_DONTWAIT);
					if (x <= 0) break;
					got += x;
				}
				if (got != RESP_LEN) { VIOL("peer %d: short handshake response %zd", i, got); mc_drop(i); continue; }
				if (r.hdr.id != QB_IPC_MSG_AUTHENTICATE || r.hdr.size != RESP_LEN) VIOL("peer %d: odd response header", i);
				if (!accept_ok[m->s]) {
					if (r.hdr.error != -EACCES) VIOL("peer %d: expected EACCES got %d", i, r.hdr.error);
					mc_drop(i);
					continue;
				}
				if (r.hdr.error != 0) { VIOL("peer %d: handshake failed %d (reqmax %u)", i, r.hdr.error, m->reqmax); mc_drop(i); continue; }
				if (r.max_msg_size != expmax) VIOL("peer %d: negotiated %u expected %u", i, r.max_msg_size, expmax);
				if (serial_of((void *)r.connection, 0) == NULL) VIOL("peer %d: connection_created not called", i);
				if (m->wr_shut) {
					/* the server reads our EOF right after accepting us */
					if (serial_of((void *)r.connection, 1) == NULL)
						VIOL("peer %d: half-closed accepted peer not dropped", i);
					mc_drop(i);
					continue;
				}
				if (m->oob_sent && serial_of((void *)r.connection, 0) != NULL &&
				    find_ev(EV_DESTROYED, serial_of((void *)r.connection, 0)) == 1) {
					/* SOCKET transport: the liveness callback takes the urgent
					 * byte's wake-up for an error and drops the client; harsh
					 * but within the property */
					mc_drop(i);
					continue;
				}
				if (peer_attach(i, &r) != 0) { mc_drop(i); continue; }
				V("peer %d accepted conn %p max %u", i, m->conn, m->max);
			}
			continue;
		}
		/* accepted */
		{
			int qi = 0, doomed = 0, wedged = 0, closed_seen, destroyed_seen;
			int delivered = 0, ke = -1;
			for (k = 0; k < nev; k++) if (evlog[k].kind == EV_MSG && evlog[k].c == m->conn) delivered++;
			if (!m->zombie && !m->chaos) {
				for (qi = 0; qi < m->nq; qi++) {
					struct expmsg *e = &m->q[qi];
					if (e->term == 2) { doomed = 1; break; }
					if (e->term == 3) { wedged = 1; break; }
					/* next MSG event of this connection */
					for (ke++; ke < nev; ke++) if (evlog[ke].kind == EV_MSG && evlog[ke].c == m->conn) break;
					if (ke >= nev) {
						if (e->maybe) doomed = 1;
						else VIOL("peer %d: valid request %d (size %d) not delivered", i, qi, e->S);
						break;
					}
					if (e->S != evlog[ke].size || (e->h != evlog[ke].h && e->h != 0))
						VIOL("peer %d: msg_process size %d hash %llx, expected size %d hash %llx", i, evlog[ke].size,
						     (unsigned long long)evlog[ke].h, e->S, (unsigned long long)e->h);
					if (e->term == 1) { doomed = 1; qi++; break; }
				}
				/* anything delivered beyond what the model allows? */
				for (ke++; ke < nev; ke++)
					if (ke >= 0 && evlog[ke].kind == EV_MSG && evlog[ke].c == m->conn)
						VIOL("peer %d: unexpected msg_process size %d", i, evlog[ke].size);
			}
			(void)delivered;
			m->nq = 0;
			closed_seen = find_ev(EV_CLOSED, m->conn);
			destroyed_seen = find_ev(EV_DESTROYED, m->conn);
			if (m->chaos && !m->zombie) {
				/* only memory safety and the length bound are checked for these */
				if (closed_seen != destroyed_seen) VIOL("peer %d: closed %d destroyed %d", i, closed_seen, destroyed_seen);
				if (closed_seen) { mc_drop(i); continue; }
				mc_free_local(m);
				m->zombie = 1;
				continue;
			}
			if (doomed || m->expect_gone || m->zombie) {
				if (closed_seen != 1 || destroyed_seen != 1)
					VIOL("peer %d: connection should be gone (closed %d destroyed %d, doomed %d zombie %d)", i, closed_seen, destroyed_seen, doomed, m->zombie);
				else if (!m->zombie && !stream_gone(m->fd))
					VIOL("peer %d: server kept the stream socket of a dropped connection", i);
				mc_drop(i);
				continue;
			}
			if (closed_seen || destroyed_seen) {
				VIOL("peer %d: connection dropped for no reason", i);
				mc_drop(i);
				continue;
			}
			if (wedged) m->st = ST_WEDGED;
			drain(m);
		}
	}
}

static void checkpoint(int base_fds, int base_pe)
{
	int i, f, p, s;
	for (i = 0; i < MAXMC; i++) {
		struct mc *m = mcs[i];
		if (!m) continue;
		if (m->st == ST_PRE) { if (!m->closed) { close(m->fd); m->fd = -1; m->closed = 1; } }
		else if (!m->zombie) { mc_free_local(m); m->zombie = 1; }
	}
	pump_and_check();
	for (i = 0; i < MAXMC; i++) if (mcs[i]) { VIOL("checkpoint: peer %d still tracked (st %d)", i, mcs[i]->st); mc_drop(i); }
	f = count_fds(); p = pe_count(); s = count_shm();
	if (f != base_fds) VIOL("checkpoint: %d descriptors open, baseline %d", f, base_fds);
	if (p != base_pe) VIOL("checkpoint: %d poll entries, baseline %d", p, base_pe);
	if (s != 0) VIOL("checkpoint: %d qb-%d-* entries left in /dev/shm", s, (int)getpid());
}

static void on_alarm(int sig)
{
	fprintf(stderr, "HANG seed=%llu op=%llu\n", (unsigned long long)seed0, opno);
	_exit(4);
}

/* a random slot in the wanted state (-1: any used), or a random slot if none */
static int pick_slot(int st)
{
	int c[MAXMC], n = 0, i;
	for (i = 0; i < MAXMC; i++)
		if (mcs[i] && (st < 0 || mcs[i]->st == st)) c[n++] = i;
	return n ? c[rn(n)] : (int)rn(MAXMC);
}

int main(int argc, char **argv)
{
	unsigned long long nops = 100000;
	int o, base_fds, base_pe, mode = 0;

	seed0 = 1;
	while ((o = getopt(argc, argv, "s:n:m:b:kFv")) != -1) {
		switch (o) {
		case 's': seed0 = strtoull(optarg, NULL, 0); break;
		case 'n': nops = strtoull(optarg, NULL, 0); break;
		case 'm': mode = atoi(optarg); longlived = (mode == 2); if (longlived) benign_pct = 99; break;
		case 'b': benign_pct = atoi(optarg); break;
		case 'k': tolerate_oversize = 1; break;
		case 'F': forged_ok = 1; break;
		case 'v': verbose = 1; break;
		}
	}
	rng_s = seed0 * 0x9E3779B97F4A7C15ULL + 12345;
	signal(SIGALRM, on_alarm);
	signal(SIGPIPE, SIG_IGN);
	server_start();
	pump();
	base_fds = count_fds();
	base_pe = pe_count();

	for (opno = 1; opno <= nops; opno++) {
		unsigned r = rn(100);
		int i = pick_slot(rn(8) == 0 ? -1 : ((mode == 1 ? r < 70 : mode == 2 ? r < 8 : r < 28) ? ST_PRE : ST_ACC));
		alarm(30);
		if (mode == 2) {
			/* few, long lived connections, deep queues */
			if (r < 2) op_new_peer();
			else if (r < 8) { if (mcs[i] && mcs[i]->st == ST_PRE) op_peer_send(i); }
			else if (r < 9) { if (mcs[i] && rn(10) == 0) op_peer_close(i); }
			else if (r < 93) { i = pick_slot(ST_ACC); if (mcs[i]) op_send_msg(i); }
			else if (r < 95) {
				static const enum qb_ipcs_rate_limit rl[] = { QB_IPCS_RATE_FAST, QB_IPCS_RATE_NORMAL, QB_IPCS_RATE_SLOW };
				qb_ipcs_request_rate_limit(svc[rn(2)], rl[rn(3)]);
			}
			else pump_and_check();
		} else if (mode == 1) {
			/* handshake heavy */
			if (r < 25) op_new_peer();
			else if (r < 70) { if (mcs[i] && mcs[i]->st == ST_PRE) op_peer_send(i); }
			else if (r < 80) { if (mcs[i]) op_peer_close(i); }
			else if (r < 85) { if (mcs[i]) op_send_msg(i); }
			else pump_and_check();
		} else {
			if (r < 8) op_new_peer();
			else if (r < 28) { if (mcs[i] && mcs[i]->st == ST_PRE) op_peer_send(i); }
			else if (r < 32) { if (mcs[i]) op_peer_close(i); }
			else if (r < 80) { if (mcs[i]) op_send_msg(i); }
			else if (r < 82) { accept_ok[rn(2)] = rn(4) != 0; }
			else if (r < 84) {
				static const enum qb_ipcs_rate_limit rl[] = { QB_IPCS_RATE_FAST, QB_IPCS_RATE_NORMAL, QB_IPCS_RATE_SLOW };
				qb_ipcs_request_rate_limit(svc[rn(2)], rl[rn(3)]);
			}
			else if (r < 86) {
				/* stray byte(s) on the stream socket of an accepted client */
				struct mc *m = mcs[i];
				if (m && m->st != ST_PRE && !m->zombie && m->fd >= 0) {
					char junk[8] = {0};
					(void)send(m->fd, junk, 1 + rn(8), MSG_NOSIGNAL);
				}
			}
			else pump_and_check();
		}
		if (opno % 2000 == 0) {
			pump_and_check();
			checkpoint(base_fds, base_pe);
		}
	}
	pump_and_check();
	checkpoint(base_fds, base_pe);
	alarm(0);
	qb_ipcs_destroy(svc[0]);
	qb_ipcs_destroy(svc[1]);
	printf("seed %llu: %llu ops, %llu msgs delivered, %llu accepts, %llu in-callback disconnects, %d violations\n",
	       (unsigned long long)seed0, nops, total_msgs, total_accepts, total_disc, violations);
	return violations ? 1 : 0;
}
