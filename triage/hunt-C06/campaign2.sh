#!/bin/sh
H=$(dirname "$(readlink -f "$0")")
export LD_LIBRARY_PATH=${1:-/repo}/lib/.libs
: > $H/campaign2.log
run() { $H/fuzz "$@" 2>&1 | tail -6 >> $H/campaign2.log; }
( for s in 601 602; do run -k -m 2 -s $s -n 150000; done ) &
( for s in 603 604; do run -k -m 2 -F -s $s -n 150000; done ) &
( for s in 611 612; do run -k -s $s -n 100000; done ) &
( for s in 613 614; do run -k -m 1 -s $s -n 100000; done ) &
( for s in 615; do run -k -F -b 40 -s $s -n 100000; done ) &
( run -s 616 -n 100000 ) &
wait
echo done >> $H/campaign2.log
