/* targeted sequences: capacity boundary, refcount width, check wrap-around */
#include <stdio.h>
#include <stdlib.h>
#include <string.h>
#include <time.h>
#include <qb/qbdefs.h>
#include <qb/qbhdb.h>

static long dtors;
static void dtor(void *p) { dtors++; }
static struct qb_hdb db;
static double now(void) { struct timespec t; clock_gettime(CLOCK_MONOTONIC, &t); return t.tv_sec + t.tv_nsec / 1e9; }

static int capacity(void)
{
	static qb_handle_t h[70000], h2[70000];
	int i, n = 0, bad = 0;
	int32_t r;
	void *p;
	qb_handle_t x;

	qb_hdb_create(&db); db.destructor = dtor; dtors = 0;
	for (i = 0; i < 70000; i++) {
		r = qb_hdb_handle_create(&db, 4, &h[i]);
		if (r != 0) break;
		n++;
	}
	printf("capacity: %d handles created, next create -> %d, handle_count %u\n", n, r, db.handle_count);
	/* repeated failing create must not disturb anything */
	for (i = 0; i < 10; i++) { x = 0x1234; r = qb_hdb_handle_create(&db, 4, &x); if (r == 0) { printf("BAD create beyond capacity ok\n"); bad = 1; } }
	for (i = 0; i < n; i++) {
		if (qb_hdb_handle_get(&db, h[i], &p) != 0) { printf("BAD get %d\n", i); bad = 1; break; }
		*(int *)p = i;
		qb_hdb_handle_put(&db, h[i]);
	}
	/* iteration sees all */
	{ int c = 0; qb_hdb_iterator_reset(&db); while (qb_hdb_iterator_next(&db, &p, &x) == 0) { if (x != h[c] || *(int*)p != c) { printf("BAD iter %d\n", c); bad = 1; } qb_hdb_handle_put(&db, x); c++; }
	  if (c != n) { printf("BAD iter count %d\n", c); bad = 1; } }
	/* destroy odd ones, then the last, check stale, recreate */
	for (i = 1; i < n; i += 2) if (qb_hdb_handle_destroy(&db, h[i]) != 0) { printf("BAD destroy %d\n", i); bad = 1; }
	if (dtors != n / 2) { printf("BAD dtors %ld\n", dtors); bad = 1; }
	for (i = 1; i < n; i += 2) {
		if (qb_hdb_handle_get(&db, h[i], &p) == 0 || qb_hdb_handle_put(&db, h[i]) == 0 || qb_hdb_handle_destroy(&db, h[i]) == 0 || qb_hdb_handle_refcount_get(&db, h[i]) >= 0) { printf("BAD stale %d accepted\n", i); bad = 1; break; }
	}
	for (i = 1; i < n; i += 2) {
		if (qb_hdb_handle_create(&db, 4, &h2[i]) != 0) { printf("BAD recreate %d\n", i); bad = 1; break; }
		if ((uint32_t)h2[i] != (uint32_t)i) { printf("BAD recreate slot %u vs %d\n", (uint32_t)h2[i], i); bad = 1; break; }
		if (h2[i] == h[i]) { printf("BAD same handle reissued\n"); bad = 1; }
		if (qb_hdb_handle_get(&db, h[i], &p) == 0) { printf("BAD stale %d resolves after reuse\n", i); bad = 1; break; }
	}
	{ int c = 0; qb_hdb_iterator_reset(&db); while (qb_hdb_iterator_next(&db, &p, &x) == 0) { qb_hdb_handle_put(&db, x); c++; } if (c != n) { printf("BAD iter count2 %d\n", c); bad = 1; } }
	for (i = 0; i < n; i++) qb_hdb_handle_destroy(&db, (i & 1) ? h2[i] : h[i]);
	if (dtors != n / 2 + n) { printf("BAD dtors end %ld\n", dtors); bad = 1; }
	qb_hdb_destroy(&db);
	printf("capacity: %s\n", bad ? "FAILED" : "ok");
	return bad;
}

static int refwidth(long long gets)
{
	qb_handle_t h;
	void *p;
	long long i;
	int32_t r = 0;
	double t = now();
	qb_hdb_create(&db); db.destructor = dtor; dtors = 0;
	qb_hdb_handle_create(&db, 4, &h);
	for (i = 0; i < gets; i++) {
		r = qb_hdb_handle_get(&db, h, &p);
		if (r != 0) break;
	}
	printf("refwidth: %lld gets accepted (last r=%d) in %.1fs; refcount now %d\n", i, r, now() - t, qb_hdb_handle_refcount_get(&db, h));
	return 0;
}

static int checkwrap(long long cycles)
{
	qb_handle_t h0, h;
	void *p;
	long long i;
	double t = now();
	qb_hdb_create(&db); db.destructor = dtor; dtors = 0;
	qb_hdb_handle_create(&db, 4, &h0);
	qb_hdb_handle_destroy(&db, h0);
	for (i = 1; i <= cycles; i++) {
		qb_hdb_handle_create(&db, 4, &h);
		if (h == h0) { printf("checkwrap: handle %llx reissued after %lld reuses (%.1fs); stale get -> %d\n", (unsigned long long)h, i, now() - t, qb_hdb_handle_get(&db, h0, &p)); return 1; }
		qb_hdb_handle_destroy(&db, h);
	}
	printf("checkwrap: %lld cycles, %.1fs, no reissue\n", cycles, now() - t);
	return 0;
}

int main(int argc, char **argv)
{
	if (argc > 2 && !strcmp(argv[1], "ref")) return refwidth(atoll(argv[2]));
	if (argc > 2 && !strcmp(argv[1], "wrap")) return checkwrap(atoll(argv[2]));
	return capacity();
}
