/*
 * C20 finding 3: the check value of a slot is a 31-bit counter that wraps
 * from INT32_MAX to 1.  After 2^31-1 reuses of one slot the handle value of
 * a long-destroyed object is issued again, so every stale copy of it
 * resolves to a foreign object.  Takes about four minutes.
 */
#include <stdio.h>
#include <stdlib.h>
#include <stdint.h>
#include <qb/qbdefs.h>
#include <qb/qbhdb.h>

static struct qb_hdb db;
static long long dtor_runs;
static void dtor(void *p) { dtor_runs++; }

int main(void)
{
	qb_handle_t stale, h = 0;
	void *p, *q;
	long long i;
	int32_t r;

	srandom(1);
	qb_hdb_create(&db);
	db.destructor = dtor;
	qb_hdb_handle_create(&db, 8, &stale);
	qb_hdb_handle_destroy(&db, stale);	/* object 0 is gone; 'stale' is a copy of its handle */
	printf("object 0 had handle %llx, destroyed (destructor runs %lld)\n", (unsigned long long)stale, dtor_runs);

	for (i = 1; i <= ((long long)1 << 31); i++) {
		if (qb_hdb_handle_create(&db, 8, &h) != 0) {
			/* a library that retires an exhausted slot/refuses is fine */
			printf("create refused after %lld reuses\n", i);
			break;
		}
		if (h == stale)
			break;
		qb_hdb_handle_destroy(&db, h);
	}
	if (h != stale) {
		printf("stale handle stayed invalid over %lld reuses of its slot\nRESULT: property held\n", i - 1);
		return 0;
	}
	printf("after %lld reuses of slot %u a new object got handle %llx - the value of object 0\n", i,
	       qb_hdb_base_convert(h), (unsigned long long)h);
	qb_hdb_handle_get(&db, h, &q);
	qb_hdb_handle_put(&db, h);
	r = qb_hdb_handle_get(&db, stale, &p);
	printf("get(stale copy of object 0's handle) -> %d, instance %s\n", r,
	       p == q ? "= the new object" : "different");
	if (r == 0) {
		printf("VIOLATION: a handle that had become invalid is valid again after slot reuse\n");
		printf("RESULT: property violated\n");
		return 1;
	}
	printf("RESULT: property held\n");
	return 0;
}
