#!/bin/sh
# usage: build.sh [tree]   (default /repo)
T=${1:-/repo}
D=$(dirname "$0")
gcc -g -O1 -fsanitize=address,undefined -fno-omit-frame-pointer -DHAVE_CONFIG_H \
  -I$T/include -I$T/include/qb -I$T/lib \
  $D/fuzz.c $T/lib/hdb.c $T/lib/array.c \
  -L$T/lib/.libs -lqb -lpthread -o $D/fuzz
