#!/bin/sh
# usage: demo.sh <tree>   exit 0 = property held, non-zero = violated
# (built with -O2 and without sanitizers: the sequence is 2^32 calls long)
T=${1:-/repo}
D=$(cd "$(dirname "$0")" && pwd)
gcc -g -O2 -DHAVE_CONFIG_H -I$T/include -I$T/include/qb -I$T/lib \
  $D/demo.c $T/lib/hdb.c $T/lib/array.c \
  -L$T/lib/.libs -lqb -lpthread -o $D/demo || exit 99
LD_LIBRARY_PATH=$T/lib/.libs $D/demo
