/*
 * C20 finding 2: the reference count is a 32-bit signed counter that get
 * increments without any bound check.
 *   - after 2^31-1 gets the next get is still accepted and the reported count
 *     turns negative (reads like an error code, not 1 + gets - puts);
 *   - after 2^32 gets the reported count is 1 again: the destroy call then
 *     runs the destructor and frees the object although 2^32 references are
 *     outstanding, and none of them can be put any more.
 * Takes two to three minutes (2^32 calls of qb_hdb_handle_get).
 */
#include <stdio.h>
#include <stdlib.h>
#include <stdint.h>
#include <qb/qbdefs.h>
#include <qb/qbhdb.h>

static struct qb_hdb db;
static int dtor_runs;
static void dtor(void *p) { dtor_runs++; }

int main(void)
{
	qb_handle_t h;
	void *p;
	int64_t gets = 0, puts = 0;
	int32_t r, rc;
	int bad = 0;

	qb_hdb_create(&db);
	db.destructor = dtor;
	qb_hdb_handle_create(&db, 16, &h);

	while (gets < (int64_t) INT32_MAX - 1) {
		if ((r = qb_hdb_handle_get(&db, h, &p)) != 0)
			goto refused;
		gets++;
	}
	rc = qb_hdb_handle_refcount_get(&db, h);
	printf("gets %lld puts %lld: refcount reported %d (model %lld)\n", (long long)gets, (long long)puts, rc,
	       (long long)(1 + gets - puts));
	if ((r = qb_hdb_handle_get(&db, h, &p)) != 0)
		goto refused;
	gets++;
	rc = qb_hdb_handle_refcount_get(&db, h);
	printf("gets %lld puts %lld: get -> 0, refcount reported %d (model %lld)\n", (long long)gets, (long long)puts,
	       rc, (long long)(1 + gets - puts));
	if (rc != 1 + gets - puts) {
		printf("VIOLATION: reported count differs from one plus gets minus puts\n");
		bad = 1;
	}
	while (gets < ((int64_t) 1 << 32)) {
		if ((r = qb_hdb_handle_get(&db, h, &p)) != 0)
			goto refused;
		gets++;
	}
	rc = qb_hdb_handle_refcount_get(&db, h);
	printf("gets %lld puts %lld: refcount reported %d (model %lld)\n", (long long)gets, (long long)puts, rc,
	       (long long)(1 + gets - puts));
	r = qb_hdb_handle_destroy(&db, h);
	printf("destroy -> %d, destructor ran %d time(s) with %lld references outstanding\n", r, dtor_runs,
	       (long long)(gets - puts));
	if (dtor_runs != 0) {
		printf("VIOLATION: destructor ran although the count (one plus gets minus puts, minus the destroy) is %lld\n",
		       (long long)(gets - puts));
		bad = 1;
	}
	r = qb_hdb_handle_put(&db, h);
	printf("put of an outstanding reference -> %d\n", r);
	if (r != 0) {
		printf("VIOLATION: an outstanding reference cannot be put after destroy\n");
		bad = 1;
	}
	printf(bad ? "RESULT: property violated\n" : "RESULT: property held\n");
	return bad;
refused:
	/* a library that bounds the count refuses the get instead: that is fine */
	printf("get refused with %d after %lld gets: count stays truthful\n", r, (long long)gets);
	rc = qb_hdb_handle_refcount_get(&db, h);
	if (rc != 1 + gets - puts) {
		printf("VIOLATION: refcount %d, model %lld\n", rc, (long long)(1 + gets - puts));
		return 1;
	}
	printf("RESULT: property held\n");
	return 0;
}
