/*
 * Model-based randomized tester for libqb's handle database (lib/hdb.c).
 *
 * usage: fuzz <seed> <nops> <maxlive> [reent]
 *   maxlive : upper bound of simultaneously used slots per database
 *   reent   : 1 = the destructor re-enters the database (get/iterate/create/destroy)
 *             2 = the same, but only for objects that went through destroy
 *
 * Every result of the library is compared with a reference model of
 * property C20.  Exit status 0 = no divergence, 1 = divergence.
 */
#include <stdio.h>
#include <stdlib.h>
#include <string.h>
#include <stdint.h>
#include <errno.h>
#include <qb/qbdefs.h>
#include <qb/qbhdb.h>

enum { ST_EMPTY, ST_PENDING, ST_ACTIVE };

#define MAXSLOTS 70000
#define NDB 3
#define RING 8192

struct mslot {
	int state;
	int32_t check;		/* check value of the last object of the slot */
	uint64_t handle;
	void *inst;
	int size;
	long objid;
	long gets, puts;	/* destroy counts as a put */
	int dtor_runs;
};

struct mdb {
	struct qb_hdb *hdb;
	struct mslot *s;
	int count;
	uint32_t cursor;
	uint64_t ring[RING];	/* handles issued in the past */
	long nring;
};

static struct qb_hdb hdb0;
static void dtor(void *p);
static struct qb_hdb hdb1 = {
	.handle_count = 0,.handles = NULL,.iterator = 0,.destructor = dtor,
	.first_run = QB_TRUE
};
static struct qb_hdb hdb2;
static struct mdb dbs[NDB];

static long objids;
static long opno;
static int failures;
static int reent;
static int maxlive;

/* what the driver expects the destructor to see */
static struct mdb *exp_db;
static int exp_slot = -1;
static int dtor_seen;
static int in_teardown;
static int in_destroy;	/* the running library call is qb_hdb_handle_destroy */

/* issued-handle uniqueness set (per db index folded into the key) */
#define HSZ (1u << 22)
static uint64_t *hset;
static unsigned char *hused;

static uint64_t rs = 88172645463325252ULL;
static uint64_t rnd(void)
{
	rs ^= rs << 13;
	rs ^= rs >> 7;
	rs ^= rs << 17;
	return rs;
}
static int rn(int n) { return (int)(rnd() % (uint64_t) n); }

#define FAIL(...) do { \
	printf("VIOLATION at op %ld: ", opno); printf(__VA_ARGS__); printf("\n"); \
	failures++; if (failures > 20) { printf("too many failures\n"); exit(1); } \
} while (0)

static int hset_add(int dbi, uint64_t h)
{
	/* the database index lives in the otherwise unused bits 20..21 of the slot */
	uint64_t key = h ^ ((uint64_t) (dbi + 1) << 20);
	uint32_t i = (uint32_t) ((key * 0x9E3779B97F4A7C15ULL) >> 42) & (HSZ - 1);
	int probes = 0;
	while (hused[i]) {
		if (hset[i] == key)
			return 1;
		i = (i + 1) & (HSZ - 1);
		if (++probes > 1000)
			return 0;	/* set full enough: give up tracking */
	}
	hused[i] = 1;
	hset[i] = key;
	return 0;
}

static unsigned char pat(long objid, int i) { return (unsigned char)(objid * 31 + i * 7 + 1); }

static void fill(struct mslot *m)
{
	int i;
	for (i = 0; i < m->size; i++)
		((unsigned char *)m->inst)[i] = pat(m->objid, i);
}

static int intact(struct mslot *m)
{
	int i;
	for (i = 0; i < m->size; i++)
		if (((unsigned char *)m->inst)[i] != pat(m->objid, i))
			return 0;
	return 1;
}

static int lowest_empty(struct mdb *d)
{
	int i;
	for (i = 0; i < d->count; i++)
		if (d->s[i].state == ST_EMPTY)
			return i;
	return d->count;
}

static int nlive(struct mdb *d)
{
	int i, n = 0;
	for (i = 0; i < d->count; i++)
		if (d->s[i].state != ST_EMPTY)
			n++;
	return n;
}

static int resolve(struct mdb *d, uint64_t h)
{
	int32_t idx = (int32_t) (h & UINT32_MAX);
	int32_t check = (int32_t) (h >> 32);
	if (idx < 0 || idx >= d->count)
		return -1;
	if (check != -1 && check != d->s[idx].check)
		return -1;
	return idx;
}

/* create through the library and record in the model */
static void do_create(struct mdb *d, int size)
{
	uint64_t h = 0xdeadbeefdeadbeefULL;
	int slot = lowest_empty(d);
	int32_t res;
	struct mslot *m;
	void *inst = NULL;

	res = qb_hdb_handle_create(d->hdb, size, &h);
	if (size < 0) {
		if (res >= 0)
			FAIL("create(size %d) returned %d", size, res);
		/* a failed create may still have extended the table by one empty slot */
		if (slot == d->count && slot < MAXSLOTS) {
			uint32_t hc = d->hdb->handle_count;
			if ((int)hc == d->count + 1) {
				memset(&d->s[slot], 0, sizeof(struct mslot));
				d->count++;
			}
		}
		return;
	}
	if (res != 0) {
		FAIL("create(size %d) failed: %d", size, res);
		return;
	}
	if ((int32_t) (h & UINT32_MAX) != slot)
		FAIL("create used slot %d, model expects %d", (int32_t) (h & UINT32_MAX), slot);
	slot = (int32_t) (h & UINT32_MAX);
	if ((int32_t) (h >> 32) <= 0)
		FAIL("create gave non-positive check %d", (int32_t) (h >> 32));
	if (hset_add((int)(d - dbs), h))
		FAIL("handle %llx issued twice", (unsigned long long)h);
	if (slot == d->count)
		d->count++;
	m = &d->s[slot];
	if (m->state != ST_EMPTY)
		FAIL("create reused slot %d that is not empty", slot);
	if (qb_hdb_handle_get(d->hdb, h, &inst) != 0 || inst == NULL && size > 0) {
		FAIL("fresh handle cannot be got");
	} else {
		int i;
		for (i = 0; i < size; i++)
			if (((unsigned char *)inst)[i] != 0) {
				FAIL("fresh instance not zeroed");
				break;
			}
		if (qb_hdb_handle_put(d->hdb, h) != 0)
			FAIL("put after fresh get failed");
	}
	m->state = ST_ACTIVE;
	m->check = (int32_t) (h >> 32);
	m->handle = h;
	m->inst = inst;
	m->size = size;
	m->objid = ++objids;
	m->gets = m->puts = 0;
	m->dtor_runs = 0;
	fill(m);
	d->ring[d->nring++ % RING] = h;
}

static void dtor(void *p)
{
	struct mdb *d = exp_db;
	struct mslot *m;

	dtor_seen++;
	if (d == NULL || exp_slot < 0) {
		FAIL("destructor ran unexpectedly (instance %p)", p);
		return;
	}
	m = &d->s[exp_slot];
	if (p != m->inst)
		FAIL("destructor got %p, expected %p", p, m->inst);
	else if (!intact(m))
		FAIL("instance contents damaged at destructor time");
	m->dtor_runs++;
	if (m->dtor_runs > 1)
		FAIL("destructor ran %d times for object %ld", m->dtor_runs, m->objid);

	/* reent 2: re-enter only when the object went through destroy (pending removal) */
	if (reent && m->dtor_runs == 1 && (reent == 1 || in_destroy || m->state == ST_PENDING)) {
		void *inst;
		uint64_t h;
		int32_t r;
		uint32_t saved = d->hdb->iterator;
		int what = rn(4);

		if (what == 0) {
			r = qb_hdb_handle_get(d->hdb, m->handle, &inst);
			if (r == 0) {
				FAIL("get of the object being destroyed succeeded inside its destructor (refcount now %d, last ref dropped by %s)",
				     qb_hdb_handle_refcount_get(d->hdb, m->handle), in_destroy || m->state == ST_PENDING ? "destroy/pending" : "put on active");
				/* hand the reference back as a well-behaved holder would */
				qb_hdb_handle_put(d->hdb, m->handle);
			}
		} else if (what == 1) {
			qb_hdb_iterator_reset(d->hdb);
			while (qb_hdb_iterator_next(d->hdb, &inst, &h) == 0) {
				if (h == m->handle)
					FAIL("iteration inside the destructor visits the object being destroyed (last ref dropped by %s)", in_destroy || m->state == ST_PENDING ? "destroy/pending" : "put on active");
				/* refcount goes back */
				if (h != m->handle)
					qb_hdb_handle_put(d->hdb, h);
			}
			d->hdb->iterator = saved;
		} else if (what == 2) {
			if (!in_teardown && nlive(d) < maxlive && d->count < MAXSLOTS - 1) {
				struct mdb *sd = exp_db;
				int ss = exp_slot, seen = dtor_seen;
				do_create(d, 8 + rn(8));
				exp_db = sd; exp_slot = ss; dtor_seen = seen;
			}
		} else {
			r = qb_hdb_handle_refcount_get(d->hdb, m->handle);
			if (r > 0)
				FAIL("refcount %d reported inside destructor", r);
			r = qb_hdb_handle_destroy(d->hdb, m->handle);
			if (r == 0 && m->state == ST_PENDING)
				FAIL("second destroy accepted inside destructor");
		}
	}
}

/* expect the destructor for (d,slot) exactly n times during the next call */
static void expect(struct mdb *d, int slot)
{
	exp_db = d;
	exp_slot = slot;
	dtor_seen = 0;
}

static void check_dtor(int n, const char *what)
{
	if (dtor_seen != n)
		FAIL("%s: destructor ran %d times, expected %d", what, dtor_seen, n);
	exp_db = NULL;
	exp_slot = -1;
	dtor_seen = 0;
}

static void m_drop(struct mdb *d, int slot, const char *what)
{
	struct mslot *m = &d->s[slot];
	m->puts++;
	if (1 + m->gets - m->puts == 0) {
		check_dtor(1, what);
		m->state = ST_EMPTY;
		m->inst = NULL;
	} else {
		check_dtor(0, what);
	}
}

static uint64_t pick_handle(struct mdb *d, int *kind)
{
	int k = rn(100);
	uint64_t h;
	if (k < 60 && d->count > 0) {
		*kind = 0;
		return d->s[rn(d->count)].handle;
	} else if (k < 75 && d->nring > 0) {
		*kind = 1;
		return d->ring[rn(d->nring < RING ? (int)d->nring : RING)];
	} else if (k < 80) {
		*kind = 2;
		return qb_hdb_nocheck_convert((uint32_t) rn(d->count + 2));
	} else if (k < 85 && d->count > 0) {
		/* neighbour check values of a live slot */
		int s = rn(d->count);
		*kind = 3;
		h = d->s[s].handle;
		return h + ((uint64_t) (rn(5) - 2) << 32);
	} else if (k < 90) {
		/* another database's handle */
		struct mdb *o = &dbs[rn(NDB)];
		*kind = 4;
		if (o->count > 0)
			return o->s[rn(o->count)].handle;
		return 0;
	} else {
		static const uint32_t idxs[] = { 0, 1, 0x7fffffff, 0x80000000u, 0xffffffffu, 0x10000, 0xffff, 31, 32, 33 };
		static const uint32_t chks[] = { 0, 1, 0x7fffffff, 0x80000000u, 0xfffffffeu, 0xffffffffu };
		*kind = 5;
		h = (uint64_t) chks[rn(6)] << 32;
		if (rn(2))
			h |= idxs[rn(10)];
		else
			h |= (uint32_t) (d->count + rn(3) - 1);
		if (rn(4) == 0)
			h = rnd();
		return h;
	}
}

static void full_iteration(struct mdb *d)
{
	void *inst;
	uint64_t h;
	int next = 0, i;
	int32_t r;

	qb_hdb_iterator_reset(d->hdb);
	d->cursor = 0;
	for (;;) {
		r = qb_hdb_iterator_next(d->hdb, &inst, &h);
		while (next < d->count && d->s[next].state != ST_ACTIVE)
			next++;
		if (r != 0) {
			if (next < d->count)
				FAIL("iteration ended before live slot %d", next);
			break;
		}
		if (next >= d->count) {
			FAIL("iteration returned %llx beyond the live objects", (unsigned long long)h);
			break;
		}
		if (h != d->s[next].handle || inst != d->s[next].inst)
			FAIL("iteration returned %llx/%p, expected %llx/%p", (unsigned long long)h, inst,
			     (unsigned long long)d->s[next].handle, d->s[next].inst);
		d->s[next].gets++;
		i = next;
		if (rn(8) == 0) {
			/* remove the element being visited */
			expect(d, i);
			in_destroy = 1;
			r = qb_hdb_handle_destroy(d->hdb, h);
			in_destroy = 0;
			if (r != 0)
				FAIL("destroy of visited element failed %d", r);
			d->s[i].state = ST_PENDING;
			m_drop(d, i, "destroy visited");
		}
		expect(d, i);
		r = qb_hdb_handle_put(d->hdb, h);
		if (r != 0)
			FAIL("put of visited element failed %d", r);
		m_drop(d, i, "put visited");
		next++;
	}
	d->cursor = d->hdb->iterator;
	if ((int)d->cursor != d->count)
		FAIL("iterator stopped at %u, table has %d", d->cursor, d->count);
}

static void teardown(struct mdb *d)
{
	int i;
	in_teardown = 1;
	for (i = 0; i < d->count; i++) {
		struct mslot *m = &d->s[i];
		while (m->state != ST_EMPTY) {
			int32_t r;
			expect(d, i);
			r = qb_hdb_handle_put(d->hdb, m->handle);
			if (r != 0) {
				FAIL("teardown put failed %d", r);
				break;
			}
			m_drop(d, i, "teardown put");
		}
	}
	in_teardown = 0;
	qb_hdb_destroy(d->hdb);
	qb_hdb_create(d->hdb);
	d->hdb->destructor = dtor;
	memset(d->s, 0, sizeof(struct mslot) * d->count);
	d->count = 0;
	d->cursor = 0;
}

static void step(void)
{
	struct mdb *d = &dbs[rn(NDB)];
	int op = rn(100);
	int kind, slot;
	uint64_t h;
	int32_t r;
	void *inst;
	struct mslot *m;

	if (op < 18) {
		static const int sizes[] = { 0, 1, 7, 8, 16, 24, 100, 4096, 65536 };
		if (nlive(d) < maxlive && d->count < MAXSLOTS - 1)
			do_create(d, sizes[rn(9)]);
		return;
	}
	if (op < 20) {
		if (d->count < MAXSLOTS - 1)
			do_create(d, -1 - rn(3));
		return;
	}
	if (op < 23) {
		full_iteration(d);
		return;
	}
	if (op < 28) {
		/* one step of a partial iteration */
		uint32_t i = d->cursor;
		h = 0;
		inst = (void *)1;
		r = qb_hdb_iterator_next(d->hdb, &inst, &h);
		while ((int)i < d->count && d->s[i].state != ST_ACTIVE)
			i++;
		if ((int)i < d->count) {
			if (r != 0)
				FAIL("iterator_next skipped live slot %u (r=%d)", i, r);
			else if (h != d->s[i].handle || inst != d->s[i].inst)
				FAIL("iterator_next gave %llx, expected %llx", (unsigned long long)h,
				     (unsigned long long)d->s[i].handle);
			else
				d->s[i].gets++;
			d->cursor = i + 1;
		} else {
			if (r == 0)
				FAIL("iterator_next returned %llx though nothing is left", (unsigned long long)h);
			if ((int)d->cursor < d->count)
				d->cursor = d->count;
		}
		if (d->hdb->iterator != d->cursor)
			FAIL("iterator at %u, model %u", d->hdb->iterator, d->cursor);
		return;
	}
	if (op < 29) {
		qb_hdb_iterator_reset(d->hdb);
		d->cursor = 0;
		return;
	}
	if (op == 29 && rn(200) == 0) {
		teardown(d);
		return;
	}

	h = pick_handle(d, &kind);
	slot = resolve(d, h);
	m = slot >= 0 ? &d->s[slot] : NULL;

	if (op < 50) {
		inst = (void *)1;
		r = (op & 1) ? qb_hdb_handle_get(d->hdb, h, &inst)
			     : qb_hdb_handle_get_always(d->hdb, h, &inst);
		if (m && m->state == ST_ACTIVE) {
			if (r != 0)
				FAIL("get(%llx kind %d) refused %d", (unsigned long long)h, kind, r);
			else {
				if (inst != m->inst)
					FAIL("get returned %p, expected %p", inst, m->inst);
				else if (!intact(m))
					FAIL("instance contents changed");
				m->gets++;
			}
		} else {
			if (r == 0)
				FAIL("get(%llx kind %d) accepted, model state %d", (unsigned long long)h, kind,
				     m ? m->state : -1);
			else if (inst != NULL)
				FAIL("failed get left instance %p", inst);
		}
	} else if (op < 75) {
		/* keep counts from growing without bound: prefer put */
		if (m)
			expect(d, slot);
		else
			expect(NULL, -1);
		r = qb_hdb_handle_put(d->hdb, h);
		if (m && m->state != ST_EMPTY) {
			if (r != 0) {
				FAIL("put(%llx kind %d) refused %d", (unsigned long long)h, kind, r);
				check_dtor(0, "put");
			} else
				m_drop(d, slot, "put");
		} else {
			if (r == 0)
				FAIL("put(%llx kind %d) accepted", (unsigned long long)h, kind);
			check_dtor(0, "refused put");
		}
	} else if (op < 88) {
		if (m)
			expect(d, slot);
		else
			expect(NULL, -1);
		in_destroy = 1;
		r = qb_hdb_handle_destroy(d->hdb, h);
		in_destroy = 0;
		if (m && m->state == ST_ACTIVE) {
			if (r != 0) {
				FAIL("destroy(%llx kind %d) refused %d", (unsigned long long)h, kind, r);
				check_dtor(0, "destroy");
			} else {
				m->state = ST_PENDING;
				m_drop(d, slot, "destroy");
			}
		} else {
			if (r == 0)
				FAIL("destroy(%llx kind %d) accepted, model state %d", (unsigned long long)h, kind,
				     m ? m->state : -1);
			check_dtor(0, "refused destroy");
		}
	} else {
		r = qb_hdb_handle_refcount_get(d->hdb, h);
		if (m && m->state != ST_EMPTY) {
			if (r != 1 + m->gets - m->puts)
				FAIL("refcount(%llx) = %d, model %ld", (unsigned long long)h, r,
				     1 + m->gets - m->puts);
		} else if (r >= 0)
			FAIL("refcount(%llx kind %d) = %d for an invalid handle", (unsigned long long)h, kind, r);
	}
}

int main(int argc, char **argv)
{
	long seed = argc > 1 ? atol(argv[1]) : 1;
	long nops = argc > 2 ? atol(argv[2]) : 200000;
	int i;

	maxlive = argc > 3 ? atoi(argv[3]) : 40;
	reent = argc > 4 ? atoi(argv[4]) : 0;
	rs ^= (uint64_t) seed * 0x9E3779B97F4A7C15ULL;
	srandom((unsigned)seed);
	hset = calloc(HSZ, sizeof(uint64_t));
	hused = calloc(HSZ, 1);

	qb_hdb_create(&hdb0);
	hdb0.destructor = dtor;
	qb_hdb_create(&hdb2);
	hdb2.destructor = dtor;
	dbs[0].hdb = &hdb0;
	dbs[1].hdb = &hdb1;
	dbs[2].hdb = &hdb2;
	for (i = 0; i < NDB; i++)
		dbs[i].s = calloc(MAXSLOTS, sizeof(struct mslot));

	for (opno = 0; opno < nops; opno++)
		step();

	for (i = 0; i < NDB; i++) {
		full_iteration(&dbs[i]);
		teardown(&dbs[i]);
		qb_hdb_destroy(dbs[i].hdb);
	}
	printf("seed %ld ops %ld maxlive %d reent %d: %d failures, %ld objects\n", seed, nops, maxlive, reent,
	       failures, objids);
	return failures ? 1 : 0;
}
