#!/bin/sh
# usage: demo.sh <tree>   exit 0 = property held, non-zero = violated
T=${1:-/repo}
D=$(cd "$(dirname "$0")" && pwd)
gcc -g -O1 -fsanitize=address,undefined -fno-omit-frame-pointer -DHAVE_CONFIG_H \
  -I$T/include -I$T/include/qb -I$T/lib \
  $D/demo.c $T/lib/hdb.c $T/lib/array.c \
  -L$T/lib/.libs -lqb -lpthread -o $D/demo || exit 99
LD_LIBRARY_PATH=$T/lib/.libs ASAN_OPTIONS=detect_leaks=0 $D/demo
