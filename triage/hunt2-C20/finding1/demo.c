/*
 * C20 finding 1: an object whose last reference is given back with
 * qb_hdb_handle_put() (without a preceding qb_hdb_handle_destroy()) is still
 * ACTIVE while its destructor runs: a get from inside the destructor is
 * accepted, iteration visits it, and giving that reference back runs the
 * destructor a second time.
 */
#include <stdio.h>
#include <stdlib.h>
#include <qb/qbdefs.h>
#include <qb/qbhdb.h>

static struct qb_hdb db;
static qb_handle_t h;
static int dtor_runs;
static int get_in_dtor = 1;	/* result of the get inside the destructor */
static int visited_in_dtor;
static int mode;

static void dtor(void *inst)
{
	void *p;
	qb_handle_t ih;

	dtor_runs++;
	if (dtor_runs > 1)
		return;
	if (mode == 0) {
		/* the count of this object is zero: it is being destroyed */
		printf("  in destructor: refcount = %d\n", qb_hdb_handle_refcount_get(&db, h));
		get_in_dtor = qb_hdb_handle_get(&db, h, &p);
		printf("  in destructor: get -> %d (instance %s)\n", get_in_dtor,
		       p == inst ? "the dying object" : "NULL");
		if (get_in_dtor == 0)
			printf("  in destructor: put -> %d\n", qb_hdb_handle_put(&db, h));
	} else {
		qb_hdb_iterator_reset(&db);
		while (qb_hdb_iterator_next(&db, &p, &ih) == 0) {
			if (ih == h) {
				visited_in_dtor = 1;
				printf("  in destructor: iteration visits the dying object %llx\n",
				       (unsigned long long)ih);
			}
			/* reference deliberately kept: see what becomes of it */
		}
	}
}

int main(void)
{
	int bad = 0;
	int32_t r;
	void *p;

	/* sequence A: create, put (count 1 -> 0), destructor does get+put */
	mode = 0;
	qb_hdb_create(&db);
	db.destructor = dtor;
	qb_hdb_handle_create(&db, 16, &h);
	printf("A: create -> %llx, refcount %d\n", (unsigned long long)h, qb_hdb_handle_refcount_get(&db, h));
	r = qb_hdb_handle_put(&db, h);
	printf("A: put -> %d, destructor ran %d time(s)\n", r, dtor_runs);
	if (get_in_dtor == 0) {
		printf("A: VIOLATION: get accepted for an object whose count had reached zero\n");
		bad = 1;
	}
	if (dtor_runs != 1) {
		printf("A: VIOLATION: destructor ran %d times for one object\n", dtor_runs);
		bad = 1;
	}
	qb_hdb_destroy(&db);

	/* sequence B: create, put, destructor iterates */
	mode = 1;
	dtor_runs = 0;
	qb_hdb_create(&db);
	db.destructor = dtor;
	qb_hdb_handle_create(&db, 16, &h);
	r = qb_hdb_handle_put(&db, h);
	printf("B: put -> %d, destructor ran %d time(s)\n", r, dtor_runs);
	if (visited_in_dtor) {
		/* the iteration handed out a reference; the object is gone all the same */
		r = qb_hdb_handle_put(&db, h);
		printf("B: put of the reference obtained by the iteration -> %d\n", r);
		printf("B: VIOLATION: iteration visited an object that was being destroyed\n");
		bad = 1;
	}
	qb_hdb_destroy(&db);

	/* control: the same through destroy is refused properly */
	mode = 0;
	dtor_runs = 0;
	get_in_dtor = 1;
	qb_hdb_create(&db);
	db.destructor = dtor;
	qb_hdb_handle_create(&db, 16, &h);
	r = qb_hdb_handle_destroy(&db, h);
	printf("control: destroy -> %d, get in destructor -> %d, destructor ran %d time(s)\n", r, get_in_dtor, dtor_runs);
	(void)p;
	qb_hdb_destroy(&db);

	printf(bad ? "RESULT: property violated\n" : "RESULT: property held\n");
	return bad;
}
