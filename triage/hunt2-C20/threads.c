/* observation only: concurrent use of one database (thread safety is not part of C20 as stated) */
#include <stdio.h>
#include <stdlib.h>
#include <pthread.h>
#include <qb/qbdefs.h>
#include <qb/qbhdb.h>
static struct qb_hdb db;
static int dtors;
static void dtor(void *p) { __sync_fetch_and_add(&dtors, 1); }
static int dup_handles, lost;
static void *worker(void *a)
{
	long id = (long)a; int i;
	for (i = 0; i < 20000; i++) {
		qb_handle_t h; void *p;
		if (qb_hdb_handle_create(&db, 8, &h) != 0) continue;
		if (qb_hdb_handle_get(&db, h, &p) != 0) { __sync_fetch_and_add(&lost, 1); continue; }
		*(long *)p = id;
		sched_yield();
		if (*(long *)p != id) __sync_fetch_and_add(&dup_handles, 1);
		qb_hdb_handle_put(&db, h);
		qb_hdb_handle_destroy(&db, h);
	}
	return NULL;
}
int main(void)
{
	pthread_t t[4]; long i;
	qb_hdb_create(&db); db.destructor = dtor;
	for (i = 0; i < 4; i++) pthread_create(&t[i], NULL, worker, (void *)(i + 1));
	for (i = 0; i < 4; i++) pthread_join(t[i], NULL);
	printf("objects shared between two creators: %d, own fresh handle refused: %d, dtors %d of 80000\n", dup_handles, lost, dtors);
	return 0;
}
