/* C19 finding 1: a qb_array_grow() that fails for lack of memory destroys the
 * array: the bin table pointer is overwritten with NULL (and the new size is
 * kept), so every element handed out before is lost and the next
 * qb_array_index() dereferences NULL.
 *
 * lib/array.c is compiled with -Drealloc=fi_realloc so that exactly one
 * realloc() call (the one inside the failing grow) can be made to fail.
 */
#include <stdio.h>
#include <stdlib.h>
#include <string.h>
#include <errno.h>
#include <signal.h>
#include <setjmp.h>
#include <qb/qbarray.h>

static int fail_next;
void *fi_realloc(void *p, size_t n)
{
	if (fail_next) { fail_next = 0; errno = ENOMEM; return NULL; }
	return realloc(p, n);
}

static sigjmp_buf jb;
static void on_segv(int s) { (void)s; siglongjmp(jb, 1); }

int main(void)
{
	qb_array_t *a = qb_array_create(16, 8);
	void *p = NULL, *q = NULL;
	int32_t rc;
	unsigned char want[8];

	rc = qb_array_index(a, 3, &p);
	printf("index(3) = %d, p = %p\n", rc, p);
	if (rc != 0) return 2;
	memset(p, 0xAA, 8);
	memset(want, 0xAA, 8);

	fail_next = 1;                       /* the one allocation grow makes fails */
	rc = qb_array_grow(a, 1000);
	printf("grow(1000) with failing realloc = %d (%s)\n", rc, rc == -ENOMEM ? "-ENOMEM" : "?");
	if (fail_next) { printf("grow made no realloc call; nothing to show\n"); return 0; }

	signal(SIGSEGV, on_segv);
	if (sigsetjmp(jb, 1)) {
		printf("VIOLATED: qb_array_index(3) crashed (SIGSEGV) after the failed grow - element 3 is gone\n");
		return 1;
	}
	rc = qb_array_index(a, 3, &q);
	printf("index(3) after failed grow = %d, q = %p\n", rc, q);
	if (rc != 0 || q != p || memcmp(q, want, 8) != 0) {
		printf("VIOLATED: element 3 moved or lost its contents\n");
		return 1;
	}
	/* a failed grow must not have grown the array either */
	rc = qb_array_index(a, 500, &q);
	printf("index(500) after failed grow = %d (want %d)\n", rc, -ERANGE);
	if (rc != -ERANGE) { printf("VIOLATED: failed grow still enlarged the array\n"); return 1; }
	printf("held\n");
	qb_array_free(a);
	return 0;
}
