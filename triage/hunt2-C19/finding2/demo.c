/* C19 finding 2: qb_array_create_2() does not check the result of
 * qb_thread_lock_create().  When that allocation fails the caller still gets
 * a non-NULL array, and the first qb_array_index()/qb_array_grow() on it
 * dereferences the NULL lock.
 *
 * lib/util.c is compiled with -Dmalloc=fi_malloc so that the one malloc()
 * inside qb_thread_lock_create() can be made to fail.
 */
#include <stdio.h>
#include <stdlib.h>
#include <string.h>
#include <errno.h>
#include <signal.h>
#include <setjmp.h>
#include <qb/qbarray.h>

static int fail_next;
void *fi_malloc(size_t n)
{
	if (fail_next) { fail_next = 0; errno = ENOMEM; return NULL; }
	return malloc(n);
}

static sigjmp_buf jb;
static void on_segv(int s) { (void)s; siglongjmp(jb, 1); }

int main(void)
{
	qb_array_t *a;
	void *p = NULL;
	int32_t rc;

	fail_next = 1;                  /* the lock allocation fails */
	a = qb_array_create_2(16, 8, 0);
	printf("create with failing lock allocation = %p\n", (void *)a);
	if (a == NULL) { printf("held: creation failed cleanly\n"); return 0; }

	signal(SIGSEGV, on_segv);
	if (sigsetjmp(jb, 1)) {
		printf("VIOLATED: qb_array_index(0) on the returned array crashed (SIGSEGV)\n");
		return 1;
	}
	rc = qb_array_index(a, 0, &p);
	printf("index(0) = %d, p = %p\n", rc, p);
	if (rc != 0 || p == NULL) { printf("VIOLATED: in-range index failed\n"); return 1; }
	printf("held\n");
	return 0;
}
