#!/bin/sh
# usage: demo.sh <tree>   exit 0 = property held, non-zero = violated
T=${1:-/repo}
D=$(cd "$(dirname "$0")" && pwd)
O=$(mktemp -d /tmp/hunt2-C19-f2.XXXXXX)
INC="-DHAVE_CONFIG_H -I$T/include -I$T/include/qb -I$T/lib"
gcc -g -O0 $INC -c -o $O/array.o $T/lib/array.c || exit 99
gcc -g -O0 $INC -Dmalloc=fi_malloc -c -o $O/util.o $T/lib/util.c || exit 99
gcc -g -O0 $INC -o $O/demo $D/demo.c $O/array.o $O/util.o -L$T/lib/.libs -lqb -lpthread || exit 99
LD_LIBRARY_PATH=$T/lib/.libs $O/demo
rc=$?
rm -rf $O
exit $rc
