/* Model-based randomized tester for qb_array (property C19).
 * usage: fuzz <seed> <rounds> <ops-per-round>
 */
#include <stdio.h>
#include <stdlib.h>
#include <string.h>
#include <stdint.h>
#include <errno.h>
#include <limits.h>
#include <qb/qbarray.h>

#define MAXI 65536
static uint64_t rs;
static uint64_t rnd(void){ rs ^= rs<<13; rs ^= rs>>7; rs ^= rs<<17; return rs; }
static uint32_t rn(uint32_t n){ return n? rnd()%n : 0; }

static qb_array_t *A;
static size_t m_max, m_es, m_auto;
static char *m_addr[MAXI];
static uint8_t m_written[MAXI];   /* 0 = never written */
static uint8_t m_pat[MAXI];
static long nops, nfail;
static int in_cb, cb_enabled;
static long cb_calls;
static uint8_t cb_seen[MAXI/16+2];

#define FAIL(...) do{ fprintf(stderr,"VIOLATION seed-op %ld: ",nops); fprintf(stderr,__VA_ARGS__); fprintf(stderr,"  [max=%zu es=%zu auto=%zu]\n",m_max,m_es,m_auto); nfail++; if(nfail>20) exit(1);}while(0)

#ifdef FI
/* fault injection: array.c/util.c are compiled with -Dcalloc=fi_calloc -Drealloc=fi_realloc -Dmalloc=fi_malloc */
static int fi_mask, fi_on; static long fi_fails;
static int fi_hit(int bit){ if(!fi_on||!(fi_mask&bit)) return 0; if(rn(4)) return 0; fi_fails++; errno=ENOMEM; return 1; }
void *fi_calloc(size_t n,size_t s){ return fi_hit(1)?NULL:calloc(n,s); }
void *fi_realloc(void*p,size_t s){ return fi_hit(2)?NULL:realloc(p,s); }
void *fi_malloc(size_t s){ return fi_hit(4)?NULL:malloc(s); }
#define FI_ENOMEM(rc) ((rc)==-ENOMEM)
#else
#define FI_ENOMEM(rc) 0
#endif
static int allzero(const char*p,size_t n){ for(size_t i=0;i<n;i++) if(p[i]) return 0; return 1; }
static int allpat(const char*p,size_t n,uint8_t v){ for(size_t i=0;i<n;i++) if((uint8_t)p[i]!=v) return 0; return 1; }

static void check_elem(int i){
	if(!m_addr[i]) return;
	if(m_written[i]){ if(!allpat(m_addr[i],m_es,m_pat[i])) FAIL("idx %d content lost",i); }
	else if(!allzero(m_addr[i],m_es)) FAIL("idx %d never written, not zero",i);
}

static void do_index(int32_t idx);

static void cb(qb_array_t *a, uint32_t bin){
	cb_calls++;
	if(a!=A) FAIL("cb wrong array");
	if(bin>=MAXI/16) FAIL("cb bin %u out of range",bin);
	else { if(cb_seen[bin]) FAIL("cb twice for bin %u",bin); cb_seen[bin]=1; }
	if(in_cb<2 && rn(3)==0){
		in_cb++;
		/* re-entrancy: index/grow from inside the callback */
		if(rn(2)) do_index((int32_t)rn(MAXI)); else do_index((int32_t)(bin*16+rn(16)));
		in_cb--;
	}
}

static void do_grow(size_t n){
	int32_t rc = qb_array_grow(A,n);
	nops++;
	if(n>QB_ARRAY_MAX_ELEMENTS){ if(rc!=-EINVAL) FAIL("grow %zu rc %d",n,rc); return; }
	if(FI_ENOMEM(rc)) return; /* failed grow: size unchanged */
	if(rc!=0){ FAIL("grow %zu rc %d",n,rc); return; }
	if(n>m_max) m_max=n;
}

static void do_index(int32_t idx){
	void *p=(void*)0x1; int32_t rc;
	rc = qb_array_index(A,idx,&p);
	nops++;
	if(idx<0 || idx>=MAXI){
		if(rc==0) FAIL("index %d out of hard range succeeded",idx);
		return;
	}
	if((size_t)idx>=m_max){
		if(m_auto==0){ if(rc!=-ERANGE) FAIL("index %d beyond size rc %d (want -ERANGE)",idx,rc); return; }
		if(FI_ENOMEM(rc) && !m_addr[idx]){ m_max=idx+1; return; }
		if(rc!=0){ FAIL("index %d autogrow rc %d",idx,rc); return; }
		m_max = idx+1;
	} else if(FI_ENOMEM(rc) && !m_addr[idx]) return;
	else if(rc!=0){ FAIL("index %d in range rc %d",idx,rc); return; }
	if(p==NULL||p==(void*)0x1){ FAIL("index %d no pointer",idx); return; }
	if(m_addr[idx]==NULL){
		m_addr[idx]=p;
		/* bin neighbours must be consistent & disjoint by layout */
		int base = idx & ~15;
		for(int k=0;k<16;k++){
			int j=base+k;
			if(m_addr[j] && j!=idx){
				long d=(char*)p-m_addr[j]; long want=(long)m_es*(idx-j);
				if(d!=want){ long ad=d<0?-d:d; if((size_t)ad<m_es) FAIL("idx %d/%d overlap (dist %ld)",idx,j,d); }
			}
		}
	} else if(m_addr[idx]!=p) FAIL("idx %d address changed %p -> %p",idx,(void*)m_addr[idx],p);
	check_elem(idx);
	if(rn(2)){ uint8_t v=1+rn(255); memset(p,v,m_es); m_written[idx]=1; m_pat[idx]=v; }
}

static int cmpa(const void*a,const void*b){ char*x=*(char**)a,*y=*(char**)b; return x<y?-1:x>y; }
static void check_all(void){
	static char *s[MAXI]; int n=0;
	for(int i=0;i<MAXI;i++){ if(m_addr[i]){ check_elem(i); s[n++]=m_addr[i]; } }
	qsort(s,n,sizeof s[0],cmpa);
	for(int i=1;i<n;i++) if(s[i-1]+m_es>s[i]) FAIL("overlap %p %p",(void*)s[i-1],(void*)s[i]);
	/* re-index every known element: stable */
	for(int i=0;i<MAXI;i++) if(m_addr[i]){ void*p; int rc=qb_array_index(A,i,&p); nops++; if(rc||p!=m_addr[i]) FAIL("recheck idx %d rc %d %p vs %p",i,rc,p,(void*)m_addr[i]); }
}

static int32_t pick_idx(void){
	static const int32_t b[]={0,1,15,16,17,31,32,255,256,4095,4096,65519,65520,65534,65535,65536,65537,-1,-2,INT_MIN,INT_MAX-1,131072,1<<20};
	switch(rn(8)){
	case 0: return b[rn(sizeof b/sizeof b[0])];
	case 1: return (int32_t)m_max + (int32_t)rn(5) - 2;
	case 2: return (int32_t)rn(MAXI+40)-20;
	case 3: return (int32_t)rnd();
	case 4: return m_max? (int32_t)rn(m_max):0;
	case 5: return (int32_t)rn(64);
	default: return (int32_t)rn(m_max+ (m_auto? 200:4));
	}
}
static size_t pick_size(void){
	static const size_t b[]={0,1,15,16,17,4095,65535,65536,65537,1<<20,(size_t)-1,(size_t)INT_MAX+2};
	switch(rn(6)){
	case 0: return b[rn(sizeof b/sizeof b[0])];
	case 1: return m_max+rn(40);
	case 2: return rn(MAXI+2);
	case 3: return m_max? rn(m_max):0;
	default: return m_max+rn(600);
	}
}

static void round_(int ops){
	static const size_t ess[]={1,2,3,4,7,8,13,16,24,64,100,255,256,1000,4096,5000};
	static const size_t ims[]={0,1,2,15,16,17,31,32,33,100,256,4095,4096,65519,65520,65535,65536};
	size_t es = rn(3)? ess[rn(sizeof ess/sizeof ess[0])] : 1+rn(300);
	size_t im = rn(3)? ims[rn(sizeof ims/sizeof ims[0])] : rn(MAXI+1);
	size_t ag = rn(2)? rn(17):0;
	if(rn(4)==0) im=rn(64);
	memset(m_addr,0,sizeof m_addr); memset(m_written,0,sizeof m_written); memset(cb_seen,0,sizeof cb_seen);
	/* creation argument checks */
	if(rn(20)==0){
		errno=0; qb_array_t*x=qb_array_create_2(MAXI+1+rn(100),es,ag); if(x||errno!=EINVAL) FAIL("create too big accepted");
		errno=0; x=qb_array_create_2(im,0,ag); if(x||errno!=EINVAL) FAIL("create es=0 accepted");
		errno=0; x=qb_array_create_2(im,es,17+rn(100)); if(x||errno!=EINVAL) FAIL("create autogrow>16 accepted");
	}
	A = ag||rn(2)? qb_array_create_2(im,es,ag) : qb_array_create(im,es);
	if(!A){ FAIL("create(%zu,%zu,%zu) failed",im,es,ag); return; }
	m_max=im; m_es=es; m_auto=ag;
	cb_enabled=rn(2);
	if(cb_enabled) qb_array_new_bin_cb_set(A,cb);
#ifdef FI
	fi_on=1;
#endif
	if(qb_array_elems_per_bin_get(A)!=16) FAIL("elems per bin");
	int limit = es>1000? 3000: 100000; /* bound memory */
	int allocd=0;
	for(int i=0;i<ops;i++){
		int r=rn(100);
		if(r<70){ int32_t ix=pick_idx(); 
			if(ix>=0&&ix<MAXI&&!m_addr[ix]){ if(allocd>limit) continue; allocd++; }
			do_index(ix); }
		else if(r<95) do_grow(pick_size());
		else if(r<96) check_all();
		else { /* NULL args */
			void*p; if(qb_array_index(NULL,0,&p)!=-EINVAL) FAIL("NULL a"); if(qb_array_index(A,0,NULL)!=-EINVAL) FAIL("NULL out");
			if(qb_array_grow(NULL,1)!=-EINVAL) FAIL("grow NULL"); }
	}
#ifdef FI
	fi_on=0;
#endif
	check_all();
	qb_array_free(A); A=NULL;
}

int main(int argc,char**argv){
	uint64_t seed = argc>1? strtoull(argv[1],0,0):1;
	int rounds = argc>2? atoi(argv[2]):50;
	int ops = argc>3? atoi(argv[3]):5000;
	rs = seed*0x9E3779B97F4A7C15ull+12345; if(!rs) rs=1;
#ifdef FI
	fi_mask = getenv("FI_MASK")? atoi(getenv("FI_MASK")):1;
#endif
	for(int r=0;r<rounds;r++) round_(rn(ops)+10);
	printf("seed %llu: %ld ops, %ld cb calls, %ld violations\n",(unsigned long long)seed,nops,cb_calls,nfail);
#ifdef FI
	printf("injected failures: %ld\n",fi_fails);
#endif
	return nfail?1:0;
}
