#!/bin/sh
# usage: build.sh [tree]   (default /repo)
T=${1:-/repo}
D=$(dirname "$0")
INC="-DHAVE_CONFIG_H -I$T/include -I$T/include/qb -I$T/lib"
set -e
gcc -g -O1 -fsanitize=address,undefined -fno-sanitize-recover=undefined $INC -o $D/fuzz $D/fuzz.c $T/lib/array.c $T/lib/util.c -L$T/lib/.libs -lqb -lpthread
gcc -g -O1 -fsanitize=thread $INC -o $D/fuzz_mt $D/fuzz_mt.c $T/lib/array.c $T/lib/util.c -L$T/lib/.libs -lqb -lpthread
# fault-injection build: allocation failures inside array.c/util.c (FI_MASK: 1 calloc, 2 realloc, 4 malloc)
FI="-DFI -Dcalloc=fi_calloc -Drealloc=fi_realloc -Dmalloc=fi_malloc"
gcc -g -O1 -fsanitize=address,undefined -fno-sanitize-recover=undefined $INC -c -o $D/fi_array.o $FI $T/lib/array.c
gcc -g -O1 -fsanitize=address,undefined -fno-sanitize-recover=undefined $INC -c -o $D/fi_util.o $FI $T/lib/util.c
gcc -g -O1 -fsanitize=address,undefined -fno-sanitize-recover=undefined $INC -DFI -o $D/fuzz_fi $D/fuzz.c $D/fi_array.o $D/fi_util.o -L$T/lib/.libs -lqb -lpthread
