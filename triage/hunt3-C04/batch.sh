#!/bin/sh
# usage: batch.sh <first_seed> <last_seed> <nops> <flags> <aggr> <logfile>
export LD_LIBRARY_PATH=/repo/lib/.libs ASAN_OPTIONS=detect_leaks=0:allocator_may_return_null=1
cd /tmp/hunt3-C04
s=$1
while [ $s -le $2 ]; do
  timeout 900 ./fuzz $s $3 $4 $5 > out.$$.txt 2>&1 &
  pid=$!
  wait $pid
  rc=$?
  rm -rf /dev/shm/qb-$pid-$pid-*
  grep -v "^ \|^$\|misaligned\|pointer points" out.$$.txt | grep "VIOLATION\|ERROR\|^seed\|runtime error" | head -8 | sed "s/^/[s=$s f=$4 a=$5 rc=$rc] /" >> $6
  [ $rc -ne 0 ] && cp out.$$.txt fail.s$s.f$4.a$5.txt
  s=$((s+1))
done
rm -f out.$$.txt
