#!/bin/sh
# usage: build.sh [tree]   (default /repo)
T=${1:-/repo}
D=$(dirname "$0")
SRC="$T/lib/ipcs.c $T/lib/ipc_setup.c $T/lib/ipc_shm.c $T/lib/ipc_socket.c $T/lib/ipcc.c $T/lib/ringbuffer.c $T/lib/ringbuffer_helper.c"
gcc -g -O1 -fno-omit-frame-pointer -fsanitize=address,undefined -DHAVE_CONFIG_H \
  -I$T/include -I$T/include/qb -I$T/lib -w \
  -o $D/fuzz $D/fuzz.c $SRC -L$T/lib/.libs -lqb -lpthread
