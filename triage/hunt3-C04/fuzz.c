/*
 * Model-based randomized tester for libqb IPC server connection life cycle (C04).
 * Single process, single thread: clients use qb_ipcc_connect_async() and the
 * server runs on a tiny poll() loop of our own, so every run is deterministic
 * for a given seed.
 *
 * usage: fuzz <seed> <nops> [flags]
 *   flags bit0: allow qb_ipcs_destroy() from inside callbacks
 *         bit1: verbose trace
 *         bit2: only SHM   bit3: only SOCKET
 */
#include "os_base.h"
#include <poll.h>
#include <sys/socket.h>
#include <sys/un.h>
#include <qb/qbdefs.h>
#include <qb/qbipcs.h>
#include <qb/qbipcc.h>
#include <qb/qbloop.h>
#include <qb/qblog.h>
#include "ipc_int.h"

#define CHECK(cond, ...) do { if (!(cond)) { \
	fprintf(stderr, "VIOLATION line %d op %ld: ", __LINE__, opno); \
	fprintf(stderr, __VA_ARGS__); fprintf(stderr, "\n"); violations++; \
	if (getenv("FUZZ_ABORT")) abort(); } } while (0)
#define TR(...) do { if (verbose) { fprintf(stderr, "[%ld] ", opno); fprintf(stderr, __VA_ARGS__); fprintf(stderr, "\n"); } } while (0)

/* only timing: the library's retry sleeps (100 ms each) are skipped */
int usleep(useconds_t u) { return 0; }
int nanosleep(const struct timespec *a, struct timespec *b) { return 0; }

static long opno;
static int violations;
static int verbose;
static int flags;
static int aggr = 2;
static long n_cl_ok, n_send_ok;

/* ---------- rng ---------- */
static uint64_t rs;
static uint32_t rnd(void)
{
	rs ^= rs << 13; rs ^= rs >> 7; rs ^= rs << 17;
	return (uint32_t)(rs >> 11);
}
static uint32_t rn(uint32_t n) { return n ? rnd() % n : 0; }

/* ---------- mini loop ---------- */
#define MAXPE 512
struct pe { int used; int fd; int events; void *data; qb_ipcs_dispatch_fn_t fn; unsigned gen; };
static struct pe pes[MAXPE];
static unsigned pegen;
#define MAXJOB 256
struct job { void *data; qb_loop_job_dispatch_fn fn; };
static struct job jobs[MAXJOB];
static int njobs;
static int fail_job_add;

static int32_t my_job_add(enum qb_loop_priority p, void *data, qb_loop_job_dispatch_fn fn)
{
	if (fail_job_add && rn(4) == 0) return -ENOMEM;
	if (njobs >= MAXJOB) return -ENOMEM;
	jobs[njobs].data = data; jobs[njobs].fn = fn; njobs++;
	return 0;
}
static struct pe *pe_find(int fd)
{
	for (int i = 0; i < MAXPE; i++) if (pes[i].used && pes[i].fd == fd) return &pes[i];
	return NULL;
}
static int32_t my_dispatch_add(enum qb_loop_priority p, int32_t fd, int32_t events, void *data, qb_ipcs_dispatch_fn_t fn)
{
	if (fd < 0) return -EBADF;
	if (pe_find(fd)) {
		CHECK(0, "dispatch_add of fd %d that is still registered (stale registration data=%p)", fd, pe_find(fd)->data);
		return -EEXIST;
	}
	for (int i = 0; i < MAXPE; i++) if (!pes[i].used) {
		pes[i].used = 1; pes[i].fd = fd; pes[i].events = events; pes[i].data = data; pes[i].fn = fn; pes[i].gen = ++pegen;
		return 0;
	}
	return -ENOMEM;
}
static int32_t my_dispatch_mod(enum qb_loop_priority p, int32_t fd, int32_t events, void *data, qb_ipcs_dispatch_fn_t fn)
{
	struct pe *e = pe_find(fd);
	if (!e) return -EBADF;
	e->events = events; e->data = data; e->fn = fn;
	return 0;
}
static int32_t my_dispatch_del(int32_t fd)
{
	struct pe *e = pe_find(fd);
	if (!e) return -EBADF;
	e->used = 0;
	return 0;
}

/* ---------- model ---------- */
enum { M_FREE, M_ACCEPTED, M_REJECTED, M_CREATED, M_CLOSING, M_CLOSED, M_DESTROYED };
#define MAXCM 256
struct cm {
	qb_ipcs_connection_t *c;
	int st;
	int svc;
	int app_refs;
	int has_job_add;
	int iter_refs;	/* held by a running iteration */
	int in_cb;
	int in_closed;
	int closed_pending;	/* last closed returned non-zero and a job was queued */
	int closed_calls;
	int retries_left;
	int msgs;
};
static struct cm cms[MAXCM];

#define NSVC 2
struct svc {
	qb_ipcs_service_t *s;
	int alive;
	int gen;
	int has_job_add;
	char name[64];
	enum qb_ipc_type type;
};
static struct svc svcs[NSVC];

static int cb_depth;
static long n_accept, n_created, n_msg, n_closed, n_destroyed, n_rerun, n_svc_destroy;

static struct cm *cm_find(qb_ipcs_connection_t *c)
{
	for (int i = 0; i < MAXCM; i++)
		if (cms[i].c == c && cms[i].st != M_FREE && cms[i].st != M_DESTROYED) return &cms[i];
	return NULL;
}
static struct cm *cm_new(qb_ipcs_connection_t *c)
{
	for (int i = 0; i < MAXCM; i++) if (cms[i].st == M_FREE || cms[i].st == M_DESTROYED) {
		memset(&cms[i], 0, sizeof cms[i]);
		cms[i].c = c;
		return &cms[i];
	}
	fprintf(stderr, "model table full\n"); exit(3);
}
static struct cm *cm_pick(void)
{
	int start = rn(MAXCM);
	for (int k = 0; k < MAXCM; k++) {
		struct cm *m = &cms[(start + k) % MAXCM];
		if (m->st != M_FREE && m->st != M_DESTROYED) return m;
	}
	return NULL;
}

static char big[1 << 20];
static void conn_ops(struct cm *self, int n, int where);
static void svc_destroy(int i);

/* application side wrappers keeping the model in step */
static void app_ref(struct cm *m) { qb_ipcs_connection_ref(m->c); m->app_refs++; TR("  ref %p -> %d", (void*)m->c, m->app_refs); }
static void app_unref(struct cm *m)
{
	if (m->app_refs <= 0) return;
	m->app_refs--;
	TR("  unref %p -> %d", (void*)m->c, m->app_refs);
	qb_ipcs_connection_unref(m->c);
}
static void app_send(struct cm *m)
{
	struct qb_ipc_response_header *h = (void *)big;
	size_t sz;
	ssize_t r;
	int32_t bs = qb_ipcs_connection_get_buffer_size(m->c);
	switch (rn(6)) {
	case 0: sz = sizeof(*h); break;
	case 1: sz = bs; break;
	case 2: sz = (size_t)bs + 1; break;
	case 3: sz = bs > 32 ? bs - rn(16) : sizeof *h; break;
	default: sz = sizeof(*h) + rn(300); break;
	}
	if (sz > sizeof big) sz = sizeof big;
	h->id = 77; h->size = sz; h->error = 0;
	if (rn(2)) {
		if (rn(2)) r = qb_ipcs_event_send(m->c, big, sz);
		else { struct iovec iov[2] = {{big, sz / 2}, {big + sz / 2, sz - sz / 2}}; r = qb_ipcs_event_sendv(m->c, iov, 2); }
	} else {
		if (rn(2)) r = qb_ipcs_response_send(m->c, big, sz);
		else { struct iovec iov[2] = {{big, sz / 2}, {big + sz / 2, sz - sz / 2}}; r = qb_ipcs_response_sendv(m->c, iov, 2); }
	}
	TR("  send %p sz %zu -> %zd", (void*)m->c, sz, r);
	if (m->st == M_CLOSING || m->st == M_CLOSED || m->st == M_ACCEPTED || m->st == M_REJECTED)
		CHECK(r < 0, "send on a connection without transport (st %d) returned %zd", m->st, r);
}
static void app_stats(struct cm *m)
{
	struct qb_ipcs_connection_stats st;
	struct qb_ipcs_connection_stats_2 *s2;
	qb_ipcs_connection_stats_get(m->c, &st, rn(2));
	s2 = qb_ipcs_connection_stats_get_2(m->c, rn(2));
	free(s2);
	(void)qb_ipcs_context_get(m->c);
	(void)qb_ipcs_service_id_get(m->c);
	(void)qb_ipcs_connection_service_context_get(m->c);
}
static void app_iterate(int si)
{
	struct svc *sv = &svcs[si];
	qb_ipcs_connection_t *c, *next;
	int guard = 0;
	if (!sv->alive) return;
	TR("  iterate svc %d", si);
	for (c = qb_ipcs_connection_first_get(sv->s); c; c = next) {
		struct cm *m = cm_find(c);
		CHECK(m != NULL, "iteration returned unknown/destroyed connection %p", (void *)c);
		if (!m) break;
		if (guard == 0) m->iter_refs++;
		CHECK(++guard < 1000, "iteration does not end");
		if (guard >= 1000) break;
		switch (rn(6)) {
		case 0: TR("  it: disconnect %p", (void*)c); qb_ipcs_disconnect(c); break;
		case 1: app_send(m); break;
		case 2: app_stats(m); break;
		default: break;
		}
		if (!sv->alive) { m->iter_refs--; qb_ipcs_connection_unref(c); break; }
		next = qb_ipcs_connection_next_get(sv->s, c);
		if (next) {
			struct cm *mn = cm_find(next);
			CHECK(mn != NULL, "next_get returned unknown/destroyed connection %p", (void *)next);
			if (mn) mn->iter_refs++;
			if (mn && rn(8) == 0) { TR("  it: disconnect next %p", (void*)next); qb_ipcs_disconnect(next); }
		}
		m->iter_refs--;
		TR("  it: unref %p", (void*)c);
		qb_ipcs_connection_unref(c);
		if (next && !sv->alive) {
			/* the service was destroyed from a nested callback: its handle is gone */
			struct cm *mn = cm_find(next);
			if (mn) mn->iter_refs--;
			qb_ipcs_connection_unref(next);
			break;
		}
	}
}

/* random operations an application may do from a callback or from outside */
static void conn_ops(struct cm *self, int n, int where)
{
	while (n-- > 0) {
		struct cm *m = (self && rn(3)) ? self : cm_pick();
		if (!m) return;
		switch (rn(12)) {
		case 0: case 1:
			if ((int)rn(8) >= aggr) break;
			TR("  disconnect %p (st %d)", (void*)m->c, m->st);
			qb_ipcs_disconnect(m->c);
			break;
		case 2: app_ref(m); break;
		case 3: app_unref(m); break;
		case 4: app_ref(m); app_unref(m); break;
		case 5: case 6: app_send(m); break;
		case 7: app_stats(m); break;
		case 8: app_iterate(rn(NSVC)); break;
		case 9: {
			int si = rn(NSVC);
			if (svcs[si].alive) {
				int rl = rn(3) ? (int)rn(3) : (int)rn(5);
				TR("  rate limit svc %d -> %d", si, rl);
				qb_ipcs_request_rate_limit(svcs[si].s, (enum qb_ipcs_rate_limit)rl);
			}
			break;
		}
		case 10:
			if ((flags & 1) && where != 0 && rn(6) == 0) {
				int si = rn(NSVC);
				if (svcs[si].alive) svc_destroy(si);
			}
			break;
		default: break;
		}
	}
}

/* ---------- server callbacks ---------- */
static int32_t cb_accept(qb_ipcs_connection_t *c, uid_t uid, gid_t gid)
{
	struct cm *m = cm_find(c);
	int rej;
	CHECK(m == NULL, "accept for a connection that is already known and alive %p", (void *)c);
	m = cm_new(c);
	n_accept++;
	m->st = M_ACCEPTED;
	m->svc = qb_ipcs_service_id_get(c);
	m->has_job_add = svcs[m->svc].has_job_add;
	m->retries_left = rn(4);
	rej = (rn(8) == 0);
	TR("cb accept %p rej %d", (void*)c, rej);
	m->in_cb++; cb_depth++;
	if (rn(2)) qb_ipcs_connection_auth_set(c, getuid(), getgid(), 0600);
	if (rn(3) == 0) conn_ops(m, 1 + rn(2), 1);
	cb_depth--; m->in_cb--;
	if (rej) { m->st = M_REJECTED; return -EACCES; }
	return 0;
}
static void cb_created(qb_ipcs_connection_t *c)
{
	struct cm *m = cm_find(c);
	TR("cb created %p", (void*)c);
	CHECK(m != NULL, "created for unknown/destroyed connection %p", (void *)c);
	if (!m) return;
	CHECK(m->st == M_ACCEPTED, "created in model state %d", m->st);
	m->st = M_CREATED;
	n_created++;
	m->in_cb++; cb_depth++;
	qb_ipcs_context_set(c, m);
	if (rn(2)) conn_ops(m, 1 + rn(3), 2);
	cb_depth--; m->in_cb--;
}
static int32_t cb_msg(qb_ipcs_connection_t *c, void *data, size_t size)
{
	struct cm *m = cm_find(c);
	struct qb_ipc_request_header *h = data;
	TR("cb msg %p size %zu", (void*)c, size);
	CHECK(m != NULL, "msg for unknown/destroyed connection %p", (void *)c);
	if (!m) return 0;
	CHECK(m->st == M_CREATED, "msg_process in model state %d", m->st);
	CHECK(size >= sizeof *h, "short msg");
	m->msgs++;
	n_msg++;
	m->in_cb++; cb_depth++;
	if (rn(3)) conn_ops(m, 1 + rn(3), 3);
	cb_depth--; m->in_cb--;
	return rn(8) == 0 ? -1 : 0;
}
static int32_t cb_closed(qb_ipcs_connection_t *c)
{
	struct cm *m = cm_find(c);
	int ret = 0;
	TR("cb closed %p", (void*)c);
	CHECK(m != NULL, "closed for unknown/destroyed connection %p", (void *)c);
	if (!m) return 0;
	CHECK(m->st == M_CREATED || (m->st == M_CLOSING && m->closed_pending),
	      "closed in model state %d pending %d calls %d", m->st, m->closed_pending, m->closed_calls);
	CHECK(m->in_closed == 0, "closed re-entered for the same connection");
	m->closed_calls++;
	n_closed++; if (m->closed_calls > 1) n_rerun++;
	m->closed_pending = 0;
	m->st = M_CLOSING;
	m->in_cb++; m->in_closed++; cb_depth++;
	if (rn(2)) conn_ops(m, 1 + rn(3), 4);
	cb_depth--; m->in_closed--; m->in_cb--;
	if (m->retries_left > 0 && rn(2)) { m->retries_left--; ret = 1 + rn(3); if (rn(4) == 0) ret = -5; }
	if (ret != 0 && m->has_job_add && !fail_job_add) {
		m->closed_pending = 1;
	} else if (ret != 0 && m->has_job_add && fail_job_add) {
		m->closed_pending = 2;	/* may or may not be re-run */
	} else {
		m->st = M_CLOSED;
	}
	TR("   closed %p returns %d", (void*)c, ret);
	return ret;
}
static void cb_destroyed(qb_ipcs_connection_t *c)
{
	struct cm *m = cm_find(c);
	TR("cb destroyed %p", (void*)c);
	CHECK(m != NULL, "destroyed for unknown/already destroyed connection %p", (void *)c);
	if (!m) return;
	CHECK(m->app_refs == 0 && m->iter_refs == 0, "destroyed while the application holds %d+%d references (st %d)", m->app_refs, m->iter_refs, m->st);
	CHECK(m->in_cb == 0, "destroyed while another callback of the connection is running");
	CHECK(m->closed_pending != 1, "destroyed although closed returned non-zero and its re-run is queued");
	CHECK(m->st != M_CLOSING || m->closed_pending == 2, "destroyed in state CLOSING");
	if (m->st == M_CREATED) {
		/* disconnect from inside created(): no closed. noted, not counted */
		TR("   note: destroyed after created without closed");
	}
	for (int i = 0; i < MAXPE; i++)
		CHECK(!(pes[i].used && pes[i].data == c), "destroyed but fd %d is still registered with it", pes[i].fd);
	for (int i = 0; i < njobs; i++)
		CHECK(jobs[i].data != c, "destroyed but a job is still queued for it");
	m->in_cb++; cb_depth++;
	/* what the library says a destroyed callback may do */
	if (rn(2)) { (void)qb_ipcs_context_get(c); app_stats(m); }
	if (rn(3) == 0) { qb_ipcs_connection_ref(c); qb_ipcs_connection_unref(c); }
	if (rn(3) == 0) app_send(m);
	if (rn(4) == 0) qb_ipcs_disconnect(c);
	if (rn(4) == 0) {
		/* other connections */
		struct cm *o = cm_pick();
		if (o && o != m) conn_ops(o, 1, 5);
	}
	cb_depth--; m->in_cb--;
	m->st = M_DESTROYED;
	n_destroyed++;
}

static struct qb_ipcs_service_handlers sh = {
	.connection_accept = cb_accept,
	.connection_created = cb_created,
	.msg_process = cb_msg,
	.connection_closed = cb_closed,
	.connection_destroyed = cb_destroyed,
};

static void svc_create(int i)
{
	struct svc *sv = &svcs[i];
	struct qb_ipcs_poll_handlers ph = { .job_add = my_job_add, .dispatch_add = my_dispatch_add,
		.dispatch_mod = my_dispatch_mod, .dispatch_del = my_dispatch_del };
	int32_t r;
	sv->gen++;
	if (flags & 4) sv->type = QB_IPC_SHM;
	else if (flags & 8) sv->type = QB_IPC_SOCKET;
	else sv->type = (i == 0) ? QB_IPC_SHM : QB_IPC_SOCKET;
	snprintf(sv->name, sizeof sv->name, "h3c04-%d-%d-%d", (int)getpid(), i, sv->gen);
	sv->has_job_add = rn(5) != 0;
	if (!sv->has_job_add) ph.job_add = NULL;
	sv->s = qb_ipcs_create(sv->name, i, sv->type, &sh);
	qb_ipcs_poll_handlers_set(sv->s, &ph);
	if (rn(3) == 0) qb_ipcs_enforce_buffer_size(sv->s, 1 << (8 + rn(10)));
	r = qb_ipcs_run(sv->s);
	if (r != 0) { fprintf(stderr, "qb_ipcs_run: %d\n", r); exit(3); }
	sv->alive = 1;
	TR("svc %d created %s type %d job_add %d", i, sv->name, sv->type, sv->has_job_add);
}
static void svc_destroy(int i)
{
	struct svc *sv = &svcs[i];
	qb_ipcs_service_t *s = sv->s;
	if (!sv->alive) return;
	TR("svc %d destroy", i);
	sv->alive = 0;
	n_svc_destroy++;
	sv->s = NULL;
	qb_ipcs_destroy(s);
}

/* ---------- pump ---------- */
static void pump(int rounds)
{
	while (rounds-- > 0) {
		struct pollfd pf[MAXPE];
		unsigned gens[MAXPE];
		int idx[MAXPE];
		int n = 0, nj;
		struct job jb[MAXJOB];

		nj = njobs;
		memcpy(jb, jobs, sizeof(struct job) * nj);
		njobs = 0;
		for (int i = 0; i < nj; i++) {
			/* the job must not be for a destroyed connection */
			struct cm *m = cm_find(jb[i].data);
			CHECK(m != NULL, "queued job for a destroyed connection %p", jb[i].data);
			if (!m) continue;
			TR("run job %p", jb[i].data);
			jb[i].fn(jb[i].data);
		}
		for (int i = 0; i < MAXPE; i++) if (pes[i].used) {
			pf[n].fd = pes[i].fd; pf[n].events = pes[i].events & ~POLLNVAL; pf[n].revents = 0;
			gens[n] = pes[i].gen; idx[n] = i; n++;
		}
		if (n == 0) return;
		if (poll(pf, n, 0) <= 0) continue;
		/* random start so that order varies */
		int start = rn(n);
		for (int k = 0; k < n; k++) {
			int j = (start + k) % n;
			struct pe *e = &pes[idx[j]];
			int32_t r;
			if (!pf[j].revents) continue;
			if (!e->used || e->gen != gens[j]) continue;	/* removed meanwhile */
			TR("dispatch fd %d rev 0x%x data %p", e->fd, pf[j].revents, e->data);
			r = e->fn(e->fd, pf[j].revents, e->data);
			if (r < 0 && e->used && e->gen == gens[j]) {
				e->used = 0;
			}
		}
	}
}

/* ---------- clients ---------- */
#define NCL 24
struct cl { qb_ipcc_connection_t *cc; int st; int svc; int sent; };	/* st: 0 none 1 pending 2 connected 3 shot */
static struct cl cls[NCL];
#define NRAW 8
static int raws[NRAW];

static void cl_connect(int k)
{
	struct cl *cl = &cls[k];
	int si = rn(NSVC), fd;
	size_t sz;
	if (!svcs[si].alive) return;
	switch (rn(6)) {
	case 0: sz = 0; break;
	case 1: sz = 1; break;
	case 2: sz = 4096; break;
	case 3: sz = 4095 + rn(3); break;
	case 4: sz = 1 << (6 + rn(12)); break;
	default: sz = 100 + rn(20000); break;
	}
	cl->cc = qb_ipcc_connect_async(svcs[si].name, sz, &fd);
	TR("client %d connect_async svc %d size %zu -> %p", k, si, sz, (void*)cl->cc);
	if (cl->cc) { cl->st = 1; cl->svc = si; cl->sent = 0; }
}
static void cl_continue(int k)
{
	struct cl *cl = &cls[k];
	int r = qb_ipcc_connect_continue(cl->cc);
	TR("client %d continue -> %d", k, r);
	if (r == 0) { cl->st = 2; n_cl_ok++; } else { cl->st = 0; cl->cc = NULL; }
}
static void cl_disconnect(int k);
static void cl_send(int k)
{
	struct cl *cl = &cls[k];
	struct qb_ipc_request_header *h = (void *)big;
	int32_t bs = qb_ipcc_get_buffer_size(cl->cc);
	size_t sz;
	ssize_t r;
	if (cl->sent > 25) return;
	switch (rn(5)) {
	case 0: sz = sizeof *h; break;
	case 1: sz = bs; break;
	case 2: sz = bs / 2; break;
	default: sz = sizeof *h + rn(200); break;
	}
	if (sz > (size_t)bs) sz = bs;
	if (sz < sizeof *h) sz = sizeof *h;
	if (sz > sizeof big) sz = sizeof big;
	h->id = 100 + k; h->size = sz;
	r = qb_ipcc_send(cl->cc, big, sz);
	TR("client %d send %zu -> %zd", k, sz, r);
	if (r > 0) { cl->sent++; n_send_ok++; }
	else if (r != -EAGAIN && rn(4)) cl_disconnect(k);
}
static void cl_drain(int k)
{
	struct cl *cl = &cls[k];
	static char rb[1 << 20];
	int32_t bs = qb_ipcc_get_buffer_size(cl->cc);
	for (int i = 0; i < 8; i++) if (qb_ipcc_recv(cl->cc, rb, bs, 0) <= 0) break;
	for (int i = 0; i < 8; i++) if (qb_ipcc_event_recv(cl->cc, rb, bs, 0) <= 0) break;
}
static void cl_shoot(int k)
{
	struct cl *cl = &cls[k];
	TR("client %d shot", k);
	shutdown(cl->cc->setup.u.us.sock, SHUT_RDWR);
	cl->st = 3;
}
static void cl_disconnect(int k)
{
	struct cl *cl = &cls[k];
	TR("client %d disconnect (st %d)", k, cl->st);
	if (cl->st == 1) {
		/* never finished: drop it the hard way */
		close(cl->cc->setup.u.us.sock);
		free(cl->cc);
	} else {
		qb_ipcc_disconnect(cl->cc);
	}
	cl->cc = NULL; cl->st = 0;
}
static void raw_client(int k)
{
	struct sockaddr_un a;
	struct qb_ipc_connection_request req;
	int si = rn(NSVC), fd;
	if (raws[k] >= 0) { close(raws[k]); raws[k] = -1; return; }
	if (!svcs[si].alive) return;
	fd = socket(PF_UNIX, SOCK_STREAM, 0);
	memset(&a, 0, sizeof a);
	a.sun_family = AF_UNIX;
	snprintf(a.sun_path + 1, sizeof a.sun_path - 1, "%s", svcs[si].name);
	if (connect(fd, (struct sockaddr *)&a, sizeof a) != 0) { close(fd); TR("raw: connect failed"); return; }
	memset(&req, 0, sizeof req);
	req.hdr.id = rn(8) ? QB_IPC_MSG_AUTHENTICATE : (int)rn(10) - 5;
	req.hdr.size = sizeof req;
	switch (rn(5)) {
	case 0: req.max_msg_size = 0; break;
	case 1: req.max_msg_size = 1; break;
	case 2: req.max_msg_size = rn(16) ? (4u << 20) : 0x7fffffff; break;	/* the huge one is slow (2 GB buffers), keep it rare */
	default: req.max_msg_size = 1000 + rn(100000); break;
	}
	switch (rn(5)) {
	case 4: (void)!write(fd, &req, sizeof req); shutdown(fd, SHUT_RD); raws[k] = fd; TR("raw: full request, read side shut (the response cannot be sent)"); return;
	case 0: (void)!write(fd, &req, sizeof req); close(fd); TR("raw: full request then close"); return;
	case 1: (void)!write(fd, &req, rn(sizeof req)); close(fd); TR("raw: partial then close"); return;
	case 2: (void)!write(fd, &req, sizeof req); raws[k] = fd; TR("raw: full request, kept"); return;
	default: (void)!write(fd, &req, rn(sizeof req)); raws[k] = fd; TR("raw: partial, kept"); return;
	}
}

int main(int argc, char **argv)
{
	long nops = argc > 2 ? atol(argv[2]) : 10000;
	uint64_t seed = argc > 1 ? strtoull(argv[1], NULL, 0) : 1;
	flags = argc > 3 ? atoi(argv[3]) : 0;
	verbose = !!(flags & 2);
	if (argc > 4) aggr = atoi(argv[4]);
	rs = seed * 0x9E3779B97F4A7C15ull + 12345;
	if (!rs) rs = 1;
	signal(SIGPIPE, SIG_IGN);
	alarm(900);
	if (getenv("FUZZ_LOG")) {
		qb_log_init("fuzz", LOG_USER, LOG_EMERG);
		qb_log_ctl(QB_LOG_SYSLOG, QB_LOG_CONF_ENABLED, QB_FALSE);
		qb_log_filter_ctl(QB_LOG_STDERR, QB_LOG_FILTER_ADD, QB_LOG_FILTER_FILE, "*", LOG_TRACE);
		qb_log_ctl(QB_LOG_STDERR, QB_LOG_CONF_ENABLED, QB_TRUE);
	}
	for (int i = 0; i < NRAW; i++) raws[i] = -1;
	for (int i = 0; i < NSVC; i++) svc_create(i);

	for (opno = 0; opno < nops && violations < 5; opno++) {
		int k = rn(NCL);
		struct cl *cl = &cls[k];
		fail_job_add = 0;
		switch (rn(20)) {
		case 0: case 1: case 2:
			if (cl->st == 0) cl_connect(k);
			else if (cl->st == 1) { if (rn(4)) pump(2); cl_continue(k); }
			else if (cl->st == 2) cl_send(k);
			break;
		case 3: case 4: case 5: case 6:
			if (cl->st == 2) cl_send(k);
			else if (cl->st == 1) { pump(2); cl_continue(k); }
			break;
		case 7:
			if ((int)rn(8) >= aggr) { if (cl->st == 2) cl_send(k); break; }
			if (cl->st == 2 && rn(2)) cl_shoot(k);
			else if (cl->st != 0) cl_disconnect(k);
			break;
		case 8:
			if (cl->st == 2) cl_drain(k);
			break;
		case 9: case 10: case 11: case 12:
			pump(1 + rn(3));
			for (int i = 0; i < NCL; i++) cls[i].sent = 0;
			break;
		case 13: case 14:
			TR("outside ops");
			conn_ops(NULL, 1 + rn(3), 0);
			break;
		case 15:
			raw_client(rn(NRAW));
			break;
		case 16:
			if (rn(60) < (uint32_t)aggr) {
				int si = rn(NSVC);
				if (svcs[si].alive) svc_destroy(si); else svc_create(si);
			}
			break;
		case 17:
			app_iterate(rn(NSVC));
			break;
		case 18:
			/* drop every reference the application still holds on dead transports */
			for (int i = 0; i < MAXCM; i++) {
				struct cm *m = &cms[i];
				while (m->st != M_FREE && m->st != M_DESTROYED && m->app_refs > 0 &&
				       (m->st == M_CLOSED || m->st == M_REJECTED || rn(4) == 0))
					app_unref(m);
			}
			break;
		case 19:
			fail_job_add = 1;
			pump(1);
			fail_job_add = 0;
			break;
		}
	}

	/* wind down: everything must get destroyed */
	TR("wind down");
	for (int k = 0; k < NCL; k++) if (cls[k].st) cl_disconnect(k);
	for (int k = 0; k < NRAW; k++) if (raws[k] >= 0) { close(raws[k]); raws[k] = -1; }
	pump(5);
	for (int i = 0; i < NSVC; i++) if (svcs[i].alive) svc_destroy(i);
	for (int r = 0; r < 10; r++) {
		pump(3);
		for (int i = 0; i < MAXCM; i++) {
			struct cm *m = &cms[i];
			while (m->st != M_FREE && m->st != M_DESTROYED && m->app_refs > 0) app_unref(m);
		}
	}
	for (int i = 0; i < MAXCM; i++) {
		struct cm *m = &cms[i];
		if (m->st != M_FREE && m->st != M_DESTROYED)
			CHECK(0, "connection %p never destroyed: st %d refs %d pending %d", (void *)m->c, m->st, m->app_refs, m->closed_pending);
	}
	for (int i = 0; i < MAXPE; i++)
		CHECK(!pes[i].used, "fd %d still registered at the end (data %p)", pes[i].fd, pes[i].data);
	printf("seed %llu ops %ld violations %d (accept %ld created %ld msg %ld closed %ld rerun %ld destroyed %ld svc_destroy %ld cl_ok %ld send_ok %ld)\n", (unsigned long long)seed, opno, violations, n_accept, n_created, n_msg, n_closed, n_rerun, n_destroyed, n_svc_destroy, n_cl_ok, n_send_ok);
	return violations ? 1 : 0;
}
