/* C12 finding 1: FILTER_REMOVE / TAG_CLEAR wipe the routing of every existing
 * call site that matches the *arguments of the remove call*, whether or not a
 * filter was removed and whether or not other stored filters still select the
 * site.  Call sites first executed afterwards are evaluated against the
 * stored filters, so old and new call sites are routed differently. */
#include "common.h"
int main(void)
{
	int t;
	init();
	t = qb_log_custom_open(cb, NULL, NULL, NULL);
	qb_log_ctl(t, QB_LOG_CONF_ENABLED, QB_TRUE);

	puts("-- part A: removing a filter that is not stored");
	FADD(t, QB_LOG_FILTER_FILE, "*", LOG_DEBUG);
	logit("a.c", "f", 10, LOG_INFO, "hello");
	EXPECT("a.c:10 with FILE \"*\" stored", got[t], 1);
	EXPECT("REMOVE FILE \"a.c\" (never added) returns", FREM(t, QB_LOG_FILTER_FILE, "a.c", LOG_DEBUG), 0);
	logit("a.c", "f", 10, LOG_INFO, "hello");
	EXPECT("a.c:10 again, FILE \"*\" is still the stored filter", got[t], 1);
	logit("a.c", "f", 11, LOG_INFO, "hello");
	EXPECT("a.c:11, same file/prio/format, first executed now", got[t], 1);

	puts("-- part B: removing one of two filters that both select the site");
	FCLEAR(t);
	FADD(t, QB_LOG_FILTER_FILE, "b.c", LOG_DEBUG);
	FADD(t, QB_LOG_FILTER_FUNCTION, "g", LOG_DEBUG);
	logit("b.c", "g", 20, LOG_INFO, "hello");
	EXPECT("b.c:20 g() with FILE \"b.c\" + FUNCTION \"g\" stored", got[t], 1);
	FREM(t, QB_LOG_FILTER_FUNCTION, "g", LOG_DEBUG);
	logit("b.c", "g", 20, LOG_INFO, "hello");
	EXPECT("b.c:20 g() after removing FUNCTION \"g\" (FILE \"b.c\" remains)", got[t], 1);
	logit("b.c", "g", 21, LOG_INFO, "hello");
	EXPECT("b.c:21 g(), first executed now", got[t], 1);

	puts("-- part C: the same for tags");
	FCLEAR(t);
	FADD(t, QB_LOG_FILTER_FILE, "*", LOG_DEBUG);
	TSET(5, QB_LOG_FILTER_FILE, "*", LOG_DEBUG);
	TSET(7, QB_LOG_FILTER_FORMAT, "hello", LOG_DEBUG);
	logit("c.c", "h", 30, LOG_INFO, "hello");
	EXPECT("tag of c.c:30 with tag filters 5:FILE\"*\", 7:FORMAT\"hello\"", got_tag[t], 7);
	TCLR(QB_LOG_FILTER_FORMAT, "hello", LOG_DEBUG);
	logit("c.c", "h", 30, LOG_INFO, "hello");
	EXPECT("tag of c.c:30 after clearing the 7:FORMAT filter", got_tag[t], 5);
	logit("c.c", "h", 31, LOG_INFO, "hello");
	EXPECT("tag of c.c:31, first executed now", got_tag[t], 5);
	return finish();
}
