/*
 * C12 model-based randomized tester for libqb log routing.
 *
 * usage: fuzz <hazard-mask> <first-seed> <nseeds> <nops> [maxslots] [maxfail]
 *
 * Every seed produces a sequence of <nops> operations (target open/close/
 * enable/disable, filter add/remove/clear, tag set/clear, log calls from
 * arbitrary call sites).  The sequence is executed in a forked child against
 * the library and, in lock step, against a reference model:
 *
 *   a log call is delivered to slot t exactly once  iff  t is open and
 *   enabled and at least one filter currently stored for t selects the call
 *   site; the tag reported is the value of the last stored tag filter that
 *   selects the call site (0 if none).
 *
 * On a mismatch the sequence is delta-minimised (ddmin, same failure kind)
 * and printed.
 *
 * hazard-mask bits enable input classes that are (after the first round of
 * fuzzing) known to trip the library, so that the remaining space can be
 * explored without them:
 *   1    call sites with line number 0
 *   2    function name varies independently of (file,line,prio,format)
 *   4    FILTER_REMOVE while other filters are stored on the target
 *   8    FILTER_REMOVE / TAG_CLEAR of *_REGEX filters
 *   16   close a target without clearing its filters first (slot re-use)
 *   32   names longer than 498 characters
 *   64   qb_log_fini()/qb_log_init() cycles inside the sequence
 *   128  TAG_CLEAR while other tag filters are stored
 *   256  priorities above LOG_TRACE (9..255)
 *   512  log calls that pass an explicit tag
 */
#define _GNU_SOURCE
#include <stdio.h>
#include <stdlib.h>
#include <string.h>
#include <stdint.h>
#include <errno.h>
#include <regex.h>
#include <unistd.h>
#include <syslog.h>
#include <sys/wait.h>
#include <qb/qbdefs.h>
#include <qb/qblog.h>

#define H_LINE0    1
#define H_FUNCVAR  2
#define H_REMOVE   4
#define H_REGEXREM 8
#define H_REOPEN   16
#define H_LONG     32
#define H_REINIT   64
#define H_TCLR     128
#define H_BIGPRIO  256
#define H_XTAG     512

enum opk { O_OPEN, O_CLOSE, O_ENABLE, O_FADD, O_FREM, O_FCLEAR, O_TSET, O_TCLR,
	O_TCLRALL, O_LOG, O_REINIT };
static const char *opn[] = { "OPEN", "CLOSE", "ENABLE", "FADD", "FREM", "FCLEAR",
	"TSET", "TCLR", "TCLRALL", "LOG", "REINIT" };
static const char *ftn[] = { "FILE", "FUNCTION", "FORMAT", "FILE_REGEX",
	"FUNCTION_REGEX", "FORMAT_REGEX" };

struct op {
	int k;
	int slot;		/* target slot / tag value */
	int on;
	int ftype;
	const char *text;
	int hi, lo;
	const char *file, *func, *fmt;
	int line, prio, xtag;
};

/* ------------------------------------------------------------------ model */
#define MAXF 64
struct mfilter { int type; const char *text; int hi, lo, val; };
struct mflist { struct mfilter f[MAXF]; int n; };
struct model {
	int open[32], enabled[32];
	struct mflist fl[32];
	struct mflist tags;
};

static int alt_match(const char *text, const char *name)
{
	const char *p = text;
	size_t nl = strlen(name);
	for (;;) {
		const char *e = strchr(p, ',');
		size_t l = e ? (size_t) (e - p) : strlen(p);
		if (l == nl && memcmp(p, name, l) == 0)
			return 1;
		if (!e)
			return 0;
		p = e + 1;
	}
}

static int rx_match(const char *re, const char *s)
{
	regex_t r;
	int m;
	if (regcomp(&r, re, 0) != 0)
		return 0;
	m = regexec(&r, s, 0, NULL, 0) == 0;
	regfree(&r);
	return m;
}

static int rx_valid(const char *re)
{
	regex_t r;
	if (regcomp(&r, re, 0) != 0)
		return 0;
	regfree(&r);
	return 1;
}

static int f_selects(const struct mfilter *f, const struct op *c)
{
	const char *file = c->file ? c->file : "";
	const char *func = c->func ? c->func : "";
	const char *fmt = c->fmt ? c->fmt : "";
	if (c->prio < f->hi || c->prio > f->lo)
		return 0;
	if (strcmp(f->text, "*") == 0)
		return 1;
	switch (f->type) {
	case QB_LOG_FILTER_FILE: return alt_match(f->text, file);
	case QB_LOG_FILTER_FUNCTION: return alt_match(f->text, func);
	case QB_LOG_FILTER_FORMAT: return strstr(fmt, f->text) != NULL;
	case QB_LOG_FILTER_FILE_REGEX: return rx_match(f->text, file);
	case QB_LOG_FILTER_FUNCTION_REGEX: return rx_match(f->text, func);
	case QB_LOG_FILTER_FORMAT_REGEX: return rx_match(f->text, fmt);
	}
	return 0;
}

static int is_regex(int t) { return t >= QB_LOG_FILTER_FILE_REGEX; }

static int fl_add(struct mflist *l, const struct op *o, int val)
{
	int i;
	for (i = 0; i < l->n; i++)
		if (l->f[i].type == o->ftype && l->f[i].hi == o->hi &&
		    l->f[i].lo == o->lo && l->f[i].val == val &&
		    strcmp(l->f[i].text, o->text) == 0)
			return -EEXIST;
	if (is_regex(o->ftype) && !rx_valid(o->text))
		return -EINVAL;
	if (l->n == MAXF)
		abort();
	l->f[l->n].type = o->ftype;
	l->f[l->n].text = o->text;
	l->f[l->n].hi = o->hi;
	l->f[l->n].lo = o->lo;
	l->f[l->n].val = val;
	l->n++;
	return 0;
}

/* which stored filter a REMOVE names: the library's own rule (first one of
 * the same type whose window lies inside the given one and whose text is
 * equal, or any text when "*" is given) */
static int fl_rem(struct mflist *l, const struct op *o)
{
	int i;
	for (i = 0; i < l->n; i++)
		if (l->f[i].type == o->ftype && l->f[i].lo <= o->lo &&
		    l->f[i].hi >= o->hi && (strcmp(l->f[i].text, o->text) == 0
					   || strcmp(o->text, "*") == 0)) {
			memmove(&l->f[i], &l->f[i + 1],
				(l->n - i - 1) * sizeof(l->f[0]));
			l->n--;
			return 0;
		}
	return 0;
}

static int m_lowest_free(struct model *m)
{
	int i;
	for (i = 0; i < 32; i++)
		if (!m->open[i])
			return i;
	return -1;
}

static void m_reset(struct model *m)
{
	int i;
	memset(m, 0, sizeof(*m));
	for (i = 0; i < QB_LOG_TARGET_STATIC_MAX; i++)
		m->open[i] = 1;	/* static, disabled, never touched */
}

/* returns expected rc; for O_LOG fills exp[] (deliveries) and *etag */
static int m_apply(struct model *m, const struct op *o, int *exp, int *etag)
{
	int i, s = o->slot;
	switch (o->k) {
	case O_OPEN:
		s = m_lowest_free(m);
		if (s < 0)
			return -EMFILE;
		m->open[s] = 1;
		m->enabled[s] = 0;
		m->fl[s].n = 0;
		return s;
	case O_CLOSE:
		if (s >= QB_LOG_TARGET_STATIC_MAX && m->open[s]) {
			m->open[s] = 0;
			m->enabled[s] = 0;
			m->fl[s].n = 0;
		}
		return 0;
	case O_ENABLE:
		if (!m->open[s])
			return -EBADF;
		m->enabled[s] = o->on;
		return 0;
	case O_FADD:
	case O_FREM:
	case O_FCLEAR:
		if (!m->open[s])
			return -EBADF;
		if (o->lo < o->hi)
			return -EINVAL;
		if (o->k == O_FADD)
			return fl_add(&m->fl[s], o, s);
		if (o->k == O_FREM)
			return fl_rem(&m->fl[s], o);
		m->fl[s].n = 0;
		return 0;
	case O_TSET:
	case O_TCLR:
	case O_TCLRALL:
		if (o->lo < o->hi)
			return -EINVAL;
		if (o->k == O_TSET)
			return fl_add(&m->tags, o, s);
		if (o->k == O_TCLR)
			return fl_rem(&m->tags, o);
		m->tags.n = 0;
		return 0;
	case O_REINIT:
		m_reset(m);
		return 0;
	case O_LOG:
		for (s = 0; s < 32; s++) {
			exp[s] = 0;
			if (s < QB_LOG_TARGET_STATIC_MAX || !m->open[s]
			    || !m->enabled[s])
				continue;
			for (i = 0; i < m->fl[s].n; i++)
				if (f_selects(&m->fl[s].f[i], o)) {
					exp[s] = 1;
					break;
				}
		}
		*etag = o->xtag;
		if (o->xtag == 0)
			for (i = 0; i < m->tags.n; i++)
				if (f_selects(&m->tags.f[i], o))
					*etag = m->tags.f[i].val;
		return 0;
	}
	return 0;
}


/* ---------------------------------------------------------------- emulation
 * A second oracle (hazard bit 0x1000): not what the property promises but a
 * re-implementation of what the library is understood to do, including the
 * defects found.  If the library agrees with it on every input class, the
 * list of defects explains all divergences from the ideal model.           */
struct ecs { const char *file, *func, *fmt; int line, prio; uint32_t targets, tags; };
#define MAXCS 4096
static struct ecs ecs[MAXCS];
static int necs;
static struct model em;

static int e_match(int type, const char *text, int hi, int lo, int have_regex,
		   const struct ecs *c)
{
	if (c->prio > lo || c->prio < hi)
		return 0;
	if (strcmp(text, "*") == 0)
		return 1;
	if (type == QB_LOG_FILTER_FILE || type == QB_LOG_FILTER_FUNCTION) {
		const char *name = type == QB_LOG_FILTER_FILE ? c->file : c->func;
		const char *p = text;
		for (;;) {
			char token[500];
			const char *e = strchrnul(p, ',');
			snprintf(token, 499, "%.*s", (int)(e - p), p);
			if (strcmp(name, token) == 0)
				return 1;
			if (*e == 0 || e[1] == 0)
				return 0;
			p = e + 1;
		}
	}
	if (type == QB_LOG_FILTER_FORMAT)
		return strstr(c->fmt, text) != NULL;
	if (!have_regex)
		return 0;
	return rx_match(text, type == QB_LOG_FILTER_FILE_REGEX ? c->file :
			type == QB_LOG_FILTER_FUNCTION_REGEX ? c->func : c->fmt);
}

static void e_reset(void)
{
	m_reset(&em);
	necs = 0;
}

static int e_apply(const struct op *o, int *exp, int *etag)
{
	int i, j, s = o->slot, rc;
	struct ecs *c;
	switch (o->k) {
	case O_OPEN:
		s = m_lowest_free(&em);
		if (s < 0)
			return -EMFILE;
		em.open[s] = 1;		/* filter list and bits are inherited */
		em.enabled[s] = 0;
		return s;
	case O_CLOSE:
		if (s >= QB_LOG_TARGET_STATIC_MAX && em.open[s])
			em.open[s] = em.enabled[s] = 0;
		return 0;
	case O_ENABLE:
		if (!em.open[s])
			return -EBADF;
		em.enabled[s] = o->on;
		return 0;
	case O_FADD: case O_FREM: case O_FCLEAR:
		if (!em.open[s])
			return -EBADF;
		/* fallthrough */
	case O_TSET: case O_TCLR: case O_TCLRALL:
		if (o->lo < o->hi)
			return -EINVAL;
		if (o->k == O_FADD || o->k == O_TSET) {
			rc = fl_add(o->k == O_FADD ? &em.fl[s] : &em.tags, o, s);
			if (rc)
				return rc;
		} else if (o->k == O_FREM || o->k == O_TCLR)
			fl_rem(o->k == O_FREM ? &em.fl[s] : &em.tags, o);
		else if (o->k == O_FCLEAR)
			em.fl[s].n = 0;
		else
			em.tags.n = 0;
		for (i = 0; i < necs; i++) {
			c = &ecs[i];
			if (c->line == 0)
				continue;
			if (o->k == O_FCLEAR) { c->targets &= ~(1U << s); continue; }
			if (o->k == O_TCLRALL) { c->tags = 0; continue; }
			if (!e_match(o->ftype, o->text, o->hi, o->lo,
				     o->k == O_FADD || o->k == O_TSET, c))
				continue;
			if (o->k == O_FADD) c->targets |= 1U << s;
			else if (o->k == O_FREM) c->targets &= ~(1U << s);
			else if (o->k == O_TSET) c->tags = (uint32_t) s;
			else c->tags = 0;
		}
		return 0;
	case O_REINIT:
		e_reset();
		return 0;
	case O_LOG: {
		const char *file = o->file ? o->file : "";
		const char *fmt = o->fmt ? o->fmt : "";
		c = NULL;
		for (i = 0; i < necs; i++)
			if (ecs[i].line == o->line && ecs[i].prio == o->prio &&
			    !strcmp(ecs[i].file, file) && !strcmp(ecs[i].fmt, fmt)) {
				c = &ecs[i];
				break;
			}
		if (c) {
			if (o->xtag && c->tags != (uint32_t) o->xtag)
				c->tags = (uint32_t) o->xtag;
		} else {
			if (necs == MAXCS) abort();
			c = &ecs[necs++];
			c->file = file; c->fmt = fmt;
			c->func = o->func ? o->func : "";
			c->line = o->line; c->prio = o->prio;
			c->targets = 0; c->tags = (uint32_t) o->xtag;
			for (s = 0; s < 32; s++) {
				if (!em.open[s])
					continue;
				for (j = 0; j < em.fl[s].n; j++) {
					struct mfilter *f = &em.fl[s].f[j];
					if (e_match(f->type, f->text, f->hi, f->lo, 1, c))
						c->targets |= 1U << s;
				}
			}
			if (o->xtag == 0)
				for (j = 0; j < em.tags.n; j++) {
					struct mfilter *f = &em.tags.f[j];
					if (e_match(f->type, f->text, f->hi, f->lo, 1, c))
						c->tags = (uint32_t) f->val;
				}
		}
		for (s = 0; s < 32; s++)
			exp[s] = s >= QB_LOG_TARGET_STATIC_MAX && em.open[s] &&
				em.enabled[s] && (c->targets & (1U << s)) ? 1 : 0;
		*etag = (int) c->tags;
		return 0;
	}
	}
	return 0;
}
static int use_emu;

/* -------------------------------------------------------------- execution */
static int got[32];
static uint32_t got_tag[32];
static struct qb_log_callsite *got_cs;

static void cb_log(int32_t t, struct qb_log_callsite *cs, struct timespec *ts,
		   const char *msg)
{
	(void)ts; (void)msg;
	got[t]++;
	got_tag[t] = cs->tags;
	got_cs = cs;
}
static void cb_close(int32_t t) { (void)t; }
static void cb_reload(int32_t t) { (void)t; }

static void print_op(FILE *f, int i, const struct op *o)
{
	fprintf(f, "  %3d %-7s", i, opn[o->k]);
	switch (o->k) {
	case O_CLOSE: case O_FCLEAR: fprintf(f, " slot=%d", o->slot); break;
	case O_ENABLE: fprintf(f, " slot=%d on=%d", o->slot, o->on); break;
	case O_FADD: case O_FREM:
		fprintf(f, " slot=%d %s \"%.60s\"%s prio[%d..%d]", o->slot,
			ftn[o->ftype], o->text, strlen(o->text) > 60 ? "..." : "",
			o->hi, o->lo);
		break;
	case O_TSET: case O_TCLR:
		fprintf(f, " tag=%d %s \"%.60s\"%s prio[%d..%d]", o->slot,
			ftn[o->ftype], o->text, strlen(o->text) > 60 ? "..." : "",
			o->hi, o->lo);
		break;
	case O_LOG:
		fprintf(f, " file=\"%.40s\"%s func=\"%.40s\" line=%d prio=%d fmt=\"%s\" tag=%d",
			o->file ? o->file : "(null)",
			o->file && strlen(o->file) > 40 ? "..." : "",
			o->func ? o->func : "(null)", o->line, o->prio,
			o->fmt ? o->fmt : "(null)", o->xtag);
		break;
	}
	fprintf(f, "\n");
}

static void lib_init(void)
{
	qb_log_init("fuzzC12", LOG_USER, LOG_INFO);
	qb_log_ctl(QB_LOG_SYSLOG, QB_LOG_CONF_ENABLED, QB_FALSE);
	qb_log_filter_ctl(QB_LOG_SYSLOG, QB_LOG_FILTER_CLEAR_ALL,
			  QB_LOG_FILTER_FILE, "*", LOG_TRACE);
}

#define FAIL(code, ...) do { if (verbose) { fprintf(stderr, "VIOLATION at op %d: ", i); \
	fprintf(stderr, __VA_ARGS__); fprintf(stderr, "\n"); } return code; } while (0)

static int run_ops(const struct op *ops, int n, int verbose)
{
	static struct model m;
	int exp[32], etag = 0, i, s, rc, erc;

	m_reset(&m);
	e_reset();
	lib_init();
	for (i = 0; i < n; i++) {
		const struct op *o = &ops[i];
		erc = use_emu ? e_apply(o, exp, &etag) : m_apply(&m, o, exp, &etag);
		switch (o->k) {
		case O_OPEN:
			rc = qb_log_custom_open(cb_log, cb_close, cb_reload, NULL);
			break;
		case O_CLOSE:
			qb_log_custom_close(o->slot);
			rc = 0;
			break;
		case O_ENABLE:
			rc = qb_log_ctl(o->slot, QB_LOG_CONF_ENABLED, o->on);
			break;
		case O_FADD:
			rc = qb_log_filter_ctl2(o->slot, QB_LOG_FILTER_ADD, o->ftype,
						o->text, o->hi, o->lo);
			break;
		case O_FREM:
			rc = qb_log_filter_ctl2(o->slot, QB_LOG_FILTER_REMOVE, o->ftype,
						o->text, o->hi, o->lo);
			break;
		case O_FCLEAR:
			rc = qb_log_filter_ctl2(o->slot, QB_LOG_FILTER_CLEAR_ALL,
						o->ftype, o->text, o->hi, o->lo);
			break;
		case O_TSET:
			rc = qb_log_filter_ctl2(o->slot, QB_LOG_TAG_SET, o->ftype,
						o->text, o->hi, o->lo);
			break;
		case O_TCLR:
			rc = qb_log_filter_ctl2(o->slot, QB_LOG_TAG_CLEAR, o->ftype,
						o->text, o->hi, o->lo);
			break;
		case O_TCLRALL:
			rc = qb_log_filter_ctl2(o->slot, QB_LOG_TAG_CLEAR_ALL, o->ftype,
						o->text, o->hi, o->lo);
			break;
		case O_REINIT:
			qb_log_fini();
			lib_init();
			rc = 0;
			break;
		case O_LOG:
			memset(got, 0, sizeof(got));
			got_cs = NULL;
			qb_log_from_external_source(o->func, o->file, o->fmt, o->prio,
						    o->line, o->xtag, i);
			rc = 0;
			for (s = 0; s < 32; s++) {
				if (got[s] > 1)
					FAIL(13, "slot %d got the message %d times", s, got[s]);
				if (exp[s] && !got[s])
					FAIL(11, "slot %d selected+enabled but got nothing", s);
				if (!exp[s] && got[s])
					FAIL(12, "slot %d got a message it must not get", s);
				if (got[s] && (int)got_tag[s] != etag)
					FAIL(14, "slot %d: tag %u reported, expected %d",
					     s, got_tag[s], etag);
			}
			if (got_cs) {
				if ((!use_emu && strcmp(got_cs->function, o->func ? o->func : "")) ||
				    strcmp(got_cs->filename, o->file ? o->file : "") ||
				    strcmp(got_cs->format, o->fmt ? o->fmt : "") ||
				    got_cs->priority != o->prio ||
				    (int)got_cs->lineno != o->line)
					FAIL(15, "call site reported (%s,%s,%u,%u) differs from call",
					     got_cs->filename, got_cs->function,
					     got_cs->lineno, got_cs->priority);
			}
			break;
		default:
			abort();
		}
		if (rc != erc)
			FAIL(10, "%s returned %d, model expects %d", opn[o->k], rc, erc);
	}
	qb_log_fini();
	return 0;
}

static int run_forked(const struct op *ops, int n, int verbose)
{
	int st;
	pid_t p;
	fflush(NULL);
	p = fork();
	if (p == 0) {
		if (!verbose) {
			/* silence sanitizer/assert output during minimisation */
			if (!freopen("/dev/null", "w", stderr)) _exit(99);
		}
		_exit(run_ops(ops, n, verbose));
	}
	waitpid(p, &st, 0);
	if (WIFEXITED(st))
		return WEXITSTATUS(st);
	return 100 + WTERMSIG(st);
}

/* ------------------------------------------------------------- generation */
static uint64_t rs;
static uint32_t rnd(void)
{
	rs ^= rs << 13; rs ^= rs >> 7; rs ^= rs << 17;
	return (uint32_t) (rs >> 11);
}
static int rn(int n) { return (int)(rnd() % (uint32_t) n); }
#define PICK(a) ((a)[rn((int)(sizeof(a) / sizeof((a)[0])))])

static char longA[700], longB[700], longAB[1500];
static const char *files[] = { "a.c", "b.c", "ab.c", "dir/a.c", "x", NULL, "a.c" };
static const char *funcs[] = { "f", "g", "fg", "main", NULL, "f" };
static const char *fmts[] = { "hello %d", "ring %d buffer", "ringbuffer", "%d", "x", NULL };
static const char *t_name[] = { "a.c", "b.c", "ab.c", "dir/a.c", "x", "", "*",
	"a.c,b.c", "zz,ab.c", "a.c,nope", "a", "c", "f", "g", "fg", "main", "f,g",
	"zz,main", "nope" };
static const char *t_fmt[] = { "ring", "%d", "hello", "buffer", "", "*", "zz",
	"g %d b", "x", "ringbuffer" };
static const char *t_re[] = { "^a", "a\\.c$", ".*", "b", "^$", "[", "\\(", "x*",
	"^ring.*buffer$", "*", "f\\|g", "^.$", "^f", "main", "c$", "%d", "^h" };
static const int lines[] = { 1, 2, 3, 4, 5, 6, 7, 15, 16, 17, 31, 32, 33, 255,
	256, 1000, 4095, 4096, 65535 };

static unsigned shash(const char *s)
{
	unsigned h = 5381;
	if (s) while (*s) h = h * 33 + (unsigned char)*s++;
	return h;
}

static void gen_filter_args(struct op *o, int haz)
{
	int r = rn(100);
	o->ftype = r < 30 ? QB_LOG_FILTER_FILE : r < 50 ? QB_LOG_FILTER_FUNCTION :
		r < 65 ? QB_LOG_FILTER_FORMAT : QB_LOG_FILTER_FILE_REGEX + rn(3);
	if (o->ftype <= QB_LOG_FILTER_FUNCTION) {
		o->text = PICK(t_name);
		if ((haz & H_LONG) && rn(4) == 0)
			o->text = rn(3) == 0 ? longAB : rn(2) ? longA : longB;
	} else if (o->ftype == QB_LOG_FILTER_FORMAT)
		o->text = PICK(t_fmt);
	else
		o->text = PICK(t_re);
	o->hi = rn(3) ? 0 : rn(9);
	o->lo = rn(3) == 0 ? 8 : rn(9);
	if (o->lo < o->hi && rn(8)) {
		int t = o->lo; o->lo = o->hi; o->hi = t;
	}
	if ((haz & H_BIGPRIO) && rn(6) == 0)
		o->lo = rn(2) ? 255 : 9 + rn(200);
}

static int gen(struct op *ops, int nops, int haz, int maxslots)
{
	static struct model g;
	int n = 0, exp[32], etag;
	m_reset(&g);
	while (n < nops) {
		struct op o;
		int r = rn(100), i, nopen = 0, sl;
		memset(&o, 0, sizeof(o));
		o.text = "*";
		o.lo = 8;
		for (i = QB_LOG_TARGET_STATIC_MAX; i < 32; i++)
			nopen += g.open[i];
		sl = QB_LOG_TARGET_STATIC_MAX + rn(maxslots);
		if (sl > 31) sl = 31;
		o.slot = sl;
		if (r < 6) {
			if (nopen >= maxslots && maxslots < 28)
				continue;
			o.k = O_OPEN;
		} else if (r < 9) {
			if (!(haz & H_REOPEN) && g.open[sl]) {
				struct op c = o;
				c.k = O_FCLEAR;
				m_apply(&g, &c, exp, &etag);
				ops[n++] = c;
				if (n == nops) break;
			}
			o.k = O_CLOSE;
		} else if (r < 19) {
			o.k = O_ENABLE;
			o.on = rn(3) != 0;
		} else if (r < 34) {
			o.k = O_FADD;
			gen_filter_args(&o, haz);
			if (g.open[sl] && g.fl[sl].n >= MAXF - 1)
				continue;
		} else if (r < 41) {
			struct mflist *l = &g.fl[sl];
			o.k = O_FREM;
			if (!(haz & H_REMOVE)) {
				if (l->n != 1) continue;
			}
			if (l->n && rn(10) < 8) {
				struct mfilter *f = &l->f[rn(l->n)];
				o.ftype = f->type; o.text = f->text;
				o.hi = f->hi; o.lo = f->lo;
			} else {
				if (!(haz & H_REMOVE)) continue;
				gen_filter_args(&o, haz);
			}
			if (is_regex(o.ftype) && !(haz & H_REGEXREM))
				continue;
		} else if (r < 44) {
			o.k = O_FCLEAR;
			o.ftype = rn(6);
			o.text = rn(2) ? "*" : PICK(t_name);
			o.hi = 0; o.lo = rn(9);
		} else if (r < 50) {
			o.k = O_TSET;
			gen_filter_args(&o, haz);
			o.slot = 1 + rn(5);
			if (g.tags.n >= MAXF - 1)
				continue;
		} else if (r < 53) {
			struct mflist *l = &g.tags;
			o.k = O_TCLR;
			o.slot = rn(6);
			if (!(haz & H_TCLR)) {
				if (l->n != 1) continue;
			}
			if (l->n && rn(10) < 8) {
				struct mfilter *f = &l->f[rn(l->n)];
				o.ftype = f->type; o.text = f->text;
				o.hi = f->hi; o.lo = f->lo;
			} else {
				if (!(haz & H_TCLR)) continue;
				gen_filter_args(&o, haz);
			}
			if (is_regex(o.ftype) && !(haz & H_REGEXREM))
				continue;
		} else if (r < 54) {
			o.k = O_TCLRALL;
			o.slot = rn(6);
			o.ftype = rn(6);
			o.hi = 0; o.lo = rn(9);
		} else if (r < 55 && (haz & H_REINIT)) {
			if (rn(4)) continue;
			o.k = O_REINIT;
		} else {
			o.k = O_LOG;
			o.file = PICK(files);
			o.fmt = PICK(fmts);
			o.line = PICK(lines);
			if ((haz & H_LINE0) && rn(5) == 0)
				o.line = 0;
			o.prio = rn(9);
			if ((haz & H_BIGPRIO) && rn(6) == 0)
				o.prio = rn(2) ? 255 : 9 + rn(200);
			if ((haz & H_LONG) && rn(4) == 0)
				o.file = rn(2) ? longA : longB;
			if (haz & H_FUNCVAR)
				o.func = PICK(funcs);
			else
				o.func = funcs[(shash(o.file) + (unsigned)o.line) %
					       (sizeof(funcs) / sizeof(funcs[0]))];
			if ((haz & H_LONG) && !(haz & H_FUNCVAR) &&
			    (shash(o.file) + (unsigned)o.line) % 4 == 0)
				o.func = (shash(o.file) + (unsigned)o.line) & 4 ? longA : longB;
			if ((haz & H_XTAG) && rn(4) == 0)
				o.xtag = 1 + rn(3);
		}
		m_apply(&g, &o, exp, &etag);
		ops[n++] = o;
	}
	return n;
}

/* ------------------------------------------------------------------ ddmin */
static int ddmin(struct op *ops, int n, int code)
{
	int gran = 2;
	struct op *tmp = malloc(sizeof(*ops) * (size_t) n);
	while (n >= 2) {
		int chunk = (n + gran - 1) / gran, reduced = 0, start;
		for (start = 0; start < n; start += chunk) {
			int len = start + chunk > n ? n - start : chunk;
			int m = 0, i;
			for (i = 0; i < n; i++)
				if (i < start || i >= start + len)
					tmp[m++] = ops[i];
			if (m > 0 && run_forked(tmp, m, 0) == code) {
				memcpy(ops, tmp, sizeof(*ops) * (size_t) m);
				n = m;
				gran = gran > 2 ? gran - 1 : 2;
				reduced = 1;
				break;
			}
		}
		if (!reduced) {
			if (gran >= n)
				break;
			gran = gran * 2 > n ? n : gran * 2;
		}
	}
	free(tmp);
	return n;
}

int main(int argc, char **argv)
{
	int haz, nseeds, nops, maxslots = 4, maxfail = 3, s, nfail = 0;
	long seed0, total = 0;
	struct op *ops;

	if (argc < 5) {
		fprintf(stderr, "usage: %s hazmask seed0 nseeds nops [maxslots] [maxfail]\n", argv[0]);
		return 2;
	}
	haz = (int) strtol(argv[1], NULL, 0);
	use_emu = !!(haz & 0x1000);
	seed0 = atol(argv[2]);
	nseeds = atoi(argv[3]);
	nops = atoi(argv[4]);
	if (argc > 5) maxslots = atoi(argv[5]);
	if (argc > 6) maxfail = atoi(argv[6]);

	memset(longA, 'L', 600); memcpy(longA + 600, ".c", 3);
	memset(longB, 'L', 600); memcpy(longB + 600, ".h", 3);
	snprintf(longAB, sizeof(longAB), "nope,%s", longA);

	ops = calloc((size_t) nops + 2, sizeof(*ops));
	for (s = 0; s < nseeds; s++) {
		int n, code, i;
		rs = 0x9E3779B97F4A7C15ULL ^ ((uint64_t) (seed0 + s) * 0xD1B54A32D192ED03ULL);
		rnd(); rnd();
		n = gen(ops, nops, haz, maxslots);
		total += n;
		code = run_forked(ops, n, 0);
		if (code == 0)
			continue;
		printf("seed %ld: failure kind %d after generation of %d ops; minimising\n",
		       seed0 + s, code, n);
		n = ddmin(ops, n, code);
		printf("seed %ld: minimised to %d ops (kind %d):\n", seed0 + s, n, code);
		for (i = 0; i < n; i++)
			print_op(stdout, i, &ops[i]);
		fflush(stdout);
		run_forked(ops, n, 1);
		if (++nfail >= maxfail)
			break;
	}
	printf("haz=0x%x maxslots=%d: %d seeds, %ld operations, %d failing seeds\n",
	       haz, maxslots, s < nseeds ? s + 1 : nseeds, total, nfail);
	return nfail ? 1 : 0;
}
