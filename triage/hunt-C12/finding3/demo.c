/* C12 finding 3: a call site whose line number is 0 is frozen at the routing
 * it had when it was first executed: _log_filter_apply() skips every call
 * site with lineno == 0 ("unused array element"), so later filter add /
 * remove / clear-all and tag set / clear never reach it. */
#include "common.h"
int main(void)
{
	int t;
	init();
	/* both sites are executed once before any target exists */
	logit("x.c", "f", 0, LOG_INFO, "hello");
	logit("x.c", "f", 1, LOG_INFO, "hello");

	t = qb_log_custom_open(cb, NULL, NULL, NULL);
	qb_log_ctl(t, QB_LOG_CONF_ENABLED, QB_TRUE);
	FADD(t, QB_LOG_FILTER_FILE, "*", LOG_DEBUG);
	TSET(5, QB_LOG_FILTER_FILE, "*", LOG_DEBUG);
	logit("x.c", "f", 1, LOG_INFO, "hello");
	EXPECT("x.c:1 (executed before the filter was added)", got[t], 1);
	EXPECT("   its tag", got_tag[t], 5);
	logit("x.c", "f", 0, LOG_INFO, "hello");
	EXPECT("x.c:0 (executed before the filter was added)", got[t], 1);

	puts("-- the other direction: clear-all does not reach it either");
	logit("y.c", "f", 0, LOG_INFO, "hello");
	EXPECT("y.c:0 first executed with FILE \"*\" stored", got[t], 1);
	EXPECT("   its tag", got_tag[t], 5);
	FCLEAR(t);
	TCLRALL();
	logit("y.c", "f", 0, LOG_INFO, "hello");
	EXPECT("y.c:0 after FILTER_CLEAR_ALL", got[t], 0);
	logit("y.c", "f", 2, LOG_INFO, "hello");
	EXPECT("y.c:2 after FILTER_CLEAR_ALL (control)", got[t], 0);
	return finish();
}
