#!/bin/sh
# usage: build.sh [tree]   (default /repo) -- builds ./fuzz with ASan+UBSan,
# compiling the log code (and what it sits on) from the tree's sources.
T=${1:-/repo}
cd "$(dirname "$0")" || exit 1
SRC="$T/lib/log.c $T/lib/log_dcs.c $T/lib/log_file.c $T/lib/log_format.c $T/lib/log_syslog.c $T/lib/log_thread.c $T/lib/log_blackbox.c $T/lib/array.c $T/lib/util.c $T/lib/ringbuffer.c $T/lib/ringbuffer_helper.c $T/lib/unix.c $T/lib/strlcpy.c $T/lib/strlcat.c"
gcc -g -O1 -fno-omit-frame-pointer -fsanitize=address,undefined -fno-sanitize-recover=undefined \
    -DHAVE_CONFIG_H -I"$T/include" -I"$T/include/qb" -I"$T/lib" \
    -Wno-format-security -o fuzz fuzz.c $SRC \
    -L"$T/lib/.libs" -lqb -lpthread -ldl || exit 1
echo "built ./fuzz  (run with LD_LIBRARY_PATH=$T/lib/.libs)"
