/* C12 finding 2: removing a *_REGEX filter (or clearing a *_REGEX tag filter)
 * takes it off the stored list but leaves every already-known call site
 * selected/tagged: qb_log_filter_ctl2() passes regex=NULL to
 * _log_filter_apply() for REMOVE and _cs_matches_filter_() answers "no match"
 * for a NULL regex, so no bit is ever cleared. */
#include "common.h"
int main(void)
{
	int t;
	init();
	t = qb_log_custom_open(cb, NULL, NULL, NULL);
	qb_log_ctl(t, QB_LOG_CONF_ENABLED, QB_TRUE);

	FADD(t, QB_LOG_FILTER_FILE_REGEX, "^a", LOG_DEBUG);
	logit("a.c", "f", 10, LOG_INFO, "hello");
	EXPECT("a.c:10 with FILE_REGEX \"^a\" stored", got[t], 1);
	EXPECT("REMOVE FILE_REGEX \"^a\" returns", FREM(t, QB_LOG_FILTER_FILE_REGEX, "^a", LOG_DEBUG), 0);
	logit("a.c", "f", 10, LOG_INFO, "hello");
	EXPECT("a.c:10 after the only filter was removed", got[t], 0);
	logit("a.c", "f", 11, LOG_INFO, "hello");
	EXPECT("a.c:11, first executed now", got[t], 0);
	EXPECT("re-adding the filter returns (it really was removed)", FADD(t, QB_LOG_FILTER_FILE_REGEX, "^a", LOG_DEBUG), 0);

	puts("-- tags");
	FCLEAR(t);
	FADD(t, QB_LOG_FILTER_FILE, "*", LOG_DEBUG);
	TSET(5, QB_LOG_FILTER_FORMAT_REGEX, "^h", LOG_DEBUG);
	logit("b.c", "f", 20, LOG_INFO, "hello");
	EXPECT("tag of b.c:20 with tag filter 5:FORMAT_REGEX \"^h\"", got_tag[t], 5);
	TCLR(QB_LOG_FILTER_FORMAT_REGEX, "^h", LOG_DEBUG);
	logit("b.c", "f", 20, LOG_INFO, "hello");
	EXPECT("tag of b.c:20 after clearing that tag filter", got_tag[t], 0);
	logit("b.c", "f", 21, LOG_INFO, "hello");
	EXPECT("tag of b.c:21, first executed now", got_tag[t], 0);
	return finish();
}
