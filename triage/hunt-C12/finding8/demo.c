/* C12 finding 8: once the logging thread runs, the routing of a message to
 * THREADED targets is not decided when the log call is made but when the
 * worker thread gets round to the queued record
 * (qb_log_thread_log_write re-reads state / threaded / cs->targets).
 * Whatever is changed in between is applied retroactively:
 *   A. log, then disable the target (or drop its filter): message lost
 *   B. a non-threaded target that already got the message in-line and is
 *      switched to threaded gets it a second time
 *   C. a threaded target that was disabled when the call was made, enabled
 *      just after, receives the message.
 * To make the interleaving deterministic the process is pinned to one CPU and
 * the logging thread is given SCHED_IDLE through the public
 * qb_log_thread_priority_set(); the worker then only runs when the main
 * thread sleeps.  Without this the same happens as a race (see NOTES). */
#include "common.h"
#include <sched.h>
#define N 20
int main(void)
{
	int a, b, i, n;
	cpu_set_t s;
	CPU_ZERO(&s);
	CPU_SET(sched_getcpu(), &s);
	sched_setaffinity(0, sizeof s, &s);

	init();
	a = qb_log_custom_open(cb, NULL, NULL, NULL);
	b = qb_log_custom_open(cb, NULL, NULL, NULL);
	FADD(a, QB_LOG_FILTER_FILE, "*", LOG_DEBUG);
	FADD(b, QB_LOG_FILTER_FILE, "*", LOG_DEBUG);
	qb_log_ctl(a, QB_LOG_CONF_THREADED, QB_TRUE);
	qb_log_ctl(a, QB_LOG_CONF_ENABLED, QB_TRUE);
	qb_log_thread_priority_set(SCHED_IDLE, 0);
	if (qb_log_thread_start() != 0) {
		puts("cannot start the logging thread");
		return 99;
	}

	for (n = 0, i = 0; i < N; i++) {
		logit("t.c", "f", 10, LOG_INFO, "hello");	/* A enabled + selected */
		qb_log_ctl(a, QB_LOG_CONF_ENABLED, QB_FALSE);
		usleep(5000);					/* worker drains the queue */
		n += got[a];
		qb_log_ctl(a, QB_LOG_CONF_ENABLED, QB_TRUE);
	}
	EXPECT("A: 20 calls, target disabled right after each: deliveries", n, N);

	for (n = 0, i = 0; i < N; i++) {
		logit("t.c", "f", 10, LOG_INFO, "hello");
		FCLEAR(a);
		usleep(5000);
		n += got[a];
		FADD(a, QB_LOG_FILTER_FILE, "*", LOG_DEBUG);
	}
	EXPECT("A': 20 calls, filters cleared right after each: deliveries", n, N);

	for (n = 0, i = 0; i < N; i++) {
		qb_log_ctl(b, QB_LOG_CONF_THREADED, QB_FALSE);
		qb_log_ctl(b, QB_LOG_CONF_ENABLED, QB_TRUE);
		logit("t.c", "f", 10, LOG_INFO, "hello");	/* b gets it in-line */
		qb_log_ctl(b, QB_LOG_CONF_THREADED, QB_TRUE);
		usleep(5000);
		n += got[b];
	}
	EXPECT("B: 20 calls, target b made threaded right after each: deliveries to b", n, N);

	qb_log_ctl(b, QB_LOG_CONF_THREADED, QB_TRUE);
	for (n = 0, i = 0; i < N; i++) {
		qb_log_ctl(b, QB_LOG_CONF_ENABLED, QB_FALSE);
		logit("t.c", "f", 10, LOG_INFO, "hello");	/* b is disabled now */
		qb_log_ctl(b, QB_LOG_CONF_ENABLED, QB_TRUE);
		usleep(5000);
		n += got[b];
	}
	EXPECT("C: 20 calls made while b was disabled: deliveries to b", n, 0);
	return finish();
}
