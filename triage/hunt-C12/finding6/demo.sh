#!/bin/sh
# usage: demo.sh <tree>    exit 0 = property held, 1 = violated, 99 = build problem
T=${1:-/repo}
D=$(cd "$(dirname "$0")" && pwd)
SRC="$T/lib/log.c $T/lib/log_dcs.c $T/lib/log_file.c $T/lib/log_format.c $T/lib/log_syslog.c $T/lib/log_thread.c $T/lib/log_blackbox.c $T/lib/array.c $T/lib/util.c $T/lib/ringbuffer.c $T/lib/ringbuffer_helper.c $T/lib/unix.c $T/lib/strlcpy.c $T/lib/strlcat.c"
gcc -g -O1 -fno-omit-frame-pointer -fsanitize=address,undefined \
    -DHAVE_CONFIG_H -I"$T/include" -I"$T/include/qb" -I"$T/lib" -I"$D/.." \
    -Wno-format-security -o "$D/demo" "$D/demo.c" $SRC \
    -L"$T/lib/.libs" -lqb -lpthread -ldl 2>"$D/build.log" || { cat "$D/build.log"; exit 99; }
LD_LIBRARY_PATH="$T/lib/.libs" ASAN_OPTIONS=detect_leaks=0 "$D/demo"
