/* C12 finding 6: FILE / FUNCTION filters compare against a 499-byte scratch
 * token (_cs_matches_filter_: char token[500]; snprintf(token, 499, ...)), so
 * an alternative longer than 498 characters is cut: a file whose name is
 * longer than that is never selected by its own exact name, and a file whose
 * name equals the first 498 characters is selected although the names
 * differ. */
#include "common.h"
int main(void)
{
	int t, u;
	static char n498[499], n499[500], n600[601];
	memset(n498, 'd', 498);
	memset(n499, 'd', 499);
	memset(n600, 'd', 600);
	memcpy(n498 + 494, "/a.c", 4);	/* distinct, legal path names (< PATH_MAX) */
	memcpy(n499 + 495, "/a.c", 4);
	memcpy(n600 + 596, "/a.c", 4);
	init();
	t = qb_log_custom_open(cb, NULL, NULL, NULL);
	qb_log_ctl(t, QB_LOG_CONF_ENABLED, QB_TRUE);
	FADD(t, QB_LOG_FILTER_FILE, n498, LOG_DEBUG);
	FADD(t, QB_LOG_FILTER_FILE, n499, LOG_DEBUG);
	FADD(t, QB_LOG_FILTER_FILE, n600, LOG_DEBUG);
	logit(n498, "f", 10, LOG_INFO, "hello");
	EXPECT("file name of 498 chars, filter = exactly that name", got[t], 1);
	logit(n499, "f", 10, LOG_INFO, "hello");
	EXPECT("file name of 499 chars, filter = exactly that name", got[t], 1);
	logit(n600, "f", 10, LOG_INFO, "hello");
	EXPECT("file name of 600 chars, filter = exactly that name", got[t], 1);

	u = qb_log_custom_open(cb, NULL, NULL, NULL);
	qb_log_ctl(u, QB_LOG_CONF_ENABLED, QB_TRUE);
	memset(n600, 'e', 600);
	memset(n498, 'e', 498);
	FADD(u, QB_LOG_FILTER_FUNCTION, n600, LOG_DEBUG);
	logit("b.c", n498, 20, LOG_INFO, "hello");
	EXPECT("function name = first 498 chars of the 600-char filter text", got[u], 0);
	return finish();
}
