/* C12 finding 7: the call-site table sits on qb_array (at most 65536
 * elements) and checks the result with assert(): a log call from a line
 * number >= 65536, or the 65537th distinct call site, aborts the process
 * instead of being delivered. */
#include "common.h"
#include <sys/wait.h>
static int child(int which)
{
	int t, i, st;
	pid_t p;
	fflush(NULL);
	p = fork();
	if (p == 0) {
		if (!freopen("/dev/null", "w", stderr)) _exit(3);
		init();
		t = qb_log_custom_open(cb, NULL, NULL, NULL);
		qb_log_ctl(t, QB_LOG_CONF_ENABLED, QB_TRUE);
		FADD(t, QB_LOG_FILTER_FILE, "*", LOG_DEBUG);
		if (which == 0) {
			logit("gen.c", "f", 65535, LOG_INFO, "hello");
			_exit(got[t] == 1 ? 0 : 1);
		} else if (which == 1) {
			logit("gen.c", "f", 65536, LOG_INFO, "hello");
			_exit(got[t] == 1 ? 0 : 1);
		} else {
			char fmt[32];
			for (i = 0; i < 65537; i++) {
				snprintf(fmt, sizeof fmt, "message %d", i);
				logit("many.c", "f", 1 + i % 100, LOG_INFO, fmt);
				if (got[t] != 1)
					_exit(1);
			}
			_exit(0);
		}
	}
	waitpid(p, &st, 0);
	if (WIFSIGNALED(st)) {
		printf("   child killed by signal %d (%s)\n", WTERMSIG(st), strsignal(WTERMSIG(st)));
		return -WTERMSIG(st);
	}
	return WEXITSTATUS(st);
}
int main(void)
{
	EXPECT("log call from line 65535: exit status (0 = delivered once)", child(0), 0);
	EXPECT("log call from line 65536: exit status (0 = delivered once)", child(1), 0);
	EXPECT("65537 distinct call sites: exit status (0 = each delivered once)", child(2), 0);
	printf("%s\n", failures ? "RESULT: property VIOLATED" : "RESULT: property held");
	return failures ? 1 : 0;
}
