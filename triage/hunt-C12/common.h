/* helpers shared by the finding demos */
#define _GNU_SOURCE
#include <stdio.h>
#include <stdlib.h>
#include <string.h>
#include <stdint.h>
#include <errno.h>
#include <syslog.h>
#include <unistd.h>
#include <qb/qbdefs.h>
#include <qb/qblog.h>

static volatile int got[32];
static uint32_t got_tag[32];
static char got_func[32][64];
static int failures;

static void cb(int32_t t, struct qb_log_callsite *cs, struct timespec *ts, const char *msg)
{
	(void)ts; (void)msg;
	__sync_fetch_and_add(&got[t], 1);
	got_tag[t] = cs->tags;
	snprintf(got_func[t], sizeof got_func[t], "%s", cs->function);
}

static void init(void)
{
	qb_log_init("demoC12", LOG_USER, LOG_INFO);
	qb_log_ctl(QB_LOG_SYSLOG, QB_LOG_CONF_ENABLED, QB_FALSE);
}

/* one log call from the call site (file, func, line, prio, fmt) */
static void logit(const char *file, const char *func, int line, int prio, const char *fmt)
{
	memset((void *)got, 0, sizeof got);
	qb_log_from_external_source(func, file, fmt, prio, line, 0);
}

#define EXPECT(what, have, want) do { \
	int h_ = (int)(have), w_ = (int)(want); \
	printf("%-74s : %d (property: %d)%s\n", what, h_, w_, h_ == w_ ? "" : "   <-- VIOLATION"); \
	if (h_ != w_) failures++; } while (0)

#define FADD(t, type, text, lo) qb_log_filter_ctl(t, QB_LOG_FILTER_ADD, type, text, lo)
#define FREM(t, type, text, lo) qb_log_filter_ctl(t, QB_LOG_FILTER_REMOVE, type, text, lo)
#define FCLEAR(t) qb_log_filter_ctl(t, QB_LOG_FILTER_CLEAR_ALL, QB_LOG_FILTER_FILE, "*", LOG_TRACE)
#define TSET(v, type, text, lo) qb_log_filter_ctl(v, QB_LOG_TAG_SET, type, text, lo)
#define TCLR(type, text, lo) qb_log_filter_ctl(0, QB_LOG_TAG_CLEAR, type, text, lo)
#define TCLRALL() qb_log_filter_ctl(0, QB_LOG_TAG_CLEAR_ALL, QB_LOG_FILTER_FILE, "*", LOG_TRACE)

static int finish(void)
{
	qb_log_fini();
	printf("%s\n", failures ? "RESULT: property VIOLATED" : "RESULT: property held");
	return failures ? 1 : 0;
}
