/* C12 finding 4: the dynamic call-site table identifies a call site by
 * (line, priority, file, format) only; the function name is not compared
 * (qb_log_dcs_get).  Two call sites that differ only in the function share
 * one record, so FUNCTION / FUNCTION_REGEX filters are evaluated against
 * whichever function came first, and that function is reported to the
 * target. */
#include "common.h"
int main(void)
{
	int t;
	init();
	t = qb_log_custom_open(cb, NULL, NULL, NULL);
	qb_log_ctl(t, QB_LOG_CONF_ENABLED, QB_TRUE);
	FADD(t, QB_LOG_FILTER_FUNCTION, "g", LOG_DEBUG);

	logit("a.c", "f", 10, LOG_INFO, "hello");
	EXPECT("(a.c, f, 10): FUNCTION \"g\" does not select f", got[t], 0);
	logit("a.c", "g", 10, LOG_INFO, "hello");
	EXPECT("(a.c, g, 10): FUNCTION \"g\" selects g", got[t], 1);

	logit("b.c", "g", 10, LOG_INFO, "hello");
	EXPECT("(b.c, g, 10): selected", got[t], 1);
	logit("b.c", "f", 10, LOG_INFO, "hello");
	EXPECT("(b.c, f, 10): not selected", got[t], 0);
	if (got[t])
		printf("   function reported to the target: \"%s\" (call was made from \"f\")\n", got_func[t]);
	return finish();
}
