/* C12 finding 9 (concurrency): a log call made while another thread is inside
 * qb_log_real_va_() is silently dropped by the in_logger guard - also in the
 * configuration the header documents as thread safe (THREADED targets +
 * logging thread), where the first caller can sit in qb_log_thread_log_post()
 * waiting for the lock the worker holds during a slow write. */
#include "common.h"
#include <pthread.h>
#include <semaphore.h>
static sem_t entered, release;
static int block_next;
static int n_delivered;
static void bcb(int32_t t, struct qb_log_callsite *cs, struct timespec *ts, const char *msg)
{
	__sync_fetch_and_add(&n_delivered, 1);
	if (__sync_lock_test_and_set(&block_next, 0)) {
		sem_post(&entered);
		sem_wait(&release);
	}
}
static void *thr(void *arg)
{
	qb_log_from_external_source("f", "t.c", "from thread %d", LOG_INFO, 20, 0, 2);
	return NULL;
}
int main(int argc, char **argv)
{
	int t, threaded = argc > 1 && atoi(argv[1]);
	pthread_t th;
	sem_init(&entered, 0, 0); sem_init(&release, 0, 0);
	init();
	t = qb_log_custom_open(bcb, NULL, NULL, NULL);
	FADD(t, QB_LOG_FILTER_FILE, "*", LOG_DEBUG);
	if (threaded) qb_log_ctl(t, QB_LOG_CONF_THREADED, QB_TRUE);
	qb_log_ctl(t, QB_LOG_CONF_ENABLED, QB_TRUE);
	if (threaded) qb_log_thread_start();
	block_next = 1;
	if (!threaded) {
		pthread_create(&th, NULL, thr, NULL);	/* M1 blocks in the callback */
		sem_wait(&entered);
		qb_log_from_external_source("f", "t.c", "from main %d", LOG_INFO, 30, 0, 3);
		sem_post(&release);
		pthread_join(th, NULL);
		EXPECT("non-threaded target: 2 calls from 2 threads, deliveries", n_delivered, 2);
	} else {
		qb_log_from_external_source("f", "t.c", "first %d", LOG_INFO, 10, 0, 1);
		sem_wait(&entered);			/* worker is inside a slow write */
		pthread_create(&th, NULL, thr, NULL);	/* M2 waits for the worker's lock */
		usleep(200000);
		qb_log_from_external_source("f", "t.c", "from main %d", LOG_INFO, 30, 0, 3);
		sem_post(&release);
		pthread_join(th, NULL);
		usleep(200000);
		EXPECT("threaded target + logging thread: 3 calls, deliveries", n_delivered, 3);
	}
	return finish();
}
