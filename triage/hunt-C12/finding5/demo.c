/* C12 finding 5: closing a dynamic target leaves its filters stored and its
 * bit set in every call site: qb_log_target_free() asks for
 * qb_log_filter_ctl(pos, CLEAR_ALL, FILE, NULL, 0) and qb_log_filter_ctl2()
 * rejects text == NULL with -EINVAL before doing anything.  The next target
 * opened in that slot inherits the filters of the previous one. */
#include "common.h"
#include <sys/stat.h>
int main(void)
{
	int t, t2, f1, f2;
	struct stat st;
	char p1[64], p2[64];
	init();

	t = qb_log_custom_open(cb, NULL, NULL, NULL);
	FADD(t, QB_LOG_FILTER_FILE, "*", LOG_DEBUG);
	qb_log_ctl(t, QB_LOG_CONF_ENABLED, QB_TRUE);
	logit("a.c", "f", 10, LOG_DEBUG, "hello");
	EXPECT("first target, FILE \"*\" up to LOG_DEBUG: a.c:10", got[t], 1);
	qb_log_custom_close(t);

	t2 = qb_log_custom_open(cb, NULL, NULL, NULL);
	printf("closed slot %d, new target opened in slot %d; no filter is added to it\n", t, t2);
	qb_log_ctl(t2, QB_LOG_CONF_ENABLED, QB_TRUE);
	logit("a.c", "f", 10, LOG_DEBUG, "hello");
	EXPECT("new target without filters: a.c:10 (known call site)", got[t2], 0);
	logit("a.c", "f", 11, LOG_DEBUG, "hello");
	EXPECT("new target without filters: a.c:11 (new call site)", got[t2], 0);
	EXPECT("adding FILE \"*\" to the new target returns", FADD(t2, QB_LOG_FILTER_FILE, "*", LOG_DEBUG), 0);
	qb_log_custom_close(t2);

	puts("-- same with log files: debug file closed, a new file opened for errors only");
	snprintf(p1, sizeof p1, "/tmp/hunt-C12-f5-%d-a.log", (int)getpid());
	snprintf(p2, sizeof p2, "/tmp/hunt-C12-f5-%d-b.log", (int)getpid());
	f1 = qb_log_file_open(p1);
	FCLEAR(f1);			/* get rid of what finding-5 left in the slot */
	FADD(f1, QB_LOG_FILTER_FILE, "*", LOG_DEBUG);
	qb_log_ctl(f1, QB_LOG_CONF_ENABLED, QB_TRUE);
	qb_log_file_close(f1);
	f2 = qb_log_file_open(p2);
	FADD(f2, QB_LOG_FILTER_FILE, "*", LOG_ERR);
	qb_log_ctl(f2, QB_LOG_CONF_ENABLED, QB_TRUE);
	logit("a.c", "f", 12, LOG_DEBUG, "debug chatter");
	qb_log_file_close(f2);
	stat(p2, &st);
	EXPECT("bytes a LOG_DEBUG message put into the errors-only file", st.st_size, 0);
	unlink(p1);
	unlink(p2);
	return finish();
}
