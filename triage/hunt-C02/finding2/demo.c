/*
 * C02 finding 2 (strict reading; transient): shm transport, notification socket full.
 *
 * "While at least one event is queued and unread, the descriptor the client
 *  polls is readable."
 *
 * The server sends N small events while the client is not reading.  Only the
 * first K (~278 with the default 212992 byte SO_SNDBUF) one-byte notifications
 * fit into the setup socket; the other N-K are remembered in
 * c->outstanding_notifiers and are only written when the *server's* main loop
 * gets POLLOUT for that socket.  The client then reads K events (and K bytes):
 * N-K accepted events are still in the ring buffer, but the fd returned by
 * qb_ipcc_fd_get() is NOT readable and qb_ipcc_event_recv() says -EAGAIN, until
 * the server's loop has run again.
 *
 * exit 0: the fd was readable whenever events were queued; exit 1: it was not.
 */
#define _GNU_SOURCE
#include "os_base.h"
#include <poll.h>
#include <sys/uio.h>
#include <qb/qbdefs.h>
#include <qb/qbloop.h>
#include <qb/qbipcc.h>
#include <qb/qbipcs.h>
#include "ipc_int.h"

#define MAXPE 32
static struct pe { int used, fd, events; void *data; qb_ipcs_dispatch_fn_t fn; } pes[MAXPE];
static int32_t d_add(enum qb_loop_priority p, int32_t fd, int32_t ev, void *data, qb_ipcs_dispatch_fn_t fn)
{
	int i;
	for (i = 0; i < MAXPE; i++) if (!pes[i].used) { pes[i] = (struct pe){ 1, fd, ev, data, fn }; return 0; }
	return -ENOMEM;
}
static int32_t d_mod(enum qb_loop_priority p, int32_t fd, int32_t ev, void *data, qb_ipcs_dispatch_fn_t fn)
{
	int i;
	for (i = 0; i < MAXPE; i++) if (pes[i].used && pes[i].fd == fd) { pes[i] = (struct pe){ 1, fd, ev, data, fn }; return 0; }
	return -ENOENT;
}
static int32_t d_del(int32_t fd)
{
	int i;
	for (i = 0; i < MAXPE; i++) if (pes[i].used && pes[i].fd == fd) { pes[i].used = 0; return 0; }
	return -ENOENT;
}
static int32_t j_add(enum qb_loop_priority p, void *data, qb_loop_job_dispatch_fn fn) { fn(data); return 0; }
static void server_step(void)
{
	struct pollfd pf[MAXPE]; int idx[MAXPE], n = 0, i;
	for (i = 0; i < MAXPE; i++) if (pes[i].used) { pf[n] = (struct pollfd){ pes[i].fd, pes[i].events, 0 }; idx[n++] = i; }
	if (poll(pf, n, 0) <= 0) return;
	for (i = 0; i < n; i++) {
		struct pe *e = &pes[idx[i]];
		if (pf[i].revents && e->used && e->fd == pf[i].fd && e->fn(pf[i].fd, pf[i].revents, e->data) < 0) e->used = 0;
	}
}

static qb_ipcs_connection_t *sconn;
static int32_t s_accept(qb_ipcs_connection_t *c, uid_t u, gid_t g) { return 0; }
static void s_created(qb_ipcs_connection_t *c) { sconn = c; }
static int32_t s_msg(qb_ipcs_connection_t *c, void *d, size_t s) { return 0; }
static int32_t s_closed(qb_ipcs_connection_t *c) { return 0; }
static void s_destroyed(qb_ipcs_connection_t *c) { sconn = NULL; }


static int fd_readable(int fd)
{
	struct pollfd p = { fd, POLLIN, 0 };
	return poll(&p, 1, 0) == 1 && (p.revents & POLLIN);
}

int main(void)
{
	struct qb_ipcs_service_handlers sh = { s_accept, s_created, s_msg, s_closed, s_destroyed };
	struct qb_ipcs_poll_handlers ph = { j_add, d_add, d_mod, d_del };
	char name[64], cmd[128];
	qb_ipcs_service_t *s;
	qb_ipcc_connection_t *c;
	int cfd, i, sent = 0, got = 0, bad = 0;
	int32_t efd;
	struct qb_ipc_response_header ev, rb;
	ssize_t rc;
	const int N = 400;

	signal(SIGPIPE, SIG_IGN);
	alarm(60);
	snprintf(name, sizeof name, "huntC02-f2-%d", (int)getpid());
	s = qb_ipcs_create(name, 1, QB_IPC_SHM, &sh);
	qb_ipcs_poll_handlers_set(s, &ph);
	if (qb_ipcs_run(s) != 0) { perror("qb_ipcs_run"); exit(2); }
	c = qb_ipcc_connect_async(name, 0, &cfd);
	for (i = 0; i < 10 && !sconn; i++) server_step();
	if (!c || !sconn || qb_ipcc_connect_continue(c) != 0) { fprintf(stderr, "connect failed\n"); exit(2); }
	qb_ipcc_fd_get(c, &efd);

	/* 1. N bare-header events, the client is busy elsewhere */
	for (i = 0; i < N; i++) {
		ev.id = i; ev.size = sizeof ev; ev.error = 0;
		rc = qb_ipcs_event_send(sconn, &ev, sizeof ev);
		if (rc != sizeof ev) { printf("event_send #%d -> %zd\n", i, rc); break; }
		sent++;
	}
	printf("server: %d events accepted, outstanding_notifiers=%d (notification socket full), fd readable=%d\n",
	       sent, sconn->outstanding_notifiers, fd_readable(efd));

	/* 2. the client reads until it is told there is nothing more */
	for (;;) {
		rc = qb_ipcc_event_recv(c, &rb, sizeof rb, 0);
		if (rc < 0) break;
		if (rc != sizeof rb || rb.id != got) { printf("event #%d: got id %d len %zd\n", got, rb.id, rc); return 1; }
		got++;
	}
	printf("client: read %d events in order, then qb_ipcc_event_recv -> %zd (%s)\n", got, rc, strerror(-rc));
	printf("        %d accepted events still queued and unread, fd %d readable=%d, server outstanding_notifiers=%d\n",
	       sent - got, efd, fd_readable(efd), sconn->outstanding_notifiers);
	if (sent - got > 0 && !fd_readable(efd)) {
		bad = 1;
	}

	/* 3. it heals as soon as the server's loop handles POLLOUT */
	server_step();
	printf("after one server loop iteration: fd readable=%d, outstanding_notifiers=%d\n", fd_readable(efd), sconn->outstanding_notifiers);
	for (;;) {
		rc = qb_ipcc_event_recv(c, &rb, sizeof rb, 0);
		if (rc < 0) break;
		if (rb.id != got) { printf("event #%d: got id %d\n", got, rb.id); return 1; }
		got++;
	}
	printf("client: %d of %d events received in total\n", got, sent);

	qb_ipcc_disconnect(c);
	for (i = 0; i < 5; i++) server_step();
	qb_ipcs_destroy(s);
	snprintf(cmd, sizeof cmd, "rm -rf /dev/shm/qb-%d-%d-* 2>/dev/null", (int)getpid(), (int)getpid());
	(void)!system(cmd);
	if (got != sent) { printf("VIOLATED: events lost\n"); return 1; }
	if (bad) { printf("VIOLATED (transient): events were queued and unread while the client's fd was not readable\n"); return 1; }
	printf("property held\n");
	return 0;
}
