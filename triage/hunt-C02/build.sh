#!/bin/sh
# usage: build.sh [tree]   (default /repo) ; builds fuzz (ASan+UBSan) against the tree's sources
T=${1:-/repo}
D=$(dirname "$(readlink -f "$0")")
SRCS="$T/lib/ipcc.c $T/lib/ipcs.c $T/lib/ipc_shm.c $T/lib/ipc_socket.c $T/lib/ipc_setup.c $T/lib/ringbuffer.c $T/lib/ringbuffer_helper.c"
set -e
gcc -g -O1 -fno-omit-frame-pointer -fsanitize=address,undefined -fno-sanitize-recover=undefined -fno-sanitize=alignment \
    -DHAVE_CONFIG_H -I"$T/include" -I"$T/include/qb" -I"$T/lib" -I"$T" \
    -Wall -Wno-unused-function -Wno-format-truncation \
    -o "$D/fuzz" "$D/fuzz.c" $SRCS -L"$T/lib/.libs" -lqb -lpthread
if [ -f "$D/stress.c" ]; then
gcc -g -O1 -fno-omit-frame-pointer -fsanitize=address,undefined -fno-sanitize-recover=undefined -fno-sanitize=alignment \
    -DHAVE_CONFIG_H -I"$T/include" -I"$T/include/qb" -I"$T/lib" -I"$T" \
    -Wall -Wno-unused-function -Wno-format-truncation \
    -o "$D/stress" "$D/stress.c" $SRCS -L"$T/lib/.libs" -lqb -lpthread
fi
if [ -f "$D/stressm.c" ]; then
gcc -g -O1 -fno-omit-frame-pointer -fsanitize=address,undefined -fno-sanitize-recover=undefined -fno-sanitize=alignment \
    -DHAVE_CONFIG_H -I"$T/include" -I"$T/include/qb" -I"$T/lib" -I"$T" \
    -Wall -Wno-unused-function -Wno-format-truncation \
    -o "$D/stressm" "$D/stressm.c" $SRCS -L"$T/lib/.libs" -lqb -lpthread
fi
echo built
# ThreadSanitizer build of the stress tester (server thread + client thread in one process)
if [ -f "$D/stress.c" ]; then
gcc -g -O1 -fno-omit-frame-pointer -fsanitize=thread \
    -DHAVE_CONFIG_H -I"$T/include" -I"$T/include/qb" -I"$T/lib" -I"$T" \
    -Wall -Wno-unused-function -Wno-format-truncation \
    -o "$D/stress_tsan" "$D/stress.c" $SRCS -L"$T/lib/.libs" -lqb -lpthread
fi
echo built-tsan
