#!/bin/sh
cd /tmp/hunt-C02
export LD_LIBRARY_PATH=/repo/lib/.libs ASAN_OPTIONS=detect_leaks=0
run() { n=$1; shift; "$@" > logs/$n.log 2>&1 || echo "FAIL $n: $*" >> logs/FAILS; }
for s in 201 202 203; do
 for t in shm sock; do
  for p in 0 1 2; do
    run st-$s-$t-$p ./c02stress $s 30000 $t 0 $p &
    run stb-$s-$t-$p ./c02stress $s 20000 $t 100000 $p &
  done
  wait
  run stm-$s-$t-0 ./c02stressm $s 10000 $t 20000 0 3 &
  run stm-$s-$t-1 ./c02stressm $s 10000 $t 20000 1 3 &
  wait
 done
done
echo STRESS DONE >> logs/FAILS
