#!/bin/sh
# usage: demo.sh <tree>   exit 0 = property held, 1 = violated
T=${1:-/repo}
D=$(dirname "$(readlink -f "$0")")
SRCS="$T/lib/ipcc.c $T/lib/ipcs.c $T/lib/ipc_shm.c $T/lib/ipc_socket.c $T/lib/ipc_setup.c $T/lib/ringbuffer.c $T/lib/ringbuffer_helper.c"
B=$(mktemp -d /tmp/hunt-C02-f1.XXXXXX)
gcc -g -O1 -fsanitize=address,undefined -fno-sanitize=alignment -w \
    -DHAVE_CONFIG_H -I"$T/include" -I"$T/include/qb" -I"$T/lib" \
    -o "$B/demo" "$D/demo.c" $SRCS -L"$T/lib/.libs" -lqb -lpthread || exit 2
LD_LIBRARY_PATH="$T/lib/.libs" ASAN_OPTIONS=detect_leaks=0 "$B/demo"
rc=$?
rm -rf "$B"
exit $rc
