/*
 * C02 finding 1: the server side accepts responses (qb_ipcs_response_send,
 * qb_ipcs_response_sendv) and events (qb_ipcs_event_sendv) that are larger
 * than the negotiated maximum message size.  The message is queued; a client
 * that receives into a buffer of the negotiated size (qb_ipcc_get_buffer_size)
 * can never take it out, and every later message on that channel is stuck
 * behind it.  Only qb_ipcs_event_send() refuses (-EMSGSIZE) as documented.
 *
 * Server and client run in one thread; the server "main loop" is the little
 * poll table below, so the sequence is fully deterministic.
 *
 * exit 0: property held (every oversize send was refused and had no effect)
 * exit 1: violated
 */
#define _GNU_SOURCE
#include "os_base.h"
#include <poll.h>
#include <sys/uio.h>
#include <qb/qbdefs.h>
#include <qb/qbloop.h>
#include <qb/qbipcc.h>
#include <qb/qbipcs.h>

#define MAXPE 32
static struct pe { int used, fd, events; void *data; qb_ipcs_dispatch_fn_t fn; } pes[MAXPE];
static int32_t d_add(enum qb_loop_priority p, int32_t fd, int32_t ev, void *data, qb_ipcs_dispatch_fn_t fn)
{
	int i;
	for (i = 0; i < MAXPE; i++) if (!pes[i].used) { pes[i] = (struct pe){ 1, fd, ev, data, fn }; return 0; }
	return -ENOMEM;
}
static int32_t d_mod(enum qb_loop_priority p, int32_t fd, int32_t ev, void *data, qb_ipcs_dispatch_fn_t fn)
{
	int i;
	for (i = 0; i < MAXPE; i++) if (pes[i].used && pes[i].fd == fd) { pes[i] = (struct pe){ 1, fd, ev, data, fn }; return 0; }
	return -ENOENT;
}
static int32_t d_del(int32_t fd)
{
	int i;
	for (i = 0; i < MAXPE; i++) if (pes[i].used && pes[i].fd == fd) { pes[i].used = 0; return 0; }
	return -ENOENT;
}
static int32_t j_add(enum qb_loop_priority p, void *data, qb_loop_job_dispatch_fn fn) { fn(data); return 0; }
static void server_step(void)
{
	struct pollfd pf[MAXPE]; int idx[MAXPE], n = 0, i;
	for (i = 0; i < MAXPE; i++) if (pes[i].used) { pf[n] = (struct pollfd){ pes[i].fd, pes[i].events, 0 }; idx[n++] = i; }
	if (poll(pf, n, 0) <= 0) return;
	for (i = 0; i < n; i++) {
		struct pe *e = &pes[idx[i]];
		if (pf[i].revents && e->used && e->fd == pf[i].fd && e->fn(pf[i].fd, pf[i].revents, e->data) < 0) e->used = 0;
	}
}

static qb_ipcs_connection_t *sconn;
static int32_t s_accept(qb_ipcs_connection_t *c, uid_t u, gid_t g) { return 0; }
static void s_created(qb_ipcs_connection_t *c) { sconn = c; }
static int32_t s_msg(qb_ipcs_connection_t *c, void *d, size_t s) { return 0; }
static int32_t s_closed(qb_ipcs_connection_t *c) { return 0; }
static void s_destroyed(qb_ipcs_connection_t *c) { sconn = NULL; }

static unsigned char *mk(size_t len, int id)
{
	unsigned char *b = calloc(1, len);
	struct qb_ipc_response_header *h = (void *)b;
	size_t i;
	h->id = id; h->size = len; h->error = 0;
	for (i = sizeof *h; i < len; i++) b[i] = (unsigned char)(i * 7 + id);
	return b;
}

static int run(enum qb_ipc_type type, const char *tname)
{
	struct qb_ipcs_service_handlers sh = { s_accept, s_created, s_msg, s_closed, s_destroyed };
	struct qb_ipcs_poll_handlers ph = { j_add, d_add, d_mod, d_del };
	char name[64];
	qb_ipcs_service_t *s;
	qb_ipcc_connection_t *c;
	int cfd, i, bad = 0;
	size_t max;
	ssize_t rc;
	unsigned char *big, *small, *rbuf, *rbig;
	struct iovec iov[2];

	snprintf(name, sizeof name, "huntC02-f1-%d-%s", (int)getpid(), tname);
	s = qb_ipcs_create(name, 1, type, &sh);
	qb_ipcs_poll_handlers_set(s, &ph);
	if (qb_ipcs_run(s) != 0) { perror("qb_ipcs_run"); exit(2); }
	c = qb_ipcc_connect_async(name, 0, &cfd);
	for (i = 0; i < 10 && !sconn; i++) server_step();
	if (!c || !sconn || qb_ipcc_connect_continue(c) != 0) { fprintf(stderr, "connect failed\n"); exit(2); }
	max = qb_ipcc_get_buffer_size(c);
	printf("[%s] negotiated max_msg_size: client %zu, server %d\n", tname, max, qb_ipcs_connection_get_buffer_size(sconn));

	big = mk(max + 1, 100);
	small = mk(sizeof(struct qb_ipc_response_header), 101);
	rbuf = malloc(max);		/* what the API tells a client to use */

	/* control: qb_ipcs_event_send() refuses */
	rc = qb_ipcs_event_send(sconn, big, max + 1);
	printf("[%s] qb_ipcs_event_send(%zu)      -> %zd %s\n", tname, max + 1, rc, rc == -EMSGSIZE ? "(-EMSGSIZE, as promised)" : "");
	if (rc >= 0) bad++;

	/* 1. response_send of max+1 bytes */
	rc = qb_ipcs_response_send(sconn, big, max + 1);
	printf("[%s] qb_ipcs_response_send(%zu)   -> %zd %s\n", tname, max + 1, rc, rc < 0 ? "(refused)" : "ACCEPTED although > max");
	if (rc >= 0) bad++;
	/* a perfectly legal response behind it */
	rc = qb_ipcs_response_send(sconn, small, sizeof(struct qb_ipc_response_header));
	printf("[%s] qb_ipcs_response_send(%zu)      -> %zd\n", tname, sizeof(struct qb_ipc_response_header), rc);
	for (i = 0; i < 3; i++) {
		rc = qb_ipcc_recv(c, rbuf, max, 0);
		printf("[%s]   qb_ipcc_recv(buf=%zu)        -> %zd (%s)\n", tname, max, rc, rc < 0 ? strerror(-rc) : "ok");
	}
	if (rc != (ssize_t)sizeof(struct qb_ipc_response_header)) {
		printf("[%s]   => the legal %zu byte response is stuck behind the oversize one\n", tname, sizeof(struct qb_ipc_response_header));
	}

	/* only a client that guesses a larger buffer gets out of this */
	rbig = malloc(max + 64);
	rc = qb_ipcc_recv(c, rbig, max + 64, 0);
	printf("[%s]   qb_ipcc_recv(buf=%zu)        -> %zd (%s)\n", tname, max + 64, rc, rc < 0 ? strerror(-rc) : (memcmp(rbig, big, max + 1) ? "CORRUPT" : "intact"));
	rc = qb_ipcc_recv(c, rbuf, max, 0);
	printf("[%s]   qb_ipcc_recv(buf=%zu)        -> %zd\n", tname, max, rc);

	/* 2. event_sendv of max+1 bytes */
	iov[0].iov_base = big; iov[0].iov_len = sizeof(struct qb_ipc_response_header);
	iov[1].iov_base = big + iov[0].iov_len; iov[1].iov_len = max + 1 - iov[0].iov_len;
	rc = qb_ipcs_event_sendv(sconn, iov, 2);
	printf("[%s] qb_ipcs_event_sendv(%zu)     -> %zd %s\n", tname, max + 1, rc, rc < 0 ? "(refused)" : "ACCEPTED although > max");
	if (rc >= 0) bad++;
	rc = qb_ipcs_event_send(sconn, small, sizeof(struct qb_ipc_response_header));
	printf("[%s] qb_ipcs_event_send(%zu)         -> %zd\n", tname, sizeof(struct qb_ipc_response_header), rc);
	for (i = 0; i < 3; i++) {
		rc = qb_ipcc_event_recv(c, rbuf, max, 0);
		printf("[%s]   qb_ipcc_event_recv(buf=%zu)  -> %zd (%s)\n", tname, max, rc, rc < 0 ? strerror(-rc) : "ok");
	}
	if (rc != (ssize_t)sizeof(struct qb_ipc_response_header)) {
		printf("[%s]   => the legal %zu byte event is stuck behind the oversize one\n", tname, sizeof(struct qb_ipc_response_header));
	}

	rc = qb_ipcc_event_recv(c, rbig, max + 64, 0);
	printf("[%s]   qb_ipcc_event_recv(buf=%zu)  -> %zd (%s)\n", tname, max + 64, rc, rc < 0 ? strerror(-rc) : (memcmp(rbig, big, max + 1) ? "CORRUPT" : "intact"));
	rc = qb_ipcc_event_recv(c, rbuf, max, 0);
	printf("[%s]   qb_ipcc_event_recv(buf=%zu)  -> %zd\n", tname, max, rc);

	/* 3. response_sendv */
	rc = qb_ipcs_response_sendv(sconn, iov, 2);
	printf("[%s] qb_ipcs_response_sendv(%zu)  -> %zd %s\n", tname, max + 1, rc, rc == -EMSGSIZE ? "(-EMSGSIZE)" : (rc < 0 ? "(refused: queue busy)" : "ACCEPTED although > max"));
	if (rc >= 0) bad++;

	rc = qb_ipcc_recv(c, rbig, max + 64, 0);
	qb_ipcc_disconnect(c);
	for (i = 0; i < 5; i++) server_step();
	free(rbig);
	qb_ipcs_destroy(s);
	free(big); free(small); free(rbuf);
	return bad;
}

int main(void)
{
	int bad = 0;
	char cmd[128];

	signal(SIGPIPE, SIG_IGN);
	alarm(60);
	bad += run(QB_IPC_SHM, "shm");
	bad += run(QB_IPC_SOCKET, "sock");
	snprintf(cmd, sizeof cmd, "rm -rf /dev/shm/qb-%d-%d-* 2>/dev/null", (int)getpid(), (int)getpid());
	(void)!system(cmd);
	if (bad) {
		printf("VIOLATED: %d sends larger than the negotiated maximum were accepted and queued\n", bad);
		return 1;
	}
	printf("property held: every send larger than the negotiated maximum was refused\n");
	return 0;
}
