/*
 * Two-process stress for libqb IPC (property C02): real concurrency between a
 * client process and a server process (server uses the real qb_loop).
 *
 * usage: stress <seed> <nreq> <shm|sock> <client_max_msg_size> [profile]
 *   profile: 0 mixed (default), 1 tiny messages + bursts (fills the
 *            notification socket both ways), 2 big messages
 *
 * Protocol (everything is derived from the request sequence number n, so that
 * both sides know what has to arrive):
 *   request n:  id = n*4+mode, size = len,  payload = fill(REQ, n, len, mode)
 *   responses:  request n gets NRSP(n) responses (0,1 or 2), numbered
 *               consecutively over the whole run
 *   events:     request n triggers NEVT(n) events, numbered consecutively
 *   the length / mode of response r and event e are derived from r / e.
 * The server queues what it owes and flushes that queue whenever it can (a
 * refused send is retried later - exactly what the property allows).
 */
#define _GNU_SOURCE
#include "os_base.h"
#include <poll.h>
#include <signal.h>
#include <sys/wait.h>
#include <pthread.h>
#include <sys/uio.h>
#include <qb/qbdefs.h>
#include <qb/qbloop.h>
#include <qb/qbipcc.h>
#include <qb/qbipcs.h>
#include "ipc_int.h"

enum { CH_REQ, CH_RSP, CH_EVT };
static const char *chname[] = { "request", "response", "event" };
static int profile;
static size_t maxmsg;
static uint64_t seed;
static __thread const char *who = "?";

#define DIE(...) do { fprintf(stderr, "VIOLATION [%s pid %d]: ", who, (int)getpid()); fprintf(stderr, __VA_ARGS__); fprintf(stderr, "\n"); _exit(1); } while (0)

static uint64_t mix(uint64_t x)
{
	x += seed * 0x9E3779B97F4A7C15ull;
	x ^= x >> 30; x *= 0xbf58476d1ce4e5b9ull;
	x ^= x >> 27; x *= 0x94d049bb133111ebull;
	x ^= x >> 31;
	return x;
}

static size_t hdr_size(int ch) { return ch == CH_REQ ? 16 : 24; }

static uint32_t len_of(int ch, uint32_t n)
{
	uint64_t h = mix(((uint64_t)ch << 40) ^ n ^ 0x55aa);
	uint32_t hs = hdr_size(ch);
	uint32_t r = h % 100;
	uint32_t v = (h >> 8) & 0xffffff;
	uint32_t len;

	if (profile == 1) {
		if (r < 95) return hs + v % 9;
	} else if (profile == 2) {
		if (r < 60) return maxmsg - v % 64;
		if (r < 90) return maxmsg / 2 + v % 100;
	}
	if (r < 30) len = hs + v % 64;
	else if (r < 45) len = maxmsg - v % 40;
	else if (r < 60) len = hs + v % 600;
	else if (r < 70) len = 4096 * (1 + v % 4) + (v >> 4) % 41 - 20;
	else if (r < 80) len = maxmsg / 2 + v % 64;
	else len = hs + v % (maxmsg - hs + 1);
	if (len < hs) len = hs;
	if (len > maxmsg) len = maxmsg;
	return len;
}
static uint32_t mode_of(int ch, uint32_t n) { return mix(((uint64_t)ch << 40) ^ n ^ 0x77) % 10 < 6 ? 0 : 1 + mix(n ^ 0x99) % 3; }
static uint32_t nrsp_of(uint32_t n) { uint32_t r = mix(n ^ 0x1111) % 100; return r < 50 ? 1 : (r < 60 ? 2 : 0); }
static uint32_t nevt_of(uint32_t n)
{
	uint32_t r = mix(n ^ 0x2222) % 1000;
	if (profile == 1 && r < 4) return 700 + mix(n) % 900;	/* burst: fill the notification socket */
	if (r < 150) return 1 + r % 4;
	return 0;
}
/* server: how long to stall inside msg_process (us) */
static uint32_t stall_of(uint32_t n)
{
	uint32_t r = mix(n ^ 0x3333) % 1000;
	if (r < 3) return 150000;
	if (r < 30) return 2000;
	return 0;
}

static void msg_fill(int ch, uint32_t n, uint32_t len, uint32_t mode, unsigned char *buf)
{
	size_t h = hdr_size(ch), i;
	uint64_t s = mix(((uint64_t)ch << 48) ^ ((uint64_t)len << 24) ^ n) | 1;

	memset(buf, 0, h);
	((int32_t *)buf)[0] = (int32_t)((n * 4 + mode) & 0x7fffffff);
	((int32_t *)buf)[2] = len;
	if (ch != CH_REQ) ((int32_t *)buf)[4] = (int32_t)(n ^ 0x5a5a);
	for (i = h; i < len; i++) {
		switch (mode) {
		case 0: s ^= s << 13; s ^= s >> 7; s ^= s << 17; buf[i] = s >> 24; break;
		case 1: buf[i] = 0xA1; break;
		case 2: buf[i] = 0; break;
		default: buf[i] = ((i / 4) & 1) ? 0xA1 : ((i % 4) == 0 ? 0x10 : 0); break;
		}
	}
}

static __thread unsigned char *scratch;
static void verify(int ch, uint32_t n, const void *data, ssize_t got)
{
	uint32_t len = len_of(ch, n), mode = mode_of(ch, n);
	const int32_t *h = data;
	size_t i;

	if (got < 16) DIE("%s #%u: got %zd bytes", chname[ch], n, got);
	if ((uint32_t)h[0] != ((n * 4 + mode) & 0x7fffffff)) {
		DIE("%s: expected #%u (id %u) but got id %d => #%d (size field %d, got %zd bytes): lost / duplicated / reordered",
		    chname[ch], n, (n * 4 + mode) & 0x7fffffff, h[0], h[0] / 4, h[2], got);
	}
	if ((size_t)got != len) DIE("%s #%u: length %zd, expected %u", chname[ch], n, got, len);
	msg_fill(ch, n, len, mode, scratch);
	if (memcmp(scratch, data, len)) {
		const unsigned char *d = data;
		for (i = 0; i < len && d[i] == scratch[i]; i++) ;
		DIE("%s #%u len %u: corrupted at byte %zu (got %02x want %02x)", chname[ch], n, len, i, d[i], scratch[i]);
	}
}

/* ================================================================ server */
static qb_loop_t *loop;
static qb_ipcs_service_t *svc;
static qb_ipcs_connection_t *sconn;
static uint32_t s_next_req;
static uint32_t s_rsp_owed, s_rsp_sent, s_evt_owed, s_evt_sent;
static unsigned char *s_buf;
static uint32_t s_nreq;
static uint64_t s_rsp_eagain, s_evt_eagain;
static int s_rate = QB_IPCS_RATE_NORMAL;
static int s_closed_flag;

static int32_t sv_job_add(enum qb_loop_priority p, void *data, qb_loop_job_dispatch_fn fn) { return qb_loop_job_add(loop, p, data, fn); }
static int32_t sv_dispatch_add(enum qb_loop_priority p, int32_t fd, int32_t ev, void *data, qb_ipcs_dispatch_fn_t fn) { return qb_loop_poll_add(loop, p, fd, ev, data, fn); }
static int32_t sv_dispatch_mod(enum qb_loop_priority p, int32_t fd, int32_t ev, void *data, qb_ipcs_dispatch_fn_t fn) { return qb_loop_poll_mod(loop, p, fd, ev, data, fn); }
static int32_t sv_dispatch_del(int32_t fd) { return qb_loop_poll_del(loop, fd); }

static void s_flush(void)
{
	int budget = 64;

	if (!sconn) return;
	while (s_rsp_sent < s_rsp_owed && budget-- > 0) {
		uint32_t len = len_of(CH_RSP, s_rsp_sent), mode = mode_of(CH_RSP, s_rsp_sent);
		ssize_t rc;
		msg_fill(CH_RSP, s_rsp_sent, len, mode, s_buf);
		if (s_rsp_sent & 1) {
			struct iovec iov[2] = { { s_buf, 24 }, { s_buf + 24, len - 24 } };
			rc = qb_ipcs_response_sendv(sconn, iov, len > 24 ? 2 : 1);
		} else {
			rc = qb_ipcs_response_send(sconn, s_buf, len);
		}
		if (rc == (ssize_t)len) { s_rsp_sent++; continue; }
		if (rc == -EAGAIN || rc == -ENOBUFS || rc == -ETIMEDOUT) { s_rsp_eagain++; break; }
		DIE("response send #%u len %u returned %zd", s_rsp_sent, len, rc);
	}
	budget = 2000;
	while (s_evt_sent < s_evt_owed && budget-- > 0) {
		uint32_t len = len_of(CH_EVT, s_evt_sent), mode = mode_of(CH_EVT, s_evt_sent);
		ssize_t rc;
		msg_fill(CH_EVT, s_evt_sent, len, mode, s_buf);
		if (s_evt_sent & 1) {
			struct iovec iov[3] = { { s_buf, 24 }, { s_buf + 24, (len - 24) / 2 }, { s_buf + 24 + (len - 24) / 2, len - 24 - (len - 24) / 2 } };
			rc = qb_ipcs_event_sendv(sconn, iov, 3);
		} else {
			rc = qb_ipcs_event_send(sconn, s_buf, len);
		}
		if (rc == (ssize_t)len) { s_evt_sent++; continue; }
		if (rc == -EAGAIN || rc == -ENOBUFS || rc == -ETIMEDOUT) { s_evt_eagain++; break; }
		DIE("event send #%u len %u returned %zd", s_evt_sent, len, rc);
	}
}

static void s_timer(void *d)
{
	uint32_t r;
	static uint32_t tick;
	(void)d;
	tick++;
	s_flush();
	r = mix(0x4444 ^ tick) % 100;
	if (r < 6) {
		static const int rates[] = { QB_IPCS_RATE_FAST, QB_IPCS_RATE_NORMAL, QB_IPCS_RATE_SLOW, QB_IPCS_RATE_OFF, QB_IPCS_RATE_OFF_2 };
		s_rate = rates[mix(tick) % 5];
		qb_ipcs_request_rate_limit(svc, s_rate);
	} else if (r < 30 && s_rate != QB_IPCS_RATE_NORMAL) {
		s_rate = QB_IPCS_RATE_NORMAL;
		qb_ipcs_request_rate_limit(svc, s_rate);
	}
	if (s_closed_flag) {
		qb_loop_stop(loop);
		return;
	}
	qb_loop_timer_add(loop, QB_LOOP_HIGH, 1 * QB_TIME_NS_IN_MSEC, NULL, s_timer, NULL);
}

static int32_t sv_msg_process(qb_ipcs_connection_t *c, void *data, size_t size)
{
	uint32_t n = s_next_req;
	uint32_t st;

	verify(CH_REQ, n, data, size);
	s_next_req++;
	s_rsp_owed += nrsp_of(n);
	s_evt_owed += nevt_of(n);
	st = stall_of(n);
	if (st) usleep(st);
	s_flush();
	if (mix(n ^ 0x6666) % 100 < 2) {
		s_rate = QB_IPCS_RATE_OFF;
		qb_ipcs_request_rate_limit(svc, s_rate);
	}
	(void)c;
	return 0;
}
static int32_t sv_accept(qb_ipcs_connection_t *c, uid_t u, gid_t g) { (void)c; (void)u; (void)g; return 0; }
static void sv_created(qb_ipcs_connection_t *c) { sconn = c; }
static int32_t sv_closed(qb_ipcs_connection_t *c) { (void)c; s_closed_flag = 1; return 0; }
static void sv_destroyed(qb_ipcs_connection_t *c) { if (c == sconn) sconn = NULL; }

static int run_server(const char *name, int type, int ready_fd)
{
	struct qb_ipcs_service_handlers sh = { sv_accept, sv_created, sv_msg_process, sv_closed, sv_destroyed };
	struct qb_ipcs_poll_handlers ph = { sv_job_add, sv_dispatch_add, sv_dispatch_mod, sv_dispatch_del };
	int rc;

	who = "server";
	loop = qb_loop_create();
	svc = qb_ipcs_create(name, 1, type, &sh);
	qb_ipcs_poll_handlers_set(svc, &ph);
	rc = qb_ipcs_run(svc);
	if (rc) { fprintf(stderr, "qb_ipcs_run %d\n", rc); return 2; }
	s_buf = malloc(4 << 20);
	scratch = malloc(4 << 20);
	(void)!write(ready_fd, "r", 1);
	qb_loop_timer_add(loop, QB_LOOP_HIGH, 1 * QB_TIME_NS_IN_MSEC, NULL, s_timer, NULL);
	qb_loop_run(loop);
	if (s_next_req != s_nreq) DIE("server saw %u requests, client sent %u", s_next_req, s_nreq);
	fprintf(stderr, "server: %u requests, %u/%u responses, %u/%u events sent; refused sends rsp %llu evt %llu\n",
		s_next_req, s_rsp_sent, s_rsp_owed, s_evt_sent, s_evt_owed,
		(unsigned long long)s_rsp_eagain, (unsigned long long)s_evt_eagain);
	qb_ipcs_destroy(svc);
	return 0;
}

/* ================================================================ client */
static uint64_t crng;
static uint32_t crnd(void) { crng ^= crng << 13; crng ^= crng >> 7; crng ^= crng << 17; return crng >> 16; }

static int run_client(const char *name, size_t climax, uint32_t nreq)
{
	qb_ipcc_connection_t *c;
	unsigned char *sbuf, *rbuf;
	uint32_t next_req = 0, next_rsp = 0, next_evt = 0;
	uint32_t exp_rsp = 0, exp_evt = 0;	/* owed for the requests sent so far */
	uint64_t send_eagain = 0, spins = 0;
	int32_t efd;
	time_t deadline;
	int pause_events = 0;
	uint32_t i;
	int tries;

	who = "client";
	for (tries = 0; tries < 100; tries++) {
		c = qb_ipcc_connect(name, climax);
		if (c) break;
		usleep(20000);
	}
	if (!c) { perror("qb_ipcc_connect"); return 2; }
	if ((size_t)qb_ipcc_get_buffer_size(c) != maxmsg) { fprintf(stderr, "negotiated %d\n", qb_ipcc_get_buffer_size(c)); return 2; }
	sbuf = malloc(maxmsg + 64);
	rbuf = malloc(maxmsg);
	scratch = malloc(maxmsg + 64);
	qb_ipcc_fd_get(c, &efd);
	crng = mix(0xc11e) | 1;

	deadline = time(NULL) + 120;
	while (next_req < nreq || next_rsp < exp_rsp || next_evt < exp_evt) {
		uint32_t r = crnd() % 100;
		ssize_t rc;

		if (pause_events > 0) pause_events--;

		if (time(NULL) > deadline) {
			DIE("timeout: sent %u/%u requests, got %u/%u responses, %u/%u events (lost or stuck)",
			    next_req, nreq, next_rsp, exp_rsp, next_evt, exp_evt);
		}
		if (next_req < nreq && r < 50) {
			/* send a burst */
			uint32_t burst = 1 + crnd() % (profile == 1 ? 600 : 8);
			if (crnd() % 50 == 0) qb_ipcc_fc_enable_max_set(c, crnd() % 3);
			for (i = 0; i < burst && next_req < nreq; i++) {
				uint32_t len = len_of(CH_REQ, next_req), mode = mode_of(CH_REQ, next_req);
				msg_fill(CH_REQ, next_req, len, mode, sbuf);
				if (next_req % 3 == 0) {
					struct iovec iov[2] = { { sbuf, 16 }, { sbuf + 16, len - 16 } };
					rc = qb_ipcc_sendv(c, iov, 2);
				} else if (next_req % 3 == 1 && nrsp_of(next_req) == 1 && next_rsp == exp_rsp && crnd() % 4 == 0) {
					/* synchronous call: only when no other response is outstanding */
					struct iovec iov[1] = { { sbuf, len } };
					rc = qb_ipcc_sendv_recv(c, iov, 1, rbuf, maxmsg, 2000);
					if (rc == -EAGAIN || rc == -ENOBUFS) { send_eagain++; break; }
					if (rc == -ETIMEDOUT) {
						/* request was sent, response not here yet: treat as sent */
						exp_rsp += 1; exp_evt += nevt_of(next_req); next_req++;
						continue;
					}
					if (rc < 0) DIE("sendv_recv #%u: %zd", next_req, rc);
					exp_rsp += 1; exp_evt += nevt_of(next_req); next_req++;
					verify(CH_RSP, next_rsp, rbuf, rc);
					next_rsp++;
					continue;
				} else {
					rc = qb_ipcc_send(c, sbuf, len);
				}
				if (rc == (ssize_t)len) {
					exp_rsp += nrsp_of(next_req);
					exp_evt += nevt_of(next_req);
					next_req++;
					continue;
				}
				if (rc == -EAGAIN || rc == -ENOBUFS) { send_eagain++; break; }
				DIE("send #%u len %u: %zd (%s)", next_req, len, rc, strerror(-rc));
			}
		} else if (r < 75) {
			uint32_t k = 1 + crnd() % 8;
			while (k--) {
				rc = qb_ipcc_recv(c, rbuf, maxmsg, crnd() % 3);
				if (rc > 0) {
					if (next_rsp >= exp_rsp) DIE("response #%u arrived but only %u are owed", next_rsp, exp_rsp);
					verify(CH_RSP, next_rsp, rbuf, rc);
					next_rsp++;
				} else if (rc == -EAGAIN || rc == -ETIMEDOUT) {
					break;
				} else DIE("qb_ipcc_recv: %zd", rc);
			}
		} else if (r < 97) {
			uint32_t k = 1 + crnd() % (profile == 1 ? 300 : 8);
			if (pause_events > 0) { spins++; continue; }
			while (k--) {
				rc = qb_ipcc_event_recv(c, rbuf, maxmsg, crnd() % 3);
				if (rc > 0) {
					if (next_evt >= exp_evt) DIE("event #%u arrived but only %u are owed", next_evt, exp_evt);
					verify(CH_EVT, next_evt, rbuf, rc);
					next_evt++;
				} else if (rc == -EAGAIN || rc == -ETIMEDOUT) {
					break;
				} else DIE("qb_ipcc_event_recv: %zd", rc);
			}
		} else if (r < 98) {
			if (pause_events == 0 && crnd() % 4 == 0) pause_events = 300;	/* do not read events for a while */
		} else {
			usleep(crnd() % 3000);
		}
	}
	/* nothing else may show up */
	usleep(50000);
	{
		ssize_t rc = qb_ipcc_recv(c, rbuf, maxmsg, 0);
		if (rc > 0) DIE("extra response after the end (%zd bytes)", rc);
		rc = qb_ipcc_event_recv(c, rbuf, maxmsg, 0);
		if (rc > 0) DIE("extra event after the end (%zd bytes)", rc);
	}
	fprintf(stderr, "client: %u requests (refused %llu), %u responses, %u events, max=%zu\n",
		next_req, (unsigned long long)send_eagain, next_rsp, next_evt, maxmsg);
	qb_ipcc_disconnect(c);
	return 0;
}

struct thr_arg { const char *name; int type; int fd; };
static int thread_mode;
static void *server_thread(void *a)
{
	struct thr_arg *t = a;
	return (void *)(intptr_t)run_server(t->name, t->type, t->fd);
}

int main(int argc, char **argv)
{
	char name[64];
	int type, pfd[2], st_s = 0, st_c = 0;
	pid_t ps, pc;
	size_t climax;
	uint32_t nreq;
	char b;

	if (argc < 5) { fprintf(stderr, "usage: %s seed nreq shm|sock max [profile]\n", argv[0]); return 2; }
	seed = strtoull(argv[1], NULL, 0);
	nreq = atoi(argv[2]);
	type = strcmp(argv[3], "shm") == 0 ? QB_IPC_SHM : QB_IPC_SOCKET;
	climax = strtoul(argv[4], NULL, 0);
	profile = argc > 5 ? atoi(argv[5]) : 0;
	maxmsg = QB_MAX(climax, sizeof(struct qb_ipc_connection_response));
	s_nreq = nreq;
	snprintf(name, sizeof name, "huntC02s-%d", (int)getpid());
	signal(SIGPIPE, SIG_IGN);
	if (pipe(pfd)) return 2;
	if (getenv("STRESS_THREADS")) {
		/* both ends in one process (for -fsanitize=thread) */
		pthread_t th;
		static struct thr_arg ta;
		void *rv = NULL;
		int crc;
		ta.name = name; ta.type = type; ta.fd = pfd[1];
		thread_mode = 1;
		alarm(600);
		pthread_create(&th, NULL, server_thread, &ta);
		if (read(pfd[0], &b, 1) != 1) return 2;
		crc = run_client(name, climax, nreq);
		pthread_join(th, &rv);
		{
			char cmd[128];
			snprintf(cmd, sizeof cmd, "rm -rf /dev/shm/qb-%d-%d-* 2>/dev/null", (int)getpid(), (int)getpid());
			(void)!system(cmd);
		}
		printf("%s (threads) seed=%llu\n", (crc == 0 && rv == NULL) ? "OK" : "FAILED", (unsigned long long)seed);
		return !(crc == 0 && rv == NULL);
	}
	ps = fork();
	if (ps == 0) {
		close(pfd[0]);
		alarm(300);
		_exit(run_server(name, type, pfd[1]));
	}
	close(pfd[1]);
	if (read(pfd[0], &b, 1) != 1) { fprintf(stderr, "server failed to start\n"); return 2; }
	pc = fork();
	if (pc == 0) {
		alarm(300);
		_exit(run_client(name, climax, nreq));
	}
	waitpid(pc, &st_c, 0);
	if (!(WIFEXITED(st_c) && WEXITSTATUS(st_c) == 0)) {
		kill(ps, SIGKILL);
	}
	waitpid(ps, &st_s, 0);
	{
		char cmd[128];
		snprintf(cmd, sizeof cmd, "rm -rf /dev/shm/qb-%d-%d-* 2>/dev/null", (int)ps, (int)pc);
		(void)!system(cmd);
	}
	if (WIFEXITED(st_c) && WEXITSTATUS(st_c) == 0 && WIFEXITED(st_s) && WEXITSTATUS(st_s) == 0) {
		printf("OK seed=%llu nreq=%u type=%s max=%zu profile=%d\n", (unsigned long long)seed, nreq, argv[3], climax, profile);
		return 0;
	}
	printf("FAILED seed=%llu client status %x server status %x\n", (unsigned long long)seed, st_c, st_s);
	return 1;
}
