/*
 * Model based randomized tester for libqb IPC (property C02).
 *
 * Server and client live in ONE thread of ONE process; the "main loop" of the
 * server is a tiny poll table owned by this program, so the interleaving of
 * client calls, server dispatches, event sends, rate-limit changes ... is fully
 * determined by the seed.
 *
 * Reference model: three FIFO queues (requests, responses, events).  A message
 * is appended when the send call accepted it, and must be the one popped the
 * next time the matching receive side gets something.
 *
 * usage: fuzz <seed> <nops> <shm|sock> <client_max_msg_size> [server_enforced_size]
 *   environment knobs:
 *     FUZZ_V=1          trace every operation
 *     FUZZ_OVERSIZE=1|2 also try server-side sends of max+1..max+16 (1) / max+1..max+8192 (2) bytes
 *     FUZZ_SMALLBUF=n   % of receives done with a too small buffer (must fail, must not consume; default 4)
 *     FUZZ_TINY=n       % of messages that are a bare header + 0..8 bytes (deep queues)
 *     FUZZ_EVBURST=n    size of the big event bursts (default 400)
 *     FUZZ_LAZY=n       client skips n% of its event reads (fills the notification socket)
 *     FUZZ_EARLY=n      n events + 1 response are sent from the connection_created callback
 * exit 0 = all checks passed, 1 = violation (message on stderr), 3 = hang (watchdog)
 */
#define _GNU_SOURCE
#include "os_base.h"
#include <poll.h>
#include <signal.h>
#include <sys/uio.h>
#include <qb/qbdefs.h>
#include <qb/qbloop.h>
#include <qb/qbipcc.h>
#include <qb/qbipcs.h>
#include <qb/qblog.h>
#include "ipc_int.h"

/* ------------------------------------------------------------------ prng */
static uint64_t rng_s;
static uint32_t rnd(void)
{
	rng_s ^= rng_s << 13;
	rng_s ^= rng_s >> 7;
	rng_s ^= rng_s << 17;
	return (uint32_t)(rng_s >> 16);
}
static uint32_t rndn(uint32_t n) { return n ? rnd() % n : 0; }

static int verbose;
static int try_oversize;
static long opno;
static const char *cur_op = "?";
#define TR(...) do { if (verbose) { fprintf(stderr, "[%ld] ", opno); fprintf(stderr, __VA_ARGS__); fprintf(stderr, "\n"); } } while (0)

static void cleanup_shm(void);
static int nfail;
#define FAIL(...) do { fprintf(stderr, "VIOLATION at op %ld (%s): ", opno, cur_op); \
	fprintf(stderr, __VA_ARGS__); fprintf(stderr, "\n"); nfail++; \
	cleanup_shm(); exit(1); } while (0)

static void on_alarm(int s)
{
	static const char m[] = "HANG: watchdog fired\n";
	(void)s;
	(void)!write(2, m, sizeof m - 1);
	fprintf(stderr, "HANG at op %ld (%s)\n", opno, cur_op);
	cleanup_shm();
	_exit(3);
}

/* ------------------------------------------------------- server poll table */
#define MAXPE 64
struct pe {
	int used, fd, events;
	void *data;
	qb_ipcs_dispatch_fn_t fn;
};
static struct pe pes[MAXPE];

static int32_t my_dispatch_add(enum qb_loop_priority p, int32_t fd, int32_t ev,
			       void *data, qb_ipcs_dispatch_fn_t fn)
{
	int i;
	(void)p;
	for (i = 0; i < MAXPE; i++) {
		if (pes[i].used && pes[i].fd == fd) {
			return -EEXIST;
		}
	}
	for (i = 0; i < MAXPE; i++) {
		if (!pes[i].used) {
			pes[i].used = 1;
			pes[i].fd = fd;
			pes[i].events = ev;
			pes[i].data = data;
			pes[i].fn = fn;
			return 0;
		}
	}
	return -ENOMEM;
}

static int32_t my_dispatch_mod(enum qb_loop_priority p, int32_t fd, int32_t ev,
			       void *data, qb_ipcs_dispatch_fn_t fn)
{
	int i;
	(void)p;
	for (i = 0; i < MAXPE; i++) {
		if (pes[i].used && pes[i].fd == fd) {
			pes[i].events = ev;
			pes[i].data = data;
			pes[i].fn = fn;
			return 0;
		}
	}
	return -ENOENT;
}

static int32_t my_dispatch_del(int32_t fd)
{
	int i;
	for (i = 0; i < MAXPE; i++) {
		if (pes[i].used && pes[i].fd == fd) {
			pes[i].used = 0;
			return 0;
		}
	}
	return -ENOENT;
}

struct job { void *data; qb_loop_job_dispatch_fn fn; };
static struct job jobs[16];
static int njobs;
static int32_t my_job_add(enum qb_loop_priority p, void *data, qb_loop_job_dispatch_fn fn)
{
	(void)p;
	if (njobs == 16) return -ENOMEM;
	jobs[njobs].data = data;
	jobs[njobs].fn = fn;
	njobs++;
	return 0;
}

/* one round of the server's main loop; returns number of callbacks run */
static int server_step(void)
{
	struct pollfd pf[MAXPE];
	int idx[MAXPE];
	int n = 0, i, ran = 0;

	while (njobs > 0) {
		struct job j = jobs[0];
		memmove(&jobs[0], &jobs[1], sizeof(jobs[0]) * (njobs - 1));
		njobs--;
		j.fn(j.data);
	}
	for (i = 0; i < MAXPE; i++) {
		if (pes[i].used) {
			pf[n].fd = pes[i].fd;
			pf[n].events = pes[i].events;
			pf[n].revents = 0;
			idx[n] = i;
			n++;
		}
	}
	if (poll(pf, n, 0) <= 0) {
		return 0;
	}
	for (i = 0; i < n; i++) {
		struct pe *e = &pes[idx[i]];
		if (pf[i].revents == 0 || !e->used || e->fd != pf[i].fd) {
			continue;
		}
		ran++;
		if (e->fn(pf[i].fd, pf[i].revents, e->data) < 0) {
			if (e->used && e->fd == pf[i].fd) {
				e->used = 0;
			}
		}
	}
	return ran;
}

/* ------------------------------------------------------------- the model */
enum { CH_REQ, CH_RSP, CH_EVT, CH_N };
static const char *chname[] = { "request", "response", "event" };
struct mmsg { uint32_t seq; uint32_t len; uint32_t mode; };
#define QCAP 8192
struct mq { struct mmsg m[QCAP]; uint32_t head, count; uint32_t next_seq; uint64_t accepted, delivered; };
static struct mq q[CH_N];

static void mq_push(int ch, struct mmsg m)
{
	struct mq *Q = &q[ch];
	if (Q->count == QCAP) { fprintf(stderr, "model queue overflow\n"); exit(2); }
	Q->m[(Q->head + Q->count) % QCAP] = m;
	Q->count++;
	Q->accepted++;
}

static size_t hdr_size(int ch) { return ch == CH_REQ ? sizeof(struct qb_ipc_request_header) : sizeof(struct qb_ipc_response_header); }

/* fill buf with the canonical content of message (ch, seq, len, mode) */
static void msg_fill(int ch, struct mmsg m, unsigned char *buf)
{
	size_t h = hdr_size(ch);
	size_t i;
	uint64_t s = 0x9E3779B97F4A7C15ull * (m.seq + 1) + ch * 77 + m.len;

	memset(buf, 0, h < m.len ? h : m.len);
	if (ch == CH_REQ) {
		struct qb_ipc_request_header *rh = (void *)buf;
		rh->id = (int32_t)(m.seq & 0x7fffffff);
		rh->size = m.len;
	} else {
		struct qb_ipc_response_header *rh = (void *)buf;
		rh->id = (int32_t)(m.seq & 0x7fffffff);
		rh->size = m.len;
		rh->error = (int32_t)(m.seq * 3 + ch);
	}
	for (i = h; i < m.len; i++) {
		switch (m.mode) {
		case 0:
			s ^= s << 13; s ^= s >> 7; s ^= s << 17;
			buf[i] = (unsigned char)(s >> 24);
			break;
		case 1:		/* looks like a ring buffer chunk marker */
			buf[i] = 0xA1;
			break;
		case 2:
			buf[i] = 0;
			break;
		default:	/* words: small number followed by the chunk magic */
			buf[i] = ((i / 4) & 1) ? 0xA1 : ((i % 4) == 0 ? 0x10 : 0);
			break;
		}
	}
}

static unsigned char *scratch;	/* expected content */
static size_t scratch_size;

/* a message of (len) bytes arrived on channel ch: must be the model's head */
static void model_deliver(int ch, const void *data, ssize_t len)
{
	struct mq *Q = &q[ch];
	struct mmsg m;
	size_t i;

	if (Q->count == 0) {
		FAIL("%s channel delivered a %zd byte message but the model queue is empty (duplicate / phantom message)", chname[ch], len);
	}
	m = Q->m[Q->head];
	if ((size_t)len != m.len) {
		const struct qb_ipc_request_header *h = data;
		FAIL("%s #%u: delivered length %zd, sent length %u (hdr.id=%d hdr.size=%d)", chname[ch], m.seq, len, m.len,
		     len >= 16 ? h->id : -1, len >= 16 ? h->size : -1);
	}
	msg_fill(ch, m, scratch);
	if (memcmp(scratch, data, m.len) != 0) {
		const unsigned char *d = data;
		const struct qb_ipc_request_header *h = data;
		for (i = 0; i < m.len && d[i] == scratch[i]; i++) ;
		FAIL("%s #%u (len %u): content differs at byte %zu: got %02x want %02x (got hdr.id=%d, want id=%u: %s)",
		     chname[ch], m.seq, m.len, i, d[i], scratch[i], h->id, m.seq,
		     (uint32_t)h->id != (m.seq & 0x7fffffff) ? "out of order / lost / duplicated" : "corrupted");
	}
	Q->head = (Q->head + 1) % QCAP;
	Q->count--;
	Q->delivered++;
}

/* -------------------------------------------------------------- globals */
static qb_ipcs_service_t *svc;
static qb_ipcs_connection_t *sconn;	/* the server's side of our connection */
static qb_ipcc_connection_t *cli;
static int is_shm;
static size_t maxmsg;			/* negotiated */
static unsigned char *sendbuf, *recvbuf;
static size_t bufsize;
static int in_msg_process;
static int rate = QB_IPCS_RATE_NORMAL;
static int client_fc_max = 1;
static char svcname[64];
static uint64_t st_send_ok[CH_N], st_send_err[CH_N], st_recv_ok[CH_N], st_recv_none[CH_N];
static uint64_t st_soft_unreadable, st_oversize_accepted, st_oversize_rejected, st_small_buf;
static uint64_t st_deferred_notify;

static void cleanup_shm(void)
{
	/* remove only our own leftovers: /dev/shm/qb-<ourpid>-<ourpid>-* */
	char cmd[256];
	snprintf(cmd, sizeof cmd, "rm -rf /dev/shm/qb-%d-%d-* 2>/dev/null", (int)getpid(), (int)getpid());
	(void)!system(cmd);
}

static int smallbuf_pct = 4;
static int tiny_pct;
static int evburst = 400;
static int lazy_pct;	/* client skips this % of its event reads */
static int smallbuf_used;

/* message length generator: biased towards boundaries */
static uint32_t gen_len(int ch)
{
	uint32_t h = hdr_size(ch);
	uint32_t r = rndn(100);
	uint32_t len;

	if (tiny_pct && (int)rndn(100) < tiny_pct) {
		return h + rndn(9);
	}
	if (r < 25) {
		len = h + rndn(64);			/* bare header and a bit */
	} else if (r < 40) {
		len = maxmsg - rndn(40);		/* at / just under max */
	} else if (r < 55) {
		len = h + rndn(600);
	} else if (r < 65) {
		static const uint32_t pg[] = { 4096, 8192, 12288, 16384, 4096 * 5, 4096 * 8 };
		int32_t v = (int32_t)pg[rndn(6)] + (int32_t)rndn(41) - 20;	/* around page multiples */
		len = v;
	} else if (r < 75) {
		len = maxmsg / 2 + rndn(64) - 32;
	} else if (r < 80) {
		len = maxmsg / 3 + rndn(64);
	} else {
		len = h + rndn(maxmsg - h + 1);
	}
	if (len < h) len = h;
	if (len > maxmsg) len = maxmsg;
	return len;
}

/* split [buf,len) into a random iovec */
static int make_iov(struct iovec *iov, unsigned char *buf, size_t len, int ch)
{
	int n = 0;
	size_t off = 0;
	size_t h = hdr_size(ch);
	int parts = 1 + rndn(4);

	/* iov[0] must hold (at least) the header */
	iov[n].iov_base = buf;
	iov[n].iov_len = parts == 1 ? len : h + rndn(len - h + 1);
	off = iov[n].iov_len;
	n++;
	while (off < len) {
		size_t l = (n == parts) ? len - off : 1 + rndn(len - off);
		iov[n].iov_base = buf + off;
		iov[n].iov_len = l;
		off += l;
		n++;
		if (n == 7) {
			if (off < len) {
				iov[n].iov_base = buf + off;
				iov[n].iov_len = len - off;
				n++;
			}
			break;
		}
	}
	return n;
}

/* -------------------------------------------------------- server actions */
static int server_send(int ch, int oversize)
{
	struct mmsg m;
	ssize_t rc;
	int usev = rndn(2);
	struct iovec iov[9];
	int niov = 0;

	if (sconn == NULL) return 0;
	if (q[ch].count > QCAP - 4) return 0;
	m.seq = q[ch].next_seq;
	m.mode = rndn(10) < 6 ? 0 : 1 + rndn(3);
	if (oversize) {
		m.len = maxmsg + 1 + rndn(oversize > 1 ? 8192 : 16);
	} else {
		m.len = gen_len(ch);
	}
	msg_fill(ch, m, sendbuf);
	if (usev) niov = make_iov(iov, sendbuf, m.len, ch);

	if (ch == CH_RSP) {
		rc = usev ? qb_ipcs_response_sendv(sconn, iov, niov) : qb_ipcs_response_send(sconn, sendbuf, m.len);
	} else {
		rc = usev ? qb_ipcs_event_sendv(sconn, iov, niov) : qb_ipcs_event_send(sconn, sendbuf, m.len);
	}
	TR("server %s %s%s len=%u seq=%u -> %zd", chname[ch], usev ? "sendv" : "send", oversize ? " OVERSIZE" : "", m.len, m.seq, rc);
	if (rc == (ssize_t)m.len) {
		q[ch].next_seq++;
		mq_push(ch, m);
		st_send_ok[ch]++;
		if (oversize) st_oversize_accepted++;
		return 1;
	}
	if (rc >= 0) {
		FAIL("server %s send of %u bytes returned %zd (neither full length nor error)", chname[ch], m.len, rc);
	}
	if (oversize) st_oversize_rejected++;
	st_send_err[ch]++;
	return 0;
}

static void set_rate(int r)
{
	TR("rate limit -> %d", r);
	rate = r;
	qb_ipcs_request_rate_limit(svc, r);
}

static int mp_calls;
static int server_send(int ch, int oversize);
static int32_t s_msg_process(qb_ipcs_connection_t *c, void *data, size_t size)
{
	int k;
	int32_t ret = 0;

	mp_calls++;
	in_msg_process++;
	if (c != sconn) FAIL("msg_process on unknown connection");
	TR("  msg_process size=%zu id=%d", size, ((struct qb_ipc_request_header *)data)->id);
	model_deliver(CH_REQ, data, size);

	/* react */
	k = rndn(100);
	if (k < 45) {
		server_send(CH_RSP, 0);
	} else if (k < 50) {
		server_send(CH_RSP, 0);
		server_send(CH_RSP, 0);
	}
	k = rndn(100);
	if (k < 15) {
		int n = 1 + rndn(4);
		while (n--) server_send(CH_EVT, 0);
	}
	k = rndn(100);
	if (k < 4) {
		static const int rates[] = { QB_IPCS_RATE_FAST, QB_IPCS_RATE_NORMAL, QB_IPCS_RATE_SLOW, QB_IPCS_RATE_OFF, QB_IPCS_RATE_OFF_2 };
		set_rate(rates[rndn(5)]);
	}
	if (rndn(100) < 3) {
		ret = -EAGAIN;	/* "backoff" */
	}
	in_msg_process--;
	return ret;
}

static int32_t s_accept(qb_ipcs_connection_t *c, uid_t u, gid_t g) { (void)c; (void)u; (void)g; return 0; }
static int server_send(int ch, int oversize);
static int early_events;
static void s_created(qb_ipcs_connection_t *c)
{
	int i;
	sconn = c;
	if (early_events) {
		maxmsg = qb_ipcs_connection_get_buffer_size(c);
		bufsize = maxmsg + 3 * 8192 + 64;
		sendbuf = malloc(bufsize);
		scratch = malloc(bufsize);
	}
	/* FUZZ_EARLY=n: n events (and a response) are sent from the connection_created callback */
	for (i = 0; i < early_events; i++) server_send(CH_EVT, 0);
	if (early_events) server_send(CH_RSP, 0);
}
static int closed_seen;
static int32_t s_closed(qb_ipcs_connection_t *c) { (void)c; closed_seen++; return 0; }
static void s_destroyed(qb_ipcs_connection_t *c) { if (c == sconn) sconn = NULL; }

/* -------------------------------------------------------- client actions */

static void client_send(void)
{
	struct mmsg m;
	ssize_t rc;
	int usev = rndn(2);
	struct iovec iov[9];
	int niov;
	int over = (rndn(100) < 3);

	if (q[CH_REQ].count > QCAP - 4) return;
	/* single thread: qb_ipcc_send() of the shm transport spins while the
	 * setup socket is full, keep clear of that (it is exercised in the
	 * two-process mode instead). */
	if (is_shm && q[CH_REQ].count >= 200) return;

	m.seq = q[CH_REQ].next_seq;
	m.mode = rndn(10) < 6 ? 0 : 1 + rndn(3);
	m.len = over ? maxmsg + 1 + rndn(64) : gen_len(CH_REQ);
	msg_fill(CH_REQ, m, sendbuf);
	if (usev) {
		niov = make_iov(iov, sendbuf, m.len, CH_REQ);
		rc = qb_ipcc_sendv(cli, iov, niov);
	} else {
		rc = qb_ipcc_send(cli, sendbuf, m.len);
	}
	TR("client %s len=%u seq=%u -> %zd", usev ? "sendv" : "send", m.len, m.seq, rc);
	if (rc == (ssize_t)m.len) {
		if (over) FAIL("client send of %u > max %zu accepted", m.len, maxmsg);
		q[CH_REQ].next_seq++;
		mq_push(CH_REQ, m);
		st_send_ok[CH_REQ]++;
		return;
	}
	if (rc >= 0) FAIL("client send of %u bytes returned %zd", m.len, rc);
	if (over && rc != -EMSGSIZE) FAIL("client oversize send returned %zd, expected -EMSGSIZE", rc);
	if (!over && rc != -EAGAIN && rc != -ENOBUFS) {
		FAIL("client send len=%u unexpected error %zd (%s)", m.len, rc, strerror(-rc));
	}
	st_send_err[CH_REQ]++;
}

static void client_recv_rsp(void)
{
	ssize_t rc;
	size_t blen = maxmsg;
	int small = 0;

	if (q[CH_RSP].count > 0 && (int)rndn(100) < smallbuf_pct) {
		/* buffer too small for the head message: must fail, must not consume */
		struct mmsg m = q[CH_RSP].m[q[CH_RSP].head];
		if (m.len > 64) {
			blen = 32 + rndn(m.len - 32 - 1);
			small = 1;
		}
	}
	memset(recvbuf, 0x5a, 64);
	rc = qb_ipcc_recv(cli, recvbuf, blen, 0);
	TR("client recv(buf=%zu) -> %zd", blen, rc);
	if (small) {
		st_small_buf++;
		smallbuf_used = 1;
		if (rc >= 0) FAIL("recv into %zu byte buffer returned %zd though head response is %u bytes", blen, rc, q[CH_RSP].m[q[CH_RSP].head].len);
		return;
	}
	if (rc > 0) {
		model_deliver(CH_RSP, recvbuf, rc);
		st_recv_ok[CH_RSP]++;
		return;
	}
	if (rc == 0) FAIL("qb_ipcc_recv returned 0");
	if (rc != -EAGAIN && rc != -ETIMEDOUT) FAIL("qb_ipcc_recv error %zd (%s)", rc, strerror(-rc));
	if (q[CH_RSP].count > 0) {
		FAIL("qb_ipcc_recv returned %zd but %u accepted responses are undelivered (head seq %u len %u): lost or stuck",
		     rc, q[CH_RSP].count, q[CH_RSP].m[q[CH_RSP].head].seq, q[CH_RSP].m[q[CH_RSP].head].len);
	}
	st_recv_none[CH_RSP]++;
}

static int fd_readable(int fd)
{
	struct pollfd p = { .fd = fd, .events = POLLIN };
	return poll(&p, 1, 0) == 1 && (p.revents & POLLIN);
}

/* "While at least one event is queued and unread, the descriptor the client polls is readable." */
static void check_event_fd(int after_server_ran)
{
	int32_t fd = -1;

	if (cli == NULL || sconn == NULL) return;
	qb_ipcc_fd_get(cli, &fd);
	if (q[CH_EVT].count > 0 && !fd_readable(fd)) {
		if (sconn->outstanding_notifiers > 0 && !after_server_ran) {
			/* notification deferred until the server loop sees POLLOUT */
			st_soft_unreadable++;
			return;
		}
		FAIL("%u events are queued and unread but the client's fd %d is not readable (outstanding_notifiers=%d, after_server_ran=%d)",
		     q[CH_EVT].count, fd, sconn->outstanding_notifiers, after_server_ran);
	}
}

static void client_recv_evt(void)
{
	ssize_t rc;
	size_t blen = maxmsg;
	int small = 0;
	int32_t fd;
	int readable;

	qb_ipcc_fd_get(cli, &fd);
	readable = fd_readable(fd);
	if (q[CH_EVT].count > 0 && (int)rndn(100) < smallbuf_pct) {
		struct mmsg m = q[CH_EVT].m[q[CH_EVT].head];
		if (m.len > 64) {
			blen = 32 + rndn(m.len - 32 - 1);
			small = 1;
		}
	}
	rc = qb_ipcc_event_recv(cli, recvbuf, blen, 0);
	TR("client event_recv(buf=%zu) -> %zd (fd readable=%d)", blen, rc, readable);
	if (small) {
		st_small_buf++;
		smallbuf_used = 1;
		if (rc >= 0) FAIL("event_recv into %zu byte buffer returned %zd though head event is %u bytes", blen, rc, q[CH_EVT].m[q[CH_EVT].head].len);
		return;
	}
	if (rc > 0) {
		model_deliver(CH_EVT, recvbuf, rc);
		st_recv_ok[CH_EVT]++;
		return;
	}
	if (rc == 0) FAIL("qb_ipcc_event_recv returned 0");
	if (rc != -EAGAIN && rc != -ETIMEDOUT) FAIL("qb_ipcc_event_recv error %zd (%s)", rc, strerror(-rc));
	if (q[CH_EVT].count > 0) {
		if (is_shm && sconn && sconn->outstanding_notifiers > 0 && !readable) {
			st_deferred_notify++;
			return;
		}
		FAIL("qb_ipcc_event_recv returned %zd but %u accepted events are undelivered (fd readable=%d, outstanding=%d)",
		     rc, q[CH_EVT].count, readable, sconn ? sconn->outstanding_notifiers : -1);
	}
	st_recv_none[CH_EVT]++;
}

/* ---------------------------------------------------------------- setup */
static void do_connect(int type, size_t climax, uint32_t enforce)
{
	struct qb_ipcs_service_handlers sh = {
		.connection_accept = s_accept,
		.connection_created = s_created,
		.msg_process = s_msg_process,
		.connection_closed = s_closed,
		.connection_destroyed = s_destroyed,
	};
	struct qb_ipcs_poll_handlers ph = {
		.job_add = my_job_add,
		.dispatch_add = my_dispatch_add,
		.dispatch_mod = my_dispatch_mod,
		.dispatch_del = my_dispatch_del,
	};
	int cfd = -1;
	int i, rc;

	snprintf(svcname, sizeof svcname, "huntC02-%d-%u", (int)getpid(), (unsigned)rnd() % 100000);
	svc = qb_ipcs_create(svcname, 4711, type, &sh);
	if (!svc) { perror("qb_ipcs_create"); exit(2); }
	qb_ipcs_poll_handlers_set(svc, &ph);
	if (enforce) qb_ipcs_enforce_buffer_size(svc, enforce);
	rc = qb_ipcs_run(svc);
	if (rc != 0) { fprintf(stderr, "qb_ipcs_run: %d\n", rc); exit(2); }

	cli = qb_ipcc_connect_async(svcname, climax, &cfd);
	if (!cli) { perror("qb_ipcc_connect_async"); exit(2); }
	for (i = 0; i < 10 && sconn == NULL; i++) {
		server_step();
	}
	if (sconn == NULL) { fprintf(stderr, "server did not accept\n"); exit(2); }
	rc = qb_ipcc_connect_continue(cli);
	if (rc != 0) { fprintf(stderr, "connect_continue: %d\n", rc); cli = NULL; cleanup_shm(); exit(2); }
	maxmsg = qb_ipcc_get_buffer_size(cli);
	if ((size_t)qb_ipcs_connection_get_buffer_size(sconn) != maxmsg) {
		FAIL("client and server disagree on max_msg_size: %zu vs %d", maxmsg, qb_ipcs_connection_get_buffer_size(sconn));
	}
}

static void drain_all(void)
{
	int idle = 0;
	int guard = 0;

	cur_op = "drain";
	set_rate(QB_IPCS_RATE_NORMAL);
	qb_ipcc_fc_enable_max_set(cli, 1);
	while (idle < 3 && guard++ < 200000) {
		uint64_t before = q[CH_REQ].delivered + q[CH_RSP].delivered + q[CH_EVT].delivered;
		opno++;
		alarm(30);
		server_step();
		if (rate != QB_IPCS_RATE_NORMAL) set_rate(QB_IPCS_RATE_NORMAL);
		check_event_fd(1);
		while (q[CH_RSP].count > 0) client_recv_rsp();
		while (q[CH_EVT].count > 0) {
			uint64_t d = q[CH_EVT].delivered;
			client_recv_evt();
			if (q[CH_EVT].delivered == d) break;
		}
		if (before == q[CH_REQ].delivered + q[CH_RSP].delivered + q[CH_EVT].delivered) idle++;
		else idle = 0;
	}
	if (q[CH_REQ].count || q[CH_RSP].count || q[CH_EVT].count) {
		FAIL("after draining: %u requests, %u responses, %u events accepted but never delivered",
		     q[CH_REQ].count, q[CH_RSP].count, q[CH_EVT].count);
	}
	/* nothing more may arrive */
	client_recv_rsp();
	client_recv_evt();
	server_step();
}

int main(int argc, char **argv)
{
	uint64_t seed;
	long nops, i;
	size_t climax;
	uint32_t enforce = 0;
	int type;

	if (argc < 5) {
		fprintf(stderr, "usage: %s seed nops shm|sock client_max [enforce]\n", argv[0]);
		return 2;
	}
	seed = strtoull(argv[1], NULL, 0);
	nops = atol(argv[2]);
	is_shm = strcmp(argv[3], "shm") == 0;
	type = is_shm ? QB_IPC_SHM : QB_IPC_SOCKET;
	climax = strtoul(argv[4], NULL, 0);
	if (argc > 5) enforce = strtoul(argv[5], NULL, 0);
	verbose = getenv("FUZZ_V") != NULL;
	try_oversize = getenv("FUZZ_OVERSIZE") ? atoi(getenv("FUZZ_OVERSIZE")) : 0;
	if (getenv("FUZZ_SMALLBUF")) smallbuf_pct = atoi(getenv("FUZZ_SMALLBUF"));
	if (getenv("FUZZ_TINY")) tiny_pct = atoi(getenv("FUZZ_TINY"));
	if (getenv("FUZZ_EVBURST")) evburst = atoi(getenv("FUZZ_EVBURST"));
	if (getenv("FUZZ_LAZY")) lazy_pct = atoi(getenv("FUZZ_LAZY"));
	if (getenv("FUZZ_EARLY")) early_events = atoi(getenv("FUZZ_EARLY"));
	rng_s = seed * 0x9E3779B97F4A7C15ull + 0x1234567;
	if (rng_s == 0) rng_s = 1;
	for (i = 0; i < 8; i++) rnd();

	signal(SIGALRM, on_alarm);
	signal(SIGPIPE, SIG_IGN);
	alarm(30);
	if (getenv("FUZZ_LOG")) {
		qb_log_init("fuzz", LOG_USER, LOG_EMERG);
		qb_log_ctl(QB_LOG_SYSLOG, QB_LOG_CONF_ENABLED, QB_FALSE);
		qb_log_filter_ctl(QB_LOG_STDERR, QB_LOG_FILTER_ADD, QB_LOG_FILTER_FILE, "*", LOG_TRACE);
		qb_log_ctl(QB_LOG_STDERR, QB_LOG_CONF_ENABLED, QB_TRUE);
	}

	do_connect(type, climax, enforce);
	bufsize = maxmsg + 3 * 8192 + 64;
	if (!sendbuf) sendbuf = malloc(bufsize);
	/* exactly maxmsg, so that ASan sees any write beyond the caller's buffer */
	recvbuf = malloc(maxmsg);
	scratch_size = bufsize;
	if (!scratch) scratch = malloc(scratch_size);

	for (i = 0; i < nops; i++) {
		uint32_t r = rndn(1000);
		opno = i;
		alarm(30);
		if (r < 330) {
			cur_op = "client_send";
			client_send();
		} else if (r < 530) {
			int n = 1 + rndn(3);
			cur_op = "server_step";
			TR("server_step x%d", n);
			while (n--) server_step();
			check_event_fd(1);
		} else if (r < 650) {
			cur_op = "client_recv_rsp";
			client_recv_rsp();
		} else if (r < 770) {
			cur_op = "client_recv_evt";
			if ((int)rndn(100) >= lazy_pct) client_recv_evt();
		} else if (r < 900) {
			int n = 1 + rndn(rndn(10) == 0 ? evburst : 6);
			cur_op = "server_event_send";
			while (n--) {
				if (!server_send(CH_EVT, 0)) break;
			}
			check_event_fd(0);
		} else if (r < 930) {
			cur_op = "server_async_response";
			server_send(CH_RSP, 0);
		} else if (r < 955) {
			static const int rates[] = { QB_IPCS_RATE_FAST, QB_IPCS_RATE_NORMAL, QB_IPCS_RATE_SLOW, QB_IPCS_RATE_OFF, QB_IPCS_RATE_OFF_2, QB_IPCS_RATE_NORMAL };
			cur_op = "rate";
			set_rate(rates[rndn(6)]);
		} else if (r < 965) {
			cur_op = "fc_enable_max";
			client_fc_max = rndn(3);
			TR("client fc_enable_max=%d", client_fc_max);
			qb_ipcc_fc_enable_max_set(cli, client_fc_max);
		} else if (r < 980) {
			/* burst of client sends */
			int n = 1 + rndn(120);
			cur_op = "client_send_burst";
			while (n--) client_send();
		} else if (r < 985 && rndn(3) == 0) {
			/* the client catches up with all events (fill / drain cycles of the notification socket) */
			int guard = 0;
			cur_op = "client_drain_events";
			TR("client drains %u events", q[CH_EVT].count);
			while (q[CH_EVT].count > 0 && guard++ < 3 * QCAP) {
				uint64_t d = q[CH_EVT].delivered;
				client_recv_evt();
				if (q[CH_EVT].delivered == d) {
					server_step();	/* deferred notifications need the server loop */
					check_event_fd(1);
				}
			}
		} else if (r < 990) {
			if (try_oversize) {
				cur_op = "server_oversize";
				server_send(rndn(2) ? CH_RSP : CH_EVT, try_oversize);
			}
		} else {
			/* burst of receives */
			int n = 1 + rndn(60);
			cur_op = "client_recv_burst";
			while (n--) { if (rndn(2)) client_recv_rsp(); else if ((int)rndn(100) >= lazy_pct) client_recv_evt(); }
		}
		/* a recv into a too small buffer (-ENOBUFS) flips is_connected for good; not part of C02 */
		if (cli && !smallbuf_used && !qb_ipcc_is_connected(cli)) {
			FAIL("client lost the connection");
		}
		if (sconn == NULL) {
			FAIL("server dropped the connection");
		}
	}
	drain_all();

	printf("OK seed=%llu type=%s max=%zu ops=%ld | req ok/err %llu/%llu delivered %llu | rsp ok/err %llu/%llu delivered %llu | evt ok/err %llu/%llu delivered %llu | "
	       "smallbuf %llu soft-unreadable %llu deferred %llu oversize acc/rej %llu/%llu\n",
	       (unsigned long long)seed, is_shm ? "shm" : "sock", maxmsg, nops,
	       (unsigned long long)st_send_ok[CH_REQ], (unsigned long long)st_send_err[CH_REQ], (unsigned long long)q[CH_REQ].delivered,
	       (unsigned long long)st_send_ok[CH_RSP], (unsigned long long)st_send_err[CH_RSP], (unsigned long long)q[CH_RSP].delivered,
	       (unsigned long long)st_send_ok[CH_EVT], (unsigned long long)st_send_err[CH_EVT], (unsigned long long)q[CH_EVT].delivered,
	       (unsigned long long)st_small_buf, (unsigned long long)st_soft_unreadable, (unsigned long long)st_deferred_notify,
	       (unsigned long long)st_oversize_accepted, (unsigned long long)st_oversize_rejected);

	alarm(30);
	qb_ipcc_disconnect(cli);
	cli = NULL;
	for (i = 0; i < 5; i++) server_step();
	qb_ipcs_destroy(svc);
	cleanup_shm();
	free(sendbuf); free(recvbuf); free(scratch);
	return 0;
}
