#!/bin/sh
# long batch: model fuzz (single process) + two-process stress
cd /tmp/hunt-C02
export LD_LIBRARY_PATH=/repo/lib/.libs ASAN_OPTIONS=detect_leaks=0
mkdir -p logs
run() { # name cmd...
  n=$1; shift
  "$@" > logs/$n.log 2>&1 || echo "FAIL $n: $*" >> logs/FAILS
}

j=0
for s in 103 104 105 106 107 108; do
 for t in shm sock; do
  for m in 0 12329 16371 16372 20467 24563 65536 262144 1000000; do
    run fz-$s-$t-$m ./c02fuzz $s 40000 $t $m &
    j=$((j+1)); [ $((j % 12)) -eq 0 ] && wait
  done
  FUZZ_TINY=70 run fzt-$s-$t ./c02fuzz $s 40000 $t 0 &
  FUZZ_TINY=100 FUZZ_EVBURST=2000 FUZZ_LAZY=70 run fzl-$s-$t ./c02fuzz $s 40000 $t 200000 &
  j=$((j+2)); [ $((j % 12)) -eq 0 ] && wait
 done
done
wait
echo FUZZBATCH DONE >> logs/FAILS
