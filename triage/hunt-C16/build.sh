#!/bin/sh
# usage: build.sh [tree] [prefix]  -> <prefix>.asan, <prefix>.tsan, <prefix>.plain (prefix defaults to 'fuzz')
TREE=${1:-/repo}
PFX=${2:-fuzz}
HERE=$(cd "$(dirname "$0")" && pwd)
LIBS=$TREE/lib/.libs
INC="-DHAVE_CONFIG_H -I$TREE/include -I$TREE/include/qb -I$TREE/lib"
set -e
build() { # name flags
	name=$1; shift
	d=$HERE/obj.$PFX.$name; mkdir -p $d
	for f in log.c log_file.c log_format.c log_dcs.c log_syslog.c log_blackbox.c util.c; do
		gcc -g -O1 -w $INC "$@" -c $TREE/lib/$f -o $d/${f%.c}.o
	done
	gcc -g -O1 -w $INC "$@" -Dprintf=fz_printf -c $TREE/lib/log_thread.c -o $d/log_thread.o
	gcc -g -O1 -Wall $INC "$@" -c $HERE/fuzz.c -o $d/fuzz.o
	gcc -g "$@" -o $HERE/$PFX.$name $d/*.o -L$LIBS -lqb -lpthread -ldl
}
build asan -fsanitize=address,undefined -fno-omit-frame-pointer
build tsan -fsanitize=thread -fno-omit-frame-pointer
build plain
echo built
