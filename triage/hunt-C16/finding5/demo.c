/*
 * C16 finding 5: error path of qb_log_thread_start().
 *
 * If creating the queue lock fails (out of memory), qb_log_thread_start()
 * returns an error but leaves wthread_active == QB_TRUE with
 * logt_wthread_lock == NULL.  From then on
 *   - a retried qb_log_thread_start() returns 0 although no thread exists, and
 *   - qb_log_fini() -> qb_log_thread_stop() takes the "thread is running"
 *     branch and locks the NULL lock: SIGSEGV.
 *
 * lib/util.c is compiled into this program with -Dmalloc=demo_malloc so that the
 * one allocation in qb_thread_lock_create() can be made to fail once.
 */
#define _GNU_SOURCE
#include <stdio.h>
#include <stdlib.h>
#include <string.h>
#include <signal.h>
#include <errno.h>
#include <unistd.h>
#include <qb/qbdefs.h>
#include <qb/qblog.h>

static int fail_next_malloc;

void *demo_malloc(size_t n)
{
	if (fail_next_malloc) {
		fail_next_malloc = 0;
		errno = ENOMEM;
		return NULL;
	}
	return malloc(n);
}

static void on_segv(int sig)
{
	static const char m[] = "VIOLATION: SIGSEGV in qb_log_fini() after a failed qb_log_thread_start()\n";
	(void)sig;
	if (write(1, m, sizeof(m) - 1)) {}
	_exit(1);
}

static int got;
static void logger(int32_t t, struct qb_log_callsite *cs, struct timespec *ts, const char *msg)
{
	(void)t; (void)cs; (void)ts; (void)msg;
	got++;
}

int main(void)
{
	int t, rc1, rc2;

	signal(SIGSEGV, on_segv);
	qb_log_init("c16f5", LOG_USER, LOG_EMERG);
	qb_log_ctl(QB_LOG_SYSLOG, QB_LOG_CONF_ENABLED, QB_FALSE);
	t = qb_log_custom_open(logger, NULL, NULL, NULL);
	qb_log_filter_ctl(t, QB_LOG_FILTER_ADD, QB_LOG_FILTER_FILE, "*", LOG_TRACE);
	qb_log_ctl(t, QB_LOG_CONF_THREADED, QB_TRUE);
	qb_log_ctl(t, QB_LOG_CONF_ENABLED, QB_TRUE);

	fail_next_malloc = 1;
	rc1 = qb_log_thread_start();
	printf("qb_log_thread_start() with ENOMEM for the lock = %d\n", rc1);
	if (fail_next_malloc) {
		printf("(allocation hook was not reached - cannot judge)\n");
		return 99;
	}
	rc2 = qb_log_thread_start();
	printf("qb_log_thread_start() retried                   = %d\n", rc2);
	qb_log_from_external_source("f", "demo.c", "%s", LOG_INFO, 100, 0, "hello");
	fflush(stdout);
	qb_log_fini();
	printf("fini returned, target got %d line(s)\n", got);
	if (got != 1) {
		printf("VIOLATION: message not written exactly once\n");
		return 1;
	}
	printf("OK\n");
	return 0;
}
