#!/bin/sh
# usage: demo.sh <tree>   (exit 0 = property held, non-zero = violated)
TREE=${1:-/repo}
HERE=$(cd "$(dirname "$0")" && pwd)
LIBS=$TREE/lib/.libs
[ -f "$LIBS/libqb.so" ] || LIBS=/repo/lib/.libs
OUT=$(mktemp -d /tmp/hunt-C16-f5.XXXXXX)
INC="-DHAVE_CONFIG_H -I$TREE/include -I$TREE/include/qb -I$TREE/lib"
SRCS=""
for f in log.c log_thread.c log_file.c log_format.c log_dcs.c log_syslog.c log_blackbox.c; do SRCS="$SRCS $TREE/lib/$f"; done
gcc -g -O1 -w $INC -Dmalloc=demo_malloc -c $TREE/lib/util.c -o $OUT/util.o || { echo "build failed"; exit 99; }
gcc -g -O1 -w $INC -o $OUT/demo $HERE/demo.c $OUT/util.o $SRCS -L$LIBS -lqb -lpthread -ldl || { echo "build failed"; exit 99; }
LD_LIBRARY_PATH=$LIBS timeout 60 $OUT/demo
rc=$?
rm -rf $OUT
exit $rc
