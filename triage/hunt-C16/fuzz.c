/*
 * C16 model-based randomized tester for libqb threaded logging.
 *
 * One producer/control thread (main) drives random sequences of
 *   init / fini / re-init / thread_start / priority_set /
 *   custom_open / custom_close / file_open / file_close / file_reopen /
 *   ctl(ENABLED|THREADED|EXTENDED|MAX_LINE_LEN|misc) / filter add+remove /
 *   log (all sizes, bursts that exceed the 512000 byte backlog)
 * against a reference model; the library's logging thread delivers into sinks
 * (custom logger callbacks or real files) which are checked for
 *   - exactly-once, in-order delivery            (DUP / ORDER)
 *   - payload integrity                          (CORRUPT)
 *   - synchronous targets see the line at once   (SYNC)
 *   - nothing missing at fini except what was reported as
 *     "N messages lost"                          (LOST / LOSTCOUNT)
 *   - nothing delivered after fini returned      (LATE)
 *   - return codes of control operations         (RC)
 *   - no hang (watchdog)                         (HANG)
 * Losses that are a direct consequence of a control operation on a target with
 * a backlog (disable/close/unthread/filter removal) are counted as "soft" and
 * only reported in the summary.
 *
 * usage: fuzz <seed> <ops> [profile]
 */
#define _GNU_SOURCE
#include <stdio.h>
#include <stdlib.h>
#include <string.h>
#include <stdarg.h>
#include <stdint.h>
#include <unistd.h>
#include <errno.h>
#include <pthread.h>
#include <sched.h>
#include <signal.h>
#include <sys/stat.h>
#include <qb/qbdefs.h>
#include <qb/qblog.h>

#define NT 6			/* model targets: 0,1 = file, 2..5 = custom */
#define NFILE 2
#define MAXMSG 60000		/* messages per init..fini cycle */
#define TRACE 400

struct msg {
	int len;		/* expected length delivered (after truncation) */
	int xc;			/* position of QB_XC or -1 */
	uint32_t sync_mask;	/* model targets that must see it synchronously */
	uint32_t q_mask;	/* model targets it was queued for */
	uint32_t opt_mask;	/* queued targets for which loss is excusable */
	uint32_t deliv_mask;	/* targets that got it (filled in by harvest) */
	uint32_t extra_mask;	/* targets for which an extra (dup/unaddressed) delivery is a known control-op artefact */
};

struct sink_ent { int seq; };

struct tgt {
	int open, pos, enabled, threaded, filtered, extended, maxll;
	int epoch_start;	/* first seq of this incarnation */
	struct sink_ent *sink;
	volatile int n;
	int hn;			/* entries seen by the last harvest */
	char fname[256];
	volatile int slow_us;
};

static struct msg *msgs;
static struct tgt T[NT];
static volatile int pos2idx[QB_LOG_TARGET_MAX];
static int posfilt[QB_LOG_TARGET_MAX];	/* a closed slot keeps its filters (qb_log_target_free passes text=NULL) */
static pthread_mutex_t sink_mtx = PTHREAD_MUTEX_INITIALIZER;
static volatile int fini_done;	/* set after fini returns until next init */
static int inited, thread_running;
static int nseq;		/* next seq in this cycle */
static volatile long reported_lost;
static volatile unsigned long progress;
static unsigned long long nops, nlogged, ncycles;
static long hard, soft_loss, soft_order, soft_stale, soft_extra;
static int strict_extra;
static long total_reported;
static unsigned seed0;
static char rundir[256];

static char trace[TRACE][160];
static int tracen;

static uint64_t rs;
static uint32_t rnd(void)
{
	rs ^= rs << 13; rs ^= rs >> 7; rs ^= rs << 17;
	return (uint32_t)(rs >> 16);
}
static int rr(int lo, int hi) { return lo + (int)(rnd() % (uint32_t)(hi - lo + 1)); }

static void tr(const char *fmt, ...)
{
	va_list ap;
	va_start(ap, fmt);
	vsnprintf(trace[tracen % TRACE], sizeof(trace[0]), fmt, ap);
	va_end(ap);
	tracen++;
}

static void dump_trace(void)
{
	int i, s = tracen > TRACE ? tracen - TRACE : 0;
	fprintf(stderr, "  last ops (seed %u, op %llu):\n", seed0, nops);
	for (i = s; i < tracen; i++) fprintf(stderr, "    %s\n", trace[i % TRACE]);
}

static int stop_on_fail = 1;
static void fail(const char *kind, const char *fmt, ...)
{
	va_list ap;
	fprintf(stderr, "VIOLATION[%s] ", kind);
	va_start(ap, fmt);
	vfprintf(stderr, fmt, ap);
	va_end(ap);
	fprintf(stderr, "\n");
	dump_trace();
	hard++;
	if (stop_on_fail) exit(1);
}

/* "N messages lost" hook: log_thread.c is compiled with -Dprintf=fz_printf */
int fz_printf(const char *fmt, ...)
{
	va_list ap;
	int n = 0;
	va_start(ap, fmt);
	if (strcmp(fmt, "%d messages lost\n") == 0) {
		n = va_arg(ap, int);
		__atomic_add_fetch(&reported_lost, n, __ATOMIC_SEQ_CST);
	}
	va_end(ap);
	return 0;
}

static void body(int seq, int len, int xc, char *out)
{
	int i;
	snprintf(out, 16, "S%07d:", seq);
	for (i = 9; i < len; i++) out[i] = 'a' + (char)((seq * 7 + i * 13) % 26);
	if (xc >= 9 && xc < len) out[xc] = QB_XC;
	out[len] = 0;
}

static void sink_add(int idx, const char *m)
{
	int seq = -1, ok = 1;
	struct tgt *t = &T[idx];
	size_t l = strlen(m);
	char exp[QB_LOG_ABSOLUTE_MAX_LEN + 8];

	if (sscanf(m, "S%7d:", &seq) != 1 || seq < 0 || seq >= nseq + 1 || seq >= MAXMSG) {
		fail("CORRUPT", "target idx %d got unparsable line '%.40s' len %zu", idx, m, l);
		return;
	}
	/* verify payload */
	{
		struct msg *mm = &msgs[seq];
		body(seq, mm->len, mm->xc, exp);
		if (idx < NFILE) {
			/* file lines are additionally cut to the file target's own line length */
			size_t minl = (size_t)(mm->len < 500 ? mm->len : 500);
			if (mm->xc >= 0 && mm->xc < mm->len) {
				int cut = (l == (size_t)mm->xc);
				if (!cut) exp[mm->xc] = '|';
				if ((size_t)mm->xc < minl) minl = (size_t)mm->xc;
			}
			ok = (l <= (size_t)mm->len && l >= minl && memcmp(exp, m, l < 480 ? l : 480) == 0);
		} else if (mm->xc >= 0 && mm->xc < mm->len) {
			/* either '|' in place of marker, or cut at marker */
			int full = (l == (size_t)mm->len);
			int cut = (l == (size_t)mm->xc);
			if (full) { exp[mm->xc] = '|'; ok = (memcmp(exp, m, l) == 0); }
			else if (cut) { ok = (memcmp(exp, m, l) == 0); }
			else ok = 0;
		} else {
			ok = (l == (size_t)mm->len && memcmp(exp, m, l) == 0);
		}
		if (!ok) fail("CORRUPT", "target idx %d seq %d: got len %zu, expected len %d xc %d", idx, seq, l, mm->len, mm->xc);
	}
	pthread_mutex_lock(&sink_mtx);
	if (fini_done) {
		pthread_mutex_unlock(&sink_mtx);
		fail("LATE", "target idx %d: seq %d written after qb_log_fini() returned", idx, seq);
		return;
	}
	if (t->n < MAXMSG * 2) t->sink[t->n++].seq = seq;
	pthread_mutex_unlock(&sink_mtx);
	progress++;
}

static void cb_logger(int32_t pos, struct qb_log_callsite *cs, struct timespec *ts, const char *m)
{
	int idx = pos2idx[pos];
	int s;
	(void)cs; (void)ts;
	if (idx < 0) {
		fail("STRAY", "logger called for pos %d which the model has closed: '%.20s'", pos, m);
		return;
	}
	s = T[idx].slow_us;
	if (s == 1) sched_yield();
	else if (s > 1) usleep(s);
	sink_add(idx, m);
}
static volatile int in_cb_close;
static void cb_close(int32_t pos) { (void)pos; in_cb_close++; }

/* pull a file target's lines into its sink (only called when quiescent) */
static void slurp(int idx)
{
	struct tgt *t = &T[idx];
	FILE *f = fopen(t->fname, "r");
	static char line[QB_LOG_ABSOLUTE_MAX_LEN * 2];
	t->n = 0;
	if (!f) return;
	while (fgets(line, sizeof(line), f)) {
		size_t l = strlen(line);
		if (l && line[l - 1] == '\n') line[--l] = 0;
		{
			int was = fini_done;
			fini_done = 0;
			sink_add(idx, line);
			fini_done = was;
		}
	}
	fclose(f);
}

/* snapshot: everything queued for idx and not yet delivered becomes optional */
static void make_optional(int idx)
{
	int i, last = -1, n;
	struct tgt *t = &T[idx];
	if (idx < NFILE) {
		/* cannot cheaply know; mark all queued ones optional */
		for (i = t->epoch_start; i < nseq; i++)
			if (msgs[i].q_mask & (1u << idx)) msgs[i].opt_mask |= 1u << idx;
		return;
	}
	pthread_mutex_lock(&sink_mtx);
	n = t->n;
	if (n) last = t->sink[n - 1].seq;
	pthread_mutex_unlock(&sink_mtx);
	for (i = (last < t->epoch_start ? t->epoch_start : last + 1); i < nseq; i++)
		if (msgs[i].q_mask & (1u << idx)) msgs[i].opt_mask |= 1u << idx;
}

/* filter removal clears the call sites' target bits one call site at a time while the
 * worker keeps going, so the records it skips need not be a suffix of what was queued */
static void make_optional_scattered(int idx)
{
	struct tgt *t = &T[idx];
	int k, n, lo, last = -1;
	make_optional(idx);
	if (idx < NFILE) return;
	pthread_mutex_lock(&sink_mtx);
	n = t->n;
	if (n) last = t->sink[n - 1].seq;
	lo = last - 2000;
	if (lo < t->epoch_start) lo = t->epoch_start;
	for (k = lo; k <= last; k++)
		if (msgs[k].q_mask & (1u << idx)) msgs[k].opt_mask |= 1u << idx;
	/* ... except those that did arrive */
	for (k = n - 1; k >= 0 && k > n - 4000; k--)
		if (t->sink[k].seq >= lo) msgs[t->sink[k].seq].opt_mask &= ~(1u << idx);
	pthread_mutex_unlock(&sink_mtx);
}

/* idx starts to take part in queued delivery: records still in the queue may reach it too */
static void allow_extra(int idx)
{
	int i;
	if (strict_extra) return;
	for (i = 0; i < nseq; i++)
		if (msgs[i].q_mask) msgs[i].extra_mask |= 1u << idx;
}

/* account for everything target idx received in its current incarnation
 * (called when it is quiescent: after close returned, after fini returned) */
static void harvest(int idx)
{
	struct tgt *t = &T[idx];
	int i, prev = -1, n;
	uint32_t bit = 1u << idx;
	static unsigned char *seen;
	if (!seen) seen = malloc(MAXMSG);
	memset(seen, 0, MAXMSG);
	if (idx < NFILE) slurp(idx);
	pthread_mutex_lock(&sink_mtx);
	n = t->n;
	pthread_mutex_unlock(&sink_mtx);
	for (i = 0; i < n; i++) {
		int s = t->sink[i].seq;
		struct msg *m = &msgs[s];
		if (!((m->sync_mask | m->q_mask) & bit) || s < t->epoch_start) {
			if (s < t->epoch_start) { soft_stale++; continue; }
			if (m->extra_mask & bit) { soft_extra++; continue; }
			fail("STRAY", "target idx %d received seq %d which was never addressed to it", idx, s);
		}
		if (seen[s]) {
			if (m->extra_mask & bit) { soft_extra++; continue; }
			fail("DUP", "target idx %d received seq %d twice", idx, s);
		}
		seen[s] = 1;
		m->deliv_mask |= bit;
		if (s < prev && (m->extra_mask & bit)) soft_order++;
		else if (s < prev) {
			/* excusable only if an optional (control-op affected) message is involved */
			if ((m->opt_mask & bit) || (msgs[prev].opt_mask & bit)) soft_order++;
			else fail("ORDER", "target idx %d received seq %d after seq %d", idx, s, prev);
		}
		if (s > prev) prev = s;
	}
	pthread_mutex_lock(&sink_mtx);
	if (t->n != n) {
		pthread_mutex_unlock(&sink_mtx);
		fail("LATE", "target idx %d still receiving after it was closed/finalised", idx);
		return;
	}
	t->hn = n;
	t->n = 0;
	pthread_mutex_unlock(&sink_mtx);
	if (idx < NFILE) unlink(t->fname);
}

static void do_init(void)
{
	int i;
	tr("qb_log_init");
	qb_log_init("c16fuzz", LOG_USER, LOG_EMERG);
	qb_log_ctl(QB_LOG_SYSLOG, QB_LOG_CONF_ENABLED, QB_FALSE);
	inited = 1;
	pthread_mutex_lock(&sink_mtx);
	fini_done = 0;
	pthread_mutex_unlock(&sink_mtx);
	nseq = 0;
	reported_lost = 0;
	for (i = 0; i < NT; i++) { T[i].open = 0; T[i].n = 0; T[i].epoch_start = 0; if (i < NFILE) unlink(T[i].fname); }
	for (i = 0; i < QB_LOG_TARGET_MAX; i++) { pos2idx[i] = -1; posfilt[i] = 0; }
	ncycles++;
}

static void do_fini(void)
{
	int i;
	long missing_must = 0, distinct_must = 0, distinct_any = 0, rl;
	int first_tgt = -1;
	static char *lostflag;
	if (!lostflag) lostflag = malloc(MAXMSG);
	tr("qb_log_fini (inited=%d thread=%d)", inited, thread_running);
	qb_log_fini();
	if (!inited) return;
	pthread_mutex_lock(&sink_mtx);
	fini_done = 1;
	pthread_mutex_unlock(&sink_mtx);
	inited = 0;
	thread_running = 0;
	memset(lostflag, 0, MAXMSG);
	for (i = 0; i < NT; i++) harvest(i);
	for (i = 0; i < nseq; i++) {
		struct msg *m = &msgs[i];
		uint32_t need = (m->sync_mask | m->q_mask) & ~m->deliv_mask;
		int k;
		for (k = 0; need && k < NT; k++) {
			uint32_t bit = 1u << k;
			if (!(need & bit)) continue;
			if (m->sync_mask & bit) fail("SYNC", "target idx %d never got synchronous seq %d", k, i);
			else if (m->opt_mask & bit) { soft_loss++; lostflag[i] |= 2; }
			else { lostflag[i] |= 1; missing_must++; if (first_tgt < 0) first_tgt = k; }
		}
	}
	for (i = 0; i < nseq; i++) {
		if (lostflag[i] & 1) distinct_must++;
		if (lostflag[i]) distinct_any++;
	}
	rl = reported_lost;
	total_reported += rl;
	if (distinct_must > rl) {
		int first = -1;
		for (i = 0; i < nseq; i++) if (lostflag[i] & 1) { first = i; break; }
		{
			int k, j;
			struct tgt *tt = &T[first_tgt];
			fprintf(stderr, "DIAG: missing seq %d len %d xc %d sync %x q %x opt %x extra %x; neighbours:\n", first,
				msgs[first].len, msgs[first].xc, msgs[first].sync_mask, msgs[first].q_mask, msgs[first].opt_mask, msgs[first].extra_mask);
			for (j = first - 3; j <= first + 3; j++) if (j >= 0 && j < nseq)
				fprintf(stderr, "DIAG:   seq %d len %d sync %x q %x deliv %x opt %x\n", j, msgs[j].len, msgs[j].sync_mask, msgs[j].q_mask, msgs[j].deliv_mask, msgs[j].opt_mask);
			for (k = 0; k < tt->hn; k++) if (abs(tt->sink[k].seq - first) <= 3)
				fprintf(stderr, "DIAG:   sink[%d] = seq %d\n", k, tt->sink[k].seq);
		}
		fail("LOST", "%ld message(s) (first seq %d of %d, q_mask %x deliv %x opt %x, target idx %d) queued but never written by the time qb_log_fini() returned; only %ld reported as lost",
		     distinct_must, first, nseq, msgs[first].q_mask, msgs[first].deliv_mask, msgs[first].opt_mask, first_tgt, rl);
	} else if (rl > distinct_any) {
		fail("LOSTCOUNT", "%ld messages reported lost but only %ld are missing", rl, distinct_any);
	}
	for (i = 0; i < NT; i++) { T[i].open = 0; }
	for (i = 0; i < QB_LOG_TARGET_MAX; i++) pos2idx[i] = -1;
}


static void do_open(int idx)
{
	struct tgt *t = &T[idx];
	int pos;
	if (t->open || !inited) return;
	if (idx < NFILE) {
		unlink(t->fname);
		pos = qb_log_file_open(t->fname);
	} else {
		pos = qb_log_custom_open(cb_logger, rr(0, 1) ? cb_close : NULL, NULL, NULL);
	}
	tr("open idx %d -> pos %d", idx, pos);
	if (pos < QB_LOG_TARGET_DYNAMIC_START || pos > QB_LOG_TARGET_DYNAMIC_END) {
		fail("RC", "open returned %d", pos);
		return;
	}
	if (pos2idx[pos] != -1) fail("RC", "open returned pos %d already in use", pos);
	/* a closed slot keeps its old filter list (not part of C16): start clean */
	if (posfilt[pos]) {
		(void)qb_log_filter_ctl(pos, QB_LOG_FILTER_REMOVE, QB_LOG_FILTER_FILE, "*", LOG_TRACE);
		posfilt[pos] = 0;
	}
	t->open = 1; t->pos = pos; t->enabled = 0; t->threaded = 0; t->filtered = 0;
	t->extended = 1; t->maxll = QB_LOG_MAX_LEN; t->epoch_start = nseq;
	pthread_mutex_lock(&sink_mtx);
	t->n = 0;
	pthread_mutex_unlock(&sink_mtx);
	pos2idx[pos] = idx;
	/* a re-used slot inherits threaded/extended/max_line_length of the closed target: start clean */
	qb_log_ctl(pos, QB_LOG_CONF_THREADED, 0);
	qb_log_ctl(pos, QB_LOG_CONF_EXTENDED, 1);
	qb_log_ctl(pos, QB_LOG_CONF_MAX_LINE_LEN, QB_LOG_MAX_LEN);
	if (idx < NFILE) qb_log_format_set(pos, "%b");
}

static void do_close(int idx)
{
	struct tgt *t = &T[idx];
	if (!t->open) return;
	tr("close idx %d pos %d (en=%d thr=%d)", idx, t->pos, t->enabled, t->threaded);
	/* stop the model from accepting deliveries only after the call returns */
	if (idx < NFILE) qb_log_file_close(t->pos); else qb_log_custom_close(t->pos);
	make_optional(idx);
	harvest(idx);
	t->open = 0; t->enabled = 0;
	/* keep pos2idx so that late deliveries are attributed (soft) rather than crash the model */
	pos2idx[t->pos] = -1;
}

static void ctl_expect(int idx, int c, int arg, int exp)
{
	int rc = qb_log_ctl(T[idx].pos, c, arg);
	if (rc != exp) fail("RC", "qb_log_ctl(pos %d, conf %d, %d) = %d, expected %d", T[idx].pos, c, arg, rc, exp);
}

static void do_log(int len, int xc)
{
	static char buf[QB_LOG_ABSOLUTE_MAX_LEN * 2 + 16];
	struct msg *m;
	int i, maxll = 0, any_thr = 0;
	int seq = nseq;
	static const int linenos[] = { 10, 11, 12, 500 };

	if (!inited) {
		body(0, len < 9 ? 9 : len, -1, buf);
		qb_log_from_external_source("fn", "fuzz.c", "%s", LOG_INFO, 10, 0, buf);
		return;
	}
	if (seq >= MAXMSG - 1) return;
	if (len < 9) len = 9;
	m = &msgs[seq];
	memset(m, 0, sizeof(*m));
	for (i = 0; i < NT; i++) {
		struct tgt *t = &T[i];
		if (t->open && t->enabled && t->filtered) {
			if (t->maxll > maxll) maxll = t->maxll;
			if (t->threaded && thread_running) { m->q_mask |= 1u << i; any_thr = 1; }
			else m->sync_mask |= 1u << i;
		}
	}
	body(seq, len, xc, buf);
	m->len = len;
	if (maxll && len > maxll - 1) m->len = maxll - 1;
	m->xc = xc;
	nseq = seq + 1;
	__atomic_thread_fence(__ATOMIC_SEQ_CST);
	qb_log_from_external_source("fn", "fuzz.c", "%s", (uint8_t)rr(LOG_EMERG, LOG_DEBUG),
				    (uint32_t)linenos[rnd() % 4], 0, buf);
	nlogged++;
	(void)any_thr;
	/* synchronous targets must have it now, as their newest line */
	for (i = NFILE; i < NT; i++) {
		if (m->sync_mask & (1u << i)) {
			struct tgt *t = &T[i];
			int last = -1;
			pthread_mutex_lock(&sink_mtx);
			if (t->n) last = t->sink[t->n - 1].seq;
			pthread_mutex_unlock(&sink_mtx);
			if (last != seq) {
				/* if this target has a queued backlog (it was threaded a moment ago) the
				 * worker may append behind us: look back a little */
				int k, found = 0;
				pthread_mutex_lock(&sink_mtx);
				for (k = t->n - 1; k >= 0 && k > t->n - 2000; k--) if (t->sink[k].seq == seq) { found = 1; break; }
				pthread_mutex_unlock(&sink_mtx);
				if (!found) fail("SYNC", "non-queued target idx %d did not get seq %d synchronously (last %d)", i, seq, last);
			}
		}
	}
}

static int pick_len(void)
{
	switch (rnd() % 12) {
	case 0: return 9;
	case 1: return rr(9, 20);
	case 2: return rr(505, 520);
	case 3: return rr(4090, 4100);
	case 4: return rr(4000, 8000);
	case 5: case 6: return rr(9, 600);
	case 7: return rr(9, 4200);
	default: return rr(9, 120);
	}
}

static void *watchdog(void *arg)
{
	unsigned long last = 0, lastops = 0;
	int idle = 0;
	(void)arg;
	for (;;) {
		sleep(1);
		if (progress == last && nops == lastops) idle++; else idle = 0;
		last = progress; lastops = nops;
		if (idle >= 30) {
			fprintf(stderr, "VIOLATION[HANG] no progress for 30s\n");
			dump_trace();
			_exit(3);
		}
	}
	return NULL;
}

int main(int argc, char **argv)
{
	unsigned long long maxops;
	int profile, i;
	pthread_t wd;

	seed0 = argc > 1 ? (unsigned)strtoul(argv[1], NULL, 0) : 1;
	maxops = argc > 2 ? strtoull(argv[2], NULL, 0) : 100000;
	profile = argc > 3 ? atoi(argv[3]) : 0;
	if (getenv("FUZZ_KEEP_GOING")) stop_on_fail = 0;
	if (getenv("FUZZ_STRICT_EXTRA")) strict_extra = 1;
	rs = 0x9E3779B97F4A7C15ull ^ ((uint64_t)seed0 * 0xD1B54A32D192ED03ull);
	for (i = 0; i < 8; i++) rnd();

	snprintf(rundir, sizeof(rundir), "/tmp/hunt-C16/run/%d", (int)getpid());
	mkdir("/tmp/hunt-C16/run", 0755);
	mkdir(rundir, 0755);
	msgs = calloc(MAXMSG, sizeof(*msgs));
	for (i = 0; i < NT; i++) {
		T[i].sink = calloc(MAXMSG * 2, sizeof(struct sink_ent));
		snprintf(T[i].fname, sizeof(T[i].fname), "%s/f%d.log", rundir, i);
	}
	for (i = 0; i < QB_LOG_TARGET_MAX; i++) pos2idx[i] = -1;
	pthread_create(&wd, NULL, watchdog, NULL);

	/* profile 0: general; 1: thread started before init sometimes, many short cycles;
	 * 2: backlog heavy (slow sinks, large messages); 3: control-op heavy */
	for (nops = 0; nops < maxops; nops++) {
		int r = rr(0, 999);
		int idx = rr(0, NT - 1);
		struct tgt *t = &T[idx];

		if (!inited) {
			if (r < 700) do_init();
			else if (r < 760) {
				int rc = qb_log_thread_start();
				tr("thread_start (not inited) = %d", rc);
				if (rc == 0) thread_running = 1;
			} else if (r < 800) do_fini();
			else if (r < 900) do_log(pick_len(), -1);
			else {
				int rc = qb_log_ctl(rr(0, 8), QB_LOG_CONF_ENABLED, 1);
				if (rc != -EINVAL) fail("RC", "ctl while not inited = %d", rc);
			}
			continue;
		}

		if (profile == 4) {
			/* pure delivery: no loss-inducing control operation at all, so every
			 * message must arrive exactly once or be reported lost */
			int q = rr(0, 99);
			if (!T[2].open) {
				int rc;
				do_open(2);
				rc = qb_log_filter_ctl(T[2].pos, QB_LOG_FILTER_ADD, QB_LOG_FILTER_FILE, "*", LOG_TRACE);
				if (rc) fail("RC", "filter add = %d", rc);
				T[2].filtered = 1; posfilt[T[2].pos] = 1;
				ctl_expect(2, QB_LOG_CONF_THREADED, 1, 0); T[2].threaded = 1;
				ctl_expect(2, QB_LOG_CONF_ENABLED, 1, 0); T[2].enabled = 1;
				if (rr(0, 3)) { rc = qb_log_thread_start(); if (rc == 0) thread_running = 1; tr("thread_start = %d", rc); }
			}
			if (q < 70) r = 0;		/* log */
			else if (q < 80) r = 990;	/* burst */
			else if (q < 85) r = 950;	/* sleep */
			else if (q < 90) { r = 860; idx = 2; t = &T[2]; }	/* slow */
			else if (q < 93) r = 970;	/* fini */
			else if (q < 97) { r = 800; idx = 2; t = &T[2]; }	/* harmless ctl */
			else r = 750;			/* thread_start */
		}
		if (profile == 1 && r >= 900) r = 970;	/* more fini */
		if (profile == 2 && r < 300) r = 985;	/* more bursts */
		if (profile == 3 && r < 400) r = 600 + r % 360;

		if (r < 600) {
			int xc = (rnd() % 8 == 0) ? rr(9, 300) : -1;
			do_log(pick_len(), xc);
			tr("log seq %d", nseq - 1);
		} else if (r < 640) {
			do_open(idx);
			if (t->open && rr(0, 3)) {	/* usually finish the setup right away */
				int rc = qb_log_filter_ctl(t->pos, QB_LOG_FILTER_ADD, QB_LOG_FILTER_FILE, "*", LOG_TRACE);
				if (rc == 0 || (rc == -EEXIST && t->filtered)) { t->filtered = 1; posfilt[t->pos] = 1; } else fail("RC", "filter add = %d", rc);
				if (rr(0, 1)) { ctl_expect(idx, QB_LOG_CONF_THREADED, 1, 0); t->threaded = 1; }
				ctl_expect(idx, QB_LOG_CONF_ENABLED, 1, 0); t->enabled = 1;
				allow_extra(idx);
				tr("  setup idx %d thr=%d", idx, t->threaded);
			}
		} else if (r < 655) {
			do_close(idx);
		} else if (r < 700) {
			if (!t->open) {
				int rc = qb_log_ctl(rr(QB_LOG_TARGET_DYNAMIC_START + NT, QB_LOG_TARGET_MAX - 1), QB_LOG_CONF_ENABLED, 1);
				if (rc != -EBADF) fail("RC", "ctl on unused slot = %d", rc);
				continue;
			}
			if (t->enabled && rr(0, 2) == 0) {
				tr("disable idx %d (thr=%d)", idx, t->threaded);
				ctl_expect(idx, QB_LOG_CONF_ENABLED, 0, 0);
				make_optional(idx);
				t->enabled = 0;
				/* the close callback ran for custom targets; file targets lose their FILE */
				if (idx < NFILE) { /* _file_close: instance NULL -> writes are dropped silently */
					/* model: file target disabled then enabled again writes nothing: treat as closed */
					qb_log_file_close(t->pos);
					harvest(idx);
					t->open = 0; pos2idx[t->pos] = -1;
				}
			} else if (!t->enabled) {
				tr("enable idx %d (thr=%d)", idx, t->threaded);
				ctl_expect(idx, QB_LOG_CONF_ENABLED, 1, 0);
				t->enabled = 1;
				allow_extra(idx);
			}
		} else if (r < 740) {
			int on;
			if (!t->open) continue;
			on = rr(0, 1);
			tr("threaded idx %d = %d", idx, on);
			ctl_expect(idx, QB_LOG_CONF_THREADED, on, 0);
			if (t->threaded && !on) make_optional(idx);
			if (!t->threaded && on) { make_optional(idx); allow_extra(idx); }	/* stale backlog may now re-appear */
			t->threaded = on;
		} else if (r < 770) {
			int rc = qb_log_thread_start();
			tr("thread_start = %d (was %d)", rc, thread_running);
			if (rc == 0) thread_running = 1;
			else if (thread_running) fail("RC", "thread_start on running thread = %d", rc);
		} else if (r < 780) {
			int rc;
			if (rr(0, 1)) {
				rc = qb_log_thread_priority_set(SCHED_OTHER, 0);
				tr("priority_set(OTHER,0) = %d", rc);
				if (rc != 0) fail("RC", "priority_set(SCHED_OTHER) = %d", rc);
			} else {
				rc = qb_log_thread_priority_set(SCHED_FIFO, 9999);
				tr("priority_set(FIFO,9999) = %d", rc);
				if (thread_running && rc == 0) fail("RC", "bad priority accepted on running thread");
			}
		} else if (r < 820) {
			int k, v;
			if (!t->open) continue;
			k = rr(0, 7);
			if (idx < NFILE && (k == 1 || k == 7)) k = 3;
			switch (k) {
			case 0: v = rr(0, 1); tr("extended idx %d = %d", idx, v); ctl_expect(idx, QB_LOG_CONF_EXTENDED, v, 0); t->extended = v; break;
			case 1: {
				static const int lens[] = { 16, 64, 511, 512, 513, 1024, 4095, 4096 };
				v = lens[rnd() % 8];
				tr("maxll idx %d = %d", idx, v);
				ctl_expect(idx, QB_LOG_CONF_MAX_LINE_LEN, v, 0); t->maxll = v; break;
			}
			case 2: ctl_expect(idx, QB_LOG_CONF_MAX_LINE_LEN, rr(4097, 100000), -EINVAL); break;
			case 3: ctl_expect(idx, QB_LOG_CONF_FILE_SYNC, rr(0, 1), 0); break;
			case 4: ctl_expect(idx, QB_LOG_CONF_PRIORITY_BUMP, rr(-2, 2), 0); break;
			case 5: ctl_expect(idx, QB_LOG_CONF_SIZE, 4096, -ENOSYS); break;
			case 6: ctl_expect(idx, QB_LOG_CONF_STATE_GET, 0, t->enabled ? QB_LOG_STATE_ENABLED : QB_LOG_STATE_DISABLED); break;
			case 7: ctl_expect(idx, QB_LOG_CONF_ELLIPSIS, rr(0, 1), 0); break;
			}
		} else if (r < 850) {
			int rc;
			if (!t->open) continue;
			if (t->filtered) {
				tr("filter remove idx %d", idx);
				rc = qb_log_filter_ctl(t->pos, QB_LOG_FILTER_REMOVE, QB_LOG_FILTER_FILE, "*", LOG_TRACE);
				if (rc) fail("RC", "filter remove = %d", rc);
				make_optional_scattered(idx);
				t->filtered = 0; posfilt[t->pos] = 0;
			} else {
				tr("filter add idx %d", idx);
				rc = qb_log_filter_ctl(t->pos, QB_LOG_FILTER_ADD, QB_LOG_FILTER_FILE, "*", LOG_TRACE);
				if (rc) fail("RC", "filter add = %d", rc);
				make_optional(idx);
				allow_extra(idx);
				t->filtered = 1; posfilt[t->pos] = 1;
			}
		} else if (r < 880) {
			static const int sl[] = { 0, 0, 0, 1, 1, 20, 100, 500 };
			t->slow_us = sl[rnd() % 8];
			tr("slow idx %d = %d", idx, t->slow_us);
		} else if (r < 900) {
			int rc;
			if (idx >= NFILE || !t->open) continue;
			tr("file_reopen idx %d", idx);
			rc = qb_log_file_reopen(t->pos, rr(0, 1) ? NULL : t->fname);
			if (rc) fail("RC", "file_reopen = %d", rc);
		} else if (r < 960) {
			int u = rr(0, 3) ? rr(0, 200) : rr(200, 3000);
			usleep(u);
		} else if (r < 980) {
			tr("fini");
			do_fini();
		} else {
			/* burst: try to exceed the 512000 byte backlog */
			int n = rr(20, 400), k, big = rr(0, 2);
			int j, oldslow[NT];
			tr("burst n=%d big=%d", n, big);
			for (j = 0; j < NT; j++) { oldslow[j] = T[j].slow_us; if (big == 2 && T[j].threaded) T[j].slow_us = 300; }
			for (k = 0; k < n; k++) do_log(big ? rr(3000, 4200) : pick_len(), -1);
			for (j = 0; j < NT; j++) T[j].slow_us = oldslow[j];
		}
	}
	if (inited) do_fini();
	printf("seed %u profile %d: ops %llu logged %llu cycles %llu hard %ld soft_loss %ld soft_order %ld soft_stale %ld soft_extra %ld reported_lost %ld\n",
	       seed0, profile, nops, nlogged, ncycles, hard, soft_loss, soft_order, soft_stale, soft_extra, total_reported);
	{
		char cmd[300];
		snprintf(cmd, sizeof(cmd), "rm -rf %s", rundir);
		if (system(cmd)) {}
	}
	return hard ? 1 : 0;
}
