#!/bin/sh
# runbatch.sh <binary> <libtree> <first-seed> <count> <ops> <tag>
BIN=$1; TREE=$2; S0=$3; N=$4; OPS=$5; TAG=$6
export LD_LIBRARY_PATH=$TREE/lib/.libs
export ASAN_OPTIONS=detect_leaks=0 UBSAN_OPTIONS=print_stacktrace=1
export TSAN_OPTIONS="halt_on_error=0 report_signal_unsafe=0"
i=0
while [ $i -lt $N ]; do
  s=$((S0+i))
  ./$BIN $s $OPS ${PROFILE:-$((s%4))} > run/$TAG.$s.log 2>&1
  echo "exit=$?" >> run/$TAG.$s.log
  i=$((i+1))
done
