/*
 * C16 finding 3: a queued record is matched against the target configuration
 * at the time the logging thread gets round to it, not at the time it was logged.
 *
 *  (a) switching a target to threaded while records are still queued (for
 *      another threaded target) makes the newly threaded target receive lines
 *      it has already written synchronously: duplicates, out of order.
 *  (b) switching a threaded target back to non-threaded while it has a backlog
 *      silently discards the backlog for that target (nothing is reported as
 *      lost) and later lines overtake the discarded ones.
 *
 * Only public API, one producer thread; the "slow" target just sleeps 50ms per line.
 */
#define _GNU_SOURCE
#include <stdio.h>
#include <stdlib.h>
#include <string.h>
#include <unistd.h>
#include <pthread.h>
#include <qb/qbdefs.h>
#include <qb/qblog.h>

static int tA, tB;
static pthread_mutex_t mtx = PTHREAD_MUTEX_INITIALIZER;
static int gotB[64], nB;
static int gotA[64], nA;

static void logger(int32_t t, struct qb_log_callsite *cs, struct timespec *ts, const char *msg)
{
	int n = -1;
	(void)cs; (void)ts;
	sscanf(msg, "m%d", &n);
	if (t == tA) usleep(50 * 1000);
	pthread_mutex_lock(&mtx);
	if (t == tA) gotA[nA++] = n; else gotB[nB++] = n;
	pthread_mutex_unlock(&mtx);
}

static void say(int n)
{
	char b[16];
	snprintf(b, sizeof(b), "m%d", n);
	qb_log_from_external_source("f", "demo.c", "%s", LOG_INFO, 100, 0, b);
}

static int check(const char *name, int *got, int n, int expect_n)
{
	int i, bad = 0, seen[64] = { 0 };
	printf("%s received %d line(s):", name, n);
	for (i = 0; i < n; i++) printf(" m%d", got[i]);
	printf("\n");
	for (i = 0; i < n; i++) {
		if (seen[got[i]]++) { printf("VIOLATION: %s got m%d more than once\n", name, got[i]); bad = 1; }
		if (i && got[i] < got[i - 1]) { printf("VIOLATION: %s got m%d after m%d\n", name, got[i], got[i - 1]); bad = 1; }
	}
	for (i = 0; i < expect_n; i++)
		if (!seen[i]) { printf("VIOLATION: %s never got m%d (and nothing was reported lost)\n", name, i); bad = 1; }
	return bad;
}

int main(int argc, char **argv)
{
	int bad = 0, i;
	int part = argc > 1 ? atoi(argv[1]) : 0;

	qb_log_init("c16f3", LOG_USER, LOG_EMERG);
	qb_log_ctl(QB_LOG_SYSLOG, QB_LOG_CONF_ENABLED, QB_FALSE);
	tA = qb_log_custom_open(logger, NULL, NULL, NULL);
	tB = qb_log_custom_open(logger, NULL, NULL, NULL);
	qb_log_filter_ctl(tA, QB_LOG_FILTER_ADD, QB_LOG_FILTER_FILE, "*", LOG_TRACE);
	qb_log_filter_ctl(tB, QB_LOG_FILTER_ADD, QB_LOG_FILTER_FILE, "*", LOG_TRACE);
	qb_log_ctl(tA, QB_LOG_CONF_THREADED, QB_TRUE);
	qb_log_ctl(tA, QB_LOG_CONF_ENABLED, QB_TRUE);
	qb_log_ctl(tB, QB_LOG_CONF_ENABLED, QB_TRUE);
	if (qb_log_thread_start() != 0) return 2;

	if (part == 0) {
		/* (a) B is synchronous for m0..m3, then becomes threaded */
		for (i = 0; i < 4; i++) say(i);
		qb_log_ctl(tB, QB_LOG_CONF_THREADED, QB_TRUE);
		for (i = 4; i < 6; i++) say(i);
		qb_log_fini();
		printf("--- (a) set B threaded while A still has a backlog\n");
		bad |= check("A", gotA, nA, 6);
		bad |= check("B", gotB, nB, 6);
	} else {
		/* (b) A is threaded for m0..m3, then becomes synchronous */
		for (i = 0; i < 4; i++) say(i);
		qb_log_ctl(tA, QB_LOG_CONF_THREADED, QB_FALSE);
		for (i = 4; i < 6; i++) say(i);
		qb_log_fini();
		printf("--- (b) set A non-threaded while it has a backlog\n");
		bad |= check("A", gotA, nA, 6);
		bad |= check("B", gotB, nB, 6);
	}
	if (!bad) printf("OK\n");
	return bad;
}
