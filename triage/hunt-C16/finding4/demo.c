/*
 * C16 finding 4: QB_LOG_CONF_THREADED is accepted for the blackbox target, but
 * the blackbox target has no string logger (lib/log_blackbox.c sets
 * t->logger = NULL, t->vlogger = _blackbox_vlogger).  The threaded write path
 * (qb_log_thread_log_write) calls t->logger unconditionally -> call through NULL,
 * in the producer (thread not started) or in the logging thread (started).
 */
#define _GNU_SOURCE
#include <stdio.h>
#include <stdlib.h>
#include <string.h>
#include <signal.h>
#include <unistd.h>
#include <qb/qbdefs.h>
#include <qb/qblog.h>

static void on_segv(int sig)
{
	static const char m[] = "VIOLATION: SIGSEGV while logging to the threaded blackbox target (call through NULL t->logger)\n";
	(void)sig;
	if (write(1, m, sizeof(m) - 1)) {}
	_exit(1);
}

int main(int argc, char **argv)
{
	int rc;
	int start_thread = argc > 1 ? atoi(argv[1]) : 0;

	signal(SIGSEGV, on_segv);
	qb_log_init("c16f4", LOG_USER, LOG_EMERG);
	qb_log_ctl(QB_LOG_SYSLOG, QB_LOG_CONF_ENABLED, QB_FALSE);
	qb_log_ctl(QB_LOG_BLACKBOX, QB_LOG_CONF_SIZE, 4096);
	qb_log_filter_ctl(QB_LOG_BLACKBOX, QB_LOG_FILTER_ADD, QB_LOG_FILTER_FILE, "*", LOG_TRACE);
	rc = qb_log_ctl(QB_LOG_BLACKBOX, QB_LOG_CONF_THREADED, QB_TRUE);
	printf("qb_log_ctl(QB_LOG_BLACKBOX, QB_LOG_CONF_THREADED, QB_TRUE) = %d\n", rc);
	if (rc != 0) {
		printf("OK: refused\n");
		qb_log_fini();
		return 0;
	}
	rc = qb_log_ctl(QB_LOG_BLACKBOX, QB_LOG_CONF_ENABLED, QB_TRUE);
	printf("enable = %d\n", rc);
	if (start_thread) {
		rc = qb_log_thread_start();
		printf("qb_log_thread_start() = %d\n", rc);
	}
	fflush(stdout);
	qb_log_from_external_source("f", "demo.c", "%s", LOG_INFO, 100, 0, "hello");
	qb_log_fini();
	printf("OK: message logged, fini returned\n");
	return 0;
}
