#!/bin/sh
# usage: demo.sh <tree>   (exit 0 = property held, non-zero = violated)
TREE=${1:-/repo}
HERE=$(cd "$(dirname "$0")" && pwd)
LIBS=$TREE/lib/.libs
[ -f "$LIBS/libqb.so" ] || LIBS=/repo/lib/.libs
OUT=$(mktemp -d /tmp/hunt-C16-f4.XXXXXX)
SRCS=""
for f in log.c log_thread.c log_file.c log_format.c log_dcs.c log_syslog.c log_blackbox.c; do SRCS="$SRCS $TREE/lib/$f"; done
gcc -g -O1 -w -DHAVE_CONFIG_H -I$TREE/include -I$TREE/include/qb -I$TREE/lib \
    -o $OUT/demo $HERE/demo.c $SRCS -L$LIBS -lqb -lpthread -ldl || { echo "build failed"; exit 99; }
rc=0
LD_LIBRARY_PATH=$LIBS timeout 60 $OUT/demo 0 || rc=1
LD_LIBRARY_PATH=$LIBS timeout 60 $OUT/demo 1 || rc=1
rm -rf $OUT; rm -f /dev/shm/qb-c16f4-*
exit $rc
