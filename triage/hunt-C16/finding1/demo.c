/*
 * C16 finding 1: qb_log_fini() can return with a queued message never written.
 *
 * The only "unusual" thing this program does is delay ONE sem_post() call (the
 * one qb_log_thread_stop() makes right after it has set wthread_should_exit),
 * which is exactly what a preemption of the finalising thread at that point
 * would do.  Everything else is plain public API.
 */
#define _GNU_SOURCE
#include <dlfcn.h>
#include <semaphore.h>
#include <stdio.h>
#include <stdlib.h>
#include <string.h>
#include <unistd.h>
#include <pthread.h>
#include <qb/qbdefs.h>
#include <qb/qblog.h>

static volatile int delay_next_post;	/* set by main just before qb_log_fini() */
static volatile int delivered[64];
static volatile int n_delivered;
static volatile int fini_returned;
static volatile int late;

int sem_post(sem_t *s)
{
	static int (*real)(sem_t *);
	if (!real) {
		real = (int (*)(sem_t *))dlsym(RTLD_NEXT, "sem_post");
	}
	if (delay_next_post) {
		delay_next_post = 0;
		usleep(400 * 1000);	/* "preempted" between unlock and sem_post */
	}
	return real(s);
}

static void sink(int32_t t, struct qb_log_callsite *cs, struct timespec *ts, const char *msg)
{
	int n = -1;
	(void)t; (void)cs; (void)ts;
	sscanf(msg, "m%d", &n);
	usleep(20 * 1000);	/* a slow target: 20ms per line */
	if (fini_returned) late++;
	delivered[n_delivered++] = n;
}

#define NMSG 5

int main(void)
{
	int t, i, bad = 0;

	qb_log_init("c16f1", LOG_USER, LOG_EMERG);
	qb_log_ctl(QB_LOG_SYSLOG, QB_LOG_CONF_ENABLED, QB_FALSE);
	t = qb_log_custom_open(sink, NULL, NULL, NULL);
	qb_log_filter_ctl(t, QB_LOG_FILTER_ADD, QB_LOG_FILTER_FILE, "*", LOG_TRACE);
	qb_log_ctl(t, QB_LOG_CONF_THREADED, QB_TRUE);
	qb_log_ctl(t, QB_LOG_CONF_ENABLED, QB_TRUE);
	if (qb_log_thread_start() != 0) {
		fprintf(stderr, "thread start failed\n");
		return 2;
	}
	for (i = 0; i < NMSG; i++) {
		qb_log_from_external_source(__func__, __FILE__, "%s", LOG_INFO, 100, 0,
					    (i == 0) ? "m0" : (i == 1) ? "m1" : (i == 2) ? "m2" : (i == 3) ? "m3" : "m4");
	}
	delay_next_post = 1;
	qb_log_fini();
	fini_returned = 1;
	usleep(100 * 1000);

	printf("logged %d messages, target received %d:", NMSG, n_delivered);
	for (i = 0; i < n_delivered; i++) printf(" m%d", delivered[i]);
	printf("\n");
	if (n_delivered != NMSG) {
		printf("VIOLATION: qb_log_fini() returned but %d queued message(s) were never written\n",
		       NMSG - n_delivered);
		bad = 1;
	}
	for (i = 0; i < n_delivered; i++) if (delivered[i] != i) { printf("VIOLATION: order/dup at %d\n", i); bad = 1; }
	if (late) { printf("VIOLATION: %d message(s) written after fini returned\n", late); bad = 1; }
	if (!bad) printf("OK: all messages written once, in order, before fini returned\n");
	return bad;
}
