#!/bin/sh
# usage: demo.sh <tree>   (exit 0 = property held, non-zero = violated)
TREE=${1:-/repo}
HERE=$(cd "$(dirname "$0")" && pwd)
LIBS=$TREE/lib/.libs
[ -f "$LIBS/libqb.so" ] || LIBS=/repo/lib/.libs
OUT=$(mktemp -d /tmp/hunt-C16-f6.XXXXXX)
INC="-DHAVE_CONFIG_H -I$TREE/include -I$TREE/include/qb -I$TREE/lib"
SRCS=""
for f in log.c log_file.c log_format.c log_dcs.c log_syslog.c log_blackbox.c; do SRCS="$SRCS $TREE/lib/$f"; done
gcc -g -O1 -w $INC -Dprintf=demo_printf -c $TREE/lib/log_thread.c -o $OUT/log_thread.o || { echo "build failed"; exit 99; }
gcc -g -O1 -w $INC -o $OUT/demo $HERE/demo.c $OUT/log_thread.o $SRCS -L$LIBS -lqb -lpthread -ldl || { echo "build failed"; exit 99; }
rc=0
LD_LIBRARY_PATH=$LIBS timeout 60 $OUT/demo 0 || rc=1
[ -n "$DEMO_STRESS" ] && { LD_LIBRARY_PATH=$LIBS timeout 120 $OUT/demo 1 || rc=1; }
rm -rf $OUT
exit $rc
