/*
 * C16 finding 6 (two producers): include/qb/qblog.h says "Logging is only thread
 * safe when threaded logging is in use. If you plan on logging from multiple
 * threads, you must initialize libqb's logger thread and ... set the
 * QB_LOG_CONF_THREADED flag on all the logging targets in use."
 * With exactly that set-up, a message logged by one producer while another
 * producer is inside qb_log_real_va_() is silently thrown away by the
 * in_logger re-entrancy guard: it is neither written nor counted as lost.
 *
 * To be deterministic the demo makes producer 1 sit inside the logging call:
 * a second, NON-threaded target with a slow logger is enabled, so producer 1
 * spends 200ms in qb_log_real_va_(); producer 2 logs during that time.
 * (Variant "stress": both targets threaded, two threads log 200000 lines each
 * as fast as they can; run with argument 1.)
 */
#define _GNU_SOURCE
#include <stdio.h>
#include <stdarg.h>
#include <stdlib.h>
#include <string.h>
#include <unistd.h>
#include <pthread.h>
#include <semaphore.h>
#include <qb/qbdefs.h>
#include <qb/qblog.h>

static int tT, tS;
static volatile long got_threaded;
static volatile int got_p2;
static sem_t in_slow;

static void thr_logger(int32_t t, struct qb_log_callsite *cs, struct timespec *ts, const char *msg)
{
	(void)t; (void)cs; (void)ts;
	__atomic_add_fetch(&got_threaded, 1, __ATOMIC_SEQ_CST);
	if (strncmp(msg, "p2", 2) == 0) got_p2++;
}

static void slow_logger(int32_t t, struct qb_log_callsite *cs, struct timespec *ts, const char *msg)
{
	(void)t; (void)cs; (void)ts; (void)msg;
	sem_post(&in_slow);
	usleep(200 * 1000);
}

static void *producer2(void *arg)
{
	(void)arg;
	sem_wait(&in_slow);	/* producer 1 is inside its logging call now */
	qb_log_from_external_source("p2", "demo.c", "%s", LOG_INFO, 200, 0, "p2 hello");
	return NULL;
}

#define NSTRESS 200000
static void *stress(void *arg)
{
	int i;
	for (i = 0; i < NSTRESS; i++)
		qb_log_from_external_source("st", "demo.c", "%s", LOG_INFO, 300, 0, (char *)arg);
	return NULL;
}

static long lost_reported;
/* log_thread.c is compiled with -Dprintf=demo_printf to see the "N messages lost" reports */
int demo_printf(const char *fmt, ...)
{
	va_list ap;
	va_start(ap, fmt);
	if (strcmp(fmt, "%d messages lost\n") == 0) lost_reported += va_arg(ap, int);
	va_end(ap);
	return 0;
}

int main(int argc, char **argv)
{
	pthread_t th, th2;
	int mode = argc > 1 ? atoi(argv[1]) : 0;

	sem_init(&in_slow, 0, 0);
	qb_log_init("c16f6", LOG_USER, LOG_EMERG);
	qb_log_ctl(QB_LOG_SYSLOG, QB_LOG_CONF_ENABLED, QB_FALSE);
	tT = qb_log_custom_open(thr_logger, NULL, NULL, NULL);
	qb_log_filter_ctl(tT, QB_LOG_FILTER_ADD, QB_LOG_FILTER_FILE, "*", LOG_TRACE);
	qb_log_ctl(tT, QB_LOG_CONF_THREADED, QB_TRUE);
	qb_log_ctl(tT, QB_LOG_CONF_ENABLED, QB_TRUE);
	if (qb_log_thread_start() != 0) return 2;

	if (mode == 0) {
		tS = qb_log_custom_open(slow_logger, NULL, NULL, NULL);
		/* only producer 1's call site (function "p1") goes to the slow synchronous target */
		qb_log_filter_ctl(tS, QB_LOG_FILTER_ADD, QB_LOG_FILTER_FUNCTION, "p1", LOG_TRACE);
		qb_log_ctl(tS, QB_LOG_CONF_ENABLED, QB_TRUE);
		pthread_create(&th, NULL, producer2, NULL);
		qb_log_from_external_source("p1", "demo.c", "%s", LOG_INFO, 100, 0, "p1 hello");
		pthread_join(th, NULL);
		qb_log_fini();
		printf("two producers logged one line each; threaded target wrote %ld line(s), %ld reported lost\n",
		       got_threaded, lost_reported);
		if (!got_p2) {
			printf("VIOLATION: producer 2's message was neither written nor reported lost\n");
			return 1;
		}
	} else {
		pthread_create(&th, NULL, stress, "aaaa");
		pthread_create(&th2, NULL, stress, "bbbb");
		pthread_join(th, NULL);
		pthread_join(th2, NULL);
		qb_log_fini();
		printf("two producers logged %d lines; written %ld, reported lost %ld, unaccounted %ld\n",
		       2 * NSTRESS, got_threaded, lost_reported, 2L * NSTRESS - got_threaded - lost_reported);
		if (got_threaded + lost_reported != 2L * NSTRESS) {
			printf("VIOLATION: messages neither written nor reported lost\n");
			return 1;
		}
	}
	printf("OK\n");
	return 0;
}
