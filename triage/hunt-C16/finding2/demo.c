/*
 * C16 finding 2: closing a threaded target while the logging thread is busy
 * writing to it is not synchronised with the logging thread.
 *
 * qb_log_ctl(t, QB_LOG_CONF_ENABLED, QB_FALSE) waits for the logging thread
 * (qb_log_thread_pause), but qb_log_custom_close()/qb_log_file_close() do not:
 * the target's close callback runs - and the slot is recycled - while the
 * logging thread is still inside the target's logger callback.
 *
 * The demo uses a custom target whose callbacks only look at two flags; a real
 * target frees its resources in close (lib/log_file.c:_file_close() fclose()s the
 * FILE the logging thread is fprintf()ing to in _file_logger()).
 */
#define _GNU_SOURCE
#include <stdio.h>
#include <stdlib.h>
#include <string.h>
#include <unistd.h>
#include <pthread.h>
#include <semaphore.h>
#include <qb/qbdefs.h>
#include <qb/qblog.h>

static volatile int in_logger_cb;	/* logging thread is inside logger callback */
static volatile int logger_done;
static volatile int closed_while_logging;
static volatile int logger_saw_closed;
static volatile int target_closed;
static sem_t entered;

static void my_logger(int32_t t, struct qb_log_callsite *cs, struct timespec *ts, const char *msg)
{
	(void)t; (void)cs; (void)ts; (void)msg;
	in_logger_cb = 1;
	sem_post(&entered);
	usleep(300 * 1000);		/* a slow write */
	if (target_closed) logger_saw_closed = 1;	/* our "FILE" is gone under our feet */
	in_logger_cb = 0;
	logger_done = 1;
}

static void my_close(int32_t t)
{
	(void)t;
	if (in_logger_cb) closed_while_logging = 1;
	target_closed = 1;		/* a real target would free its resources here */
}

int main(void)
{
	int t, bad = 0;

	sem_init(&entered, 0, 0);
	qb_log_init("c16f2", LOG_USER, LOG_EMERG);
	qb_log_ctl(QB_LOG_SYSLOG, QB_LOG_CONF_ENABLED, QB_FALSE);
	t = qb_log_custom_open(my_logger, my_close, NULL, NULL);
	qb_log_filter_ctl(t, QB_LOG_FILTER_ADD, QB_LOG_FILTER_FILE, "*", LOG_TRACE);
	qb_log_ctl(t, QB_LOG_CONF_THREADED, QB_TRUE);
	qb_log_ctl(t, QB_LOG_CONF_ENABLED, QB_TRUE);
	if (qb_log_thread_start() != 0) return 2;

	qb_log_from_external_source(__func__, __FILE__, "%s", LOG_INFO, 100, 0, "hello");
	sem_wait(&entered);		/* the logging thread is now busy in my_logger() */

	qb_log_custom_close(t);		/* control operation "close" while the thread is busy */

	printf("qb_log_custom_close() returned: logger callback %s\n",
	       logger_done ? "had finished" : "STILL RUNNING");
	if (!logger_done) bad = 1;
	usleep(500 * 1000);
	if (closed_while_logging) {
		printf("VIOLATION: close callback ran while the logging thread was inside the logger callback of the same target\n");
		bad = 1;
	}
	if (logger_saw_closed) {
		printf("VIOLATION: logger callback was still using the target after it had been closed\n");
		bad = 1;
	}
	qb_log_fini();
	if (!bad) printf("OK: close waited for the logging thread\n");
	return bad;
}
