/*
 * C16 finding 7: a target's logger callback that itself logs.
 *
 * For a synchronous target this is harmless by design: qb_log_real_va_() holds the
 * in_logger guard while it calls the loggers, so the nested call returns at once
 * (variant 0 shows this).  For a threaded target the callback runs in the logging
 * thread, where the guard is NOT held, with logt_wthread_lock (a spinlock) held:
 * the nested call goes through qb_log_thread_log_post(), which takes the same
 * spinlock -> the logging thread spins forever, and so does every producer at its
 * next log call and qb_log_fini() (variant 1).
 */
#define _GNU_SOURCE
#include <stdio.h>
#include <stdlib.h>
#include <string.h>
#include <unistd.h>
#include <pthread.h>
#include <qb/qbdefs.h>
#include <qb/qblog.h>

static volatile int lines;
static volatile int phase;

static void my_logger(int32_t t, struct qb_log_callsite *cs, struct timespec *ts, const char *msg)
{
	(void)t; (void)cs; (void)ts;
	lines++;
	if (strcmp(msg, "outer") == 0) {
		/* e.g. a target that reports its own I/O problem through the logging API */
		qb_log_from_external_source("my_logger", "demo.c", "%s", LOG_ERR, 200, 0, "inner");
	}
}

static void *watchdog(void *arg)
{
	(void)arg;
	sleep(5);
	printf("VIOLATION: hang (phase %d: %s) - the logging thread dead-locked on its own queue lock\n", phase,
	       phase == 1 ? "producer stuck in its next log call" : phase == 2 ? "stuck in qb_log_fini()" : "?");
	fflush(stdout);
	_exit(1);
}

int main(int argc, char **argv)
{
	int t;
	int threaded = argc > 1 ? atoi(argv[1]) : 1;
	pthread_t wd;

	pthread_create(&wd, NULL, watchdog, NULL);
	qb_log_init("c16f7", LOG_USER, LOG_EMERG);
	qb_log_ctl(QB_LOG_SYSLOG, QB_LOG_CONF_ENABLED, QB_FALSE);
	t = qb_log_custom_open(my_logger, NULL, NULL, NULL);
	qb_log_filter_ctl(t, QB_LOG_FILTER_ADD, QB_LOG_FILTER_FILE, "*", LOG_TRACE);
	if (threaded) {
		qb_log_ctl(t, QB_LOG_CONF_THREADED, QB_TRUE);
	}
	qb_log_ctl(t, QB_LOG_CONF_ENABLED, QB_TRUE);
	if (threaded && qb_log_thread_start() != 0) return 2;

	qb_log_from_external_source("main", "demo.c", "%s", LOG_INFO, 100, 0, "outer");
	usleep(300 * 1000);
	phase = 1;
	qb_log_from_external_source("main", "demo.c", "%s", LOG_INFO, 101, 0, "next");
	phase = 2;
	qb_log_fini();
	phase = 3;
	printf("%s target: fini returned, logger saw %d line(s)\nOK\n", threaded ? "threaded" : "synchronous", lines);
	return 0;
}
