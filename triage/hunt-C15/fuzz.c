/*
 * C15 tester: blackbox dump files - faithful round trip + robustness of
 * qb_log_blackbox_print_from_file() on damaged files.
 *
 * modes:
 *   fuzz rt    <seed> <episodes> [flags]  model based round trip
 *   fuzz mut   <seed> <cases>    [flags]  mutations of valid dumps
 *   fuzz trunc <seed> <step>     [flags]  every truncation length of a dump
 *   fuzz gen   <seed> <cases>    [flags]  synthesized ring images
 *   fuzz rand  <seed> <cases>             arbitrary byte strings
 *   fuzz print <file>                     just print one file (triage)
 * flags (letters, one word): h = use h/hh/L modifiers, L = max_line_len > 512,
 *   N = negative '*' precision, l = small max_line_len, F = long function names, n = trailing newlines
 *
 * stdout of the library is redirected; the tester reports on stderr.
 */
#define _GNU_SOURCE
#include <stdio.h>
#include <stdlib.h>
#include <stdint.h>
#include <stdarg.h>
#include <string.h>
#include <unistd.h>
#include <fcntl.h>
#include <errno.h>
#include <time.h>
#include <dirent.h>
#include <sys/stat.h>
#include <sys/syscall.h>
#include <sys/types.h>
#include <qb/qbdefs.h>
#include <qb/qblog.h>
#include <qb/qbrb.h>

/* ---------------------------------------------------------------- time */
static struct timespec fake_ts;
static int fake_on;
int clock_gettime(clockid_t id, struct timespec *ts)
{
	if (fake_on && (id == CLOCK_REALTIME || id == CLOCK_REALTIME_COARSE)) {
		*ts = fake_ts;
		return 0;
	}
	return syscall(SYS_clock_gettime, id, ts);
}

/* ---------------------------------------------------------------- rng */
static uint64_t rs;
static uint64_t rnd(void)
{
	rs ^= rs << 13; rs ^= rs >> 7; rs ^= rs << 17;
	return rs * 0x2545F4914F6CDD1DULL;
}
static uint32_t rn(uint32_t n) { return n ? (uint32_t)(rnd() % n) : 0; }
static int chance(int pct) { return (int)rn(100) < pct; }

/* ---------------------------------------------------------------- args */
struct arg { int cls; long long iv; double dv; };
#include "dispatch.h"

static unsigned long st_logs, st_dumps, st_recs, st_evict, st_notice, st_wrapdump;
static int opt_h, opt_L, opt_l, opt_F, opt_n, opt_v, opt_N, opt_f;
static char workdir[256];
static char myname[64];

#define NOTICE "Log message too long to be stored in the blackbox.  Maximum is QB_LOG_MAX_LEN"

struct msg {
	char fmt[2600];
	int n;
	struct arg a[DISPATCH_MAXA];
	size_t ser;		/* serialized size */
	char strs[DISPATCH_MAXA][2600];
};

static const char litchars[] =
	"abcdefghijklmnopqrstuvwxyzABCDEFGHIJKLMNOPQRSTUVWXYZ0123456789 _-:;,.()[]{}<>/\\|!?#$&*+='\"@^~`";

static void add_lit(char *fmt, size_t *pos, size_t max, int len)
{
	while (len-- > 0 && *pos + 3 < max) {
		if (chance(3)) {
			fmt[(*pos)++] = '%';
			fmt[(*pos)++] = '%';
		} else {
			fmt[(*pos)++] = litchars[rn(sizeof(litchars) - 1)];
		}
	}
	fmt[*pos] = 0;
}

static void rand_str(char *s, int len)
{
	int i;
	for (i = 0; i < len; i++) {
		char c = litchars[rn(sizeof(litchars) - 1)];
		if (chance(2)) c = '%';
		s[i] = c;
	}
	s[len] = 0;
}

static int pick_len(void)
{
	switch (rn(10)) {
	case 0: return 0;
	case 1: return 1;
	case 2: case 3: case 4: case 5: return rn(20);
	case 6: case 7: return rn(80);
	case 8: return rn(300);
	default: return 400 + rn(300);
	}
}

/* generate a random format + arguments; computes the serialized size */
static void gen_msg(struct msg *m)
{
	size_t pos = 0;
	size_t max = sizeof(m->fmt) - 40;
	int ndir;
	size_t ser = 0;

	m->n = 0;
	m->fmt[0] = 0;
	if (chance(5)) {
		/* long literal only */
		add_lit(m->fmt, &pos, max, 400 + rn(200));
	} else {
		add_lit(m->fmt, &pos, max, chance(20) ? 0 : rn(30));
	}
	ndir = rn(7);
	while (ndir-- > 0) {
		char d[64];
		int dp = 0;
		int kind = rn(100);
		int need = 1;
		int star_w = 0, star_p = 0, prec = -1;
		struct arg extra[2];
		int nextra = 0;
		struct arg val;
		size_t sz = 0;

		memset(&val, 0, sizeof(val));
		d[dp++] = '%';
		/* flags */
		if (chance(30)) {
			const char *fl = "#- +0'";
			int k = 1 + rn(2);
			while (k--) d[dp++] = fl[rn(6)];
		}
		/* width */
		if (chance(35)) {
			if (chance(25)) {
				star_w = 1;
				d[dp++] = '*';
			} else {
				dp += sprintf(d + dp, "%u", 1 + rn(chance(10) ? 120 : 24));
			}
		}
		/* precision */
		if (chance(30)) {
			d[dp++] = '.';
			if (chance(25)) {
				star_p = 1;
				d[dp++] = '*';
			} else if (chance(90)) {
				prec = rn(chance(10) ? 60 : 12);
				dp += sprintf(d + dp, "%d", prec);
			} else {
				prec = 0; /* "." alone means 0 */
			}
		}
		if (star_w) need++;
		if (star_p) need++;
		if (m->n + need > DISPATCH_MAXA) {
			break;
		}
		if (star_w) {
			extra[nextra].cls = 2;
			extra[nextra].iv = (int)rn(40) - 12;
			extra[nextra].dv = 0;
			nextra++;
			sz += 4;
		}
		if (star_p) {
			int pv = (int)rn(20) - (opt_N ? 2 : 0);
			extra[nextra].cls = 2;
			extra[nextra].iv = pv;
			extra[nextra].dv = 0;
			nextra++;
			sz += 4;
		}

		if (kind < 35) {
			/* integer */
			static const char *mods[] = { "", "", "", "l", "ll", "z", "j", "t" };
			static const char *hmods[] = { "h", "hh" };
			const char *mod = mods[rn(8)];
			const char conv = "diouxX"[rn(6)];
			uint64_t v;
			switch (rn(6)) {
			case 0: v = 0; break;
			case 1: v = (uint64_t)-1; break;
			case 2: v = rn(100); break;
			case 3: v = (uint64_t)(-(int64_t)rn(100000)); break;
			case 4: v = rnd(); break;
			default: v = rnd() >> rn(64); break;
			}
			if (opt_h && chance(30)) mod = hmods[rn(2)];
			dp += sprintf(d + dp, "%s%c", mod, conv);
			if (mod[0] == 0 || mod[0] == 'h') {
				val.cls = 2;
				val.iv = (int)v;
				if (mod[0] == 'h' && mod[1] == 'h') val.iv = (signed char)v;
				else if (mod[0] == 'h') val.iv = (short)v;
				sz += 4;
			} else {
				val.cls = 0;
				val.iv = (long long)v;
				sz += 8;
			}
		} else if (kind < 50) {
			const char conv = "eEfFgGaA"[rn(8)];
			double v;
			switch (rn(6)) {
			case 0: v = 0.0; break;
			case 1: v = -1.5; break;
			case 2: v = (double)rnd() / 1000.0; break;
			case 3: v = 1e-9 * (double)rn(100000); break;
			case 4: v = -(double)rnd() * 1e20; break;
			default: v = (double)(int)rn(100000) / 7.0; break;
			}
			if (opt_h && chance(20)) {
				/* long double is not something the generated
				 * dispatcher passes; skip */
			}
			d[dp++] = conv;
			val.cls = 1;
			val.dv = v;
			sz += 8;
		} else if (kind < 60) {
			/* char: no precision/#/0 oddities matter to printf */
			d[dp++] = 'c';
			val.cls = 2;
			val.iv = 33 + rn(94);
			if (val.iv == '%') val.iv = 'x';
			sz += 1;
		} else if (kind < 92) {
			int len = pick_len();
			size_t stored;
			d[dp++] = 's';
			rand_str(m->strs[m->n + nextra], len);
			val.cls = 0;
			val.iv = (long long)(intptr_t)m->strs[m->n + nextra];
			stored = len;
			if (prec > 0 && (size_t)prec < stored) {
				stored = prec;
			}
			/* %.*s and %.0s: the whole string is stored */
			sz += stored + 1;
		} else {
			d[dp++] = 'p';
			val.cls = 0;
			val.iv = chance(20) ? 0 : (long long)(rnd() >> rn(40));
			sz += 8;
		}
		d[dp] = 0;
		if (pos + dp + 40 >= max) {
			break;
		}
		memcpy(m->fmt + pos, d, dp + 1);
		pos += dp;
		{
			int k;
			/* string storage index must match the final slot */
			if (val.cls == 0 && d[dp - 1] == 's' && nextra) {
				/* string was generated in slot n+nextra: fine */
			}
			for (k = 0; k < nextra; k++) m->a[m->n++] = extra[k];
			m->a[m->n++] = val;
		}
		ser += sz;
		add_lit(m->fmt, &pos, max, chance(30) ? 0 : rn(20));
	}
	if (opt_n && chance(20)) {
		m->fmt[pos++] = '\n';
		m->fmt[pos] = 0;
	}
	m->ser = strlen(m->fmt) + 1 + ser;
}

static int fmt_msg(char *buf, size_t sz, struct msg *m)
{
	int r = 0;
#define FMTCALL(...) r = snprintf(buf, sz, m->fmt, ##__VA_ARGS__)
#pragma GCC diagnostic push
#pragma GCC diagnostic ignored "-Wformat-security"
#pragma GCC diagnostic ignored "-Wformat-nonliteral"
	DISPATCH(FMTCALL, m->n, m->a);
#pragma GCC diagnostic pop
	return r;
}

static void log_msg(struct qb_log_callsite *cs, struct msg *m)
{
#define LOGCALL(...) qb_log_real_(cs, ##__VA_ARGS__)
	DISPATCH(LOGCALL, m->n, m->a);
}

/* ---------------------------------------------------------------- model */
struct rec {
	char *line;		/* expected output line */
	uint32_t wpos;		/* word index of the chunk header */
	uint32_t size;		/* chunk payload size */
	uint32_t fn_size;
	uint32_t msg_len;
};

static struct rec *q;
static size_t q_head, q_tail, q_cap;
static uint32_t W, RP, WP;
static int bb_open;
static size_t mll = 512;
static int bb_size;

static void q_push(struct rec *r)
{
	if (q_tail == q_cap) {
		if (q_head > 0) {
			memmove(q, q + q_head, (q_tail - q_head) * sizeof(*q));
			q_tail -= q_head;
			q_head = 0;
		}
		if (q_tail == q_cap) {
			q_cap = q_cap ? q_cap * 2 : 1024;
			q = realloc(q, q_cap * sizeof(*q));
		}
	}
	q[q_tail++] = *r;
}
static void q_pop(void)
{
	free(q[q_head].line);
	q_head++;
}
static void q_clear(void)
{
	while (q_head < q_tail) q_pop();
	q_head = q_tail = 0;
}
static size_t m_free(void)
{
	if (WP > RP) return (size_t)(RP - WP + W - 1) * 4;
	if (WP < RP) return (size_t)(RP - WP - 1) * 4;
	return (size_t)W * 4;
}
static uint32_t m_step(uint32_t p, uint32_t size)
{
	p += 2 + size / 4 + ((size % 4) ? 1 : 0);
	if (p > W - 1) p %= W;
	return p;
}
static void model_open(int size)
{
	long pg = sysconf(_SC_PAGESIZE);
	size_t real = ((size_t)size + 13 + pg - 1) / pg * pg;
	W = real / 4;
	RP = WP = 0;
	q_clear();
	bb_open = 1;
}

static const char *prio_names[] = { "emerg", "alert", "crit", "error",
	"warning", "notice", "info", "debug", "trace" };

static void fmt_time(char *time_buf, size_t sz, const struct timespec *ts)
{
	time_t t = ts->tv_sec;
	struct tm *tm = localtime(&t);
	if (tm) {
		int slen = strftime(time_buf, sz, "%b %d %T", tm);
		snprintf(time_buf + slen, sz - slen, ".%03llu",
			 (unsigned long long)ts->tv_nsec / 1000000ULL);
	} else {
		snprintf(time_buf, sz, "%ld", (long)t);
	}
}

static void fail(const char *what, ...) __attribute__((noreturn, format(printf, 1, 2)));
static void fail(const char *what, ...)
{
	va_list ap;
	va_start(ap, what);
	fprintf(stderr, "VIOLATION: ");
	vfprintf(stderr, what, ap);
	fprintf(stderr, "\n");
	va_end(ap);
	exit(2);
}

static char *oplog;
static size_t oplog_len, oplog_cap;
static void opl(const char *f, ...) __attribute__((format(printf, 1, 2)));
static void opl(const char *f, ...)
{
	char b[6000];
	va_list ap;
	int n;
	if (!opt_v) return;
	va_start(ap, f);
	n = vsnprintf(b, sizeof(b), f, ap);
	va_end(ap);
	if (n >= (int)sizeof(b)) n = sizeof(b) - 1;
	if (oplog_len + n + 2 > oplog_cap) {
		oplog_cap = (oplog_cap + n + 2) * 2;
		oplog = realloc(oplog, oplog_cap);
	}
	memcpy(oplog + oplog_len, b, n);
	oplog_len += n;
	oplog[oplog_len++] = '\n';
	oplog[oplog_len] = 0;
}

static void do_log(void)
{
	static struct msg m;
	static char fn[1200];
	static char big[8192];
	struct qb_log_callsite cs;
	struct rec r;
	int fnlen, i;
	size_t base, max_size, msg_len, actual;
	char tb[64];
	char *exp;
	const char *msgtxt;
	char notice[1024];

	do {
		gen_msg(&m);
		fmt_msg(big, sizeof(big), &m);
	} while (big[0] == '\n' && big[1] == 0); /* a bare newline is printed as is */
	switch (rn(10)) {
	case 0: fnlen = 0; break;
	case 1: fnlen = 1; break;
	default: fnlen = 1 + rn(30); break;
	}
	if (opt_F && chance(20)) fnlen = 100 + rn(900);
	if (opt_f && chance(30)) fnlen = 100 + rn(371); /* record still fits 1024 bytes */
	for (i = 0; i < fnlen; i++) fn[i] = "abcdefghijklmnopqrstuvwxyz_ABCXYZ0123456789"[rn(i ? 43 : 33)];
	fn[fnlen] = 0;

	memset(&cs, 0, sizeof(cs));
	cs.function = fn;
	cs.filename = "fuzz.c";
	cs.format = m.fmt;
	cs.priority = rn(9);
	switch (rn(6)) {
	case 0: cs.lineno = 0; break;
	case 1: cs.lineno = 0xffffffffu; break;
	case 2: cs.lineno = 0x80000000u; break;
	default: cs.lineno = rn(100000); break;
	}
	switch (rn(6)) {
	case 0: cs.tags = 0; break;
	case 1: cs.tags = 0xffffffffu; break;
	case 2: cs.tags = (uint32_t)rnd(); break;
	default: cs.tags = rn(64); break;
	}
	cs.targets = 1u << QB_LOG_BLACKBOX;

	switch (rn(8)) {
	case 0: fake_ts.tv_sec = 0; break;
	case 1: fake_ts.tv_sec = 0x7fffffff; break;
	case 2: fake_ts.tv_sec = (time_t)rn(0x7fffffff) * 3; break;
	case 3: fake_ts.tv_sec = -(time_t)rn(0x7fffffff); break;
	case 4: fake_ts.tv_sec = (time_t)(rnd() >> rn(30)); break;
	default: fake_ts.tv_sec = 1700000000 + rn(100000000); break;
	}
	switch (rn(5)) {
	case 0: fake_ts.tv_nsec = 0; break;
	case 1: fake_ts.tv_nsec = 999999999; break;
	case 2: fake_ts.tv_nsec = 999999; break;
	default: fake_ts.tv_nsec = rn(1000000000); break;
	}

	opl("LOG fn=\"%s\" line=%u tags=%u prio=%u ts=%ld.%09ld ser=%zu fmt=\"%s\" nargs=%d",
	    fn, cs.lineno, cs.tags, cs.priority, (long)fake_ts.tv_sec,
	    (long)fake_ts.tv_nsec, m.ser, m.fmt, m.n);

	fake_on = 1;
	st_logs++;
	log_msg(&cs, &m);
	fake_on = 0;

	if (!bb_open) {
		return;
	}
	/* model */
	base = 17 + (fnlen + 1) + 16;
	max_size = base + mll;
	while (m_free() < max_size + 12) {
		if (q_head == q_tail) {
			/* allocation fails, the blackbox shuts itself down */
			bb_open = 0;
			q_clear();
			opl("  (model: blackbox closed itself, record does not fit)");
			return;
		}
		RP = m_step(RP, q[q_head].size);
		q_pop();
		st_evict++;
	}
	if (m.ser >= mll) {
		size_t nl = strlen(NOTICE);
		if (nl > mll - 1) nl = mll - 1;
		memcpy(notice, NOTICE, nl);
		notice[nl] = 0;
		msg_len = nl + 1;
		msgtxt = notice;
		st_notice++;
	} else {
		int l;
		fmt_msg(big, sizeof(big), &m);
		msg_len = m.ser;
		msgtxt = big;
		if (strlen(big) > 511) big[511] = 0;
		l = strlen(big);
		/* the printer never strips the first character */
		while (l > 1 && big[l - 1] == '\n') big[--l] = 0;
	}
	actual = base + msg_len;
	fmt_time(tb, sizeof(tb), &fake_ts);
	exp = malloc(strlen(msgtxt) + fnlen + 200);
	sprintf(exp, "%-7s %s %s(%u):%u: %.511s", prio_names[cs.priority], tb, fn,
		cs.lineno, cs.tags, msgtxt);
	r.line = exp;
	r.wpos = WP;
	r.size = actual;
	r.fn_size = fnlen + 1;
	r.msg_len = msg_len;
	WP = m_step(WP, actual);
	q_push(&r);
}

/* ---------------------------------------------------------------- io */
static int saved_stdout = -1;
static void capture_begin(const char *path)
{
	int fd;
	fflush(stdout);
	saved_stdout = dup(1);
	fd = open(path, O_CREAT | O_TRUNC | O_WRONLY, 0600);
	if (fd < 0) { perror("capture open"); exit(3); }
	dup2(fd, 1);
	close(fd);
}
static void capture_end(void)
{
	fflush(stdout);
	dup2(saved_stdout, 1);
	close(saved_stdout);
	saved_stdout = -1;
}

static char shm_left[512];
/* any create_from_file leftovers? (we run in a private /dev/shm when possible) */
static int shm_leftovers(void)
{
	DIR *d = opendir("/dev/shm");
	struct dirent *e;
	int n = 0;
	if (!d) return 0;
	while ((e = readdir(d))) {
		if (strstr(e->d_name, "create_from_file")) {
			snprintf(shm_left, sizeof(shm_left), "%s", e->d_name);
			n++;
		}
	}
	closedir(d);
	return n;
}

static char dumppath[512], outpath[512];

static void save_oplog(void)
{
	char p[600];
	FILE *f;
	if (!opt_v || !oplog) return;
	snprintf(p, sizeof(p), "%s/oplog.txt", workdir);
	f = fopen(p, "w");
	if (f) { fwrite(oplog, 1, oplog_len, f); fclose(f); }
}

static void dump_and_check(void)
{
	ssize_t wr;
	int rc;
	FILE *f;
	char *line = NULL;
	size_t cap = 0;
	ssize_t l;
	size_t idx;
	int hdr = 0;
	size_t nrec = q_tail - q_head;

	if (chance(80)) unlink(dumppath);
	capture_begin(outpath);
	wr = qb_log_blackbox_write_to_file(dumppath);
	capture_end();
	opl("DUMP -> %zd (records expected %zu, W=%u RP=%u WP=%u)", wr, nrec, W, RP, WP);
	if (!bb_open) {
		if (wr != -ENOENT) {
			save_oplog();
			fail("write_to_file on a closed blackbox returned %zd", wr);
		}
		return;
	}
	if (wr != (ssize_t)(40 + (size_t)W * 4)) {
		save_oplog();
		fail("write_to_file returned %zd, expected %zu", wr, 40 + (size_t)W * 4);
	}
	st_dumps++; st_recs += nrec; if (WP < RP) st_wrapdump++;
	capture_begin(outpath);
	rc = qb_log_blackbox_print_from_file(dumppath);
	capture_end();
	if (shm_leftovers()) {
		save_oplog();
		fail("print_from_file left %s in /dev/shm", shm_left);
	}
	f = fopen(outpath, "r");
	if (!f) { perror("outpath"); exit(3); }
	idx = q_head;
	while ((l = getline(&line, &cap, f)) >= 0) {
		if (l > 0 && line[l - 1] == '\n') line[--l] = 0;
		if (hdr < 7) {
			hdr++;
			continue;
		}
		if (idx >= q_tail) {
			save_oplog();
			fail("print produced an extra line (rc=%d): \"%s\"; dump kept in %s", rc, line, dumppath);
		}
		if (strcmp(line, q[idx].line) != 0) {
			save_oplog();
			fail("record %zu of %zu differs (rc=%d)\n  expected: \"%s\"\n  printed : \"%s\"\n  dump kept in %s",
			     idx - q_head, nrec, rc, q[idx].line, line, dumppath);
		}
		idx++;
	}
	fclose(f);
	free(line);
	if (idx != q_tail) {
		save_oplog();
		fail("print stopped after %zu of %zu records (rc=%d); next expected: \"%s\"; dump kept in %s",
		     idx - q_head, nrec, rc, q[idx].line, dumppath);
	}
}

static const int sizes[] = { 1024, 1025, 1500, 4083, 4084, 4096, 5000, 8179, 8180, 12000, 16000, 40000, 65536, 200000 };

static void bb_enable(int size)
{
	int rc;
	rc = qb_log_ctl(QB_LOG_BLACKBOX, QB_LOG_CONF_SIZE, size);
	if (rc != 0) fail("CONF_SIZE %d -> %d", size, rc);
	rc = qb_log_ctl(QB_LOG_BLACKBOX, QB_LOG_CONF_ENABLED, QB_TRUE);
	if (rc != 0) fail("enable (size %d) -> %d", size, rc);
	bb_size = size;
	model_open(size);
	opl("ENABLE size=%d W=%u", size, W);
}
static void bb_disable(void)
{
	qb_log_ctl(QB_LOG_BLACKBOX, QB_LOG_CONF_ENABLED, QB_FALSE);
	bb_open = 0;
	q_clear();
	opl("DISABLE");
}
static void set_mll(void)
{
	int v = 512;
	if (opt_L && chance(50)) {
		static const int big[] = { 513, 600, 1024, 2048, 4096 };
		v = big[rn(5)];
	} else if (opt_l && chance(70)) {
		static const int small[] = { 4, 5, 16, 64, 77, 78, 79, 100, 200, 511 };
		v = small[rn(10)];
	}
	if (qb_log_ctl(QB_LOG_BLACKBOX, QB_LOG_CONF_MAX_LINE_LEN, v) != 0) {
		fail("MAX_LINE_LEN %d refused", v);
	}
	mll = v;
	opl("MLL %d", v);
}

static void episode(void)
{
	int nops = chance(20) ? rn(30) : (chance(50) ? rn(400) : rn(3000));
	int i;

	oplog_len = 0;
	set_mll();
	bb_enable(sizes[rn(sizeof(sizes) / sizeof(sizes[0]))]);
	for (i = 0; i < nops; i++) {
		int r = rn(1000);
		if (r < 960) {
			do_log();
		} else if (r < 985) {
			dump_and_check();
		} else if (r < 990) {
			/* resize while enabled: reload empties the box */
			int s = sizes[rn(sizeof(sizes) / sizeof(sizes[0]))];
			if (bb_open) {
				if (qb_log_ctl(QB_LOG_BLACKBOX, QB_LOG_CONF_SIZE, s) != 0) fail("resize");
				bb_size = s;
				model_open(s);
				opl("RESIZE %d W=%u", s, W);
			}
		} else if (r < 995) {
			bb_disable();
			bb_enable(sizes[rn(sizeof(sizes) / sizeof(sizes[0]))]);
		} else {
			dump_and_check();
			dump_and_check();
		}
	}
	dump_and_check();
	bb_disable();
}

/* ------------------------------------------------------------ mutations */
static uint8_t *base_buf;
static size_t base_len;
static uint8_t *mbuf;
static size_t mcap;
static char curpath[512];

static void read_base(void)
{
	struct stat st;
	int fd = open(dumppath, O_RDONLY);
	if (fd < 0 || fstat(fd, &st)) { perror("base"); exit(3); }
	base_len = st.st_size;
	base_buf = realloc(base_buf, base_len + 1);
	if (read(fd, base_buf, base_len) != (ssize_t)base_len) { perror("read base"); exit(3); }
	close(fd);
	if (mcap < base_len + 70000) {
		mcap = base_len + 70000;
		mbuf = realloc(mbuf, mcap);
	}
}

static void write_case(const uint8_t *b, size_t len)
{
	int fd = open(curpath, O_CREAT | O_TRUNC | O_WRONLY, 0600);
	if (fd < 0) { perror("curpath"); exit(3); }
	if (len && write(fd, b, len) != (ssize_t)len) { perror("write case"); exit(3); }
	close(fd);
}

static unsigned long n_cases;
static int run_case(const uint8_t *b, size_t len)
{
	int rc;
	write_case(b, len);
	rc = qb_log_blackbox_print_from_file(curpath);
	fflush(stdout);
	n_cases++;
	if (shm_leftovers()) {
		fail("print_from_file(rc=%d) left %s in /dev/shm; input kept in %s", rc, shm_left, curpath);
	}
	return rc;
}

static uint32_t interesting32(void)
{
	static const uint32_t v[] = { 0, 1, 2, 3, 4, 7, 8, 16, 26, 27, 28, 255, 256, 511, 512, 513,
		1000, 1023, 1024, 1025, 2048, 4095, 4096, 4097, 0x7fffffff, 0x80000000u,
		0xffffffffu, 0xfffffffeu, 0xfffffff0u, 0xA1A1A1A1u, 0xD0D0D0D0u, 0xA110CED0u,
		0xCCBBCCBBu, 0xBBCCBBCCu };
	switch (rn(6)) {
	case 0: return (uint32_t)rnd();
	case 1: return W + rn(5) - 2;
	case 2: return rn(W ? W : 1);
	default: return v[rn(sizeof(v) / sizeof(v[0]))];
	}
}

static void put32(uint8_t *b, size_t off, uint32_t v) { memcpy(b + off, &v, 4); }
static uint32_t get32(const uint8_t *b, size_t off) { uint32_t v; memcpy(&v, b + off, 4); return v; }

static void fix_hash(uint8_t *b)
{
	/* rb header at 20: word_size, write_pt, read_pt, version, hash */
	put32(b, 36, get32(b, 20) + get32(b, 24) + get32(b, 28) + get32(b, 32));
}

/* byte offset in the file of byte `boff` of the payload of record r */
static size_t rec_off(const struct rec *r, size_t boff)
{
	size_t w = ((size_t)r->wpos + 2) * 4 + boff;
	return 40 + w % ((size_t)W * 4);
}

static void mutate_once(size_t *plen)
{
	size_t len = *plen;
	size_t nrec = q_tail - q_head;
	int t = rn(100);

	if (t < 8) {
		/* truncate */
		switch (rn(4)) {
		case 0: len = rn(64); break;
		case 1: len = len > 104 ? 40 + rn(64) : len; break;
		case 2: len = len - rn(len < 64 ? (uint32_t)len + 1 : 64); break;
		default: len = rn(len + 1); break;
		}
	} else if (t < 25) {
		/* header word */
		int w = rn(10);
		put32(mbuf, w * 4, interesting32());
		if (w >= 5 && chance(80)) fix_hash(mbuf);
	} else if (t < 40 && nrec) {
		/* chunk header */
		struct rec *r = &q[q_head + rn(nrec)];
		size_t off = 40 + (size_t)(r->wpos + rn(2)) % W * 4;
		put32(mbuf, off, interesting32());
	} else if (t < 75 && nrec) {
		struct rec *r = &q[q_head + rn(chance(50) ? 1 : nrec)];
		size_t o_fn = 13, o_ts = 13 + r->fn_size, o_ml = o_ts + 16, o_msg = o_ml + 4;
		switch (rn(10)) {
		case 0: put32(mbuf, rec_off(r, 0), interesting32()); break;
		case 1: mbuf[rec_off(r, 8)] = rnd(); break;
		case 2: { /* fn_size */
			uint32_t v = interesting32();
			if (chance(50)) v = r->size - rn(60);
			if (chance(30)) v = r->fn_size + rn(9) - 4;
			put32(mbuf, rec_off(r, 9), v);
			break; }
		case 3: mbuf[rec_off(r, o_fn + rn(r->fn_size))] = chance(50) ? 'Z' : rnd(); break;
		case 4: mbuf[rec_off(r, o_ts + rn(16))] = rnd(); break;
		case 5: { /* msg_len */
			uint32_t v = interesting32();
			if (chance(50)) v = r->msg_len + rn(40) - 20;
			put32(mbuf, rec_off(r, o_ml), v);
			break; }
		case 6: { /* inject a directive in the format */
			static const char *dirs[] = { "%s", "%d", "%ld", "%lld", "%f", "%c", "%p", "%*d", "%.*s",
				"%99999d", "%ls", "%n", "%", "%-+ #0'I1234567890123s", "%hhn", "%lc", "%zd", "%llllld" };
			const char *dd = dirs[rn(sizeof(dirs) / sizeof(dirs[0]))];
			size_t p = rn(r->msg_len), k;
			for (k = 0; dd[k] && p + k < r->msg_len; k++) mbuf[rec_off(r, o_msg + p + k)] = dd[k];
			break; }
		case 7: /* kill a NUL / random byte in the message */
			if (r->msg_len) {
				size_t p = chance(50) ? r->msg_len - 1 : rn(r->msg_len);
				mbuf[rec_off(r, o_msg + p)] = chance(50) ? 'x' : rnd();
			}
			break;
		case 8: { /* fill the message with a pattern */
			size_t k;
			uint8_t c = "%sd*\0\xff"[rn(6)];
			for (k = rn(r->msg_len + 1); k < r->msg_len; k++) mbuf[rec_off(r, o_msg + k)] = c;
			break; }
		default: /* everything after the fixed part */
			mbuf[rec_off(r, rn(r->size))] = rnd();
			break;
		}
	} else if (t < 92) {
		/* random multi byte */
		int k = 1 + rn(16);
		if (chance(30)) {
			size_t s = rn(len), n = rn(chance(50) ? 64 : 2000);
			uint8_t c = chance(50) ? rnd() : "\0\xff%s"[rn(4)];
			while (n-- && s < len) mbuf[s++] = c;
		} else {
			while (k--) {
				size_t p = chance(30) ? rn(64) : rn(len);
				if (p < len) mbuf[p] = rnd();
			}
		}
	} else {
		/* swap read/write pointers, or point them anywhere */
		if (chance(50)) {
			uint32_t a = get32(mbuf, 24), b = get32(mbuf, 28);
			put32(mbuf, 24, b); put32(mbuf, 28, a);
		} else {
			put32(mbuf, 24 + 4 * rn(2), rn(W));
		}
		fix_hash(mbuf);
	}
	*plen = len;
}

static void build_base(int maxrec)
{
	int n, i;
	set_mll();
	bb_enable(sizes[rn(8)]);
	n = chance(30) ? rn(4) : rn(maxrec);
	for (i = 0; i < n; i++) do_log();
	unlink(dumppath);
	capture_begin(outpath);
	if (qb_log_blackbox_write_to_file(dumppath) < 0) { fprintf(stderr, "base dump failed\n"); exit(3); }
	capture_end();
	read_base();
	/* keep model (q) for offsets, but close the live blackbox so that
	 * /dev/shm is empty while printing */
	qb_log_ctl(QB_LOG_BLACKBOX, QB_LOG_CONF_ENABLED, QB_FALSE);
	bb_open = 0;
}

static void null_stdout(void)
{
	int fd = open("/dev/null", O_WRONLY);
	fflush(stdout);
	dup2(fd, 1);
	close(fd);
}

static void mode_mut(unsigned long cases)
{
	unsigned long i = 0;
	while (i < cases) {
		int k, per = 300 + rn(700);
		build_base(chance(50) ? 20 : 400);
		null_stdout();
		for (k = 0; k < per && i < cases; k++, i++) {
			size_t len = base_len;
			int nm = chance(70) ? 1 : 1 + rn(4);
			memcpy(mbuf, base_buf, base_len);
			while (nm--) mutate_once(&len);
			run_case(mbuf, len);
		}
		q_clear();
	}
}

static void mode_trunc(unsigned step)
{
	size_t len;
	build_base(40);
	null_stdout();
	for (len = 0; len <= base_len; len += (len < 200 || len + 200 > base_len) ? 1 : step) {
		run_case(base_buf, len);
	}
	q_clear();
}

/* synthesize a ring image */
static void mode_gen(unsigned long cases)
{
	unsigned long i;
	static uint8_t img[300000];
	null_stdout();
	for (i = 0; i < cases; i++) {
		int newfmt = chance(75);
		uint32_t ws, rp, wp, p;
		size_t hoff = newfmt ? 20 : 0;
		size_t ts_size = newfmt ? 16 : 8;
		uint32_t *data;
		int nchunks, c;
		size_t flen;

		switch (rn(6)) {
		case 0: ws = 1 + rn(16); break;
		case 1: ws = 1024; break;
		case 2: ws = 16 + rn(600); break;
		case 3: ws = 2048; break;
		default: ws = 256 + rn(4000); break;
		}
		memset(img, chance(50) ? 0 : 0xA1, sizeof(img));
		if (chance(20)) { size_t k; for (k = 0; k < hoff + 20 + (size_t)ws * 4; k++) img[k] = rnd(); }
		if (newfmt) {
			put32(img, 0, 0); put32(img, 4, 0xCCBBCCBB); put32(img, 8, 0xBBCCBBCC);
			put32(img, 12, 2); put32(img, 16, 0);
		}
		rp = rn(ws);
		data = (uint32_t *)(img + hoff + 20);
		W = ws;
		p = rp;
		nchunks = rn(8);
		for (c = 0; c < nchunks; c++) {
			/* build a record */
			uint8_t recb[1200];
			size_t rl = 0, k;
			uint32_t fn_size, msg_len, size;
			uint32_t v;
			int adversarial = chance(60);
			size_t budget = chance(30) ? 1024 : 40 + rn(400);

			v = rnd(); memcpy(recb + rl, &v, 4); rl += 4;
			v = rnd(); memcpy(recb + rl, &v, 4); rl += 4;
			recb[rl++] = chance(70) ? rn(9) : rnd();
			fn_size = 1 + rn(chance(80) ? 20 : (uint32_t)budget);
			if (fn_size > 1000) fn_size = 1000;
			v = fn_size;
			if (adversarial && chance(30)) v = interesting32();
			if (adversarial && chance(20)) v = fn_size + rn(7) - 3;
			memcpy(recb + rl, &v, 4); rl += 4;
			for (k = 0; k + 1 < fn_size; k++) recb[rl++] = 'a' + rn(26);
			recb[rl++] = (adversarial && chance(15)) ? 'X' : 0;
			for (k = 0; k < ts_size; k++) recb[rl++] = chance(50) ? rnd() : 0;
			if (ts_size == 16 && chance(70)) {
				int64_t s = 1700000000 + rn(1000000), ns = rn(1000000000);
				memcpy(recb + rl - 16, &s, 8); memcpy(recb + rl - 8, &ns, 8);
			}
			/* message */
			{
				uint8_t mb[1200];
				size_t ml = 0;
				int nd = rn(chance(10) ? 200 : 6);
				static const char *dirs[] = { "%s", "%d", "%ld", "%lld", "%f", "%c", "%p", "%*d", "%.*s",
					"%-10s", "%5.2f", "%zu", "%ju", "%td", "%x", "%%", "%llX", "%.3s", "%*.*f", "%#o",
					"%99999d", "%ls", "%lc", "%n", "%hd", "%-+ #0'I12345678901s", "%l", "%" };
				while (nd-- > 0 && ml < 500) {
					const char *dd = dirs[rn(sizeof(dirs) / sizeof(dirs[0]) - (adversarial ? 0 : 9))];
					int ll = rn(6);
					while (ll-- > 0) mb[ml++] = 'a' + rn(26);
					memcpy(mb + ml, dd, strlen(dd)); ml += strlen(dd);
				}
				if (!(adversarial && chance(10))) mb[ml++] = 0;
				/* argument bytes */
				{
					int na = rn(adversarial ? 8 : 60);
					while (na-- > 0 && ml < 1000) mb[ml++] = chance(30) ? 0 : (chance(50) ? 'q' : rnd());
					if (!adversarial || chance(50)) mb[ml++] = 0;
				}
				msg_len = ml;
				v = msg_len;
				if (adversarial && chance(30)) v = interesting32();
				if (adversarial && chance(20)) v = msg_len + rn(9) - 4;
				memcpy(recb + rl, &v, 4); rl += 4;
				if (rl + ml > sizeof(recb)) ml = sizeof(recb) - rl;
				memcpy(recb + rl, mb, ml); rl += ml;
			}
			size = rl;
			if (chance(15)) {
				/* make it exactly 1024 or so by padding the message */
				size = 1020 + rn(8);
				if (size > sizeof(recb)) size = sizeof(recb);
			}
			if (adversarial && chance(15)) size = interesting32();
			if (adversarial && chance(10)) size = rl - rn(30);
			/* place */
			data[p % ws] = size;
			data[(p + 1) % ws] = (adversarial && chance(8)) ? interesting32() : 0xA1A1A1A1;
			for (k = 0; k < rl; k++) {
				size_t bo = (((size_t)p + 2) * 4 + k) % ((size_t)ws * 4);
				((uint8_t *)data)[bo] = recb[k];
			}
			p = (p + 2 + (uint32_t)((rl + 3) / 4)) % ws;
			if (chance(70)) {
				data[p % ws] = 0;
				data[(p + 1) % ws] = 0xD0D0D0D0;
			}
		}
		wp = p;
		if (chance(10)) wp = rn(ws + 2);
		if (chance(5)) rp = interesting32();
		put32(img, hoff + 0, ws);
		put32(img, hoff + 4, wp);
		put32(img, hoff + 8, rp);
		put32(img, hoff + 12, chance(95) ? 1 : interesting32());
		put32(img, hoff + 16, get32(img, hoff) + get32(img, hoff + 4) + get32(img, hoff + 8) + get32(img, hoff + 12));
		if (chance(3)) put32(img, hoff + 16, interesting32());
		if (chance(5)) { put32(img, hoff, interesting32()); if (chance(50)) put32(img, hoff + 16, get32(img, hoff) + get32(img, hoff + 4) + get32(img, hoff + 8) + get32(img, hoff + 12)); }
		flen = hoff + 20 + (size_t)ws * 4;
		if (chance(10)) flen -= rn(flen > 100 ? 100 : (uint32_t)flen);
		if (chance(10)) flen += rn(5000);
		if (flen > sizeof(img)) flen = sizeof(img);
		run_case(img, flen);
	}
}

static void mode_rand(unsigned long cases)
{
	unsigned long i;
	static uint8_t b[70000];
	null_stdout();
	for (i = 0; i < cases; i++) {
		size_t len, k;
		switch (rn(5)) {
		case 0: len = rn(50); break;
		case 1: len = rn(300); break;
		case 2: len = 4096 + rn(200); break;
		default: len = rn(sizeof(b)); break;
		}
		switch (rn(4)) {
		case 0: for (k = 0; k < len; k++) b[k] = rnd(); break;
		case 1: memset(b, rn(256), len); break;
		case 2: for (k = 0; k < len; k++) b[k] = "\0\1\xff\xa1%sd "[rn(8)]; break;
		default: for (k = 0; k < len; k++) b[k] = chance(80) ? 0 : rnd(); break;
		}
		if (chance(40) && len >= 20) {
			put32(b, 0, 0); put32(b, 4, 0xCCBBCCBB); put32(b, 8, 0xBBCCBBCC);
			put32(b, 12, 2); put32(b, 16, 0);
			if (chance(70) && len >= 40) {
				uint32_t ws = chance(50) ? (uint32_t)((len - 40) / 4) : rn((uint32_t)(len / 4) + 2);
				put32(b, 20, ws); put32(b, 24, rn(ws + 1)); put32(b, 28, rn(ws + 1)); put32(b, 32, 1);
				fix_hash(b);
			}
		} else if (chance(40) && len >= 20) {
			uint32_t ws = chance(50) ? (uint32_t)((len - 20) / 4) : rn((uint32_t)(len / 4) + 2);
			put32(b, 0, ws); put32(b, 4, rn(ws + 1)); put32(b, 8, rn(ws + 1)); put32(b, 12, 1);
			put32(b, 16, get32(b, 0) + get32(b, 4) + get32(b, 8) + 1);
		}
		run_case(b, len);
	}
}

int main(int argc, char **argv)
{
	const char *mode;
	uint64_t seed;
	unsigned long count;
	const char *flags;

	if (argc < 3) {
		fprintf(stderr, "usage: %s rt|mut|trunc|gen|rand <seed> <count> [flags] | print <file>\n", argv[0]);
		return 1;
	}
	setenv("TZ", "UTC", 1);
	tzset();
	mode = argv[1];
	snprintf(myname, sizeof(myname), "fz%d", (int)getpid());
	qb_log_init(myname, LOG_USER, LOG_EMERG);
	qb_log_ctl(QB_LOG_SYSLOG, QB_LOG_CONF_ENABLED, QB_FALSE);

	if (!strcmp(mode, "print")) {
		int rc = qb_log_blackbox_print_from_file(argv[2]);
		fflush(stdout);
		fprintf(stderr, "rc=%d leftovers=%d\n", rc, shm_leftovers());
		return 0;
	}
	seed = strtoull(argv[2], NULL, 0);
	count = argc > 3 ? strtoul(argv[3], NULL, 0) : 100;
	flags = argc > 4 ? argv[4] : "";
	opt_h = !!strchr(flags, 'h');
	opt_L = !!strchr(flags, 'L');
	opt_l = !!strchr(flags, 'l');
	opt_F = !!strchr(flags, 'F');
	opt_n = !!strchr(flags, 'n');
	opt_v = !!strchr(flags, 'v');
	opt_N = !!strchr(flags, 'N');
	opt_f = !!strchr(flags, 'f');
	rs = seed * 0x9E3779B97F4A7C15ULL + 0x1234567ULL;
	if (!rs) rs = 1;
	rnd(); rnd();

	snprintf(workdir, sizeof(workdir), "%s/%s-%llu", getenv("FUZZ_WORK") ? getenv("FUZZ_WORK") : "/tmp/hunt-C15/work",
		 mode, (unsigned long long)seed);
	{
		char cmd[600];
		snprintf(cmd, sizeof(cmd), "mkdir -p %s", workdir);
		if (system(cmd)) return 3;
	}
	snprintf(dumppath, sizeof(dumppath), "%s/dump.bb", workdir);
	snprintf(outpath, sizeof(outpath), "%s/out.txt", workdir);
	snprintf(curpath, sizeof(curpath), "%s/cur.bb", workdir);

	if (!strcmp(mode, "rt")) {
		unsigned long e;
		for (e = 0; e < count; e++) episode();
		fprintf(stderr, "rt seed %llu: %lu episodes ok; logs=%lu dumps=%lu (wrapped %lu) records-checked=%lu evicted=%lu too-long=%lu\n", (unsigned long long)seed, count, st_logs, st_dumps, st_wrapdump, st_recs, st_evict, st_notice);
	} else if (!strcmp(mode, "mut")) {
		mode_mut(count);
		fprintf(stderr, "mut seed %llu: %lu cases ok\n", (unsigned long long)seed, n_cases);
	} else if (!strcmp(mode, "trunc")) {
		mode_trunc(count ? count : 1);
		fprintf(stderr, "trunc seed %llu: %lu cases ok\n", (unsigned long long)seed, n_cases);
	} else if (!strcmp(mode, "gen")) {
		mode_gen(count);
		fprintf(stderr, "gen seed %llu: %lu cases ok\n", (unsigned long long)seed, n_cases);
	} else if (!strcmp(mode, "rand")) {
		mode_rand(count);
		fprintf(stderr, "rand seed %llu: %lu cases ok\n", (unsigned long long)seed, n_cases);
	} else {
		return 1;
	}
	qb_log_fini();
	return 0;
}
