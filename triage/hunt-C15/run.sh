#!/bin/sh
# usage: run.sh <binary> <mode> <seed> <count> [flags]  - runs in a private /dev/shm
B=$1; shift
exec unshare -m sh -c 'mount -t tmpfs tmpfs /dev/shm && exec env LD_LIBRARY_PATH=/repo/lib/.libs ASAN_OPTIONS=detect_leaks=0:abort_on_error=0 UBSAN_OPTIONS=print_stacktrace=1 "$@"' sh "$B" "$@"
