/*
 * C15 finding 2: records that the blackbox accepts and retains cannot be
 * printed, and every record behind them is lost as well, because the printer
 * uses fixed buffers (message QB_LOG_MAX_LEN = 512, record 2 * 512) while the
 * writer stores up to max_line_length (configurable up to 4096) plus a
 * function name of any length.
 *
 * case A: QB_LOG_CONF_MAX_LINE_LEN = 1024 on the blackbox; records:
 *         "first", a 600 character message, "last".
 * case B: default configuration; records: "first", a record whose function
 *         name has 600 characters and whose message has 450, "last".
 *
 * exit 0: all three records are printed, in order (property held)
 * exit 2: records are missing from the printout
 */
#define _GNU_SOURCE
#include <stdio.h>
#include <stdlib.h>
#include <stdint.h>
#include <string.h>
#include <unistd.h>
#include <fcntl.h>
#include <qb/qbdefs.h>
#include <qb/qblog.h>

static char out[1 << 16];

int main(int argc, char **argv)
{
	int which = argc > 1 ? argv[1][0] : 'A';
	char longmsg[700], longfn[700];
	int rc, fd, saved, n;
	int has_first, has_mid, has_last;

	qb_log_init("c15f2", LOG_USER, LOG_EMERG);
	qb_log_ctl(QB_LOG_SYSLOG, QB_LOG_CONF_ENABLED, QB_FALSE);
	qb_log_filter_ctl(QB_LOG_BLACKBOX, QB_LOG_FILTER_ADD, QB_LOG_FILTER_FILE, "demo.c", LOG_TRACE);
	qb_log_ctl(QB_LOG_BLACKBOX, QB_LOG_CONF_SIZE, 16384);
	if (which == 'A') {
		rc = qb_log_ctl(QB_LOG_BLACKBOX, QB_LOG_CONF_MAX_LINE_LEN, 1024);
		printf("QB_LOG_CONF_MAX_LINE_LEN 1024 -> %d\n", rc);
	}
	qb_log_ctl(QB_LOG_BLACKBOX, QB_LOG_CONF_ENABLED, QB_TRUE);

	qb_log_from_external_source("fn_first", "demo.c", "first record", LOG_INFO, 1, 0);
	if (which == 'A') {
		memset(longmsg, 'M', 600); longmsg[600] = 0;
		qb_log_from_external_source("fn_mid", "demo.c", "%s", LOG_INFO, 2, 0, longmsg);
	} else {
		memset(longmsg, 'M', 450); longmsg[450] = 0;
		memset(longfn, 'f', 600); longfn[600] = 0;
		qb_log_from_external_source(longfn, "demo.c", "%s", LOG_INFO, 2, 0, longmsg);
	}
	qb_log_from_external_source("fn_last", "demo.c", "last record", LOG_INFO, 3, 0);

	unlink("dump.bb");
	rc = qb_log_blackbox_write_to_file("dump.bb");
	printf("write_to_file -> %d\n", rc);
	qb_log_ctl(QB_LOG_BLACKBOX, QB_LOG_CONF_ENABLED, QB_FALSE);

	fflush(stdout);
	saved = dup(1);
	fd = open("out.txt", O_CREAT | O_TRUNC | O_RDWR, 0600);
	dup2(fd, 1);
	rc = qb_log_blackbox_print_from_file("dump.bb");
	fflush(stdout);
	dup2(saved, 1);
	lseek(fd, 0, SEEK_SET);
	n = read(fd, out, sizeof(out) - 1);
	out[n > 0 ? n : 0] = 0;
	close(fd);

	printf("print_from_file -> %d, output:\n%s", rc, out);
	has_first = strstr(out, "fn_first(1):0: first record") != NULL;
	has_mid = strstr(out, "(2):0: MMMMMMMM") != NULL;
	has_last = strstr(out, "fn_last(3):0: last record") != NULL;
	printf("\nrecord 1 printed: %d, record 2 printed: %d, record 3 printed: %d\n",
	       has_first, has_mid, has_last);
	qb_log_fini();
	return (has_first && has_mid && has_last) ? 0 : 2;
}
