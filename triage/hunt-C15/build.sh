#!/bin/sh
# usage: [BB_SRC=alt/log_blackbox.c] [LF_SRC=alt/log_format.c] build.sh [tree] [output]
# Builds the tester with ASan+UBSan, compiling the anchored library sources
# of <tree> into the program (the rest comes from <tree>/lib/.libs/libqb.so).
set -e
T=${1:-/repo}
OUT=${2:-fuzz}
LF=${LF_SRC:-$T/lib/log_format.c}
BB=${BB_SRC:-$T/lib/log_blackbox.c}
cd "$(dirname "$0")"
[ -f dispatch.h ] || python3 gen_dispatch.py
SRCS="$T/lib/log.c $T/lib/log_thread.c $BB $T/lib/log_file.c $T/lib/log_syslog.c $T/lib/log_dcs.c $LF $T/lib/ringbuffer.c $T/lib/ringbuffer_helper.c $T/lib/util.c $T/lib/unix.c $T/lib/array.c $T/lib/strlcpy.c $T/lib/strlcat.c"
gcc -g -O1 -fno-omit-frame-pointer -fsanitize=address,undefined -fno-sanitize-recover=undefined \
    -DHAVE_CONFIG_H -I$T/include -I$T/include/qb -I$T/lib -w \
    -o "$OUT" fuzz.c $SRCS -L$T/lib/.libs -lqb -ldl -lpthread
echo "built $OUT (run with LD_LIBRARY_PATH=$T/lib/.libs)"
