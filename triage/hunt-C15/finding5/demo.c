/*
 * C15 finding 5: qb_log_blackbox_print_from_file() builds its temporary ring
 * buffer under the fixed name "create_from_file".  If
 * /dev/shm/qb-create_from_file-header exists at that moment (another process
 * printing a blackbox at the same time - e.g. two qb-blackbox runs - or a
 * file left by a killed one), the header file is created in the fallback
 * directory (SOCKETDIR, /var/run) while the data file goes to /dev/shm, and
 * qb_rb_close_helper(), which assumes both live in one directory, never
 * removes the header: <SOCKETDIR>/create_from_file-header stays behind.  From
 * then on every print fails with -EIO although the dump is valid.
 *
 * The "other process" is simulated by creating the file beforehand, which
 * makes the run deterministic.
 *
 * exit 0: nothing left behind and the valid dump printed (property held)
 * exit 2: temporary file left behind / valid dump not printed
 */
#define _GNU_SOURCE
#include <stdio.h>
#include <stdlib.h>
#include <string.h>
#include <unistd.h>
#include <fcntl.h>
#include <errno.h>
#include <qb/qbdefs.h>
#include <qb/qblog.h>

#ifndef SOCKETDIR
#define SOCKETDIR "/var/run"
#endif

int main(void)
{
	int rc1, rc2, left, fd, bad = 0;
	const char *other = "/dev/shm/qb-create_from_file-header";
	const char *leak = SOCKETDIR "/create_from_file-header";

	qb_log_init("c15f5", LOG_USER, LOG_EMERG);
	qb_log_ctl(QB_LOG_SYSLOG, QB_LOG_CONF_ENABLED, QB_FALSE);
	qb_log_filter_ctl(QB_LOG_BLACKBOX, QB_LOG_FILTER_ADD, QB_LOG_FILTER_FILE, "demo.c", LOG_TRACE);
	qb_log_ctl(QB_LOG_BLACKBOX, QB_LOG_CONF_SIZE, 4096);
	qb_log_ctl(QB_LOG_BLACKBOX, QB_LOG_CONF_ENABLED, QB_TRUE);
	qb_log_from_external_source("fn", "demo.c", "hello %d", LOG_INFO, 1, 0, 1);
	unlink("dump.bb");
	qb_log_blackbox_write_to_file("dump.bb");
	qb_log_ctl(QB_LOG_BLACKBOX, QB_LOG_CONF_ENABLED, QB_FALSE);

	if (access(leak, F_OK) == 0) {
		fprintf(stderr, "%s exists already, cannot run\n", leak);
		return 99;
	}
	/* the "other printer" is in the middle of qb_rb_create_from_file() */
	fd = open(other, O_CREAT | O_EXCL | O_RDWR, 0600);
	if (fd < 0) {
		fprintf(stderr, "%s exists already (somebody is printing right now), cannot run\n", other);
		return 99;
	}
	close(fd);

	rc1 = qb_log_blackbox_print_from_file("dump.bb");
	fflush(stdout);
	left = access(leak, F_OK) == 0;
	printf("--- print #1 rc=%d; %s %s\n", rc1, leak, left ? "LEFT BEHIND" : "not there");

	/* the other printer finishes and removes its file */
	unlink(other);
	/* ... and comes again later */
	fd = open(other, O_CREAT | O_EXCL | O_RDWR, 0600);
	close(fd);
	rc2 = qb_log_blackbox_print_from_file("dump.bb");
	fflush(stdout);
	printf("--- print #2 (same situation again) rc=%d (-5 after printing the record is the normal end; -5 without a record = failed)\n", rc2);
	unlink(other);
	if (left) bad = 1;
	unlink(leak);	/* clean up by name */
	qb_log_fini();
	return bad ? 2 : 0;
}
