/*
 * C15 finding 1: qb_log_blackbox_print_from_file() reads past the end of a
 * record (and past its 1024 byte heap buffer) when the serialized message
 * of a damaged dump lacks the argument bytes its format asks for.
 *
 * case A: a VALID dump (one record, qb_log "%s" with "hello"), ONE byte
 *         changed: the terminator of the string argument (the last byte of
 *         the record) becomes 'x'.
 * case B: hand made dump whose only record fills the reader's 1024 byte
 *         buffer exactly and whose message is "%s" without argument bytes.
 *
 * exit 0: every print returned (property held); the sanitizer aborts
 * otherwise.
 */
#define _GNU_SOURCE
#include <stdio.h>
#include <stdlib.h>
#include <stdint.h>
#include <string.h>
#include <unistd.h>
#include <fcntl.h>
#include <sys/stat.h>
#include <qb/qbdefs.h>
#include <qb/qblog.h>

static uint8_t buf[1 << 20];

static size_t slurp(const char *p)
{
	int fd = open(p, O_RDONLY);
	ssize_t n = read(fd, buf, sizeof(buf));
	close(fd);
	return n < 0 ? 0 : n;
}
static void spit(const char *p, const uint8_t *b, size_t n)
{
	int fd = open(p, O_CREAT | O_TRUNC | O_WRONLY, 0600);
	if (write(fd, b, n) != (ssize_t)n) { perror("write"); exit(99); }
	close(fd);
}
static uint32_t g32(size_t o) { uint32_t v; memcpy(&v, buf + o, 4); return v; }
static void p32(uint8_t *b, size_t o, uint32_t v) { memcpy(b + o, &v, 4); }

int main(int argc, char **argv)
{
	int which = argc > 1 ? argv[1][0] : 'A';
	size_t n, off;
	uint32_t ws, rp, size;
	int rc;

	qb_log_init("c15f1", LOG_USER, LOG_EMERG);
	qb_log_ctl(QB_LOG_SYSLOG, QB_LOG_CONF_ENABLED, QB_FALSE);
	qb_log_filter_ctl(QB_LOG_BLACKBOX, QB_LOG_FILTER_ADD, QB_LOG_FILTER_FILE, "demo.c", LOG_TRACE);
	qb_log_ctl(QB_LOG_BLACKBOX, QB_LOG_CONF_SIZE, 4096);
	qb_log_ctl(QB_LOG_BLACKBOX, QB_LOG_CONF_ENABLED, QB_TRUE);

	qb_log_from_external_source("my_function", "demo.c", "%s", LOG_INFO, 42, 7, "hello");

	unlink("valid.bb");
	if (qb_log_blackbox_write_to_file("valid.bb") < 0) { fprintf(stderr, "dump failed\n"); return 99; }
	qb_log_ctl(QB_LOG_BLACKBOX, QB_LOG_CONF_ENABLED, QB_FALSE);

	printf("--- the valid dump:\n");
	rc = qb_log_blackbox_print_from_file("valid.bb");
	printf("--- rc=%d\n", rc);

	if (which == 'A') {
	/* case A */
	n = slurp("valid.bb");
	/* file: 20 bytes blackbox header, then word_size, write_pt, read_pt, version, hash, data */
	ws = g32(20);
	rp = g32(28);
	size = g32(40 + (size_t)rp * 4);
	if (g32(40 + (size_t)((rp + 1) % ws) * 4) != 0xA1A1A1A1u) { fprintf(stderr, "unexpected layout\n"); return 99; }
	off = 40 + ((size_t)rp + 2) * 4 + size - 1;	/* last byte of the record */
	if (buf[off] != 0 || buf[off - 1] != 'o') { fprintf(stderr, "unexpected layout\n"); return 99; }
	buf[off] = 'x';
	spit("caseA.bb", buf, n);
	printf("--- case A: byte at file offset %zu changed from 00 to 'x'\n", off);
	fflush(stdout);
	rc = qb_log_blackbox_print_from_file("caseA.bb");
	printf("--- case A rc=%d\n", rc);
	fflush(stdout);
	}
	if (which != 'B') { qb_log_fini(); return 0; }

	/* case B: word_size 1024, one chunk of exactly 1024 bytes at word 0 */
	{
		static uint8_t img[40 + 4096];
		uint8_t *d = img + 40;
		uint8_t *r = d + 8;
		uint32_t fn_size = 988;
		int64_t sec = 1700000000, nsec = 0;

		memset(img, 0, sizeof(img));
		p32(img, 0, 0); p32(img, 4, 0xCCBBCCBB); p32(img, 8, 0xBBCCBBCC); p32(img, 12, 2); p32(img, 16, 0);
		p32(img, 20, 1024);			/* word_size */
		p32(img, 24, 2 + 256);			/* write_pt */
		p32(img, 28, 0);			/* read_pt */
		p32(img, 32, 1);			/* version */
		p32(img, 36, 1024 + 258 + 0 + 1);	/* hash */
		p32(d, 0, 1024);			/* chunk size */
		p32(d, 4, 0xA1A1A1A1);			/* chunk magic */
		p32(r, 0, 10);				/* lineno */
		p32(r, 4, 0);				/* tags */
		r[8] = 6;				/* priority */
		p32(r, 9, fn_size);
		memset(r + 13, 'f', fn_size - 1);	/* function name, terminated */
		memcpy(r + 13 + fn_size, &sec, 8);
		memcpy(r + 13 + fn_size + 8, &nsec, 8);
		p32(r, 13 + fn_size + 16, 3);		/* msg_len */
		memcpy(r + 13 + fn_size + 20, "%s", 3);	/* ends exactly at byte 1024 */
		spit("caseB.bb", img, sizeof(img));
	}
	printf("--- case B: record of 1024 bytes, message \"%%s\" without argument bytes\n");
	fflush(stdout);
	rc = qb_log_blackbox_print_from_file("caseB.bb");
	printf("--- case B rc=%d\n", rc);
	qb_log_fini();
	return 0;
}
