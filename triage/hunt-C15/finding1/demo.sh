#!/bin/sh
# usage: demo.sh <tree>     exit 0 = property held, non-zero = violated
CASES="A B"
T=${1:-/repo}
D=$(cd "$(dirname "$0")" && pwd)
W=$(mktemp -d /tmp/hunt-C15-demo.XXXXXX)
SRCS="$T/lib/log.c $T/lib/log_thread.c $T/lib/log_blackbox.c $T/lib/log_file.c $T/lib/log_syslog.c $T/lib/log_dcs.c $T/lib/log_format.c $T/lib/ringbuffer.c $T/lib/ringbuffer_helper.c $T/lib/util.c $T/lib/unix.c $T/lib/array.c $T/lib/strlcpy.c $T/lib/strlcat.c"
gcc -g -O1 -fno-omit-frame-pointer -fsanitize=address,undefined \
    -DHAVE_CONFIG_H -I$T/include -I$T/include/qb -I$T/lib -w \
    -o $W/demo $D/demo.c $SRCS -L$T/lib/.libs -lqb -ldl -lpthread || exit 99
cd $W
export T
worst=0
for c in $CASES; do
	echo "===== case $c"
	# a private /dev/shm and /run keep us apart from other users of the
	# fixed "create_from_file" name (falls back to the shared ones)
	if unshare -m true 2>/dev/null; then
		unshare -m sh -c 'mount -t tmpfs tmpfs /dev/shm; mount -t tmpfs tmpfs /run; TZ=UTC LD_LIBRARY_PATH=$T/lib/.libs ASAN_OPTIONS=detect_leaks=0 UBSAN_OPTIONS=print_stacktrace=1 ./demo '$c
	else
		TZ=UTC LD_LIBRARY_PATH=$T/lib/.libs ASAN_OPTIONS=detect_leaks=0 UBSAN_OPTIONS=print_stacktrace=1 ./demo $c
	fi
	rc=$?
	echo "===== case $c: exit $rc"
	[ $rc -ne 0 ] && worst=$rc
done
cd /; rm -rf $W
if [ $worst -eq 0 ]; then echo "demo: property held"; else echo "demo: property VIOLATED (exit $worst)"; fi
exit $worst
