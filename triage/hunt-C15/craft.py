#!/usr/bin/env python3
# craft.py out.bb fmt hexargs  -> one-record dump (new format)
import struct, sys
out, fmt, args = sys.argv[1], sys.argv[2].encode(), bytes.fromhex(sys.argv[3])
fn = b"fn\0"
msg = fmt + b"\0" + args
rec = struct.pack("<IIB", 10, 0, 6) + struct.pack("<I", len(fn)) + fn + struct.pack("<qq", 1700000000, 0) + struct.pack("<I", len(msg)) + msg
ws = 1024
data = bytearray(ws * 4)
data[0:4] = struct.pack("<I", len(rec)); data[4:8] = struct.pack("<I", 0xA1A1A1A1)
data[8:8+len(rec)] = rec
wp = 2 + (len(rec) + 3) // 4
data[wp*4+4:wp*4+8] = struct.pack("<I", 0xD0D0D0D0)
hdr = struct.pack("<IIIII", 0, 0xCCBBCCBB, 0xBBCCBBCC, 2, 0) + struct.pack("<IIIII", ws, wp, 0, 1, ws + wp + 0 + 1)
open(out, "wb").write(hdr + bytes(data))
