#!/bin/sh
# usage: mkmasked.sh [tree]
# Creates patched/log_blackbox.c and patched/log_format.c from <tree> and builds
# fuzz-masked: the same tester, but with finding 1 (unbounded argument reads in
# qb_vsnprintf_deserialize) masked by a zero-filled slack area behind the
# record and with '*' widths clamped, so that the fuzzer can look past it.
set -e
T=${1:-/repo}
cd "$(dirname "$0")"
mkdir -p patched
python3 - "$T" <<'PY'
import sys
T=sys.argv[1]
s=open(T+'/lib/log_blackbox.c').read()
a="\tchunk = malloc(max_size);"
assert a in s
s=s.replace(a,"\tchunk = malloc(max_size + 16384); /* HUNT: slack to look past finding 1 */")
b="\t\tptr = chunk;\n"
assert b in s
s=s.replace(b,"\t\tmemset(chunk + bytes_read, 0, max_size + 16384 - bytes_read); /* HUNT */\n\t\tptr = chunk;\n",1)
open('patched/log_blackbox.c','w').write(s)
s=open(T+'/lib/log_format.c').read()
old="""			memcpy(&arg_int, &buf[data_pos], sizeof(int));
			data_pos += sizeof(int);
			fmt_pos += snprintf("""
new="""			memcpy(&arg_int, &buf[data_pos], sizeof(int));
			if (arg_int > 2000) arg_int = 2000; /* HUNT: keep the fuzzer fast */
			if (arg_int < -2000) arg_int = -2000; /* HUNT */
			data_pos += sizeof(int);
			fmt_pos += snprintf("""
assert old in s
s=s.replace(old,new)
open('patched/log_format.c','w').write(s)
PY
BB_SRC=$PWD/patched/log_blackbox.c LF_SRC=$PWD/patched/log_format.c ./build.sh "$T" fuzz-masked
