/*
 * C15 finding 3 / 4: the message printed from the dump is not the message
 * that was logged.
 *
 * finding 3 (cases A, B): a negative precision passed through '*'
 *   ("%.*s", -1, str - in C: "as if the precision were omitted") is pasted
 *   into the rebuilt format as "%.-1s", which printf does not understand.
 * finding 4 (cases C..F): the h, hh and L length modifiers (and %m) are not
 *   known to qb_vsnprintf_serialize(): the directive's argument is not
 *   stored (and not consumed), the printer shows the directive's letters as
 *   text, and every later directive of the message gets the wrong argument
 *   (case F: an int is taken for the char* of a following %s - crash when
 *   the message is logged).
 *
 * exit 0: printed message == message as formatted by printf (property held)
 * exit 2: differs
 */
#define _GNU_SOURCE
#include <stdio.h>
#include <stdlib.h>
#include <stdint.h>
#include <string.h>
#include <unistd.h>
#include <fcntl.h>
#include <errno.h>
#include <qb/qbdefs.h>
#include <qb/qblog.h>

static char out[1 << 16];
static char expect[1024];

#define LOGBOTH(fmt, ...) do { \
	snprintf(expect, sizeof(expect), fmt, ##__VA_ARGS__); \
	printf("format \"%s\"\n", fmt); fflush(stdout); \
	qb_log_from_external_source("fn", "demo.c", fmt, LOG_INFO, 1, 0, ##__VA_ARGS__); \
} while (0)

int main(int argc, char **argv)
{
	int which = argc > 1 ? argv[1][0] : 'A';
	int rc, fd, saved, n;
	char *p, *e;

	qb_log_init("c15f3", LOG_USER, LOG_EMERG);
	qb_log_ctl(QB_LOG_SYSLOG, QB_LOG_CONF_ENABLED, QB_FALSE);
	qb_log_filter_ctl(QB_LOG_BLACKBOX, QB_LOG_FILTER_ADD, QB_LOG_FILTER_FILE, "demo.c", LOG_TRACE);
	qb_log_ctl(QB_LOG_BLACKBOX, QB_LOG_CONF_SIZE, 4096);
	qb_log_ctl(QB_LOG_BLACKBOX, QB_LOG_CONF_ENABLED, QB_TRUE);

	switch (which) {
	case 'A': LOGBOTH("name=%.*s;", -1, "corosync"); break;
	case 'B': LOGBOTH("v=%.*d;", -1, 42); break;
	case 'C': LOGBOTH("port=%hu;", (unsigned short)5405); break;
	case 'D': LOGBOTH("ttl=%hhu id=%d;", (unsigned char)64, 1234); break;
	case 'E': LOGBOTH("load=%Lf n=%d;", (long double)1.5, 7); break;
	case 'F': LOGBOTH("port=%hu host=%s;", (unsigned short)5405, "node1"); break;
	case 'G': errno = ENOENT; LOGBOTH("open failed: %m (%d)", 2); break;
	default: return 99;
	}

	unlink("dump.bb");
	rc = qb_log_blackbox_write_to_file("dump.bb");
	qb_log_ctl(QB_LOG_BLACKBOX, QB_LOG_CONF_ENABLED, QB_FALSE);

	fflush(stdout);
	saved = dup(1);
	fd = open("out.txt", O_CREAT | O_TRUNC | O_RDWR, 0600);
	dup2(fd, 1);
	rc = qb_log_blackbox_print_from_file("dump.bb");
	fflush(stdout);
	dup2(saved, 1);
	lseek(fd, 0, SEEK_SET);
	n = read(fd, out, sizeof(out) - 1);
	out[n > 0 ? n : 0] = 0;
	close(fd);

	p = strstr(out, "fn(1):0: ");
	if (!p) {
		printf("record not printed at all (rc=%d)\n", rc);
		return 2;
	}
	p += strlen("fn(1):0: ");
	e = strchr(p, '\n');
	if (e) *e = 0;
	printf("logged : \"%s\"\nprinted: \"%s\"\n", expect, p);
	qb_log_fini();
	return strcmp(expect, p) == 0 ? 0 : 2;
}
