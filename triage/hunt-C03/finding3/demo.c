/*
 * C03 finding 3 (socket transport): a client that dies with requests queued
 * stops the whole server for about one second per queued request, so the
 * other clients are not served meanwhile.
 *
 * Every reply (or event) to a client whose datagram socket the server has
 * not connected to yet goes through _finish_connecting() (ipc_socket.c),
 * which retries connect() ten times with usleep(100000) in between, in the
 * server's only thread - and the death is noticed only after the queued
 * requests (up to 5 per round at normal priority, 50 at high) are processed.
 *
 * exit 0: the healthy client got its reply within 2 s; 1: it did not.
 */
#include "common.h"

static char sb[70000], rb[70000];
#define NREQ 5

int
main(void)
{
	char name[64];
	struct req *rq = (struct req *)sb;
	struct iovec iov;
	qb_ipcc_connection_t *h;
	pid_t s, v;
	int go[2], ready[2], st, i;
	ssize_t r;
	uint64_t t0, dt;
	char b;

	signal(SIGPIPE, SIG_IGN);
	setvbuf(stdout, NULL, _IOLBF, 0);
	quiet_log();
	snprintf(name, sizeof name, "hC03d3-%d", (int)getpid());
	s = start_server(name, QB_IPC_SOCKET);
	h = qb_ipcc_connect(name, 8192);
	if (h == NULL) {
		perror("connect");
		return 2;
	}
	memset(sb, 0, sizeof sb);
	rq->hdr.id = REQ_ECHO;
	rq->hdr.size = sizeof(*rq) + 8;
	iov.iov_base = rq;
	iov.iov_len = rq->hdr.size;
	t0 = now_ms();
	r = qb_ipcc_sendv_recv(h, &iov, 1, rb, sizeof rb, 3000);
	printf("healthy client, echo before: %zd in %llu ms\n", r,
	       (unsigned long long)(now_ms() - t0));

	if (pipe(go) || pipe(ready)) {
		return 2;
	}
	fflush(stdout);
	v = fork();
	if (v == 0) {
		/* the victim: connects, queues NREQ requests, dies */
		qb_ipcc_connection_t *c = qb_ipcc_connect(name, 8192);
		if (c == NULL) {
			_exit(2);
		}
		if (write(ready[1], "r", 1) != 1 || read(go[0], &b, 1) != 1) {
			_exit(2);
		}
		for (i = 0; i < NREQ; i++) {
			rq->hdr.id = REQ_ECHO;
			rq->hdr.size = sizeof(*rq) + 8;
			if (qb_ipcc_send(c, rq, rq->hdr.size) < 0) {
				_exit(3);
			}
		}
		kill(getpid(), SIGKILL);
		_exit(0);
	}
	if (read(ready[0], &b, 1) != 1) {
		return 2;
	}
	/* keep the server busy for 300 ms so that the victim's requests are all
	 * queued, and the victim dead, before the server looks at them */
	rq->hdr.id = REQ_SLEEP;
	rq->hdr.size = sizeof(*rq);
	rq->arg = 300;
	r = qb_ipcc_send(h, rq, rq->hdr.size);
	msleep(100);
	if (write(go[1], "g", 1) != 1) {
		return 2;
	}
	waitpid(v, &st, 0);
	printf("victim queued %d requests and died (status 0x%x)\n", NREQ, st);
	t0 = now_ms();
	/* reply of the sleep request */
	r = qb_ipcc_recv(h, rb, sizeof rb, 3000);

	rq->hdr.id = REQ_ECHO;
	rq->hdr.size = sizeof(*rq) + 8;
	iov.iov_base = rq;
	iov.iov_len = rq->hdr.size;
	r = qb_ipcc_sendv_recv(h, &iov, 1, rb, sizeof rb, 60000);
	dt = now_ms() - t0;
	printf("healthy client, echo after the victim's death: %zd, reply came %llu ms "
	       "after the death\n", r, (unsigned long long)dt);
	qb_ipcc_disconnect(h);
	kill_server(s);
	cleanup_shm(s, name);
	if (r < 0 || dt > 2000) {
		printf("VIOLATED: the server did not serve its other client for %llu ms\n",
		       (unsigned long long)dt);
		return 1;
	}
	printf("held\n");
	return 0;
}
