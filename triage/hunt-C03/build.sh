#!/bin/sh
# usage: build.sh [tree]   (default /repo) ; builds ./fuzz (ASan+UBSan)
T=${1:-/repo}
HERE=$(dirname "$0")
SRCS="ipcs.c ipcc.c ipc_setup.c ipc_shm.c ipc_socket.c ringbuffer.c ringbuffer_helper.c unix.c loop.c loop_job.c loop_poll.c loop_poll_epoll.c loop_timerlist.c array.c"
L=""
for f in $SRCS; do L="$L $T/lib/$f"; done
gcc -g -O1 -fno-omit-frame-pointer -fsanitize=address,undefined -fno-sanitize=alignment -fno-sanitize-recover=undefined \
  -DHAVE_CONFIG_H -I$T/include -I$T/include/qb -I$T/lib \
  -Wall -Wno-format-truncation -Wno-unused-parameter -Wno-unused-function \
  -o "$HERE/${OUT:-fuzz}" "$HERE/fuzz.c" $L -L$T/lib/.libs -lqb -lpthread -ldl
