#!/bin/sh
# the batch behind REPORT.md; results in runs/
cd /tmp/hunt-C03
export LD_LIBRARY_PATH=/repo/lib/.libs ASAN_OPTIONS=detect_leaks=0
for s in 21 22 23; do ./fuzz A shm $s 3000 > runs/A_shm_$s.txt 2>&1 & done
for s in 21 22 23; do ./fuzz A sock $s 1500 > runs/A_sock_$s.txt 2>&1 & done
./fuzz E shm 0 0 1 > runs/E_shm.txt 2>&1 &
./fuzz E sock 0 0 1 > runs/E_sock.txt 2>&1 &
for s in 21 22; do ./fuzz H shm $s 3000 > runs/H_shm_$s.txt 2>&1 & ./fuzz H sock $s 2000 > runs/H_sock_$s.txt 2>&1 & done
wait
for s in 21 22; do ./fuzz B shm $s 1200 8 > runs/B_shm_$s.txt 2>&1; ./fuzz B sock $s 1200 8 > runs/B_sock_$s.txt 2>&1; done
./fuzz B shm 31 100 8 1 > runs/Bstrict_shm_31.txt 2>&1
./fuzz B sock 31 100 8 1 > runs/Bstrict_sock_31.txt 2>&1
echo ALLDONE > runs/done
