#!/bin/sh
# usage: demo.sh <tree>    exit 0 = property held, non-zero = violated
T=${1:-/repo}
HERE=$(cd "$(dirname "$0")" && pwd)
B=$(mktemp -d /tmp/hunt-C03-demo.XXXXXX)
L=""
for f in ipcs.c ipcc.c ipc_setup.c ipc_shm.c ipc_socket.c ringbuffer.c ringbuffer_helper.c unix.c; do L="$L $T/lib/$f"; done
gcc -g -O1 -fsanitize=address,undefined -fno-sanitize=alignment -w \
  -DHAVE_CONFIG_H -I$T/include -I$T/include/qb -I$T/lib -I"$HERE" \
  -o $B/demo "$HERE/demo.c" $L -L$T/lib/.libs -lqb -lpthread -ldl || { echo "build failed"; rm -rf $B; exit 2; }
LD_LIBRARY_PATH=$T/lib/.libs ASAN_OPTIONS=detect_leaks=0 $B/demo
rc=$?
rm -rf $B
exit $rc
