/*
 * C03 finding 4 (shared memory): qb_ipcc_disconnect() leaves all six
 * ring-buffer files of a SIGKILLed server behind when the dead server is
 * still in the process table (a zombie its parent has not reaped yet, or a
 * big process still being torn down) during the ~40 ms the client is willing
 * to wait.
 *
 * qb_ipcc_shm_disconnect() decides between qb_rb_close() (only unmaps) and
 * qb_rb_force_close() (unlinks) by kill(server_pid, 0) == ESRCH; for a
 * zombie kill() succeeds.
 *
 * exit 0: no file of the dead server left; 1: files left.
 */
#include "common.h"

static char sb[70000], rb[70000];

static int
count_files(pid_t s, const char *svc, int show)
{
	char pre[64], p[600];
	int n = 0;
	DIR *d = opendir("/dev/shm"), *d2;
	struct dirent *e, *e2;

	snprintf(pre, sizeof pre, "qb-%d-", (int)s);
	while (d && (e = readdir(d))) {
		if (strncmp(e->d_name, pre, strlen(pre))) {
			continue;
		}
		snprintf(p, sizeof p, "/dev/shm/%s", e->d_name);
		d2 = opendir(p);
		while (d2 && (e2 = readdir(d2))) {
			if (strstr(e2->d_name, svc)) {
				n++;
				if (show) {
					printf("    left: %s/%s\n", p, e2->d_name);
				}
			}
		}
		if (d2) {
			closedir(d2);
		}
	}
	if (d) {
		closedir(d);
	}
	return n;
}

static int
one(int reap_first)
{
	char name[64];
	struct req *rq = (struct req *)sb;
	struct iovec iov;
	qb_ipcc_connection_t *c;
	pid_t s;
	ssize_t r;
	int st, left;

	snprintf(name, sizeof name, "hC03d4-%d-%d", (int)getpid(), reap_first);
	s = start_server(name, QB_IPC_SHM);
	c = qb_ipcc_connect(name, 8192);
	if (c == NULL) {
		perror("connect");
		exit(2);
	}
	memset(sb, 0, sizeof sb);
	rq->hdr.id = REQ_ECHO;
	rq->hdr.size = sizeof(*rq);
	iov.iov_base = rq;
	iov.iov_len = rq->hdr.size;
	r = qb_ipcc_sendv_recv(c, &iov, 1, rb, sizeof rb, 3000);
	printf("echo: %zd, files of the server: %d\n", r, count_files(s, name, 0));
	kill(s, SIGKILL);
	if (reap_first) {
		waitpid(s, &st, 0);
	} else {
		msleep(300);	/* long dead - but nobody called wait() yet */
	}
	r = qb_ipcc_sendv_recv(c, &iov, 1, rb, sizeof rb, -1);
	printf("after the kill: sendv_recv(-1) = %zd (%s), is_connected=%d\n", r,
	       r < 0 ? strerror(-r) : "ok", qb_ipcc_is_connected(c));
	qb_ipcc_disconnect(c);
	left = count_files(s, name, 1);
	printf("%s: %d files left after qb_ipcc_disconnect\n",
	       reap_first ? "server reaped before the disconnect"
	       : "server dead but not reaped (zombie)", left);
	if (!reap_first) {
		waitpid(s, &st, 0);
	}
	cleanup_shm(s, name);
	return left;
}

int
main(void)
{
	int a, b;
	signal(SIGPIPE, SIG_IGN);
	setvbuf(stdout, NULL, _IOLBF, 0);
	quiet_log();
	a = one(1);
	b = one(0);
	if (a || b) {
		printf("VIOLATED: the client's disconnect left shared-memory files of "
		       "the dead server behind\n");
		return 1;
	}
	printf("held\n");
	return 0;
}
