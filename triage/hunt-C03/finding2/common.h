/* shared by the C03 demos: a minimal libqb server run in a child process */
#define _GNU_SOURCE
#include <stdio.h>
#include <stdlib.h>
#include <string.h>
#include <unistd.h>
#include <errno.h>
#include <signal.h>
#include <time.h>
#include <poll.h>
#include <dirent.h>
#include <sys/types.h>
#include <sys/wait.h>
#include <sys/uio.h>
#include <sys/prctl.h>
#include <qb/qbdefs.h>
#include <qb/qbloop.h>
#include <qb/qblog.h>
#include <qb/qbipcs.h>
#include <qb/qbipcc.h>

enum { REQ_ECHO = 1, REQ_NORESP = 2, REQ_FCON = 7, REQ_SLEEP = 8 };

struct req {
	struct qb_ipc_request_header hdr;
	uint32_t arg;
	uint32_t arg2;
	char data[];
};
struct rsp {
	struct qb_ipc_response_header hdr;
	uint32_t arg;
	uint32_t arg2;
	char data[];
};

static uint64_t
now_ms(void)
{
	struct timespec ts;
	clock_gettime(CLOCK_MONOTONIC, &ts);
	return (uint64_t) ts.tv_sec * 1000 + ts.tv_nsec / 1000000;
}
static void
msleep(int ms)
{
	struct timespec ts = { ms / 1000, (ms % 1000) * 1000000L };
	nanosleep(&ts, NULL);
}

static qb_loop_t *S_loop;
static qb_ipcs_service_t *S_svc;

static int32_t s_job_add(enum qb_loop_priority p, void *d, qb_loop_job_dispatch_fn f)
{ return qb_loop_job_add(S_loop, p, d, f); }
static int32_t s_add(enum qb_loop_priority p, int32_t fd, int32_t ev, void *d, qb_ipcs_dispatch_fn_t f)
{ return qb_loop_poll_add(S_loop, p, fd, ev, d, f); }
static int32_t s_mod(enum qb_loop_priority p, int32_t fd, int32_t ev, void *d, qb_ipcs_dispatch_fn_t f)
{ return qb_loop_poll_mod(S_loop, p, fd, ev, d, f); }
static int32_t s_del(int32_t fd)
{ return qb_loop_poll_del(S_loop, fd); }

static int32_t s_accept(qb_ipcs_connection_t *c, uid_t u, gid_t g) { return 0; }
static void s_created(qb_ipcs_connection_t *c) { }
static int32_t s_closed(qb_ipcs_connection_t *c) { return 0; }
static void s_destroyed(qb_ipcs_connection_t *c) { }

static int32_t
s_msg(qb_ipcs_connection_t *c, void *data, size_t size)
{
	static char out[70000];
	struct req *rq = data;
	struct rsp *rs = (struct rsp *)out;
	size_t pl = size - sizeof(*rq);

	memset(rs, 0, sizeof *rs);
	rs->hdr.id = rq->hdr.id;
	rs->arg = rq->arg;
	rs->hdr.size = sizeof(*rs);
	switch (rq->hdr.id) {
	case REQ_ECHO:
		memcpy(rs->data, rq->data, pl);
		rs->hdr.size = sizeof(*rs) + pl;
		(void)qb_ipcs_response_send(c, rs, rs->hdr.size);
		break;
	case REQ_FCON:
		(void)qb_ipcs_response_send(c, rs, rs->hdr.size);
		/* what corosync does while it synchronises: stop the clients */
		qb_ipcs_request_rate_limit(S_svc, QB_IPCS_RATE_OFF);
		break;
	case REQ_SLEEP:
		msleep(rq->arg);
		(void)qb_ipcs_response_send(c, rs, rs->hdr.size);
		break;
	default:
		break;
	}
	return 0;
}

/* forks the server; returns its pid once it accepts connections */
static pid_t
start_server(const char *name, enum qb_ipc_type type)
{
	int rp[2];
	pid_t p;
	char b;

	if (pipe(rp)) {
		exit(2);
	}
	fflush(stdout);
	p = fork();
	if (p == 0) {
		struct qb_ipcs_service_handlers sh = {
			.connection_accept = s_accept,
			.connection_created = s_created,
			.msg_process = s_msg,
			.connection_closed = s_closed,
			.connection_destroyed = s_destroyed,
		};
		struct qb_ipcs_poll_handlers ph = {
			.job_add = s_job_add, .dispatch_add = s_add,
			.dispatch_mod = s_mod, .dispatch_del = s_del,
		};
		prctl(PR_SET_PDEATHSIG, SIGKILL);
		close(rp[0]);
		S_loop = qb_loop_create();
		S_svc = qb_ipcs_create(name, 0, type, &sh);
		qb_ipcs_poll_handlers_set(S_svc, &ph);
		if (qb_ipcs_run(S_svc) != 0) {
			_exit(3);
		}
		if (write(rp[1], "R", 1) != 1) {
			_exit(3);
		}
		close(rp[1]);
		qb_loop_run(S_loop);
		_exit(0);
	}
	close(rp[1]);
	if (read(rp[0], &b, 1) != 1) {
		fprintf(stderr, "server did not start\n");
		exit(2);
	}
	close(rp[0]);
	return p;
}

/* SIGKILL and reap: afterwards the pid does not exist any more */
static void
kill_server(pid_t p)
{
	int st;
	kill(p, SIGKILL);
	waitpid(p, &st, 0);
}

static void
quiet_log(void)
{
	qb_log_init("demoC03", LOG_USER, LOG_EMERG);
	qb_log_ctl(QB_LOG_SYSLOG, QB_LOG_CONF_ENABLED, QB_FALSE);
}

/* remove what a killed server of ours left in /dev/shm (names carry svc) */
static void
cleanup_shm(pid_t server, const char *svc)
{
	char pre[64], p[600], q[1200];
	DIR *d = opendir("/dev/shm"), *d2;
	struct dirent *e, *e2;
	snprintf(pre, sizeof pre, "qb-%d-", (int)server);
	while (d && (e = readdir(d))) {
		if (strncmp(e->d_name, pre, strlen(pre))) {
			continue;
		}
		snprintf(p, sizeof p, "/dev/shm/%s", e->d_name);
		d2 = opendir(p);
		while (d2 && (e2 = readdir(d2))) {
			if (strstr(e2->d_name, svc)) {
				snprintf(q, sizeof q, "%s/%s", p, e2->d_name);
				unlink(q);
			}
		}
		if (d2) {
			closedir(d2);
		}
		rmdir(p);
	}
	if (d) {
		closedir(d);
	}
}

static int
is_disconnect_error(ssize_t r)
{
	/* everything but the "try again"/argument class, as the library's own
	 * qb_ipc_us_sock_error_is_disconnected() has it */
	return r < 0 && r != -EAGAIN && r != -ETIMEDOUT && r != -EINTR &&
	    r != -EMSGSIZE && r != -ENOMSG && r != -EINVAL;
}
