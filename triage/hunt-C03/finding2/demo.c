/*
 * C03 finding 2: "later calls fail immediately" does not hold for
 * qb_ipcc_recv().
 *
 * The server is SIGKILLed, the client is told so (qb_ipcc_sendv_recv returns
 * a disconnect error, qb_ipcc_is_connected() is false).  A later
 * qb_ipcc_recv(c, buf, len, 3000) still sits out its whole timeout before it
 * returns -ENOTCONN, and qb_ipcc_recv(c, buf, len, -1) never returns.
 *
 * exit 0: the later qb_ipcc_recv calls failed at once; 1: they did not.
 */
#include "common.h"

static char sb[70000], rb[70000];

static int
one(enum qb_ipc_type type, const char *tn)
{
	char name[64];
	struct req *rq = (struct req *)sb;
	struct iovec iov;
	qb_ipcc_connection_t *c;
	pid_t s, k;
	ssize_t r;
	uint64_t t0, dt;
	int bad = 0, st;

	snprintf(name, sizeof name, "hC03d2-%d-%s", (int)getpid(), tn);
	s = start_server(name, type);
	c = qb_ipcc_connect(name, 8192);
	if (c == NULL) {
		perror("connect");
		exit(2);
	}
	memset(sb, 0, sizeof sb);
	rq->hdr.id = REQ_ECHO;
	rq->hdr.size = sizeof(*rq) + 8;
	iov.iov_base = rq;
	iov.iov_len = rq->hdr.size;
	r = qb_ipcc_sendv_recv(c, &iov, 1, rb, sizeof rb, 3000);
	printf("[%s] echo with the server alive: %zd\n", tn, r);

	kill_server(s);
	msleep(50);

	t0 = now_ms();
	r = qb_ipcc_sendv_recv(c, &iov, 1, rb, sizeof rb, -1);
	dt = now_ms() - t0;
	printf("[%s] qb_ipcc_sendv_recv(-1) after the kill: %zd (%s) in %llu ms; "
	       "is_connected=%d\n", tn, r, r < 0 ? strerror(-r) : "ok",
	       (unsigned long long)dt, qb_ipcc_is_connected(c));
	if (!is_disconnect_error(r)) {
		printf("[%s] unexpected: no disconnect error\n", tn);
		bad = 1;
	}

	/* the death is known to the client now: "later calls fail immediately" */
	t0 = now_ms();
	r = qb_ipcc_recv(c, rb, sizeof rb, 3000);
	dt = now_ms() - t0;
	printf("[%s] later qb_ipcc_recv(timeout 3000): %zd (%s) after %llu ms\n", tn,
	       r, r < 0 ? strerror(-r) : "ok", (unsigned long long)dt);
	if (r >= 0 || dt > 1000) {
		bad = 1;
	}

	/* and with "wait for ever": run it in a child, look after 5 seconds */
	fflush(stdout);
	k = fork();
	if (k == 0) {
		r = qb_ipcc_recv(c, rb, sizeof rb, -1);
		_exit(r < 0 ? 0 : 1);
	}
	t0 = now_ms();
	while (now_ms() - t0 < 5000 && waitpid(k, &st, WNOHANG) == 0) {
		msleep(10);
	}
	dt = now_ms() - t0;
	if (dt >= 5000) {
		printf("[%s] later qb_ipcc_recv(timeout -1): still blocked after 5000 ms\n", tn);
		kill(k, SIGKILL);
		waitpid(k, &st, 0);
		bad = 1;
	} else {
		printf("[%s] later qb_ipcc_recv(timeout -1): returned after %llu ms\n",
		       tn, (unsigned long long)dt);
		if (dt > 1000) {
			bad = 1;
		}
	}
	qb_ipcc_disconnect(c);
	cleanup_shm(s, name);
	return bad;
}

int
main(void)
{
	int bad = 0;
	signal(SIGPIPE, SIG_IGN);
	setvbuf(stdout, NULL, _IOLBF, 0);
	quiet_log();
	bad += one(QB_IPC_SHM, "shm");
	bad += one(QB_IPC_SOCKET, "socket");
	if (bad) {
		printf("VIOLATED: qb_ipcc_recv does not fail immediately although the "
		       "disconnect had already been reported\n");
		return 1;
	}
	printf("held\n");
	return 0;
}
