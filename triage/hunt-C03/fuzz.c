/*
 * C03 model-based randomized tester: "death of the IPC peer at any point is
 * detected and fully cleaned up".
 *
 * Modes
 *   A : an (ASan) libqb server process serves a healthy control client and
 *       1..3 victim clients that are run under ptrace and SIGKILLed at a
 *       chosen system-call boundary of a random scenario.  After every
 *       death the model checks: callbacks (destroyed exactly once, closed
 *       before it iff created), descriptor count back at the baseline,
 *       /dev/shm entries of the server back at the baseline, healthy client
 *       still served.
 *   E : like A but enumerates every kill point of a list of fixed scenarios.
 *   H : raw handshake prefixes (every prefix length, mutated headers, partial
 *       reads of the reply) followed by close/reset; same checks.
 *   B : the server runs under ptrace and is SIGKILLed at the Nth system call
 *       after the (ASan) client armed the counter; client calls are timed
 *       against the deadlines the property promises, later calls have to
 *       fail at once, disconnect has to remove the files.
 *
 * usage: fuzz <A|E|H|B> <shm|sock> <seed> <iterations> [flags]
 */
#define _GNU_SOURCE
#include <stdio.h>
#include <stdlib.h>
#include <string.h>
#include <stdarg.h>
#include <unistd.h>
#include <errno.h>
#include <signal.h>
#include <dirent.h>
#include <fcntl.h>
#include <poll.h>
#include <time.h>
#include <stddef.h>
#include <sys/types.h>
#include <sys/wait.h>
#include <sys/ptrace.h>
#include <sys/socket.h>
#include <sys/un.h>
#include <sys/mman.h>
#include <sys/uio.h>
#include <sys/prctl.h>
#include <sys/stat.h>
#include <sys/resource.h>

#include <qb/qbdefs.h>
#include <qb/qbloop.h>
#include <qb/qblog.h>
#include <qb/qbipcs.h>
#include <qb/qbipcc.h>

/* ------------------------------------------------------------------ */
/* protocol between our clients and our server                         */
enum {
	REQ_ECHO = 1,		/* reply with the same payload */
	REQ_NORESP = 2,		/* no reply */
	REQ_EVENTS = 3,		/* arg events of arg2 bytes, then reply */
	REQ_FLAGS = 4,		/* set server behaviour flags (control client) */
	REQ_EVSTREAM = 5,	/* arg events, 200us apart, no reply */
	REQ_FCPULSE = 6,	/* flow control on for arg ms, reply first */
	REQ_FCON = 7,		/* flow control on for good, reply first */
	REQ_SLEEP = 8,		/* sleep arg ms in msg_process, then reply */
};

#define SF_REJECT	1	/* connection_accept refuses victims */
#define SF_EV_ON_CREATE	2	/* send an event from connection_created */
#define SF_CLOSED_RETRY	4	/* connection_closed asks for one re-run */
#define SF_DISC_ON_FAIL	8	/* qb_ipcs_disconnect() from the callback whose send failed */

struct req {
	struct qb_ipc_request_header hdr;
	uint32_t arg;
	uint32_t arg2;
	char data[];
};
struct rsp {
	struct qb_ipc_response_header hdr;
	uint32_t arg;
	uint32_t arg2;
	char data[];
};

#define MAXMSG (1 << 17)

static int verbose;
static unsigned long n_ops;	/* operations driven so far */

static uint64_t
now_ms(void)
{
	struct timespec ts;
	clock_gettime(CLOCK_MONOTONIC, &ts);
	return (uint64_t) ts.tv_sec * 1000 + ts.tv_nsec / 1000000;
}

static void
msleep(int ms)
{
	struct timespec ts = { ms / 1000, (ms % 1000) * 1000000L };
	nanosleep(&ts, NULL);
}

/* our own PRNG so that runs are reproducible */
static uint64_t rng_s;
static uint32_t
rnd(void)
{
	rng_s ^= rng_s << 13;
	rng_s ^= rng_s >> 7;
	rng_s ^= rng_s << 17;
	return (uint32_t) (rng_s >> 11);
}
static uint32_t
rnd_n(uint32_t n)
{
	return n ? rnd() % n : 0;
}

/* ------------------------------------------------------------------ */
/* server                                                              */
static qb_loop_t *S_loop;
static qb_ipcs_service_t *S_svc;
static int S_log = -1;
static uint32_t S_flags;
static pid_t S_ctlpid;		/* pid of the control client: never refused */

static void
slog(const char *fmt, ...)
{
	char b[128];
	va_list ap;
	int n;
	va_start(ap, fmt);
	n = vsnprintf(b, sizeof b, fmt, ap);
	va_end(ap);
	if (S_log >= 0 && write(S_log, b, n) != n) {
		/* the tester went away */
		_exit(0);
	}
}

static int32_t
s_job_add(enum qb_loop_priority p, void *data, qb_loop_job_dispatch_fn fn)
{
	return qb_loop_job_add(S_loop, p, data, fn);
}
static int32_t
s_dispatch_add(enum qb_loop_priority p, int32_t fd, int32_t ev, void *data,
	       qb_ipcs_dispatch_fn_t fn)
{
	return qb_loop_poll_add(S_loop, p, fd, ev, data, fn);
}
static int32_t
s_dispatch_mod(enum qb_loop_priority p, int32_t fd, int32_t ev, void *data,
	       qb_ipcs_dispatch_fn_t fn)
{
	return qb_loop_poll_mod(S_loop, p, fd, ev, data, fn);
}
static int32_t
s_dispatch_del(int32_t fd)
{
	return qb_loop_poll_del(S_loop, fd);
}

static int32_t
s_accept(qb_ipcs_connection_t *c, uid_t uid, gid_t gid)
{
	struct qb_ipcs_connection_stats st;
	qb_ipcs_connection_stats_get(c, &st, 0);
	slog("A %p %d\n", (void *)c, (int)st.client_pid);
	if ((S_flags & SF_REJECT) && st.client_pid != S_ctlpid) {
		return -EACCES;
	}
	return 0;
}

static void
s_created(qb_ipcs_connection_t *c)
{
	slog("C %p\n", (void *)c);
	qb_ipcs_context_set(c, calloc(1, sizeof(int)));
	if (S_flags & SF_EV_ON_CREATE) {
		struct rsp r;
		memset(&r, 0, sizeof r);
		r.hdr.id = 100;
		r.hdr.size = sizeof r;
		if (qb_ipcs_event_send(c, &r, sizeof r) < 0 &&
		    (S_flags & SF_DISC_ON_FAIL)) {
			/* documented by the test suite ("disconnect after
			 * created"): such a connection gets no closed callback */
			slog("K %p\n", (void *)c);
			qb_ipcs_disconnect(c);
		}
	}
}

static int32_t
s_closed(qb_ipcs_connection_t *c)
{
	int *ctx = qb_ipcs_context_get(c);
	slog("X %p\n", (void *)c);
	if ((S_flags & SF_CLOSED_RETRY) && ctx && *ctx == 0) {
		*ctx = 1;
		return -1;
	}
	return 0;
}

static void
s_destroyed(qb_ipcs_connection_t *c)
{
	slog("D %p\n", (void *)c);
	free(qb_ipcs_context_get(c));
}

static void
s_fc_off(void *data)
{
	qb_ipcs_request_rate_limit(S_svc, QB_IPCS_RATE_NORMAL);
}

static char S_buf[MAXMSG + 64];

/* 1 when the connection was dropped because the send failed */
static int
s_sent(qb_ipcs_connection_t *c, ssize_t r)
{
	if (r < 0 && r != -EAGAIN && r != -ETIMEDOUT && r != -ENOBUFS &&
	    (S_flags & SF_DISC_ON_FAIL)) {
		qb_ipcs_disconnect(c);
		return 1;
	}
	return 0;
}

static int32_t
s_msg(qb_ipcs_connection_t *c, void *data, size_t size)
{
	struct req *rq = data;
	struct rsp *rs = (struct rsp *)S_buf;
	size_t pl = size > sizeof(*rq) ? size - sizeof(*rq) : 0;
	uint32_t i;
	qb_loop_timer_handle th;

	if (size < sizeof(*rq)) {
		return 0;
	}
	memset(rs, 0, sizeof *rs);
	rs->hdr.id = rq->hdr.id;
	rs->arg = rq->arg;
	rs->arg2 = rq->arg2;
	if (pl > MAXMSG) {
		pl = MAXMSG;
	}

	switch (rq->hdr.id) {
	case REQ_ECHO:
		memcpy(rs->data, rq->data, pl);
		rs->hdr.size = sizeof(*rs) + pl;
		(void)s_sent(c, qb_ipcs_response_send(c, rs, rs->hdr.size));
		break;
	case REQ_NORESP:
		break;
	case REQ_EVENTS:
	case REQ_EVSTREAM:
		{
			uint32_t n = rq->arg, esz = rq->arg2, id = rq->hdr.id;
			if (esz < sizeof(*rs)) {
				esz = sizeof(*rs);
			}
			if (esz > MAXMSG) {
				esz = MAXMSG;
			}
			memset(rs->data, 0x5a, esz - sizeof(*rs));
			rs->hdr.id = 101;
			rs->hdr.size = esz;
			for (i = 0; i < n; i++) {
				rs->arg = i;
				if (s_sent(c, qb_ipcs_event_send(c, rs, esz))) {
					return 0;
				}
				if (id == REQ_EVSTREAM) {
					usleep(200);
				}
			}
			if (id == REQ_EVENTS) {
				rs->hdr.id = id;
				rs->hdr.size = sizeof(*rs);
				(void)s_sent(c, qb_ipcs_response_send(c, rs, rs->hdr.size));
			}
		}
		break;
	case REQ_FLAGS:
		S_flags = rq->arg;
		rs->hdr.size = sizeof(*rs);
		(void)qb_ipcs_response_send(c, rs, rs->hdr.size);
		break;
	case REQ_FCPULSE:
		rs->hdr.size = sizeof(*rs);
		(void)qb_ipcs_response_send(c, rs, rs->hdr.size);
		qb_ipcs_request_rate_limit(S_svc, QB_IPCS_RATE_OFF);
		qb_loop_timer_add(S_loop, QB_LOOP_HIGH,
				  (uint64_t) rq->arg * QB_TIME_NS_IN_MSEC,
				  NULL, s_fc_off, &th);
		break;
	case REQ_FCON:
		rs->hdr.size = sizeof(*rs);
		(void)qb_ipcs_response_send(c, rs, rs->hdr.size);
		qb_ipcs_request_rate_limit(S_svc, QB_IPCS_RATE_OFF);
		break;
	case REQ_SLEEP:
		msleep(rq->arg);
		rs->hdr.size = sizeof(*rs);
		(void)qb_ipcs_response_send(c, rs, rs->hdr.size);
		break;
	default:
		break;
	}
	return 0;
}

static int32_t
s_ctl_gone(int32_t fd, int32_t revents, void *data)
{
	/* tester closed the control pipe (or died): stop */
	_exit(0);
	return -1;
}

static void
quiet_log(void)
{
	qb_log_init("fuzzC03", LOG_USER, LOG_EMERG);
	qb_log_ctl(QB_LOG_SYSLOG, QB_LOG_CONF_ENABLED, QB_FALSE);
	if (getenv("C03_DEBUG")) {
		qb_log_filter_ctl(QB_LOG_STDERR, QB_LOG_FILTER_ADD,
				  QB_LOG_FILTER_FILE, "*", LOG_TRACE);
		qb_log_format_set(QB_LOG_STDERR, "[%P %p] %f:%l %b");
		qb_log_ctl(QB_LOG_STDERR, QB_LOG_CONF_ENABLED, QB_TRUE);
	}
}

static void
server_main(enum qb_ipc_type type, const char *name, int logfd, int ctlfd,
	    pid_t ctlpid, uint32_t enforce)
{
	struct qb_ipcs_service_handlers sh = {
		.connection_accept = s_accept,
		.connection_created = s_created,
		.msg_process = s_msg,
		.connection_closed = s_closed,
		.connection_destroyed = s_destroyed,
	};
	struct qb_ipcs_poll_handlers ph = {
		.job_add = s_job_add,
		.dispatch_add = s_dispatch_add,
		.dispatch_mod = s_dispatch_mod,
		.dispatch_del = s_dispatch_del,
	};
	int32_t res;

	prctl(PR_SET_PDEATHSIG, SIGKILL);
	signal(SIGPIPE, SIG_DFL);	/* the library must not rely on it being ignored */
	S_log = logfd;
	S_ctlpid = ctlpid;
	S_loop = qb_loop_create();
	S_svc = qb_ipcs_create(name, 0, type, &sh);
	if (S_svc == NULL) {
		slog("E create\n");
		_exit(3);
	}
	if (enforce) {
		qb_ipcs_enforce_buffer_size(S_svc, enforce);
	}
	qb_ipcs_poll_handlers_set(S_svc, &ph);
	res = qb_ipcs_run(S_svc);
	if (res != 0) {
		slog("E run %d\n", res);
		_exit(3);
	}
	if (ctlfd >= 0) {
		qb_loop_poll_add(S_loop, QB_LOOP_HIGH, ctlfd, POLLIN, NULL,
				 s_ctl_gone);
	}
	slog("R\n");
	qb_loop_run(S_loop);
	_exit(0);
}

/* ------------------------------------------------------------------ */
/* helpers of the tester process                                       */

static int n_viol;
static char viol_ctx[512];

static void
violation(const char *fmt, ...)
{
	va_list ap;
	n_viol++;
	printf("VIOLATION: ");
	va_start(ap, fmt);
	vprintf(fmt, ap);
	va_end(ap);
	printf("   [%s]\n", viol_ctx);
	fflush(stdout);
}

static int
count_fds(pid_t pid, char *desc, size_t dl)
{
	char p[64], l[256], t[300];
	DIR *d;
	struct dirent *e;
	int n = 0;
	size_t off = 0;
	snprintf(p, sizeof p, "/proc/%d/fd", (int)pid);
	d = opendir(p);
	if (d == NULL) {
		return -1;
	}
	if (desc && dl) {
		desc[0] = 0;
	}
	while ((e = readdir(d))) {
		ssize_t r;
		if (e->d_name[0] == '.') {
			continue;
		}
		n++;
		if (desc) {
			snprintf(t, sizeof t, "%s/%s", p, e->d_name);
			r = readlink(t, l, sizeof l - 1);
			if (r < 0) {
				r = 0;
			}
			l[r] = 0;
			off += snprintf(desc + off, off < dl ? dl - off : 0,
					"%s=%s ", e->d_name, l);
			if (off >= dl) {
				off = dl - 1;
			}
		}
	}
	closedir(d);
	return n;
}

/* all /dev/shm entries (recursively one level) that start with prefix */
#define SHM_MAX 256
struct shmset {
	int n;
	char name[SHM_MAX][160];
};

static int
cmpstr(const void *a, const void *b)
{
	return strcmp(a, b);
}

static void
shm_scan(const char *prefix, struct shmset *s, int files_only)
{
	DIR *d = opendir("/dev/shm");
	struct dirent *e;
	size_t pl = strlen(prefix);
	s->n = 0;
	if (d == NULL) {
		return;
	}
	while ((e = readdir(d))) {
		char sub[300];
		DIR *d2;
		struct dirent *e2;
		if (strncmp(e->d_name, prefix, pl) != 0) {
			continue;
		}
		if (!files_only && s->n < SHM_MAX) {
			snprintf(s->name[s->n++], 160, "%s", e->d_name);
		}
		snprintf(sub, sizeof sub, "/dev/shm/%s", e->d_name);
		d2 = opendir(sub);
		if (d2 == NULL) {
			if (files_only && s->n < SHM_MAX) {
				snprintf(s->name[s->n++], 160, "%s", e->d_name);
			}
			continue;
		}
		while ((e2 = readdir(d2))) {
			if (e2->d_name[0] == '.' &&
			    (e2->d_name[1] == 0 || e2->d_name[1] == '.')) {
				continue;
			}
			if (s->n < SHM_MAX) {
				snprintf(s->name[s->n++], 160, "%.60s/%.90s",
					 e->d_name, e2->d_name);
			}
		}
		closedir(d2);
	}
	closedir(d);
	qsort(s->name, s->n, 160, cmpstr);
}

static int
shm_equal(const struct shmset *a, const struct shmset *b, char *diff, size_t dl)
{
	int i, j, same = 1;
	size_t off = 0;
	diff[0] = 0;
	for (i = 0; i < b->n; i++) {
		for (j = 0; j < a->n; j++) {
			if (strcmp(a->name[j], b->name[i]) == 0) {
				break;
			}
		}
		if (j == a->n) {
			same = 0;
			off += snprintf(diff + off, off < dl ? dl - off : 0,
					"+%s ", b->name[i]);
			if (off >= dl) {
				off = dl - 1;
			}
		}
	}
	return same;
}

static void
shm_remove_prefix(const char *prefix)
{
	struct shmset *s = malloc(sizeof *s);
	int i;
	char p[300];
	shm_scan(prefix, s, 0);
	/* files first (names containing '/'), then the directories */
	for (i = 0; i < s->n; i++) {
		/* only what carries our service names; stale entries of
		 * other programs that once had the same pid stay */
		if (strchr(s->name[i], '/') && strstr(s->name[i], "hC03")) {
			snprintf(p, sizeof p, "/dev/shm/%s", s->name[i]);
			unlink(p);
		}
	}
	for (i = 0; i < s->n; i++) {
		if (!strchr(s->name[i], '/')) {
			snprintf(p, sizeof p, "/dev/shm/%s", s->name[i]);
			(void)rmdir(p);	/* fails when foreign files are inside */
		}
	}
	free(s);
}

/* ------------------------------------------------------------------ */
/* model of the server's connections, fed by its callback log          */
struct crec {
	char ptr[24];
	int pid;
	int created, closed, destroyed;
	int live;
	int is_ctl;		/* the tester's own healthy connection */
	int disc_in_created;
};
#define CREC_MAX 4096
static struct crec crecs[CREC_MAX];
static int n_crecs;
static char logacc[8192];
static size_t logacc_n;
static int server_ready, server_eof;
static uint32_t cur_sflags;
static int seen_first_accept;

static struct crec *
crec_live(const char *ptr)
{
	int i;
	for (i = n_crecs - 1; i >= 0; i--) {
		if (crecs[i].live && strcmp(crecs[i].ptr, ptr) == 0) {
			return &crecs[i];
		}
	}
	return NULL;
}

static void
model_line(char *l)
{
	char ptr[32] = "";
	int pid = 0;
	struct crec *r;

	if (verbose > 1) {
		printf("  S: %s\n", l);
	}
	switch (l[0]) {
	case 'R':
		server_ready = 1;
		break;
	case 'E':
		violation("server setup error: %s", l);
		break;
	case 'A':
		sscanf(l + 2, "%23s %d", ptr, &pid);
		if (crec_live(ptr)) {
			violation("accept for %s which was never destroyed", ptr);
			crec_live(ptr)->live = 0;
		}
		{
			int j;
			r = NULL;
			for (j = 0; j < n_crecs; j++) {
				if (!crecs[j].live) {
					r = &crecs[j];
					break;
				}
			}
			if (r == NULL) {
				if (n_crecs == CREC_MAX) {
					printf("too many live connections\n");
					exit(2);
				}
				r = &crecs[n_crecs++];
			}
		}
		memset(r, 0, sizeof *r);
		r->is_ctl = !seen_first_accept;
		seen_first_accept = 1;
		snprintf(r->ptr, sizeof r->ptr, "%s", ptr);
		r->pid = pid;
		r->live = 1;
		break;
	case 'K':
		sscanf(l + 2, "%23s", ptr);
		r = crec_live(ptr);
		if (r) {
			r->disc_in_created = 1;
		}
		break;
	case 'C':
	case 'X':
	case 'D':
		sscanf(l + 2, "%23s", ptr);
		r = crec_live(ptr);
		if (r == NULL) {
			violation("callback '%c' for connection %s that is not alive"
				  " (never accepted or already destroyed)", l[0], ptr);
			break;
		}
		if (l[0] == 'C') {
			if (r->created || r->closed) {
				violation("created callback repeated/after closed %s", ptr);
			}
			r->created++;
		} else if (l[0] == 'X') {
			if (!r->created) {
				violation("closed callback for never-created %s", ptr);
			}
			r->closed++;
			if (r->closed > 1 + !!(cur_sflags & SF_CLOSED_RETRY)) {
				violation("closed callback ran %d times for %s",
					  r->closed, ptr);
			}
		} else {
			if (r->created && !r->closed && !r->disc_in_created) {
				violation("destroyed without closed for created %s", ptr);
			}
			r->destroyed++;
			r->live = 0;
		}
		break;
	default:
		break;
	}
}

static void
model_drain(int fd, int wait_ms)
{
	struct pollfd p = { fd, POLLIN, 0 };
	while (!server_eof && poll(&p, 1, wait_ms) > 0) {
		ssize_t n = read(fd, logacc + logacc_n, sizeof logacc - logacc_n - 1);
		char *nl;
		if (n <= 0) {
			server_eof = 1;
			break;
		}
		logacc_n += n;
		logacc[logacc_n] = 0;
		while ((nl = memchr(logacc, '\n', logacc_n))) {
			*nl = 0;
			model_line(logacc);
			logacc_n -= (nl + 1 - logacc);
			memmove(logacc, nl + 1, logacc_n + 1);
		}
		wait_ms = 0;
	}
}

static int
model_live_victims(struct crec **first)
{
	int i, n = 0;
	for (i = 0; i < n_crecs; i++) {
		if (crecs[i].live && !crecs[i].is_ctl) {
			if (n == 0 && first) {
				*first = &crecs[i];
			}
			n++;
		}
	}
	return n;
}

/* ------------------------------------------------------------------ */
/* a server instance owned by the tester (modes A, E, H)               */
struct srv {
	pid_t pid;
	int logfd;
	int ctlfd;
	char name[64];
	enum qb_ipc_type type;
	qb_ipcc_connection_t *h;	/* healthy control client */
	size_t hmax;
	int base_fds;
	struct shmset base_shm;
	char prefix[32];
};

static int svc_seq;

static int
srv_start(struct srv *s, enum qb_ipc_type type, uint32_t enforce, int ctl_is_self)
{
	int lp[2], cp[2];
	uint64_t t0;
	pid_t me = getpid();

	memset(s, 0, sizeof *s);
	s->type = type;
	snprintf(s->name, sizeof s->name, "hC03-%d-%d", (int)me, svc_seq++);
	if (pipe(lp) || pipe(cp)) {
		perror("pipe");
		exit(2);
	}
	n_crecs = 0;
	seen_first_accept = 0;
	logacc_n = 0;
	server_ready = server_eof = 0;
	cur_sflags = 0;
	fflush(stdout);
	s->pid = fork();
	if (s->pid == 0) {
		close(lp[0]);
		close(cp[1]);
		server_main(type, s->name, lp[1], cp[0], ctl_is_self ? me : -1, enforce);
		_exit(0);
	}
	close(lp[1]);
	close(cp[0]);
	s->logfd = lp[0];
	s->ctlfd = cp[1];
	fcntl(s->logfd, F_SETFD, FD_CLOEXEC);
	fcntl(s->ctlfd, F_SETFD, FD_CLOEXEC);
	snprintf(s->prefix, sizeof s->prefix, "qb-%d-", (int)s->pid);
	shm_remove_prefix(s->prefix);	/* stale leftovers of an earlier pid */
	t0 = now_ms();
	while (!server_ready && !server_eof && now_ms() - t0 < 10000) {
		model_drain(s->logfd, 50);
	}
	if (!server_ready) {
		printf("server did not come up\n");
		return -1;
	}
	return 0;
}

static void
srv_stop(struct srv *s)
{
	int st;
	if (s->h) {
		qb_ipcc_disconnect(s->h);
		s->h = NULL;
	}
	close(s->ctlfd);
	kill(s->pid, SIGKILL);
	waitpid(s->pid, &st, 0);
	close(s->logfd);
	shm_remove_prefix(s->prefix);
}

static char H_buf[MAXMSG + 64];

/* round trip on the healthy connection; retried while flow control is on.
 * Replies are matched by a token so that a late reply of an earlier, timed
 * out call cannot be mistaken for this one. */
static uint64_t h_max_wait;
static int
h_call(struct srv *s, int id, uint32_t arg, uint32_t arg2_unused, size_t pl, int tmo_ms)
{
	struct req *rq = (struct req *)H_buf;
	static char rbuf[MAXMSG + 64];
	struct rsp *rs = (struct rsp *)rbuf;
	struct iovec iov;
	ssize_t r;
	uint64_t t0 = now_ms();
	static uint32_t token = 1000;

	(void)arg2_unused;
	memset(rq, 0, sizeof *rq);
	rq->hdr.id = id;
	rq->hdr.size = sizeof(*rq) + pl;
	rq->arg = arg;
	rq->arg2 = ++token;
	memset(rq->data, 0xa5, pl);
	iov.iov_base = rq;
	iov.iov_len = rq->hdr.size;
	do {
		r = qb_ipcc_sendv(s->h, &iov, 1);
		if (r == -EAGAIN) {
			msleep(2);
		}
	} while (r == -EAGAIN && now_ms() - t0 < (uint64_t) tmo_ms);
	if (r < 0) {
		return (int)r;
	}
	for (;;) {
		r = qb_ipcc_recv(s->h, rbuf, sizeof rbuf, 500);
		if (r >= (ssize_t)sizeof(*rs) && rs->arg2 == token) {
			break;
		}
		if (r < 0 && r != -EAGAIN && r != -ETIMEDOUT) {
			return (int)r;
		}
		if (now_ms() - t0 > (uint64_t) tmo_ms) {
			return -ETIMEDOUT;
		}
	}
	if (now_ms() - t0 > h_max_wait) {
		h_max_wait = now_ms() - t0;
		if (h_max_wait > 1500) {
			printf("NOTE: healthy client waited %llu ms for its reply [%s]\n",
			       (unsigned long long)h_max_wait, viol_ctx);
		}
	}
	if (rs->hdr.id != id || rs->arg != arg ||
	    (id == REQ_ECHO && (size_t)r != sizeof(*rs) + pl)) {
		return -EBADMSG;
	}
	return 0;
}

static int
srv_connect_h(struct srv *s, size_t maxmsg)
{
	int i;
	s->hmax = maxmsg;
	s->h = qb_ipcc_connect(s->name, maxmsg);
	if (s->h == NULL) {
		printf("control client cannot connect: %s\n", strerror(errno));
		return -1;
	}
	if (h_call(s, REQ_ECHO, 1, 2, 100, 3000) != 0) {
		printf("control client: first echo failed\n");
		return -1;
	}
	/* the server connects its response socket on first use (socket type) */
	for (i = 0; i < 3; i++) {
		model_drain(s->logfd, 20);
	}
	s->base_fds = count_fds(s->pid, NULL, 0);
	shm_scan(s->prefix, &s->base_shm, 0);
	return 0;
}

static void
srv_set_flags(struct srv *s, uint32_t f)
{
	if (f == cur_sflags) {
		return;
	}
	if (h_call(s, REQ_FLAGS, f, 0, 0, 60000) != 0) {
		violation("control client could not set flags (server not serving)");
	}
	cur_sflags = f;
}

/*
 * Wait until the server has forgotten every victim, then compare with the
 * model.  Returns 0 when everything the property promises holds.
 */
static int
srv_settle_and_check(struct srv *s, int tmo_ms)
{
	uint64_t t0 = now_ms();
	int fds = -1, ok_fd = 0, ok_shm = 0, ok_cb = 0, before = n_viol;
	struct shmset *cur = malloc(sizeof *cur);
	char diff[1024] = "";
	struct crec *lv = NULL;
	int stable = 0, stalled = 0;

	for (;;) {
		model_drain(s->logfd, 2);
		if (server_eof) {
			int st = 0;
			waitpid(s->pid, &st, WNOHANG);
			violation("server process died (status 0x%x) - crash/sanitizer"
				  " report above", st);
			free(cur);
			return -1;
		}
		fds = count_fds(s->pid, NULL, 0);
		ok_fd = (fds == s->base_fds);
		shm_scan(s->prefix, cur, 0);
		ok_shm = shm_equal(&s->base_shm, cur, diff, sizeof diff);
		ok_cb = (model_live_victims(&lv) == 0);
		if (ok_fd && ok_shm && ok_cb) {
			/* stay clean for a moment: catches late double callbacks */
			if (++stable >= 3) {
				break;
			}
		} else {
			stable = 0;
		}
		if (now_ms() - t0 > (uint64_t) tmo_ms) {
			if (!stalled && s->type == QB_IPC_SOCKET) {
				/* finding 3: the server sleeps 1 s per reply/event
				 * it tries to send to the dead client; see whether
				 * it comes back before calling it a leak */
				stalled = 1;
				tmo_ms = 1000000;
				continue;
			}
			break;
		}
	}
	if (stalled) {
		violation("F3: server was frozen for %llu ms after the death",
			  (unsigned long long)(now_ms() - t0));
	}
	if (now_ms() - t0 > 3000) {
		printf("NOTE: server needed %llu ms to clean up after the death [%s]\n",
		       (unsigned long long)(now_ms() - t0), viol_ctx);
	}
	if (!ok_cb && lv) {
		violation("connection %s of dead client pid %d: created=%d closed=%d"
			  " destroyed=%d after %d ms", lv->ptr, lv->pid,
			  lv->created, lv->closed, lv->destroyed, tmo_ms);
		lv->live = 0;	/* do not report again */
	}
	if (!ok_fd) {
		char d[2048];
		count_fds(s->pid, d, sizeof d);
		violation("server holds %d descriptors, baseline %d: %s", fds,
			  s->base_fds, d);
		s->base_fds = fds;	/* report each leak once */
	}
	if (!ok_shm) {
		violation("server left /dev/shm entries: %s", diff);
		shm_remove_prefix(s->prefix);
		/* keep the control client's entries in the baseline */
		shm_scan(s->prefix, &s->base_shm, 0);
	}
	free(cur);
	return before == n_viol ? 0 : -1;
}

static void
srv_health(struct srv *s)
{
	size_t pl = rnd_n(3) == 0 ? rnd_n(2000) : 16;
	int r = h_call(s, REQ_ECHO, rnd(), 0, pl, 60000);
	n_ops++;
	if (r != 0) {
		violation("healthy client no longer served: echo returned %d (%s)",
			  r, strerror(-r));
	}
}

/* ------------------------------------------------------------------ */
/* victim client scenarios (run in a forked, ptraced child)            */
struct cscen {
	size_t maxmsg;
	int n_rr;		/* echo round trips */
	int rr_size;
	int n_events;		/* events requested */
	int ev_size;
	int read_events;	/* how many of them are read */
	int n_async;		/* qb_ipcc_send without reading replies */
	int async_id;		/* REQ_ECHO (replies queue up) or REQ_NORESP */
	int async_size;
	int do_disconnect;
	int linger_ms;		/* idle before the end */
	int async_connect;
	int sleep_req_ms;	/* one REQ_SLEEP sent with qb_ipcc_send first */
};

static void
victim(const char *name, const struct cscen *sc)
{
	static char sb[MAXMSG + 64], rb[MAXMSG + 64];
	struct req *rq = (struct req *)sb;
	qb_ipcc_connection_t *c;
	struct iovec iov;
	int i;
	ssize_t r;

	if (sc->async_connect) {
		int fd = -1;
		struct pollfd p;
		c = qb_ipcc_connect_async(name, sc->maxmsg, &fd);
		if (c == NULL) {
			_exit(10);
		}
		p.fd = fd;
		p.events = POLLIN;
		poll(&p, 1, 5000);
		if (qb_ipcc_connect_continue(c) != 0) {
			_exit(10);
		}
	} else {
		c = qb_ipcc_connect(name, sc->maxmsg);
		if (c == NULL) {
			_exit(10);
		}
	}
	memset(sb, 0x33, sizeof sb);
	if (sc->sleep_req_ms) {
		rq->hdr.id = REQ_SLEEP;
		rq->hdr.size = sizeof(*rq);
		rq->arg = sc->sleep_req_ms;
		(void)qb_ipcc_send(c, rq, rq->hdr.size);
	}
	for (i = 0; i < sc->n_rr; i++) {
		rq->hdr.id = REQ_ECHO;
		rq->hdr.size = sizeof(*rq) + sc->rr_size;
		rq->arg = i;
		iov.iov_base = rq;
		iov.iov_len = rq->hdr.size;
		r = qb_ipcc_sendv_recv(c, &iov, 1, rb, sizeof rb, 5000);
		if (r < 0 && r != -EAGAIN) {
			_exit(11);
		}
	}
	if (sc->n_events) {
		rq->hdr.id = REQ_EVENTS;
		rq->hdr.size = sizeof(*rq);
		rq->arg = sc->n_events;
		rq->arg2 = sc->ev_size;
		iov.iov_base = rq;
		iov.iov_len = rq->hdr.size;
		r = qb_ipcc_sendv_recv(c, &iov, 1, rb, sizeof rb, 5000);
		for (i = 0; i < sc->read_events; i++) {
			r = qb_ipcc_event_recv(c, rb, sizeof rb, 500);
			if (r < 0) {
				break;
			}
		}
	}
	for (i = 0; i < sc->n_async; i++) {
		rq->hdr.id = sc->async_id;
		rq->hdr.size = sizeof(*rq) + sc->async_size;
		rq->arg = i;
		r = qb_ipcc_send(c, rq, rq->hdr.size);
		if (r < 0 && r != -EAGAIN) {
			break;
		}
	}
	if (sc->linger_ms) {
		msleep(sc->linger_ms);
	}
	if (sc->do_disconnect) {
		qb_ipcc_disconnect(c);
	}
	_exit(0);
}

static size_t
pick_maxmsg(void)
{
	static const size_t t[] = { 0, 1, 4096, 12344, 12345, 16384, 65536, 100000, MAXMSG };
	return t[rnd_n(sizeof t / sizeof t[0])];
}

static int
pick_size(size_t maxmsg, enum qb_ipc_type type)
{
	size_t eff = maxmsg < 12312 ? 12312 : maxmsg;	/* library floor */
	size_t lim = eff - sizeof(struct rsp) - 8;
	if (lim > MAXMSG - 64) {
		lim = MAXMSG - 64;
	}
	switch (rnd_n(6)) {
	case 0:
		return 0;
	case 1:
		return 1;
	case 2:
		return (int)lim;	/* boundary: largest that fits */
	case 3:
		return (int)rnd_n(lim);
	default:
		return (int)rnd_n(512);
	}
}

static void
random_scen(struct cscen *sc, enum qb_ipc_type type)
{
	memset(sc, 0, sizeof *sc);
	sc->maxmsg = pick_maxmsg();
	sc->n_rr = rnd_n(4);
	if (rnd_n(12) == 0) {
		sc->n_rr = 20 + rnd_n(40);	/* enough traffic to wrap the rings */
	}
	sc->rr_size = pick_size(sc->maxmsg, type);
	if (rnd_n(2)) {
		sc->n_events = 1 + rnd_n(6);
		sc->ev_size = pick_size(sc->maxmsg, type);
		sc->read_events = rnd_n(sc->n_events + 1);
	}
	if (rnd_n(25) == 0) {
		/* so many unread events that the notification bytes no longer
		 * fit the socket: the server has to queue them (POLLOUT) */
		sc->n_events = 300 + rnd_n(500);
		sc->ev_size = 0;
		sc->read_events = rnd_n(3);
	}
	if (rnd_n(2)) {
		sc->n_async = 1 + rnd_n(8);
		sc->async_id = rnd_n(2) ? REQ_ECHO : REQ_NORESP;
		sc->async_size = pick_size(sc->maxmsg, type);
	}
	sc->do_disconnect = rnd_n(2);
	sc->linger_ms = rnd_n(4) == 0 ? rnd_n(3) : 0;
	sc->async_connect = rnd_n(4) == 0;
	sc->sleep_req_ms = rnd_n(8) == 0 ? 1 + rnd_n(5) : 0;
}

static void
scen_str(const struct cscen *sc, char *b, size_t l)
{
	snprintf(b, l, "max=%zu rr=%dx%d ev=%d/%dx%d async=%dx%d(id%d) disc=%d"
		 " linger=%d aconn=%d sleepreq=%d", sc->maxmsg, sc->n_rr,
		 sc->rr_size, sc->read_events, sc->n_events, sc->ev_size,
		 sc->n_async, sc->async_size, sc->async_id, sc->do_disconnect,
		 sc->linger_ms, sc->async_connect, sc->sleep_req_ms);
}

/* ------------------------------------------------------------------ */
/* ptrace driver: run K victims, kill each at its own syscall boundary */
struct tracee {
	pid_t pid;
	long kill_at;		/* syscall-entry index at which SIGKILL is sent; <0 never */
	long nsys;
	int in_sys;
	int done;
	int killed;
	int status;
};

/* 1 when the syscall-stop of pid is a syscall entry */
static int
at_entry(pid_t pid, int *toggle)
{
	struct __ptrace_syscall_info si;
	memset(&si, 0, sizeof si);
	if (ptrace(PTRACE_GET_SYSCALL_INFO, pid, (void *)sizeof si, &si) > 0) {
		*toggle = (si.op == PTRACE_SYSCALL_INFO_ENTRY);
	} else {
		*toggle = !*toggle;
	}
	return *toggle;
}

static volatile sig_atomic_t got_alarm;
static void
on_alarm(int s)
{
	got_alarm = 1;
}

static pid_t
spawn_traced(const char *name, const struct cscen *sc)
{
	pid_t p;
	int st;
	fflush(stdout);
	p = fork();
	if (p == 0) {
		prctl(PR_SET_PDEATHSIG, SIGKILL);
		signal(SIGPIPE, SIG_DFL);
		ptrace(PTRACE_TRACEME, 0, 0, 0);
		raise(SIGSTOP);
		victim(name, sc);
		_exit(0);
	}
	if (waitpid(p, &st, 0) != p || !WIFSTOPPED(st)) {
		printf("traced child did not stop\n");
		exit(2);
	}
	ptrace(PTRACE_SETOPTIONS, p, 0, PTRACE_O_TRACESYSGOOD | PTRACE_O_EXITKILL);
	return p;
}

/* returns 0, or -1 when a victim hung (all are killed then) */
static int
run_traced(struct tracee *t, int k, pid_t server_pid, int hang_s)
{
	int i, left = k, rc = 0;
	struct sigaction sa, osa;

	memset(&sa, 0, sizeof sa);
	sa.sa_handler = on_alarm;
	sigaction(SIGALRM, &sa, &osa);
	got_alarm = 0;
	alarm(hang_s);

	for (i = 0; i < k; i++) {
		if (t[i].kill_at == 0) {
			/* dies before its first system call */
			kill(t[i].pid, SIGKILL);
			t[i].killed = 1;
		}
		ptrace(PTRACE_SYSCALL, t[i].pid, 0, 0);
	}
	while (left > 0) {
		int st;
		pid_t p = waitpid(-1, &st, __WALL);
		struct tracee *x = NULL;
		if (p < 0) {
			if (errno == EINTR && got_alarm) {
				for (i = 0; i < k; i++) {
					if (!t[i].done) {
						kill(t[i].pid, SIGKILL);
						t[i].killed = 2;
					}
				}
				got_alarm = 0;
				rc = -1;
				continue;
			}
			if (errno == EINTR) {
				continue;
			}
			break;
		}
		if (p == server_pid) {
			/* picked up by the log EOF too */
			continue;
		}
		for (i = 0; i < k; i++) {
			if (t[i].pid == p) {
				x = &t[i];
			}
		}
		if (x == NULL) {
			continue;
		}
		if (WIFEXITED(st) || WIFSIGNALED(st)) {
			x->done = 1;
			x->status = st;
			left--;
			continue;
		}
		if (!WIFSTOPPED(st)) {
			continue;
		}
		if (WSTOPSIG(st) == (SIGTRAP | 0x80)) {
			if (at_entry(p, &x->in_sys)) {
				n_ops++;
				x->nsys++;
				if (x->kill_at >= 0 && x->nsys == x->kill_at && !x->killed) {
					kill(p, SIGKILL);
					x->killed = 1;
				}
			}
			ptrace(PTRACE_SYSCALL, p, 0, 0);
		} else {
			int sig = WSTOPSIG(st);
			if (sig == SIGSTOP || sig == SIGTRAP) {
				sig = 0;
			}
			ptrace(PTRACE_SYSCALL, p, 0, sig);
		}
	}
	alarm(0);
	sigaction(SIGALRM, &osa, NULL);
	return rc;
}

/* ------------------------------------------------------------------ */
static long
dry_run(struct srv *s, const struct cscen *sc)
{
	struct tracee t;
	memset(&t, 0, sizeof t);
	t.kill_at = -1;
	t.pid = spawn_traced(s->name, sc);
	if (run_traced(&t, 1, s->pid, 30) != 0) {
		return -1;
	}
	return t.nsys;
}

static int
mode_A(enum qb_ipc_type type, int iters)
{
	struct srv s;
	int it;
	long est = 60;
	uint32_t enforce = rnd_n(3) == 0 ? 20000 : 0;

	if (srv_start(&s, type, enforce, 1) || srv_connect_h(&s, 65536)) {
		return 2;
	}
	for (it = 0; it < iters && n_viol < 20; it++) {
		struct cscen sc[3];
		struct tracee t[3];
		int k = 1 + (rnd_n(3) == 0 ? rnd_n(3) : 0), i;
		uint32_t f = 0;
		char sd[256];
		size_t off = 0;

		if (rnd_n(6) == 0) {
			f |= SF_REJECT;
		}
		if (rnd_n(4) == 0) {
			f |= SF_EV_ON_CREATE;
		}
		if (rnd_n(5) == 0) {
			f |= SF_CLOSED_RETRY;
		}
		if (rnd_n(4) == 0) {
			f |= SF_DISC_ON_FAIL;
		}
		if (getenv("C03_FLAGS")) {
			f = atoi(getenv("C03_FLAGS"));
		}
		srv_set_flags(&s, f);
		if (rnd_n(10) == 0 && !getenv("C03_FLAGS")) {
			/* flow control pulse while the victims run */
			(void)h_call(&s, REQ_FCPULSE, 1 + rnd_n(5), 0, 0, 3000);
		}
		memset(t, 0, sizeof t);
		off = snprintf(viol_ctx, sizeof viol_ctx, "A %s it=%d flags=%u enf=%u",
			       type == QB_IPC_SHM ? "shm" : "sock", it, f, enforce);
		for (i = 0; i < k; i++) {
			random_scen(&sc[i], type);
			if (getenv("C03_SCEN")) {
				/* fixed: max,rr,rrsize,nev,evsize,readev,nasync,asyncid,asyncsize,disc,linger,aconn,sleepreq */
				sscanf(getenv("C03_SCEN"), "%zu,%d,%d,%d,%d,%d,%d,%d,%d,%d,%d,%d,%d",
				       &sc[i].maxmsg, &sc[i].n_rr, &sc[i].rr_size, &sc[i].n_events,
				       &sc[i].ev_size, &sc[i].read_events, &sc[i].n_async,
				       &sc[i].async_id, &sc[i].async_size, &sc[i].do_disconnect,
				       &sc[i].linger_ms, &sc[i].async_connect, &sc[i].sleep_req_ms);
			}
			/* kill point: anywhere in the run, biased to the start
			 * (handshake) and sometimes "never" (plain exit) */
			switch (rnd_n(8)) {
			case 0:
				t[i].kill_at = -1;
				break;
			case 1:
			case 2:
				t[i].kill_at = rnd_n(60);
				break;
			default:
				t[i].kill_at = rnd_n(est + 10);
				break;
			}
			if (getenv("C03_KILL")) {
				t[i].kill_at = atol(getenv("C03_KILL"));
			}
			scen_str(&sc[i], sd, sizeof sd);
			off += snprintf(viol_ctx + off, off < sizeof viol_ctx ? sizeof viol_ctx - off : 0,
					" | kill@%ld %s", t[i].kill_at, sd);
			if (off >= sizeof viol_ctx) {
				off = sizeof viol_ctx - 1;
			}
		}
		for (i = 0; i < k; i++) {
			t[i].pid = spawn_traced(s.name, &sc[i]);
		}
		if (run_traced(t, k, s.pid, 30) != 0) {
			violation("victim client hung for 30 s while the server is alive");
		}
		for (i = 0; i < k; i++) {
			if (!t[i].killed && t[i].nsys > est) {
				est = t[i].nsys;
			}
			if (verbose) {
				printf("it %d victim %d pid %d nsys %ld killed %d st 0x%x\n",
				       it, i, t[i].pid, t[i].nsys, t[i].killed, t[i].status);
			}
		}
		if (srv_settle_and_check(&s, 40000) != 0 && server_eof) {
			break;
		}
		srv_health(&s);
		if (server_eof) {
			break;
		}
	}
	printf("mode A %s: %d iterations, %lu operations, %d violations\n",
	       type == QB_IPC_SHM ? "shm" : "sock", it, n_ops, n_viol);
	srv_stop(&s);
	return n_viol ? 1 : 0;
}

static int
mode_E(enum qb_ipc_type type, int stride)
{
	static const struct cscen list[] = {
		/* connect only, die idle or in disconnect */
		{ .maxmsg = 0, .do_disconnect = 1 },
		{ .maxmsg = 65536, .async_connect = 1, .linger_ms = 1 },
		/* request/response */
		{ .maxmsg = 12345, .n_rr = 2, .rr_size = 100, .do_disconnect = 1 },
		/* events left in the queue */
		{ .maxmsg = 16384, .n_events = 4, .ev_size = 200, .read_events = 1, .do_disconnect = 1 },
		/* replies left in the queue, requests possibly too */
		{ .maxmsg = 16384, .n_async = 5, .async_id = REQ_ECHO, .async_size = 64, .do_disconnect = 0 },
		{ .maxmsg = 16384, .sleep_req_ms = 3, .n_async = 5, .async_id = REQ_NORESP, .async_size = 64, .do_disconnect = 1 },
		/* everything */
		{ .maxmsg = 100000, .n_rr = 1, .rr_size = 99000, .n_events = 3, .ev_size = 30000,
		  .read_events = 2, .n_async = 3, .async_id = REQ_ECHO, .async_size = 20000, .do_disconnect = 1 },
	};
	struct srv s;
	size_t li;
	uint32_t fl;

	if (srv_start(&s, type, 0, 1) || srv_connect_h(&s, 65536)) {
		return 2;
	}
	for (fl = 0; fl < 3 && n_viol < 20; fl++) {
		static const uint32_t fls[] = { 0, SF_EV_ON_CREATE | SF_CLOSED_RETRY, SF_REJECT };
		srv_set_flags(&s, fls[fl]);
		for (li = 0; li < sizeof list / sizeof list[0] && n_viol < 20; li++) {
			long n = dry_run(&s, &list[li]), kp;
			char sd[256];
			scen_str(&list[li], sd, sizeof sd);
			snprintf(viol_ctx, sizeof viol_ctx, "E %s dry flags=%u %s",
				 type == QB_IPC_SHM ? "shm" : "sock", fls[fl], sd);
			if (n < 0) {
				violation("victim hung in the dry run");
				continue;
			}
			srv_settle_and_check(&s, 40000);
			srv_health(&s);
			printf("scenario %zu flags %u: %ld system calls\n", li, fls[fl], n);
			fflush(stdout);
			for (kp = 0; kp <= n + 1 && n_viol < 20; kp += stride) {
				struct tracee t;
				memset(&t, 0, sizeof t);
				t.kill_at = kp;
				snprintf(viol_ctx, sizeof viol_ctx, "E %s flags=%u kill@%ld/%ld %s",
					 type == QB_IPC_SHM ? "shm" : "sock", fls[fl], kp, n, sd);
				t.pid = spawn_traced(s.name, &list[li]);
				if (run_traced(&t, 1, s.pid, 30) != 0) {
					violation("victim hung");
				}
				if (srv_settle_and_check(&s, 40000) != 0 && server_eof) {
					goto out;
				}
				srv_health(&s);
				if (server_eof) {
					goto out;
				}
			}
		}
	}
out:
	printf("mode E %s: %lu operations, %d violations\n",
	       type == QB_IPC_SHM ? "shm" : "sock", n_ops, n_viol);
	srv_stop(&s);
	return n_viol ? 1 : 0;
}

/* ------------------------------------------------------------------ */
/* mode H: raw handshake prefixes                                      */
struct raw_req {
	struct qb_ipc_request_header hdr;
	uint32_t max_msg_size;
} __attribute__ ((aligned(8)));

static int
raw_connect(const char *name)
{
	struct sockaddr_un a;
	int fd = socket(AF_UNIX, SOCK_STREAM, 0);
	memset(&a, 0, sizeof a);
	a.sun_family = AF_UNIX;
	snprintf(a.sun_path + 1, sizeof a.sun_path - 1, "%s", name);
	/* the library binds abstract names with the full sockaddr_un length */
	if (connect(fd, (struct sockaddr *)&a, sizeof a) != 0) {
		close(fd);
		return -1;
	}
	return fd;
}

static int
mode_H(enum qb_ipc_type type, int iters)
{
	struct srv s;
	int it;

	if (srv_start(&s, type, 0, 0) || srv_connect_h(&s, 65536)) {
		return 2;
	}
	for (it = 0; it < iters && n_viol < 20; it++) {
		int k = 1 + rnd_n(4), i, fds[4];
		size_t off;
		uint32_t f = 0;

		if (rnd_n(8) == 0) {
			f |= SF_EV_ON_CREATE;
		}
		if (rnd_n(8) == 0) {
			f |= SF_CLOSED_RETRY;
		}
		srv_set_flags(&s, f);
		off = snprintf(viol_ctx, sizeof viol_ctx, "H %s it=%d flags=%u",
			       type == QB_IPC_SHM ? "shm" : "sock", it, f);
		for (i = 0; i < k; i++) {
			struct raw_req rq;
			char extra[64];
			size_t plen, sent = 0;
			int mut = rnd_n(10), how = rnd_n(5), wait_us = 0, rd = 0;
			char rb[20000];

			fds[i] = raw_connect(s.name);
			if (fds[i] < 0) {
				violation("server refuses new connections: %s", strerror(errno));
				continue;
			}
			memset(&rq, 0, sizeof rq);
			rq.hdr.id = QB_IPC_MSG_AUTHENTICATE;
			rq.hdr.size = sizeof rq;
			rq.max_msg_size = (uint32_t) pick_maxmsg();
			if (mut == 0) {
				rq.hdr.id = (int32_t) rnd();
			} else if (mut == 1) {
				rq.hdr.size = (int32_t) rnd();
			} else if (mut == 2) {
				rq.max_msg_size = rnd_n(1 << 20);
			}
			/* every prefix length, the full request most often, and a few
			 * bytes beyond it */
			switch (rnd_n(4)) {
			case 0:
				plen = sizeof rq;
				break;
			case 1:
				plen = sizeof rq + rnd_n(32);
				break;
			default:
				plen = rnd_n(sizeof rq + 1);
				break;
			}
			memset(extra, 0x77, sizeof extra);
			/* send in one or two pieces */
			if (plen > 0) {
				char all[sizeof rq + 64];
				size_t cut = rnd_n(2) ? plen : rnd_n(plen + 1);
				memcpy(all, &rq, sizeof rq);
				memcpy(all + sizeof rq, extra, sizeof extra);
				if (cut && send(fds[i], all, cut, MSG_NOSIGNAL) > 0) {
					sent = cut;
				}
				if (cut < plen) {
					if (rnd_n(2)) {
						usleep(rnd_n(300));
					}
					if (send(fds[i], all + cut, plen - cut, MSG_NOSIGNAL) > 0) {
						sent = plen;
					}
				}
			}
			n_ops++;
			if (rnd_n(2)) {
				wait_us = rnd_n(3000);
				usleep(wait_us);
			}
			if (rnd_n(3) == 0) {
				/* read part of the reply before dying */
				struct pollfd p = { fds[i], POLLIN, 0 };
				if (poll(&p, 1, 20) > 0) {
					rd = (int)recv(fds[i], rb, 1 + rnd_n(sizeof rb - 1), MSG_DONTWAIT);
				}
			}
			off += snprintf(viol_ctx + off, off < sizeof viol_ctx ? sizeof viol_ctx - off : 0,
					" | id=%d size=%d max=%u sent=%zu wait=%dus read=%d how=%d",
					rq.hdr.id, rq.hdr.size, rq.max_msg_size, sent, wait_us, rd, how);
			if (off >= sizeof viol_ctx) {
				off = sizeof viol_ctx - 1;
			}
			/* death: the kernel closes the descriptor; how it looks to the
			 * peer depends on unread data (reset) - cover the variants */
			if (how == 0) {
				struct linger lg = { 1, 0 };
				setsockopt(fds[i], SOL_SOCKET, SO_LINGER, &lg, sizeof lg);
			} else if (how == 1) {
				shutdown(fds[i], SHUT_WR);
				usleep(rnd_n(500));
			}
			if (how != 4 || i != k - 1) {
				close(fds[i]);
				fds[i] = -1;
			}
		}
		/* how==4 on the last one: closed a little later, after the server
		 * had time to finish its side */
		if (fds[k - 1] >= 0) {
			usleep(rnd_n(5000));
			close(fds[k - 1]);
		}
		if (srv_settle_and_check(&s, 40000) != 0 && server_eof) {
			break;
		}
		srv_health(&s);
		if (server_eof) {
			break;
		}
	}
	printf("mode H %s: %d iterations, %lu operations, %d violations\n",
	       type == QB_IPC_SHM ? "shm" : "sock", it, n_ops, n_viol);
	srv_stop(&s);
	return n_viol ? 1 : 0;
}

/* ------------------------------------------------------------------ */
/* mode B: the server dies                                             */
struct shared {
	volatile int arm;	/* >=0: kill at that many syscall entries from now */
	volatile int dead;
	volatile int ready;
	volatile pid_t spid;
	volatile long counted;
};

/* tracer process: runs the server under ptrace */
static void
tracer_main(struct shared *sh, enum qb_ipc_type type, const char *name)
{
	int lp[2], st, in_sys = 0;
	pid_t s;
	char b[64];

	prctl(PR_SET_PDEATHSIG, SIGKILL);
	if (pipe(lp)) {
		_exit(2);
	}
	s = fork();
	if (s == 0) {
		close(lp[0]);
		ptrace(PTRACE_TRACEME, 0, 0, 0);
		raise(SIGSTOP);
		server_main(type, name, lp[1], -1, -1, 0);
		_exit(0);
	}
	close(lp[1]);
	fcntl(lp[0], F_SETFL, O_NONBLOCK);
	waitpid(s, &st, 0);
	ptrace(PTRACE_SETOPTIONS, s, 0, PTRACE_O_TRACESYSGOOD | PTRACE_O_EXITKILL);
	sh->spid = s;
	ptrace(PTRACE_SYSCALL, s, 0, 0);
	for (;;) {
		pid_t p = waitpid(s, &st, __WALL);
		if (p < 0) {
			break;
		}
		if (WIFEXITED(st) || WIFSIGNALED(st)) {
			sh->dead = 1 + (WIFSIGNALED(st) && WTERMSIG(st) != SIGKILL);
			break;
		}
		if (!sh->ready) {
			ssize_t n = read(lp[0], b, sizeof b);
			if (n > 0 && memchr(b, 'R', n)) {
				sh->ready = 1;
			}
		} else {
			/* keep the pipe from filling up */
			while (read(lp[0], b, sizeof b) > 0) {
			}
		}
		if (WIFSTOPPED(st) && WSTOPSIG(st) == (SIGTRAP | 0x80)) {
			if (at_entry(s, &in_sys) && sh->arm >= 0) {
				if (sh->arm == 0) {
					kill(s, SIGKILL);
					waitpid(s, &st, __WALL);
					sh->dead = 1;
					break;
				}
				sh->arm--;
				sh->counted++;
			}
			ptrace(PTRACE_SYSCALL, s, 0, 0);
		} else if (WIFSTOPPED(st)) {
			int sig = WSTOPSIG(st);
			if (sig == SIGSTOP || sig == SIGTRAP) {
				sig = 0;
			}
			ptrace(PTRACE_SYSCALL, s, 0, sig);
		}
	}
	_exit(0);
}

static int
is_disc_err(ssize_t r)
{
	/* what the library itself classifies as "peer is gone" */
	return r < 0 && r != -EAGAIN && r != -ETIMEDOUT && r != -EINTR &&
	    r != -EMSGSIZE && r != -ENOMSG && r != -EINVAL;
}

struct bscen {
	int kind;		/* 0 rr, 1 event stream, 2 connect, 3 async sends */
	int tmo;		/* -1 or ms */
	int arm;
	size_t maxmsg;
	int size;
	int fc;			/* server has flow control on when it dies */
	int prefill;		/* requests queued unread before (kind 3) */
};

#define SLACK_MS 1500
#define IMM_MS 700

/* one iteration, runs in its own process; exit code 0 ok / 1 violation */
static int
worker_B(enum qb_ipc_type type, const struct bscen *bs, int idx, int strict_recv)
{
	struct shared *sh = mmap(NULL, sizeof *sh, PROT_READ | PROT_WRITE,
				 MAP_SHARED | MAP_ANONYMOUS, -1, 0);
	char name[64], prefix[64];
	pid_t tr;
	qb_ipcc_connection_t *c = NULL;
	static char sb[MAXMSG + 64], rb[MAXMSG + 64];
	struct req *rq = (struct req *)sb;
	struct iovec iov;
	uint64_t t0, dt, tstart;
	ssize_t r = 0;
	int saw_disc = 0, i, st;
	struct shmset *ss = malloc(sizeof *ss);

	memset(sh, 0, sizeof *sh);
	sh->arm = -1;
	snprintf(name, sizeof name, "hC03b-%d-%d", (int)getpid(), idx);
	snprintf(viol_ctx, sizeof viol_ctx,
		 "B %s kind=%d tmo=%d arm=%d max=%zu size=%d fc=%d prefill=%d",
		 type == QB_IPC_SHM ? "shm" : "sock", bs->kind, bs->tmo, bs->arm,
		 bs->maxmsg, bs->size, bs->fc, bs->prefill);
	fflush(stdout);
	tr = fork();
	if (tr == 0) {
		tracer_main(sh, type, name);
		_exit(0);
	}
	tstart = now_ms();
	while (!sh->ready && !sh->dead && now_ms() - tstart < 10000) {
		msleep(1);
	}
	if (!sh->ready) {
		printf("B: server did not come up\n");
		kill(tr, SIGKILL);
		return 2;
	}
	snprintf(prefix, sizeof prefix, "qb-%d-%d-", (int)sh->spid, (int)getpid());

	memset(sb, 0x44, sizeof sb);
	if (bs->kind == 2) {
		sh->arm = bs->arm;
	}
	t0 = now_ms();
	c = qb_ipcc_connect(name, bs->maxmsg);
	dt = now_ms() - t0;
	n_ops++;
	if (dt > 3000) {
		violation("qb_ipcc_connect took %llu ms with a dying server",
			  (unsigned long long)dt);
	}
	if (c == NULL) {
		if (!sh->dead && bs->kind != 2) {
			printf("B: connect failed: %s\n", strerror(errno));
		}
		goto finish;
	}
	if (bs->fc) {
		rq->hdr.id = REQ_FCON;
		rq->hdr.size = sizeof *rq;
		iov.iov_base = rq;
		iov.iov_len = rq->hdr.size;
		r = qb_ipcc_sendv_recv(c, &iov, 1, rb, sizeof rb, 2000);
		msleep(5);
		/* with flow control on the client cannot make the server run
		 * any more: it dies now, idle */
		kill(sh->spid, SIGKILL);
		for (i = 0; i < 2000 && !sh->dead; i++) {
			msleep(1);
		}
	}
	if (bs->kind == 3 && bs->prefill) {
		/* the server sleeps in msg_process, requests pile up */
		rq->hdr.id = REQ_SLEEP;
		rq->hdr.size = sizeof *rq;
		rq->arg = 30;
		(void)qb_ipcc_send(c, rq, rq->hdr.size);
		for (i = 0; i < bs->prefill; i++) {
			rq->hdr.id = REQ_NORESP;
			rq->hdr.size = sizeof(*rq) + bs->size;
			r = qb_ipcc_send(c, rq, rq->hdr.size);
			if (r < 0) {
				break;
			}
		}
	}
	if (bs->kind == 1) {
		rq->hdr.id = REQ_EVSTREAM;
		rq->hdr.size = sizeof *rq;
		rq->arg = 100000;
		rq->arg2 = bs->size;
		r = qb_ipcc_send(c, rq, rq->hdr.size);
	}
	if (bs->kind != 2) {
		sh->arm = bs->arm;
	}

	/* phase 1: keep calling until the death is reported */
	for (i = 0; i < 100000 && !saw_disc; i++) {
		int was_dead = sh->dead;
		uint64_t bound;
		const char *what;

		t0 = now_ms();
		switch (bs->kind) {
		case 1:
			what = "qb_ipcc_event_recv";
			r = qb_ipcc_event_recv(c, rb, sizeof rb, bs->tmo);
			break;
		case 3:
			what = "qb_ipcc_send";
			rq->hdr.id = REQ_NORESP;
			rq->hdr.size = sizeof(*rq) + bs->size;
			r = qb_ipcc_send(c, rq, rq->hdr.size);
			if (r == -EAGAIN) {
				usleep(200);
			}
			break;
		default:
			what = "qb_ipcc_sendv_recv";
			rq->hdr.id = REQ_ECHO;
			rq->hdr.size = sizeof(*rq) + bs->size;
			rq->arg = i;
			iov.iov_base = rq;
			iov.iov_len = rq->hdr.size;
			r = qb_ipcc_sendv_recv(c, &iov, 1, rb, sizeof rb, bs->tmo);
			break;
		}
		dt = now_ms() - t0;
		n_ops++;
		bound = (bs->tmo < 0 ? QB_MAX(2000, 0) : (uint64_t) bs->tmo) + SLACK_MS;
		if (bs->kind == 3) {
			bound = SLACK_MS;
		}
		if (dt > bound) {
			violation("%s(timeout %d) returned %zd after %llu ms (bound %llu)",
				  what, bs->tmo, r, (unsigned long long)dt,
				  (unsigned long long)bound);
		}
		if (is_disc_err(r)) {
			saw_disc = 1;
			{
				int w;
				/* the tracer may not have noted the death yet */
				for (w = 0; w < 3000 && !sh->dead; w++) {
					msleep(1);
				}
			}
			if (!sh->dead) {
				violation("%s reported %zd while the server is alive", what, r);
			}
			break;
		}
		if (was_dead && r < 0 && bs->tmo < 0 && bs->kind != 3) {
			/* asked to wait forever, server already dead when the call
			 * began, and still no disconnect error */
			violation("F1: %s(-1) returned %zd (%s), not a disconnect error, "
				  "server dead since before the call", what, r, strerror(-r));
			break;
		}
		if (was_dead && bs->kind == 3 && now_ms() - tstart > 15000) {
			break;
		}
		if (was_dead && r >= 0 && bs->kind != 1) {
			/* success after death can only be a queued reply; for
			 * send it means the library does not notice at all */
			if (i > 50000) {
				violation("%s keeps succeeding after server death", what);
				break;
			}
		}
		if (was_dead && bs->kind == 3 && r == -EAGAIN && i > 2000) {
			violation("F1: qb_ipcc_send keeps returning -EAGAIN, never a "
				  "disconnect error, server dead (fc=%d)", bs->fc);
			break;
		}
		if (now_ms() - tstart > 25000) {
			/* arm larger than the server ever runs: kill it now */
			sh->arm = 0;
			kill(sh->spid, SIGKILL);
		}
	}
	if (!sh->dead) {
		sh->arm = 0;
		kill(sh->spid, SIGKILL);
		for (i = 0; i < 1000 && !sh->dead; i++) {
			msleep(1);
		}
	}

	/* phase 2: later calls fail immediately */
	if (saw_disc) {
		t0 = now_ms();
		rq->hdr.id = REQ_ECHO;
		rq->hdr.size = sizeof(*rq);
		iov.iov_base = rq;
		iov.iov_len = rq->hdr.size;
		r = qb_ipcc_sendv_recv(c, &iov, 1, rb, sizeof rb, -1);
		dt = now_ms() - t0;
		n_ops++;
		if (r >= 0 || dt > IMM_MS) {
			violation("later qb_ipcc_sendv_recv(-1): %zd after %llu ms", r,
				  (unsigned long long)dt);
		}
		t0 = now_ms();
		r = qb_ipcc_send(c, rq, rq->hdr.size);
		dt = now_ms() - t0;
		n_ops++;
		if (r >= 0 || dt > IMM_MS) {
			violation("later qb_ipcc_send: %zd after %llu ms", r,
				  (unsigned long long)dt);
		}
		t0 = now_ms();
		r = qb_ipcc_event_recv(c, rb, sizeof rb, -1);
		dt = now_ms() - t0;
		n_ops++;
		if (r >= 0 || dt > IMM_MS) {
			/* a queued event may legitimately be returned once or twice */
			int guard = 0;
			while (r >= 0 && guard++ < 100000) {
				r = qb_ipcc_event_recv(c, rb, sizeof rb, -1);
			}
			dt = now_ms() - t0;
			if (r >= 0 || dt > 1000) {
				violation("later qb_ipcc_event_recv(-1): %zd after %llu ms",
					  r, (unsigned long long)dt);
			}
		}
		if (strict_recv) {
			t0 = now_ms();
			r = qb_ipcc_recv(c, rb, sizeof rb, 1500);
			dt = now_ms() - t0;
			n_ops++;
			/* drain queued replies first */
			i = 0;
			while (r >= 0 && i++ < 100000) {
				t0 = now_ms();
				r = qb_ipcc_recv(c, rb, sizeof rb, 1500);
				dt = now_ms() - t0;
			}
			if (r >= 0 || dt > IMM_MS) {
				violation("F2: later qb_ipcc_recv(1500 ms): %zd (%s) after %llu ms"
					  " - does not fail immediately", r,
					  r < 0 ? strerror(-r) : "", (unsigned long long)dt);
			}
		}
		if (qb_ipcc_is_connected(c)) {
			violation("qb_ipcc_is_connected still true after a disconnect error");
		}
	}

	/* phase 3: disconnect removes the files of the dead server */
	waitpid(tr, &st, 0);	/* tracer reaped the server before it exits */
	tr = -1;
	t0 = now_ms();
	qb_ipcc_disconnect(c);
	dt = now_ms() - t0;
	n_ops++;
	if (dt > 1000) {
		violation("qb_ipcc_disconnect took %llu ms", (unsigned long long)dt);
	}
	shm_scan(prefix, ss, 1);
	{
		int j = 0;
		for (i = 0; i < ss->n; i++) {
			if (strstr(ss->name[i], name)) {
				memmove(ss->name[j++], ss->name[i], sizeof ss->name[0]);
			}
		}
		ss->n = j;
	}
	if (ss->n) {
		char d[600] = "";
		size_t off = 0;
		for (i = 0; i < ss->n && off < sizeof d - 1; i++) {
			off += snprintf(d + off, sizeof d - off, "%s ", ss->name[i]);
		}
		violation("qb_ipcc_disconnect left %d shared-memory files of the dead "
			  "server: %s", ss->n, d);
	}
finish:
	if (tr > 0) {
		if (!sh->dead) {
			kill(sh->spid, SIGKILL);
		}
		kill(tr, SIGKILL);
		waitpid(tr, &st, 0);
	}
	if (sh->dead == 2) {
		violation("server died of a signal other than our SIGKILL");
	}
	snprintf(prefix, sizeof prefix, "qb-%d-", (int)sh->spid);
	shm_remove_prefix(prefix);
	free(ss);
	return n_viol ? 1 : 0;
}

static void
random_bscen(struct bscen *b, enum qb_ipc_type type)
{
	static const int tm[] = { -1, -1, -1, 0, 1, 50, 300, 1000, 2500 };
	memset(b, 0, sizeof *b);
	b->kind = rnd_n(4);
	b->tmo = tm[rnd_n(sizeof tm / sizeof tm[0])];
	b->maxmsg = pick_maxmsg();
	if (type == QB_IPC_SOCKET && b->maxmsg > 65536) {
		b->maxmsg = 65536;
	}
	b->size = pick_size(b->maxmsg, type);
	switch (rnd_n(4)) {
	case 0:
		b->arm = rnd_n(8);
		break;
	case 1:
		b->arm = rnd_n(40);
		break;
	default:
		b->arm = rnd_n(b->kind == 2 ? 120 : 200);
		break;
	}
	if (b->kind == 1 && b->tmo == 0) {
		b->tmo = 1;
	}
	if (b->kind == 3) {
		b->prefill = rnd_n(2) ? rnd_n(200) : 0;
		b->size = rnd_n(2) ? b->size : (int)rnd_n(300);
	}
	b->fc = (b->kind == 0 || b->kind == 3) && rnd_n(8) == 0;
}

static int
mode_B(enum qb_ipc_type type, int iters, int par, int strict_recv)
{
	int launched = 0, running = 0, bad = 0, done = 0;
	uint64_t ops_est = 0;

	while (done < iters) {
		while (running < par && launched < iters) {
			struct bscen bs;
			pid_t p;
			random_bscen(&bs, type);
			if (getenv("C03_B")) {
				/* fixed scenario: kind,tmo,arm,max,size,fc,prefill */
				sscanf(getenv("C03_B"), "%d,%d,%d,%zu,%d,%d,%d", &bs.kind,
				       &bs.tmo, &bs.arm, &bs.maxmsg, &bs.size, &bs.fc,
				       &bs.prefill);
			}
			fflush(stdout);
			p = fork();
			if (p == 0) {
				int rc;
				alarm(60);	/* a hang kills the worker: reported below */
				rc = worker_B(type, &bs, launched, strict_recv);
				fflush(stdout);
				_exit(rc);
			}
			launched++;
			running++;
		}
		{
			int st;
			pid_t p = wait(&st);
			if (p < 0) {
				break;
			}
			running--;
			done++;
			ops_est += 40;
			if (WIFSIGNALED(st)) {
				printf("VIOLATION: mode B worker %d killed by signal %d "
				       "(SIGALRM = client call hung > 60 s, else crash)\n",
				       (int)p, WTERMSIG(st));
				bad++;
			} else if (WEXITSTATUS(st) == 1) {
				bad++;
			}
		}
	}
	printf("mode B %s: %d iterations, %d with violations\n",
	       type == QB_IPC_SHM ? "shm" : "sock", done, bad);
	return bad ? 1 : 0;
}

/* ------------------------------------------------------------------ */
int
main(int argc, char **argv)
{
	enum qb_ipc_type type;
	int iters, rc = 0;
	const char *mode;

	if (argc < 5) {
		fprintf(stderr, "usage: %s A|E|H|B shm|sock seed iters [par|stride] [strict]\n", argv[0]);
		return 2;
	}
	mode = argv[1];
	type = strcmp(argv[2], "shm") == 0 ? QB_IPC_SHM : QB_IPC_SOCKET;
	rng_s = 0x9e3779b97f4a7c15ULL ^ (strtoull(argv[3], NULL, 0) * 0x2545F4914F6CDD1DULL + 1);
	iters = atoi(argv[4]);
	verbose = getenv("C03_VERBOSE") ? atoi(getenv("C03_VERBOSE")) : 0;
	signal(SIGPIPE, SIG_IGN);
	setvbuf(stdout, NULL, _IOLBF, 0);
	quiet_log();

	switch (mode[0]) {
	case 'A':
		rc = mode_A(type, iters);
		break;
	case 'E':
		rc = mode_E(type, argc > 5 ? atoi(argv[5]) : 1);
		break;
	case 'H':
		rc = mode_H(type, iters);
		break;
	case 'B':
		rc = mode_B(type, iters, argc > 5 ? atoi(argv[5]) : 8,
			    argc > 6 ? atoi(argv[6]) : 0);
		break;
	default:
		return 2;
	}
	return rc;
}
