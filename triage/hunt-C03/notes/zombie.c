/* note: server SIGKILLed but not yet reaped (zombie) when the client disconnects */
#include "common.h"
static char sb[70000], rb[70000];
static int count_files(pid_t s, const char *svc)
{
	char pre[64], p[600]; int n = 0;
	DIR *d = opendir("/dev/shm"), *d2; struct dirent *e, *e2;
	snprintf(pre, sizeof pre, "qb-%d-", (int)s);
	while (d && (e = readdir(d))) {
		if (strncmp(e->d_name, pre, strlen(pre))) continue;
		snprintf(p, sizeof p, "/dev/shm/%s", e->d_name);
		d2 = opendir(p);
		while (d2 && (e2 = readdir(d2))) if (strstr(e2->d_name, svc)) n++;
		if (d2) closedir(d2);
	}
	if (d) closedir(d);
	return n;
}
int main(int argc, char **argv)
{
	char name[64]; struct req *rq = (struct req *)sb; struct iovec iov; int reap = argc > 1;
	qb_ipcc_connection_t *c; pid_t s; ssize_t r; int st;
	quiet_log(); signal(SIGPIPE, SIG_IGN);
	snprintf(name, sizeof name, "hC03z-%d", (int)getpid());
	s = start_server(name, QB_IPC_SHM);
	c = qb_ipcc_connect(name, 8192);
	rq->hdr.id = REQ_ECHO; rq->hdr.size = sizeof(*rq); iov.iov_base = rq; iov.iov_len = rq->hdr.size;
	r = qb_ipcc_sendv_recv(c, &iov, 1, rb, sizeof rb, 3000);
	printf("echo %zd, files before: %d\n", r, count_files(s, name));
	kill(s, SIGKILL);
	if (reap) waitpid(s, &st, 0); else msleep(200);
	qb_ipcc_disconnect(c);
	printf("%s: files after qb_ipcc_disconnect: %d\n", reap ? "server reaped" : "server is a zombie", count_files(s, name));
	if (!reap) waitpid(s, &st, 0);
	cleanup_shm(s, name);
	return 0;
}
