/*
 * C03 finding 1: after the server was SIGKILLed the client is never told.
 *
 * qb_ipcc_sendv_recv(..., -1) / qb_ipcc_send() keep returning -EAGAIN for
 * ever when, at the moment of the death,
 *   (a) the server had flow control switched on (both transports), or
 *   (b) the request ring was full (shared memory).
 * The property promises a disconnect error within a bounded time.
 *
 * exit 0: a disconnect error was reported in every case; 1: not.
 */
#include "common.h"

static char sb[70000], rb[70000];

static int
probe(qb_ipcc_connection_t *c, const char *label)
{
	struct req *rq = (struct req *)sb;
	struct iovec iov;
	uint64_t t0 = now_ms();
	long calls = 0, eagain = 0;
	ssize_t r = 0, r2 = 0;

	/* keep asking for 4 seconds - twice the library's own liveness period
	 * (QB_IPC_MAX_WAIT_MS = 2 s) */
	while (now_ms() - t0 < 4000) {
		rq->hdr.id = REQ_ECHO;
		rq->hdr.size = sizeof(*rq) + 16;
		iov.iov_base = rq;
		iov.iov_len = rq->hdr.size;
		r = qb_ipcc_sendv_recv(c, &iov, 1, rb, sizeof rb, -1);
		calls++;
		if (r == -EAGAIN) {
			eagain++;
		}
		if (is_disconnect_error(r)) {
			break;
		}
		r2 = qb_ipcc_send(c, rq, rq->hdr.size);
		if (is_disconnect_error(r2)) {
			r = r2;
			break;
		}
		msleep(1);
	}
	printf("%-34s %ld calls in %llu ms, %ld x -EAGAIN, last sendv_recv(-1)=%zd (%s), "
	       "last send=%zd, is_connected=%d\n", label, calls,
	       (unsigned long long)(now_ms() - t0), eagain, r,
	       r < 0 ? strerror(-r) : "ok", r2, qb_ipcc_is_connected(c));
	return is_disconnect_error(r) ? 0 : 1;
}

static int
case_fc(enum qb_ipc_type type, const char *tn)
{
	char name[64], label[64];
	struct req *rq = (struct req *)sb;
	struct iovec iov;
	qb_ipcc_connection_t *c;
	pid_t s;
	int bad;
	ssize_t r;

	snprintf(name, sizeof name, "hC03d1-%d-fc-%s", (int)getpid(), tn);
	s = start_server(name, type);
	c = qb_ipcc_connect(name, 8192);
	if (c == NULL) {
		perror("connect");
		exit(2);
	}
	memset(sb, 0, sizeof sb);
	rq->hdr.id = REQ_FCON;
	rq->hdr.size = sizeof(*rq);
	iov.iov_base = rq;
	iov.iov_len = rq->hdr.size;
	r = qb_ipcc_sendv_recv(c, &iov, 1, rb, sizeof rb, 3000);
	if (r < 0) {
		printf("FCON failed %zd\n", r);
		exit(2);
	}
	msleep(100);		/* server is idle in its main loop now */
	kill_server(s);
	msleep(100);
	snprintf(label, sizeof label, "flow control on at death, %s:", tn);
	bad = probe(c, label);
	qb_ipcc_disconnect(c);
	cleanup_shm(s, name);
	return bad;
}

static int
case_full_ring(void)
{
	char name[64];
	struct req *rq = (struct req *)sb;
	qb_ipcc_connection_t *c;
	pid_t s;
	int bad, n = 0;
	ssize_t r;

	snprintf(name, sizeof name, "hC03d1-%d-full", (int)getpid());
	s = start_server(name, QB_IPC_SHM);
	c = qb_ipcc_connect(name, 8192);
	if (c == NULL) {
		perror("connect");
		exit(2);
	}
	memset(sb, 0, sizeof sb);
	/* the server is busy for a second; meanwhile requests pile up until
	 * the ring is full */
	rq->hdr.id = REQ_SLEEP;
	rq->hdr.size = sizeof(*rq);
	rq->arg = 1000;
	r = qb_ipcc_send(c, rq, rq->hdr.size);
	do {
		rq->hdr.id = REQ_NORESP;
		rq->hdr.size = sizeof(*rq) + 1000;
		r = qb_ipcc_send(c, rq, rq->hdr.size);
		n++;
	} while (r > 0 && n < 100000);
	/* ... and the rest of it with the smallest requests */
	do {
		rq->hdr.id = REQ_NORESP;
		rq->hdr.size = sizeof(*rq);
		r = qb_ipcc_send(c, rq, rq->hdr.size);
		n++;
	} while (r > 0 && n < 100000);
	printf("request ring full after %d requests (send returned %zd)\n", n, r);
	kill_server(s);
	msleep(100);
	bad = probe(c, "request ring full at death, shm:");
	qb_ipcc_disconnect(c);
	cleanup_shm(s, name);
	return bad;
}

int
main(void)
{
	int bad = 0;
	signal(SIGPIPE, SIG_IGN);
	setvbuf(stdout, NULL, _IOLBF, 0);
	quiet_log();
	bad += case_fc(QB_IPC_SHM, "shm");
	bad += case_fc(QB_IPC_SOCKET, "socket");
	bad += case_full_ring();
	if (bad) {
		printf("VIOLATED: in %d of 3 cases the dead server was never reported "
		       "(only -EAGAIN, for ever)\n", bad);
		return 1;
	}
	printf("held: a disconnect error was reported in all cases\n");
	return 0;
}
