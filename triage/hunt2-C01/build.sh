#!/bin/sh
# usage: build.sh [tree]   (default /repo)
set -e
T=${1:-/repo}
cd "$(dirname "$0")"
INC="-DHAVE_CONFIG_H -I$T/include -I$T/include/qb -I$T/lib"
LNK="-L$T/lib/.libs -lqb -lpthread"
RB="$T/lib/ringbuffer.c $T/lib/ringbuffer_helper.c"
# 1. sequential model-based fuzzer, ASan+UBSan
gcc -g -O1 -fsanitize=address,undefined -fno-sanitize-recover=undefined $INC -o fuzz_seq fuzz.c $RB $LNK
# 2. access-granularity interleaving explorer: library sources compiled
#    unchanged with tsan instrumentation, hooks supplied by fuzz.c
gcc -g -O1 -fsanitize=thread $INC -c -o il_rb.o $T/lib/ringbuffer.c
gcc -g -O1 -fsanitize=thread $INC -c -o il_rbh.o $T/lib/ringbuffer_helper.c
gcc -g -O1 -DINTERLEAVE $INC -c -o il_fuzz.o fuzz.c
gcc -o fuzz_il il_fuzz.o il_rb.o il_rbh.o $LNK
# 3. real threads under ThreadSanitizer
gcc -g -O1 -DTHREADS -fsanitize=thread $INC -o fuzz_thr fuzz.c $RB $LNK
gcc -g -O1 -fsanitize=address,undefined -fno-sanitize-recover=undefined $INC -o targeted targeted.c $RB $LNK
echo built
