/*
 * Model-based randomized tester for the libqb ring buffer, property C01:
 * one writer + one reader get FIFO, exactly-once, untorn chunks.
 *
 * Three build flavours (see build.sh):
 *   fuzz_seq : single thread, operations of writer and reader interleaved at
 *              API-call granularity (alloc/commit and peek/reclaim split),
 *              ASan+UBSan.
 *   fuzz_il  : -DINTERLEAVE. lib/ringbuffer.c and lib/ringbuffer_helper.c are
 *              compiled UNCHANGED with -fsanitize=thread, but instead of the
 *              tsan runtime this file supplies the __tsan_* hooks.  Every
 *              instrumented access to the shared header / data words (and
 *              every function entry/exit, which brackets the semaphore
 *              calls) is a scheduling point at which a seeded scheduler may
 *              switch between the writer coroutine and the reader coroutine.
 *   fuzz_thr : -DTHREADS. two real threads, whole program -fsanitize=thread.
 *
 * usage: fuzz <seed0> <nseeds> <ops-per-seed> [verbose]
 */
#define _GNU_SOURCE
#include <stdio.h>
#include <stdlib.h>
#include <string.h>
#include <stdint.h>
#include <errno.h>
#include <unistd.h>
#include <assert.h>
#include <pthread.h>
#include <ucontext.h>
#include <sys/types.h>
#include <qb/qbdefs.h>
#include <qb/qbrb.h>

size_t qb_rb_chunk_max(qb_ringbuffer_t *rb);

#define MAGIC 0xA1A1A1A1u

/* ---------- prng ---------- */
static uint64_t sm(uint64_t *s)
{
	uint64_t z = (*s += 0x9E3779B97F4A7C15ull);
	z = (z ^ (z >> 30)) * 0xBF58476D1CE4E5B9ull;
	z = (z ^ (z >> 27)) * 0x94D049BB133111EBull;
	return z ^ (z >> 31);
}

static uint64_t g_w, g_r, g_s;	/* writer, reader, scheduler streams */
#define RW(n) ((uint32_t)(sm(&g_w) % (n)))
#define RR(n) ((uint32_t)(sm(&g_r) % (n)))

/* ---------- payload ---------- */
static void gen_payload(uint64_t id, uint8_t *buf, size_t len)
{
	uint64_t s = id * 0x1234567ull + 99;
	size_t i;
	for (i = 0; i < len; i += 4) {
		uint32_t w;
		uint64_t r = sm(&s);
		switch (r % 5) {
		case 0: w = MAGIC; break;
		case 1: w = MAGIC; break;
		case 2: w = (uint32_t)((r >> 8) % 64); break; /* small len */
		case 3: w = 0xA110CED0u; break;
		default: w = (uint32_t)(r >> 16); break;
		}
		if (i == 0) w = (uint32_t)id * 2654435761u;
		size_t n = len - i < 4 ? len - i : 4;
		memcpy(buf + i, &w, n);
	}
}

/* ---------- model ---------- */
#define QMAX (1 << 16)
struct ent { uint64_t id; size_t len; int committed; };
static struct ent q[QMAX];
static uint64_t q_head_, q_tail_;	/* head = next to read */
#define q_head __atomic_load_n(&q_head_, __ATOMIC_SEQ_CST)
#define q_tail __atomic_load_n(&q_tail_, __ATOMIC_SEQ_CST)
static uint64_t next_id;
static int verbose;
static uint64_t cur_seed;
static uint64_t st_w_ok, st_w_ref, st_r_ok, st_r_empty, st_yields, st_switch;

static char trace[1 << 16][64];
static unsigned trace_n;
#ifdef THREADS
#define TR(...) do { } while (0)
#else
#define TR(...) do { snprintf(trace[trace_n++ & 0xffff], 64, __VA_ARGS__); \
	if (verbose) fprintf(stderr, "%s\n", trace[(trace_n-1) & 0xffff]); } while (0)
#endif

static void fail(const char *fmt, ...) __attribute__((noreturn, format(printf,1,2)));
#include <stdarg.h>
static void fail(const char *fmt, ...)
{
	va_list ap;
	unsigned i, from = trace_n > 60 ? trace_n - 60 : 0;
	fprintf(stderr, "---- last ops (seed %llu)\n", (unsigned long long)cur_seed);
	for (i = from; i < trace_n; i++) fprintf(stderr, "  %s\n", trace[i & 0xffff]);
	fprintf(stderr, "VIOLATION seed=%llu: ", (unsigned long long)cur_seed);
	va_start(ap, fmt); vfprintf(stderr, fmt, ap); va_end(ap);
	fprintf(stderr, "\n");
	_exit(1);
}

/* ---------- scheduling ---------- */
static void yield_pt(void);

#ifdef INTERLEAVE
static ucontext_t ctx_main, ctx_co[2];
static int cur = -1;		/* -1 main, 0 writer, 1 reader */
static int co_done[2];
static unsigned sw_den;		/* switch probability 1/sw_den */
static uintptr_t sh_lo[2], sh_hi[2];
uintptr_t dlo[2], dhi[2];
static int hooks_on;

static void yield_pt(void)
{
	if (cur < 0 || !hooks_on) return;
	st_yields++;
	if (sm(&g_s) % sw_den) return;
	st_switch++;
	{
		int me = cur;
		swapcontext(&ctx_co[me], &ctx_main);
	}
}
static inline void hook_addr(const volatile void *a)
{
	uintptr_t p = (uintptr_t)a;
	if ((p >= sh_lo[0] && p < sh_hi[0]) || (p >= sh_lo[1] && p < sh_hi[1]) ||
	    (p >= dlo[0] && p < dhi[0]) || (p >= dlo[1] && p < dhi[1]))
		yield_pt();
}
void __tsan_init(void) {}
void __tsan_func_entry(void *pc) { (void)pc; yield_pt(); }
void __tsan_func_exit(void) { yield_pt(); }
#define RWH(n) \
void __tsan_read##n(void *a) { hook_addr(a); } \
void __tsan_write##n(void *a) { hook_addr(a); } \
void __tsan_unaligned_read##n(void *a) { hook_addr(a); } \
void __tsan_unaligned_write##n(void *a) { hook_addr(a); } \
void __tsan_volatile_read##n(void *a) { hook_addr(a); } \
void __tsan_volatile_write##n(void *a) { hook_addr(a); }
RWH(1) RWH(2) RWH(4) RWH(8) RWH(16)
void __tsan_read_range(void *a, long n) { (void)n; hook_addr(a); }
void __tsan_write_range(void *a, long n) { (void)n; hook_addr(a); }
int __tsan_atomic32_load(const volatile int *a, int mo)
{ (void)mo; hook_addr(a); return __atomic_load_n(a, __ATOMIC_SEQ_CST); }
void __tsan_atomic32_store(volatile int *a, int v, int mo)
{ (void)mo; hook_addr(a); __atomic_store_n(a, v, __ATOMIC_SEQ_CST); }
int __tsan_atomic32_fetch_add(volatile int *a, int v, int mo)
{ (void)mo; hook_addr(a); return __atomic_fetch_add(a, v, __ATOMIC_SEQ_CST); }
int __tsan_atomic32_fetch_sub(volatile int *a, int v, int mo)
{ (void)mo; hook_addr(a); return __atomic_fetch_sub(a, v, __ATOMIC_SEQ_CST); }
int __tsan_atomic32_exchange(volatile int *a, int v, int mo)
{ (void)mo; hook_addr(a); return __atomic_exchange_n(a, v, __ATOMIC_SEQ_CST); }
int __tsan_atomic32_compare_exchange_strong(volatile int *a, int *c, int v, int mo, int fmo)
{ (void)mo; (void)fmo; hook_addr(a); return __atomic_compare_exchange_n(a, c, v, 0, __ATOMIC_SEQ_CST, __ATOMIC_SEQ_CST); }
void __tsan_atomic_thread_fence(int mo) { (void)mo; }
void __tsan_atomic_signal_fence(int mo) { (void)mo; }
#elif defined(THREADS)
static void yield_pt(void) { }
#else
static void yield_pt(void) { }
#endif

/* ---------- the two parties ---------- */
static qb_ringbuffer_t *rbw, *rbr;
static int use_sem;
static size_t cmax;
static uint8_t *wbuf, *rbuf, *xbuf;
static size_t bufsz;
static long w_ops, r_ops;
static int small_bias;

static size_t pick_len(void)
{
	uint32_t k = RW(100);
	if (small_bias && k < 60) return RW(24);
	if (k < 8) return RW(6);			/* 0..5 */
	if (k < 16) return cmax - RW(10);		/* at and just below max */
	if (k < 20) return cmax + 1 + RW(16);		/* never fits */
	if (k < 30) return cmax / 2 - 8 + RW(16);	/* around half */
	if (k < 40) return cmax / 3 - 8 + RW(16);
	if (k < 70) return RW(64);
	if (k < 85) return RW(600);
	return RW((uint32_t)cmax + 1);
}

static void q_push(uint64_t id, size_t len)
{
	if (q_tail - q_head >= QMAX) fail("model queue overflow");
	q[q_tail % QMAX].id = id;
	q[q_tail % QMAX].len = len;
	__atomic_store_n(&q[q_tail % QMAX].committed, 0, __ATOMIC_SEQ_CST);
	__atomic_store_n(&q_tail_, q_tail + 1, __ATOMIC_SEQ_CST);
}

static void writer_step(void)
{
	size_t len = pick_len();
	uint64_t id = next_id++;
	int how = RW(4);

	if (len > bufsz) len = bufsz;
	gen_payload(id, wbuf, len);
	if (how == 0) {
		ssize_t r;
		/* chunk_write: the chunk may become visible before the call
		 * returns, so it is entered in the model first and taken out
		 * again if the write is refused (the reader cannot have taken
		 * it in that case, or that is a violation found elsewhere) */
		uint64_t slot = q_tail;
		q_push(id, len);
		TR("W write id=%llu len=%zu", (unsigned long long)id, len);
		r = qb_rb_chunk_write(rbw, wbuf, len);
		if (r == (ssize_t)len) {
			__atomic_store_n(&q[slot % QMAX].committed, 1, __ATOMIC_SEQ_CST);
			st_w_ok++;
		} else if (r == -EAGAIN) {
			if (q_head > slot)
				fail("refused write id=%llu was delivered", (unsigned long long)id);
			if (q_tail != slot + 1) fail("internal");
			__atomic_store_n(&q_tail_, slot, __ATOMIC_SEQ_CST);
			st_w_ref++;
			TR("W  refused");
		} else {
			fail("chunk_write len=%zu returned %zd", len, r);
		}
	} else {
		uint8_t *p;
		int32_t rc;
		size_t off = 0;
		if (how == 1 && RW(4) == 0) {
			/* alloc something else first and abandon it */
			size_t l2 = pick_len();
			void *p2 = qb_rb_chunk_alloc(rbw, l2);
			TR("W alloc-abandon len=%zu -> %p", l2, p2);
			if (p2 && l2 <= cmax) memset(p2, 0xA1, l2 < 64 ? l2 : 64);
			yield_pt();
		}
		TR("W alloc id=%llu len=%zu", (unsigned long long)id, len);
		p = qb_rb_chunk_alloc(rbw, len);
		if (p == NULL) {
			if (errno != EAGAIN) fail("alloc errno %d", errno);
			st_w_ref++;
			TR("W  refused");
			return;
		}
		if (len > cmax) fail("alloc of len %zu > max %zu succeeded", len, cmax);
		while (off < len) {
			size_t n = len - off;
			if (n > 16 && RW(2)) n = 1 + RW((uint32_t)n);
			memcpy(p + off, wbuf + off, n);
			off += n;
			yield_pt();
		}
		{
			uint64_t slot = q_tail;
			q_push(id, len);
			rc = qb_rb_chunk_commit(rbw, len);
			if (rc != 0) fail("commit returned %d", rc);
			__atomic_store_n(&q[slot % QMAX].committed, 1, __ATOMIC_SEQ_CST);
			st_w_ok++;
			TR("W  committed");
		}
	}
}

static void check_chunk(const char *what, const uint8_t *data, ssize_t got)
{
	struct ent e;
	if (q_head == q_tail)
		fail("%s returned a chunk (len %zd) but none was written", what, got);
	e = q[q_head % QMAX];
	if ((size_t)got != e.len)
		fail("%s: chunk id=%llu length %zd, written %zu", what,
		     (unsigned long long)e.id, got, e.len);
	gen_payload(e.id, xbuf, e.len);
	if (memcmp(xbuf, data, e.len) != 0) {
		size_t i;
		for (i = 0; i < e.len && xbuf[i] == data[i]; i++) ;
		fail("%s: chunk id=%llu len=%zu differs at byte %zu (got %02x want %02x)",
		     what, (unsigned long long)e.id, e.len, i, data[i], xbuf[i]);
	}
}

/* returns 1 if a chunk was consumed */
static int reader_step(int drain)
{
	int how = drain ? (int)RR(2) : (int)RR(10);
	ssize_t r;

	if (how < 5 || drain == 2) {
		uint64_t done_before = q_tail;
		/* count chunks whose write had returned before we start */
		uint64_t h = q_head;
		int had = (done_before > h) && __atomic_load_n(&q[h % QMAX].committed, __ATOMIC_SEQ_CST);
		size_t cap = bufsz;
		if (how == 4 && !drain && q_head != q_tail && q[q_head % QMAX].len > 0
		    && __atomic_load_n(&q[q_head % QMAX].committed, __ATOMIC_SEQ_CST)) {
			/* too small a buffer: must not consume */
			cap = q[q_head % QMAX].len - 1;
			TR("R read cap=%zu (too small)", cap);
			r = qb_rb_chunk_read(rbr, rbuf, cap, 0);
			if (r != -ENOBUFS) fail("short read cap=%zu returned %zd", cap, r);
			return 0;
		}
		TR("R read");
		memset(rbuf, 0xEE, 64);
		r = qb_rb_chunk_read(rbr, rbuf, cap, 0);
		if (r >= 0) {
			TR("R  got len=%zd", r);
			check_chunk("read", rbuf, r);
			__atomic_store_n(&q_head_, q_head + 1, __ATOMIC_SEQ_CST);
			st_r_ok++;
			return 1;
		}
		if (r != -ETIMEDOUT) fail("read returned %zd", r);
		st_r_empty++;
		if (had) fail("read says empty but chunk id=%llu was fully written before",
			      (unsigned long long)q[h % QMAX].id);
		TR("R  empty");
		return 0;
	} else {
		void *p = NULL;
		uint64_t h = q_head;
		int had = (q_tail > h) && __atomic_load_n(&q[h % QMAX].committed, __ATOMIC_SEQ_CST);
		int again;
		TR("R peek");
		r = qb_rb_chunk_peek(rbr, &p, 0);
		if (r < 0 && r != -EBADMSG) fail("peek returned %zd", r);
		if (r == -EBADMSG || (r == 0 && use_sem && p == NULL)) {
			if (had) fail("peek says empty but chunk id=%llu was fully written before",
				      (unsigned long long)q[h % QMAX].id);
			st_r_empty++;
			TR("R  empty");
			if (RR(4) == 0) {
				/* reclaim on what looked empty: only safe to
				 * model when nothing can arrive in between */
#if !defined(INTERLEAVE) && !defined(THREADS)
				qb_rb_chunk_reclaim(rbr);
#endif
			}
			return 0;
		}
		TR("R  peeked len=%zd", r);
		check_chunk("peek", p, r);
		again = RR(3);
		while (again--) {
			void *p2 = NULL;
			ssize_t r2;
			yield_pt();
			if (!drain) { int k = RR(3); while (k--) yield_pt(); }
			r2 = qb_rb_chunk_peek(rbr, &p2, 0);
			if (r2 != r || p2 != p) fail("second peek differs: %zd/%p vs %zd/%p", r2, p2, r, p);
			check_chunk("peek again", p2, r2);
		}
		yield_pt();
		check_chunk("peeked chunk before reclaim", p, r);
		if (how == 9 && !drain) {
			/* take it with read instead */
			ssize_t r3 = qb_rb_chunk_read(rbr, rbuf, bufsz, 0);
			if (r3 != r) fail("read after peek %zd vs %zd", r3, r);
			check_chunk("read after peek", rbuf, r3);
		} else {
			qb_rb_chunk_reclaim(rbr);
		}
		__atomic_store_n(&q_head_, q_head + 1, __ATOMIC_SEQ_CST);
		st_r_ok++;
		TR("R  reclaimed");
		return 1;
	}
}

#if defined(INTERLEAVE)
static void co_writer(void) { long i; for (i = 0; i < w_ops; i++) { writer_step(); yield_pt(); } co_done[0] = 1; cur = -1; swapcontext(&ctx_co[0], &ctx_main); }
static void co_reader(void) { long i; for (i = 0; i < r_ops; i++) { reader_step(0); yield_pt(); } co_done[1] = 1; cur = -1; swapcontext(&ctx_co[1], &ctx_main); }
#endif

#ifdef THREADS
static uint64_t th_target;
static int th_wdone;
static void *th_writer(void *a) { uint64_t n = 0; (void)a; while (n < th_target) { uint64_t b = st_w_ok; writer_step(); n += st_w_ok - b; } __atomic_store_n(&th_wdone, 1, __ATOMIC_SEQ_CST); return NULL; }
static void *th_reader(void *a) { (void)a; while (!__atomic_load_n(&th_wdone, __ATOMIC_SEQ_CST)) { reader_step(0); } return NULL; }
#endif

struct rb_hdr_peek { volatile uint32_t write_pt, read_pt; uint32_t word_size; };
struct rb_peek { uint32_t flags; int32_t sem_id; struct rb_hdr_peek *hdr; uint32_t *data; };

static void run_seed(uint64_t seed, long ops)
{
	static const size_t sizes[] = { 1, 64, 4083, 4084, 4000, 5000, 8179, 12000, 20000 };
	uint64_t s = seed * 7919 + 1;
	uint64_t cfg = sm(&s);
	size_t size = sizes[cfg % 9];
	int flavour = (cfg >> 8) % 4;	/* 0 nosem, 1 thread sem, 2 process sem one handle, 3 process sem two handles */
	uint32_t flags;
	char name[64];

	cur_seed = seed;
	trace_n = 0;
	g_w = sm(&s); g_r = sm(&s); g_s = sm(&s);
	small_bias = (cfg >> 16) & 1;
	q_head_ = q_tail_ = 0; next_id = 1 + (seed << 20);
#ifdef THREADS
	if (flavour == 0 || flavour == 1) flavour = (cfg >> 12) & 1;
#endif
	switch (flavour) {
	case 0: flags = QB_RB_FLAG_SHARED_THREAD | QB_RB_FLAG_NO_SEMAPHORE; break;
	case 1: flags = QB_RB_FLAG_SHARED_THREAD; break;
	default: flags = QB_RB_FLAG_SHARED_PROCESS; break;
	}
	use_sem = flavour != 0;
	snprintf(name, sizeof name, "h2c01-%d-%llu", (int)getpid(), (unsigned long long)seed);
	rbw = qb_rb_open(name, size, flags | QB_RB_FLAG_CREATE, 0);
	if (!rbw) { perror("qb_rb_open"); exit(2); }
	rbr = rbw;
	if (flavour == 3) {
		rbr = qb_rb_open(name, size, flags, 0);
		if (!rbr) { perror("qb_rb_open 2"); exit(2); }
	}
	cmax = qb_rb_chunk_max(rbw);
	bufsz = cmax + 64;
	wbuf = malloc(bufsz + 8); rbuf = malloc(bufsz + 8); xbuf = malloc(bufsz + 8);
	w_ops = ops / 2; r_ops = ops / 2;
	if ((cfg >> 20) % 4 == 0) r_ops = ops / 4;	/* slow reader: ring mostly full */
	if ((cfg >> 20) % 4 == 1) w_ops = ops / 4;	/* slow writer: ring mostly empty */

#if defined(INTERLEAVE)
	{
		static char *stk[2];
		struct rb_peek *pw = (struct rb_peek *)rbw, *pr = (struct rb_peek *)rbr;
		static const unsigned dens[] = { 1, 2, 3, 5, 8, 16, 40, 100 };
		int i;
		sw_den = dens[(cfg >> 24) % 8];
		sh_lo[0] = (uintptr_t)pw->hdr; sh_hi[0] = sh_lo[0] + 16;
		sh_lo[1] = (uintptr_t)pr->hdr; sh_hi[1] = sh_lo[1] + 16;
		/* data words: addresses are filtered in hook by a second range pair */
		for (i = 0; i < 2; i++) if (!stk[i]) stk[i] = malloc(1 << 20);
		getcontext(&ctx_co[0]); ctx_co[0].uc_stack.ss_sp = stk[0]; ctx_co[0].uc_stack.ss_size = 1 << 20; ctx_co[0].uc_link = NULL;
		makecontext(&ctx_co[0], co_writer, 0);
		getcontext(&ctx_co[1]); ctx_co[1].uc_stack.ss_sp = stk[1]; ctx_co[1].uc_stack.ss_size = 1 << 20; ctx_co[1].uc_link = NULL;
		makecontext(&ctx_co[1], co_reader, 0);
		co_done[0] = co_done[1] = 0;
		hooks_on = 1;
		/* widen ranges to cover data mappings (double mapped) */
		{
			dlo[0] = (uintptr_t)pw->data; dhi[0] = dlo[0] + 8ul * pw->hdr->word_size;
			dlo[1] = (uintptr_t)pr->data; dhi[1] = dlo[1] + 8ul * pr->hdr->word_size;
		}
		while (!co_done[0] || !co_done[1]) {
			int n = (int)(sm(&g_s) & 1);
			if (co_done[n]) n = !n;
			cur = n;
			swapcontext(&ctx_main, &ctx_co[n]);
			cur = -1;
		}
		hooks_on = 0;
	}
#elif defined(THREADS)
	{
		pthread_t tw, tr;
		th_target = ops; th_wdone = 0;
		pthread_create(&tw, NULL, th_writer, NULL);
		pthread_create(&tr, NULL, th_reader, NULL);
		pthread_join(tw, NULL);
		pthread_join(tr, NULL);
	}
#else
	{
		long i;
		unsigned bias = 1 + (cfg >> 28) % 3;	/* 1: even, 2: writer heavy, 3: reader heavy */
		for (i = 0; i < ops; i++) {
			unsigned k = (unsigned)(sm(&g_s) % 4);
			int w = bias == 1 ? k < 2 : bias == 2 ? k < 3 : k < 1;
			/* phases: fill up, drain */
			if ((i / 997) % 7 == 3) w = 1;
			if ((i / 997) % 7 == 5) w = 0;
			if (w) writer_step(); else reader_step(0);
		}
	}
#endif
	/* drain: every chunk reported written must come out, in order */
	while (q_head != q_tail) {
		if (!q[q_head % QMAX].committed) fail("internal: uncommitted at drain");
		if (!reader_step(1))
			fail("drain: ring says empty, %llu chunks never delivered (first id=%llu)",
			     (unsigned long long)(q_tail - q_head),
			     (unsigned long long)q[q_head % QMAX].id);
	}
	{
		ssize_t r = qb_rb_chunk_read(rbr, rbuf, bufsz, 0);
		if (r != -ETIMEDOUT) fail("after drain read returned %zd", r);
	}
	if (use_sem && qb_rb_chunks_used(rbr) != 0)
		fail("after drain chunks_used=%zd", qb_rb_chunks_used(rbr));
	if (rbr != rbw) qb_rb_close(rbr);
	qb_rb_close(rbw);
	free(wbuf); free(rbuf); free(xbuf);
}

int main(int argc, char **argv)
{
	uint64_t seed0 = argc > 1 ? strtoull(argv[1], 0, 0) : 1;
	long n = argc > 2 ? atol(argv[2]) : 10;
	long ops = argc > 3 ? atol(argv[3]) : 20000;
	long i;
	verbose = argc > 4;
	for (i = 0; i < n; i++) run_seed(seed0 + i, ops);
	printf("ok seeds %llu..%llu ops/seed %ld: writes ok=%llu refused=%llu reads ok=%llu empty=%llu yields=%llu switches=%llu\n",
	       (unsigned long long)seed0, (unsigned long long)(seed0 + n - 1), ops,
	       (unsigned long long)st_w_ok, (unsigned long long)st_w_ref,
	       (unsigned long long)st_r_ok, (unsigned long long)st_r_empty,
	       (unsigned long long)st_yields, (unsigned long long)st_switch);
	return 0;
}
