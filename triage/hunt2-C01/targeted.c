/* Targeted boundary sequences for C01 (single thread, API granularity). */
#define _GNU_SOURCE
#include <stdio.h>
#include <stdlib.h>
#include <string.h>
#include <stdint.h>
#include <errno.h>
#include <unistd.h>
#include <qb/qbdefs.h>
#include <qb/qbrb.h>
size_t qb_rb_chunk_max(qb_ringbuffer_t *rb);
#define MAGIC 0xA1A1A1A1u
static uint8_t wb[70000], rb_[70000], xb[70000];
static void gen(uint32_t id, uint8_t *b, size_t len)
{ size_t i; for (i = 0; i < len; i += 4) { uint32_t w = (i/4 % 3 == 0) ? MAGIC : (i/4 % 3 == 1 ? MAGIC : id * 2654435761u + i); if (i == 4) w = 8; size_t n = len - i < 4 ? len - i : 4; memcpy(b + i, &w, n);} }
#define FAIL(...) do { fprintf(stderr, "VIOLATION: " __VA_ARGS__); fprintf(stderr, "\n"); _exit(1);} while (0)
struct e { uint32_t id; size_t len; } q[4000000]; static size_t qh, qt; static uint32_t nid = 1;
static qb_ringbuffer_t *rb; static int sem;
static int W(size_t len) { ssize_t r; gen(nid, wb, len); r = qb_rb_chunk_write(rb, wb, len); if (r == (ssize_t)len) { q[qt].id = nid++; q[qt++].len = len; return 1; } if (r != -EAGAIN) FAIL("write %zu -> %zd", len, r); return 0; }
static int R(int peek) {
	ssize_t r; void *p = NULL; const uint8_t *d;
	if (peek) { r = qb_rb_chunk_peek(rb, &p, 0); if (r == -EBADMSG || (r == 0 && p == NULL)) r = -ETIMEDOUT; d = p; }
	else { r = qb_rb_chunk_read(rb, rb_, sizeof rb_, 0); d = rb_; }
	if (r == -ETIMEDOUT) { if (qh != qt) FAIL("empty but %zu queued", qt - qh); return 0; }
	if (r < 0) FAIL("read -> %zd", r);
	if (qh == qt) FAIL("chunk len %zd from nothing", r);
	if ((size_t)r != q[qh].len) FAIL("len %zd want %zu", r, q[qh].len);
	gen(q[qh].id, xb, q[qh].len); if (memcmp(xb, d, r)) FAIL("bytes differ id %u len %zd", q[qh].id, r);
	if (peek) qb_rb_chunk_reclaim(rb);
	qh++; return 1;
}
int main(void)
{
	int fl; size_t sizes[] = { 1, 4084, 8180 }; unsigned si;
	char name[64]; unsigned long n = 0;
	for (fl = 0; fl < 2; fl++) for (si = 0; si < 3; si++) {
		size_t cmax, ws; unsigned o; int d, peek;
		snprintf(name, sizeof name, "h2c01t-%d", (int)getpid());
		rb = qb_rb_open(name, sizes[si], QB_RB_FLAG_CREATE | QB_RB_FLAG_SHARED_THREAD | (fl ? QB_RB_FLAG_NO_SEMAPHORE : 0), 0);
		sem = !fl; cmax = qb_rb_chunk_max(rb); ws = (cmax + 12) / 4;
		/* A: a chunk that fills the ring, starting at every offset class, every length near max */
		for (o = 0; o < ws + 8; o += (si ? 7 : 1)) for (d = 0; d < 9; d++) for (peek = 0; peek < 2; peek++) {
			if (!W(cmax - d)) FAIL("max-%d refused on empty ring", d);
			if (W(0) && d < 8) { /* may or may not fit; model handles it */ }
			while (R(peek)) n++;
			/* advance by one word-ish step: chunk of 0 bytes moves 2 words, 1..4 bytes 3 words */
			if (!W((o % 3) ? 1 : 0)) FAIL("small refused on empty");
			R(0); n++;
		}
		/* B: first chunk a, then the largest second chunk that is accepted; nothing damaged */
		for (o = 0; o < 400; o++) {
			size_t a = (o * 37) % (cmax - 40), b; int ok = 0;
			if (!W(a)) FAIL("a refused");
			for (b = cmax; b + 1 > 0; b--) { if (W(b)) { ok = 1; break; } if (b + 64 < cmax - a) break; }
			/* now try every small length to squeeze in */
			for (b = 0; b < 24; b++) W(b);
			(void)ok;
			while (R(o & 1)) n++;
		}
		/* C: zero-length and tiny chunks around the wrap */
		for (o = 0; o < 6000; o++) { W(o % 7); W(0); if (o % 3 == 0) { R(1); R(0); R(1);} if (o % 50 == 49) while (R(0)) n++; }
		while (R(1)) n++;
		if (sem && qb_rb_chunks_used(rb) != 0) FAIL("count %zd after drain", qb_rb_chunks_used(rb));
		qb_rb_close(rb);
	}
	printf("targeted ok, %lu chunks checked\n", n);
	return 0;
}
