#!/bin/sh
# usage: demo_build.sh <tree> <demo.c> <out>
T=$1
D=$(dirname "$(readlink -f "$0")")
SRCS="$T/lib/log.c $T/lib/log_format.c $T/lib/log_file.c $T/lib/log_syslog.c $T/lib/log_thread.c $T/lib/log_dcs.c $T/lib/log_blackbox.c $T/lib/strlcpy.c $T/lib/strlcat.c"
gcc -g -O1 -fno-omit-frame-pointer -fsanitize=address,undefined -fno-sanitize-recover=undefined \
  -DHAVE_CONFIG_H -I$T/include -I$T/include/qb -I$T/lib -I$D -w \
  $2 $SRCS -L$T/lib/.libs -lqb -lpthread -o $3
