/* C13 secondary tester: qb_vsnprintf_serialize / qb_vsnprintf_deserialize_n
 * (lib/log_format.c) with exact-size heap buffers; compared with snprintf
 * when nothing had to be cut. usage: fuzz2 seed nops */
#define _GNU_SOURCE
#include <stdio.h>
#include <stdlib.h>
#include <string.h>
#include <stdarg.h>
#include <stdint.h>
#include "os_base.h"
#include "log_int.h"
static uint64_t rs;
static uint32_t rnd(void){ rs ^= rs << 13; rs ^= rs >> 7; rs ^= rs << 17; return (uint32_t)(rs >> 11);} 
static uint32_t rn(uint32_t n){ return n ? rnd() % n : 0; }
static unsigned long nfail, ncmp, ntrunc;
static size_t ser(char *b, size_t max, const char *fmt, ...)
{ va_list ap; size_t r; va_start(ap, fmt); r = qb_vsnprintf_serialize(b, max, fmt, ap); va_end(ap); return r; }
static char *rstr(size_t n){ char *p = malloc(n+1); for (size_t i=0;i<n;i++) p[i] = rn(30)? 'a'+rn(26) : "%\a\n "[rn(4)]; p[n]=0; return p; }
#pragma GCC diagnostic ignored "-Wformat-security"
int main(int argc, char **argv)
{
	static char ref[1<<16];
	uint64_t seed = strtoull(argv[1],0,0), nops = strtoull(argv[2],0,0);
	rs = seed * 0x9E3779B97F4A7C15ULL + 99; rnd(); rnd();
	for (uint64_t op = 0; op < nops && nfail < 5; op++) {
		size_t max = rn(4) ? 8 + rn(600) : 1 + rn(16);
		size_t slen = rn(4) ? 1 + rn(700) : 1 + rn(8);
		char *b = malloc(max), *out = malloc(slen);
		size_t sl = rn(3) ? rn(40) : rn(900);
		char *s = rstr(sl), *lit = rstr(rn(3) ? rn(10) : rn(700));
		for (char *q = lit; *q; q++) if (*q == '%') *q = '_';
		int iv = (int)rnd(), w = rn(40), pr = rn(3) ? (int)rn(50) : -1;
		long lv = ((long)rnd() << 24) ^ rnd(); long long llv = ((long long)rnd() << 30) ^ rnd();
		double dv = rnd() / 3.0; long double ldv = rnd() / 7.0L; int cv = rn(5) ? 'A' + rn(26) : rn(256);
		char fmt[2048]; size_t r, d; int k = rn(14);
		memset(b, 0xAA, max); memset(out, 0xBB, slen);
#define GO(F, ...) do { strcpy(fmt, lit); strcat(fmt, F); snprintf(ref, sizeof ref, fmt, ##__VA_ARGS__); r = ser(b, max, fmt, ##__VA_ARGS__); } while (0)
		switch (k) {
		case 0: GO(""); break;
		case 1: GO("%s", s); break;
		case 2: GO("%d|%s|%c", iv, s, cv); break;
		case 3: GO("%*d|%.*s|", w, iv, pr, s); break;
		case 4: GO("%-*.*s|%%|%ld", w, pr, s, lv); break;
		case 5: GO("%lld %llx %f %Lf", llv, llv, dv, ldv); break;
		case 6: GO("%.3s%5.2s%-10s", s, s, s); break;
		case 7: GO("%zu %td %jd %p", (size_t)lv, (ptrdiff_t)lv, (intmax_t)llv, (void *)(intptr_t)lv); break;
		case 8: GO("%hd %hhu %#x %+d % d %05d %'d", iv, iv, iv, iv, iv, iv, iv); break;
		case 9: GO("%s%s%s", s, s, s); break;
		case 10: GO("%c%c%c", cv, 0x41, cv); break;
		case 11: GO("%e %G %a %10.4f", dv, dv, dv, dv); break;
		case 12: GO("%s", (char *)NULL); strcpy(ref + strlen(lit), "(null)"); break;
		default: GO("%.*s%s\n", pr, s, s); break;
		}
		if (r > max) { fprintf(stderr, "FAIL seed %lu op %lu: serialize returned %zu > max %zu\n", seed, op, r, max); nfail++; r = max; }
		{ /* hand the decoder exactly the bytes that were produced */
			char *rec = malloc(r ? r : 1); memcpy(rec, b, r);
			d = r ? qb_vsnprintf_deserialize_n(out, slen, rec, r) : 0;
			free(rec);
		}
		if (r && !memchr(out, 0, slen)) { fprintf(stderr, "FAIL seed %lu op %lu: decoded text not terminated\n", seed, op); nfail++; }
		else if (r && r < max && strlen(fmt) + 1 < max) {
			/* nothing cut on the way in: text must be the printf text, cut to slen-1; XC handling aside */
			if (!strchr(fmt, '\a')) {
				size_t n = strlen(ref) < slen - 1 ? strlen(ref) : slen - 1;
				ncmp++;
				if (strlen(out) != n || memcmp(out, ref, n)) {
					/* %c with value 0 ends the text early in both, skip */
					if (!(k == 10 || k == 2) || cv) {
					fprintf(stderr, "FAIL seed %lu op %lu k %d max %zu slen %zu r %zu: text differs\n  fmt \"%s\"\n  exp \"%.*s\"\n  got \"%s\"\n", seed, op, k, max, slen, r, fmt, (int)n, ref, out);
					nfail++; }
				}
			}
		} else ntrunc++;
		(void)d;
		free(b); free(out); free(s); free(lit);
	}
	printf("seed %lu compared %lu cut %lu fails %lu\n", seed, ncmp, ntrunc, nfail);
	return nfail ? 1 : 0;
}
