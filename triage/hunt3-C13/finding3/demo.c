/* finding 3: the ellipsis is put on a line that fits exactly, and left out
 * when the cut falls behind a newline */
#include "demo_common.h"
int main(void)
{
	setup("demo");
	maxlen(16);
	qb_log_ctl(T, QB_LOG_CONF_ELLIPSIS, QB_TRUE);
	qb_log_format_set(T, "%b");

	LOG("myfunc", "myfile.c", "%s", LOG_INFO, 42, 0, "exactly15chars!");
	expect("a: limit 16, 15 characters, nothing to cut", "exactly15chars!");

	LOG("myfunc", "myfile.c", "%s", LOG_INFO, 42, 0, "14 characters.");
	expect("   limit 16, 14 characters", "14 characters.");

	/* really cut: marked */
	LOG("myfunc", "myfile.c", "%s", LOG_INFO, 42, 0, "sixteen chars ab");
	expect("   limit 16, 16 characters, cut", "sixteen char...");

	LOG("myfunc", "myfile.c", "%s", LOG_INFO, 42, 0, "fourteen chars\nand a second line that is lost");
	{
		size_t l = strlen(line);
		int ok = l >= 3 && strcmp(line + l - 3, "...") == 0;
		printf("b: limit 16, text cut just behind a newline\n   expected a line that ends in \"...\"\n   got      \"%s\"  %s\n",
		       line, ok ? "ok" : "VIOLATION");
		if (!ok) bad++;
	}
	qb_log_fini();
	return bad ? 1 : 0;
}
