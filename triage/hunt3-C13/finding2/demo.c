/* finding 2: the line limit in force when qb_log_format_set() is called is
 * applied to the format string, not (only) to the line */
#include "demo_common.h"
int main(void)
{
	setup("demo");

	/* a: limit raised after the format was set: the format stays cut */
	maxlen(6);
	qb_log_format_set(T, "[%p] %b");
	maxlen(512);
	LOG("myfunc", "myfile.c", "%s", LOG_INFO, 42, 0, "hello");
	expect("a: maxlen 6, format \"[%p] %b\", maxlen 512", "[info] hello");

	/* b: the format is longer than the limit, its expansion is not */
	maxlen(16);
	qb_log_format_set(T, "%1p%1p%1p%1p%1p%1p%1p");
	LOG("myfunc", "myfile.c", "%s", LOG_INFO, 42, 0, "hello");
	expect("b: maxlen 16, format \"%1p%1p%1p%1p%1p%1p%1p\"", "iiiiiii");

	/* c: a directive is cut in two; what is left of it is a different one */
	maxlen(7);
	qb_log_format_set(T, "%l:%10b");
	LOG("myfunc", "myfile.c", "%s", LOG_INFO, 7, 0, "hello");
	expect("c: maxlen 7, format \"%l:%10b\", line 7", "7:hell");
	qb_log_fini();
	return bad ? 1 : 0;
}
