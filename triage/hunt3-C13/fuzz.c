/*
 * C13 model-based randomized tester: log line formatting.
 *
 * Targets: custom A (strict check in the logger callback, exact-size heap
 * output buffer), custom C (second line limit), file target B (line read
 * back from the file), syslog (exercised only).
 *
 * usage: fuzz <seed> <nops> [flags]
 *   flags bit0: avoid known quirk inputs (so that the rest can be checked)
 *         bit1: verbose on mismatch classes
 */
#define _GNU_SOURCE
#include <stdio.h>
#include <stdlib.h>
#include <string.h>
#include <stdarg.h>
#include <stdint.h>
#include <unistd.h>
#include <limits.h>
#include <time.h>
#include <syslog.h>
#include <errno.h>
#include <qb/qbdefs.h>
#include <qb/qblog.h>

#define BIG (1 << 17)

static uint64_t rs;
static uint32_t rnd(void)
{
	rs ^= rs << 13; rs ^= rs >> 7; rs ^= rs << 17;
	return (uint32_t)(rs >> 11);
}
static uint32_t rn(uint32_t n) { return n ? rnd() % n : 0; }

static int avoid_quirks;
static int verbose;
static int emulate;	/* model mimics: ellipsis on exact fit / none after newline strip, right-aligned field clipped to the room left */

/* ---------- model state ---------- */
struct tmodel {
	int id;			/* qb target id */
	int enabled;
	size_t L;		/* max line length */
	size_t L_at_set;	/* L when the format was last set */
	int ellipsis;
	int extended;
	char *fmt;		/* user format, heap */
	char name_at_set[PATH_MAX]; /* ident when the format was set */
	char name[PATH_MAX];
};

static struct tmodel TA, TB, TC, TS;
static struct tmodel *all[4] = { &TS, &TA, &TB, &TC };
static char hostname_s[256];
static char pid_s[32];
static int tags_fn_on;
static char tagbuf[600];
static char fileB[256];
static FILE *fB;

static unsigned long n_checks, n_skip_statictrunc, n_skip_namepct,
    n_skip_hugewidth, n_exactfit_ellipsis, n_nl_noellipsis, n_lines_file, n_ralign_clip;
static unsigned long n_fail;

static const char *tags_fn(uint32_t tags)
{
	if (tags % 7 == 3) {
		memset(tagbuf, 'G', 550);
		tagbuf[550] = 0;
	} else if (tags % 7 == 4) {
		tagbuf[0] = 0;
	} else {
		snprintf(tagbuf, sizeof tagbuf, "T%u", tags);
	}
	return tagbuf;
}

/* ---------- reference model ---------- */
static const char *prio_names[] = { "emerg", "alert", "crit", "error", "warning",
	"notice", "info", "debug", "trace" };
static const char mon[][4] = { "Jan", "Feb", "Mar", "Apr", "May", "Jun",
	"Jul", "Aug", "Sep", "Oct", "Nov", "Dec" };

struct sbuf { char *p; size_t len, cap; };
static void sb_add(struct sbuf *s, const char *d, size_t n)
{
	if (s->len + n + 1 > s->cap) {
		s->cap = (s->len + n + 1) * 2;
		s->p = realloc(s->p, s->cap);
	}
	memcpy(s->p + s->len, d, n);
	s->len += n;
	s->p[s->len] = 0;
}
static void sb_pad(struct sbuf *s, size_t n)
{
	while (n--) sb_add(s, " ", 1);
}

struct mres {
	int static_trunc;	/* static expansion did not fit L_at_set */
	int name_pct;		/* %N/%H value holds a '%' */
	int huge_width;		/* width beyond INT_MAX */
	int truncated;
	int exact_fit;
	int nl_stripped_after_trunc;
	int ralign_clip;	/* right-aligned field wider than the room left */
};

/* cap: nothing beyond this is ever needed */
#define CAPLEN 20000

static void field(struct sbuf *o, const char *v, unsigned long long w, int ralign)
{
	size_t l = strlen(v);
	if (o->len > CAPLEN) return;
	if (w == 0) { sb_add(o, v, l); return; }
	if (w > CAPLEN) w = CAPLEN;
	if (l >= w) { sb_add(o, v, w); return; }
	if (ralign) { sb_pad(o, w - l); sb_add(o, v, l); }
	else { sb_add(o, v, l); sb_pad(o, w - l); }
}

/* expected line for target t; returns heap string */
static char *model_line(struct tmodel *t, struct qb_log_callsite *cs,
			struct timespec *ts, const char *msg, struct mres *r)
{
	struct sbuf o = { 0 }, st = { 0 };
	const char *f = t->fmt ? t->fmt : "[%p] %b";
	size_t i = 0;
	char tmp[128];
	struct tm tm;
	time_t sec = ts->tv_sec;

	memset(r, 0, sizeof *r);
	sb_add(&o, "", 0);
	sb_add(&st, "", 0);
	localtime_r(&sec, &tm);
	while (f[i]) {
		if (f[i] != '%') {
			sb_add(&o, &f[i], 1);
			sb_add(&st, &f[i], 1);
			i++;
			continue;
		}
		size_t start = i;
		int ralign = 0;
		unsigned long long w = 0;
		const char *v = "";
		int is_static = 0;
		i++;
		if (f[i] == '-') { ralign = 1; i++; }
		while (f[i] >= '0' && f[i] <= '9') {
			if (w < 100000000000000ULL) w = w * 10 + (f[i] - '0');
			i++;
		}
		if (w > INT_MAX) r->huge_width = 1;
		switch (f[i]) {
		case 'n': v = cs->function; break;
		case 'f': v = cs->filename; break;
		case 'l': snprintf(tmp, sizeof tmp, "%u", cs->lineno); v = tmp; break;
		case 'p': v = prio_names[cs->priority > 8 ? 8 : cs->priority]; break;
		case 't':
			snprintf(tmp, sizeof tmp, "%s %02d %02d:%02d:%02d", mon[tm.tm_mon],
				 tm.tm_mday, tm.tm_hour, tm.tm_min, tm.tm_sec);
			v = tmp; break;
		case 'T':
			snprintf(tmp, sizeof tmp, "%s %02d %02d:%02d:%02d.%03ld", mon[tm.tm_mon],
				 tm.tm_mday, tm.tm_hour, tm.tm_min, tm.tm_sec,
				 ts->tv_nsec / 1000000);
			v = tmp; break;
		case 'b': v = msg; break;
		case 'g': v = tags_fn_on ? tags_fn(cs->tags) : ""; break;
		case 'N': v = t->name_at_set; is_static = 1; break;
		case 'P': v = pid_s; is_static = 1; break;
		case 'H': v = hostname_s; is_static = 1; break;
		default: v = ""; break;	/* unknown: nothing (padded to the width) */
		}
		if (is_static && strchr(v, '%')) r->name_pct = 1;
		if (ralign && w && o.len < t->L - 1 && o.len + w > t->L - 1 && strlen(v) < w) r->ralign_clip = 1;
		{ unsigned long long w2 = w;
		if (emulate && ralign && w && o.len < t->L - 1 && o.len + w > t->L - 1) w2 = t->L - 1 - o.len;
		field(&o, v, w2, ralign); }
		if (is_static) {
			field(&st, v, w, ralign);
			if (f[i]) i++;
		} else {
			if (f[i]) i++;
			sb_add(&st, &f[start], i - start);
		}
	}
	if (st.len > t->L_at_set - 1) r->static_trunc = 1;
	free(st.p);

	if (o.len > t->L - 1) {
		r->truncated = 1;
		o.len = t->L - 1;
		o.p[o.len] = 0;
	} else if (o.len == t->L - 1) {
		r->exact_fit = 1;
	}
	if (o.len > 0 && o.p[o.len - 1] == '\n') {
		o.p[--o.len] = 0;
		if (r->truncated) r->nl_stripped_after_trunc = 1;
	}
	if (emulate ? (t->ellipsis && o.len >= t->L - 1) : (t->ellipsis && r->truncated && o.len >= 3)) {
		memcpy(o.p + o.len - 3, "...", 3);
	}
	return o.p;
}

/* ---------- per-call context ---------- */
static char *cur_M0;		/* full vsnprintf text */
static size_t cur_maxmax;
static struct timespec last_ts;
static int seenA, seenC;
static uint64_t opno;
static uint64_t seed0;

/* message as target t gets it; NULL: not delivered */
static char *model_msg(struct tmodel *t)
{
	size_t l = strlen(cur_M0);
	char *m = malloc(l + 1);
	char *x;
	memcpy(m, cur_M0, l + 1);
	if (l > cur_maxmax - 1) {
		m[cur_maxmax - 1] = 0;
	} else if (l > 0 && m[l - 1] == '\n') {
		m[l - 1] = 0;
	}
	x = strchr(m, '\a');
	if (x) {
		if (x == m && !t->extended) { free(m); return NULL; }
		if (t->extended && x[1]) *x = '|'; else *x = 0;
	}
	return m;
}

static void dumpstr(const char *tag, const char *s)
{
	size_t l = strlen(s);
	fprintf(stderr, "  %s (len %zu): \"", tag, l);
	for (size_t i = 0; i < l && i < 300; i++) {
		unsigned char c = s[i];
		if (c < 32 || c > 126) fprintf(stderr, "\\x%02x", c); else fputc(c, stderr);
	}
	fprintf(stderr, "%s\"\n", l > 300 ? "..." : "");
}

static void compare(struct tmodel *t, struct qb_log_callsite *cs,
		    struct timespec *ts, const char *msg_seen, const char *got)
{
	struct mres r;
	char *m = model_msg(t);
	char *exp;

	if (m == NULL) {
		fprintf(stderr, "FAIL seed %lu op %lu target %d: delivered although only "
			"extended information and extended off\n", seed0, opno, t->id);
		n_fail++;
		return;
	}
	if (msg_seen && strcmp(m, msg_seen) != 0) {
		fprintf(stderr, "FAIL seed %lu op %lu target %d: message text differs\n",
			seed0, opno, t->id);
		dumpstr("exp", m); dumpstr("got", msg_seen);
		n_fail++;
	}
	exp = model_line(t, cs, ts, m, &r);
	n_checks++;
	if (strlen(got) > t->L - 1) {
		fprintf(stderr, "FAIL seed %lu op %lu target %d: line longer than limit\n",
			seed0, opno, t->id);
		n_fail++;
	}
	if (strcmp(exp, got) != 0) {
		if (r.static_trunc) n_skip_statictrunc++;
		else if (r.name_pct) n_skip_namepct++;
		else if (r.huge_width) n_skip_hugewidth++;
		else if (r.ralign_clip) n_ralign_clip++;
		else if (r.exact_fit && t->ellipsis) n_exactfit_ellipsis++;
		else if (r.nl_stripped_after_trunc && t->ellipsis) n_nl_noellipsis++;
		else {
			fprintf(stderr, "FAIL seed %lu op %lu target %d L=%zu ell=%d ext=%d: line differs\n",
				seed0, opno, t->id, t->L, t->ellipsis, t->extended);
			dumpstr("fmt", t->fmt ? t->fmt : "(default)");
			dumpstr("msg", m);
			dumpstr("exp", exp); dumpstr("got", got);
			{ size_t d = 0; while (exp[d] && exp[d] == got[d]) d++;
			  fprintf(stderr, "  first difference at %zu\n", d);
			  dumpstr("exp@", exp + (d > 20 ? d - 20 : 0));
			  dumpstr("got@", got + (d > 20 ? d - 20 : 0)); }
			n_fail++;
		}
		if (verbose && (r.static_trunc || r.name_pct || r.huge_width ||
				(r.exact_fit && t->ellipsis) || r.nl_stripped_after_trunc || r.ralign_clip)) {
			fprintf(stderr, "quirk st=%d np=%d hw=%d ef=%d nl=%d target %d L=%zu Lset=%zu\n",
				r.static_trunc, r.name_pct, r.huge_width, r.exact_fit,
				r.nl_stripped_after_trunc, t->id, t->L, t->L_at_set);
			dumpstr("fmt", t->fmt ? t->fmt : "(default)");
			dumpstr("msg", m);
			dumpstr("exp", exp); dumpstr("got", got);
		}
	}
	free(exp);
	free(m);
}

static void custom_logger(int32_t tid, struct qb_log_callsite *cs,
			  struct timespec *ts, const char *msg)
{
	struct tmodel *t = (tid == TA.id) ? &TA : &TC;
	char *out = malloc(t->L);

	memset(out, 0xAA, t->L);
	last_ts = *ts;
	if (t == &TA) seenA++; else seenC++;
	qb_log_target_format(tid, cs, ts, msg, out);
	if (memchr(out, 0, t->L) == NULL) {
		fprintf(stderr, "FAIL seed %lu op %lu target %d: no NUL within limit\n",
			seed0, opno, tid);
		n_fail++;
		out[t->L - 1] = 0;
	}
	compare(t, cs, ts, msg, out);
	free(out);
}

/* ---------- generators ---------- */
static char *hs(const char *s)	/* exact-size heap copy */
{
	size_t l = strlen(s);
	char *p = malloc(l + 1);
	memcpy(p, s, l + 1);
	return p;
}

static size_t pick_len(size_t L)
{
	static const size_t fixed[] = { 0, 1, 2, 3, 4, 5, 7, 8, 30, 31, 32, 33, 127, 128, 254,
		255, 256, 510, 511, 512, 513, 514, 1023, 1024, 4093, 4094, 4095, 4096,
		4097, 4100, 5000, 9000 };
	switch (rn(6)) {
	case 0: return fixed[rn(sizeof fixed / sizeof fixed[0])];
	case 1: { long v = (long)L - 6 + (long)rn(12); return v < 0 ? 0 : v; }
	case 2: return rn(40);
	case 3: return rn(600);
	case 4: { long v = (long)cur_maxmax - 4 + (long)rn(8); return v < 0 ? 0 : v; }
	default: return rn(20);
	}
}

static char *gen_text(size_t n, int allow_pct)
{
	char *p = malloc(n + 1);
	for (size_t i = 0; i < n; i++) {
		uint32_t r = rn(100);
		if (r < 80) p[i] = 'a' + rn(26);
		else if (r < 88) p[i] = ' ';
		else if (r < 91) p[i] = '0' + rn(10);
		else if (r < 93 && allow_pct) p[i] = '%';
		else if (r < 94) p[i] = '\n';
		else if (r < 95) p[i] = '-';
		else p[i] = "[]():./_"[rn(8)];
	}
	p[n] = 0;
	return p;
}

static const char *widths[] = { "", "", "", "0", "1", "2", "3", "5", "8", "10", "20", "31",
	"64", "127", "128", "255", "256", "510", "511", "512", "513", "1000", "4094", "4095",
	"4096", "4097", "5000", "99999", "007", "00", "2147483647", "2147483648",
	"4294967296", "4294967301", "99999999999", "18446744073709551616" };
#define NW (sizeof widths / sizeof widths[0])

static char *gen_target_format(struct tmodel *t)
{
	struct sbuf o = { 0 };
	int n = rn(8);
	static const char dirs[] = "nflptTbgNPHbbpxq%Z ";
	sb_add(&o, "", 0);
	if (rn(25) == 0) n = 0;
	if (rn(30) == 0) n = 40 + rn(300);
	for (int k = 0; k < n; k++) {
		if (rn(3) == 0) {
			char *lit = gen_text(rn(rn(8) ? 6 : 200), 0);
			sb_add(&o, lit, strlen(lit));
			free(lit);
		}
		sb_add(&o, "%", 1);
		if (rn(4) == 0) sb_add(&o, "-", 1);
		if (rn(2)) {
			const char *w;
			char wb[32];
			if (rn(3) == 0) {
				long v = (long)t->L - 3 + (long)rn(6);
				snprintf(wb, sizeof wb, "%ld", v < 0 ? 0 : v);
				w = wb;
			} else {
				w = widths[rn(avoid_quirks ? NW - 6 : NW)];
			}
			sb_add(&o, w, strlen(w));
		}
		if (rn(40) == 0 && k == n - 1) break;	/* ends inside a directive */
		{
			char d = dirs[rn(sizeof dirs - 1)];
			sb_add(&o, &d, 1);
		}
	}
	if (rn(3) == 0) {
		char *lit = gen_text(rn(10), 0);
		sb_add(&o, lit, strlen(lit));
		free(lit);
	}
	if (rn(50) == 0) {	/* very long format */
		char *lit = gen_text(3000 + rn(3000), 0);
		sb_add(&o, lit, strlen(lit));
		free(lit);
		if (rn(2)) sb_add(&o, "%b", 2);
	}
	return o.p;
}

static void set_format(struct tmodel *t)
{
	char *f = NULL;
	if (rn(12)) f = gen_target_format(t);
	if (avoid_quirks && f) {
		/* regenerate until the static expansion fits */
		for (int tries = 0; tries < 50; tries++) {
			struct qb_log_callsite cs = { .function = "", .filename = "", .format = "" };
			struct timespec ts = { 0, 0 };
			struct mres r;
			char *old = t->fmt;
			size_t oldL = t->L_at_set;
			t->fmt = f; t->L_at_set = t->L;
			char oldname[PATH_MAX];
			strcpy(oldname, t->name_at_set);
			strcpy(t->name_at_set, t->name);
			free(model_line(t, &cs, &ts, "", &r));
			t->fmt = old; t->L_at_set = oldL;
			strcpy(t->name_at_set, oldname);
			if (!r.static_trunc) break;
			free(f);
			f = gen_target_format(t);
			if (tries == 49) { free(f); f = NULL; }
		}
	}
	qb_log_format_set(t->id, f);
	free(t->fmt);
	t->fmt = f;
	t->L_at_set = t->L;
	strcpy(t->name_at_set, t->name);
}

static void set_maxlen(struct tmodel *t)
{
	static const int fixed[] = { 4, 5, 6, 7, 8, 9, 16, 31, 32, 64, 100, 255, 256, 511, 512,
		513, 514, 1024, 2048, 4095, 4096 };
	static const int bad[] = { -1, 0, 1, 2, 3, 4097, 5000, INT_MAX, INT_MIN };
	int v, rc;
	switch (rn(5)) {
	case 0: v = 4 + rn(30); break;
	case 1: v = 4 + rn(4093); break;
	case 2: v = bad[rn(sizeof bad / sizeof bad[0])]; break;
	default: v = fixed[rn(sizeof fixed / sizeof fixed[0])]; break;
	}
	rc = qb_log_ctl(t->id, QB_LOG_CONF_MAX_LINE_LEN, v);
	if (v >= 4 && v <= 4096) {
		if (rc != 0) { fprintf(stderr, "FAIL maxlen %d refused rc=%d\n", v, rc); n_fail++; }
		t->L = v;
		if (avoid_quirks) set_format(t);
	} else if (rc == 0) {
		fprintf(stderr, "FAIL seed %lu op %lu: maxlen %d accepted\n", seed0, opno, v);
		n_fail++;
		t->L = v;
	}
}

static void recompute_maxmax(void)
{
	size_t m = 0;
	for (int i = 0; i < 4; i++)
		if (all[i]->enabled && all[i]->L > m) m = all[i]->L;
	cur_maxmax = m ? m : QB_LOG_MAX_LEN;
}

static void check_file_line(struct qb_log_callsite *cs)
{
	static char *line;
	static size_t cap;
	ssize_t n;
	struct sbuf acc = { 0 };
	struct mres r;
	char *m, *exp;

	/* the line may hold newlines (from the message): read what was appended */
	sb_add(&acc, "", 0);
	while ((n = getline(&line, &cap, fB)) > 0)
		sb_add(&acc, line, n);
	clearerr(fB);
	m = model_msg(&TB);
	if (m == NULL) {
		if (acc.len) { fprintf(stderr, "FAIL seed %lu op %lu: file got a line for ext-only msg\n", seed0, opno); n_fail++; }
		free(acc.p);
		return;
	}
	free(m);
	if (acc.len == 0 || acc.p[acc.len - 1] != '\n') {
		fprintf(stderr, "FAIL seed %lu op %lu: file line missing/unterminated (len %zu)\n",
			seed0, opno, acc.len);
		n_fail++;
		free(acc.p);
		return;
	}
	acc.p[--acc.len] = 0;
	n_lines_file++;
	(void)r; (void)exp;
	compare(&TB, cs, &last_ts, NULL, acc.p);
	free(acc.p);
}

static void do_log(void)
{
	struct qb_log_callsite cs;
	static char big[BIG];
	char *fn, *file, *fmt, *s1 = NULL, *s2 = NULL;
	struct tmodel *ref = all[1 + rn(3)];
	size_t want = pick_len(ref->L);
	int kind = rn(10);
	int iv = (int)(rnd() % 2000000000u) - 1000000000;
	long long llv = ((long long)rnd() << 20) - (1LL << 40);
	double dv = (double)rnd() / 7.0;
	int cv = 'A' + rn(26);
	int sigkind;
	int w5 = (int)rn(30);
	int p5 = rn(2) ? (int)(want / 2) : -1;

	memset(&cs, 0, sizeof cs);
	fn = gen_text(rn(5) ? rn(20) : rn(700), 1);
	file = gen_text(rn(5) ? rn(30) : rn(700), 1);
	for (char *q = fn; *q; q++) if (*q == '\n') *q = '_';
	cs.function = fn;
	cs.filename = file;
	cs.lineno = rn(4) ? rn(100000) : rnd();
	cs.priority = rn(10) ? rn(9) : rn(256);
	cs.tags = rnd();
	cs.targets = 0xffffffffu;

	/* message: position of the extended marker / trailing newline */
	s1 = gen_text(want, 0);
	if (rn(6) == 0 && want > 0) {
		size_t pos;
		switch (rn(4)) {
		case 0: pos = 0; break;
		case 1: pos = want - 1; break;
		case 2: pos = (ref->L > 2 && ref->L - 2 < want) ? ref->L - 2 : rn(want); break;
		default: pos = rn(want); break;
		}
		s1[pos] = '\a';
		if (rn(4) == 0) s1[rn(want)] = '\a';
	}
	if (rn(5) == 0 && want > 0) s1[want - 1] = '\n';
	if (rn(20) == 0 && want > 1) { s1[want - 1] = '\n'; s1[want - 2] = '\n'; }

	sigkind = kind;
	switch (sigkind) {
	case 0: {	/* text is the format itself */
		struct sbuf o = { 0 };
		sb_add(&o, "", 0);
		for (char *q = s1; *q; q++) sb_add(&o, q, 1);
		fmt = o.p;
		break;
	}
	case 1: fmt = hs("%s"); break;
	case 2: fmt = hs(""); break;
	case 3: fmt = hs("%s%s"); s2 = gen_text(rn(10), 0); break;
	case 4: fmt = hs("x=%d s=%s c=%c"); break;
	case 5: fmt = hs("%-*d|%.*s|"); break;
	case 6: fmt = hs("%lld %f %s\n"); break;
	case 7: fmt = hs("%5.3s%%%c%s"); break;
	case 8: fmt = hs("%s\n"); break;
	default: fmt = hs("%.0s"); break;
	}
	cs.format = fmt;

	recompute_maxmax();
#define CALL(...) do { snprintf(big, sizeof big, fmt, ##__VA_ARGS__); \
		cur_M0 = big; seenA = seenC = 0; \
		qb_log_real_(&cs, ##__VA_ARGS__); } while (0)
#pragma GCC diagnostic ignored "-Wformat-security"
#pragma GCC diagnostic ignored "-Wformat-nonliteral"
#pragma GCC diagnostic ignored "-Wformat-zero-length"
	switch (sigkind) {
	case 0: CALL(); break;
	case 1: CALL(s1); break;
	case 2: CALL(); break;
	case 3: CALL(s1, s2); break;
	case 4: CALL(iv, s1, cv); break;
	case 5: CALL(w5, iv, p5, s1); break;
	case 6: CALL(llv, dv, s1); break;
	case 7: CALL(s1, cv, s1); break;
	case 8: CALL(s1); break;
	default: CALL(s1); break;
	}
	/* delivery check */
	{
		char *mA = model_msg(&TA), *mC = model_msg(&TC);
		if (TA.enabled && (mA != NULL) != (seenA == 1)) {
			fprintf(stderr, "FAIL seed %lu op %lu: target A delivery %d expected %d\n",
				seed0, opno, seenA, mA != NULL);
			n_fail++;
		}
		if (TC.enabled && (mC != NULL) != (seenC == 1)) {
			fprintf(stderr, "FAIL seed %lu op %lu: target C delivery %d expected %d\n",
				seed0, opno, seenC, mC != NULL);
			n_fail++;
		}
		free(mA); free(mC);
	}
	if (TB.enabled) {
		if ((!TA.enabled && !TC.enabled) || seenA + seenC == 0) {
			/* no timestamp known: drain only */
			static char *line; static size_t cap;
			while (getline(&line, &cap, fB) > 0) ;
			clearerr(fB);
		} else {
			check_file_line(&cs);
		}
	}
	free(fn); free(file); free(fmt); free(s1); free(s2);
}

static char *gen_name(void)
{
	size_t n = rn(4) ? rn(12) : rn(400);
	char *p = gen_text(n, !avoid_quirks);
	for (char *q = p; *q; q++) if (*q == '\n') *q = 'n';
	return p;
}

int main(int argc, char **argv)
{
	uint64_t nops;
	int flags;

	if (argc < 3) { fprintf(stderr, "usage: fuzz seed nops [flags]\n"); return 2; }
	seed0 = strtoull(argv[1], NULL, 0);
	nops = strtoull(argv[2], NULL, 0);
	flags = argc > 3 ? atoi(argv[3]) : 0;
	avoid_quirks = flags & 1;
	verbose = flags & 2;
	emulate = flags & 4;
	rs = seed0 * 0x9E3779B97F4A7C15ULL + 0x1234567;
	for (int i = 0; i < 5; i++) rnd();

	gethostname(hostname_s, sizeof hostname_s);
	hostname_s[sizeof hostname_s - 1] = 0;
	snprintf(pid_s, sizeof pid_s, "%d", getpid());
	snprintf(fileB, sizeof fileB, "/tmp/hunt3-C13/out-%d.log", getpid());
	unlink(fileB);

	qb_log_init("c13fuzz", LOG_USER, LOG_TRACE);
	TS.id = QB_LOG_SYSLOG; TS.enabled = 1; TS.L = 512; TS.L_at_set = 512; TS.extended = 1;
	strcpy(TS.name, "c13fuzz"); strcpy(TS.name_at_set, "c13fuzz");

	TA.id = qb_log_custom_open(custom_logger, NULL, NULL, NULL);
	TB.id = qb_log_file_open(fileB);
	TC.id = qb_log_custom_open(custom_logger, NULL, NULL, NULL);
	if (TA.id < 0 || TB.id < 0 || TC.id < 0) { fprintf(stderr, "open failed\n"); return 2; }
	fB = fopen(fileB, "r");
	for (int i = 1; i < 4; i++) {
		struct tmodel *t = all[i];
		t->L = 512; t->L_at_set = 512; t->extended = 1; t->ellipsis = 0;
		strcpy(t->name, "c13fuzz"); strcpy(t->name_at_set, "c13fuzz");
		qb_log_ctl(t->id, QB_LOG_CONF_ENABLED, QB_TRUE);
		t->enabled = 1;
	}
	/* syslog: mostly off (the daemon may not exist), sometimes on */
	qb_log_ctl(QB_LOG_SYSLOG, QB_LOG_CONF_ENABLED, QB_FALSE);
	TS.enabled = 0;

	for (opno = 0; opno < nops && n_fail < 10; opno++) {
		uint32_t r = rn(100);
		struct tmodel *t = all[rn(4)];
		if (r < 60) {
			do_log();
		} else if (r < 70) {
			set_format(t);
		} else if (r < 80) {
			set_maxlen(t);
		} else if (r < 85) {
			t->ellipsis = rn(2);
			qb_log_ctl(t->id, QB_LOG_CONF_ELLIPSIS, t->ellipsis);
		} else if (r < 89) {
			t->extended = rn(2);
			qb_log_ctl(t->id, QB_LOG_CONF_EXTENDED, t->extended);
		} else if (r < 92) {
			char *nm = gen_name();
			qb_log_ctl2(t->id, QB_LOG_CONF_IDENT, QB_LOG_CTL2_S(nm));
			snprintf(t->name, sizeof t->name, "%s", nm);
			free(nm);
			if (avoid_quirks) set_format(t);
		} else if (r < 94) {
			tags_fn_on = rn(2);
			qb_log_tags_stringify_fn_set(tags_fn_on ? tags_fn : NULL);
		} else if (r < 98) {
			int en = rn(3) != 0;
			if (t == &TS && rn(4)) en = 0;
			if (qb_log_ctl(t->id, QB_LOG_CONF_ENABLED, en) == 0)
				t->enabled = en;
		} else {
			/* all on again */
			for (int i = 1; i < 4; i++) {
				qb_log_ctl(all[i]->id, QB_LOG_CONF_ENABLED, QB_TRUE);
				all[i]->enabled = 1;
			}
		}
	}
	qb_log_fini();
	fclose(fB);
	unlink(fileB);
	printf("seed %lu ops %lu checks %lu file-lines %lu fails %lu | quirk counts: "
	       "static-trunc %lu name-pct %lu huge-width %lu exactfit-ellipsis %lu nl-noellipsis %lu ralign-clip %lu\n",
	       seed0, opno, n_checks, n_lines_file, n_fail, n_skip_statictrunc,
	       n_skip_namepct, n_skip_hugewidth, n_exactfit_ellipsis, n_nl_noellipsis, n_ralign_clip);
	return n_fail ? 1 : 0;
}
