#!/bin/sh
# usage: build.sh [tree]   (default /repo)
T=${1:-/repo}
D=$(dirname "$(readlink -f "$0")")
SRCS="$T/lib/log.c $T/lib/log_format.c $T/lib/log_file.c $T/lib/log_syslog.c $T/lib/log_thread.c $T/lib/log_dcs.c $T/lib/log_blackbox.c $T/lib/strlcpy.c $T/lib/strlcat.c"
gcc -g -O1 -fno-omit-frame-pointer -fsanitize=address,undefined -fno-sanitize-recover=undefined \
  -DHAVE_CONFIG_H -I$T/include -I$T/include/qb -I$T/lib -w \
  $D/fuzz.c $SRCS -L$T/lib/.libs -lqb -lpthread -o $D/fuzz
gcc -g -O1 -fno-omit-frame-pointer -fsanitize=address,undefined -fno-sanitize-recover=undefined \
  -DHAVE_CONFIG_H -I$T/include -I$T/include/qb -I$T/lib -w \
  $D/fuzz2.c $SRCS -L$T/lib/.libs -lqb -lpthread -o $D/fuzz2
