/* shared by the finding demos: one custom target whose logger formats the
 * line into an exact-size heap buffer and keeps it in `line` */
#define _GNU_SOURCE
#include <stdio.h>
#include <stdlib.h>
#include <string.h>
#include <syslog.h>
#include <qb/qbdefs.h>
#include <qb/qblog.h>

static char line[8192];
static int nlines;
static int T;
static size_t curL = 512;

static void logger(int32_t t, struct qb_log_callsite *cs, struct timespec *ts, const char *msg)
{
	char *out = malloc(curL);
	memset(out, 0xAA, curL);
	qb_log_target_format(t, cs, ts, msg, out);
	if (!memchr(out, 0, curL)) { printf("no NUL within limit\n"); exit(3); }
	strcpy(line, out);
	free(out);
	nlines++;
}

static void setup(const char *name)
{
	qb_log_init(name, LOG_USER, LOG_TRACE);
	qb_log_ctl(QB_LOG_SYSLOG, QB_LOG_CONF_ENABLED, QB_FALSE);
	T = qb_log_custom_open(logger, NULL, NULL, NULL);
	qb_log_filter_ctl(T, QB_LOG_FILTER_ADD, QB_LOG_FILTER_FILE, "*", LOG_TRACE);
	qb_log_ctl(T, QB_LOG_CONF_ENABLED, QB_TRUE);
}
static void maxlen(int l)
{
	if (qb_log_ctl(T, QB_LOG_CONF_MAX_LINE_LEN, l) != 0) { printf("maxlen %d refused\n", l); exit(2); }
	curL = l;
}
static int bad;
static void expect(const char *what, const char *exp)
{
	int ok = strcmp(line, exp) == 0;
	printf("%s\n   expected \"%s\"\n   got      \"%s\"  %s\n", what, exp, line, ok ? "ok" : "VIOLATION");
	if (!ok) bad++;
}
/* LOG(function, filename, format, priority, lineno, tags, args...) */
#define LOG(...) do { line[0] = 0; \
	qb_log_from_external_source(__VA_ARGS__); } while (0)
