#!/bin/sh
# usage: demo.sh <tree>    exit 0 = property held, non-zero = violated
T=${1:-/repo}
D=$(dirname "$(readlink -f "$0")")
"$D/../demo_build.sh" "$T" "$D/demo.c" "$D/demo" || exit 99
LD_LIBRARY_PATH=$T/lib/.libs ASAN_OPTIONS=detect_leaks=0 "$D/demo"
