/* finding 4: a width beyond INT_MAX is taken modulo 2^32 */
#include "demo_common.h"
int main(void)
{
	char exp[64];
	setup("demo");
	maxlen(32);
	qb_log_format_set(T, "%4294967301b|");
	LOG("myfunc", "myfile.c", "%s", LOG_INFO, 42, 0, "hello world");
	memset(exp, ' ', 31); exp[31] = 0; memcpy(exp, "hello world", 11);
	expect("format \"%4294967301b|\", limit 32: padded up to the limit", exp);

	qb_log_format_set(T, "%4294967296b|");
	LOG("myfunc", "myfile.c", "%s", LOG_INFO, 42, 0, "hello world");
	expect("format \"%4294967296b|\", limit 32: padded up to the limit", exp);

	qb_log_format_set(T, "%2147483647b|");
	LOG("myfunc", "myfile.c", "%s", LOG_INFO, 42, 0, "hello world");
	expect("format \"%2147483647b|\" (INT_MAX), limit 32", exp);
	qb_log_fini();
	return bad ? 1 : 0;
}
