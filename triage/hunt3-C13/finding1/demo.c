/* finding 1: the value of %N (and any other "static" directive) is scanned
 * for directives again when a line is formatted */
#include "demo_common.h"
int main(void)
{
	setup("disk100%full");
	qb_log_format_set(T, "%N: %b");
	LOG("myfunc", "myfile.c", "%s", LOG_INFO, 42, 0, "hello");
	expect("name \"disk100%full\", format \"%N: %b\"", "disk100%full: hello");

	qb_log_ctl2(T, QB_LOG_CONF_IDENT, QB_LOG_CTL2_S("a%b%b%b"));
	qb_log_format_set(T, "[%N] %b");
	LOG("myfunc", "myfile.c", "%s", LOG_INFO, 42, 0, "hello");
	expect("name \"a%b%b%b\", format \"[%N] %b\"", "[a%b%b%b] hello");

	qb_log_ctl2(T, QB_LOG_CONF_IDENT, QB_LOG_CTL2_S("50%"));
	qb_log_format_set(T, "%N %b");
	LOG("myfunc", "myfile.c", "%s", LOG_INFO, 42, 0, "hello");
	expect("name \"50%\", format \"%N %b\" (the message disappears)", "50% hello");
	qb_log_fini();
	return bad ? 1 : 0;
}
