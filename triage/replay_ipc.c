#include "os_base.h"
#include <qb/qbdefs.h>
#include <qb/qblist.h>
#include <qb/qbloop.h>
#include <qb/qblog.h>
#include <qb/qbipcs.h>
#include <qb/qbipcc.h>
#include <sys/wait.h>
#include "ipc_int.h"
static qb_loop_t *L; static qb_ipcs_service_t *S; static int mode;
static int32_t acc(qb_ipcs_connection_t *c, uid_t u, gid_t g){ return 0; }
static void created(qb_ipcs_connection_t *c){}
static int32_t closed(qb_ipcs_connection_t *c){ return 0; }
static void destroyed(qb_ipcs_connection_t *c){ fprintf(stderr,"[server] destroyed cb\n"); }
static void stopjob(void *d){ qb_loop_stop(L); }
static int32_t msgp(qb_ipcs_connection_t *c, void *data, size_t size){
  struct qb_ipc_request_header *h = data;
  fprintf(stderr,"[server] msg_process id=%d hdr.size=%d size-arg=%zu\n", h->id, h->size, size);
  if (mode==13) { qb_ipcs_disconnect(c); qb_loop_job_add(L, QB_LOOP_LOW, NULL, stopjob); }
  else { struct qb_ipc_response_header r={.id=h->id,.size=sizeof r,.error=0}; qb_ipcs_response_send(c,&r,sizeof r); }
  return 0;
}
static int32_t jadd(enum qb_loop_priority p, void *d, qb_loop_job_dispatch_fn f){ return qb_loop_job_add(L,p,d,f);}
static int32_t dadd(enum qb_loop_priority p, int32_t fd, int32_t ev, void *d, qb_ipcs_dispatch_fn_t f){ return qb_loop_poll_add(L,p,fd,ev,d,f);}
static int32_t dmod(enum qb_loop_priority p, int32_t fd, int32_t ev, void *d, qb_ipcs_dispatch_fn_t f){ return qb_loop_poll_mod(L,p,fd,ev,d,f);}
static int32_t ddel(int32_t fd){ return qb_loop_poll_del(L,fd);}
static void server(const char *name, enum qb_ipc_type type){
  struct qb_ipcs_service_handlers sh={.connection_accept=acc,.connection_created=created,.msg_process=msgp,.connection_closed=closed,.connection_destroyed=destroyed};
  struct qb_ipcs_poll_handlers ph={.job_add=jadd,.dispatch_add=dadd,.dispatch_mod=dmod,.dispatch_del=ddel};
  L=qb_loop_create(); S=qb_ipcs_create(name,4,type,&sh); qb_ipcs_poll_handlers_set(S,&ph); qb_ipcs_run(S);
  qb_loop_timer_handle th; qb_loop_timer_add(L,QB_LOOP_LOW,3000*QB_TIME_NS_IN_MSEC,NULL,stopjob,&th);
  qb_loop_run(L); fprintf(stderr,"[server] loop done\n"); _exit(0);
}
int main(int argc,char**argv){
  mode=atoi(argv[1]); enum qb_ipc_type type = !strcmp(argv[2],"shm")?QB_IPC_SHM:QB_IPC_SOCKET;
  char name[64]; snprintf(name,sizeof name,"vt%d",getpid());
  pid_t pid=fork(); if(pid==0) server(name,type);
  usleep(300000);
  qb_ipcc_connection_t *c=qb_ipcc_connect(name, 8192); if(!c){perror("connect");return 1;}
  if(mode==13){
    struct qb_ipc_request_header h={.id=5,.size=sizeof h}; qb_ipcc_send(c,&h,sizeof h); usleep(500000);
  } else if(mode==2){ /* truthful transport, lying header: size field larger than what is sent */
    struct { struct qb_ipc_request_header h; char pad[16]; } m; memset(&m,0,sizeof m); m.h.id=5; m.h.size=1<<20;
    if(type==QB_IPC_SHM){ qb_ipcc_send(c,&m,sizeof m);} else { send(c->request.u.us.sock,&m,sizeof m,0);} usleep(500000);
  } else if(mode==1){ /* socket: datagram bigger than negotiated max, header says so */
    size_t big=8192*6; char *b=calloc(1,big); struct qb_ipc_request_header *h=(void*)b; h->id=5; h->size=big; int v=big*2; setsockopt(c->request.u.us.sock,SOL_SOCKET,SO_SNDBUF,&v,sizeof v);
    ssize_t r=send(c->request.u.us.sock,b,big,0); fprintf(stderr,"[client] raw send of %zu bytes -> %zd (negotiated max %d)\n",big,r,qb_ipcc_get_buffer_size(c)); usleep(500000);
  }
  int st; kill(pid,SIGTERM); waitpid(pid,&st,0); return 0;
}
