#include "os_base.h"
#include <qb/qbarray.h>
#include <pthread.h>
static qb_array_t *a; static volatile int stop;
static void *reader(void *x){ void *p; while(!stop){ qb_array_index(a, 3, &p); } return NULL; }
int main(void){ a = qb_array_create_2(16, 8, 16); void *p; qb_array_index(a,3,&p); pthread_t t; pthread_create(&t,NULL,reader,NULL);
  for (int n=32; n<=65536; n+=16) { qb_array_grow(a, n); qb_array_index(a, n-1, &p); }
  stop=1; pthread_join(t,NULL); printf("done\n"); return 0; }
