#include "../demo_common.h"
int main(void)
{
	/* control: a directive of 34 characters */
	CHECK(512, "v=%-------------------------------5d.", 42);
	/* same flag repeated 70 times / a zero-padded width written with 70 digits:
	 * legal for printf, the text is short, but the decoder's per-directive
	 * buffer (MINI_FORMAT_STR_LEN 64) gives up and drops the rest of the line */
	CHECK(512, "v=%----------------------------------------------------------------------5d. tail", 42);
	CHECK(512, "v=%0000000000000000000000000000000000000000000000000000000000000000000005d. tail", 42);
	CHECK(512, "v=%.0000000000000000000000000000000000000000000000000000000000000000000003f. tail", 1.5);
	return failures ? 1 : 0;
}
