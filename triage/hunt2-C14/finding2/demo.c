#include "../demo_common.h"
static size_t ser(char *b, size_t n, const char *f, ...)
{
	va_list ap; size_t r;
	va_start(ap, f);
	r = qb_vsnprintf_serialize(b, n, f, ap);
	va_end(ap);
	return r;
}
int main(void)
{
	/* control */
	CHECK(512, "a%cb%dc", 'x', 5);
	/* %c with the value 0: printf's text is a, NUL, b, 5, c (as a string: "a");
	 * the decoder puts the closing literal at the first NUL instead of at the end */
	CHECK(512, "a%cb%dc", 0, 5);
	CHECK(512, "id=%c tail", 0);
	/* byte-exact check on the pair of functions, with the returned length */
	{
		char rec[64], out[64], ref[64];
		int rl = snprintf(ref, sizeof ref, "a%cb%dc", 0, 5);
		size_t d;
		ser(rec, sizeof rec, "a%cb%dc", 0, 5);
		memset(out, '#', sizeof out);
		d = qb_vsnprintf_deserialize(out, sizeof out, rec);
		printf("printf   len %d bytes:", rl + 1);
		for (int i = 0; i <= rl; i++) printf(" %02x", (unsigned char)ref[i]);
		printf("\ndecoder  len %zu bytes:", d);
		for (int i = 0; i <= rl; i++) printf(" %02x", (unsigned char)out[i]);
		printf("\n");
		if (d != (size_t)rl + 1 || memcmp(out, ref, rl + 1)) failures++;
	}
	return failures ? 1 : 0;
}
