#include "../demo_common.h"
int main(void)
{
	const char *nul = NULL;
	/* control: no precision, and precision >= 6: both sides print (null) */
	CHECK(512, "name=%s.", nul);
	CHECK(512, "name=%.6s.", nul);
	/* NULL string with a precision below 6: printf prints nothing */
	CHECK(512, "name=%.3s.", nul);
	CHECK(512, "name=%.*s.", 0, nul);
	CHECK(512, "name=%8.2s.", nul);
	return failures ? 1 : 0;
}
