/* shared by the finding demos: log one message into the blackbox, dump it,
 * print the dump, and compare the printed message with what snprintf gives */
#define _GNU_SOURCE
#include <stdio.h>
#include <stdlib.h>
#include <string.h>
#include <stdarg.h>
#include <unistd.h>
#include <fcntl.h>
#include <syslog.h>
#include <qb/qbdefs.h>
#include <qb/qblog.h>

static int failures;

static void bb_start(int line_len)
{
	qb_log_init("h2c14demo", LOG_USER, LOG_EMERG);
	qb_log_ctl(QB_LOG_SYSLOG, QB_LOG_CONF_ENABLED, QB_FALSE);
	qb_log_ctl(QB_LOG_BLACKBOX, QB_LOG_CONF_SIZE, 64 * 1024);
	qb_log_ctl(QB_LOG_BLACKBOX, QB_LOG_CONF_MAX_LINE_LEN, line_len);
	qb_log_filter_ctl(QB_LOG_BLACKBOX, QB_LOG_FILTER_ADD, QB_LOG_FILTER_FILE, "*", LOG_TRACE);
	qb_log_ctl(QB_LOG_BLACKBOX, QB_LOG_CONF_ENABLED, QB_TRUE);
}

/* returns the message text of the only record, malloc'd */
static char *bb_dump_and_read(void)
{
	char dump[64], out[64], *line = NULL, *res = NULL;
	size_t cap = 0;
	ssize_t n;
	int save, fd;
	FILE *f;
	snprintf(dump, sizeof dump, "/tmp/h2c14demo-%d.bb", getpid());
	snprintf(out, sizeof out, "/tmp/h2c14demo-%d.out", getpid());
	unlink(dump);
	qb_log_blackbox_write_to_file(dump);
	qb_log_fini();
	fflush(stdout);
	save = dup(1);
	fd = open(out, O_CREAT | O_TRUNC | O_WRONLY, 0600);
	dup2(fd, 1); close(fd);
	save = save;
	{
		int e = dup(2), nul = open("/dev/null", O_WRONLY);
		dup2(nul, 2); close(nul);
		qb_log_blackbox_print_from_file(dump);
		fflush(stdout);
		dup2(e, 2); close(e);
	}
	dup2(save, 1); close(save);
	f = fopen(out, "r");
	while ((n = getline(&line, &cap, f)) > 0) {
		char *p = strstr(line, " DEMOFN(1):7: ");
		if (!p) continue;
		if (line[n - 1] == '\n') line[n - 1] = 0;
		res = strdup(p + strlen(" DEMOFN(1):7: "));
	}
	fclose(f); free(line);
	unlink(dump); unlink(out);
	return res ? res : strdup("<no record printed>");
}

#define CHECK(line_len, ...) do { \
	char expect_[8192]; char *got_; \
	snprintf(expect_, sizeof expect_, __VA_ARGS__); \
	bb_start(line_len); \
	qb_log_from_external_source("DEMOFN", "demo.c", FIRST(__VA_ARGS__), LOG_INFO, 1, 7 REST(__VA_ARGS__)); \
	got_ = bb_dump_and_read(); \
	printf("format   [%s]\n  printf   [%s]\n  blackbox [%s]\n  => %s\n", FIRST(__VA_ARGS__), expect_, got_, \
	       strcmp(expect_, got_) ? "DIFFERENT" : "same"); \
	if (strcmp(expect_, got_)) failures++; \
	free(got_); \
} while (0)
#define FIRST(...) FIRST_(__VA_ARGS__, 0)
#define FIRST_(a, ...) a
#define REST(...) REST_(__VA_ARGS__)
#define REST_(a, ...) __VA_OPT__(,) __VA_ARGS__
