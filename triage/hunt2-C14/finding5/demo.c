#include "../demo_common.h"
#include <locale.h>
#include <wchar.h>
int main(void)
{
	if (!setlocale(LC_ALL, "C.UTF-8") && !setlocale(LC_ALL, "en_US.UTF-8")) {
		printf("no UTF-8 locale available: cannot show\n");
		return 0;
	}
	CHECK(512, "wide=%lc.", (wint_t)'A');       /* control */
	CHECK(512, "wide=%lc.", (wint_t)0x20AC);    /* EURO SIGN: stored as the single byte 0xAC */
	CHECK(512, "wide=%lc.", (wint_t)0x141);     /* stored as 0x41 'A' */
	return failures ? 1 : 0;
}
