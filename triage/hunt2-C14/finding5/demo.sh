#!/bin/sh
# usage: demo.sh <tree>    exit 0 = property held, non-zero = violated
T=${1:-/repo}
D=$(cd "$(dirname "$0")" && pwd)
L="$T/lib"
gcc -std=gnu2x -g -O1 -fsanitize=address,undefined -fno-omit-frame-pointer -DHAVE_CONFIG_H \
  -I"$T/include" -I"$T/include/qb" -I"$T/lib" -w \
  "$D/demo.c" "$L/log.c" "$L/log_blackbox.c" "$L/log_format.c" "$L/log_dcs.c" "$L/log_file.c" \
  "$L/log_syslog.c" "$L/log_thread.c" "$L/ringbuffer.c" "$L/ringbuffer_helper.c" "$L/util.c" \
  "$L/strlcpy.c" "$L/strlcat.c" \
  -L"$T/lib/.libs" -lqb -lpthread -ldl -o "$D/demo" || exit 99
LD_LIBRARY_PATH="$T/lib/.libs" ASAN_OPTIONS=detect_leaks=0 "$D/demo"
