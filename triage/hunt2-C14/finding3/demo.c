#include "../demo_common.h"
int main(void)
{
	/* control: 20 numbers, record 20*3+1+20*8 = 221 bytes, text 40 */
	CHECK(512, "%ld %ld %ld %ld %ld %ld %ld %ld %ld %ld %ld %ld %ld %ld %ld %ld %ld %ld %ld %ld",
	      1L,2L,3L,4L,5L,6L,7L,8L,9L,0L,1L,2L,3L,4L,5L,6L,7L,8L,9L,0L);
	/* 48 numbers: the text is 95 characters, far below the 512 line limit,
	 * but format (191+1) + 48*8 raw bytes = 576 > 512 */
	CHECK(512, "%ld %ld %ld %ld %ld %ld %ld %ld %ld %ld %ld %ld %ld %ld %ld %ld %ld %ld %ld %ld %ld %ld %ld %ld "
	           "%ld %ld %ld %ld %ld %ld %ld %ld %ld %ld %ld %ld %ld %ld %ld %ld %ld %ld %ld %ld %ld %ld %ld %ld",
	      1L,2L,3L,4L,5L,6L,7L,8L,9L,0L,1L,2L,3L,4L,5L,6L,7L,8L,9L,0L,1L,2L,3L,4L,
	      1L,2L,3L,4L,5L,6L,7L,8L,9L,0L,1L,2L,3L,4L,5L,6L,7L,8L,9L,0L,1L,2L,3L,4L);
	/* a string that exactly fills the line: text 31 < 32, record 3+32 */
	CHECK(32, "%s", "0123456789012345678901234567890");
	/* and a short one for a small line: text "abcdefghij" (10) < 16, record 3+11 = 14: fits */
	CHECK(16, "%s", "abcdefghij");
	/* text "abcdefghijkl" (12) < 16, record 3+13 = 16 >= 16: refused */
	CHECK(16, "%s", "abcdefghijkl");
	return failures ? 1 : 0;
}
