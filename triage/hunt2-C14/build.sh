#!/bin/sh
# usage: build.sh [tree]   (default /repo)
T=${1:-/repo}
D=$(dirname "$0")
L="$T/lib"
gcc -g -O1 -fsanitize=address,undefined -fno-omit-frame-pointer -DHAVE_CONFIG_H \
  -I"$T/include" -I"$T/include/qb" -I"$T/lib" -Wno-format -Wno-format-security -Wno-varargs \
  "$D/fuzz.c" "$L/log.c" "$L/log_blackbox.c" "$L/log_format.c" "$L/log_dcs.c" "$L/log_file.c" \
  "$L/log_syslog.c" "$L/log_thread.c" "$L/ringbuffer.c" "$L/ringbuffer_helper.c" "$L/util.c" \
  "$L/strlcpy.c" "$L/strlcat.c" \
  -L"$T/lib/.libs" -lqb -lpthread -ldl -o "$D/fuzz"
