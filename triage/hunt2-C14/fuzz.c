/*
 * C14 model-based tester: blackbox compact records decode as printf would.
 *
 * Mode A (default): qb_vsnprintf_serialize / qb_vsnprintf_deserialize_n driven
 *   directly with exactly-sized heap buffers (ASan catches any byte beyond).
 * Mode B (-b): the whole path: qb_log_from_external_source_va -> blackbox
 *   ring -> qb_log_blackbox_write_to_file -> qb_log_blackbox_print_from_file,
 *   stdout captured and compared with vsnprintf.
 *
 * Arguments are passed through a hand-built x86-64 SysV va_list whose
 * register areas are "exhausted", so every va_arg comes from an 8-byte slot
 * array we fill (int, long, pointer and double all take one slot).
 *
 * usage: fuzz [-b] [-v] seed iterations
 */
#define _GNU_SOURCE
#include <stdio.h>
#include <stdlib.h>
#include <string.h>
#include <stdarg.h>
#include <stdint.h>
#include <limits.h>
#include <float.h>
#include <math.h>
#include <unistd.h>
#include <fcntl.h>
#include <syslog.h>
#include <errno.h>
#include <qb/qbdefs.h>
#include <qb/qblog.h>

#if !defined(__x86_64__)
#error "hand-built va_list is x86-64 SysV only"
#endif

struct va_tag {
	unsigned gp_offset, fp_offset;
	void *overflow_arg_area, *reg_save_area;
};

static void mk_ap(va_list ap, void *slots)
{
	struct va_tag t = { 48, 176, slots, NULL };
	memcpy(ap, &t, sizeof(t));
}

static uint64_t rs;
static uint64_t rnd(void)
{
	rs ^= rs << 13; rs ^= rs >> 7; rs ^= rs << 17;
	return rs;
}
static unsigned R(unsigned n) { return n ? rnd() % n : 0; }

#define MAXARGS 64
static uint64_t *slots;		/* exactly nslots*8 bytes on the heap */
static int nslots;
static char *strs[MAXARGS];	/* to free */
static int nstrs;
static char fmt[20000];
static int fl;
static int verbose;
static int no_star_extreme;
static int opt_known; /* -k: avoid finding1 (NULL string with precision 0..5) */

static void put(const char *s) { while (*s) fmt[fl++] = *s++; fmt[fl] = 0; }
static void putc_(char c) { fmt[fl++] = c; fmt[fl] = 0; }

static void push_slot(uint64_t v)
{
	slots = realloc(slots, (nslots + 1) * 8);
	slots[nslots++] = v;
}
static void push_int(int v)
{
	/* upper half of an int slot is unspecified in a real call */
	push_slot(((uint64_t)(uint32_t)v) | (rnd() << 32));
}

static int pick_star(void)
{
	switch (R(no_star_extreme ? 6 : 8)) {
	case 0: return 0;
	case 1: return -(int)R(30);
	case 2: return R(8);
	case 3: return R(40);
	case 4: return -1;
	case 5: return R(700);
	case 6: return R(2) ? 100000 : -100000;
	default: return R(6000);
	}
}

static long long pick_ll(void)
{
	static const long long ex[] = { 0, 1, -1, INT_MAX, INT_MIN, LLONG_MAX,
		LLONG_MIN, UINT_MAX, 255, 256, -128, 65535, 0x7fffffffffffLL };
	if (R(2)) return ex[R(sizeof(ex) / sizeof(ex[0]))];
	return (long long)rnd() >> R(64);
}

static double pick_d(void)
{
	static const double ex[] = { 0.0, -0.0, 1.0, -1.5, DBL_MAX, -DBL_MAX,
		DBL_MIN, 4.9e-324, 1e100, 123456.789, 0.1, 1e-5, 99999.5,
		INFINITY, -INFINITY, NAN };
	if (R(3)) return ex[R(sizeof(ex) / sizeof(ex[0]))];
	union { uint64_t u; double d; } u = { rnd() };
	return u.d;
}

static char *pick_str(int prec_known, int prec, int *unterminated)
{
	char *s;
	int len;
	static const char alpha[] = "abcXYZ019 %%%dsn*.-_";
	*unterminated = 0;
	switch (R(8)) {
	case 0: if (opt_known && prec_known && prec >= 0 && prec < 6) { len = 3; break; } return NULL;
	case 1: len = 0; break;
	case 2: len = R(4); break;
	case 3: len = R(600); break;
	case 4: len = R(5000); break;
	default: len = R(40); break;
	}
	if (prec_known && prec >= 0 && prec <= len && R(3) == 0) {
		/* printf reads at most prec bytes: no terminator needed */
		s = malloc(prec ? prec : 1);
		for (int i = 0; i < prec; i++) s[i] = alpha[R(sizeof(alpha) - 1)];
		*unterminated = 1;
		strs[nstrs++] = s;
		return s;
	}
	s = malloc(len + 1);
	for (int i = 0; i < len; i++) s[i] = alpha[R(sizeof(alpha) - 1)];
	s[len] = 0;
	strs[nstrs++] = s;
	return s;
}

static int opt_hmod, opt_lc, opt_printable_c;

static void gen_directive(void)
{
	static const char flags[] = "#-+ 0'";
	static const char *imods[] = { "", "", "", "l", "ll", "z", "t", "j", "h", "hh" };
	int nf = R(4) ? R(3) : R(7);
	int prec_known = 0, prec = -1;
	int kind = R(20);

	if (kind == 0) { put("%%"); return; }
	putc_('%');
	while (nf--) putc_(flags[R(6)]);
	/* width */
	switch (R(6)) {
	case 0: case 1: break;
	case 2: { char b[16]; sprintf(b, "%u", R(30)); put(b); break; }
	case 3: { char b[16]; sprintf(b, "%u", 1 + R(R(10) ? 80 : 5000)); put(b); break; }
	case 4: putc_('*'); push_int(pick_star()); break;
	default: break;
	}
	/* precision */
	switch (R(6)) {
	case 0: putc_('.'); prec_known = 1; prec = 0; break;
	case 1: { char b[16]; prec = R(R(8) ? 20 : 700); sprintf(b, ".%d", prec); put(b); prec_known = 1; break; }
	case 2: { char b[16]; prec = R(12); sprintf(b, ".0%d", prec); put(b); prec_known = 1; break; }
	case 3: putc_('.'); putc_('*'); prec = pick_star(); push_int(prec); prec_known = 1; break;
	default: break;
	}
	if (kind <= 8) {
		const char *m = imods[R(opt_hmod ? 10 : 8)];
		put(m);
		putc_("diouxX"[R(6)]);
		if (m[0] == 'l' || m[0] == 'z' || m[0] == 't' || m[0] == 'j')
			push_slot(pick_ll());
		else
			push_int((int)pick_ll());
	} else if (kind <= 11) {
		union { double d; uint64_t u; } u;
		if (R(5) == 0) putc_('l');
		putc_("eEfFgGaA"[R(8)]);
		u.d = pick_d();
		push_slot(u.u);
	} else if (kind <= 13) {
		if (opt_lc && R(4) == 0) putc_('l');
		putc_('c');
		push_int((opt_printable_c || R(4)) ? (int)(32 + R(95)) : (int)(opt_known ? 1 + R(255) : R(256)));
	} else if (kind <= 18) {
		int unt;
		char *s = pick_str(prec_known, prec, &unt);
		putc_('s');
		push_slot((uint64_t)(uintptr_t)s);
	} else {
		putc_('p');
		push_slot(R(3) ? rnd() : 0);
	}
}

static void gen_literal(void)
{
	static const char alpha[] = "abc def:;,.[]{}()!?/\\\"<>=+-_0123456789~^&*#@$ lzjthIsdcxpefg";
	int n = R(4) ? R(6) : R(60);
	while (n--) putc_(alpha[R(sizeof(alpha) - 1)]);
}

static void gen_case(int maxdir)
{
	int nd;
	for (int i = 0; i < nstrs; i++) free(strs[i]);
	nstrs = 0;
	free(slots); slots = NULL; nslots = 0;
	fl = 0; fmt[0] = 0;
	nd = R(3) ? R(5) : R(maxdir);
	gen_literal();
	for (int i = 0; i < nd && nslots < MAXARGS - 3; i++) {
		gen_directive();
		gen_literal();
	}
	if (!slots) slots = malloc(1);
}

static void dump_case(const char *why)
{
	printf("FAIL(%s): fmt=[%s] nslots=%d\n", why, fmt, nslots);
	for (int i = 0; i < nslots; i++)
		printf("   slot[%d]=0x%llx\n", i, (unsigned long long)slots[i]);
}

static unsigned long st_cases, st_fit, st_toolong, st_mismatch, st_textfits_rejected, st_printf_fail;
#define REFMAX 200000
static char ref[REFMAX];

/* ---------------- mode A ---------------- */
static int mode_a_one(void)
{
	static const size_t lens[] = { 1, 2, 3, 4, 5, 8, 16, 31, 32, 64, 77, 78, 79, 128, 512, 4096 };
	size_t max_len = R(3) ? lens[R(16)] : 1 + R(R(2) ? 600 : 4500);
	va_list ap;
	int rl;
	size_t r, d;
	char *ser, *out;
	int bad = 0;

	gen_case(40);
	st_cases++;

	mk_ap(ap, slots);
	errno = 0;
	rl = vsnprintf(ref, REFMAX, fmt, ap);

	ser = malloc(max_len);
	memset(ser, 0xAA, max_len);
	mk_ap(ap, slots);
	r = qb_vsnprintf_serialize(ser, max_len, fmt, ap);
	if (r > max_len) {
		dump_case("serialize returned more than max_len");
		printf("   max_len=%zu r=%zu\n", max_len, r);
		bad = 1;
	}
	if (r >= max_len) {
		st_toolong++;
		if (rl >= 0 && (size_t)rl < max_len) st_textfits_rejected++;
		/* safety only: decode whatever is there, bounded */
		size_t sl = 1 + R(300);
		out = malloc(sl);
		d = qb_vsnprintf_deserialize_n(out, sl, ser, max_len);
		if (d > sl || d == 0 || memchr(out, 0, sl) == NULL) {
			dump_case("decode of unfit record: bad return/termination");
			bad = 1;
		}
		free(out);
		free(ser);
		return bad;
	}
	st_fit++;
	if (rl < 0 || rl >= REFMAX - 1) {
		st_printf_fail++;
		/* printf itself fails: safety only */
		size_t sl = 1 + R(5000);
		out = malloc(sl);
		d = qb_vsnprintf_deserialize_n(out, sl, ser, r);
		if (d > sl || memchr(out, 0, sl) == NULL) {
			dump_case("decode when printf fails: bad return/termination");
			bad = 1;
		}
		free(out); free(ser);
		return bad;
	}
	/* 1. roomy decode: exact text */
	{
		size_t sl = (size_t)rl + 1 + R(3);
		/* shrink the record to exactly r bytes so reads beyond are seen */
		char *ser2 = malloc(r);
		memcpy(ser2, ser, r);
		out = malloc(sl);
		memset(out, 0x55, sl);
		d = qb_vsnprintf_deserialize_n(out, sl, ser2, r);
		if (d != (size_t)rl + 1 || memcmp(out, ref, rl + 1) != 0) {
			st_mismatch++;
			dump_case("decoded text differs from printf");
			{
				size_t k = 0, from;
				while (k < (size_t)rl && k < sl && out[k] == ref[k]) k++;
				from = k > 30 ? k - 30 : 0;
				printf("   max_len=%zu r=%zu printf_len=%d decode_ret=%zu first difference at %zu\n   printf=...[%.80s]\n   decode=...[%.80s]\n",
				       max_len, r, rl, d, k, ref + from, out + from);
			}
			bad = 1;
		}
		free(out);
		/* 2. tight decode: prefix, terminated, within buffer */
		sl = 1 + R(rl + 2);
		out = malloc(sl);
		memset(out, 0x55, sl);
		d = qb_vsnprintf_deserialize_n(out, sl, ser2, r);
		if (d > sl || memchr(out, 0, sl) == NULL) {
			dump_case("tight decode: bad return or no terminator");
			printf("   sl=%zu d=%zu\n", sl, d);
			bad = 1;
		} else {
			size_t ol = strlen(out);
			size_t cmp = strlen(ref) < (size_t)rl ? strlen(ref) : (size_t)rl;
			if (ol <= cmp && memcmp(out, ref, ol) != 0) {
				dump_case("tight decode: not a prefix of printf text");
				printf("   sl=%zu printf=[%s] decode=[%s]\n", sl, ref, out);
				bad = 1;
			}
		}
		free(out);
		/* 3. truncated record (as a corrupt/short file would give): safety */
		if (r > 1) {
			size_t cut = 1 + R(r - 1);
			char *ser3 = malloc(cut);
			memcpy(ser3, ser, cut);
			sl = 1 + R(rl + 2);
			out = malloc(sl);
			d = qb_vsnprintf_deserialize_n(out, sl, ser3, cut);
			if (d > sl) { dump_case("cut record: return > str_len"); bad = 1; }
			free(out); free(ser3);
		}
		free(ser2);
	}
	free(ser);
	return bad;
}

/* ---------------- mode B ---------------- */
#define TOOLONG "Log message too long to be stored in the blackbox.  Maximum is QB_LOG_MAX_LEN"
struct exp { char *text; };

static int mode_b_round(int round)
{
	static const int lls[] = { 4, 5, 16, 77, 78, 79, 100, 512, 513, 1024, 4095, 4096 };
	int ll = R(2) ? lls[R(12)] : 4 + R(4093);
	int size = R(2) ? 1024 + R(8000) : 4096 + R(200000);
	int n = 1 + R(300);
	if (size < 3 * ll + 1024) size = 3 * ll + 1024; /* a ring that cannot hold one record is closed: not C14 */
	struct exp *ex = calloc(n, sizeof(*ex));
	char bbfile[128], outfile[128];
	int bad = 0, rc;
	va_list ap;
	char fn[40];

	snprintf(bbfile, sizeof bbfile, "/tmp/hunt2-C14/bb-%d.dump", getpid());
	snprintf(outfile, sizeof outfile, "/tmp/hunt2-C14/bb-%d.out", getpid());

	qb_log_init("h2c14", LOG_USER, LOG_EMERG);
	qb_log_ctl(QB_LOG_SYSLOG, QB_LOG_CONF_ENABLED, QB_FALSE);
	rc = qb_log_ctl(QB_LOG_BLACKBOX, QB_LOG_CONF_SIZE, size);
	rc |= qb_log_ctl(QB_LOG_BLACKBOX, QB_LOG_CONF_MAX_LINE_LEN, ll);
	rc |= qb_log_filter_ctl(QB_LOG_BLACKBOX, QB_LOG_FILTER_ADD, QB_LOG_FILTER_FILE, "*", LOG_TRACE);
	rc |= qb_log_ctl(QB_LOG_BLACKBOX, QB_LOG_CONF_ENABLED, QB_TRUE);
	if (rc) { printf("setup failed %d (size %d ll %d)\n", rc, size, ll); qb_log_fini(); free(ex); return 0; }

	snprintf(fn, sizeof fn, "FN%.*s", (int)R(30), "abcdefghijklmnopqrstuvwxyz0123");
	no_star_extreme = 0;
	for (int i = 0; i < n; i++) {
		int rl;
		gen_case(25);
		/* one line per record */
		for (char *c = fmt; *c; c++) if (*c == '\n') *c = '_';
		st_cases++;
		mk_ap(ap, slots);
		rl = vsnprintf(ref, REFMAX, fmt, ap);
		mk_ap(ap, slots);
		qb_log_from_external_source_va(fn, "file.c", fmt, LOG_INFO,
					       round * 1000 + i + 1, 7, ap);
		if (rl < 0 || rl >= REFMAX - 1) { st_printf_fail++; ex[i].text = NULL; }
		else ex[i].text = strdup(ref);
		/* what the record would need */
		{
			char *tmp = malloc(ll);
			size_t r;
			mk_ap(ap, slots);
			r = qb_vsnprintf_serialize(tmp, ll, fmt, ap);
			if (r >= (size_t)ll) {
				st_toolong++;
				if (rl >= 0 && rl < ll) st_textfits_rejected++;
				free(ex[i].text);
				ex[i].text = malloc(ll + 1);
				snprintf(ex[i].text, ll, "%s", TOOLONG);
			} else {
				st_fit++;
				/* text beyond the line limit: nothing promised but safety */
				if (rl >= ll) { free(ex[i].text); ex[i].text = NULL; }
			}
			free(tmp);
		}
		if (verbose) printf("logged %d: [%s]\n", i + 1, fmt);
	}
	unlink(bbfile);
	qb_log_blackbox_write_to_file(bbfile);
	fflush(stdout);
	{
		int save = dup(1);
		int fd = open(outfile, O_CREAT | O_TRUNC | O_WRONLY, 0600);
		dup2(fd, 1); close(fd);
		rc = qb_log_blackbox_print_from_file(bbfile);
		fflush(stdout);
		dup2(save, 1); close(save);
	}
	qb_log_fini();
	(void)rc; /* ends with -EIO when the ring is drained: not C14's business */
	/* parse */
	{
		FILE *f = fopen(outfile, "r");
		char *line = NULL; size_t cap = 0; ssize_t got;
		int last = 0, seen = 0;
		char key[64];
		snprintf(key, sizeof key, " %s(", fn);
		while ((got = getline(&line, &cap, f)) > 0) {
			char *p = strstr(line, key);
			int no;
			char *msg;
			if (got && line[got - 1] == '\n') line[got - 1] = 0;
			if (!p) continue; /* ring buffer debug chatter */
			no = atoi(p + strlen(key)) - round * 1000;
			msg = strstr(p, "):7: ");
			if (!msg || no < 1 || no > n) { printf("FAIL: unparsable line2 [%s]\n", line); bad = 1; continue; }
			msg += 5;
			if (last && no != last + 1) { printf("FAIL: sequence gap %d -> %d\n", last, no); bad = 1; }
			last = no; seen++;
			if (ex[no - 1].text) {
				/* reader strips trailing newlines; %c 0 ends the text */
				char *e = ex[no - 1].text;
				size_t el = strlen(e);
				while (el > 0 && e[el - 1] == '\n') e[--el] = 0;
				if (strcmp(e, msg) != 0) {
					st_mismatch++;
					printf("FAIL(blackbox text differs) ll=%d size=%d rec=%d\n   printf=[%s]\n   blackb=[%s]\n", ll, size, no, e, msg);
					bad = 1;
				}
			}
		}
		if (last != n) { printf("FAIL: last record printed %d, logged %d (seen %d) ll=%d size=%d\n", last, n, seen, ll, size); bad = 1; }
		free(line); fclose(f);
	}
	for (int i = 0; i < n; i++) free(ex[i].text);
	free(ex);
	unlink(bbfile); unlink(outfile);
	return bad;
}

int main(int argc, char **argv)
{
	int modeb = 0, a = 1;
	unsigned long iters, fails = 0;
	while (a < argc && argv[a][0] == '-') {
		if (!strcmp(argv[a], "-b")) modeb = opt_printable_c = 1;
		else if (!strcmp(argv[a], "-v")) verbose = 1;
		else if (!strcmp(argv[a], "-h")) opt_hmod = 1;
		else if (!strcmp(argv[a], "-l")) opt_lc = 1;
		else if (!strcmp(argv[a], "-k")) opt_known = 1;
		a++;
	}
	rs = (a < argc ? strtoull(argv[a], 0, 0) : 1) * 0x9E3779B97F4A7C15ULL + 12345;
	iters = a + 1 < argc ? strtoul(argv[a + 1], 0, 0) : 100000;
	for (unsigned long i = 0; i < iters && fails < 20; i++)
		fails += modeb ? mode_b_round(i % 1000) : mode_a_one();
	printf("cases=%lu fit=%lu toolong=%lu printf_failed=%lu mismatches=%lu text_fits_but_record_rejected=%lu failing_iterations=%lu\n",
	       st_cases, st_fit, st_toolong, st_printf_fail, st_mismatch, st_textfits_rejected, fails);
	return fails ? 1 : 0;
}
