/*
 * finding 9: qb_log_format_set() cuts the stored format to the line limit in
 * force at that moment.
 *   a) raising the limit afterwards does not bring the rest back
 *   b) a format that is longer than the limit but whose output is shorter
 *      (narrow widths, empty %g) loses its tail although the line would fit
 * exit 0 = property held.
 */
#include "../common.h"
int main(void)
{
	int bad = 0;
	setup("hunt-C13-f9");

	qb_log_ctl(tgt, QB_LOG_CONF_MAX_LINE_LEN, 6);
	qb_log_format_set(tgt, "[%p] %b");
	qb_log_ctl(tgt, QB_LOG_CONF_MAX_LINE_LEN, 512);
	qb_log(LOG_INFO, "hello");
	bad |= expect_line("a) format set at limit 6, logged at 512", "[info] hello");

	qb_log_ctl(tgt, QB_LOG_CONF_MAX_LINE_LEN, 24);
	qb_log_format_set(tgt, "%1p%1p%1p%1p%1p%1p%1p::%b");	/* 25 characters of format, 7+2+5 of output */
	qb_log(LOG_INFO, "hello");
	bad |= expect_line("b) limit 24, format longer than its output", "iiiiiii::hello");
	qb_log_fini();
	return bad;
}
