/*
 * finding 7: field widths are read with atoi(); a width that does not fit an
 * int wraps.  "%4294967303b" (2^32 + 7) is treated as "%7b" and chops the
 * message to 7 characters instead of padding the line to the limit, while
 * "%2147483648b" happens to pad.
 * exit 0 = property held.
 */
#include "../common.h"
int main(void)
{
	int bad = 0;
	setup("hunt-C13-f7");
	qb_log_ctl(tgt, QB_LOG_CONF_MAX_LINE_LEN, 24);

	qb_log_format_set(tgt, "%30b|");
	qb_log(LOG_INFO, "hello world");
	bad |= expect_line("width 30 (beyond the 24 limit)", "hello world            ");

	qb_log_format_set(tgt, "%2147483648b|");
	qb_log(LOG_INFO, "hello world");
	bad |= expect_line("width 2^31", "hello world            ");

	qb_log_format_set(tgt, "%4294967303b|");
	qb_log(LOG_INFO, "hello world");
	bad |= expect_line("width 2^32+7", "hello world            ");
	qb_log_fini();
	return bad;
}
