/*
 * finding 3: qb_util_set_log_function() + a libqb-tagged message that no
 * enabled target wants -> the callback is handed a buffer nothing was
 * formatted into (cs_format() is called with a length of 0).
 * exit 0 = property held.
 */
#define _GNU_SOURCE
#include <stdio.h>
#include <stdlib.h>
#include <string.h>
#include <qb/qblog.h>
#include <qb/qbutil.h>

static int bad, calls;
static void oldfn(const char *file, int32_t line, int32_t sev, const char *msg)
{
	size_t n = strnlen(msg, 600);
	calls++;
	size_t i;
	printf("old log function got %zu bytes:", n);
	for (i = 0; i < n && i < 24; i++) printf(" %02x", (unsigned char)msg[i]);
	printf("%s  (expected \"value is 42\")\n", n > 24 ? " ..." : "");
	if (strcmp(msg, "value is 42") != 0) bad = 1;
}

/* leave something recognisable where the logger's stack frame will be */
static void __attribute__((noinline)) dirty_stack(void)
{
	volatile char junk[65536];
	size_t i;
	for (i = 0; i < sizeof junk; i++) junk[i] = 'J';
}

int main(void)
{
	qb_log_init("hunt-C13-f3", LOG_USER, LOG_INFO);
	/* no target is interested: syslog (the only enabled one) is switched off */
	qb_log_ctl(QB_LOG_SYSLOG, QB_LOG_CONF_ENABLED, QB_FALSE);
	qb_util_set_log_function(oldfn);

	dirty_stack();
	/* what libqb's own qb_util_log() does */
	qb_logt(LOG_INFO, QB_LOG_TAG_LIBQB_MSG, "value is %d", 42);

	qb_log_fini();
	if (!calls) printf("old log function not called\n");
	return bad;
}
