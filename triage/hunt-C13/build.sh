#!/bin/sh
# usage: build.sh [tree]   (default /repo) -> ./fuzz
R=${1:-/repo}
cd "$(dirname "$0")"
gcc -g -O1 -fno-omit-frame-pointer -fsanitize=address,undefined -U_FORTIFY_SOURCE \
  -DHAVE_CONFIG_H -I$R/include -I$R/include/qb -I$R/lib -o fuzz fuzz.c \
  $R/lib/log.c $R/lib/log_format.c $R/lib/log_file.c $R/lib/log_syslog.c \
  $R/lib/log_dcs.c $R/lib/log_thread.c $R/lib/log_blackbox.c \
  $R/lib/strlcpy.c $R/lib/strlcat.c \
  -L$R/lib/.libs -lqb -lpthread
# run: LD_LIBRARY_PATH=$R/lib/.libs ./fuzz <seed> <iterations> [avoid-mask] [verbose]
