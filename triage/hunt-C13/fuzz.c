/*
 * C13 model-based randomized tester: log line formatting is bounded by the
 * line limit and follows the format spec.
 *
 * usage: fuzz <seed> <iterations> [avoid-mask] [verbose]
 *
 * avoid-mask bits (skip inputs that trigger an already known finding so that
 * the run can go on looking for others):
 *   1  format strings that end inside a directive ("...%", "...%-", "...%12")
 *   2  format strings whose static form is cut by the line limit
 *      (strlen(static form) >= max_line_length - 1)
 *   4  literal '\n' in format strings while ellipsis is on
 *   8  widths that do not fit an int
 *  16  '%' inside the ident (%N)
 *  32  printf length modifiers h/hh, %ls, and %.Ns with unterminated strings
 *      on the serialize (blackbox) path
 *  64  do not count "ellipsis on an exactly fitting line" as a mismatch
 * 128  old-style internal log function without a matching target
 * 256  extended-information marker as the last character of a printf format
 *      on the serialize path
 *
 * Everything the library is handed (formats, names, messages, output buffers)
 * lives in exactly-sized heap blocks so ASan sees every over-read/over-write.
 */
#define _GNU_SOURCE
#include <stdio.h>
#include <stdlib.h>
#include <string.h>
#include <stdarg.h>
#include <stdint.h>
#include <unistd.h>
#include <errno.h>
#include <time.h>
#include <fcntl.h>
#include <syslog.h>
#include <sys/stat.h>
#include "os_base.h"
#include <qb/qbdefs.h>
#include <qb/qblog.h>
#include <qb/qbutil.h>
#include "log_int.h"

/* ---------------------------------------------------------------- rng */
static uint64_t rs;
static uint32_t rnd(void)
{
	rs ^= rs << 13; rs ^= rs >> 7; rs ^= rs << 17;
	return (uint32_t)(rs >> 16);
}
static uint32_t rn(uint32_t n) { return n ? rnd() % n : 0; }
static int chance(int pct) { return (int)rn(100) < pct; }

static unsigned avoid;
static int verbose;
static unsigned long n_checks, n_mismatch, n_ops;
static unsigned long cls_count[16];
static const char *cls_name[16] = {
	"other", "unterminated", "guard-overwritten", "exact-fit-ellipsis",
	"huge-width", "static-cut", "ident-percent", "msg-mismatch",
	"file-mismatch", "syslog-mismatch", "serialize-mismatch",
	"ctl-accept", "oldfn-garbage", "open-ended-format",
};
enum { C_OTHER, C_UNTERM, C_GUARD, C_EXACT, C_HUGEW, C_STATICCUT, C_IDENTPCT,
       C_MSG, C_FILE, C_SYSLOG, C_SER, C_CTL, C_OLDFN, C_OPENEND };

static void esc(const char *s, size_t n, FILE *f)
{
	size_t i;
	if (n > 300) n = 300;
	for (i = 0; i < n; i++) {
		unsigned char c = s[i];
		if (c == '\n') fputs("\\n", f);
		else if (c == '\a') fputs("\\a", f);
		else if (c < 32 || c > 126) fprintf(f, "\\x%02x", c);
		else fputc(c, f);
	}
}

/* ---------------------------------------------------------- dyn string */
struct sb { char *p; size_t len, cap; };
static void sb_init(struct sb *b) { b->cap = 256; b->len = 0; b->p = malloc(b->cap); b->p[0] = 0; }
static void sb_put(struct sb *b, const char *s, size_t n)
{
	if (b->len + n + 1 > b->cap) {
		while (b->len + n + 1 > b->cap) b->cap *= 2;
		b->p = realloc(b->p, b->cap);
	}
	memcpy(b->p + b->len, s, n);
	b->len += n;
	b->p[b->len] = 0;
}
static void sb_fill(struct sb *b, char c, size_t n)
{
	char tmp[256];
	memset(tmp, c, sizeof tmp);
	while (n) { size_t k = n > sizeof tmp ? sizeof tmp : n; sb_put(b, tmp, k); n -= k; }
}
static char *exact_dup(const char *s)
{
	size_t n = strlen(s) + 1;
	char *p = malloc(n);
	memcpy(p, s, n);
	return p;
}

/* -------------------------------------------------- the reference model */
#define NTGT 6
enum { K_SYSLOG, K_FILE, K_CUST1, K_CUST2, K_BB, K_FMTONLY };
struct mtarget {
	int kind;
	int32_t pos;
	int enabled;
	size_t maxlen;
	int ellipsis;
	int extended;
	int threaded;
	int bump;
	char *ident;      /* %N */
	char *userfmt;    /* what was passed to format_set (NULL = default) */
	size_t fmt_maxlen; /* max_line_length when the format was set */
	char *ident_at_set;
};
static struct mtarget mt[NTGT];
static int have_tagfn;
static char hostname_s[256];
static char pid_s[32];

static const char *tagfn(uint32_t tags)
{
	static char b[40];
	if (tags == 0) return "";
	if (tags == 7) return "a-rather-long-tag-name-for-padding-tests";
	snprintf(b, sizeof b, "T%u", tags);
	return b;
}
static const char *prio_name(uint8_t p)
{
	static const char *n[] = { "emerg", "alert", "crit", "error", "warning",
				   "notice", "info", "debug", "trace" };
	return n[p > 8 ? 8 : p];
}

struct mflags { int huge_width; int ident_pct; int open_end; int has_nl; };

/* parse [-][digits]; returns the position of the conversion char */
static size_t parse_dir(const char *f, size_t i, int *ralign, unsigned long *width,
			int *has_width, struct mflags *fl)
{
	*ralign = 0; *width = 0; *has_width = 0;
	if (f[i] == '-') { *ralign = 1; i++; }
	while (f[i] >= '0' && f[i] <= '9') {
		*has_width = 1;
		if (*width < 1000000000000UL) *width = *width * 10 + (f[i] - '0');
		i++;
	}
	if (*width > 2147483647UL) { fl->huge_width = 1; }
	return i;
}

/*
 * The ideal line: walk the user format once, expand every documented
 * directive, unknown ones give "" (padded to the width), stop caring after
 * `cap` bytes (cap is well beyond any line limit).
 */
static void model_line(struct mtarget *t, const char *userfmt, const char *ident,
		       struct qb_log_callsite *cs, struct timespec *ts,
		       const char *msg, struct sb *out, struct mflags *fl, size_t cap,
		       size_t lim)
{
	const char *f = userfmt ? userfmt : "[%p] %b";
	size_t i = 0;
	char tmp[128];
	memset(fl, 0, sizeof *fl);
	if (strchr(ident, '%')) fl->ident_pct = 1;
	while (f[i] && out->len < cap) {
		int ralign, has_width;
		unsigned long width;
		const char *p;
		size_t len, w;
		if (f[i] != '%') {
			if (f[i] == '\n') fl->has_nl = 1;
			sb_put(out, &f[i], 1);
			i++;
			continue;
		}
		i = parse_dir(f, i + 1, &ralign, &width, &has_width, fl);
		switch (f[i]) {
		case 'P': p = pid_s; break;
		case 'N': p = ident; break;
		case 'H': p = hostname_s; break;
		case 'g': p = have_tagfn ? tagfn(cs->tags) : ""; break;
		case 'n': p = cs->function; break;
		case 'f': p = cs->filename; break;	/* BUILDING_IN_PLACE */
		case 'l': snprintf(tmp, sizeof tmp, "%u", cs->lineno); p = tmp; break;
		case 't': case 'T': {
			struct tm tm;
			time_t s = ts->tv_sec;
			size_t k;
			gmtime_r(&s, &tm);	/* TZ=UTC */
			k = strftime(tmp, sizeof tmp, "%b %d %H:%M:%S", &tm);
			if (f[i] == 'T')
				snprintf(tmp + k, sizeof tmp - k, ".%03ld", ts->tv_nsec / 1000000);
			p = tmp;
			break;
		}
		case 'b': p = msg; break;
		case 'p': p = prio_name(cs->priority); break;
		case '\0': fl->open_end = 1; p = ""; break;
		default: p = ""; break;
		}
		len = strlen(p);
		w = width ? width : len;
		if (w > cap) w = cap;	/* beyond any limit anyway */
		/* a per-message field that does not fit any more is laid out in
		 * the room that is left (so right alignment is relative to the
		 * limit; %P %N %H are laid out when the format is set);
		 * one more byte is kept to tell "cut" from "fits exactly" */
		if (!(f[i] && strchr("PNH", f[i])) && out->len < lim && w > lim - out->len) {
			if (len > lim - out->len) len = lim - out->len;
			if (ralign) sb_fill(out, ' ', lim - out->len - len);
			sb_put(out, p, len);
			sb_fill(out, ' ', lim - out->len);
			sb_put(out, "#", 1);
			break;
		}
		if (len > w) len = w;
		if (ralign) { sb_fill(out, ' ', w - len); sb_put(out, p, len); }
		else { sb_put(out, p, len); sb_fill(out, ' ', w - len); }
		if (f[i] == '\0') break;
		i++;
	}
}

/* expected final text for a target; returns malloc'd string */
static char *model_final(struct mtarget *t, struct qb_log_callsite *cs,
			 struct timespec *ts, const char *msg, struct mflags *fl,
			 int *exact_fit)
{
	struct sb b;
	size_t lim = t->maxlen - 1;
	int truncated;
	sb_init(&b);
	model_line(t, t->userfmt, t->ident_at_set, cs, ts, msg, &b, fl, 20000, lim);
	truncated = b.len > lim;
	*exact_fit = (b.len == lim);
	if (b.len > lim) { b.len = lim; b.p[lim] = 0; }
	if (t->ellipsis && truncated) {
		memcpy(b.p + b.len - 3, "...", 3);	/* lim >= 3 */
	} else if (b.len && b.p[b.len - 1] == '\n') {
		b.p[--b.len] = 0;
	}
	return b.p;
}

/* the library asks libqb's util.c for the time: answer it ourselves */
static struct timespec cur_ts;
void qb_util_timespec_from_epoch_get(struct timespec *ts) { *ts = cur_ts; }

/* ------------------------------------------------------ syslog capture */
static char *syslog_cap;
static int syslog_calls;
void syslog(int pri, const char *fmt, ...)
{
	va_list ap;
	(void)pri;
	va_start(ap, fmt);
	free(syslog_cap);
	syslog_cap = NULL;
	if (vasprintf(&syslog_cap, fmt, ap) < 0) syslog_cap = NULL;
	va_end(ap);
	syslog_calls++;
}
void openlog(const char *ident, int opt, int fac) { (void)ident; (void)opt; (void)fac; }
void closelog(void) { }

/* ------------------------------------------------------------- helpers */
static size_t pick_maxlen(void)
{
	static const size_t b[] = { 4, 5, 6, 7, 8, 9, 15, 16, 17, 31, 32, 33, 63, 64, 65,
		127, 128, 129, 255, 256, 257, 511, 512, 513, 1023, 1024, 1025,
		4094, 4095, 4096 };
	switch (rn(4)) {
	case 0: return b[rn(sizeof b / sizeof b[0])];
	case 1: return 4 + rn(40);
	case 2: return 4 + rn(600);
	default: return 4 + rn(4093);
	}
}

static void gen_text(struct sb *b, size_t n, int allow_special)
{
	static const char cs[] = "abcdefghijklmnopqrstuvwxyzABCXYZ0123456789 _-.,:;[]()/";
	size_t i;
	for (i = 0; i < n; i++) {
		char c = cs[rn(sizeof cs - 1)];
		if (allow_special && chance(2)) c = '\n';
		else if (allow_special && chance(1)) c = (char)(0x80 + rn(0x7f));
		else if (allow_special && chance(1)) c = '\t';
		sb_put(b, &c, 1);
	}
}

static size_t pick_len(void)
{
	switch (rn(8)) {
	case 0: return 0;
	case 1: return rn(4);
	case 2: case 3: return rn(40);
	case 4: return rn(600);
	case 5: return 500 + rn(30);
	case 6: return rn(5000);
	default: return 4080 + rn(40);
	}
}

/* a log format string for qb_log_format_set() */
static char *gen_logfmt(int ellipsis_on)
{
	struct sb b;
	int ntok, i;
	static const char known[] = "nflptTbgNPH";
	static const char unk[] = "xyzQ%d s5";
	char *r;
	sb_init(&b);
	switch (rn(6)) {
	case 0: ntok = 0; break;
	case 1: ntok = 1; break;
	case 2: ntok = 1 + rn(4); break;
	case 3: case 4: ntok = 1 + rn(12); break;
	default: ntok = rn(120); break;
	}
	for (i = 0; i < ntok; i++) {
		int k = rn(10);
		if (k < 4) {
			size_t n = chance(85) ? rn(8) : (chance(80) ? rn(100) : pick_len());
			int sp = !((avoid & 4) && ellipsis_on);
			gen_text(&b, n, sp && chance(30));
			if (sp && chance(5)) sb_put(&b, "\n", 1);
		} else {
			char w[40];
			sb_put(&b, "%", 1);
			if (chance(25)) sb_put(&b, "-", 1);
			if (chance(55)) {
				unsigned long long v;
				switch (rn(12)) {
				case 0: v = 0; break;
				case 1: v = 1; break;
				case 2: v = rn(5000); break;
				case 3: v = rn(300); break;
				case 4:
					if (avoid & 8) { v = rn(100000); break; }
					switch (rn(6)) {
					case 0: v = 2147483647ULL; break;
					case 1: v = 2147483648ULL; break;
					case 2: v = 4294967295ULL; break;
					case 3: v = 4294967296ULL + rn(20); break;
					case 4: v = 18446744073709551615ULL; break;
					default: v = 99999999999ULL; break;
					}
					break;
				default: v = rn(30); break;
				}
				snprintf(w, sizeof w, chance(10) ? "0%llu" : "%llu", v);
				sb_put(&b, w, strlen(w));
				if (!(avoid & 8) && chance(1))
					sb_put(&b, "99999999999999999999", 20);
			}
			if (chance(88)) {
				sb_put(&b, &known[rn(sizeof known - 1)], 1);
			} else if (chance(70) || (avoid & 1)) {
				sb_put(&b, &unk[rn(sizeof unk - 1)], 1);
			} else {
				break;	/* the string ends inside the directive */
			}
		}
	}
	if ((avoid & 1) && b.len) {
		/* make sure it does not end inside a directive anyway */
		size_t j = b.len;
		while (j && ((b.p[j-1] >= '0' && b.p[j-1] <= '9') || b.p[j-1] == '-')) j--;
		if (j && b.p[j-1] == '%') {
			/* could be "%%" + digits which is complete; be simple */
			sb_put(&b, "b", 1);
		}
	}
	r = exact_dup(b.p);
	free(b.p);
	return r;
}

/* does the format end inside a directive? (exact, follows the grammar) */
static int fmt_open_end(const char *f)
{
	size_t i = 0;
	while (f[i]) {
		if (f[i] != '%') { i++; continue; }
		i++;
		if (f[i] == '-') i++;
		while (f[i] >= '0' && f[i] <= '9') i++;
		if (!f[i]) return 1;
		i++;
	}
	return 0;
}

/* length the static stage produces for this format (no limit applied) */
static size_t static_len(const char *ident, const char *f)
{
	size_t i = 0, out = 0;
	while (f[i]) {
		int ralign, hw; unsigned long w; struct mflags fl;
		size_t s, len;
		if (f[i] != '%') { i++; out++; continue; }
		s = i;
		i = parse_dir(f, i + 1, &ralign, &w, &hw, &fl);
		switch (f[i]) {
		case 'P': len = strlen(pid_s); break;
		case 'N': len = strlen(ident); break;
		case 'H': len = strlen(hostname_s); break;
		default: len = i - s + 1; w = 0; break;
		}
		if (w > 100000) w = 100000;
		out += w ? w : len;
		if (!f[i]) break;
		i++;
	}
	return out;
}

static int fmt_open_end(const char *f);
/* --------------------------------------------------------- op: format */
static int32_t pos_of[NTGT];

static void report(int cls, struct mtarget *t, const char *what,
		   const char *exp, const char *got, size_t gotn,
		   const char *msg)
{
	cls_count[cls]++;
	n_mismatch++;
	if (cls_count[cls] > 5 && !verbose) return;
	fprintf(stderr, "MISMATCH[%s] op#%lu %s: target kind=%d maxlen=%zu ellipsis=%d ext=%d\n",
		cls_name[cls], n_ops, what, t ? t->kind : -1, t ? t->maxlen : 0,
		t ? t->ellipsis : 0, t ? t->extended : 0);
	if (t) {
		fprintf(stderr, "  userfmt(len %zu, set at maxlen %zu): \"",
			t->userfmt ? strlen(t->userfmt) : 0, t->fmt_maxlen);
		esc(t->userfmt ? t->userfmt : "(default)", t->userfmt ? strlen(t->userfmt) : 9, stderr);
		fprintf(stderr, "\"\n  ident: \""); esc(t->ident_at_set, strlen(t->ident_at_set), stderr);
		fprintf(stderr, "\"\n");
	}
	if (msg) { fprintf(stderr, "  msg(len %zu): \"", strlen(msg)); esc(msg, strlen(msg), stderr); fprintf(stderr, "\"\n"); }
	if (exp) { fprintf(stderr, "  expect(len %zu): \"", strlen(exp)); esc(exp, strlen(exp), stderr); fprintf(stderr, "\"\n"); }
	if (got) { fprintf(stderr, "  got   (len %zu): \"", gotn); esc(got, gotn, stderr); fprintf(stderr, "\"\n"); }
	if (exp && got) {
		size_t i = 0, le = strlen(exp);
		while (i < le && i < gotn && exp[i] == got[i]) i++;
		fprintf(stderr, "  first difference at offset %zu: expect \"", i);
		esc(exp + i, le - i > 40 ? 40 : le - i, stderr);
		fprintf(stderr, "\" got \"");
		esc(got + i, gotn - i > 40 ? 40 : gotn - i, stderr);
		fprintf(stderr, "\"\n");
	}
}

/* classify a text mismatch */
static int classify(struct mtarget *t, struct mflags *fl, int exact_fit,
		    const char *exp, const char *got)
{
	size_t le = strlen(exp), lg = strlen(got);
	if (t->userfmt && fmt_open_end(t->userfmt)) return C_OPENEND;
	/* the expected line followed by stale bytes: the terminator is missing */
	if (t->ellipsis && fl->has_nl && lg > le && memcmp(exp, got, le) == 0) return C_UNTERM;
	if (fl->huge_width) return C_HUGEW;
	if (fl->ident_pct) return C_IDENTPCT;
	if (t->userfmt && static_len(t->ident_at_set, t->userfmt) >= t->fmt_maxlen - 1) return C_STATICCUT;
	/* nothing had to be cut (the line, possibly with its trailing newline,
	 * is exactly max-1 long) but the last three characters became "..." */
	if (t->ellipsis && exact_fit && lg >= 3 && le >= lg - 1 &&
	    memcmp(exp, got, lg - 3) == 0 && memcmp(got + lg - 3, "...", 3) == 0)
		return C_EXACT;
	return C_OTHER;
}

/*
 * Call qb_log_target_format() for target t into an exactly sized, poisoned
 * buffer and compare with the model.
 */
static void check_format(struct mtarget *t, struct qb_log_callsite *cs,
			 struct timespec *ts, const char *msg, const char *what)
{
	size_t ml = t->maxlen;
	char *out = malloc(ml);		/* exactly the limit: ASan guards the rest */
	char *exp, *nul;
	struct mflags fl;
	int exact_fit;

	memset(out, 0xAA, ml);
	qb_log_target_format(t->pos, cs, ts, msg, out);
	n_checks++;
	exp = model_final(t, cs, ts, msg, &fl, &exact_fit);
	nul = memchr(out, 0, ml);
	if (!nul) {
		report(C_UNTERM, t, what, exp, out, ml, msg);
	} else if (strcmp(out, exp) != 0) {
		int c = classify(t, &fl, exact_fit, exp, out);
		if (!(c == C_EXACT && (avoid & 64)))
			report(c, t, what, exp, out, strlen(out), msg);
	}
	free(exp);
	free(out);
}

/* ------------------------------------------------- end to end logging */
static char *cur_expect_msg;	/* cs_format result the model predicts */
static int cust_calls[NTGT];
static const char *cur_what = "e2e";

static int in_op_log;
static struct mtarget *mt_by_pos(int32_t pos)
{
	int i;
	for (i = 0; i < NTGT; i++) if (mt[i].pos == pos) return &mt[i];
	return NULL;
}

/* what qb_do_extended hands to the logger; NULL = not called */
static char *model_extended(const char *m, int extended)
{
	char *r = exact_dup(m);
	char *x = strchr(r, '\a');
	if (x) {
		if (x == r && !extended) { free(r); return NULL; }
		if (extended && x[1]) *x = '|'; else *x = 0;
	}
	return r;
}

static void cust_logger(int32_t pos, struct qb_log_callsite *cs,
			struct timespec *ts, const char *msg)
{
	struct mtarget *t = mt_by_pos(pos);
	char *em;
	if (!t) { fprintf(stderr, "logger for unknown target %d\n", pos); abort(); }
	if (!in_op_log) return;	/* libqb's own messages (ring buffer open etc.) */
	cust_calls[t - mt]++;
	if (ts->tv_sec != cur_ts.tv_sec || ts->tv_nsec != cur_ts.tv_nsec)
		report(C_MSG, t, "timestamp differs", NULL, NULL, 0, NULL);
	em = cur_expect_msg ? model_extended(cur_expect_msg, t->extended) : NULL;
	n_checks++;
	if (!em) {
		report(C_MSG, t, "logger called though nothing expected", "", msg, strlen(msg), NULL);
	} else if (strcmp(em, msg) != 0) {
		report(C_MSG, t, "message text", em, msg, strlen(msg), NULL);
	}
	free(em);
	{
		/* hand over an exactly sized copy */
		char *m2 = exact_dup(msg);
		check_format(t, cs, ts, m2, cur_what);
		free(m2);
	}
}

static char file_path[256];
static int file_fd = -1;

static char *slurp_file(size_t *n)
{
	struct stat st;
	char *p;
	fstat(file_fd, &st);
	p = malloc(st.st_size + 1);
	lseek(file_fd, 0, SEEK_SET);
	*n = read(file_fd, p, st.st_size);
	p[*n] = 0;
	if (ftruncate(file_fd, 0)) {}
	return p;
}

/* old style internal log function */
static char *oldfn_got;
static int oldfn_calls;
static void oldfn(const char *file, int32_t line, int32_t sev, const char *msg)
{
	(void)file; (void)line; (void)sev;
	free(oldfn_got);
	oldfn_got = strndup(msg, 100000);
	oldfn_calls++;
}
static int oldfn_set;

/* printf format generation ------------------------------------------ */
struct pargs {
	long g[4]; int ng;
	double d[4]; int nd;
	char *strs[4]; int nstr;
};

static char *gen_printf(struct pargs *pa, int for_serialize)
{
	struct sb b;
	int ntok = rn(7), i;
	sb_init(&b);
	memset(pa, 0, sizeof *pa);
	if (chance(10)) ntok = 0;
	for (i = 0; i < ntok; i++) {
		int k = rn(16);
		char w[32] = "";
		if (chance(30)) snprintf(w, sizeof w, "%s%u", chance(30) ? "-" : (chance(20) ? "0" : ""), rn(chance(90) ? 12 : 700));
		if (k < 4) {
			size_t n = chance(70) ? rn(12) : pick_len();
			gen_text(&b, n, chance(20));
			if (chance(6)) sb_put(&b, "\a", 1);
			if (chance(6)) sb_put(&b, "\n", 1);
		} else if (k < 6 && pa->ng < 4) {
			static const char *c[] = { "d", "i", "u", "x", "X", "o" };
			sb_put(&b, "%", 1); sb_put(&b, w, strlen(w));
			sb_put(&b, c[rn(6)], 1);
			pa->g[pa->ng++] = (int)rnd() * (chance(50) ? 1 : -1);
		} else if (k < 8 && pa->ng < 4) {
			static const char *c[] = { "ld", "lu", "lx", "lld", "llu", "zu", "zd", "td", "jd" };
			const char *s = c[rn(9)];
			sb_put(&b, "%", 1); sb_put(&b, w, strlen(w));
			sb_put(&b, s, strlen(s));
			pa->g[pa->ng++] = (long)(((uint64_t)rnd() << 32) ^ rnd());
		} else if (k < 11 && pa->ng < 4 && pa->nstr < 4) {
			struct sb s;
			size_t n = chance(60) ? rn(20) : pick_len();
			sb_init(&s);
			gen_text(&s, n, chance(20));
			if (chance(4)) sb_put(&s, "\a", 1);
			if (chance(4)) sb_put(&s, "\n", 1);
			if (chance(4)) sb_put(&s, "%s%n%d", 6);
			sb_put(&b, "%", 1); sb_put(&b, w, strlen(w));
			if (chance(20)) {
				char pr[16];
				snprintf(pr, sizeof pr, ".%u", rn(chance(80) ? 10 : 600));
				sb_put(&b, pr, strlen(pr));
			}
			sb_put(&b, "s", 1);
			pa->strs[pa->nstr] = exact_dup(s.p);
			free(s.p);
			if (chance(3) && !for_serialize) {
				/* NULL string: glibc prints (null) */
				free(pa->strs[pa->nstr]);
				pa->strs[pa->nstr] = NULL;
			}
			pa->g[pa->ng++] = (long)pa->strs[pa->nstr];
			pa->nstr++;
		} else if (k < 12 && pa->ng < 4) {
			sb_put(&b, "%", 1); sb_put(&b, w, strlen(w));
			sb_put(&b, "c", 1);
			pa->g[pa->ng++] = chance(90) ? 'A' + rn(26) : (chance(50) ? '\n' : '\a');
		} else if (k < 13 && pa->nd < 4) {
			static const char *c[] = { "f", "g", "e", "5.2f", ".0f", "G", "lf", "a" };
			const char *s = c[rn(8)];
			sb_put(&b, "%", 1);
			if (s[0] != '5' && s[0] != '.') sb_put(&b, w, strlen(w));
			sb_put(&b, s, strlen(s));
			pa->d[pa->nd++] = chance(80) ? (double)(int)rnd() / 1000.0 : 1e300;
		} else if (k < 14 && !(avoid & 32) && chance(40) && pa->ng < 4 && pa->nstr < 4) {
			/* valid printf usage the argument walker has to cope with */
			if (chance(50)) {
				static const char *c[] = { "hd", "hhd", "hu", "hhx", "hx", "hhu" };
				const char *m = c[rn(6)];
				sb_put(&b, "%", 1); sb_put(&b, w, strlen(w));
				sb_put(&b, m, strlen(m));
				pa->g[pa->ng++] = (short)rnd();
			} else {
				/* "%.Ns" with exactly N bytes and no terminator */
				char pr[16];
				unsigned n = 1 + rn(12), j;
				char *u = malloc(n);
				for (j = 0; j < n; j++) u[j] = 'a' + rn(26);
				snprintf(pr, sizeof pr, "%%.%us", n);
				sb_put(&b, pr, strlen(pr));
				pa->strs[pa->nstr++] = u;
				pa->g[pa->ng++] = (long)u;
			}
		} else if (k < 14) {
			sb_put(&b, "%%", 2);
		} else if (k < 15 && pa->ng < 3) {
			/* star width / precision */
			if (chance(50)) {
				sb_put(&b, "%*d", 3);
				pa->g[pa->ng++] = (int)rn(chance(90) ? 20 : 900) * (chance(80) ? 1 : -1);
				pa->g[pa->ng++] = (int)rnd();
			} else if (pa->nstr < 4) {
				struct sb s;
				sb_init(&s);
				gen_text(&s, rn(30), 0);
				sb_put(&b, "%.*s", 4);
				pa->g[pa->ng++] = (int)rn(40);
				pa->strs[pa->nstr] = exact_dup(s.p);
				free(s.p);
				pa->g[pa->ng++] = (long)pa->strs[pa->nstr];
				pa->nstr++;
			}
		} else if (pa->ng < 4) {
			sb_put(&b, "%p", 2);
			pa->g[pa->ng++] = (long)((uint64_t)rnd() << 8);
		}
	}
	{
		char *r = exact_dup(b.p);
		free(b.p);
		return r;
	}
}
static void free_pargs(struct pargs *pa)
{
	int i;
	for (i = 0; i < pa->nstr; i++) free(pa->strs[i]);
}

/* x86-64 SysV: integer class and SSE class arguments are fetched from
 * independent sequences, so (g0..g3, d0..d3) serves any interleaving */
#define PA_ARGS(pa) (pa)->g[0], (pa)->g[1], (pa)->g[2], (pa)->g[3], \
		    (pa)->d[0], (pa)->d[1], (pa)->d[2], (pa)->d[3]

static char *ref_printf(const char *fmt, ...)
{
	va_list ap;
	char *r = NULL;
	va_start(ap, fmt);
	if (vasprintf(&r, fmt, ap) < 0) r = NULL;
	va_end(ap);
	return r;
}

static uint32_t cur_line, cur_tags, line_counter;
static uint8_t cur_prio;
static char cur_func[64], cur_filen[64];

static void do_log(const char *fmt, ...)
{
	va_list ap;
	va_start(ap, fmt);
	qb_log_from_external_source_va(cur_func, cur_filen, fmt, cur_prio,
				       cur_line, cur_tags, ap);
	va_end(ap);
}

static size_t ser_call(char *buf, size_t max, const char *fmt, ...)
{
	va_list ap;
	size_t r;
	va_start(ap, fmt);
	r = qb_vsnprintf_serialize(buf, max, fmt, ap);
	va_end(ap);
	return r;
}

static void stack_dirty(void)
{
	volatile char junk[3000];
	size_t i;
	for (i = 0; i < sizeof junk; i++) junk[i] = 'J';
}

static void op_log(void)
{
	struct pargs pa;
	char *fmt = gen_printf(&pa, 0);
	char *full = ref_printf(fmt, PA_ARGS(&pa));
	size_t maxl = 0, flen;
	int i, any = 0;
	int exp_calls[NTGT] = {0};
	char *em;

	cur_line = ++line_counter;	/* a fresh call site every time */
	cur_ts.tv_sec = rn(2000000000); cur_ts.tv_nsec = rn(1000000000);
	cur_prio = rn(10) < 9 ? rn(9) : 200;	/* cs priority beyond trace too */
	if (cur_prio > LOG_TRACE) cur_prio = LOG_TRACE;	/* filters would drop it */
	cur_tags = chance(70) ? 0 : (chance(50) ? 7 : rn(100));
	if (oldfn_set && chance(30)) cur_tags |= QB_LOG_TAG_LIBQB_MSG;
	snprintf(cur_func, sizeof cur_func, "fn_%u_%s", cur_line, (cur_line % 3) ? "x" : "a_longer_function_name");
	snprintf(cur_filen, sizeof cur_filen, "dir/sub/file%u.c", cur_line % 7);

	for (i = 0; i < NTGT; i++)
		if (mt[i].kind != K_FMTONLY && mt[i].enabled) {
			any = 1;
			if (mt[i].maxlen > maxl) maxl = mt[i].maxlen;
		}
	if ((avoid & 128) && !any && (cur_tags & QB_LOG_TAG_LIBQB_MSG))
		cur_tags &= ~QB_LOG_TAG_LIBQB_MSG;
	/* model of cs_format */
	flen = strlen(full);
	free(cur_expect_msg);
	cur_expect_msg = NULL;
	if (any) {
		cur_expect_msg = exact_dup(full);
		if (flen >= maxl) cur_expect_msg[maxl - 1] = 0;
		else if (flen && cur_expect_msg[flen - 1] == '\n') cur_expect_msg[flen - 1] = 0;
	}
	for (i = 0; i < NTGT; i++) cust_calls[i] = 0;
	syslog_calls = 0;
	oldfn_calls = 0;
	free(syslog_cap); syslog_cap = NULL;
	if (file_fd >= 0) { if (ftruncate(file_fd, 0)) {} }

	stack_dirty();
	in_op_log = 1;
	do_log(fmt, PA_ARGS(&pa));
	in_op_log = 0;

	/* who should have been called */
	for (i = 0; i < NTGT; i++) {
		struct mtarget *t = &mt[i];
		if (t->kind == K_FMTONLY || t->kind == K_BB || !t->enabled) continue;
		em = cur_expect_msg ? model_extended(cur_expect_msg, t->extended) : NULL;
		if (em) exp_calls[i] = 1;
		free(em);
	}
	for (i = 0; i < NTGT; i++) {
		struct mtarget *t = &mt[i];
		if (t->kind == K_CUST1 || t->kind == K_CUST2) {
			n_checks++;
			if (cust_calls[i] != exp_calls[i])
				report(C_MSG, t, "custom logger call count", exp_calls[i] ? "1 call" : "0 calls",
				       cust_calls[i] ? ">=1" : "0", 3, cur_expect_msg);
		} else if (t->kind == K_FILE && t->enabled) {
			size_t n;
			char *got = slurp_file(&n);
			n_checks++;
			if (!exp_calls[i]) {
				if (n) report(C_FILE, t, "file written though nothing expected", "", got, n, NULL);
			} else {
				struct qb_log_callsite cs;
				struct mflags fl; int ef;
				char *exp, *em2 = model_extended(cur_expect_msg, t->extended);
				memset(&cs, 0, sizeof cs);
				cs.function = cur_func; cs.filename = cur_filen; cs.format = fmt;
				cs.priority = cur_prio; cs.lineno = cur_line; cs.tags = cur_tags;
				/* timestamp: taken by the library; only usable if a custom
				 * logger saw it, otherwise skip formats with %t */
				exp = model_final(t, &cs, &cur_ts, em2, &fl, &ef);
				if (n == 0 || got[n - 1] != '\n') {
					report(C_FILE, t, "file line not newline terminated", exp, got, n, em2);
				} else {
					got[n - 1] = 0;
					if (strlen(got) != n - 1 || strcmp(got, exp) != 0) {
						int c = classify(t, &fl, ef, exp, got);
						if (c == C_OTHER) c = C_FILE;
						if (!(c == C_EXACT && (avoid & 64)))
							report(c, t, "file text", exp, got, strlen(got), em2);
					}
					if (n - 1 > t->maxlen - 1)
						report(C_FILE, t, "file line longer than the limit", exp, got, n - 1, em2);
				}
				free(exp); free(em2);
			}
			free(got);
		} else if (t->kind == K_SYSLOG && t->enabled) {
			int fp = cur_prio;
			int want = exp_calls[i];
			if (fp > LOG_INFO) fp += t->bump;
			if (fp > LOG_DEBUG) want = 0;
			n_checks++;
			if (syslog_calls != want) {
				report(C_SYSLOG, t, "syslog call count", want ? "1" : "0", syslog_calls ? "1" : "0", 1, cur_expect_msg);
			} else if (want) {
				struct qb_log_callsite cs;
				struct mflags fl; int ef;
				char *exp, *em2 = model_extended(cur_expect_msg, t->extended);
				memset(&cs, 0, sizeof cs);
				cs.function = cur_func; cs.filename = cur_filen; cs.format = fmt;
				cs.priority = cur_prio; cs.lineno = cur_line; cs.tags = cur_tags;
				exp = model_final(t, &cs, &cur_ts, em2, &fl, &ef);
				if (!syslog_cap || strcmp(syslog_cap, exp) != 0) {
					int c = classify(t, &fl, ef, exp, syslog_cap ? syslog_cap : "");
					if (c == C_OTHER) c = C_SYSLOG;
					if (!(c == C_EXACT && (avoid & 64)))
						report(c, t, "syslog text", exp, syslog_cap, syslog_cap ? strlen(syslog_cap) : 0, em2);
				}
				if (syslog_cap && strlen(syslog_cap) > t->maxlen - 1)
					report(C_SYSLOG, t, "syslog line longer than the limit", exp, syslog_cap, strlen(syslog_cap), em2);
				free(exp); free(em2);
			}
		}
	}
	if (oldfn_set && (cur_tags & QB_LOG_TAG_LIBQB_MSG)) {
		/* old_internal_log_fn gets the message with extended info */
		n_checks++;
		if (oldfn_calls) {
			char *e = any ? model_extended(cur_expect_msg, 1) : NULL;
			if (!e || strcmp(e, oldfn_got) != 0)
				report(C_OLDFN, NULL, any ? "old log fn text" : "old log fn text (no target: nothing was formatted)",
				       e ? e : "(a prefix of the message, or no call)", oldfn_got, strlen(oldfn_got), full);
			free(e);
		}
	}
	free(full);
	free(fmt);
	free_pargs(&pa);
}

/* direct qb_log_target_format() with a synthetic call site */
static void op_direct(void)
{
	struct mtarget *t;
	struct qb_log_callsite cs;
	struct timespec ts;
	struct sb m, fn, fi;
	char *msg, *func, *file;
	do { t = &mt[rn(NTGT)]; } while (t->kind == K_BB);
	sb_init(&m); sb_init(&fn); sb_init(&fi);
	switch (rn(6)) {
	case 0: gen_text(&m, t->maxlen - 1, 0); break;			/* exactly at */
	case 1: gen_text(&m, t->maxlen - 1 - rn(t->maxlen < 12 ? (uint32_t)t->maxlen - 1 : 12), 0); break;
	case 2: gen_text(&m, t->maxlen + rn(10), chance(30)); break;
	default: gen_text(&m, pick_len(), chance(30)); break;
	}
	if (chance(15)) sb_put(&m, "\n", 1);
	if (chance(5)) sb_put(&m, "\n\n", 2);
	gen_text(&fn, chance(90) ? 1 + rn(24) : pick_len(), 0);
	gen_text(&fi, chance(90) ? 1 + rn(40) : pick_len(), 0);
	msg = exact_dup(m.p); func = exact_dup(fn.p); file = exact_dup(fi.p);
	free(m.p); free(fn.p); free(fi.p);
	memset(&cs, 0, sizeof cs);
	cs.function = func; cs.filename = file; cs.format = "unused";
	cs.priority = chance(90) ? rn(9) : rnd() & 0xff;
	cs.lineno = chance(80) ? rn(100000) : rnd();
	cs.tags = chance(60) ? 0 : (chance(50) ? 7 : rnd());
	ts.tv_sec = chance(90) ? (time_t)rn(2000000000) : (time_t)rnd() * 2;
	ts.tv_nsec = rn(1000000000);
	check_format(t, &cs, &ts, msg, "direct");
	free(msg); free(func); free(file);
}

static void set_ident(struct mtarget *t)
{
	struct sb b;
	sb_init(&b);
	gen_text(&b, chance(80) ? rn(20) : (chance(80) ? rn(300) : rn(4090)), 0);
	if (!(avoid & 16) && chance(5)) sb_put(&b, "%b", 2);
	free(t->ident);
	t->ident = exact_dup(b.p);
	free(b.p);
	n_checks++;
	if (qb_log_ctl2(t->pos, QB_LOG_CONF_IDENT, QB_LOG_CTL2_S(t->ident)) != 0)
		report(C_CTL, t, "ident refused", NULL, NULL, 0, NULL);
}

static void set_format(struct mtarget *t)
{
	char *f;
	int tries = 0;
again:
	f = chance(8) ? NULL : gen_logfmt(t->ellipsis);
	if (f && (avoid & 1) && fmt_open_end(f)) { free(f); if (++tries < 50) goto again; f = NULL; }
	if (f && (avoid & 2) && static_len(t->ident, f) >= t->maxlen - 1) { free(f); if (++tries < 50) goto again; f = NULL; }
	qb_log_format_set(t->pos, f);
	free(t->userfmt);
	t->userfmt = f;		/* keep our own exact copy alive */
	t->fmt_maxlen = t->maxlen;
	free(t->ident_at_set);
	t->ident_at_set = exact_dup(t->ident);
}

static void set_maxlen(struct mtarget *t)
{
	int32_t v, rc;
	if (chance(15)) {
		static const int32_t bad[] = { 0, 1, 2, 3, -1, -4096, 4097, 5000, 65536, INT32_MAX, INT32_MIN };
		v = bad[rn(sizeof bad / sizeof bad[0])];
		rc = qb_log_ctl(t->pos, QB_LOG_CONF_MAX_LINE_LEN, v);
		n_checks++;
		if (rc == 0) {
			report(C_CTL, t, "out of range line length accepted", NULL, NULL, 0, NULL);
			t->maxlen = v;
		}
		return;
	}
	v = pick_maxlen();
	if ((avoid & 2) && t->userfmt && static_len(t->ident_at_set, t->userfmt) >= (size_t)v - 1)
		return;
	if ((avoid & 2) && t->userfmt && v < (int32_t)t->fmt_maxlen) {
		/* fine: the format fitted when it was set */
	}
	rc = qb_log_ctl(t->pos, QB_LOG_CONF_MAX_LINE_LEN, v);
	n_checks++;
	if (rc != 0) report(C_CTL, t, "valid line length refused", NULL, NULL, 0, NULL);
	else t->maxlen = v;
}

/* serialize / deserialize round trip against vsnprintf */
static void op_serialize(void)
{
	struct pargs pa;
	char *fmt = gen_printf(&pa, 1);
	char *full;
	size_t max = chance(50) ? pick_maxlen() : 1 + rn(200);
	char *buf = malloc(max);
	size_t r;
	if ((avoid & 256) && fmt[0] && fmt[strlen(fmt) - 1] == '\a')
		fmt[strlen(fmt) - 1] = 'E';
	full = ref_printf(fmt, PA_ARGS(&pa));
	memset(buf, 0xAA, max);
	r = ser_call(buf, max, fmt, PA_ARGS(&pa));
	n_checks++;
	if (r > max) {
		report(C_SER, NULL, "serialize returned more than max_len", NULL, NULL, 0, fmt);
	} else if (r < max) {
		size_t sl = chance(50) ? QB_LOG_MAX_LEN : 1 + rn(600);
		char *str = malloc(sl);
		char *exp = exact_dup(full);
		char *x;
		size_t dr;
		memset(str, 0xAA, sl);
		dr = qb_vsnprintf_deserialize(str, sl, buf);
		(void)dr;
		/* extended marker is turned into '|' (or dropped at the end) in the
		 * stored format only */
		if ((x = strchr(fmt, '\a')) != NULL) {
			/* apply the same change to the format and re-expand */
			char *f2 = exact_dup(fmt);
			f2[x - fmt] = x[1] ? '|' : 0;
			free(exp);
			exp = ref_printf(f2, PA_ARGS(&pa));
			free(f2);
		}
		if (strlen(exp) >= sl) exp[sl - 1] = 0;
		if (!memchr(str, 0, sl))
			report(C_SER, NULL, "deserialize result unterminated", exp, str, sl, fmt);
		else if (strcmp(str, exp) != 0 && !strstr(fmt, "%p") && !strstr(fmt, "%a"))
			report(C_SER, NULL, "deserialize text", exp, str, strlen(str), fmt);
		free(str); free(exp);
	}
	free(buf); free(full); free(fmt);
	free_pargs(&pa);
}

/* ------------------------------------------------------------ session */
static void session_start(void)
{
	int i;
	int32_t p;
	qb_log_init("hunt-C13-fz", LOG_USER, LOG_TRACE);
	memset(mt, 0, sizeof mt);
	mt[0].kind = K_SYSLOG; mt[0].pos = QB_LOG_SYSLOG; mt[0].enabled = 1;
	snprintf(file_path, sizeof file_path, "/tmp/hunt-C13/fuzz-out-%d.log", getpid());
	unlink(file_path);
	p = qb_log_file_open(file_path);
	if (p < 0) { perror("file_open"); exit(2); }
	file_fd = open(file_path, O_RDWR);
	mt[1].kind = K_FILE; mt[1].pos = p;
	mt[2].kind = K_CUST1; mt[2].pos = qb_log_custom_open(cust_logger, NULL, NULL, NULL);
	mt[3].kind = K_CUST2; mt[3].pos = qb_log_custom_open(cust_logger, NULL, NULL, NULL);
	mt[4].kind = K_BB; mt[4].pos = QB_LOG_BLACKBOX;
	mt[5].kind = K_FMTONLY; mt[5].pos = QB_LOG_STDERR;	/* never enabled */
	qb_log_ctl(QB_LOG_BLACKBOX, QB_LOG_CONF_SIZE, 16384);
	for (i = 0; i < NTGT; i++) {
		mt[i].maxlen = QB_LOG_MAX_LEN;
		mt[i].fmt_maxlen = QB_LOG_MAX_LEN;
		mt[i].extended = 1;
		mt[i].ident = exact_dup("hunt-C13-fz");
		mt[i].ident_at_set = exact_dup("hunt-C13-fz");
		if (i) qb_log_filter_ctl(mt[i].pos, QB_LOG_FILTER_ADD, QB_LOG_FILTER_FILE, "*", LOG_TRACE);
		/* qb_log_init() leaves these as the previous session set them */
		qb_log_ctl(mt[i].pos, QB_LOG_CONF_ELLIPSIS, 0);
		qb_log_ctl(mt[i].pos, QB_LOG_CONF_PRIORITY_BUMP, 0);
	}
	have_tagfn = 0;
	line_counter = 0;
	qb_log_tags_stringify_fn_set(NULL);
	oldfn_set = 0;
	qb_util_set_log_function(NULL);
}

static void session_stop(void)
{
	int i;
	qb_log_fini();
	if (file_fd >= 0) close(file_fd);
	file_fd = -1;
	unlink(file_path);
	for (i = 0; i < NTGT; i++) {
		free(mt[i].ident); free(mt[i].ident_at_set); free(mt[i].userfmt);
	}
}

int main(int argc, char **argv)
{
	unsigned long iters, it;
	uint64_t seed;
	int i;
	if (argc < 3) { fprintf(stderr, "usage: %s seed iterations [avoid] [verbose]\n", argv[0]); return 2; }
	seed = strtoull(argv[1], NULL, 0);
	iters = strtoul(argv[2], NULL, 0);
	if (argc > 3) avoid = strtoul(argv[3], NULL, 0);
	if (argc > 4) verbose = atoi(argv[4]);
	rs = seed * 0x9E3779B97F4A7C15ULL + 0x1234567;
	if (!rs) rs = 1;
	setenv("TZ", "UTC", 1);
	tzset();
	gethostname(hostname_s, sizeof hostname_s);
	hostname_s[sizeof hostname_s - 1] = 0;
	snprintf(pid_s, sizeof pid_s, "%d", getpid());

	session_start();
	for (it = 0; it < iters; it++) {
		struct mtarget *t = &mt[rn(NTGT)];
		unsigned op = rn(100);
		n_ops++;
		if (verbose > 1) fprintf(stderr, "op#%lu %u kind=%d\n", n_ops, op, t->kind);
		if (op < 8) {
			set_maxlen(t);
		} else if (op < 12) {
			t->ellipsis = chance(60);
			if ((avoid & 4) && t->ellipsis && t->userfmt && strchr(t->userfmt, '\n'))
				t->ellipsis = 0;
			qb_log_ctl(t->pos, QB_LOG_CONF_ELLIPSIS, t->ellipsis);
		} else if (op < 15) {
			if (t->kind != K_BB) set_ident(t);
		} else if (op < 25) {
			set_format(t);
		} else if (op < 27) {
			t->extended = chance(50);
			qb_log_ctl(t->pos, QB_LOG_CONF_EXTENDED, t->extended);
		} else if (op < 29) {
			have_tagfn = chance(60);
			qb_log_tags_stringify_fn_set(have_tagfn ? tagfn : NULL);
		} else if (op < 33) {
			if (t->kind != K_FMTONLY) {
				int en = chance(65);
				int32_t rc = qb_log_ctl(t->pos, QB_LOG_CONF_ENABLED, en);
				if (rc == 0) {
					t->enabled = en;
					if (en && t->kind == K_FILE)	/* disabling closed the file */
						qb_log_file_reopen(t->pos, file_path);
				} else if (en) {
					fprintf(stderr, "enable kind %d failed %d\n", t->kind, rc);
				}
			}
		} else if (op < 34) {
			mt[0].bump = (int)rn(5) - 2;
			qb_log_ctl(QB_LOG_SYSLOG, QB_LOG_CONF_PRIORITY_BUMP, mt[0].bump);
		} else if (op < 35) {
			if (t->kind != K_BB && t->kind != K_FMTONLY) {
				t->threaded = chance(50);	/* thread never started: written directly */
				qb_log_ctl(t->pos, QB_LOG_CONF_THREADED, t->threaded);
			}
		} else if (op < 36) {
			oldfn_set = chance(50);
			qb_util_set_log_function(oldfn_set ? oldfn : NULL);
		} else if (op < 60) {
			op_log();
		} else if (op < 88) {
			op_direct();
		} else if (op < 99) {
			op_serialize();
		} else if (chance(20) || line_counter > 40000) {
			session_stop();
			session_start();
		}
	}
	session_stop();
	free(cur_expect_msg); free(syslog_cap); free(oldfn_got);
	printf("seed %llu: %lu ops, %lu checks, %lu mismatches\n",
	       (unsigned long long)seed, n_ops, n_checks, n_mismatch);
	for (i = 0; i < 16; i++)
		if (cls_count[i]) printf("  %-20s %lu\n", cls_name[i], cls_count[i]);
	return n_mismatch ? 1 : 0;
}
