#!/bin/sh
# usage: demo-build.sh <tree> <src.c> <out>
# compiles the tree's logging sources into the program (ASan+UBSan), rest from libqb.so
R=$1; SRC=$2; OUT=$3
exec gcc -g -O1 -fno-omit-frame-pointer -fsanitize=address,undefined -U_FORTIFY_SOURCE \
  -DHAVE_CONFIG_H -I$R/include -I$R/include/qb -I$R/lib -o "$OUT" "$SRC" \
  $R/lib/log.c $R/lib/log_format.c $R/lib/log_file.c $R/lib/log_syslog.c \
  $R/lib/log_dcs.c $R/lib/log_thread.c $R/lib/log_blackbox.c \
  $R/lib/strlcpy.c $R/lib/strlcat.c \
  -L$R/lib/.libs -lqb -lpthread
