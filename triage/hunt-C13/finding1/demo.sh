#!/bin/sh
# usage: demo.sh <tree>    exit 0 = property held, 1 = violated
T=${1:-/repo}
D=$(cd "$(dirname "$0")" && pwd)
"$D/../demo-build.sh" "$T" "$D/demo.c" "$D/demo" 2>/dev/null || { echo "build failed"; exit 2; }
export LD_LIBRARY_PATH=$T/lib/.libs ASAN_OPTIONS=detect_leaks=0
rc=0
for v in a b; do
	echo "== variant $v"
	"$D/demo" $v 2>&1 | grep -E "^line|ERROR: AddressSanitizer|^    #[0-3] |no out-of-bounds|SUMMARY" | head -12
	"$D/demo" $v >/dev/null 2>&1 || { echo "variant $v: VIOLATED"; rc=1; }
done
exit $rc
