/*
 * finding 1: a log format that ends inside a directive makes the formatters
 * walk past the end of the format string.
 *
 *   demo a : qb_log_format_set(t, "[%p] %b %")        -> qb_log_target_format_static()
 *            reads past the caller's string (the string sits directly in
 *            front of an inaccessible page: SIGSEGV / ASan report)
 *   demo b : line limit 8, qb_log_format_set(t, "%g%g%g%b"): the stored form is
 *            cut to "%g%g%g%" by the limit, and every later log line makes
 *            qb_log_target_format() read past the end of that heap copy
 *            (ASan heap-buffer-overflow).
 * exit 0 = property held.
 */
#define _GNU_SOURCE
#include <stdio.h>
#include <stdlib.h>
#include <string.h>
#include <unistd.h>
#include <sys/mman.h>
#include <qb/qblog.h>

static int lines;
static void logger(int32_t t, struct qb_log_callsite *cs, struct timespec *ts, const char *msg)
{
	char out[8];
	memset(out, 'X', sizeof out);
	qb_log_target_format(t, cs, ts, msg, out);
	printf("line: \"%.8s\"\n", out);
	lines++;
}

/* copy s so that its terminator is the last accessible byte */
static char *at_page_end(const char *s)
{
	long pg = sysconf(_SC_PAGESIZE);
	size_t n = strlen(s) + 1;
	char *m = mmap(NULL, 2 * pg, PROT_READ | PROT_WRITE, MAP_PRIVATE | MAP_ANONYMOUS, -1, 0);
	if (m == MAP_FAILED) { perror("mmap"); exit(3); }
	mprotect(m + pg, pg, PROT_NONE);
	memcpy(m + pg - n, s, n);
	return m + pg - n;
}

int main(int argc, char **argv)
{
	int32_t t;
	const char *which = argc > 1 ? argv[1] : "a";

	qb_log_init("hunt-C13-f1", LOG_USER, LOG_INFO);
	qb_log_ctl(QB_LOG_SYSLOG, QB_LOG_CONF_ENABLED, QB_FALSE);
	t = qb_log_custom_open(logger, NULL, NULL, NULL);
	qb_log_filter_ctl(t, QB_LOG_FILTER_ADD, QB_LOG_FILTER_FILE, "*", LOG_TRACE);
	qb_log_ctl(t, QB_LOG_CONF_ENABLED, QB_TRUE);

	if (which[0] == 'a') {
		qb_log_format_set(t, at_page_end("[%p] %b %"));
	} else {
		qb_log_ctl(t, QB_LOG_CONF_MAX_LINE_LEN, 8);
		qb_log_format_set(t, "%g%g%g%b");
		qb_log(LOG_INFO, "hello");
	}
	qb_log_fini();
	printf("no out-of-bounds access detected\n");
	return 0;
}
