#!/bin/sh
# usage: run.sh <seed> <iterations> [avoid-mask] [verbose]
cd "$(dirname "$0")"
R=${R:-/repo}
LD_LIBRARY_PATH=$R/lib/.libs ASAN_OPTIONS=detect_leaks=0:abort_on_error=0 UBSAN_OPTIONS=print_stacktrace=1 exec ./fuzz "$@"
