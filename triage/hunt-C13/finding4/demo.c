/*
 * finding 4: the blackbox argument walker (qb_vsnprintf_serialize) does not
 * follow printf's rules for every valid format:
 *
 *   demo a : "%hhx %s"  - the h/hh length modifiers are not recognised, the
 *            integer argument is not consumed, and "%s" then takes that
 *            integer as a char pointer  -> wild read (SIGSEGV)
 *   demo b : "%.4s" with a 4 byte array that has no terminator (valid for
 *            printf)  -> strlen()/strlcpy() run past the array
 *   demo c : both calls with only a file target: fine, vsnprintf copes.
 * exit 0 = property held.
 */
#define _GNU_SOURCE
#include <stdio.h>
#include <stdlib.h>
#include <string.h>
#include <unistd.h>
#include <sys/mman.h>
#include <qb/qblog.h>

/* n bytes directly in front of an inaccessible page */
static char *at_page_end(const char *s, size_t n)
{
	long pg = sysconf(_SC_PAGESIZE);
	char *m = mmap(NULL, 2 * pg, PROT_READ | PROT_WRITE, MAP_PRIVATE | MAP_ANONYMOUS, -1, 0);
	if (m == MAP_FAILED) { perror("mmap"); exit(3); }
	mprotect(m + pg, pg, PROT_NONE);
	memcpy(m + pg - n, s, n);
	return m + pg - n;
}

int main(int argc, char **argv)
{
	const char *which = argc > 1 ? argv[1] : "a";
	int32_t t;
	unsigned char byte = 0x41;
	char *four = at_page_end("WXYZ", 4);

	qb_log_init("hunt-C13-f4", LOG_USER, LOG_INFO);
	qb_log_ctl(QB_LOG_SYSLOG, QB_LOG_CONF_ENABLED, QB_FALSE);
	if (which[0] == 'c') {
		t = qb_log_file_open("/dev/stdout");
		qb_log_format_set(t, "file target: %b");
	} else {
		t = QB_LOG_BLACKBOX;
		qb_log_ctl(t, QB_LOG_CONF_SIZE, 4096);
	}
	qb_log_filter_ctl(t, QB_LOG_FILTER_ADD, QB_LOG_FILTER_FILE, "*", LOG_TRACE);
	if (qb_log_ctl(t, QB_LOG_CONF_ENABLED, QB_TRUE) != 0) { fprintf(stderr, "enable failed\n"); return 3; }

	if (which[0] == 'a' || which[0] == 'c')
		qb_log(LOG_INFO, "byte %hhx of %s", byte, "the header");
	if (which[0] == 'b' || which[0] == 'c')
		qb_log(LOG_INFO, "tag %.4s", four);

	qb_log_fini();
	printf("variant %s: no out-of-bounds access detected\n", which);
	return 0;
}
