/*
 * finding 8: the text substituted for %N (the ident) is interpreted as format
 * directives again when each line is formatted.
 * exit 0 = property held.
 */
#include "../common.h"
int main(void)
{
	int bad = 0;
	setup("hunt-C13-f8");
	qb_log_ctl2(tgt, QB_LOG_CONF_IDENT, QB_LOG_CTL2_S("load%b%p"));
	qb_log_format_set(tgt, "%N: %b");
	qb_log(LOG_INFO, "hello");
	bad |= expect_line("ident \"load%b%p\", format \"%N: %b\"", "load%b%p: hello");

	qb_log_ctl2(tgt, QB_LOG_CONF_IDENT, QB_LOG_CTL2_S("cpu100%"));
	qb_log_format_set(tgt, "%N %b");
	qb_log(LOG_INFO, "hello");
	bad |= expect_line("ident \"cpu100%\", format \"%N %b\"", "cpu100% hello");
	qb_log_fini();
	return bad;
}
