/*
 * finding 5: a printf format whose LAST character is the extended-information
 * marker (QB_XS, documented as "a marker with nothing after it is stripped")
 * is stored for the blackbox with its arguments one byte away from where the
 * decoder looks for them: qb_vsnprintf_serialize() computes the argument
 * offset from the original format length and then shortens the stored format
 * by one.  The decoded message is garbage.
 * exit 0 = property held.
 */
#define _GNU_SOURCE
#include <stdio.h>
#include <stdlib.h>
#include <string.h>
#include <stdarg.h>
#include "os_base.h"
#include <qb/qblog.h>
#include "log_int.h"

static size_t ser(char *buf, size_t max, const char *fmt, ...)
{
	va_list ap;
	size_t r;
	va_start(ap, fmt);
	r = qb_vsnprintf_serialize(buf, max, fmt, ap);
	va_end(ap);
	return r;
}

static int check(const char *fmt, const char *expect, int i, const char *s)
{
	char *buf = calloc(1, QB_LOG_MAX_LEN);
	char out[QB_LOG_MAX_LEN];
	size_t r = ser(buf, QB_LOG_MAX_LEN, fmt, i, s);
	qb_vsnprintf_deserialize(out, sizeof out, buf);
	printf("  stored %zu bytes, decoded \"%s\", expected \"%s\"%s\n", r, out, expect,
	       strcmp(out, expect) ? "   <-- WRONG" : "");
	free(buf);
	return strcmp(out, expect) != 0;
}

int main(void)
{
	int bad = 0;
	printf("\"count %%d name %%s|more\" (marker in the middle):\n");
	bad |= check("count %d name %s" QB_XS "more", "count 12345 name eth0|more", 12345, "eth0");
	printf("\"count %%d name %%s\" QB_XS (marker last):\n");
	bad |= check("count %d name %s" QB_XS, "count 12345 name eth0", 12345, "eth0");
	return bad;
}
