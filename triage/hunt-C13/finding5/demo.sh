#!/bin/sh
# usage: demo.sh <tree>    exit 0 = property held, non-zero = violated
T=${1:-/repo}
D=$(cd "$(dirname "$0")" && pwd)
"$D/../demo-build.sh" "$T" "$D/demo.c" "$D/demo" 2>/dev/null || { echo "build failed"; exit 2; }
export LD_LIBRARY_PATH=$T/lib/.libs ASAN_OPTIONS=detect_leaks=0
"$D/demo" 2>&1 | head -20
"$D/demo" >/dev/null 2>&1 && exit 0
echo "VIOLATED"; exit 1
