/* shared by the small text demos: a custom target that keeps the last line */
#define _GNU_SOURCE
#include <stdio.h>
#include <stdlib.h>
#include <string.h>
#include <qb/qblog.h>

static char last_line[QB_LOG_ABSOLUTE_MAX_LEN + 1];
static int32_t tgt;

static void keep_logger(int32_t t, struct qb_log_callsite *cs, struct timespec *ts, const char *msg)
{
	memset(last_line, 0, sizeof last_line);
	qb_log_target_format(t, cs, ts, msg, last_line);
}

static void setup(const char *name)
{
	qb_log_init(name, LOG_USER, LOG_INFO);
	qb_log_ctl(QB_LOG_SYSLOG, QB_LOG_CONF_ENABLED, QB_FALSE);
	tgt = qb_log_custom_open(keep_logger, NULL, NULL, NULL);
	qb_log_filter_ctl(tgt, QB_LOG_FILTER_ADD, QB_LOG_FILTER_FILE, "*", LOG_TRACE);
	qb_log_ctl(tgt, QB_LOG_CONF_ENABLED, QB_TRUE);
}

static int expect_line(const char *what, const char *expect)
{
	int bad = strcmp(last_line, expect) != 0;
	printf("%-44s got \"%s\"%s\n", what, last_line, bad ? "" : "  ok");
	if (bad) printf("%-44s exp \"%s\"   <-- WRONG\n", "", expect);
	return bad;
}
