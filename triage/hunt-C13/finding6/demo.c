/*
 * finding 6: with the ellipsis option on, a line that fits EXACTLY (nothing
 * had to be cut) still loses its last three characters to "...".
 * exit 0 = property held.
 */
#include "../common.h"
int main(void)
{
	int bad = 0;
	setup("hunt-C13-f6");
	qb_log_format_set(tgt, "%b");
	qb_log_ctl(tgt, QB_LOG_CONF_ELLIPSIS, QB_TRUE);

	qb_log_ctl(tgt, QB_LOG_CONF_MAX_LINE_LEN, 17);	/* room for 16 characters */
	qb_log(LOG_INFO, "error code=12345");			/* 16 characters */
	bad |= expect_line("limit 17, 16 character message", "error code=12345");

	qb_log_ctl(tgt, QB_LOG_CONF_MAX_LINE_LEN, 18);
	qb_log(LOG_INFO, "error code=12345");
	bad |= expect_line("limit 18, same message", "error code=12345");

	qb_log_ctl(tgt, QB_LOG_CONF_MAX_LINE_LEN, 17);
	qb_log(LOG_INFO, "error code=123456");			/* 17: really cut */
	bad |= expect_line("limit 17, 17 character message", "error code=12...");

	/* same thing when the only "extra" is the trailing newline that gets stripped */
	qb_log_format_set(tgt, "%b\n");
	qb_log(LOG_INFO, "error code=1234");			/* 15 + '\n' = 16 */
	bad |= expect_line("limit 17, 15 characters + newline", "error code=1234");
	qb_log_fini();
	return bad;
}
