/*
 * finding 2: ellipsis on + a literal '\n' in the format that lands on the
 * last column of the line  ->  the formatted line has no terminator.
 *
 *   demo a : custom target, limit 8, format "abcdef\n"; the logger hands
 *            qb_log_target_format() an 8 byte buffer filled with 'X' and
 *            looks for the NUL inside those 8 bytes.
 *   demo b : the file target (lib/log_file.c) with the same settings: the
 *            line written to the file runs on into whatever the stack buffer
 *            held (here: the previous, longer, log line).
 * exit 0 = property held.
 */
#define _GNU_SOURCE
#include <stdio.h>
#include <stdlib.h>
#include <string.h>
#include <unistd.h>
#include <qb/qblog.h>

#define LIMIT 8
static int bad;

static void logger(int32_t t, struct qb_log_callsite *cs, struct timespec *ts, const char *msg)
{
	char out[LIMIT];
	memset(out, 'X', sizeof out);
	qb_log_target_format(t, cs, ts, msg, out);
	if (memchr(out, 0, sizeof out) == NULL) {
		printf("limit %d: no NUL in the %d byte buffer: \"%.*s\"\n", LIMIT, LIMIT, LIMIT, out);
		bad = 1;
	} else {
		printf("limit %d: line \"%s\"\n", LIMIT, out);
	}
}

int main(int argc, char **argv)
{
	int32_t t;
	const char *which = argc > 1 ? argv[1] : "a";

	qb_log_init("hunt-C13-f2", LOG_USER, LOG_INFO);
	qb_log_ctl(QB_LOG_SYSLOG, QB_LOG_CONF_ENABLED, QB_FALSE);
	if (which[0] == 'a') {
		t = qb_log_custom_open(logger, NULL, NULL, NULL);
	} else {
		t = qb_log_file_open(argv[2]);
	}
	if (t < 0) { fprintf(stderr, "open failed %d\n", t); return 3; }
	qb_log_filter_ctl(t, QB_LOG_FILTER_ADD, QB_LOG_FILTER_FILE, "*", LOG_TRACE);
	qb_log_ctl(t, QB_LOG_CONF_ENABLED, QB_TRUE);

	if (which[0] == 'b') {
		/* an ordinary line first; it stays behind in the stack buffer */
		qb_log_format_set(t, "%b");
		qb_log(LOG_INFO, "0123456789 the previous message, SECRET=42");
	}
	qb_log_ctl(t, QB_LOG_CONF_MAX_LINE_LEN, LIMIT);
	qb_log_ctl(t, QB_LOG_CONF_ELLIPSIS, QB_TRUE);
	qb_log_format_set(t, "abcdef\n");
	qb_log(LOG_INFO, "hello");

	if (which[0] == 'b') {
		char line[1024];
		FILE *f = fopen(argv[2], "r");
		if (!fgets(line, sizeof line, f)) return 3;	/* first message */
		if (!fgets(line, sizeof line, f)) return 3;
		line[strcspn(line, "\n")] = 0;
		printf("limit %d: file line is %zu characters: \"%s\"\n", LIMIT, strlen(line), line);
		if (strlen(line) > LIMIT - 1) bad = 1;
		fclose(f);
	}
	qb_log_fini();
	return bad;
}
