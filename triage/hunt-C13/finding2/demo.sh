#!/bin/sh
# usage: demo.sh <tree>    exit 0 = property held, 1 = violated
T=${1:-/repo}
D=$(cd "$(dirname "$0")" && pwd)
"$D/../demo-build.sh" "$T" "$D/demo.c" "$D/demo" 2>/dev/null || { echo "build failed"; exit 2; }
export LD_LIBRARY_PATH=$T/lib/.libs ASAN_OPTIONS=detect_leaks=0
rc=0
echo "== variant a (custom target, qb_log_target_format into an 8 byte buffer)"
"$D/demo" a 2>&1 | grep -E "^limit|ERROR: AddressSanitizer|SUMMARY" | head
"$D/demo" a >/dev/null 2>&1 || { echo "variant a: VIOLATED"; rc=1; }
echo "== variant b (file target)"
F="$D/demo-out.log"; rm -f "$F"
"$D/demo" b "$F" 2>&1 | grep -E "^limit|ERROR: AddressSanitizer|SUMMARY" | head
rm -f "$F"
"$D/demo" b "$F" >/dev/null 2>&1 || { echo "variant b: VIOLATED"; rc=1; }
rm -f "$F"
exit $rc
