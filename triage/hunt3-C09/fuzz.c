/*
 * C09 model-based tester: timers never fire early, loop never sleeps past
 * the next expiry.
 *
 * Time is virtual: the library sources are compiled with
 *   -Dclock_gettime=my_clock_gettime -Dclock_getres=my_clock_getres
 *   -Depoll_wait=my_epoll_wait
 * so every clock read and every sleep of the loop goes through this file.
 * loop_timerlist.c is #included so the heap can be validated.
 */
#include "os_base.h"
#include <sys/epoll.h>
#include <qb/qbdefs.h>
#include <qb/qbloop.h>
#include <qb/qbutil.h>

#include "loop_timerlist.c"

#undef clock_gettime
#undef clock_getres
#undef epoll_wait

/* ---------------- rng ---------------- */
static uint64_t rs;
static uint64_t rnd(void)
{
	rs ^= rs << 13; rs ^= rs >> 7; rs ^= rs << 17;
	return rs;
}
static uint64_t rn(uint64_t n) { return n ? rnd() % n : 0; }

/* ---------------- parameters ---------------- */
static long P_ops = 200000;
static int P_maxlive = 64;
static int P_profile = 0;	/* duration profile */
static uint64_t P_res_ns = 1;	/* clock resolution reported */
static int P_verbose = 0;
static int P_stepmode = 0;

/* ---------------- virtual clock ---------------- */
static uint64_t vnow = 5000000000ULL;	/* ns */
static uint64_t last_mono;
static uint64_t mono_reads;
static int64_t real_off = 1700000000LL * 1000000000LL;

static void model_expire_threshold(uint64_t T);

int my_clock_gettime(clockid_t id, struct timespec *ts);
int my_clock_getres(clockid_t id, struct timespec *ts);
int my_epoll_wait(int epfd, struct epoll_event *ev, int maxev, int timeout);

int my_clock_gettime(clockid_t id, struct timespec *ts)
{
	uint64_t v;
	if (id == CLOCK_MONOTONIC) {
		uint64_t r = rn(4), step;
		if (P_stepmode == 1) {
			step = 0;
			if (rn(50) == 0) step = 1 + rn(3);
		} else if (r == 0) step = 0;
		else if (r < 3) step = 1 + rn(2000);
		else step = 1 + rn(200000);
		vnow += step;
		last_mono = vnow;
		mono_reads++;
		v = vnow;
	} else {
		/* only timerlist_expire() reads the wall clock, right after
		 * the monotonic read that is its expiry threshold */
		model_expire_threshold(last_mono);
		v = vnow + real_off;
	}
	ts->tv_sec = v / 1000000000ULL;
	ts->tv_nsec = v % 1000000000ULL;
	return 0;
}

int my_clock_getres(clockid_t id, struct timespec *ts)
{
	ts->tv_sec = P_res_ns / 1000000000ULL;
	ts->tv_nsec = P_res_ns % 1000000000ULL;
	return 0;
}

/* ---------------- model ---------------- */
enum { M_FREE, M_PENDING, M_QUEUED, M_DISPATCHED, M_DELETED };
struct mt {
	uint64_t h;
	uint64_t expiry;
	uint64_t dur;
	uint64_t add_time;
	int prio;
	int state;
};
static struct mt *T;
static long nT, capT;
static long *live;		/* ids pending or queued */
static long nlive;
static long npending, nqueued;
static long jobs_out;
static long ops_done;
static long violations;
static qb_loop_t *L;
static int pipefd[2];
static int pipe_bytes;
static uint64_t last_disp_expiry[3];
static int budget_over;
static long n_disp, n_del, n_add, n_sleep, n_eintr, n_fdev, n_query, n_runs, n_never_sleep, n_clamped_sleep;
static uint64_t max_late;
static uint64_t run_start;

#define VIOL(...) do { violations++; printf("VIOLATION: " __VA_ARGS__); printf("\n"); fflush(stdout); if (violations > 20) { printf("too many violations\n"); exit(1);} } while (0)

static void live_remove(long id)
{
	long i;
	for (i = 0; i < nlive; i++) {
		if (live[i] == id) {
			live[i] = live[--nlive];
			return;
		}
	}
	abort();
}

static void model_expire_threshold(uint64_t Tm)
{
	long i;
	for (i = 0; i < nlive; i++) {
		struct mt *m = &T[live[i]];
		if (m->state == M_PENDING && m->expiry < Tm) {
			m->state = M_QUEUED;
			npending--;
			nqueued++;
		}
	}
}

static struct timerlist *the_tl(void)
{
	struct qb_timer_source *ts = (struct qb_timer_source *)L->timer_source;
	return &ts->timerlist;
}

static void check_heap(const char *where)
{
	struct timerlist *tl = the_tl();
	size_t i;
	if ((long)tl->size != npending) {
		VIOL("heap size %zu != model pending %ld after %s", tl->size, npending, where);
	}
	if (nlive > 1000 && rn(nlive / 200) != 0) return;
	if (!timerlist_debug_is_valid_heap(tl)) {
		VIOL("heap invalid after %s", where);
	}
	if ((long)tl->size != npending) {
		VIOL("heap size %zu != model pending %ld after %s", tl->size, npending, where);
	}
	if (nlive <= 256 || rn(64) == 0) {
		for (i = 0; i < tl->size; i++) {
			if (tl->heap_entries[i]->heap_pos != i) {
				VIOL("heap_pos wrong at %zu after %s", i, where);
			}
		}
	}
}

static uint64_t model_min_expiry(int *have)
{
	long i;
	uint64_t e = UINT64_MAX;
	*have = 0;
	for (i = 0; i < nlive; i++) {
		struct mt *m = &T[live[i]];
		if (m->state == M_PENDING) {
			*have = 1;
			if (m->expiry < e) e = m->expiry;
		}
	}
	return e;
}

/* ---------------- durations ---------------- */
static uint64_t pick_duration(void)
{
	int prof = P_profile;
	uint64_t r;
	if (prof == 3) prof = rn(3);
	switch (prof) {
	case 0: /* small */
		r = rn(10);
		if (r == 0) return 0;
		if (r == 1) return rn(1000);
		if (r == 2) return rn(1000000);
		if (r < 6) return rn(20) * 1000000ULL + rn(1000000);
		if (r < 8) return 40000000ULL + rn(20000000);
		return rn(2000) * 1000000ULL;
	case 1: /* mixed incl. seconds..days */
		r = rn(8);
		if (r == 0) return 0;
		if (r == 1) return rn(1000000);
		if (r == 2) return rn(100) * 1000000ULL;
		if (r == 3) return rn(100) * 1000000000ULL;
		if (r == 4) return rn(30) * 86400ULL * 1000000000ULL;
		if (r == 5) return 1000000ULL << rn(20);
		return rn(5000) * 1000000ULL;
	default: /* boundaries */
		r = rn(14);
		if (r == 0) return UINT64_MAX;
		if (r == 1) return UINT64_MAX - rn(1000);
		if (r == 2) return UINT64_MAX - vnow + rn(2000000) - 1000000 - (rn(2) ? (1ULL << 57) : 0);
		if (r == 3) return (uint64_t)INT32_MAX * 1000000ULL + rn(4000000) - 2000000;
		if (r == 4) return (uint64_t)UINT32_MAX * 1000000ULL + rn(4000000) - 2000000;
		if (r == 5) return (1ULL << 63) + rn(1000) - 500;
		if (r == 6) return (1ULL << (31 + rn(33))) + rn(3) - 1;
		if (r == 7) return ((uint64_t)INT32_MAX + 1 + rn(3)) * 1000000ULL;
		if (r == 8) return (1ULL << 32) * 1000ULL * 1000000ULL + rn(100);	/* 2^32 s */
		if (r == 9) return rnd();
		if (r == 10) return rnd() >> rn(64);
		if (r == 11) return 0;
		return rn(100) * 1000000ULL;
	}
}

/* ---------------- operations ---------------- */
static void timer_cb(void *data);
static void job_cb(void *data);
static void do_ops(int depth);

static void op_add(void)
{
	struct mt *m;
	uint64_t d, before_reads, e;
	qb_loop_timer_handle h = 0;
	int32_t rc;
	int p;

	if (nlive >= P_maxlive) return;
	if (nT == capT) {
		capT = capT ? capT * 2 : 1024;
		T = realloc(T, capT * sizeof(*T));
	}
	d = pick_duration();
	p = rn(3);
	before_reads = mono_reads;
	rc = qb_loop_timer_add(L, p, d, (void *)(intptr_t)nT, timer_cb, &h);
	if (rc != 0 && nlive >= 65535) {
		static int said;
		if (!said++) printf("note: timer_add refused with rc=%d at nlive=%ld\n", rc, nlive);
		check_heap("refused add");
		return;
	}
	if (rc != 0) {
		VIOL("timer_add(d=%" PRIu64 ") failed rc=%d nlive=%ld", d, rc, nlive);
		return;
	}
	if (mono_reads != before_reads + 1) {
		VIOL("timer_add read the clock %" PRIu64 " times", mono_reads - before_reads);
	}
	m = &T[nT];
	m->h = h;
	m->dur = d;
	m->add_time = last_mono;
	m->expiry = (d > UINT64_MAX - last_mono) ? UINT64_MAX : last_mono + d;
	m->prio = p;
	m->state = M_PENDING;
	live[nlive++] = nT;
	npending++;
	nT++;
	n_add++;
	e = qb_loop_timer_expire_time_get(L, h);
	if (e != m->expiry) {
		VIOL("expire_time_get after add: %" PRIu64 " model %" PRIu64 " (d=%" PRIu64 ")", e, m->expiry, d);
	}
	if (h == 0) VIOL("handle 0");
	check_heap("add");
}

static long pick_id(void)
{
	if (nT == 0) return -1;
	if (nlive && rn(4)) return live[rn(nlive)];
	if (rn(2)) return nT - 1 - rn(nT < 50 ? nT : 50);
	return rn(nT);
}

static void op_del(void)
{
	long id = pick_id();
	struct mt *m;
	int32_t rc;
	if (id < 0) return;
	m = &T[id];
	rc = qb_loop_timer_del(L, m->h);
	if (m->state == M_PENDING || m->state == M_QUEUED) {
		if (rc != 0) {
			VIOL("del of live timer id=%ld state=%d rc=%d", id, m->state, rc);
			return;
		}
		if (m->state == M_PENDING) npending--; else nqueued--;
		m->state = M_DELETED;
		live_remove(id);
		n_del++;
	} else {
		if (rc == 0) {
			/* a stale handle must not delete somebody else */
			VIOL("del of dead timer id=%ld state=%d returned 0", id, m->state);
		}
	}
	check_heap("del");
}

static void op_query(void)
{
	long id = pick_id();
	struct mt *m;
	uint64_t e, rem, exp_rem, reads;
	int32_t run;
	if (id < 0) return;
	m = &T[id];
	n_query++;
	run = qb_loop_timer_is_running(L, m->h);
	e = qb_loop_timer_expire_time_get(L, m->h);
	reads = mono_reads;
	rem = qb_loop_timer_expire_time_remaining(L, m->h);
	if (m->state == M_PENDING) {
		if (!run) VIOL("is_running=0 for pending id=%ld", id);
		if (e != m->expiry) VIOL("expire_time_get %" PRIu64 " != %" PRIu64, e, m->expiry);
		if (mono_reads != reads + 1) VIOL("remaining read clock %" PRIu64 " times", mono_reads - reads);
		exp_rem = m->expiry < last_mono ? 0 : m->expiry - last_mono;
		if (rem != exp_rem) VIOL("remaining %" PRIu64 " != %" PRIu64 " id=%ld", rem, exp_rem, id);
	} else {
		if (run) VIOL("is_running=1 for id=%ld state=%d", id, m->state);
		if (e) VIOL("expire_time_get=%" PRIu64 " for id=%ld state=%d", e, id, m->state);
		if (rem) VIOL("remaining=%" PRIu64 " for id=%ld state=%d", rem, id, m->state);
	}
}

static void op_job(void)
{
	if (jobs_out > 20) return;
	if (qb_loop_job_add(L, rn(3), NULL, job_cb) == 0) jobs_out++;
}

static void do_ops(int from)
{
	int n, i;
	if (budget_over) return;
	n = rn(4);
	if (nlive < 2 && rn(2)) n += 2;
	for (i = 0; i < n; i++) {
		uint64_t r = rn(100);
		ops_done++;
		if (r < 40) op_add();
		else if (r < 60) op_del();
		else if (r < 85) op_query();
		else if (r < 97) op_job();
		else if (from != 0) qb_loop_stop(L);
	}
	if (ops_done >= P_ops) budget_over = 1;
}

static void job_cb(void *data)
{
	jobs_out--;
	do_ops(1);
}

static int32_t fd_cb(int32_t fd, int32_t revents, void *data)
{
	char c;
	if (read(fd, &c, 1) == 1) pipe_bytes--;
	do_ops(2);
	return 0;
}

static void timer_cb(void *data)
{
	long id = (long)(intptr_t)data;
	struct mt *m = &T[id];
	uint64_t now = vnow;

	n_disp++;
	if (m->state == M_PENDING) {
		VIOL("timer id=%ld dispatched while model says not expired: expiry=%" PRIu64 " now=%" PRIu64 " dur=%" PRIu64,
		     id, m->expiry, now, m->dur);
		npending--;
	} else if (m->state == M_QUEUED) {
		nqueued--;
	} else {
		VIOL("timer id=%ld dispatched in state %d", id, m->state);
		return;
	}
	if (now <= m->expiry || now - m->add_time < m->dur) {
		VIOL("EARLY: id=%ld now=%" PRIu64 " expiry=%" PRIu64, id, now, m->expiry);
	}
	if (m->expiry < last_disp_expiry[m->prio]) {
		VIOL("ORDER: id=%ld prio=%d expiry=%" PRIu64 " after one with %" PRIu64, id, m->prio, m->expiry, last_disp_expiry[m->prio]);
	}
	last_disp_expiry[m->prio] = m->expiry;
	{
		uint64_t base = m->expiry > run_start ? m->expiry : run_start;
		uint64_t late = now > base ? now - base : 0;
		if (late > max_late) max_late = late;
		if (late > 50000000ULL + P_res_ns + 1000000ULL + 5000000ULL) {
			VIOL("LATE: id=%ld late by %" PRIu64 " ns", id, late);
		}
	}
	m->state = M_DISPATCHED;
	live_remove(id);
	/* inside its own callback the handle is dead */
	if (qb_loop_timer_is_running(L, m->h)) VIOL("is_running in own callback");
	do_ops(3);
}

/* ---------------- the sleep hook ---------------- */
int my_epoll_wait(int epfd, struct epoll_event *ev, int maxev, int timeout)
{
	int rc, have;
	uint64_t E, W, tick, chunk;

	rc = epoll_wait(epfd, ev, maxev, 0);
	if (rc != 0 || timeout == 0) return rc;

	check_heap("sleep");
	n_sleep++;
	tick = (1000 / (1000000000ULL / P_res_ns)) * 1000000ULL;
	if (nqueued > 0) {
		VIOL("SLEEP(%d ms) with %ld expired-but-undispatched timers", timeout, nqueued);
	}
	E = model_min_expiry(&have);
	if (have) {
		if (timeout < 0) {
			VIOL("SLEEP forever with a timer pending (expiry %" PRIu64 " now %" PRIu64 ")", E, vnow);
		} else {
			W = vnow + (uint64_t)timeout * 1000000ULL;
			if (W > E && W - E > tick) {
				if (timeout == 50 && jobs_out > 0) {
					/* allowed job throttle */
				} else {
					VIOL("OVERSLEEP: timeout=%d now=%" PRIu64 " earliest=%" PRIu64 " over by %" PRIu64 " ns (tick %" PRIu64 ")",
					     timeout, vnow, E, W - E, tick);
				}
			}
			if (timeout == INT32_MAX) n_clamped_sleep++;
		}
	} else if (timeout >= 0 && !(timeout == 50 && jobs_out > 0)) {
		VIOL("finite sleep %d with no timer pending?", timeout);
	}

	/* the virtual clock must not wrap round 2^64 ns (584 years of uptime) */
	if (vnow > (UINT64_MAX - (1ULL << 56))) budget_over = 1;
	if (budget_over) {
		qb_loop_stop(L);
		return 0;
	}
	if (timeout < 0) {
		n_never_sleep++;
		if (rn(3) == 0) {
			qb_loop_stop(L);
			return 0;
		}
		vnow += rn(100000000ULL);
		if (write(pipefd[1], "x", 1) == 1) pipe_bytes++;
		n_fdev++;
		return epoll_wait(epfd, ev, maxev, 0);
	}
	chunk = (uint64_t)timeout * 1000000ULL;
	switch (rn(8)) {
	case 0: /* a descriptor becomes ready part way */
		vnow += rn(chunk + 1);
		if (write(pipefd[1], "x", 1) == 1) pipe_bytes++;
		n_fdev++;
		return epoll_wait(epfd, ev, maxev, 0);
	case 1: /* interrupted */
		vnow += rn(chunk + 1);
		n_eintr++;
		errno = EINTR;
		return -1;
	default:
		vnow += chunk + rn(50000);
		errno = 0;
		return 0;
	}
}

/* ---------------- main ---------------- */
static void outside_ops(void)
{
	int i, n = rn(6);
	for (i = 0; i < n; i++) {
		uint64_t r = rn(100);
		if (r < 50) op_add();
		else if (r < 70) op_del();
		else if (r < 90) op_query();
		else op_job();
	}
	if (rn(4) == 0) vnow += rn(3000000000ULL);
}

int main(int argc, char **argv)
{
	uint64_t seed = argc > 1 ? strtoull(argv[1], NULL, 0) : 1;
	long i;
	if (argc > 2) P_ops = atol(argv[2]);
	if (argc > 3) P_maxlive = atoi(argv[3]);
	if (argc > 4) P_profile = atoi(argv[4]);
	if (argc > 5) P_res_ns = strtoull(argv[5], NULL, 0);
	if (argc > 6) P_stepmode = atoi(argv[6]);
	rs = seed * 0x9E3779B97F4A7C15ULL + 12345;
	if (!rs) rs = 1;
	live = calloc(P_maxlive + 8, sizeof(long));

	L = qb_loop_create();
	assert(L);
	assert(pipe(pipefd) == 0);
	fcntl(pipefd[0], F_SETFL, O_NONBLOCK);
	fcntl(pipefd[1], F_SETFL, O_NONBLOCK);
	assert(qb_loop_poll_add(L, QB_LOOP_MED, pipefd[0], POLLIN, NULL, fd_cb) == 0);

	if (getenv("FILL")) {
		long want = atol(getenv("FILL"));
		while (nlive < want && nlive < P_maxlive) op_add();
		printf("filled %ld\n", nlive); fflush(stdout);
		op_add(); op_add();
	}
	while (!budget_over) {
		outside_ops();
		n_runs++;
		run_start = vnow;
		qb_loop_run(L);
	}
	/* drain: delete everything left, make sure nothing else fires */
	for (i = nlive - 1; i >= 0; i--) {
		struct mt *m = &T[live[i]];
		int32_t rc = qb_loop_timer_del(L, m->h);
		if (rc) VIOL("final del rc=%d", rc);
		if (m->state == M_PENDING) npending--; else nqueued--;
		m->state = M_DELETED;
	}
	nlive = 0;
	check_heap("final");
	qb_loop_destroy(L);
	printf("seed=%" PRIu64 " ops=%ld add=%ld del=%ld disp=%ld query=%ld sleeps=%ld (forever %ld, clamped %ld) eintr=%ld fdev=%ld runs=%ld max_late=%" PRIu64 "ns vnow=%" PRIu64 " violations=%ld\n",
	       seed, ops_done, n_add, n_del, n_disp, n_query, n_sleep, n_never_sleep, n_clamped_sleep, n_eintr, n_fdev, n_runs, max_late, vnow, violations);
	return violations ? 1 : 0;
}
