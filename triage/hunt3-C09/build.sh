#!/bin/sh
# usage: build.sh [tree]   (default /repo)
set -e
T=${1:-/repo}
cd "$(dirname "$0")"
CF="-g -O1 -fsanitize=address,undefined -fno-omit-frame-pointer -DHAVE_CONFIG_H -I$T/include -I$T/include/qb -I$T/lib -w"
REN="-Dclock_gettime=my_clock_gettime -Dclock_getres=my_clock_getres -Depoll_wait=my_epoll_wait"
mkdir -p obj
for f in loop loop_job loop_poll loop_poll_epoll util; do
  gcc $CF $REN -c $T/lib/$f.c -o obj/$f.o
done
gcc $CF -c fuzz.c -o obj/fuzz.o
gcc $CF obj/*.o -o fuzz -L$T/lib/.libs -lqb -lpthread
