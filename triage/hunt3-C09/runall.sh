#!/bin/sh
cd /tmp/hunt3-C09
export ASAN_OPTIONS=detect_leaks=0 LD_LIBRARY_PATH=/repo/lib/.libs
for s in 1 2 3 4 5 6; do
 for prof in 0 1 2 3; do
  for res in 1 1000000 4000000 10000000; do
   for ml in 1 2 5 40 700; do
     timeout 600 ./fuzz $((s*10000+prof*1000+ml)) 40000 $ml $prof $res 0 2>&1 | tail -4
   done
  done
 done
 for ml in 2 30; do timeout 600 ./fuzz $((s*77+ml)) 40000 $ml 0 1 1 2>&1 | tail -4; done
done
