#!/usr/bin/env python3
"""Craft the damaged blackbox dumps used to triage C15 (D11). Usage:
   mkfiles.py <good.fdata> <outdir>
   good.fdata is produced by `replay_logthread_signal_blackbox mkbb <path>`."""
import struct, sys, os
good, out = sys.argv[1], sys.argv[2]
d = open(good, 'rb').read()
ws, wp, rp, ver, h = struct.unpack('<5I', d[20:40])
# D11c: new-format marker block + word_size=1 + 2 stray bytes -> assert(n_read == 4)
open(os.path.join(out, 'assert.fdata'), 'wb').write(d[:20] + struct.pack('<I', 1) + b'\x00\x00')
# D11a: read_pt = 3*word_size (beyond the 2*word_size words that are mapped), hash recomputed
data = bytearray(d[40:]); new_rp = ws * 3; idx = (new_rp + 1) % ws
data[idx*4:idx*4+4] = struct.pack('<I', 0xA1A1A1A1)
hh = (ws + wp + new_rp + ver) & 0xffffffff
open(os.path.join(out, 'badrp.fdata'), 'wb').write(d[:20] + struct.pack('<5I', ws, wp, new_rp, ver, hh) + bytes(data))
# D11b: one 1024-byte record whose function-name length runs to the end of the record
data = bytearray(d[40:]); p = rp*4 + 8; n = 1024
payload = bytearray(b'A' * n)
payload[0:4] = struct.pack('<I', 1); payload[4:8] = struct.pack('<I', 0); payload[8] = 6
payload[9:13] = struct.pack('<I', n - 27)
data[rp*4:rp*4+4] = struct.pack('<I', n); data[p:p+n] = payload
open(os.path.join(out, 'oob.fdata'), 'wb').write(d[:40] + bytes(data))
