/*
 * Model-based randomized tester for property C07 (libqb ring buffer:
 * capacity contract + loss-free sequential FIFO).
 *
 * usage: fuzz <seed> <rounds> <ops-per-round> [maxS] [fixedS]
 */
#include <stdio.h>
#include <stdlib.h>
#include <string.h>
#include <stdint.h>
#include <errno.h>
#include <unistd.h>
#include <qb/qbdefs.h>
#include <qb/qbrb.h>
#include "ringbuffer_int.h"

#define OVERHEAD 16

static uint64_t rng_s;
static uint64_t rnd(void)
{
	rng_s ^= rng_s << 13; rng_s ^= rng_s >> 7; rng_s ^= rng_s << 17;
	return rng_s;
}
static uint64_t rndn(uint64_t n) { return n ? rnd() % n : 0; }

struct mchunk { uint8_t *data; size_t len; };
#define MAXQ 100000
static struct mchunk q[MAXQ];
static size_t qh, qt;            /* head index, tail index (no wrap; reset per round) */
static size_t q_cost;            /* sum (len+16) of unread */
static size_t q_words;           /* overwrite mode: words the unread chunks take (2 + ceil(len/4) each) */
static int ow;                   /* overwrite mode */
static size_t W;
#define NW(len) (2 + ((len) + 3) / 4)
static void pop_model(void);

static unsigned long n_ops, n_acc, n_ref, n_reads, n_peeks, n_recl, n_small, n_allocs, n_full;
static int verbose;
static unsigned long long round_no;
static size_t S;
static size_t CM; /* chunk_max of the current ring */
static uint32_t flags;

#define FAIL(...) do { fprintf(stderr, "VIOLATION (seed-round %llu S=%zu flags=0x%x op#%lu): ", round_no, S, flags, n_ops); \
	fprintf(stderr, __VA_ARGS__); fprintf(stderr, "\n"); exit(1); } while (0)
#define LOG(...) do { if (verbose) { printf(__VA_ARGS__); printf("\n"); } } while (0)

static const uint32_t specials[] = {
	0xA1A1A1A1, 0xD0D0D0D0, 0xA110CED0, 0, 1, 4, 5, 8, 12, 16, 0xffffffff, 0x7fffffff, 4096, 1024
};

static void fill(uint8_t *p, size_t len)
{
	int mode = rndn(4);
	size_t i;
	for (i = 0; i < len; i++) p[i] = (uint8_t)rnd();
	if (mode == 0) return;
	/* sprinkle (or fill with) special words, at every byte alignment */
	if (mode == 1) {
		uint32_t w = specials[rndn(3)];
		size_t off = rndn(4);
		for (i = off; i + 4 <= len; i += 4) memcpy(p + i, &w, 4);
	} else {
		size_t k, n = rndn(len / 4 + 2);
		for (k = 0; k < n && len >= 4; k++) {
			uint32_t w = specials[rndn(sizeof(specials) / sizeof(specials[0]))];
			if (rndn(8) == 0) w = (uint32_t)rndn(len + 20);
			size_t off = rndn(len - 3);
			if (rndn(3)) off &= ~(size_t)3;
			memcpy(p + off, &w, 4);
		}
	}
}

static size_t pick_len(void)
{
	size_t room = (S > q_cost + OVERHEAD) ? S - q_cost - OVERHEAD : 0;
	if (ow && rndn(3)) return rndn(2) ? rndn(CM / 4 + 1) : rndn(CM / 16 + 1);
	switch (rndn(12)) {
	case 10: return CM - rndn(QB_MIN(CM + 1, 10));          /* fills the ring to the last word */
	case 11: return CM + 1 + rndn(4);
	case 0: return rndn(20);
	case 1: return S - rndn(QB_MIN(S + 1, 8));             /* near S */
	case 2: return room - rndn(QB_MIN(room + 1, 8));        /* just fits by the promise */
	case 3: return room + 1 + rndn(40);                     /* just beyond the promise */
	case 4: return rndn(S + 1);
	case 5: return rndn(S / 2 + 1);
	case 6: return rndn(S / 8 + 1);
	case 7: return S + 1 + rndn(8192);                      /* beyond S */
	case 8: return rndn(64);
	default: return rndn(room + 1);
	}
}

static void snapshot(qb_ringbuffer_t *rb, uint32_t *w, uint32_t *r, ssize_t *fr, ssize_t *cu)
{
	*w = rb->shared_hdr->write_pt;
	*r = rb->shared_hdr->read_pt;
	*fr = qb_rb_space_free(rb);
	*cu = qb_rb_chunks_used(rb);
}

static void check_head_unchanged(qb_ringbuffer_t *rb, const char *what)
{
	/* the unread chunk at the head must still be intact (peek) */
	void *p = NULL;
	ssize_t r;
	if (qh == qt) return;
	r = qb_rb_chunk_peek(rb, &p, 0);
	if (r != (ssize_t)q[qh].len) FAIL("%s: peek of head returned %zd, expected %zu", what, r, q[qh].len);
	if (q[qh].len && memcmp(p, q[qh].data, q[qh].len)) FAIL("%s: head chunk payload changed", what);
}

static void do_write(qb_ringbuffer_t *rb, qb_ringbuffer_t *wrb)
{
	size_t len = pick_len();
	int must_accept = ow ? (len <= CM) : ((q_cost + len + OVERHEAD <= S) || (qh == qt && len <= S));
	uint8_t *buf = malloc(len ? len : 1);
	uint32_t w0, r0, w1, r1; ssize_t f0, f1, c0, c1;
	int how = rndn(4);
	ssize_t res;
	int accepted;

	fill(buf, len);
	snapshot(rb, &w0, &r0, &f0, &c0);
	if (how == 0) {
		res = qb_rb_chunk_write(wrb, buf, len);
		if (res >= 0 && (size_t)res != len) FAIL("chunk_write(%zu) returned %zd", len, res);
		if (res < 0 && res != (ow ? -EINVAL : -EAGAIN)) FAIL("chunk_write(%zu) refused with %zd", len, res);
		accepted = res >= 0;
		if (ow && accepted) while (qh != qt && (W - q_words - 1) * 4 < len + 12) pop_model();
	} else {
		/* alloc (possibly bigger), fill, commit len */
		size_t alen = len;
		void *p;
		if (how == 2) {
			size_t room = (S > q_cost + OVERHEAD) ? S - q_cost - OVERHEAD : 0;
			if (qh == qt) room = S;
			if (room > len) alen = len + rndn(room - len + 1);
		}
		errno = 0;
		p = qb_rb_chunk_alloc(wrb, alen);
		n_allocs++;
		if (p == NULL) {
			if (errno != (ow ? EINVAL : EAGAIN)) FAIL("chunk_alloc(%zu) refused with errno %d", alen, errno);
			if (ow && alen <= CM) FAIL("overwrite: chunk_alloc(%zu) refused", alen);
			accepted = 0;
			if (!ow && ((q_cost + alen + OVERHEAD <= S) || (qh == qt && alen <= S))) {
				FAIL("chunk_alloc(%zu) refused although promised: unread cost %zu", alen, q_cost);
			}
		} else {
			if (ow) {
				while (qh != qt && (W - q_words - 1) * 4 < alen + 12) pop_model();
				w0 = rb->shared_hdr->write_pt; r0 = rb->shared_hdr->read_pt; f0 = qb_rb_space_free(rb); c0 = qb_rb_chunks_used(rb);
			}
			if (how == 2 && alen > len) {
				/* scribble the whole allocation with marker words first */
				uint8_t *tmp = malloc(alen);
				fill(tmp, alen);
				memcpy(p, tmp, alen);
				free(tmp);
			}
			if (how == 3 && rndn(3) == 0) {
				/* abandon this allocation (no commit), state must be unchanged */
				memcpy(p, buf, len);
				snapshot(rb, &w1, &r1, &f1, &c1);
				if (w0 != w1 || r0 != r1 || f0 != f1 || c0 != c1) FAIL("alloc without commit changed state");
				check_head_unchanged(rb, "abandoned alloc");
				free(buf);
				LOG("alloc %zu abandoned", len);
				return;
			}
			memcpy(p, buf, len);
			res = qb_rb_chunk_commit(wrb, len);
			if (res != 0) FAIL("commit(%zu) returned %zd", len, res);
			accepted = 1;
		}
	}
	LOG("write how=%d len=%zu -> %s (unread cost %zu, must=%d)", how, len, accepted ? "ok" : "refused", q_cost, must_accept);
	if (!accepted) {
		n_ref++;
		if (must_accept) FAIL("write of %zu refused although promised: unread=%zu chunks cost %zu", len, qt - qh, q_cost);
		snapshot(rb, &w1, &r1, &f1, &c1);
		if (w0 != w1 || r0 != r1 || f0 != f1 || c0 != c1) FAIL("refused write changed state (w %u->%u r %u->%u free %zd->%zd chunks %zd->%zd)", w0, w1, r0, r1, f0, f1, c0, c1);
		check_head_unchanged(rb, "refused write");
		free(buf);
		return;
	}
	n_acc++;
	if (len + 3 >= CM) n_full++;
	if (qt >= MAXQ) FAIL("model queue overflow (tester)");
	q[qt].data = buf; q[qt].len = len; qt++;
	q_cost += len + OVERHEAD;
	q_words += NW(len);
	if (!(flags & QB_RB_FLAG_NO_SEMAPHORE)) {
		if (qb_rb_chunks_used(rb) != (ssize_t)(qt - qh)) FAIL("chunks_used %zd != model %zu after write", qb_rb_chunks_used(rb), qt - qh);
	}
}

static void pop_model(void)
{
	q_cost -= q[qh].len + OVERHEAD;
	q_words -= NW(q[qh].len);
	free(q[qh].data);
	q[qh].data = NULL;
	qh++;
}

static void do_read(qb_ringbuffer_t *rb)
{
	size_t blen;
	uint8_t *buf;
	ssize_t res;
	if (qh == qt) {
		uint8_t tmp[8];
		res = qb_rb_chunk_read(rb, tmp, sizeof(tmp), 0);
		LOG("read on empty -> %zd", res);
		if (res != -ETIMEDOUT) FAIL("read on empty ring returned %zd", res);
		return;
	}
	blen = q[qh].len + (rndn(2) ? 0 : rndn(64));
	buf = malloc(blen ? blen : 1);
	memset(buf, 0x5a, blen);
	res = qb_rb_chunk_read(rb, buf, blen, 0);
	LOG("read buf=%zu -> %zd (expect %zu)", blen, res, q[qh].len);
	if (res != (ssize_t)q[qh].len) FAIL("read returned %zd, expected chunk of %zu", res, q[qh].len);
	if (q[qh].len && memcmp(buf, q[qh].data, q[qh].len)) {
		size_t i; for (i = 0; i < q[qh].len && buf[i] == q[qh].data[i]; i++) ;
		FAIL("read payload differs at byte %zu of %zu", i, q[qh].len);
	}
	{ size_t i; for (i = q[qh].len; i < blen; i++) if (buf[i] != 0x5a) FAIL("read wrote past chunk length"); }
	free(buf);
	pop_model();
	n_reads++;
}

static void do_small_read(qb_ringbuffer_t *rb)
{
	size_t blen;
	uint8_t *buf;
	ssize_t res;
	uint32_t w0, r0, w1, r1; ssize_t f0, f1, c0, c1;
	if (qh == qt || q[qh].len == 0) return;
	blen = rndn(2) ? q[qh].len - 1 : rndn(q[qh].len);
	buf = malloc(blen ? blen : 1);
	snapshot(rb, &w0, &r0, &f0, &c0);
	res = qb_rb_chunk_read(rb, buf, blen, 0);
	LOG("small read buf=%zu -> %zd", blen, res);
	if (res != -ENOBUFS) FAIL("read into too-small buffer (%zu < %zu) returned %zd", blen, q[qh].len, res);
	snapshot(rb, &w1, &r1, &f1, &c1);
	if (w0 != w1 || r0 != r1 || f0 != f1 || c0 != c1) FAIL("too-small read changed state");
	free(buf);
	check_head_unchanged(rb, "too-small read");
	n_small++;
}

static void do_peek(qb_ringbuffer_t *rb, int reclaim)
{
	void *p = NULL;
	ssize_t res = qb_rb_chunk_peek(rb, &p, 0);
	LOG("peek -> %zd%s", res, reclaim ? " +reclaim" : "");
	if (qh == qt) {
		if (flags & QB_RB_FLAG_NO_SEMAPHORE) {
			if (res >= 0 && res != 0) FAIL("peek on empty returned %zd", res);
		} else if (res != 0) FAIL("peek on empty (sem) returned %zd", res);
		if (reclaim) {
			uint32_t w0, r0, w1, r1; ssize_t f0, f1, c0, c1;
			snapshot(rb, &w0, &r0, &f0, &c0);
			qb_rb_chunk_reclaim(rb);
			snapshot(rb, &w1, &r1, &f1, &c1);
			if (w0 != w1 || r0 != r1 || f0 != f1 || c0 != c1) FAIL("reclaim on empty changed state");
		}
		return;
	}
	if (res != (ssize_t)q[qh].len) FAIL("peek returned %zd, expected %zu", res, q[qh].len);
	if (q[qh].len && memcmp(p, q[qh].data, q[qh].len)) FAIL("peek payload differs");
	n_peeks++;
	if (reclaim) {
		qb_rb_chunk_reclaim(rb);
		pop_model();
		n_recl++;
		if (!(flags & QB_RB_FLAG_NO_SEMAPHORE)) {
			if (qb_rb_chunks_used(rb) != (ssize_t)(qt - qh)) FAIL("chunks_used %zd != model %zu after reclaim", qb_rb_chunks_used(rb), qt - qh);
		}
	}
}

static const size_t special_sizes[] = {
	0, 1, 2, 3, 4, 5, 7, 8, 11, 12, 13, 15, 16, 17, 100, 2000,
	4096 - 13 - 1, 4096 - 13, 4096 - 13 + 1, 4096 - 12, 4096 - 16, 4095, 4096, 4097,
	8192 - 13 - 1, 8192 - 13, 8192 - 13 + 1, 8191, 8192, 8193,
	12288 - 13, 12288 - 12, 16384 - 13, 16384, 65536 - 13, 65536 - 12, 65536
};

int main(int argc, char **argv)
{
	uint64_t seed = argc > 1 ? strtoull(argv[1], NULL, 0) : 1;
	unsigned long rounds = argc > 2 ? strtoul(argv[2], NULL, 0) : 100;
	unsigned long ops = argc > 3 ? strtoul(argv[3], NULL, 0) : 2000;
	size_t maxS = argc > 4 ? strtoul(argv[4], NULL, 0) : 20000;
	long fixedS = argc > 5 ? strtol(argv[5], NULL, 0) : -1;
	unsigned long r, i;
	static const uint32_t modes[] = {
		QB_RB_FLAG_NO_SEMAPHORE,
		QB_RB_FLAG_SHARED_THREAD,
		0,
		QB_RB_FLAG_SHARED_PROCESS | QB_RB_FLAG_NO_SEMAPHORE,
		QB_RB_FLAG_SHARED_PROCESS,
	};
	verbose = getenv("FUZZ_VERBOSE") != NULL;
	int owpct = getenv("FUZZ_OW") ? atoi(getenv("FUZZ_OW")) : 0;
	rng_s = seed * 0x9E3779B97F4A7C15ULL + 0x1234567;
	for (i = 0; i < 10; i++) rnd();

	for (r = 0; r < rounds; r++) {
		char name[128];
		qb_ringbuffer_t *rb, *rb2 = NULL, *wrb;
		int bias;
		round_no = r;
		if (fixedS >= 0) S = fixedS;
		else if (rndn(2)) S = special_sizes[rndn(sizeof(special_sizes) / sizeof(special_sizes[0]))];
		else if (rndn(3) == 0) {
			/* around a page multiple */
			S = 4096 * (1 + rndn(8)) - 13 + (long)rndn(9) - 4;
		} else S = rndn(maxS + 1);
		flags = modes[rndn(5)];
		ow = 0;
		if ((flags & QB_RB_FLAG_NO_SEMAPHORE) && owpct && rndn(100) < (unsigned)owpct) { ow = 1; flags |= QB_RB_FLAG_OVERWRITE; }
		snprintf(name, sizeof(name), "h3c07-%d-%lu", (int)getpid(), r);
		rb = qb_rb_open(name, S, flags | QB_RB_FLAG_CREATE, rndn(2) ? 0 : rndn(100));
		if (rb == NULL) { fprintf(stderr, "open S=%zu flags=%x failed: %d\n", S, flags, errno); exit(2); }
		/* every second NO_SEMAPHORE or SHARED_PROCESS ring: the writer uses a second handle
		 * (not for thread-shared semaphores: attaching re-initialises them, see finding2) */
		wrb = rb;
		if (((flags & QB_RB_FLAG_NO_SEMAPHORE) || (flags & QB_RB_FLAG_SHARED_PROCESS)) && rndn(2)) {
			rb2 = qb_rb_open(name, S, flags, 0);
			if (rb2 == NULL) { fprintf(stderr, "second open failed: %d\n", errno); exit(2); }
			wrb = rb2;
		}
		qh = qt = 0; q_cost = 0; q_words = 0; W = rb->shared_hdr->word_size;
		bias = 30 + rndn(50);     /* percent of writes */
		LOG("=== round %lu S=%zu flags=0x%x word_size=%u two_handles=%d", r, S, flags, rb->shared_hdr->word_size, rb2 != NULL);
		CM = qb_rb_chunk_max(rb);
		if (qb_rb_chunk_max(rb) < S) FAIL("chunk_max %zu < S", qb_rb_chunk_max(rb));
		for (i = 0; i < ops; i++) {
			unsigned x = rndn(100);
			n_ops++;
			if (rndn(200) == 0) bias = 10 + rndn(85);
			if (x < (unsigned)bias) do_write(rb, wrb);
			else {
				switch (rndn(6)) {
				case 0: case 1: case 2: do_read(rb); break;
				case 3: do_small_read(rb); break;
				case 4: do_peek(rb, 0); break;
				default: do_peek(rb, 1); break;
				}
			}
			if (qt > MAXQ - 2) break;
		}
		/* drain and compare */
		while (qh != qt) do_read(rb);
		do_read(rb);
		if (qb_rb_space_free(rb) != (ssize_t)(rb->shared_hdr->word_size * 4)) FAIL("drained ring: space_free %zd", qb_rb_space_free(rb));
		if (rb2) qb_rb_close(rb2);
		qb_rb_close(rb);
	}
	printf("seed %llu ok: ops=%lu accepted=%lu refused=%lu reads=%lu smallreads=%lu peeks=%lu reclaims=%lu allocs=%lu ringfilling=%lu\n",
	       (unsigned long long)seed, n_ops, n_acc, n_ref, n_reads, n_small, n_peeks, n_recl, n_allocs, n_full);
	return 0;
}
