#include <stdio.h>
#include <stdlib.h>
#include <string.h>
#include <errno.h>
#include <unistd.h>
#include <qb/qbdefs.h>
#include <qb/qbrb.h>
#include "ringbuffer_int.h"
int main(void){
	char name[64]; char buf[64]; ssize_t r;
	snprintf(name,sizeof name,"h3c07t1-%d",(int)getpid());
	qb_ringbuffer_t *rb = qb_rb_open(name, 2000, QB_RB_FLAG_SHARED_PROCESS|QB_RB_FLAG_CREATE, 0);
	printf("SHARED_PROCESS create: %p errno %d\n", (void*)rb, errno);
	if (rb) qb_rb_close(rb);
	rb = qb_rb_open(name, 2000, QB_RB_FLAG_SHARED_THREAD|QB_RB_FLAG_CREATE, 0);
	printf("w1 %zd\n", qb_rb_chunk_write(rb, "aaaa", 4));
	printf("w2 %zd\n", qb_rb_chunk_write(rb, "bbbbb", 5));
	printf("chunks %zd\n", qb_rb_chunks_used(rb));
	qb_ringbuffer_t *rb2 = qb_rb_open(name, 2000, QB_RB_FLAG_SHARED_THREAD, 0);
	printf("second open %p; chunks %zd\n", (void*)rb2, qb_rb_chunks_used(rb));
	r = qb_rb_chunk_read(rb, buf, sizeof buf, 0); printf("read %zd\n", r);
	r = qb_rb_chunk_read(rb, buf, sizeof buf, 0); printf("read %zd\n", r);
	if (rb2) qb_rb_close(rb2);
	qb_rb_close(rb);
	return 0;
}
