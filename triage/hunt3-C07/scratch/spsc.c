#include <stdio.h>
#include <stdlib.h>
#include <string.h>
#include <errno.h>
#include <unistd.h>
#include <pthread.h>
#include <sched.h>
#include <qb/qbdefs.h>
#include <qb/qbrb.h>
static qb_ringbuffer_t *rb;
static size_t S; static unsigned long N; static int sem;
static uint64_t mix(uint64_t x){x^=x>>33;x*=0xff51afd7ed558ccdULL;x^=x>>33;x*=0xc4ceb9fe1a85ec53ULL;x^=x>>33;return x;}
static size_t lenof(unsigned long i){ uint64_t h=mix(i*77+1); switch(h&3){case 0: return (h>>8)%17; case 1: return (h>>8)%(S+1); default: return (h>>8)%(S/8+1);} }
static void gen(unsigned long i, unsigned char *b, size_t len){ size_t k; uint64_t h=mix(i); for(k=0;k<len;k++){ if((k&7)==0) h=mix(h+k); b[k]=(unsigned char)(h>>((k&7)*8)); } if (len>=8 && (i&3)==0){ uint32_t m=0xA1A1A1A1; size_t o; for(o=0;o+4<=len;o+=4) memcpy(b+o,&m,4);} }
static void *writer(void *a){ unsigned long i; unsigned char *b=malloc(S+1); for(i=0;i<N;i++){ size_t len=lenof(i); gen(i,b,len); for(;;){ ssize_t r=qb_rb_chunk_write(rb,b,len); if(r==(ssize_t)len)break; if(r!=-EAGAIN){fprintf(stderr,"write %lu -> %zd\n",i,r);exit(1);} sched_yield(); } } return NULL; }
static void *reader(void *a){ unsigned long i; unsigned char *b=malloc(S+1),*e=malloc(S+1); for(i=0;i<N;i++){ size_t len=lenof(i); ssize_t r; gen(i,e,len); for(;;){ if ((i&1)==0) { r=qb_rb_chunk_read(rb,b,S+1,sem?50:0); if(r==-ETIMEDOUT){sched_yield();continue;} } else { void *p; r=qb_rb_chunk_peek(rb,&p,sem?50:0); if ((sem && r==0 && len!=0) || r==-EBADMSG){sched_yield();continue;} if (sem && r==0 && len==0) { /* ambiguous: empty or zero chunk */ if (qb_rb_chunks_used(rb)==0) {sched_yield();continue;} } if(r>=0){memcpy(b,p,r); qb_rb_chunk_reclaim(rb);} } break; } if(r!=(ssize_t)len){fprintf(stderr,"VIOLATION chunk %lu: got %zd expected %zu\n",i,r,len);exit(1);} if(memcmp(b,e,len)){fprintf(stderr,"VIOLATION chunk %lu payload differs\n",i);exit(1);} } return NULL; }
int main(int argc,char**argv){ char name[64]; pthread_t w,r; S=strtoul(argv[1],0,0); N=strtoul(argv[2],0,0); sem=atoi(argv[3]); snprintf(name,sizeof name,"h3c07spsc-%d",(int)getpid()); rb=qb_rb_open(name,S,QB_RB_FLAG_CREATE|(sem?QB_RB_FLAG_SHARED_THREAD:QB_RB_FLAG_NO_SEMAPHORE),0); if(!rb)return 2; pthread_create(&w,0,writer,0); pthread_create(&r,0,reader,0); pthread_join(w,0); pthread_join(r,0); qb_rb_close(rb); printf("spsc S=%zu N=%lu sem=%d ok\n",S,N,sem); return 0; }
