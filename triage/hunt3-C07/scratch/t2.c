#include <stdio.h>
#include <string.h>
#include <unistd.h>
#include <qb/qbdefs.h>
#include <qb/qbrb.h>
int main(void){
	char name[64]; static char buf[4096]; int i;
	snprintf(name,sizeof name,"h3c07t2-%d",(int)getpid());
	qb_ringbuffer_t *rb = qb_rb_open(name, 4083, QB_RB_FLAG_CREATE|QB_RB_FLAG_NO_SEMAPHORE, 0);
	/* 3 chunks of 1000 -> 252 words each; read 2, write 2 more: write_pt wraps below read_pt */
	for (i=0;i<3;i++) qb_rb_chunk_write(rb, buf, 1000);
	printf("3 chunks: used %zd (expect %d) free %zd\n", qb_rb_space_used(rb), 3*252*4, qb_rb_space_free(rb));
	qb_rb_chunk_read(rb, buf, 4096, 0); qb_rb_chunk_read(rb, buf, 4096, 0);
	printf("1 chunk: used %zd (expect %d)\n", qb_rb_space_used(rb), 252*4);
	qb_rb_chunk_write(rb, buf, 1000); qb_rb_chunk_write(rb, buf, 1000);
	printf("3 chunks wrapped: used %zd (expect %d) free %zd\n", qb_rb_space_used(rb), 3*252*4, qb_rb_space_free(rb));
	qb_rb_close(rb); return 0; }
