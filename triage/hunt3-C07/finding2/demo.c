/*
 * C07 finding 2: attaching a second handle to a ring with a thread-shared
 * semaphore re-initialises the semaphore: the chunks written so far can no
 * longer be read.
 * exit 0 = property held, 1 = violated.
 */
#include <stdio.h>
#include <stdlib.h>
#include <string.h>
#include <errno.h>
#include <unistd.h>
#include <qb/qbdefs.h>
#include <qb/qbrb.h>

static int run(uint32_t flags, const char *what)
{
	char name[64];
	char buf[64];
	ssize_t r1, r2, c0, c1;
	qb_ringbuffer_t *rb, *rb2;
	int bad = 0;

	snprintf(name, sizeof(name), "h3c07demo2-%d", (int)getpid());
	rb = qb_rb_open(name, 2000, flags | QB_RB_FLAG_CREATE, 0);
	if (rb == NULL) { printf("%s: create failed (errno %d), skipped\n", what, errno); return 0; }
	r1 = qb_rb_chunk_write(rb, "aaaa", 4);
	r2 = qb_rb_chunk_write(rb, "bbbbb", 5);
	printf("%s: write -> %zd, write -> %zd\n", what, r1, r2);
	c0 = qb_rb_chunks_used(rb);
	rb2 = qb_rb_open(name, 2000, flags, 0);		/* attach, no QB_RB_FLAG_CREATE */
	if (rb2 == NULL) { printf("%s: attach refused (errno %d): fine\n", what, errno); qb_rb_close(rb); return 0; }
	c1 = qb_rb_chunks_used(rb);
	printf("%s: chunks_used before attach %zd, after attach %zd\n", what, c0, c1);
	r1 = qb_rb_chunk_read(rb, buf, sizeof(buf), 0);
	r2 = qb_rb_chunk_read(rb, buf, sizeof(buf), 0);
	printf("%s: read -> %zd (expected 4), read -> %zd (expected 5)\n", what, r1, r2);
	if (r1 != 4 || r2 != 5) bad = 1;
	qb_rb_close(rb2);
	qb_rb_close(rb);
	return bad;
}

int main(void)
{
	int bad = 0;
	bad |= run(QB_RB_FLAG_SHARED_PROCESS, "SHARED_PROCESS");
	bad |= run(QB_RB_FLAG_SHARED_PROCESS | QB_RB_FLAG_NO_SEMAPHORE, "SHARED_PROCESS|NO_SEMAPHORE");
	bad |= run(QB_RB_FLAG_SHARED_THREAD, "SHARED_THREAD");
	bad |= run(0, "flags 0");
	printf(bad ? "RESULT: VIOLATED\n" : "RESULT: property held\n");
	return bad;
}
