#!/bin/sh
# usage: demo.sh <tree>      exit 0 = property held, non-zero = violated
T=${1:-/repo}
D=$(cd "$(dirname "$0")" && pwd)
gcc -g -O1 -fsanitize=address,undefined -fno-sanitize-recover=undefined \
  -DHAVE_CONFIG_H -I$T/include -I$T/include/qb -I$T/lib \
  -o $D/demo $D/demo.c $T/lib/ringbuffer.c $T/lib/ringbuffer_helper.c $T/lib/unix.c \
  -L$T/lib/.libs -lqb -lpthread || exit 99
LD_LIBRARY_PATH=$T/lib/.libs $D/demo
rc=$?
rm -f /dev/shm/qb-h3c07demo2-*-header /dev/shm/qb-h3c07demo2-*-data
exit $rc
